/-
  `-r E` versus `BEGINFILE { $ = E }` (C14), builtins, part 2: the natives, the assignment
  machinery and the mutual induction over all evaluator functions for the invariant `InvB`
  (after Lemmas/NoPanicEval.lean and Lemmas/NoPanicAll.lean).
-/
import Jqawk.Lemmas.SelectorBi

set_option linter.unusedVariables false
set_option linter.unusedSimpArgs false
set_option linter.unusedSectionVars false

namespace Jqawk
namespace Sel

variable {P : Region} {h0 : Heap} {b0 : Bytes → Option CellId} {K : Option CellId → Prop}

/-- side conditions: region membership and value goodness from the context (extensible) -/
syntax "bp_side" : tactic
macro_rules | `(tactic| bp_side) => `(tactic| first
  | assumption
  | trivial
  | exact RegM.nil
  | exact RegL.empty
  | exact RegL.nil
  | (intro _ h; cases h; done)
  | (apply RegM.objInsert <;> bp_side)
  | (apply RegM.foldInsert <;> bp_side)
  | (simp only [GoodV, SpecOK, OptReg, InR, InA, InO, ExReg, OptRegM, OptRegMB, NatResOK, Tr, and_self, and_true,
      true_and, List.toList_toArray] at *; first | assumption | trivial | (constructor <;> assumption)))

/-- leaves: the primitives, with their side conditions discharged from the context -/
macro "bp_leaf" : tactic => `(tactic| first
  | (with_reducible_and_instances first
      | exact BP.oof
      | exact BP.throwSig _
      | exact BP.throwUnmodelled _
      | exact BP.throwRt _ _
      | exact BP.getSt
      | exact BP.getHeap
      | exact BP.emit _)
  | ((with_reducible_and_instances refine BP.getVariable ?_) <;> bp_side)
  | ((with_reducible_and_instances refine BP.pure ?_) <;> bp_side)
  | ((with_reducible_and_instances refine BP.readCell ?_) <;> bp_side)
  | (with_reducible_and_instances exact BP.readCellAny _)
  | ((with_reducible_and_instances refine BP.newCell ?_) <;> bp_side)
  | ((with_reducible_and_instances refine BP.writeCell ?_ ?_) <;> bp_side)
  | ((with_reducible_and_instances refine BP.setHeap ?_) <;> bp_side)
  | ((with_reducible_and_instances refine BP.allocArrM ?_) <;> bp_side)
  | ((with_reducible_and_instances refine BP.allocObjM ?_) <;> bp_side)
  | ((with_reducible_and_instances refine BP.setReturnVal ?_) <;> bp_side)
  | ((with_reducible_and_instances refine BP.setLocal ?_ ?_) <;> bp_side)
  | ((with_reducible_and_instances refine BP.copyValue ?_ ?_) <;> bp_side)
  | ((with_reducible_and_instances refine BP.bindAll ?_) <;> bp_side)
  | ((with_reducible_and_instances refine BP.bindParams ?_ ?_) <;> bp_side)
  | ((with_reducible_and_instances refine BP.allocCells ?_) <;> bp_side)
  | ((with_reducible_and_instances refine BP.newArrayOf ?_) <;> bp_side))

/-- one decomposition step for goals `BP P h0 b0 K (…) R` built from the primitives -/
macro "bp_step" : tactic => `(tactic| first
  | bp_leaf
  | (with_reducible_and_instances apply BP.bind)
  | (with_reducible intro _ _)
  | split
  | dsimp only)

macro "bp_auto" : tactic => `(tactic| repeat' bp_step)

/-- the natives return values of the region -/
theorem BP.callNative (f : Native) {args : List Val} (hargs : GoodVs P args) {this : Option Val}
    (hthis : ∀ v, this = some v → GoodV P v) :
    BP P h0 b0 K (Jqawk.callNative f args this) (NatResOK P) := by
  unfold Jqawk.callNative
  apply BP.bind BP.getHeap
  intro h hh
  have harg0 : GoodV P (args.getD 0 .unknown) := hargs.getD 0
  cases f <;> dsimp only
  case arrPush =>
    split
    · rename_i a
      have ha : P.A ≤ a := hthis _ rfl
      split
      · exact BP.pure trivial
      · refine BP.bind (BP.newCell harg0) (fun c hc => BP.bind BP.getHeap (fun h2 hh2 => ?_))
        exact BP.bind (BP.setHeap (hh2.setArr a (fun _ => regL_push (hh2.arrs a ha) hc)))
          (fun _ _ => BP.pure ha)
    · exact BP.pure trivial
  case arrPop =>
    split
    · rename_i a
      have ha : P.A ≤ a := hthis _ rfl
      split
      · exact BP.pure trivial
      · split
        · exact BP.pure trivial
        · rename_i hne
          have hlt : (h.arr a).size - 1 < (h.arr a).size := by
            have : (h.arr a).size ≠ 0 := by simpa using hne
            omega
          exact BP.bind (BP.setHeap (hh.setArr a (fun _ => regL_pop (hh.arrs a ha))))
            (fun _ _ => BP.pure (hh.cells _ (hh.arr_getD ha hlt)))
    · exact BP.pure trivial
  case arrPopfirst =>
    split
    · rename_i a
      have ha : P.A ≤ a := hthis _ rfl
      split
      · exact BP.pure trivial
      · split
        · exact BP.pure trivial
        · rename_i hne
          have hlt : 0 < (h.arr a).size := by
            have : (h.arr a).size ≠ 0 := by simpa using hne
            omega
          exact BP.bind (BP.setHeap (hh.setArr a (fun _ => regL_extract (hh.arrs a ha) _ _)))
            (fun _ _ => BP.pure (hh.cells _ (hh.arr_getD ha hlt)))
    · exact BP.pure trivial
  case arrContains =>
    split
    · split
      · exact BP.pure trivial
      · exact BP.pure (containsLoop_ok _ _ _)
    · exact BP.pure trivial
  case arrSort =>
    split
    · rename_i a
      have ha : P.A ≤ a := hthis _ rfl
      refine BP.bind (BP.newArrayOf ?_) (fun r hr => BP.pure hr)
      split
      · exact (sortCopies_good hh.toHeapOK (hh.arrs a ha)).mergeSort _
      · exact (sortCopies_good hh.toHeapOK (hh.arrs a ha)).mergeSort _
    · exact BP.pure trivial
  case objPluck =>
    split
    · rename_i o
      have ho : P.O ≤ o := hthis _ rfl
      split
      · exact BP.pure trivial
      · rename_i kvs hkvs
        have hg := pluckCollect_good hh.toHeapOK (hh.objs o ho) args [] kvs (by intro kv h; cases h) hkvs
        refine BP.bind (BP.allocCells (vs := kvs.map (·.2)) ?_) (fun cells hcells =>
          BP.bind BP.getHeap (fun h2 hh2 => ?_))
        · intro v hv
          obtain ⟨kv, hkv, rfl⟩ := List.mem_map.mp hv
          exact hg kv hkv
        · have hao := hh2.allocObj (m := ((kvs.map (·.1)).zip cells).foldl
            (fun m kc => objInsert m kc.1 kc.2) []) (regM_zip_fold hcells)
          exact BP.bind (BP.setHeap hao.1) (fun _ _ => BP.pure hao.2)
    · exact BP.pure trivial
  case strSplit =>
    split
    · split
      · exact BP.pure trivial
      · refine BP.bind (BP.newArrayOf ?_) (fun r hr => BP.pure hr)
        intro v hv
        obtain ⟨x, _, rfl⟩ := List.mem_map.mp hv
        trivial
    · exact BP.bind (BP.newArrayOf GoodVs.nil) (fun r hr => BP.pure hr)
  all_goals bp_auto

/-! ### speculative members: `createSpeculative` never finds a cell without a parent -/

/-- the value carries speculative-member information (`ParentObj != nil`) -/
def HasSpec : Val → Prop
  | .nil (some _) => True
  | .native _ _ (some _) => True
  | .str _ (some _) => True
  | _ => False

def ExGood (P : Region) : Except String Val → Prop
  | .ok v => GoodV P v
  | .error _ => True

/-- allocate a cell and continue with a computation that may rely on the cell's content -/
theorem BP.newCell_then {β : Type} {v : Val} (hv : GoodV P v) {f : CellId → EM β} {R : β → Prop}
    (hf : ∀ c s, InvB P h0 b0 K s → P.N ≤ c → s.heap.get c = v → BPat P h0 b0 K (f c) R s) :
    BP P h0 b0 K (Jqawk.newCell v >>= f) R := by
  intro s hs
  have h := BP.newCell (K := K) hv s hs
  show BPres P h0 b0 K R (EM.bind (Jqawk.newCell v) f s)
  unfold EM.bind
  unfold BPat Jqawk.newCell at h
  simp only [Jqawk.newCell]
  exact hf _ _ h.1 h.2 (Heap.get_alloc_new s.heap v)

theorem createSpeculative_np : ∀ (n : Nat) (c : CellId) (s : St), InvB P h0 b0 K s → P.N ≤ c →
    HasSpec (s.heap.get c) → BPat P h0 b0 K (createSpeculative n c) (ExReg P) s
  | 0, c, s, hs, hc, hsp => trivial
  | n + 1, c, s, hs, hc, hsp => by
    unfold createSpeculative
    refine BP.bindAt (R1 := fun sv => GoodV P sv ∧ HasSpec sv) ⟨hs, hs.heap.cells c hc, hsp⟩ ?_
    intro sv ⟨hg, hsv⟩
    have tail : ∀ (target : Val) (member : Val), GoodV P target →
        BP P h0 b0 K (do
          let h ← getHeap
          match setMember h target member c with
          | .error m => Pure.pure (.error m)
          | .ok (c', h') => do setHeap h'; Pure.pure (.ok c') : EM (Except String CellId)) (ExReg P) := by
      intro target member ht
      refine BP.bind BP.getHeap (fun h hh => ?_)
      split
      · exact BP.pure trivial
      · rename_i c' h' hsm
        have := setMember_okB hh ht hc hsm
        exact BP.bind (BP.setHeap this.1) (fun _ _ => BP.pure this.2)
    have body : ∀ spec : SpecRef, P.N ≤ spec.parent →
        BP P h0 b0 K (do
          let pv ← readCell spec.parent
          match pv with
          | .nil none => return .error "could not create this object"
          | _ =>
            let memberToSet : Val := match spec.key with
              | .str s => .str s none
              | .num x => .num x
            let objToSet ← (match pv with
              | .unknown => do
                let newObj : Val ← (match memberToSet with
                  | .num _ => do let a ← allocArrM #[]; Pure.pure (Val.arr a)
                  | _ => do let o ← allocObjM []; Pure.pure (Val.obj o) : EM Val)
                writeCell spec.parent newObj
                return Except.ok newObj
              | .nil (some _) => do
                let pc ← newCell pv
                match (← createSpeculative n pc) with
                | .error m => return Except.error m
                | .ok newParent =>
                  let h ← getHeap
                  let newObj : Val × Heap := match memberToSet with
                    | .str .. => let (o, h') := h.allocObj []; (.obj o, h')
                    | _ => let (a, h') := h.allocArr #[]; (.arr a, h')
                  setHeap newObj.2
                  writeCell newParent newObj.1
                  writeCell spec.parent newObj.1
                  return Except.ok newObj.1
              | _ => return Except.ok pv : EM (Except String Val))
            match objToSet with
            | .error m => return .error m
            | .ok target =>
              let h ← getHeap
              match setMember h target memberToSet c with
              | .error m => return .error m
              | .ok (c', h') => setHeap h'; return .ok c') (ExReg P) := by
      intro spec hpar
      refine BP.bind (BP.readCell hpar) (fun pv hpv => ?_)
      split
      · exact BP.pure trivial
      · dsimp only
        refine BP.bind (R1 := ExGood P) ?_ (fun r hr => ?_)
        · split
          · refine BP.bind (R1 := GoodV P) ?_ (fun newObj hno =>
              BP.bind (BP.writeCell hpar hno) (fun _ _ => BP.pure hno))
            split
            · exact BP.bind (BP.allocArrM RegL.empty) (fun a ha => BP.pure ha)
            · exact BP.bind (BP.allocObjM RegM.nil) (fun o ho => BP.pure ho)
          · rename_i sp
            refine BP.newCell_then hpv (fun pc s1 hs1 hpc hget => ?_)
            refine BP.bindAt (createSpeculative_np n pc s1 hs1 hpc (by rw [hget]; trivial)) (fun r hr => ?_)
            split
            · exact BP.pure trivial
            · rename_i newParent
              refine BP.bind BP.getHeap (fun h hh => ?_)
              have hno : HeapB P h0 (match (match spec.key with
                    | .str s => Val.str s none
                    | .num x => Val.num x) with
                  | .str .. => let (o, h') := h.allocObj []; ((.obj o, h') : Val × Heap)
                  | _ => let (a, h') := h.allocArr #[]; (.arr a, h')).2 ∧
                GoodV P (match (match spec.key with
                    | .str s => Val.str s none
                    | .num x => Val.num x) with
                  | .str .. => let (o, h') := h.allocObj []; ((.obj o, h') : Val × Heap)
                  | _ => let (a, h') := h.allocArr #[]; (.arr a, h')).1 := by
                split
                · exact hh.allocObj RegM.nil
                · exact hh.allocArr (by intro x hx; simp at hx)
              exact BP.bind (BP.setHeap hno.1) (fun _ _ => BP.bind (BP.writeCell (show P.N ≤ newParent from hr) hno.2) (fun _ _ =>
                BP.bind (BP.writeCell hpar hno.2) (fun _ _ => BP.pure hno.2)))
          · exact BP.pure hpv
        · split
          · exact BP.pure trivial
          · rename_i target
            exact tail target _ hr
    cases sv with
    | nil sp => cases sp with
      | none => exact absurd hsv (by simp [HasSpec])
      | some spec => exact body spec hg
    | native f b sp => cases sp with
      | none => exact absurd hsv (by simp [HasSpec])
      | some spec => exact body spec hg.2
    | str x sp => cases sp with
      | none => exact absurd hsv (by simp [HasSpec])
      | some spec => exact body spec hg
    | _ => exact absurd hsv (by simp [HasSpec])

theorem BPat.readCell_bind {β : Type} {c : CellId} {f : Val → EM β} {R : β → Prop} {s : St}
    (h : BPat P h0 b0 K (f (s.heap.get c)) R s) : BPat P h0 b0 K (readCell c >>= f) R s := h

theorem BPat.getHeap_bind {β : Type} {f : Heap → EM β} {R : β → Prop} {s : St}
    (h : BPat P h0 b0 K (f s.heap) R s) : BPat P h0 b0 K (getHeap >>= f) R s := h

theorem needsCreate_hasSpec {lv : Val}
    (h : (match lv with
      | .nil (some _) => true
      | .native _ _ (some _) => true
      | .str _ (some _) => true
      | _ => false) = true) : HasSpec lv := by
  split at h <;> first | trivial | cases h

/-- `evalAssignment`: a speculative target is materialised first — it always has a parent -/
theorem BP.evalAssignment (pos : Nat) {l r : CellId} (hl : P.N ≤ l) (hr : P.N ≤ r) :
    BP P h0 b0 K (Jqawk.evalAssignment pos l r) (InR P) := by
  intro s hs
  unfold Jqawk.evalAssignment
  apply BPat.readCell_bind
  dsimp only
  refine BP.bindAt (R1 := InR P) ?_ (fun target ht => BP.bind (BP.copyValue hr ht) (fun x hx => ?_))
  · have create : HasSpec (s.heap.get l) → BPat P h0 b0 K (do
          let h ← Jqawk.getHeap
          match (← createSpeculative (h.cells.size + 2) l) with
          | .error m => Jqawk.throwRt pos m
          | .ok c => Pure.pure c : EM CellId) (InR P) s := by
      intro hsp
      apply BPat.getHeap_bind
      refine BP.bindAt (createSpeculative_np _ l s hs hl hsp) (fun x hx => ?_)
      split
      · exact BP.throwRt _ _
      · exact BP.pure hx
    split
    · rename_i heq; simp only [↓reduceIte]; exact create (by rw [heq]; trivial)
    · rename_i heq; simp only [↓reduceIte]; exact create (by rw [heq]; trivial)
    · rename_i heq; simp only [↓reduceIte]; exact create (by rw [heq]; trivial)
    · simp only [Bool.false_eq_true, ↓reduceIte]; exact BP.pure hl s hs
  · split
    · exact BP.throwRt _ _
    · exact BP.pure hx

/-- the member / index step: every cell it hands out lies in the region; an unset base is only
    read (it yields a speculative null whose parent is the base cell) -/
theorem BP.memberStep (pos : Nat) {l r : CellId} (hl : P.N ≤ l) (hr : P.N ≤ r) :
    BP P h0 b0 K (Jqawk.memberStep pos l r) (InR P) := by
  unfold Jqawk.memberStep
  refine BP.bind (BP.readCell hr) (fun rv hrv => BP.bind (BP.readCell hl) (fun lv hlv => ?_))
  split
  · exact BP.newCell hl
  · refine BP.bind BP.getHeap (fun h hh => ?_)
    split
    · exact BP.throwRt _ _
    · exact BP.newCell hl
    · exact BP.newCell ⟨hl, hl⟩
    · exact BP.newCell hl
    · exact BP.newCell hl
    · rename_i c hgm
      have hc := getMember_cell hh.toHeapOK hlv hgm
      split
      · exact BP.newCell ⟨hl, hl⟩
      · exact BP.pure hc

theorem RegMB.nil : RegMB P [] := by intro kc h; cases h

theorem RegMB.objInsert {m : List (Bytes × CellId)} (hm : RegMB P m) {k : Bytes} (hk : isB k = false)
    {c : CellId} (hc : P.N ≤ c) : RegMB P (objInsert m k c) := by
  induction m with
  | nil => intro kc h; simp [Jqawk.objInsert] at h; subst h; exact ⟨hc, hk⟩
  | cons x rest ih =>
    obtain ⟨k0, c0⟩ := x
    unfold Jqawk.objInsert
    split
    · rename_i hk0
      have e0 : k0 = k := by simpa using hk0
      intro kc h
      rcases List.mem_cons.mp h with h | h
      · subst h; exact ⟨hc, by rw [e0]; exact hk⟩
      · exact hm kc (List.mem_cons_of_mem _ h)
    · intro kc h
      rcases List.mem_cons.mp h with h | h
      · subst h; exact hm _ (List.mem_cons_self ..)
      · exact ih (fun x hx => hm x (List.mem_cons_of_mem _ hx)) kc h

theorem RegMB.foldInsert {l acc : List (Bytes × CellId)} (hl : RegMB P l) (hacc : RegMB P acc) :
    RegMB P (l.foldl (fun m kv => Jqawk.objInsert m kv.1 kv.2) acc) := by
  induction l generalizing acc with
  | nil => exact hacc
  | cons x rest ih =>
    simp only [List.foldl_cons]
    exact ih (fun y hy => hl y (List.mem_cons_of_mem _ hy))
      (hacc.objInsert (hl x (List.mem_cons_self ..)).2 (hl x (List.mem_cons_self ..)).1)

structure AllBP (P : Region) (h0 : Heap) (b0 : Bytes → Option CellId) (prog : Program) (n : Nat) : Prop where
  expr : ∀ e, e.wfB = true → okE e = true → BP P h0 b0 (KSet P) (evalExpr prog n e) (InR P)
  objItems : ∀ pos items acc, wfKVs items = true → okKVs items = true → RegM P acc →
    BP P h0 b0 (KSet P) (evalObjItems prog n pos items acc) (RegM P)
  exprList : ∀ es c, wfEs es = true → okEs es = true →
    BP P h0 b0 (KSet P) (evalExprList prog n es c) (RegL P)
  matchCases : ∀ pos v cs, wfCases cs = true → okCases cs = true → P.N ≤ v →
    BP P h0 b0 (KSet P) (evalMatchCases prog n pos v cs) (InR P)
  caseMatch : ∀ v ps, wfEs ps = true → okEs ps = true → P.N ≤ v →
    BP P h0 b0 (KSet P) (evalCaseMatch prog n v ps) (OptRegMB P)
  arrayCaseMatch : ∀ v ps, wfEs ps = true → okEs ps = true → P.N ≤ v →
    BP P h0 b0 (KSet P) (evalArrayCaseMatch prog n v ps) (OptRegMB P)
  matchElems : ∀ cs ps acc, wfEs ps = true → okEs ps = true → RegL P cs → RegMB P acc →
    BP P h0 b0 (KSet P) (Jqawk.matchElems prog n cs ps acc) (OptRegMB P)
  call : ∀ pos f args, RegL P args → BP P h0 b0 (KSet P) (callFunction prog n pos f args) (InR P)
  unary : ∀ e op p, e.wfB = true → okE e = true → BP P h0 b0 (KSet P) (evalUnary prog n e op p) (InR P)
  binary : ∀ l r op, l.wfB = true → r.wfB = true → okE l = true → (op.tag == .is || okE r) = true →
    BP P h0 b0 (KSet P) (evalBinary prog n l r op) (InR P)
  stmt : ∀ st, st.wfB = true → okS st = true → BP P h0 b0 (KSet P) (evalStmt prog n st) Tr
  block : ∀ sts, wfSs sts = true → okSs sts = true → BP P h0 b0 (KSet P) (evalBlock prog n sts) Tr
  whileL : ∀ c b, c.wfB = true → b.wfB = true → okE c = true → okS b = true →
    BP P h0 b0 (KSet P) (whileLoop prog n c b) Tr
  forL : ∀ c p b, c.wfB = true → p.wfB = true → b.wfB = true → okE c = true → okE p = true → okS b = true →
    BP P h0 b0 (KSet P) (forLoop prog n c p b) Tr
  forInL : ∀ l il b items, b.wfB = true → okS b = true → P.N ≤ l → OptReg P il → (∀ it ∈ items, ItemOK P it) →
    BP P h0 b0 (KSet P) (forInLoop prog n l il b items) Tr

/-- `$` is bound while rule code runs, so `getIdentifier` hands out a region cell — for a name
    that is not a builtin name -/
theorem BP.getIdentifier (prog : Program) (t : Token) (hn : isB t.text = false) :
    BP P h0 b0 (KSet P) (Jqawk.getIdentifier prog t) (InR P) := by
  unfold Jqawk.getIdentifier
  split
  · refine BP.bind BP.getSt (fun s hs => ?_)
    split
    · rename_i c hc
      obtain ⟨c', h1, h2⟩ := hs.rr
      rw [hc] at h1; cases h1
      exact BP.pure h2
    · exact BP.throwRt _ _
  · refine BP.bind (BP.getVariable hn) (fun r hr => ?_)
    split
    · exact BP.pure hr
    · exact BP.throwRt _ _

/-- any identifier, as a callee: the cell is only read -/
theorem BP.getIdentifierAny (prog : Program) (t : Token) :
    BP P h0 b0 (KSet P) (Jqawk.getIdentifier prog t) Tr := by
  by_cases hb : isB t.text = true
  · unfold Jqawk.getIdentifier
    split
    · refine BP.bind BP.getSt (fun s hs => ?_)
      split
      · exact BP.pure trivial
      · exact BP.throwRt _ _
    · refine BP.bind (BP.getVariableB hb) (fun r hr => ?_)
      split
      · exact BP.pure trivial
      · exact BP.throwRt _ _
  · exact (BP.getIdentifier prog t (by simpa using hb)).conseq (fun _ _ => trivial)

theorem bp_identAny (prog : Program) (n : Nat) (t : Token) :
    BP P h0 b0 (KSet P) (evalExpr prog n (.ident t)) Tr := by
  cases n with
  | zero => unfold evalExpr; exact BP.oof
  | succ n => unfold evalExpr; exact BP.getIdentifierAny prog t

macro_rules | `(tactic| bp_side) => `(tactic| exact binaryOp_good (by assumption))
macro_rules | `(tactic| bp_side) => `(tactic| exact RegMB.nil)

/-- try every induction hypothesis -/
macro "bp_ih" ih:term : tactic => `(tactic| first
  | exact ($ih).expr _ (by assumption) (by assumption)
  | exact ($ih).objItems _ _ _ (by assumption) (by assumption) (by bp_side)
  | exact ($ih).exprList _ _ (by assumption) (by assumption)
  | exact ($ih).matchCases _ _ _ (by assumption) (by assumption) (by bp_side)
  | exact ($ih).caseMatch _ _ (by assumption) (by assumption) (by bp_side)
  | exact ($ih).arrayCaseMatch _ _ (by assumption) (by assumption) (by bp_side)
  | exact ($ih).matchElems _ _ _ (by assumption) (by assumption) (by bp_side) (by bp_side)
  | exact ($ih).call _ _ _ (by bp_side)
  | exact ($ih).unary _ _ _ (by assumption) (by assumption)
  | exact ($ih).binary _ _ _ (by assumption) (by assumption) (by assumption) (by assumption)
  | exact ($ih).stmt _ (by assumption) (by assumption)
  | exact ($ih).block _ (by assumption) (by assumption)
  | exact ($ih).whileL _ _ (by assumption) (by assumption) (by assumption) (by assumption)
  | exact ($ih).forL _ _ _ (by assumption) (by assumption) (by assumption) (by assumption) (by assumption)
      (by assumption))

macro "bp_ind" ih:term : tactic => `(tactic| repeat' (first
  | (with_reducible_and_instances bp_ih $ih)
  | (with_reducible_and_instances first
      | exact BP.getIdentifier _ _ (by assumption)
      | apply BP.framed)
  | ((with_reducible_and_instances refine BP.evalAssignment _ ?_ ?_) <;> bp_side)
  | ((with_reducible_and_instances refine BP.memberStep _ ?_ ?_) <;> bp_side)
  | ((with_reducible_and_instances refine BP.loopIter ?_ ?_ ?_) <;> (try exact (trivial : Tr ())))
  | bp_step))

theorem allBP_zero (P : Region) (h0 : Heap) (b0 : Bytes → Option CellId) (prog : Program) :
    AllBP P h0 b0 prog 0 := by
  constructor <;> intros <;>
    first
      | (unfold evalExpr; exact BP.oof)
      | (unfold evalObjItems; exact BP.oof)
      | (unfold evalExprList; exact BP.oof)
      | (unfold evalMatchCases; exact BP.oof)
      | (unfold evalCaseMatch; exact BP.oof)
      | (unfold evalArrayCaseMatch; exact BP.oof)
      | (unfold Jqawk.matchElems; exact BP.oof)
      | (unfold callFunction; exact BP.oof)
      | (unfold evalUnary; exact BP.oof)
      | (unfold evalBinary; exact BP.oof)
      | (unfold evalStmt; exact BP.oof)
      | (unfold evalBlock; exact BP.oof)
      | (unfold whileLoop; exact BP.oof)
      | (unfold forLoop; exact BP.oof)
      | (unfold forInLoop; exact BP.oof)

section step
variable (prog : Program) (hF : P.F ≤ prog.functions.length)
  (hwf : ∀ f ∈ prog.functions, f.body.wfB = true) (hokf : ∀ f ∈ prog.functions, okFn f = true)
  (n : Nat) (ih : AllBP P h0 b0 prog n)
include ih

theorem bp_expr (e : Expr) (he : e.wfB = true) (ho : okE e = true) :
    BP P h0 b0 (KSet P) (evalExpr prog (n + 1) e) (InR P) := by
  unfold evalExpr
  cases e with
  | lit t =>
    simp only [Expr.wfB, Expr.nodeOK] at he
    dsimp only
    cases ht : t.tag <;> simp [litTag, ht] at he <;> bp_auto
  | ident t =>
    have hn : isB t.text = false := by simpa [okE] using ho
    dsimp only; exact BP.getIdentifier _ _ hn
  | arr t items => simp only [Expr.wfB] at he; simp only [okE] at ho; dsimp only; bp_ind ih
  | obj t items => simp only [Expr.wfB] at he; simp only [okE] at ho; dsimp only; bp_ind ih
  | unary e op p =>
    simp only [Expr.wfB, Bool.and_eq_true] at he
    obtain ⟨_, he2⟩ := he
    simp only [okE] at ho
    dsimp only; bp_ind ih
  | binary l r op =>
    simp only [Expr.wfB, Bool.and_eq_true] at he
    obtain ⟨⟨_, he2⟩, he3⟩ := he
    simp only [okE, Bool.and_eq_true] at ho
    obtain ⟨ho1, ho2⟩ := ho
    dsimp only; bp_ind ih
  | call f args =>
    simp only [Expr.wfB, Bool.and_eq_true] at he
    obtain ⟨he1, he2⟩ := he
    simp only [okE, Bool.and_eq_true, Bool.or_eq_true] at ho
    obtain ⟨ho1, ho2⟩ := ho
    dsimp only
    refine BP.bind (R1 := Tr) ?_ (fun fc _ => ?_)
    · rcases ho1 with h1 | h1
      · cases f <;> first | (simp [Expr.isIdent] at h1; done) | exact bp_identAny prog n _
      · exact (ih.expr f he1 h1).conseq (fun _ _ => trivial)
    · bp_ind ih
  | match_ t v cases =>
    simp only [Expr.wfB, Bool.and_eq_true] at he
    obtain ⟨he1, he2⟩ := he
    simp only [okE, Bool.and_eq_true] at ho
    obtain ⟨ho1, ho2⟩ := ho
    dsimp only; bp_ind ih

theorem bp_objItems (pos : Nat) (items : List (Bytes × Expr)) (acc : List (Bytes × CellId))
    (h : wfKVs items = true) (ho : okKVs items = true) (hacc : RegM P acc) :
    BP P h0 b0 (KSet P) (evalObjItems prog (n + 1) pos items acc) (RegM P) := by
  cases items with
  | nil => unfold evalObjItems; exact BP.pure hacc
  | cons kv rest =>
    obtain ⟨k, e⟩ := kv
    simp only [wfKVs, Bool.and_eq_true] at h
    obtain ⟨h1, h2⟩ := h
    simp only [okKVs, Bool.and_eq_true] at ho
    obtain ⟨ho1, ho2⟩ := ho
    unfold evalObjItems
    bp_ind ih

theorem bp_exprList (es : List Expr) (c : Bool) (h : wfEs es = true) (ho : okEs es = true) :
    BP P h0 b0 (KSet P) (evalExprList prog (n + 1) es c) (RegL P) := by
  cases es with
  | nil => unfold evalExprList; exact BP.pure RegL.nil
  | cons e rest =>
    simp only [wfEs, Bool.and_eq_true] at h
    obtain ⟨h1, h2⟩ := h
    simp only [okEs, Bool.and_eq_true] at ho
    obtain ⟨ho1, ho2⟩ := ho
    unfold evalExprList
    refine BP.bind (ih.expr _ h1 ho1) (fun v hv => ?_)
    refine BP.bind (R1 := InR P) ?_ (fun c hc => BP.bind (ih.exprList _ _ h2 ho2) (fun cs hcs => BP.pure ?_))
    · split
      · refine BP.bind (BP.newCell trivial) (fun fresh hfresh => BP.bind (BP.copyValue hv hfresh)
          (fun r hr => ?_))
        split
        · exact BP.throwRt _ _
        · exact BP.pure hr
      · exact BP.pure hv
    · intro d hd
      rcases List.mem_cons.mp hd with hd | hd
      · subst hd; exact hc
      · exact hcs d hd

theorem bp_matchCases (pos : Nat) (v : CellId) (cs : List MatchCase) (h : wfCases cs = true)
    (ho : okCases cs = true) (hv : P.N ≤ v) :
    BP P h0 b0 (KSet P) (evalMatchCases prog (n + 1) pos v cs) (InR P) := by
  cases cs with
  | nil => unfold evalMatchCases; exact BP.newCell trivial
  | cons c rest =>
    obtain ⟨pats, body⟩ := c
    simp only [wfCases, Bool.and_eq_true] at h
    obtain ⟨⟨h1, h2⟩, h3⟩ := h
    simp only [okCases, Bool.and_eq_true] at ho
    obtain ⟨⟨ho1, ho2⟩, ho3⟩ := ho
    unfold evalMatchCases
    cases body with
    | expr be =>
      have h2' : be.wfB = true := by simpa [Stmt.wfB] using h2
      have ho2' : okE be = true := by simpa [okS] using ho2
      bp_ind ih
    | _ => bp_ind ih

theorem bp_caseMatch (v : CellId) (ps : List Expr) (h : wfEs ps = true) (ho : okEs ps = true) (hv : P.N ≤ v) :
    BP P h0 b0 (KSet P) (evalCaseMatch prog (n + 1) v ps) (OptRegMB P) := by
  cases ps with
  | nil => unfold evalCaseMatch; exact BP.pure trivial
  | cons p rest =>
    simp only [wfEs, Bool.and_eq_true] at h
    obtain ⟨h1, h2⟩ := h
    simp only [okEs, Bool.and_eq_true] at ho
    obtain ⟨ho1, ho2⟩ := ho
    unfold evalCaseMatch
    cases p with
    | arr t items =>
      have h1' : wfEs items = true := by simpa [Expr.wfB] using h1
      have ho1' : okEs items = true := by simpa [okE] using ho1
      dsimp only; bp_ind ih
    | ident t =>
      have hn : isB t.text = false := by simpa [okE] using ho1
      dsimp only
      refine BP.pure ?_
      intro kc hkc
      simp only [List.mem_singleton] at hkc
      subst hkc; exact ⟨hv, hn⟩
    | _ => dsimp only <;> bp_ind ih

theorem bp_arrayCaseMatch (v : CellId) (ps : List Expr) (h : wfEs ps = true) (ho : okEs ps = true)
    (hv : P.N ≤ v) :
    BP P h0 b0 (KSet P) (evalArrayCaseMatch prog (n + 1) v ps) (OptRegMB P) := by
  unfold evalArrayCaseMatch
  refine BP.bind (BP.readCell hv) (fun x hx => ?_)
  split
  · rename_i a
    refine BP.bind BP.getHeap (fun hp hh => ?_)
    dsimp only
    split
    · exact BP.pure trivial
    · exact ih.matchElems _ _ _ h ho (hh.arrs a hx) RegMB.nil
  · exact BP.pure trivial

theorem bp_matchElems (cs : List CellId) (ps : List Expr) (acc : List (Bytes × CellId))
    (h : wfEs ps = true) (ho : okEs ps = true) (hcs : RegL P cs) (hacc : RegMB P acc) :
    BP P h0 b0 (KSet P) (Jqawk.matchElems prog (n + 1) cs ps acc) (OptRegMB P) := by
  cases cs with
  | nil => unfold Jqawk.matchElems; exact BP.pure hacc
  | cons c cs =>
    cases ps with
    | nil => unfold Jqawk.matchElems; exact BP.pure hacc
    | cons p ps =>
      simp only [wfEs, Bool.and_eq_true] at h
      obtain ⟨h1, h2⟩ := h
      simp only [okEs, Bool.and_eq_true] at ho
      obtain ⟨ho1, ho2⟩ := ho
      have h3 : wfEs [p] = true := by simp [wfEs, h1]
      have ho3 : okEs [p] = true := by simp [okEs, ho1]
      have hc : P.N ≤ c := hcs c (List.mem_cons_self ..)
      have hcs' : RegL P cs := fun x hx => hcs x (List.mem_cons_of_mem _ hx)
      unfold Jqawk.matchElems
      refine BP.bind (ih.caseMatch _ _ h3 ho3 hc) (fun r hr => ?_)
      split
      · exact BP.pure trivial
      · rename_i nb
        exact ih.matchElems _ _ _ h2 ho2 hcs' (RegMB.foldInsert hr hacc)

include hF hwf hokf in
theorem bp_call (pos : Nat) (f : CellId) (args : List CellId) (hargs : RegL P args) :
    BP P h0 b0 (KSet P) (callFunction prog (n + 1) pos f args) (InR P) := by
  unfold callFunction
  refine BP.bind (BP.readCellG f) (fun fv hfv => BP.bind BP.getHeap (fun h hh => ?_))
  have hvals : GoodVs P (args.map h.get) := by
    intro v hv
    obtain ⟨c, hc, rfl⟩ := List.mem_map.mp hv
    exact hh.cells c (hargs c hc)
  dsimp only
  split
  · rename_i nf binding sp
    have hthis : ∀ v, binding.map h.get = some v → GoodV P v := by
      intro v hv
      cases binding with
      | none => cases hv
      | some b => cases hv; exact hh.cells b hfv.1
    refine BP.bind (BP.callNative nf hvals hthis) (fun r hr => ?_)
    split
    · exact BP.throwRt _ _
    · exact BP.newCell hr
    · exact BP.newCell trivial
  · rename_i i
    have hi : i < prog.functions.length := Nat.lt_of_lt_of_le hfv.1 hF
    split
    · rename_i hnone
      exact absurd (List.getElem?_eq_none_iff.mp hnone) (Nat.not_le_of_lt hi)
    · rename_i fd hfd
      have hbody : fd.body.wfB = true := hwf fd (List.mem_of_getElem? hfd)
      have hfn := hokf fd (List.mem_of_getElem? hfd)
      simp only [okFn, Bool.and_eq_true, List.all_eq_true] at hfn
      have hps : ∀ p ∈ fd.args, isB p = false := fun p hp => by simpa using hfn.1.2 p hp
      apply BP.framed
      exact BP.bind (BP.bindParams hps hvals) (fun _ _ =>
        BP.bind (BP.catchReturn (ih.stmt _ hbody hfn.2)) (fun rv hrv => BP.newCell hrv))
  · exact BP.throwRt _ _

theorem bp_unary (e : Expr) (op : Token) (p : Bool) (h : e.wfB = true) (ho : okE e = true) :
    BP P h0 b0 (KSet P) (evalUnary prog (n + 1) e op p) (InR P) := by
  unfold evalUnary
  bp_ind ih

theorem bp_binary (l r : Expr) (op : Token) (hl : l.wfB = true) (hr : r.wfB = true) (hol : okE l = true)
    (hor : (op.tag == .is || okE r) = true) :
    BP P h0 b0 (KSet P) (evalBinary prog (n + 1) l r op) (InR P) := by
  unfold evalBinary
  by_cases his : op.tag = .is
  · simp only [his]
    bp_ind ih
  · have hor' : okE r = true := by
      rcases Bool.or_eq_true_iff.mp hor with h | h
      · exact absurd (by simpa using h) his
      · exact h
    bp_ind ih

theorem bp_block (sts : List Stmt) (h : wfSs sts = true) (ho : okSs sts = true) :
    BP P h0 b0 (KSet P) (evalBlock prog (n + 1) sts) Tr := by
  cases sts with
  | nil => unfold evalBlock; exact BP.pure trivial
  | cons st rest =>
    simp only [wfSs, Bool.and_eq_true] at h
    obtain ⟨h1, h2⟩ := h
    simp only [okSs, Bool.and_eq_true] at ho
    obtain ⟨ho1, ho2⟩ := ho
    unfold evalBlock; bp_ind ih

theorem bp_while (c : Expr) (b : Stmt) (hc : c.wfB = true) (hb : b.wfB = true) (hoc : okE c = true)
    (hob : okS b = true) :
    BP P h0 b0 (KSet P) (whileLoop prog (n + 1) c b) Tr := by
  unfold whileLoop
  bp_ind ih

theorem bp_for (c p : Expr) (b : Stmt) (hc : c.wfB = true) (hp : p.wfB = true) (hb : b.wfB = true)
    (hoc : okE c = true) (hop : okE p = true) (hob : okS b = true) :
    BP P h0 b0 (KSet P) (forLoop prog (n + 1) c p b) Tr := by
  unfold forLoop
  bp_ind ih

theorem bp_forIn (l : CellId) (il : Option CellId) (b : Stmt)
    (items : List (Option Val × (CellId ⊕ (Val × Option CellId)))) (hb : b.wfB = true) (hob : okS b = true)
    (hl : P.N ≤ l) (hil : OptReg P il)
    (hit : ∀ it ∈ items, ItemOK P it) : BP P h0 b0 (KSet P) (forInLoop prog (n + 1) l il b items) Tr := by
  cases items with
  | nil => unfold forInLoop; exact BP.pure trivial
  | cons it rest =>
    obtain ⟨iv, item⟩ := it
    have h0' := hit _ (List.mem_cons_self ..)
    have hrest : ∀ it ∈ rest, ItemOK P it := fun x hx => hit x (List.mem_cons_of_mem _ hx)
    unfold forInLoop
    have t2 : BP P h0 b0 (KSet P) (loopIter (evalStmt prog n b) (forInLoop prog n l il b rest)) Tr :=
      BP.loopIter (ih.stmt _ hb hob) (ih.forInL _ _ _ _ hb hob hl hil hrest) trivial
    cases item with
    | inl c =>
      have hc : P.N ≤ c := h0'.2
      cases il with
      | none => dsimp only; repeat' (first | exact t2 | bp_step)
      | some ic =>
        have hic : P.N ≤ ic := hil
        cases iv with
        | none => dsimp only; repeat' (first | exact t2 | bp_step)
        | some x =>
          have hx : GoodV P x := h0'.1 x rfl
          dsimp only; repeat' (first | exact t2 | bp_step)
    | inr vm =>
      obtain ⟨v, mc⟩ := vm
      have hv : GoodV P v := h0'.2.1
      cases il with
      | none => dsimp only; repeat' (first | exact t2 | bp_step)
      | some ic =>
        have hic : P.N ≤ ic := hil
        cases iv with
        | none =>
          cases mc with
          | none => dsimp only; repeat' (first | exact t2 | bp_step)
          | some mc =>
            have hmc : P.N ≤ mc := h0'.2.2
            dsimp only; repeat' (first | exact t2 | bp_step)
        | some x =>
          have hx : GoodV P x := h0'.1 x rfl
          dsimp only; repeat' (first | exact t2 | bp_step)

theorem bp_stmt (st : Stmt) (h : st.wfB = true) (ho : okS st = true) :
    BP P h0 b0 (KSet P) (evalStmt prog (n + 1) st) Tr := by
  unfold evalStmt
  cases st with
  | block t body => simp only [Stmt.wfB] at h; simp only [okS] at ho; dsimp only; bp_ind ih
  | print t args =>
    simp only [Stmt.wfB] at h
    simp only [okS] at ho
    dsimp only
    refine BP.bind (ih.exprList _ _ h ho) (fun cells hcells => BP.bind BP.getSt (fun s hs => ?_))
    split
    · split
      · exact BP.throwPanic _
      · split
        · exact BP.oof
        · exact BP.emit _
    · split
      · exact BP.oof
      · exact BP.emit _
  | expr e =>
    simp only [Stmt.wfB] at h; simp only [okS] at ho; dsimp only
    exact BP.bind (ih.expr _ h ho) (fun _ _ => BP.pure trivial)
  | ret e =>
    cases e with
    | none => dsimp only; exact BP.bind (BP.setReturnVal trivial) (fun _ _ => BP.throwSig _)
    | some e =>
      simp only [Stmt.wfB] at h; simp only [okS] at ho; dsimp only
      exact BP.bind (ih.expr _ h ho) (fun c hc => BP.bind (BP.setReturnVal hc) (fun _ _ => BP.throwSig _))
  | brk t => exact BP.throwSig _
  | cont t => exact BP.throwSig _
  | next t => exact BP.throwSig _
  | exit t => exact BP.throwSig _
  | if_ c b els =>
    cases els with
    | none =>
      simp only [Stmt.wfB, Bool.and_eq_true] at h
      obtain ⟨h1, h2⟩ := h
      simp only [okS, Bool.and_eq_true] at ho
      obtain ⟨ho1, ho2⟩ := ho
      dsimp only; bp_ind ih
    | some eb =>
      simp only [Stmt.wfB, Bool.and_eq_true] at h
      obtain ⟨⟨h1, h2⟩, h3⟩ := h
      simp only [okS, Bool.and_eq_true] at ho
      obtain ⟨⟨ho1, ho2⟩, ho3⟩ := ho
      dsimp only; bp_ind ih
  | while_ c b =>
    simp only [Stmt.wfB, Bool.and_eq_true] at h
    obtain ⟨h1, h2⟩ := h
    simp only [okS, Bool.and_eq_true] at ho
    obtain ⟨ho1, ho2⟩ := ho
    dsimp only; exact ih.whileL _ _ h1 h2 ho1 ho2
  | for_ pre c post b =>
    simp only [Stmt.wfB, Bool.and_eq_true] at h
    obtain ⟨⟨⟨h0', h1⟩, h2⟩, h3⟩ := h
    simp only [okS, Bool.and_eq_true] at ho
    obtain ⟨⟨⟨ho0, ho1⟩, ho2⟩, ho3⟩ := ho
    dsimp only
    exact BP.bind (ih.expr _ h0' ho0) (fun _ _ => ih.forL _ _ _ h1 h2 h3 ho1 ho2 ho3)
  | forIn id idx iter b =>
    simp only [Stmt.wfB, Bool.and_eq_true] at h
    obtain ⟨h1, h2⟩ := h
    simp only [okS, Bool.and_eq_true] at ho
    obtain ⟨⟨⟨ho0, hoi⟩, ho1⟩, ho2⟩ := ho
    have hnid : isB id.text = false := by simpa using ho0
    dsimp only
    refine BP.bind (R1 := InR P) ?_ (fun loc hloc => BP.bind (R1 := OptReg P) ?_ (fun il hil =>
      BP.bind (ih.expr _ h1 ho1) (fun iterable hit => BP.bind BP.getHeap (fun hp hh => ?_))))
    · refine BP.bind (BP.getVariable hnid) (fun r hr => ?_)
      split
      · exact BP.pure hr
      · exact BP.throwRt _ _
    · split
      · exact BP.pure trivial
      · rename_i it
        have hnit : isB it.text = false := by simpa using hoi
        refine BP.bind (BP.getVariable hnit) (fun r hr => ?_)
        split
        · exact BP.pure hr
        · exact BP.throwRt _ _
    · have hiv := hh.cells iterable hit
      split
      · rename_i a heq
        rw [heq] at hiv
        refine ih.forInL _ _ _ _ h2 ho2 hloc hil ?_
        intro it hmem
        obtain ⟨ci, hci, rfl⟩ := List.mem_map.mp hmem
        obtain ⟨c, i⟩ := ci
        exact ⟨fun _ hx => (by cases hx; trivial), hh.arrs a hiv c (List.fst_mem_of_mem_zipIdx hci)⟩
      · rename_i o heq
        rw [heq] at hiv
        refine ih.forInL _ _ _ _ h2 ho2 hloc hil ?_
        intro it hmem
        obtain ⟨kc, hkc, rfl⟩ := List.mem_map.mp hmem
        obtain ⟨k, c⟩ := kc
        exact ⟨fun _ hx => (by cases hx), trivial, (hh.objs o hiv).sortByKey (k, c) hkc⟩
      · refine ih.forInL _ _ _ _ h2 ho2 hloc hil ?_
        intro it hmem
        obtain ⟨kc, hkc, rfl⟩ := List.mem_map.mp hmem
        obtain ⟨off, rn⟩ := kc
        exact ⟨fun _ hx => (by cases hx; trivial), trivial, trivial⟩
      · exact BP.throwRt _ _

end step

theorem allBP_succ (prog : Program) (hF : P.F ≤ prog.functions.length)
    (hwf : ∀ f ∈ prog.functions, f.body.wfB = true) (hokf : ∀ f ∈ prog.functions, okFn f = true)
    (n : Nat) (ih : AllBP P h0 b0 prog n) :
    AllBP P h0 b0 prog (n + 1) :=
  ⟨bp_expr prog n ih, bp_objItems prog n ih, bp_exprList prog n ih, bp_matchCases prog n ih,
   bp_caseMatch prog n ih, bp_arrayCaseMatch prog n ih, bp_matchElems prog n ih,
   bp_call prog hF hwf hokf n ih, bp_unary prog n ih, bp_binary prog n ih, bp_stmt prog n ih,
   bp_block prog n ih, bp_while prog n ih, bp_for prog n ih, bp_forIn prog n ih⟩

/-- **The builtins are left alone**: every evaluator function, at every fuel, preserves `InvB`
    and hands out cells of the region. -/
theorem allBP (P : Region) (h0 : Heap) (b0 : Bytes → Option CellId) (prog : Program)
    (hF : P.F ≤ prog.functions.length)
    (hwf : ∀ f ∈ prog.functions, f.body.wfB = true) (hokf : ∀ f ∈ prog.functions, okFn f = true) :
    ∀ n, AllBP P h0 b0 prog n
  | 0 => allBP_zero P h0 b0 prog
  | n + 1 => allBP_succ prog hF hwf hokf n (allBP P h0 b0 prog hF hwf hokf n)

end Sel
end Jqawk
