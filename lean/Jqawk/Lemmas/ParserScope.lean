/-
  The parser only produces well-scoped ASTs: `break`/`continue` occur only inside loop bodies,
  `return` only inside function bodies (what the `inLoop` / `inFn` flags of the parser enforce).
-/
import Jqawk.Lemmas.PMAll
import Jqawk.Lemmas.DriverSignals

namespace Jqawk
open Parser

/-! ### `can*` on lists -/

theorem canEs_eq_any (g : Sig) (l : List Expr) : canEs g l = l.any (canE g) := by
  induction l with
  | nil => simp [canEs]
  | cons e es ih => simp [canEs, ih]

theorem canSs_eq_any (g : Sig) (l : List Stmt) : canSs g l = l.any (canS g) := by
  induction l with
  | nil => simp [canSs]
  | cons e es ih => simp [canSs, ih]

theorem canKVs_eq_any (g : Sig) (l : List (Bytes × Expr)) : canKVs g l = l.any (fun kv => canE g kv.2) := by
  induction l with
  | nil => simp [canKVs]
  | cons e es ih => obtain ⟨k, v⟩ := e; simp [canKVs, ih]

theorem canCases_eq_any (g : Sig) (l : List MatchCase) :
    canCases g l = l.any (fun c => canEs g c.1 || canS g c.2) := by
  induction l with
  | nil => simp [canCases]
  | cons e es ih => obtain ⟨p, b⟩ := e; simp [canCases, ih]

@[simp] theorem canEs_reverse (g : Sig) (l : List Expr) : canEs g l.reverse = canEs g l := by
  simp [canEs_eq_any]
@[simp] theorem canSs_reverse (g : Sig) (l : List Stmt) : canSs g l.reverse = canSs g l := by
  simp [canSs_eq_any]
@[simp] theorem canKVs_reverse (g : Sig) (l : List (Bytes × Expr)) : canKVs g l.reverse = canKVs g l := by
  simp [canKVs_eq_any]
@[simp] theorem canCases_reverse (g : Sig) (l : List MatchCase) : canCases g l.reverse = canCases g l := by
  simp [canCases_eq_any]

/-! ### the invariant -/

/-- with loop flag `l` and function flag `f`: no `break`/`continue` escapes unless inside a
    loop, no `return` unless inside a function -/
def Sc (l f : Bool) (c : Sig → Bool) : Prop :=
  (l = false → c .brk = false ∧ c .cont = false) ∧ (f = false → c .ret = false)

/-- postcondition of a parser function started in state `ps`: flags restored, result scoped -/
def ScPost {α : Type} (c : Sig → α → Bool) (ps : PS) (r : α × PS) : Prop :=
  r.2.inLoop = ps.inLoop ∧ r.2.inFn = ps.inFn ∧ Sc ps.inLoop ps.inFn (fun g => c g r.1)

variable (R : Token → Prop)

structure AllScoped (tbl : RuleTable) (n : Nat) : Prop where
  statement : ∀ ps, PM.AllR R (ScPost canS ps) (statement tbl n ps)
  loopBody : ∀ ps, PM.AllR R (fun r => r.2.inLoop = ps.inLoop ∧ r.2.inFn = ps.inFn ∧
    Sc true ps.inFn (fun g => canS g r.1)) (loopBody tbl n ps)
  block : ∀ ps, PM.AllR R (ScPost canS ps) (block tbl n ps)
  blockLoop : ∀ acc ps, Sc ps.inLoop ps.inFn (fun g => canSs g acc) →
    PM.AllR R (ScPost canSs ps) (blockLoop tbl n acc ps)
  printStatement : ∀ ps, PM.AllR R (ScPost canS ps) (printStatement tbl n ps)
  printLoop : ∀ acc ps, Sc ps.inLoop ps.inFn (fun g => canEs g acc) →
    PM.AllR R (ScPost (fun g r => canEs g r.1) ps) (printLoop tbl n acc ps)
  expressionWithPrec : ∀ prec ps, PM.AllR R (ScPost canE ps) (expressionWithPrec tbl n prec ps)
  infixLoop : ∀ prec lhs ps, Sc ps.inLoop ps.inFn (fun g => canE g lhs) →
    PM.AllR R (ScPost canE ps) (infixLoop tbl n prec lhs ps)
  prefixFn : ∀ pk ps, PM.AllR R (ScPost canE ps) (prefixFn tbl n pk ps)
  exprList : ∀ endTag acc ps, Sc ps.inLoop ps.inFn (fun g => canEs g acc) →
    PM.AllR R (ScPost canEs ps) (exprList tbl n endTag acc ps)
  objectLoop : ∀ acc ps, Sc ps.inLoop ps.inFn (fun g => canKVs g acc) →
    PM.AllR R (ScPost canKVs ps) (objectLoop tbl n acc ps)
  matchCases : ∀ acc ps, Sc ps.inLoop ps.inFn (fun g => canCases g acc) →
    PM.AllR R (ScPost canCases ps) (matchCases tbl n acc ps)
  matchPats : ∀ acc ps, Sc ps.inLoop ps.inFn (fun g => canEs g acc) →
    PM.AllR R (ScPost canEs ps) (matchPats tbl n acc ps)
  infixFn : ∀ ik lhs ps, Sc ps.inLoop ps.inFn (fun g => canE g lhs) →
    PM.AllR R (ScPost canE ps) (infixFn tbl n ik lhs ps)

section tactics
set_option hygiene false

/-- a call of one of the mutually recursive functions: use the induction hypothesis `ih` -/
macro "pall_ih" : tactic => `(tactic| (first
  | with_reducible refine PM.AllR.mono (ih.statement _) (fun r hx => ?_)
  | with_reducible refine PM.AllR.mono (ih.loopBody _) (fun r hx => ?_)
  | with_reducible refine PM.AllR.mono (ih.block _) (fun r hx => ?_)
  | with_reducible refine PM.AllR.mono (ih.printStatement _) (fun r hx => ?_)
  | with_reducible refine PM.AllR.mono (ih.expressionWithPrec _ _) (fun r hx => ?_)
  | with_reducible refine PM.AllR.mono (ih.prefixFn _ _) (fun r hx => ?_)
  | with_reducible refine PM.AllR.mono (ih.blockLoop _ _ ?_) (fun r hx => ?_)
  | with_reducible refine PM.AllR.mono (ih.printLoop _ _ ?_) (fun r hx => ?_)
  | with_reducible refine PM.AllR.mono (ih.infixLoop _ _ _ ?_) (fun r hx => ?_)
  | with_reducible refine PM.AllR.mono (ih.exprList _ _ _ ?_) (fun r hx => ?_)
  | with_reducible refine PM.AllR.mono (ih.objectLoop _ _ ?_) (fun r hx => ?_)
  | with_reducible refine PM.AllR.mono (ih.matchCases _ _ ?_) (fun r hx => ?_)
  | with_reducible refine PM.AllR.mono (ih.matchPats _ _ ?_) (fun r hx => ?_)
  | with_reducible refine PM.AllR.mono (ih.infixFn _ _ _ ?_) (fun r hx => ?_)))

/-- run the symbolic execution to the leaves -/
macro "pall_run" : tactic => `(tactic| repeat' (first
  | pall_step
  | (pall_ih <;> try (obtain ⟨x, ps'⟩ := r; dsimp only [ScPost] at hx ⊢))))

/-- leaves: combine the facts collected on the way -/
macro "pall_close" : tactic => `(tactic| (
  subst_vars
  simp_all [-List.reverse_cons, ScPost, Sc, canE, canS, canEs, canSs, canKVs, canCases, Sig.loopSig, rewriteCompound]))

end tactics

variable {R} {tbl : RuleTable} {n : Nat}

theorem loopBody_step (ih : AllScoped R tbl n) (ps : PS) :
    PM.AllR R (fun r => r.2.inLoop = ps.inLoop ∧ r.2.inFn = ps.inFn ∧
      Sc true ps.inFn (fun g => canS g r.1)) (loopBody tbl (n + 1) ps) := by
  unfold loopBody
  pall_run
  pall_close

theorem block_step (ih : AllScoped R tbl n) (ps : PS) :
    PM.AllR R (ScPost canS ps) (block tbl (n + 1) ps) := by
  unfold block
  pall_run
  all_goals pall_close

theorem blockLoop_step (ih : AllScoped R tbl n) (acc : List Stmt) (ps : PS)
    (hacc : Sc ps.inLoop ps.inFn (fun g => canSs g acc)) :
    PM.AllR R (ScPost canSs ps) (blockLoop tbl (n + 1) acc ps) := by
  unfold blockLoop
  pall_run
  all_goals pall_close

theorem printStatement_step (ih : AllScoped R tbl n) (ps : PS) :
    PM.AllR R (ScPost canS ps) (printStatement tbl (n + 1) ps) := by
  unfold printStatement
  pall_run
  all_goals pall_close

theorem printLoop_step (ih : AllScoped R tbl n) (acc : List Expr) (ps : PS)
    (hacc : Sc ps.inLoop ps.inFn (fun g => canEs g acc)) :
    PM.AllR R (ScPost (fun g r => canEs g r.1) ps) (printLoop tbl (n + 1) acc ps) := by
  unfold printLoop
  pall_run
  all_goals pall_close

theorem exprList_step (ih : AllScoped R tbl n) (endTag : Tag) (acc : List Expr) (ps : PS)
    (hacc : Sc ps.inLoop ps.inFn (fun g => canEs g acc)) :
    PM.AllR R (ScPost canEs ps) (exprList tbl (n + 1) endTag acc ps) := by
  unfold exprList
  pall_run
  all_goals pall_close

theorem objectLoop_step (ih : AllScoped R tbl n) (acc : List (Bytes × Expr)) (ps : PS)
    (hacc : Sc ps.inLoop ps.inFn (fun g => canKVs g acc)) :
    PM.AllR R (ScPost canKVs ps) (objectLoop tbl (n + 1) acc ps) := by
  unfold objectLoop
  pall_run
  all_goals pall_close

theorem matchCases_step (ih : AllScoped R tbl n) (acc : List MatchCase) (ps : PS)
    (hacc : Sc ps.inLoop ps.inFn (fun g => canCases g acc)) :
    PM.AllR R (ScPost canCases ps) (matchCases tbl (n + 1) acc ps) := by
  unfold matchCases
  pall_run
  all_goals pall_close

theorem matchPats_step (ih : AllScoped R tbl n) (acc : List Expr) (ps : PS)
    (hacc : Sc ps.inLoop ps.inFn (fun g => canEs g acc)) :
    PM.AllR R (ScPost canEs ps) (matchPats tbl (n + 1) acc ps) := by
  unfold matchPats
  pall_run
  all_goals pall_close

theorem prefixFn_step (ih : AllScoped R tbl n) (pk : PrefixKind) (ps : PS) :
    PM.AllR R (ScPost canE ps) (prefixFn tbl (n + 1) pk ps) := by
  unfold prefixFn
  pall_run
  all_goals pall_close

theorem infixFn_step (ih : AllScoped R tbl n) (ik : InfixKind) (lhs : Expr) (ps : PS)
    (hacc : Sc ps.inLoop ps.inFn (fun g => canE g lhs)) :
    PM.AllR R (ScPost canE ps) (infixFn tbl (n + 1) ik lhs ps) := by
  unfold infixFn
  pall_run
  all_goals pall_close

theorem expressionWithPrec_step (ih : AllScoped R tbl n) (prec : Nat) (ps : PS) :
    PM.AllR R (ScPost canE ps) (expressionWithPrec tbl (n + 1) prec ps) := by
  unfold expressionWithPrec
  pall_step
  pall_step
  generalize (lookupRule tbl s.cur.tag).pre = pre
  pall_run
  all_goals pall_close

theorem infixLoop_step (ih : AllScoped R tbl n) (prec : Nat) (lhs : Expr) (ps : PS)
    (hacc : Sc ps.inLoop ps.inFn (fun g => canE g lhs)) :
    PM.AllR R (ScPost canE ps) (infixLoop tbl (n + 1) prec lhs ps) := by
  unfold infixLoop
  pall_step
  pall_step
  generalize (lookupRule tbl s.cur.tag) = r
  split
  · generalize r.inf = inf
    pall_run
    all_goals pall_close
  · pall_run
    all_goals pall_close

theorem statement_step (ih : AllScoped R tbl n) (ps : PS) :
    PM.AllR R (ScPost canS ps) (statement tbl (n + 1) ps) := by
  unfold statement
  pall_step
  pall_step
  pall_step
  pall_step
  generalize s.cur.tag = tg0
  pall_run
  all_goals try (
    show PM.AllR _ _ _
    try generalize (ps'.cur.tag == Tag.in_ || ps'.cur.tag == Tag.comma) = fl
    cases x <;> (try cases fl) <;> dsimp only <;> pall_run)
  all_goals pall_close

/-- the scoping invariant holds for every function of the mutual block, at every fuel -/
theorem allScoped (R : Token → Prop) (tbl : RuleTable) : ∀ n, AllScoped R tbl n := by
  intro n
  induction n with
  | zero =>
    constructor
    all_goals intros
    · unfold statement; exact PAll.oof_triv _ _
    · unfold loopBody; exact PAll.oof_triv _ _
    · unfold block; exact PAll.oof_triv _ _
    · unfold blockLoop; exact PAll.oof_triv _ _
    · unfold printStatement; exact PAll.oof_triv _ _
    · unfold printLoop; exact PAll.oof_triv _ _
    · unfold expressionWithPrec; exact PAll.oof_triv _ _
    · unfold infixLoop; exact PAll.oof_triv _ _
    · unfold prefixFn; exact PAll.oof_triv _ _
    · unfold exprList; exact PAll.oof_triv _ _
    · unfold objectLoop; exact PAll.oof_triv _ _
    · unfold matchCases; exact PAll.oof_triv _ _
    · unfold matchPats; exact PAll.oof_triv _ _
    · unfold infixFn; exact PAll.oof_triv _ _
  | succ n ih =>
    exact {
      statement := statement_step ih
      loopBody := loopBody_step ih
      block := block_step ih
      blockLoop := blockLoop_step ih
      printStatement := printStatement_step ih
      printLoop := printLoop_step ih
      expressionWithPrec := expressionWithPrec_step ih
      infixLoop := infixLoop_step ih
      prefixFn := prefixFn_step ih
      exprList := exprList_step ih
      objectLoop := objectLoop_step ih
      matchCases := matchCases_step ih
      matchPats := matchPats_step ih
      infixFn := infixFn_step ih }

/-! ### the top level -/

/-- may `g` escape from the pattern or the body of a rule -/
def canRule (g : Sig) (r : Rule) : Bool :=
  canS g r.body || (match r.pattern with | none => false | some e => canE g e)

theorem parseRule_scoped (ih : AllScoped R tbl n) (ps : PS) :
    PM.AllR R (ScPost canRule ps) (parseRule tbl n ps) := by
  unfold parseRule
  pall_run
  all_goals (subst_vars; simp_all [ScPost, Sc, canRule, canS, canEs])

theorem funcArgs_flags : ∀ (n : Nat) (acc : List Bytes) (ps : PS),
    PM.AllR R (fun r => r.2.inLoop = ps.inLoop ∧ r.2.inFn = ps.inFn) (funcArgs n acc ps) := by
  intro n
  induction n with
  | zero => intro acc ps; unfold funcArgs; exact PAll.oof_triv _ _
  | succ n ihn =>
    intro acc ps
    unfold funcArgs
    pall_run
    all_goals first
      | (refine PM.AllR.mono (ihn _ _) (fun r hx => ?_); exact hx)
      | pall_close

theorem parseFunction_scoped (ih : AllScoped R tbl n) (ps : PS) :
    PM.AllR R (fun r => r.2.inLoop = ps.inLoop ∧ r.2.inFn = ps.inFn ∧
      (ps.inLoop = false → canS .brk r.1.body = false ∧ canS .cont r.1.body = false))
      (parseFunction tbl n ps) := by
  unfold parseFunction
  pall_run
  refine PM.AllR.mono (funcArgs_flags _ _ _) (fun r hx => ?_)
  obtain ⟨x, ps'⟩ := r
  dsimp only at hx ⊢
  pall_run
  pall_close

def fnOK (f : FuncDef) : Bool := !canS .brk f.body && !canS .cont f.body
def ruleOK (r : Rule) : Bool := confinedSigs.all (fun g =>
    !canS g r.body && (match r.pattern with | none => true | some e => !canE g e))

theorem wellScopedB_mk (rules : List Rule) (fns : List FuncDef) :
    Program.wellScopedB ⟨rules, fns⟩ = (fns.all fnOK && rules.all ruleOK) := rfl

theorem ruleOK_of_canRule (r : Rule) (h : Sc false false (fun g => canRule g r)) : ruleOK r = true := by
  obtain ⟨kind, pat, body⟩ := r
  cases pat <;> simp_all [Sc, canRule, ruleOK, confinedSigs]

theorem parseTop_scoped (R : Token → Prop) (tbl : RuleTable) : ∀ (n : Nat) (rules : List Rule)
    (fns : List FuncDef) (ps : PS), ps.inLoop = false → ps.inFn = false →
    rules.all ruleOK = true → fns.all fnOK = true →
    PM.AllR R (fun r => r.1.wellScopedB = true) (parseTop tbl n rules fns ps) := by
  intro n
  induction n with
  | zero => intros; unfold parseTop; exact PAll.oof_triv _ _
  | succ n ihn =>
    intro rules fns ps hl hf hrules hfns
    have ih := allScoped R tbl n
    unfold parseTop
    pall_run
    · simp [wellScopedB_mk, List.all_reverse, hrules, hfns]
    · refine PM.AllR.mono (parseFunction_scoped ih _) (fun r hx => ?_)
      obtain ⟨f, ps'⟩ := r
      dsimp only at hx ⊢
      pall_run
      refine ihn _ _ _ (by simp_all) (by simp_all) hrules ?_
      simp_all [fnOK]
    · refine PM.AllR.mono (parseRule_scoped ih _) (fun r hx => ?_)
      obtain ⟨rule, ps'⟩ := r
      dsimp only [ScPost] at hx ⊢
      pall_run
      refine ihn _ _ _ (by simp_all) (by simp_all) ?_ hfns
      have := ruleOK_of_canRule rule (by simp_all)
      simp_all

theorem parseProgram_scoped (R : Token → Prop) (tbl : RuleTable) (n : Nat) :
    PM.AllR R (fun r => r.1.wellScopedB = true) (parseProgram tbl n PS.init) := by
  unfold parseProgram
  pall_run
  exact parseTop_scoped R tbl n _ _ _ rfl rfl rfl rfl

theorem parseExpression_scoped (R : Token → Prop) (tbl : RuleTable) (n : Nat) :
    PM.AllR R (fun r => r.1.scopedB = true) (parseExpression tbl n PS.init) := by
  have ih := allScoped R tbl n
  unfold parseExpression
  pall_run
  simp_all [Expr.scopedB, confinedSigs, Sc, PS.init]

/-! ### the checks themselves, one step of `statement` -/

theorem P.bind_eq_of_pure {α β : Type} (m : P α) (f : α → P β) (ps : PS) (a : α) (ps' : PS)
    (h : m ps = .pure (a, ps')) : (m >>= f) ps = f a ps' := by
  show (m ps).bind _ = _
  rw [h]; rfl

/-- `return` while not inside a function is a syntax error at the `return` token -/
theorem statement_return_outside (tbl : RuleTable) (n : Nat) (ps : PS)
    (h1 : ps.cur.tag = .return_) (h2 : ps.inFn = false) :
    statement tbl (n + 1) ps = .fail ⟨ps.cur.pos, "can only return inside a function"⟩ := by
  unfold statement
  rw [P.bind_eq_of_pure (setDidEnd false) _ ps () { ps with didEnd := false } rfl]
  rw [P.bind_eq_of_pure get _ _ _ _ rfl]
  simp only [h1, h2]
  rfl

/-- `break` while not inside a loop body is a syntax error at the `break` token -/
theorem statement_break_outside (tbl : RuleTable) (n : Nat) (ps : PS)
    (h1 : ps.cur.tag = .break_) (h2 : ps.inLoop = false) :
    statement tbl (n + 1) ps = .fail ⟨ps.cur.pos, "can only break inside a loop"⟩ := by
  unfold statement
  rw [P.bind_eq_of_pure (setDidEnd false) _ ps () { ps with didEnd := false } rfl]
  rw [P.bind_eq_of_pure get _ _ _ _ rfl]
  simp only [h1, h2]
  rfl

/-- `continue` while not inside a loop body is a syntax error at the `continue` token -/
theorem statement_continue_outside (tbl : RuleTable) (n : Nat) (ps : PS)
    (h1 : ps.cur.tag = .continue_) (h2 : ps.inLoop = false) :
    statement tbl (n + 1) ps = .fail ⟨ps.cur.pos, "can only continue inside a loop"⟩ := by
  unfold statement
  rw [P.bind_eq_of_pure (setDidEnd false) _ ps () { ps with didEnd := false } rfl]
  rw [P.bind_eq_of_pure get _ _ _ _ rfl]
  simp only [h1, h2]
  rfl

/-- A.1: every program that parses is well-scoped -/
theorem parseProgramSrc_wellScopedB (tbl : RuleTable) (src : Bytes) (prog : Program)
    (h : parseProgramSrc tbl src = .ok prog) : prog.wellScopedB = true := by
  unfold parseProgramSrc at h
  split at h
  · rename_i p ps' hrun
    cases h
    exact PM.run_allR ((parseProgram_scoped _ tbl _)) hrun
  · cases h
  · cases h

/-- A.2: every expression that parses confines break / continue / return -/
theorem parseExpressionSrc_scopedB (tbl : RuleTable) (src : Bytes) (e : Expr)
    (h : parseExpressionSrc tbl src = .ok e) : e.scopedB = true := by
  unfold parseExpressionSrc at h
  split at h
  · rename_i p ps' hrun
    cases h
    exact PM.run_allR ((parseExpression_scoped _ tbl _)) hrun
  · cases h
  · cases h

end Jqawk
