/-
  C13, newline insertion at the level of bytes, part 1: prefix stability of the lexer.
  If a request (`Lexer.next`, `nextNN`, `regex`) from the text `x ++ y` is answered without
  reading beyond `x` (the successor state still has all of `y` unread), then from `x ++ y'` it
  is answered with the same token, flag, positions, and the successor state has `y'` in place of
  `y` — provided `y'` starts with a separator byte (blank, tab, CR, `#`, newline) or is empty:
  the lexer looks ahead one or two bytes (`==`, `1.5`, identifier characters), and a separator
  is never the continuation of a token.
-/
import Jqawk.Lemmas.NewlineTexts

namespace Jqawk
namespace Lexer

/-- bytes that end every token: blank, tab, CR, `#`, newline — and `;`, a token by itself that
    is never the second byte of a token -/
def isSepB (c : UInt8) : Bool := c == 32 || c == 9 || c == 13 || c == 35 || c == 10 || c == 59

/-- `y` is empty or starts with a separator -/
def SepStart (y : Bytes) : Prop := ∀ c, y.head? = some c → isSepB c = true

theorem sepStart_nil : SepStart [] := fun _ h => by cases h

theorem SepStart.head {c : UInt8} {r : Bytes} (h : SepStart (c :: r)) : isSepB c = true := h c rfl

theorem spanB_snd_length (f : UInt8 → Bool) (r : Bytes) : (spanB f r).2.length ≤ r.length := by
  have := congrArg List.length (spanB_append f r)
  simp at this; omega

theorem spanB_stable (f : UInt8 → Bool) (hf : ∀ c, isSepB c = true → f c = false) (y y' : Bytes)
    (hy' : SepStart y') : ∀ u : Bytes, y.length ≤ (spanB f (u ++ y)).2.length →
      ∃ u', (spanB f (u ++ y)).2 = u' ++ y ∧ spanB f (u ++ y') = ((spanB f (u ++ y)).1, u' ++ y')
  | [], h => by
    simp only [List.nil_append] at h ⊢
    have h1 : spanB f y = ([], y) := by
      cases y with
      | nil => rfl
      | cons c cs =>
        rw [spanB_cons] at h ⊢
        split
        · rename_i hc
          rw [if_pos hc] at h
          have := spanB_snd_length f cs
          simp at h; omega
        · rfl
    have h2 : spanB f y' = ([], y') := by
      cases y' with
      | nil => rfl
      | cons c cs => rw [spanB_cons, if_neg (by rw [hf c hy'.head]; simp)]
    exact ⟨[], by rw [h1]; rfl, by rw [h1, h2]; rfl⟩
  | c :: u, h => by
    simp only [List.cons_append] at h ⊢
    rw [spanB_cons] at h ⊢
    rw [spanB_cons]
    by_cases hc : f c = true
    · rw [if_pos hc] at h ⊢
      rw [if_pos hc]
      obtain ⟨u', h1, h2⟩ := spanB_stable f hf y y' hy' u h
      exact ⟨u', h1, by rw [h2]⟩
    · rw [if_neg hc] at h ⊢
      rw [if_neg hc]
      exact ⟨c :: u, rfl, rfl⟩

theorem scanTo_stable (q : UInt8) (y y' : Bytes) : ∀ (u body r' : Bytes),
    scanTo q (u ++ y) = some (body, r') → y.length ≤ r'.length →
      ∃ u', r' = u' ++ y ∧ scanTo q (u ++ y') = some (body, u' ++ y')
  | [], body, r', h, hl => by
    simp only [List.nil_append] at h
    obtain ⟨he, _⟩ := (scanTo_some_iff q y body r').mp h
    have := congrArg List.length he
    simp at this; omega
  | c :: u, body, r', h, hl => by
    simp only [List.cons_append, scanTo] at h ⊢
    by_cases hc : (c == q) = true
    · rw [if_pos hc] at h ⊢
      simp only [Option.some.injEq, Prod.mk.injEq] at h
      obtain ⟨rfl, rfl⟩ := h
      exact ⟨u, rfl, rfl⟩
    · rw [if_neg hc] at h ⊢
      cases hs : scanTo q (u ++ y) with
      | none => rw [hs] at h; cases h
      | some ab =>
        obtain ⟨a, b'⟩ := ab
        rw [hs] at h
        simp only [Option.some.injEq, Prod.mk.injEq] at h
        obtain ⟨rfl, rfl⟩ := h
        obtain ⟨u', h1, h2⟩ := scanTo_stable q y y' u a b' hs hl
        exact ⟨u', h1, by rw [h2]⟩

theorem skipComment_fst_length (cs : Bytes) (p : Nat) : (skipComment cs p).1.length ≤ cs.length := by
  obtain ⟨body, b1, _⟩ := skipComment_decomp cs p
  have := congrArg List.length b1
  simp at this; omega

theorem skipComment_stable (y y' : Bytes) : ∀ (u : Bytes) (p : Nat),
    y.length < (skipComment (u ++ y) p).1.length →
      ∃ u', u' ≠ [] ∧ skipComment (u ++ y) p = (u' ++ y, (skipComment (u ++ y) p).2) ∧
        skipComment (u ++ y') p = (u' ++ y', (skipComment (u ++ y) p).2)
  | [], p, h => by
    have := skipComment_fst_length y p
    simp only [List.nil_append] at h; omega
  | c :: u, p, h => by
    simp only [List.cons_append, skipComment] at h ⊢
    by_cases hc : (c == 10) = true
    · rw [if_pos hc] at h ⊢
      exact ⟨c :: u, by simp, rfl, by rw [if_pos hc]; rfl⟩
    · rw [if_neg hc] at h ⊢
      rw [if_neg hc]
      exact skipComment_stable y y' u (p + 1) h

theorem skipWs_fst_length (fuel : Nat) (r : Bytes) (p : Nat) : (skipWs fuel r p).1.length ≤ r.length := by
  obtain ⟨ws, h1, _⟩ := skipWs_decomp fuel r p
  have := congrArg List.length h1
  simp at this; omega

theorem skipWs_stable (y y' : Bytes) : ∀ (fuel : Nat) (x : Bytes) (p : Nat),
    y.length < (skipWs fuel (x ++ y) p).1.length →
      ∃ x₂, x₂ ≠ [] ∧ skipWs fuel (x ++ y) p = (x₂ ++ y, (skipWs fuel (x ++ y) p).2) ∧
        skipWs fuel (x ++ y') p = (x₂ ++ y', (skipWs fuel (x ++ y) p).2)
  | 0, x, p, h => by
    simp only [skipWs] at h ⊢
    refine ⟨x, ?_, rfl, rfl⟩
    rintro rfl; simp at h
  | fuel + 1, [], p, h => by
    have := skipWs_fst_length (fuel + 1) y p
    simp only [List.nil_append] at h; omega
  | fuel + 1, c :: cs, p, h => by
    simp only [List.cons_append] at h ⊢
    rw [skipWs_succ_cons] at h ⊢
    rw [skipWs_succ_cons]
    by_cases hb : isBlankB c = true
    · rw [if_pos hb] at h ⊢
      rw [if_pos hb]
      exact skipWs_stable y y' fuel cs (p + 1) h
    · rw [if_neg hb] at h ⊢
      rw [if_neg hb]
      by_cases hc : (c == 35) = true
      · rw [if_pos hc] at h ⊢
        rw [if_pos hc]
        by_cases hl : y.length < (skipComment (cs ++ y) (p + 1)).1.length
        · obtain ⟨u', _, e1, e2⟩ := skipComment_stable y y' cs (p + 1) hl
          rw [e1] at h ⊢
          rw [e2]
          exact skipWs_stable y y' fuel u' _ h
        · have := skipWs_fst_length fuel (skipComment (cs ++ y) (p + 1)).1 (skipComment (cs ++ y) (p + 1)).2
          omega
      · rw [if_neg hc] at h ⊢
        rw [if_neg hc]
        exact ⟨c :: cs, by simp, rfl, rfl⟩

/-! ### the token scanners -/

/-- `res'` answers like `res` with `y'` in place of `y`, if `res` left all of `y` unread -/
def Stable (y y' : Bytes) (res res' : Except SynErr (Token × LexState)) : Prop :=
  ∀ t s', res = .ok (t, s') → y.length ≤ s'.rest.length →
    ∃ u', s'.rest = u' ++ y ∧ res' = .ok (t, ⟨u' ++ y', s'.pos, s'.tokenStart⟩)

theorem stable_simple (y y' u : Bytes) (tok : Token) (q p : Nat) :
    Stable y y' (.ok (tok, ⟨u ++ y, q, p⟩)) (.ok (tok, ⟨u ++ y', q, p⟩)) := by
  intro t s' h _
  cases h
  exact ⟨u, rfl, rfl⟩

theorem stable_error (y y' : Bytes) (e : SynErr) (res' : Except SynErr (Token × LexState)) :
    Stable y y' (.error e) res' := by
  intro t s' h; cases h

theorem sep_not_ident (c : UInt8) (h : isSepB c = true) : isIdentB c = false := by
  simp only [isSepB, Bool.or_eq_true, beq_iff_eq] at h
  rcases h with ((((rfl | rfl) | rfl) | rfl) | rfl) | rfl <;> rfl

theorem sep_not_digit (c : UInt8) (h : isSepB c = true) : isDigitB c = false := by
  simp only [isSepB, Bool.or_eq_true, beq_iff_eq] at h
  rcases h with ((((rfl | rfl) | rfl) | rfl) | rfl) | rfl <;> rfl

theorem identifier_stable (y y' : Bytes) (hy' : SepStart y') (pre : Bytes) (p : Nat) (u : Bytes) :
    Stable y y' (.ok (identifier pre p (u ++ y))) (.ok (identifier pre p (u ++ y'))) := by
  intro t s' h hl
  rw [identifier_eq] at h
  simp only [Except.ok.injEq, Prod.mk.injEq] at h
  obtain ⟨ht, hs⟩ := h
  subst hs
  obtain ⟨u', h1, h2⟩ := spanB_stable isIdentB sep_not_ident y y' hy' u hl
  refine ⟨u', h1, ?_⟩
  rw [identifier_eq, h2, ← ht]

theorem string_stable (y y' : Bytes) (q : UInt8) (p : Nat) (u : Bytes) :
    Stable y y' (string q p (u ++ y)) (string q p (u ++ y')) := by
  intro t s' h hl
  unfold string at h ⊢
  cases hs : scanTo q (u ++ y) with
  | none => rw [hs] at h; cases h
  | some br =>
    obtain ⟨body, r'⟩ := br
    rw [hs] at h
    simp only [Except.ok.injEq, Prod.mk.injEq] at h
    obtain ⟨rfl, rfl⟩ := h
    obtain ⟨u', h1, h2⟩ := scanTo_stable q y y' u body r' hs hl
    exact ⟨u', h1, by rw [h2]⟩

/-- look at one byte: `k` starts a two-byte token -/
def peek1 {β : Type} (k : UInt8) (A : Bytes → β) (B : β) : Bytes → β
  | d :: r2 => if d == k then A r2 else B
  | [] => B

theorem peek1_stable (y y' : Bytes) (hy' : SepStart y') (k : UInt8) (hk : isSepB k = false)
    (A : Bytes → Except SynErr (Token × LexState))
    (B : Bytes → Except SynErr (Token × LexState))
    (hA : ∀ u₂, Stable y y' (A (u₂ ++ y)) (A (u₂ ++ y')))
    (hAl : ∀ r2 t s', A r2 = .ok (t, s') → s'.rest.length ≤ r2.length)
    (u : Bytes) (hB : Stable y y' (B (u ++ y)) (B (u ++ y'))) :
    Stable y y' (peek1 k A (B (u ++ y)) (u ++ y)) (peek1 k A (B (u ++ y')) (u ++ y')) := by
  cases u with
  | nil =>
    simp only [List.nil_append] at hB ⊢
    have hr : peek1 k A (B y') y' = B y' := by
      cases y' with
      | nil => rfl
      | cons c r =>
        have : (c == k) = false := by
          cases hck : c == k with
          | false => rfl
          | true => rw [beq_iff_eq] at hck; subst hck; rw [hy'.head] at hk; cases hk
        simp only [peek1, this]; rfl
    rw [hr]
    cases y with
    | nil => exact hB
    | cons d r2 =>
      simp only [peek1]
      split
      · intro t s' h hl
        have := hAl r2 t s' h
        simp at hl; omega
      · exact hB
  | cons e u₂ =>
    simp only [List.cons_append, peek1]
    split
    · exact hA u₂
    · exact hB

/-- the part of `number` after the integer digits `ds`: `r1` is what follows them -/
def numT (p : Nat) (ds : Bytes) (r1 : Bytes) : Token × LexState :=
  match r1 with
  | 46 :: d :: r2 =>
    if isDigitB d then
      (⟨.num, p, ds ++ 46 :: (spanB isDigitB (d :: r2)).1⟩,
       ⟨(spanB isDigitB (d :: r2)).2, p + (ds ++ 46 :: (spanB isDigitB (d :: r2)).1).length, p⟩)
    else (⟨.num, p, ds⟩, ⟨r1, p + ds.length, p⟩)
  | _ => (⟨.num, p, ds⟩, ⟨r1, p + ds.length, p⟩)

theorem number_eq2 (p : Nat) (r : Bytes) :
    number p r = numT p (spanB isDigitB r).1 (spanB isDigitB r).2 := by
  unfold number numT
  rfl

theorem numT_frac (p : Nat) (ds : Bytes) (d : UInt8) (r2 : Bytes) (hd : isDigitB d = true) :
    numT p ds (46 :: d :: r2) =
      (⟨.num, p, ds ++ 46 :: (spanB isDigitB (d :: r2)).1⟩,
       ⟨(spanB isDigitB (d :: r2)).2, p + (ds ++ 46 :: (spanB isDigitB (d :: r2)).1).length, p⟩) := by
  simp only [numT, hd, ↓reduceIte]

theorem numT_default (p : Nat) (ds r1 : Bytes)
    (h : ∀ d r2, r1 = 46 :: d :: r2 → isDigitB d = false) :
    numT p ds r1 = (⟨.num, p, ds⟩, ⟨r1, p + ds.length, p⟩) := by
  unfold numT
  split
  · rename_i d r2
    rw [if_neg (by rw [h d r2 rfl]; simp)]
  · rfl

theorem spanB_snd_lt (f : UInt8 → Bool) (d : UInt8) (r : Bytes) (hd : f d = true) :
    (spanB f (d :: r)).2.length ≤ r.length := by
  rw [spanB_cons, if_pos hd]
  exact spanB_snd_length f r

theorem numT_rest_length (p : Nat) (ds r1 : Bytes) : (numT p ds r1).2.rest.length ≤ r1.length := by
  by_cases h : ∃ d r2, r1 = 46 :: d :: r2 ∧ isDigitB d = true
  · obtain ⟨d, r2, rfl, hd⟩ := h
    rw [numT_frac p ds d r2 hd]
    have := spanB_snd_lt isDigitB d r2 hd
    simp; omega
  · rw [numT_default]
    · exact Nat.le_refl _
    · intro d r2 e
      cases hd : isDigitB d with
      | false => rfl
      | true => exact absurd ⟨d, r2, e, hd⟩ h

theorem numT_stable (y y' : Bytes) (hy' : SepStart y') (p : Nat) (ds u₁ : Bytes) :
    Stable y y' (.ok (numT p ds (u₁ ++ y))) (.ok (numT p ds (u₁ ++ y'))) := by
  intro t s' h hl
  simp only [Except.ok.injEq] at h
  have ht := congrArg Prod.fst h
  have hs := congrArg Prod.snd h
  dsimp only at ht hs
  subst ht hs
  clear h
  have hnd : ∀ c r, y' = c :: r → isDigitB c = false := fun c r e =>
    sep_not_digit c (by rw [e] at hy'; exact hy'.head)
  have hn46 : ∀ r, y' ≠ 46 :: r := fun r e => by rw [e] at hy'; exact absurd hy'.head (by decide)
  match u₁ with
  | [] =>
    simp only [List.nil_append] at hl ⊢
    have el : numT p ds y = (⟨.num, p, ds⟩, ⟨y, p + ds.length, p⟩) := by
      apply numT_default
      intro d r2 e
      cases hd : isDigitB d with
      | false => rfl
      | true =>
        exfalso
        subst e
        rw [numT_frac p ds d r2 hd] at hl
        have := spanB_snd_lt isDigitB d r2 hd
        simp at hl; omega
    have er : numT p ds y' = (⟨.num, p, ds⟩, ⟨y', p + ds.length, p⟩) :=
      numT_default p ds y' fun d r2 e => absurd e (hn46 _)
    rw [el, er]
    exact ⟨[], rfl, rfl⟩
  | [e] =>
    simp only [List.cons_append, List.nil_append] at hl ⊢
    have el : numT p ds (e :: y) = (⟨.num, p, ds⟩, ⟨e :: y, p + ds.length, p⟩) := by
      apply numT_default
      intro d r2 e'
      cases hd : isDigitB d with
      | false => rfl
      | true =>
        exfalso
        simp only [List.cons.injEq] at e'
        obtain ⟨rfl, rfl⟩ := e'
        rw [numT_frac p ds d r2 hd] at hl
        have := spanB_snd_lt isDigitB d r2 hd
        simp at hl; omega
    have er : numT p ds (e :: y') = (⟨.num, p, ds⟩, ⟨e :: y', p + ds.length, p⟩) := by
      apply numT_default
      intro d r2 e'
      simp only [List.cons.injEq] at e'
      exact hnd d r2 e'.2
    rw [el, er]
    exact ⟨[e], rfl, rfl⟩
  | e :: d :: u₃ =>
    simp only [List.cons_append] at hl ⊢
    by_cases hfr : e = 46 ∧ isDigitB d = true
    · obtain ⟨rfl, hd⟩ := hfr
      rw [numT_frac p ds d _ hd] at hl ⊢
      rw [numT_frac p ds d _ hd]
      obtain ⟨u', h1, h2⟩ := spanB_stable isDigitB sep_not_digit y y' hy' (d :: u₃) hl
      simp only [List.cons_append] at h1 h2
      exact ⟨u', h1, by rw [h2]⟩
    · have hdef : ∀ z, numT p ds (e :: d :: z) = (⟨.num, p, ds⟩, ⟨e :: d :: z, p + ds.length, p⟩) := by
        intro z
        apply numT_default
        intro d' r2 e'
        simp only [List.cons.injEq] at e'
        obtain ⟨rfl, rfl, _⟩ := e'
        cases hd : isDigitB d with
        | false => rfl
        | true => exact absurd ⟨rfl, hd⟩ hfr
      rw [hdef, hdef]
      exact ⟨e :: d :: u₃, rfl, rfl⟩

theorem number_stable (y y' : Bytes) (hy' : SepStart y') (p : Nat) (u : Bytes) :
    Stable y y' (.ok (number p (u ++ y))) (.ok (number p (u ++ y'))) := by
  intro t s' h hl
  rw [number_eq2] at h ⊢
  have key : y.length ≤ (spanB isDigitB (u ++ y)).2.length := by
    have := numT_rest_length p (spanB isDigitB (u ++ y)).1 (spanB isDigitB (u ++ y)).2
    simp only [Except.ok.injEq] at h
    rw [h] at this
    exact Nat.le_trans hl this
  obtain ⟨u₁, h1, h2⟩ := spanB_stable isDigitB sep_not_digit y y' hy' u key
  rw [h1] at h
  rw [h2]
  exact numT_stable y y' hy' p _ u₁ t s' h hl

section tactics
set_option hygiene false

/-- stability of a `match cs with | k :: r2 => two … | … | _ => one …` (or `… | _ => error`) of
    `lexAt`, with `cs = u ++ y` on the left and `u ++ y'` on the right -/
macro "stab_match" : tactic => `(tactic| (
  intro t s' h hl
  cases u with
  | nil =>
    simp only [List.nil_append] at h ⊢
    split at h <;> first
      | (cases h; simp at hl; omega)
      | (cases h; refine ⟨[], rfl, ?_⟩; split <;> first | exact absurd hy'.head (by decide) | rfl)
      | (cases h)
  | cons e u₂ =>
    simp only [List.cons_append] at h ⊢
    split at h <;> first
      | (rename_i heq; cases h; simp only [List.cons.injEq] at heq; obtain ⟨rfl, rfl⟩ := heq;
         exact ⟨u₂, rfl, rfl⟩)
      | (cases h; refine ⟨e :: u₂, rfl, ?_⟩;
         split <;> first
           | rfl
           | (rename_i heq; simp only [List.cons.injEq] at heq; obtain ⟨rfl, rfl⟩ := heq; simp_all))
      | (cases h)))

end tactics

theorem lexAt_stable (y y' : Bytes) (hy' : SepStart y') (c : UInt8) (u : Bytes) (p : Nat) :
    Stable y y' (lexAt c (u ++ y) p) (lexAt c (u ++ y') p) := by
  unfold lexAt
  dsimp only
  refine ite_P2 _ _ _ _ _ (fun _ => stable_simple _ _ _ _ _ _) (fun _ => ?_)
  refine ite_P2 _ _ _ _ _ (fun _ => identifier_stable y y' hy' _ _ _) (fun _ => ?_)
  refine ite_P2 _ _ _ _ _ (fun _ => ?num) (fun _ => ?_)
  case num => exact number_stable y y' hy' p (c :: u)
  refine ite_P2 _ _ _ _ _ (fun _ => identifier_stable y y' hy' _ _ (c :: u)) (fun _ => ?_)
  iterate 12 refine ite_P2 _ _ _ _ _ (fun _ => stable_simple _ _ _ _ _ _) (fun _ => ?_)
  iterate 10
    refine ite_P2 _ _ _ _ _ (fun _ => ?_) (fun _ => ?_)
    · stab_match
  refine ite_P2 _ _ _ _ _ (fun _ => string_stable y y' _ _ _) (fun _ => stable_error _ _ _ _)

/-! ### `next`, `nextNN`, `regex` -/

theorem next_stable (y y' : Bytes) (hy' : SepStart y') (x : Bytes) (p ts : Nat)
    (t : Token) (s' : LexState) (hy : y ≠ [] ∨ t.tag ≠ .eof) (h : next ⟨x ++ y, p, ts⟩ = .ok (t, s'))
    (hl : y.length ≤ s'.rest.length) :
    ∃ x', s'.rest = x' ++ y ∧ next ⟨x ++ y', p, ts⟩ = .ok (t, ⟨x' ++ y', s'.pos, s'.tokenStart⟩) := by
  rw [next_eq] at h ⊢
  dsimp only at h ⊢
  let F := (x ++ y).length + (x ++ y').length + 1
  rw [skipWs_fuel _ F _ _ (Nat.lt_succ_self _) (by simp [F]; omega)] at h
  rw [skipWs_fuel _ F _ _ (Nat.lt_succ_self _) (by simp [F]; omega)]
  by_cases hc : y.length < (skipWs F (x ++ y) p).1.length
  · obtain ⟨x₂, hne, e1, e2⟩ := skipWs_stable y y' F x p hc
    rw [e1] at h
    rw [e2]
    cases x₂ with
    | nil => exact absurd rfl hne
    | cons c cs =>
      simp only [List.cons_append] at h ⊢
      exact lexAt_stable y y' hy' c cs _ t s' h hl
  · exfalso
    generalize hsk : skipWs F (x ++ y) p = sk at h hc
    obtain ⟨r, q⟩ := sk
    cases r with
    | nil =>
      simp only [Except.ok.injEq, Prod.mk.injEq] at h
      rw [← h.2] at hl
      rcases hy with hy | hy
      · cases y with
        | nil => exact hy rfl
        | cons _ _ => simp at hl
      · exact hy (by rw [← h.1])
    | cons c cs =>
      dsimp only at h hc
      obtain ⟨tok, htok, h4, _⟩ := (lexAt_res c cs q).consumed h
      have := congrArg List.length h4
      have : 0 < tok.length := List.length_pos_iff.mpr htok
      simp at *
      omega

theorem nextNN_stable (y y' : Bytes) (hy' : SepStart y') :
    ∀ (f : Nat) (x : Bytes) (p ts : Nat) (nl₀ : Bool) (t : Token) (nl : Bool) (s' : LexState),
    (y ≠ [] ∨ t.tag ≠ .eof) →
    nextNN f ⟨x ++ y, p, ts⟩ nl₀ = .ok (t, nl, s') → y.length ≤ s'.rest.length →
    ∃ x', s'.rest = x' ++ y ∧
      nextNN f ⟨x ++ y', p, ts⟩ nl₀ = .ok (t, nl, ⟨x' ++ y', s'.pos, s'.tokenStart⟩)
  | 0, _, _, _, _, _, _, _, _, h, _ => by cases h
  | f + 1, x, p, ts, nl₀, t, nl, s', hy, h, hl => by
    simp only [nextNN] at h ⊢
    cases hn : next ⟨x ++ y, p, ts⟩ with
    | error e => rw [hn] at h; cases h
    | ok r =>
      obtain ⟨t₁, s₁⟩ := r
      rw [hn] at h
      dsimp only at h
      by_cases hnl : (t₁.tag == .newline) = true
      · rw [if_pos hnl] at h
        obtain ⟨⟨pre, hpre⟩, _⟩ := Nl.nextNN_suffix _ _ _ _ _ _ h
        have hl₁ : y.length ≤ s₁.rest.length := by
          have := congrArg List.length hpre
          simp at this; omega
        have hne : t₁.tag ≠ .eof := by
          rw [beq_iff_eq] at hnl; rw [hnl]; decide
        obtain ⟨x₁, e1, e2⟩ := next_stable y y' hy' x p ts t₁ s₁ (.inr hne) hn hl₁
        rw [e2]
        dsimp only
        rw [if_pos hnl]
        have hs₁ : s₁ = ⟨x₁ ++ y, s₁.pos, s₁.tokenStart⟩ := by rw [← e1]
        rw [hs₁] at h
        exact nextNN_stable y y' hy' f x₁ _ _ true t nl s' hy h hl
      · rw [if_neg hnl] at h
        simp only [Except.ok.injEq, Prod.mk.injEq] at h
        obtain ⟨rfl, rfl, rfl⟩ := h
        obtain ⟨x₁, e1, e2⟩ := next_stable y y' hy' x p ts t₁ s₁ hy hn hl
        rw [e2]
        dsimp only
        rw [if_neg hnl]
        exact ⟨x₁, e1, rfl⟩

theorem regex_stable (y y' : Bytes) (x : Bytes) (p ts : Nat) (t : Token) (s' : LexState)
    (h : regex ⟨x ++ y, p, ts⟩ = .ok (t, s')) (hl : y.length ≤ s'.rest.length) :
    ∃ x', s'.rest = x' ++ y ∧ regex ⟨x ++ y', p, ts⟩ = .ok (t, ⟨x' ++ y', s'.pos, s'.tokenStart⟩) := by
  unfold regex at h ⊢
  dsimp only at h ⊢
  cases hs : scanTo 47 (x ++ y) with
  | none => rw [hs] at h; cases h
  | some br =>
    obtain ⟨body, r'⟩ := br
    rw [hs] at h
    simp only [Except.ok.injEq, Prod.mk.injEq] at h
    obtain ⟨rfl, rfl⟩ := h
    obtain ⟨u', h1, h2⟩ := scanTo_stable 47 y y' x body r' hs hl
    exact ⟨u', h1, by rw [h2]⟩

theorem regex_suffix (s : LexState) (t : Token) (s' : LexState) (h : regex s = .ok (t, s')) :
    ∃ pre, s.rest = pre ++ s'.rest := by
  unfold regex at h
  cases hs : scanTo 47 s.rest with
  | none => rw [hs] at h; cases h
  | some br =>
    obtain ⟨body, r'⟩ := br
    rw [hs] at h
    simp only [Except.ok.injEq, Prod.mk.injEq] at h
    obtain ⟨_, rfl⟩ := h
    obtain ⟨he, _⟩ := (scanTo_some_iff 47 s.rest body r').mp hs
    exact ⟨body ++ [47], by rw [he]; simp⟩

end Lexer
end Jqawk
