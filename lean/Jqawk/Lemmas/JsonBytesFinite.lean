import Jqawk.Lemmas.JsonBytesNums
import Jqawk.Lemmas.JsonBytesNorm
/-!
  A number literal the decoder accepted (JSON number grammar, no range error) denotes a finite
  double: `strconv.ParseFloat` yields either a syntax error (read as 0 by `newValueJson`) or a value
  below infinity — never `inf`/`nan`, which `special` only produces for texts starting with a letter
  or a sign followed by a letter.
-/
namespace Jqawk.JsonBytes
open Jqawk Jqawk.Json

theorem jsonFormat_ne_none (x : F64) (h : (x.isNaN || x.isInf) = false) : x.jsonFormat ≠ none := by
  unfold F64.jsonFormat
  simp only [h, Bool.false_eq_true, if_false]
  split
  · split <;> simp
  · simp

theorem ofMag_finite (neg : Bool) (m : Nat) (h : m < F64.infMag) :
    ((F64.ofMag neg m).isNaN || (F64.ofMag neg m).isInf) = false := by
  have hm : (F64.ofMag neg m).mag = m := by
    simp only [F64.mag, F64.raw, F64.ofMag, F64.infMag] at *
    cases neg <;> simp <;> omega
  simp only [F64.isNaN, F64.isInf, hm, Bool.or_eq_false_iff, decide_eq_false_iff_not, beq_eq_false_iff_ne]
  exact ⟨by omega, by omega⟩

theorem digit_toNat (d : UInt8) (h : isDigit d = true) : 48 ≤ d.toNat ∧ d.toNat ≤ 57 := by
  simp only [isDigit, Bool.and_eq_true, decide_eq_true_eq, UInt8.le_iff_toNat_le] at h
  simpa using h

theorem special_none (b : UInt8) (ds : Bytes) (hb : (b == 0x2D || isDigit b) = true)
    (hacc : numAccepts (firstNum b) ds = true) : F64.special ((b :: ds).map UInt8.toNat) = none := by
  by_cases hm : b = 0x2D
  · subst hm
    cases ds with
    | nil => simp [numAccepts, firstNum, canEnd] at hacc
    | cons d ds' =>
      have hd : isDigit d = true := by
        cases hdd : isDigit d with
        | true => rfl
        | false =>
          have h0 : (d == 0x30) = false := by
            cases h : (d == 0x30) with
            | false => rfl
            | true =>
              simp only [beq_iff_eq] at h; subst h
              exact absurd hdd (by decide)
          simp [numAccepts, firstNum, numNext, h0, hdd] at hacc
      obtain ⟨h1, h2⟩ := digit_toNat d hd
      simp only [List.map_cons, F64.special, F64.commonPrefixLenIgnoreCase]
      have e1 : ¬ (65 ≤ d.toNat ∧ d.toNat ≤ 90) := by omega
      have e2 : d.toNat ≠ 105 := by omega
      have cA : F64.ch 'A' = 65 := rfl
      have cZ : F64.ch 'Z' = 90 := rfl
      have ci : F64.ch 'i' = 105 := rfl
      have c1 : F64.ch '+' = 43 := rfl
      have c2 : F64.ch '-' = 45 := rfl
      simp [e1, e2, cA, cZ, ci, c1, c2]
  · have hd : isDigit b = true := by
      simp only [Bool.or_eq_true, beq_iff_eq] at hb
      rcases hb with hb | hb
      · exact absurd hb hm
      · exact hb
    obtain ⟨h1, h2⟩ := digit_toNat b hd
    simp only [List.map_cons, F64.special]
    have : b.toNat ≠ 43 ∧ b.toNat ≠ 45 ∧ b.toNat ≠ 105 ∧ b.toNat ≠ 73 ∧ b.toNat ≠ 110 ∧ b.toNat ≠ 78 := by omega
    have c1 : F64.ch '+' = 43 := rfl
    have c2 : F64.ch '-' = 45 := rfl
    have c3 : F64.ch 'i' = 105 := rfl
    have c4 : F64.ch 'I' = 73 := rfl
    have c5 : F64.ch 'n' = 110 := rfl
    have c6 : F64.ch 'N' = 78 := rfl
    simp [this, c1, c2, c3, c4, c5, c6]

/-- a grammatical number literal is never parsed to an infinity or NaN: the value `newValueJson`
    stores for it (0 for a text `strconv.ParseFloat` rejects) is finite -/
theorem finite_of_grammar (lit : Bytes) (h : numGrammar lit = true) :
    ((F64.parse lit).getD F64.zero).jsonFormat ≠ none := by
  cases lit with
  | nil => simp [numGrammar] at h
  | cons b ds =>
    simp only [numGrammar, Bool.and_eq_true] at h
    have hsp := special_none b ds h.1 h.2
    unfold F64.parse
    cases hp : F64.parseFull (b :: ds) with
    | ok x =>
      simp only [Option.getD_some]
      unfold F64.parseFull at hp
      simp only [hsp] at hp
      split at hp
      · cases hp
      · rename_i sc hsc
        split at hp
        · cases hp
        · rename_i hlt
          simp only [F64.ParseRes.ok.injEq] at hp
          rw [← hp]
          exact jsonFormat_ne_none _ (ofMag_finite _ _ (by omega))
    | _ => exact (by decide : F64.zero.jsonFormat ≠ none)

mutual
theorem finiteNums_of_numsOK (f : Bytes → Bool) : ∀ (j : JVal), NumsOK f j → FiniteNums j
  | .null, _ => trivial
  | .bool _, _ => trivial
  | .str _, _ => trivial
  | .num lit, h => finite_of_grammar lit ((numLit_iff f lit).1 h).1
  | .arr xs, h => finiteNumsList_of_numsOK f xs h
  | .obj ms, h => finiteNumsMembers_of_numsOK f ms h
theorem finiteNumsList_of_numsOK (f : Bytes → Bool) : ∀ (xs : List JVal), NumsOKList f xs → FiniteNumsList xs
  | [], _ => trivial
  | x :: xs, h => ⟨finiteNums_of_numsOK f x h.1, finiteNumsList_of_numsOK f xs h.2⟩
theorem finiteNumsMembers_of_numsOK (f : Bytes → Bool) : ∀ (ms : List (Bytes × JVal)), NumsOKMembers f ms →
    FiniteNumsMembers ms
  | [], _ => trivial
  | (_, v) :: ms, h => ⟨finiteNums_of_numsOK f v h.1, finiteNumsMembers_of_numsOK f ms h.2⟩
end

end Jqawk.JsonBytes
