/-
  The frame rule for an assignment that creates its target through ANY number of missing
  levels (C09): `o.x.y.z = e`, `a[3][1].k = e`, `u.a[2] = e` — the recursive branch of
  `createSpeculativeObjects`.
-/
import Jqawk.Lemmas.AssignCreate

set_option linter.unusedVariables false

namespace Jqawk

/-- what a value remembers about where it would be stored (`ParentObj` + key) -/
def Val.spec? : Val → Option SpecRef
  | .nil s => s
  | .native _ _ s => s
  | .str _ s => s
  | _ => none

/-- a fresh empty container for a member with the given key: object for a string key, array
    for a number -/
def freshCont (h : Heap) (key : Key) : Val × Heap :=
  match key with
  | .str _ => (.obj h.objs.size, (h.allocObj []).2)
  | .num _ => (.arr h.arrs.size, (h.allocArr #[]).2)

/-- `createSpeculative` when the parent is not itself a stand-in for a missing member -/
theorem createSpeculative_base (n : Nat) (sc p : CellId) (key : Key) (s : St)
    (hsv : (s.heap.get sc).spec? = some ⟨p, key⟩) (hp : ∀ sp, s.heap.get p ≠ .nil (some sp)) :
    createSpeculative (n + 1) sc s =
      if s.heap.get p = .nil none then .ok (.error "could not create this object") s else
      match setMember (createTarget s.heap p key).1 (createTarget s.heap p key).2 key.val sc with
      | .error m => .ok (.error m) { s with heap := (createTarget s.heap p key).1 }
      | .ok (c, h') => .ok (.ok c) { s with heap := h' } := by
  unfold createSpeculative
  simp only [bind, EM.bind, readCell]
  revert hsv
  generalize s.heap.get sc = sv
  intro hsv
  cases sv <;> simp only [Val.spec?, reduceCtorEq] at hsv
  all_goals
    subst hsv
    dsimp only
    simp only [bind, EM.bind, readCell]
    unfold createTarget
    cases hv : s.heap.get p with
    | nil sp =>
      cases sp with
      | none => simp [pure, EM.pure]
      | some x => exact absurd hv (hp x)
    | unknown =>
      simp only [reduceCtorEq, ↓reduceIte]
      cases key with
      | num x =>
        simp only [Key.val, allocArrM, Heap.allocArr, writeCell, pure, EM.pure, bind, EM.bind, getHeap, setHeap]
        cases setMember _ _ _ _ with
        | error m => rfl
        | ok r => rfl
      | str k =>
        simp only [Key.val, allocObjM, Heap.allocObj, writeCell, pure, EM.pure, bind, EM.bind, getHeap, setHeap]
        cases setMember _ _ _ _ with
        | error m => rfl
        | ok r => rfl
    | _ =>
      simp only [reduceCtorEq, ↓reduceIte, pure, EM.pure, bind, EM.bind, getHeap, setHeap]
      cases key <;> simp only [Key.val] <;> cases setMember _ _ _ _ <;> rfl


/-- the heap after the missing parent has been created: a fresh container, referred to by the
    new member cell `np` of the grandparent and by the stand-in cell `p` -/
def linkParent (h : Heap) (key : Key) (np p : CellId) : Heap :=
  ((freshCont h key).2.set np (freshCont h key).1).set p (freshCont h key).1

/-- `createSpeculative` when the parent `p` is itself a stand-in for a missing member: create
    the parent first (on a copy cell of its value), make it a fresh container, then store -/
theorem createSpeculative_step (n : Nat) (sc p : CellId) (key : Key) (sp : SpecRef) (s : St)
    (hsv : (s.heap.get sc).spec? = some ⟨p, key⟩) (hp : s.heap.get p = .nil (some sp)) :
    createSpeculative (n + 1) sc s =
      match createSpeculative n s.heap.cells.size { s with heap := (s.heap.alloc (.nil (some sp))).2 } with
      | .oof => .oof
      | .err e s' => .err e s'
      | .ok (.error m) s' => .ok (.error m) s'
      | .ok (.ok np) s2 =>
        match setMember (linkParent s2.heap key np p) (freshCont s2.heap key).1 key.val sc with
        | .error m => .ok (.error m) { s2 with heap := linkParent s2.heap key np p }
        | .ok (c, h') => .ok (.ok c) { s2 with heap := h' } := by
  conv => lhs; unfold createSpeculative
  simp only [bind, EM.bind, readCell]
  revert hsv
  generalize s.heap.get sc = sv
  intro hsv
  cases sv <;> simp only [Val.spec?, reduceCtorEq] at hsv
  all_goals
    subst hsv
    dsimp only
    simp only [bind, EM.bind, readCell, hp, Jqawk.newCell, Heap.alloc]
    cases createSpeculative n s.heap.cells.size
        { s with heap := { cells := s.heap.cells.push (.nil (some sp)), arrs := s.heap.arrs, objs := s.heap.objs } } with
    | oof => rfl
    | err e s' => rfl
    | ok r s2 =>
      cases r with
      | error m => rfl
      | ok np =>
        simp only [pure, EM.pure, getHeap, setHeap, writeCell, bind, EM.bind, linkParent, freshCont,
          Heap.allocArr, Heap.allocObj]
        cases key with
        | num x =>
          simp only [Key.val]
          cases setMember _ _ _ _ with
          | error m => rfl
          | ok r => rfl
        | str k =>
          simp only [Key.val]
          cases setMember _ _ _ _ with
          | error m => rfl
          | ok r => rfl


/-! ### chains of missing parents -/

/-- `ChainV h b v cs`: the value `v` stands for a missing member whose missing parents are the
    stand-in cells `cs` (innermost first), ending at the base cell `b`, which is allocated and
    is not itself a stand-in; if `b` holds an array, the index stored on it is at or past its
    end (that is why the member was missing). -/
inductive ChainV (h : Heap) (b : CellId) : Val → List CellId → Prop
  | base {v : Val} {key : Key} (hv : v.spec? = some ⟨b, key⟩) (hb : b < h.cells.size)
      (hns : ∀ sp, h.get b ≠ .nil (some sp))
      (harr : ∀ a, h.get b = .arr a → a < h.arrs.size ∧ ∀ x i, key = .num x →
        resolveIndex (h.arr a).size x.toGoInt = some i → (h.arr a).size ≤ i) : ChainV h b v []
  | step {v : Val} {p : CellId} {key : Key} {sp : SpecRef} {cs : List CellId}
      (hv : v.spec? = some ⟨p, key⟩) (hp : h.get p = .nil (some sp))
      (hrec : ChainV h b (h.get p) cs) : ChainV h b v (p :: cs)

theorem ChainV.lift {h h' : Heap} {b : CellId} {v : Val} {cs : List CellId} (c : ChainV h b v cs)
    (p : HeapPreserved h h') : ChainV h' b v cs := by
  induction c with
  | base hv hb hns harr =>
    refine .base hv (Nat.lt_of_lt_of_le hb p.cells) (by rw [p.get b hb]; exact hns) ?_
    intro a ha
    rw [p.get b hb] at ha
    obtain ⟨h1, h2⟩ := harr a ha
    refine ⟨Nat.lt_of_lt_of_le h1 p.arrs, ?_⟩
    rw [p.arr a h1]; exact h2
  | step hv hp hrec ih =>
    rename_i v0 p0 key0 sp0 cs0
    have hlt : p0 < h.cells.size := Heap.lt_of_get_ne_unknown _ _ (by rw [hp]; simp)
    have e : h'.get p0 = h.get p0 := p.get p0 hlt
    exact .step hv (by rw [e]; exact hp) (by rw [e]; exact ih)

theorem ChainV.base_lt {h : Heap} {b : CellId} {v : Val} {cs : List CellId} (c : ChainV h b v cs) :
    b < h.cells.size := by
  induction c with
  | base _ hb _ _ => exact hb
  | step _ _ _ ih => exact ih

/-- the sets a creating store may touch, relative to the heap `h` it starts from -/
def SpecFrame (h : Heap) (sc b : CellId) (cs : List CellId) (h' : Heap) : Prop :=
  HeapFrame (fun d => d = sc ∨ d ∈ cs ∨ (d = b ∧ h.get b = .unknown))
    (fun a => h.get b = .arr a) (fun o => h.get b = .obj o) h h'

/-- the same with everything allocated later thrown in (closed under composition) -/
def SpecFrameBig (h : Heap) (sc b : CellId) (cs : List CellId) (h1 h2 : Heap) : Prop :=
  HeapFrame (fun d => d = sc ∨ d ∈ cs ∨ (d = b ∧ h.get b = .unknown) ∨ h.cells.size ≤ d)
    (fun a => h.get b = .arr a ∨ h.arrs.size ≤ a) (fun o => h.get b = .obj o ∨ h.objs.size ≤ o) h1 h2

theorem SpecFrameBig.restrict {h : Heap} {sc b : CellId} {cs : List CellId} {h' : Heap}
    (f : SpecFrameBig h sc b cs h h') : SpecFrame h sc b cs h' := by
  refine HeapFrame.restrict f ?_ ?_ ?_
  · intro d hd hc
    rcases hc with e | e | e | e
    · exact .inl e
    · exact .inr (.inl e)
    · exact .inr (.inr e)
    · exact absurd hd (Nat.not_lt.mpr e)
  · intro d hd hc
    rcases hc with e | e
    · exact e
    · exact absurd hd (Nat.not_lt.mpr e)
  · intro d hd hc
    rcases hc with e | e
    · exact e
    · exact absurd hd (Nat.not_lt.mpr e)

theorem SpecFrameBig.trans {h : Heap} {sc b : CellId} {cs : List CellId} {h1 h2 h3 : Heap}
    (f : SpecFrameBig h sc b cs h1 h2) (g : SpecFrameBig h sc b cs h2 h3) :
    SpecFrameBig h sc b cs h1 h3 := HeapFrame.trans f g

theorem SpecFrameBig.of_preserved {h : Heap} {sc b : CellId} {cs : List CellId} {h1 h2 : Heap}
    (p : HeapPreserved h1 h2) : SpecFrameBig h sc b cs h1 h2 :=
  ⟨p.cells, p.arrs, p.objs, fun d hd _ => p.get d hd, fun a ha _ => p.arr a ha, fun o ho _ => p.obj o ho⟩

/-- a write to a cell in the set -/
theorem SpecFrameBig.set {h : Heap} {sc b : CellId} {cs : List CellId} (h1 : Heap) (c : CellId) (w : Val)
    (hc : c = sc ∨ c ∈ cs ∨ (c = b ∧ h.get b = .unknown) ∨ h.cells.size ≤ c) :
    SpecFrameBig h sc b cs h1 (h1.set c w) :=
  (HeapFrame.set h1 c w).mono (fun d hd => hd ▸ hc) (fun _ hd => hd.elim) (fun _ hd => hd.elim)

/-- one level: materialise the base, store the member -/
theorem storeBase_frame (h : Heap) (sc b : CellId) (key : Key) (cs : List CellId)
    (hsc : sc < h.cells.size)
    (harr : ∀ a, h.get b = .arr a → ∀ x i, key = .num x →
        resolveIndex (h.arr a).size x.toGoInt = some i → (h.arr a).size ≤ i) :
    SpecFrameBig h sc b cs h (createTarget h b key).1 ∧
    ∀ c h', setMember (createTarget h b key).1 (createTarget h b key).2 key.val sc = .ok (c, h') →
      SpecFrameBig h sc b cs h h' ∧ (c = sc ∨ h.cells.size ≤ c) ∧ c < h'.cells.size := by
  have F0 : SpecFrameBig h sc b cs h (createTarget h b key).1 :=
    (createTarget_frame h b key).mono (fun d hd => .inr (.inr (.inl hd))) (fun _ hd => hd.elim)
      (fun _ hd => hd.elim)
  refine ⟨F0, ?_⟩
  intro c h' hs
  have hsc' : sc < (createTarget h b key).1.cells.size := Nat.lt_of_lt_of_le hsc F0.cells
  have hidx' : ∀ a x i, (createTarget h b key).2 = .arr a → key.val = .num x →
      resolveIndex ((createTarget h b key).1.arr a).size x.toGoInt = some i →
      ((createTarget h b key).1.arr a).size ≤ i := by
    intro a x i ht hkx hri
    rcases createTarget_snd h b key with ⟨_, ⟨e1, e2⟩ | e1⟩ | ⟨_, e⟩
    · rw [e1] at ht; cases ht
      rw [e2]; exact Nat.zero_le _
    · rw [e1] at ht; cases ht
    · rw [e] at ht hri ⊢
      have : key = .num x := by cases key <;> simp_all [Key.val]
      exact harr a ht x i this hri
  obtain ⟨F1, hcc, hclt⟩ := setMember_frame _ _ _ sc c h' hsc' hs hidx'
  have F1' : SpecFrameBig h sc b cs (createTarget h b key).1 h' := by
    refine F1.mono (fun _ hd => hd.elim) ?_ ?_
    · intro a ht
      rcases createTarget_snd h b key with ⟨_, ⟨e1, _⟩ | e1⟩ | ⟨_, e⟩
      · rw [e1] at ht; cases ht; exact .inr (Nat.le_refl _)
      · rw [e1] at ht; cases ht
      · rw [e] at ht; exact .inl ht
    · intro o ht
      rcases createTarget_snd h b key with ⟨_, ⟨e1, _⟩ | e1⟩ | ⟨_, e⟩
      · rw [e1] at ht; cases ht
      · rw [e1] at ht; cases ht; exact .inr (Nat.le_refl _)
      · rw [e] at ht; exact .inl ht
  refine ⟨F0.trans F1', ?_, hclt⟩
  rcases hcc with e | e
  · exact .inl e
  · exact .inr (Nat.le_trans F0.cells e)


theorem freshCont_preserved (h : Heap) (key : Key) : HeapPreserved h (freshCont h key).2 := by
  cases key with
  | str k => exact HeapPreserved.allocObj h []
  | num x => exact HeapPreserved.allocArr h #[]

theorem linkParent_size (h : Heap) (key : Key) (np p : CellId) :
    (linkParent h key np p).cells.size = h.cells.size := by
  unfold linkParent
  rw [Heap.size_set, Heap.size_set]
  cases key <;> rfl

/-- the fresh container is an array only for a numeric key, and then it is empty -/
theorem freshCont_arr (h : Heap) (key : Key) (np p : CellId) (a : ArrId)
    (e : (freshCont h key).1 = .arr a) :
    a = h.arrs.size ∧ (linkParent h key np p).arr a = #[] := by
  cases key with
  | str k => cases e
  | num x =>
    simp only [freshCont, Val.arr.injEq] at e
    subst e
    exact ⟨rfl, by simp [linkParent, freshCont, Heap.set, Heap.allocArr, Heap.arr, Array.getD_eq_getD_getElem?]⟩

theorem freshCont_obj (h : Heap) (key : Key) (o : ObjId) (e : (freshCont h key).1 = .obj o) :
    o = h.objs.size := by
  cases key with
  | str k => simp only [freshCont, Val.obj.injEq] at e; exact e.symm
  | num x => cases e

/-- what a run of `createSpeculative` guarantees -/
def SpecRes (h : Heap) (sc b : CellId) (cs : List CellId) : Res (Except String CellId) → Prop
  | .ok r s' => SpecFrame h sc b cs s'.heap ∧
      ∀ c, r = .ok c → (c = sc ∨ h.cells.size ≤ c) ∧ c < s'.heap.cells.size
  | .err _ s' => SpecFrame h sc b cs s'.heap
  | .oof => True

/-- **the frame of `createSpeculativeObjects`, any number of missing levels**: apart from the
    stand-in cells of the chain and an unset base cell, no cell that existed changes; no array /
    object other than the one the base holds changes; the member cell it returns is the
    stand-in cell itself or a fresh cell -/
theorem createSpeculative_frame : ∀ (n : Nat) (sc : CellId) (s : St) (b : CellId) (cs : List CellId),
    ChainV s.heap b (s.heap.get sc) cs → SpecRes s.heap sc b cs (createSpeculative n sc s)
  | 0, sc, s, b, cs, _ => by unfold createSpeculative; trivial
  | n + 1, sc, s, b, cs, hc => by
    have hsc : sc < s.heap.cells.size := by
      apply Heap.lt_of_get_ne_unknown
      intro e
      cases hc with
      | base hv _ _ _ => rw [e] at hv; cases hv
      | step hv _ _ => rw [e] at hv; cases hv
    cases hc with
    | base hv hb hns harr =>
      rename_i key
      rw [createSpeculative_base n sc b key s hv hns]
      obtain ⟨F0, Fs⟩ := storeBase_frame s.heap sc b key [] hsc (fun a ha => (harr a ha).2)
      split
      · exact ⟨(SpecFrameBig.of_preserved (HeapPreserved.refl _)).restrict, fun c e => by cases e⟩
      · cases hs : setMember (createTarget s.heap b key).1 (createTarget s.heap b key).2 key.val sc with
        | error m => exact ⟨F0.restrict, fun c e => by cases e⟩
        | ok res =>
          obtain ⟨c, h'⟩ := res
          obtain ⟨F, hcc, hlt⟩ := Fs c h' hs
          exact ⟨F.restrict, fun c' e => by cases e; exact ⟨hcc, hlt⟩⟩
    | step hv hp hrec =>
      rename_i p key sp cs'
      rw [createSpeculative_step n sc p key sp s hv hp]
      have hplt : p < s.heap.cells.size := Heap.lt_of_get_ne_unknown _ _ (by rw [hp]; simp)
      -- the recursive call, on the copy cell
      have hpc : (s.heap.alloc (.nil (some sp))).2.get s.heap.cells.size = s.heap.get p := by
        rw [Heap.get_alloc_new_readOnly, hp]
      have hal := HeapPreserved.alloc s.heap (.nil (some sp))
      have ih := createSpeculative_frame n s.heap.cells.size
        { s with heap := (s.heap.alloc (.nil (some sp))).2 } b cs'
        (by show ChainV _ b ((s.heap.alloc (.nil (some sp))).2.get s.heap.cells.size) cs'
            rw [hpc]; exact hrec.lift hal)
      -- the base cell is allocated, so it is the same in the intermediate heap
      have hblt : b < s.heap.cells.size := hrec.base_lt
      have hbget : (s.heap.alloc (.nil (some sp))).2.get b = s.heap.get b := hal.get b hblt
      have toBig : ∀ h2, SpecFrame (s.heap.alloc (.nil (some sp))).2 s.heap.cells.size b cs' h2 →
          SpecFrameBig s.heap sc b (p :: cs') (s.heap.alloc (.nil (some sp))).2 h2 := by
        intro h2 f
        refine HeapFrame.mono f ?_ ?_ ?_
        · intro d hd
          rcases hd with e | e | ⟨e1, e2⟩
          · exact .inr (.inr (.inr (by rw [e]; exact Nat.le_refl _)))
          · exact .inr (.inl (List.mem_cons_of_mem _ e))
          · exact .inr (.inr (.inl ⟨e1, by rw [← hbget]; exact e2⟩))
        · intro a ha; exact .inl (by rw [← hbget]; exact ha)
        · intro o ho; exact .inl (by rw [← hbget]; exact ho)
      have F01 : SpecFrameBig s.heap sc b (p :: cs') s.heap (s.heap.alloc (.nil (some sp))).2 :=
        SpecFrameBig.of_preserved hal
      cases hr : createSpeculative n s.heap.cells.size
          { s with heap := (s.heap.alloc (.nil (some sp))).2 } with
      | oof => trivial
      | err e s' =>
        rw [hr] at ih
        exact (F01.trans (toBig _ ih)).restrict
      | ok r s2 =>
        rw [hr] at ih
        obtain ⟨f2, hnp⟩ := ih
        have F02 := F01.trans (toBig _ f2)
        cases r with
        | error m => exact ⟨F02.restrict, fun c e => by cases e⟩
        | ok np =>
          obtain ⟨hnp1, hnp2⟩ := hnp np rfl
          have hsz1 : (s.heap.alloc (.nil (some sp))).2.cells.size = s.heap.cells.size + 1 :=
            Heap.size_alloc _ _
          have hnpge : s.heap.cells.size ≤ np := by
            rcases hnp1 with e | e
            · rw [e]; exact Nat.le_refl _
            · rw [hsz1] at e; exact Nat.le_of_succ_le e
          -- linking the new parent
          have F23 : SpecFrameBig s.heap sc b (p :: cs') s2.heap (linkParent s2.heap key np p) := by
            unfold linkParent
            refine (SpecFrameBig.of_preserved (freshCont_preserved s2.heap key)).trans ?_
            exact (SpecFrameBig.set (freshCont s2.heap key).2 np (freshCont s2.heap key).1
              (.inr (.inr (.inr hnpge)))).trans
              (SpecFrameBig.set _ p (freshCont s2.heap key).1 (.inr (.inl List.mem_cons_self)))
          have F03 := F02.trans F23
          dsimp only
          cases hs : setMember (linkParent s2.heap key np p) (freshCont s2.heap key).1 key.val sc with
          | error m => exact ⟨F03.restrict, fun c e => by cases e⟩
          | ok res =>
            obtain ⟨c, h'⟩ := res
            have hsc3 : sc < (linkParent s2.heap key np p).cells.size := Nat.lt_of_lt_of_le hsc F03.cells
            obtain ⟨F, hcc, hlt⟩ := setMember_frame _ _ _ sc c h' hsc3 hs (by
              intro a x i ht _ _
              rw [(freshCont_arr s2.heap key np p a ht).2]; exact Nat.zero_le _)
            have F34 : SpecFrameBig s.heap sc b (p :: cs') (linkParent s2.heap key np p) h' := by
              refine F.mono (fun _ hd => hd.elim) ?_ ?_
              · intro a ht
                rw [(freshCont_arr s2.heap key np p a ht).1]
                exact .inr F02.arrs
              · intro o ht
                rw [freshCont_obj s2.heap key o ht]
                exact .inr F02.objs
            refine ⟨(F03.trans F34).restrict, fun c' e => ?_⟩
            cases e
            refine ⟨?_, hlt⟩
            rcases hcc with e | e
            · exact .inl e
            · exact .inr (Nat.le_trans F03.cells e)


/-! ### the assignment -/

/-- what an assignment through a stand-in guarantees: the frame, for every way it can end -/
def SpecAfter (h : Heap) (sc b : CellId) (cs : List CellId) : Res CellId → Prop
  | .ok _ s' => SpecFrame h sc b cs s'.heap
  | .err _ s' => SpecFrame h sc b cs s'.heap
  | .oof => True

theorem speculative_of_spec {v : Val} {sp : SpecRef} (h : v.spec? = some sp) : v.speculative = true := by
  cases v <;> simp only [Val.spec?, reduceCtorEq] at h <;> subst h <;> rfl

/-- `evalAssignment` to a stand-in cell: create the location, then copy the value into it -/
theorem evalAssignment_spec_eq (pos : Nat) (left right : CellId) (s : St) (sp : SpecRef)
    (hsp : (s.heap.get left).spec? = some sp) :
    evalAssignment pos left right s =
      match createSpeculative (s.heap.cells.size + 2) left s with
      | .oof => .oof
      | .err e s' => .err e s'
      | .ok (.error m) s' => Jqawk.throwRt pos m s'
      | .ok (.ok c) s' =>
        match copyVal (s'.heap.get right) with
        | .ok w => .ok c { s' with heap := s'.heap.set c w }
        | .error m => Jqawk.throwRt pos m s' := by
  unfold evalAssignment
  simp only [bind, EM.bind, readCell, getHeap]
  revert hsp
  generalize s.heap.get left = lv
  intro hsp
  cases lv <;> simp only [Val.spec?, reduceCtorEq] at hsp
  all_goals
    subst hsp
    simp only [↓reduceIte, bind, EM.bind, getHeap]
    cases createSpeculative (s.heap.cells.size + 2) left s with
    | oof => rfl
    | err e s' => rfl
    | ok r s' =>
      cases r with
      | error m => rfl
      | ok c =>
        simp only [pure, EM.pure, copyValue, bind, EM.bind, readCell]
        cases copyVal (s'.heap.get right) <;> rfl

/-- `evalAssignment` to a stand-in cell, any number of missing levels: the frame -/
theorem evalAssignment_chain_frame (pos : Nat) (left right b : CellId) (cs : List CellId) (s : St)
    (hc : ChainV s.heap b (s.heap.get left) cs) :
    SpecAfter s.heap left b cs (evalAssignment pos left right s) := by
  have hsp : ∃ sp, (s.heap.get left).spec? = some sp := by
    cases hc with
    | base hv _ _ _ => exact ⟨_, hv⟩
    | step hv _ _ => exact ⟨_, hv⟩
  obtain ⟨sp, hsp⟩ := hsp
  have hfr := createSpeculative_frame (s.heap.cells.size + 2) left s b cs hc
  rw [evalAssignment_spec_eq pos left right s sp hsp]
  cases hr : createSpeculative (s.heap.cells.size + 2) left s with
  | oof => trivial
  | err e s' => rw [hr] at hfr; exact hfr
  | ok r s' =>
    rw [hr] at hfr
    obtain ⟨f, hcell⟩ := hfr
    cases r with
    | error m => exact f
    | ok c =>
      obtain ⟨hc1, hc2⟩ := hcell c rfl
      dsimp only
      cases copyVal (s'.heap.get right) with
      | error m => exact f
      | ok w =>
        have fb : SpecFrameBig s.heap left b cs s.heap s'.heap :=
          HeapFrame.mono f (fun d hd => by
            rcases hd with e | e | e
            · exact .inl e
            · exact .inr (.inl e)
            · exact .inr (.inr (.inl e))) (fun _ hd => .inl hd) (fun _ hd => .inl hd)
        refine (fb.trans (SpecFrameBig.set s'.heap c w ?_)).restrict
        rcases hc1 with e | e
        · exact .inl e
        · exact .inr (.inr (.inr e))

/-- the whole assignment `l = r` when `l` evaluates to a stand-in, any number of missing levels -/
theorem assign_chain_heapFrame (prog : Program) (n : Nat) (l r : Expr) (op : Token) (s s1 s2 : St)
    (sc rc b : CellId) (cs : List CellId) (hop : op.tag = .equal)
    (h1 : evalExpr prog n l s = .ok sc s1) (h2 : evalExpr prog n r s1 = .ok rc s2)
    (hc : ChainV s2.heap b (s2.heap.get sc) cs) :
    SpecAfter s2.heap sc b cs (evalExpr prog (n + 2) (.binary l r op) s) := by
  have e : evalExpr prog (n + 2) (.binary l r op) s = evalAssignment l.token.pos sc rc s2 := by
    unfold evalExpr
    dsimp only
    unfold evalBinary
    simp only [bind, EM.bind, h1, hop, h2]
  rw [e]
  exact evalAssignment_chain_frame _ _ _ _ _ _ hc


/-- a store through a stand-in whose base holds a scalar (e.g. `s[0] = x` on a string `s`, or
    `n.k = x` on a number) is the runtime error "cannot set member on a scalar" and changes
    nothing -/
theorem evalAssignment_scalar_base (pos : Nat) (left right b : CellId) (key : Key) (s : St)
    (hsp : (s.heap.get left).spec? = some ⟨b, key⟩)
    (h1 : ∀ a, s.heap.get b ≠ .arr a) (h2 : ∀ o, s.heap.get b ≠ .obj o)
    (h3 : s.heap.get b ≠ .unknown) (h4 : ∀ sp, s.heap.get b ≠ .nil sp) :
    evalAssignment pos left right s = Jqawk.throwRt pos "cannot set member on a scalar" s := by
  rw [evalAssignment_spec_eq pos left right s _ hsp,
    createSpeculative_base (s.heap.cells.size + 1) left b key s hsp (fun sp => h4 _)]
  have hne : s.heap.get b ≠ .nil none := h4 none
  simp only [hne, ↓reduceIte]
  have hct : createTarget s.heap b key = (s.heap, s.heap.get b) := by
    unfold createTarget
    cases hv : s.heap.get b <;> first | rfl | exact absurd hv h3
  rw [hct]
  cases hv : s.heap.get b with
  | arr a => exact absurd hv (h1 a)
  | obj o => exact absurd hv (h2 o)
  | unknown => exact absurd hv h3
  | nil sp => exact absurd hv (h4 sp)
  | _ => rfl

end Jqawk
