/-
  Index writes `a[i] = v` on an array against the ideal list (C15).

  What the evaluator runs for `a[i] = e` is `memberStep` on the cells of `a` and `i`, then the
  evaluation of `e`, then `evalAssignment` on the cell `memberStep` returned and the cell of `e`.
  `writeAt` is `memberStep` followed directly by `evalAssignment` (what runs when `e` is a variable).
  The ideal operation is `setIdx` on `List Val`.
-/
import Jqawk.Lemmas.ReadBack
import Jqawk.Lemmas.Arr

set_option linter.unusedVariables false
set_option linter.unusedSimpArgs false

namespace Jqawk.IndexWrite
open Jqawk Spec

/-- `omega` for goals stated with `CellId` (an abbreviation of `Nat` that `omega` does not see through) -/
macro "nomega" : tactic =>
  `(tactic| first | omega | (show @LT.lt Nat _ _ _; omega) | (show @LE.le Nat _ _ _; omega)
                  | (show @Eq Nat _ _; omega))

/-- the ideal list under `l[i] = w` (`i` already truncated to an integer): an index inside the list
    overwrites that element; an index at or past the end pads with nulls and appends; `-k` is the
    k-th element from the end; an index before the start, or a padding beyond `fillLimit`
    (1024·1024, src/value.go SetMember), is an error and there is no new list -/
def setIdx (l : List Val) (i : Int) (w : Val) : Except String (List Val) :=
  if 0 ≤ i then
    if i.toNat < l.length then .ok (l.set i.toNat w)
    else if fillLimit < i.toNat then .error "index too large to auto-fill array"
    else .ok (l ++ List.replicate (i.toNat - l.length) (.nil none) ++ [w])
  else if (-i).toNat ≤ l.length then .ok (l.set (l.length - (-i).toNat) w)
  else .error "index out of range"

/-- a value as array elements are: not a stand-in for a missing member and not a method value
    (both are refused by `copyValue` / stripped by it, so no store puts one into an array) -/
def Plain (v : Val) : Prop := v.speculative = false ∧ ∀ f b sp, v ≠ .native f b sp

/-- every element of every array is plain -/
def ElemsPlain (h : Heap) : Prop := ∀ a, ∀ c ∈ (h.arr a).toList, Plain (h.get c)

/-- no cell is an element twice: not at two places of one array, not in two arrays -/
def Unshared (h : Heap) : Prop :=
  ∀ a b i j, i < (h.arr a).size → j < (h.arr b).size →
    (h.arr a).getD i 0 = (h.arr b).getD j 0 → a = b ∧ i = j

/-- `memberStep` directly followed by `evalAssignment` -/
def writeAt (pos : Nat) (ac ic rc : CellId) : EM CellId := do
  let m ← memberStep pos ac ic
  evalAssignment pos m rc

/-! ### the member step on an array with a number index -/

theorem memberStep_arr_num (pos : Nat) (ac ic : CellId) (s : St) (a : ArrId) (x : F64)
    (hac : s.heap.get ac = .arr a) (hic : s.heap.get ic = .num x) :
    memberStep pos ac ic s =
      match resolveIndex (s.heap.arr a).size x.toGoInt with
      | none => Jqawk.throwRt pos "index out of range" s
      | some j =>
        if j < (s.heap.arr a).size then
          match s.heap.get ((s.heap.arr a).getD j 0) with
          | .native f _ _ => Jqawk.newCell (.native f (some ac) (some ⟨ac, .str (Val.num x).str!⟩)) s
          | _ => .ok ((s.heap.arr a).getD j 0) s
        else Jqawk.newCell (.nil (some ⟨ac, .num x⟩)) s := by
  rw [memberStep_eq]
  have hu : s.heap.get ac ≠ .unknown := by rw [hac]; intro e; cases e
  rw [if_neg hu, hic]
  unfold memberRead
  cases hri : resolveIndex (s.heap.arr a).size x.toGoInt with
  | none => simp only [bind, EM.bind, readCell, hac, getHeap, getMember, hri]
  | some j =>
    by_cases hj : j < (s.heap.arr a).size
    · simp only [bind, EM.bind, readCell, hac, getHeap, getMember, hri, hj, ↓reduceIte]
      cases hv : s.heap.get ((s.heap.arr a).getD j 0) <;> simp only [hv] <;> rfl
    · simp only [bind, EM.bind, readCell, hac, getHeap, getMember, hri, hj, ↓reduceIte]

theorem absArr_length (h : Heap) (a : ArrId) : (absArr h a).length = (h.arr a).size := by
  simp [absArr]

theorem absArr_getElem? (h : Heap) (a : ArrId) (k : Nat) (hk : k < (h.arr a).size) :
    (absArr h a)[k]? = some (h.get ((h.arr a).getD k 0)) := by
  simp [absArr, Array.getD_eq_getD_getElem?, hk]

theorem mem_arr_getD (h : Heap) (a : ArrId) (k : Nat) (hk : k < (h.arr a).size) :
    (h.arr a).getD k 0 ∈ (h.arr a).toList := by
  simp only [Array.getD_eq_getD_getElem?, Array.getElem?_eq_getElem hk, Option.getD_some]
  exact Array.mem_toList_iff.mpr (Array.getElem_mem hk)

theorem exists_of_mem_arr (h : Heap) (a : ArrId) (c : CellId) (hc : c ∈ (h.arr a).toList) :
    ∃ k, k < (h.arr a).size ∧ (h.arr a).getD k 0 = c := by
  obtain ⟨k, hk, e⟩ := List.getElem_of_mem hc
  have hk' : k < (h.arr a).size := by simpa using hk
  refine ⟨k, hk', ?_⟩
  simp only [Array.getD_eq_getD_getElem?, Array.getElem?_eq_getElem hk', Option.getD_some]
  simpa using e

/-! ### overwriting one element cell -/

theorem absArr_set_same (h : Heap) (un : Unshared h) (wf : h.WF) (a : ArrId) (j : Nat)
    (hj : j < (h.arr a).size) (w : Val) :
    absArr (h.set ((h.arr a).getD j 0) w) a = (absArr h a).set j w := by
  apply List.ext_getElem?
  intro k
  by_cases hk : k < (h.arr a).size
  · have h1 : (absArr (h.set ((h.arr a).getD j 0) w) a)[k]?
        = some ((h.set ((h.arr a).getD j 0) w).get ((h.arr a).getD k 0)) :=
      absArr_getElem? (h.set _ w) a k hk
    rw [h1, List.getElem?_set]
    by_cases hjk : j = k
    · subst hjk
      have hlen : j < (absArr h a).length := by rw [absArr_length]; exact hj
      simp only [↓reduceIte, hlen]
      rw [Heap.get_set_same' _ _ _ (wf.arrs a _ (mem_arr_getD h a j hj))]
    · simp only [hjk, ↓reduceIte]
      rw [absArr_getElem? h a k hk, Heap.get_set_ne']
      intro e
      exact hjk ((un a a k j hk hj e).2).symm
  · have l1 : (absArr (h.set ((h.arr a).getD j 0) w) a).length ≤ k := by
      rw [absArr_length]; exact Nat.le_of_not_lt hk
    have l2 : ((absArr h a).set j w).length ≤ k := by
      rw [List.length_set, absArr_length]; exact Nat.le_of_not_lt hk
    rw [List.getElem?_eq_none l1, List.getElem?_eq_none l2]

theorem absArr_set_other (h : Heap) (un : Unshared h) (a b : ArrId) (j : Nat)
    (hj : j < (h.arr a).size) (w : Val) (hb : b ≠ a) :
    absArr (h.set ((h.arr a).getD j 0) w) b = absArr h b := by
  simp only [absArr]
  apply List.map_congr_left
  intro c hc
  obtain ⟨k, hk, rfl⟩ := exists_of_mem_arr h b c hc
  apply Heap.get_set_ne'
  intro e
  exact hb (un b a k j hk hj e).1

theorem set_arrs (h : Heap) (c : CellId) (w : Val) : (h.set c w).arrs = h.arrs := rfl
theorem set_objs (h : Heap) (c : CellId) (w : Val) : (h.set c w).objs = h.objs := rfl

theorem Heap.WF.set' {h : Heap} (wf : h.WF) (c : CellId) (w : Val) : (h.set c w).WF :=
  ⟨fun a d hd => by rw [Heap.size_set]; exact wf.arrs a d hd,
   fun o k d hd => by rw [Heap.size_set]; exact wf.objs o k d hd⟩


/-! ### preservation of `Unshared` / `ElemsPlain` -/

/-- an array grows by fresh cells `n, n+1, …` (not allocated before): still unshared -/
theorem unshared_append (h h' : Heap) (wf : h.WF) (un : Unshared h) (a : ArrId) (n k : Nat)
    (hn : h.cells.size ≤ n) (ha : h'.arr a = h.arr a ++ (List.range' n k).toArray)
    (hb : ∀ b, b ≠ a → h'.arr b = h.arr b) : Unshared h' := by
  have old : ∀ i, i < (h.arr a).size → (h'.arr a).getD i 0 = (h.arr a).getD i 0 := by
    intro i hi
    simp only [ha, Array.getD_eq_getD_getElem?]
    rw [Array.getElem?_append_left hi]
  have new : ∀ i, i < (h'.arr a).size → ¬ i < (h.arr a).size →
      (h'.arr a).getD i 0 = n + (i - (h.arr a).size) := by
    intro i hi hi'
    have hsz : (h'.arr a).size = (h.arr a).size + k := by simp [ha]
    simp only [ha, Array.getD_eq_getD_getElem?]
    rw [Array.getElem?_append_right (Nat.le_of_not_lt hi')]
    simp only [List.getElem?_toArray]
    rw [List.getElem?_range' (by omega)]
    simp
  have lt : ∀ b i, i < (h.arr b).size → @LT.lt Nat _ ((h.arr b).getD i 0) h.cells.size :=
    fun b i hi => wf.arrs b _ (mem_arr_getD h b i hi)
  intro p q i j hi hj e
  by_cases hp : a = p <;> by_cases hq : a = q
  · subst hp; subst hq
    refine ⟨rfl, ?_⟩
    by_cases hi' : i < (h.arr a).size <;> by_cases hj' : j < (h.arr a).size
    · rw [old i hi', old j hj'] at e; exact (un a a i j hi' hj' e).2
    · rw [old i hi', new j hj hj'] at e; have := lt a i hi'; have e' : @Eq Nat _ _ := e; omega
    · rw [new i hi hi', old j hj'] at e; have := lt a j hj'; have e' : @Eq Nat _ _ := e; omega
    · rw [new i hi hi', new j hj hj'] at e; have e' : @Eq Nat _ _ := e; omega
  · subst hp
    have hq' : q ≠ a := fun x => hq x.symm
    rw [hb q hq'] at hj e
    by_cases hi' : i < (h.arr a).size
    · rw [old i hi'] at e; exact absurd (un a q i j hi' hj e).1 hq
    · rw [new i hi hi'] at e; have := lt q j hj; have e' : @Eq Nat _ _ := e; omega
  · subst hq
    have hp' : p ≠ a := fun x => hp x.symm
    rw [hb p hp'] at hi e
    by_cases hj' : j < (h.arr a).size
    · rw [old j hj'] at e; exact absurd (un p a i j hi hj' e).1.symm hp
    · rw [new j hj hj'] at e; have := lt p i hi; have e' : @Eq Nat _ _ := e; omega
  · rw [hb p (fun x => hp x.symm)] at hi e; rw [hb q (fun x => hq x.symm)] at hj e
    exact un p q i j hi hj e

/-- an array shrinks to a contiguous part of itself: still unshared -/
theorem unshared_sub (h : Heap) (un : Unshared h) (a : ArrId) (ha : a < h.arrs.size)
    (sub : Array CellId) (off : Nat)
    (hsub : ∀ i, i < sub.size → i + off < (h.arr a).size ∧ sub.getD i 0 = (h.arr a).getD (i + off) 0) :
    Unshared (h.setArr a sub) := by
  intro p q i j hi hj e
  by_cases hp : a = p <;> by_cases hq : a = q
  · subst hp; subst hq
    rw [Heap.arr_setArr_same h a sub ha] at hi hj e
    obtain ⟨hi1, hi2⟩ := hsub i hi
    obtain ⟨hj1, hj2⟩ := hsub j hj
    rw [hi2, hj2] at e
    have := (un a a _ _ hi1 hj1 e).2
    exact ⟨rfl, by omega⟩
  · subst hp
    have hq' : q ≠ a := fun x => hq x.symm
    rw [Heap.arr_setArr_same h a sub ha] at hi e
    rw [Heap.arr_setArr_other h a q sub hq'] at hj e
    obtain ⟨hi1, hi2⟩ := hsub i hi
    rw [hi2] at e
    exact absurd (un a q _ j hi1 hj e).1 hq
  · subst hq
    have hp' : p ≠ a := fun x => hp x.symm
    rw [Heap.arr_setArr_same h a sub ha] at hj e
    rw [Heap.arr_setArr_other h a p sub hp'] at hi e
    obtain ⟨hj1, hj2⟩ := hsub j hj
    rw [hj2] at e
    exact absurd (un p a i _ hi hj1 e).1.symm hp
  · rw [Heap.arr_setArr_other h a p sub (fun x => hp x.symm)] at hi e
    rw [Heap.arr_setArr_other h a q sub (fun x => hq x.symm)] at hj e
    exact un p q i j hi hj e

/-- elements stay plain when every element of the new heap is an old element with its old value
    or holds a plain value -/
theorem elemsPlain_of (h h' : Heap) (pl : ElemsPlain h)
    (hh : ∀ b, ∀ c ∈ (h'.arr b).toList, (c ∈ (h.arr b).toList ∧ h'.get c = h.get c) ∨ Plain (h'.get c)) :
    ElemsPlain h' := by
  intro b c hc
  rcases hh b c hc with ⟨h1, h2⟩ | h1
  · rw [h2]; exact pl b c h1
  · exact h1


/-! ### the store -/

/-- what one store does to the heap, seen through `absArr` -/
structure HStep (a : ArrId) (h h' : Heap) (l' : List Val) : Prop where
  this : absArr h' a = l'
  others : ∀ b, b ≠ a → absArr h' b = absArr h b
  wf : h'.WF
  unshared : Unshared h'
  plain : ElemsPlain h'
  arrs : h'.arrs.size = h.arrs.size
  objs : h'.objs = h.objs

theorem plain_of_copyVal {v w : Val} (hw : copyVal v = .ok w) : Plain w :=
  ⟨spec_none_speculative (copyVal_ok hw).2, (copyVal_ok hw).1⟩

/-- an index before the start: a runtime error, nothing changes -/
theorem writeAt_before (pos : Nat) (ac ic rc : CellId) (s : St) (a : ArrId) (x : F64)
    (hac : s.heap.get ac = .arr a) (hic : s.heap.get ic = .num x)
    (hri : resolveIndex (s.heap.arr a).size x.toGoInt = none) :
    writeAt pos ac ic rc s = Jqawk.throwRt pos "index out of range" s := by
  simp only [writeAt, bind, EM.bind, memberStep_arr_num pos ac ic s a x hac hic, hri]
  rfl

/-- an index inside the array (also `-k` with `k ≤ length`): the element's cell receives the copy -/
theorem writeAt_inside (pos : Nat) (ac ic rc : CellId) (s : St) (a : ArrId) (x : F64) (w : Val) (j : Nat)
    (wf : s.heap.WF) (un : Unshared s.heap) (pl : ElemsPlain s.heap)
    (hac : s.heap.get ac = .arr a) (hic : s.heap.get ic = .num x)
    (hw : copyVal (s.heap.get rc) = .ok w)
    (hri : resolveIndex (s.heap.arr a).size x.toGoInt = some j) (hj : j < (s.heap.arr a).size) :
    writeAt pos ac ic rc s = .ok ((s.heap.arr a).getD j 0)
        { s with heap := s.heap.set ((s.heap.arr a).getD j 0) w } ∧
      HStep a s.heap (s.heap.set ((s.heap.arr a).getD j 0) w) ((absArr s.heap a).set j w) := by
  have hmem := mem_arr_getD s.heap a j hj
  have hpl := pl a _ hmem
  constructor
  · simp only [writeAt, bind, EM.bind, memberStep_arr_num pos ac ic s a x hac hic, hri, hj, ↓reduceIte]
    have : (match s.heap.get ((s.heap.arr a).getD j 0) with
        | .native f _ _ => Jqawk.newCell (.native f (some ac) (some ⟨ac, .str (Val.num x).str!⟩)) s
        | _ => .ok ((s.heap.arr a).getD j 0) s) = .ok ((s.heap.arr a).getD j 0) s := by
      cases hv : s.heap.get ((s.heap.arr a).getD j 0) with
      | native f b sp => exact absurd hv (hpl.2 f b sp)
      | _ => rfl
    rw [this]
    simp only
    rw [evalAssignment_plain pos _ rc s hpl.1, hw]
  · exact {
      this := absArr_set_same s.heap un wf a j hj w
      others := fun b hb => absArr_set_other s.heap un a b j hj w hb
      wf := Heap.WF.set' wf _ _
      unshared := un
      plain := by
        intro b c hc
        by_cases hcc : c = (s.heap.arr a).getD j 0
        · rw [hcc, Heap.get_set_same' _ _ _ (wf.arrs a _ hmem)]; exact plain_of_copyVal hw
        · rw [Heap.get_set_ne' _ _ _ _ hcc]; exact pl b c hc
      arrs := rfl
      objs := rfl }


/-- the shape of a heap after padding array `a` with `k` nulls and one more element `w`, in fresh
    cells `N, …, N+k` -/
structure Padded (h h' : Heap) (a : ArrId) (N k : Nat) (w : Val) : Prop where
  hN : h.cells.size ≤ N
  size : h'.cells.size = N + (k + 1)
  old : ∀ d : Nat, d < h.cells.size → h'.get d = h.get d
  nulls : ∀ t, t < k → h'.get (N + t) = .nil none
  last : h'.get (N + k) = w
  arrA : h'.arr a = h.arr a ++ (List.range' N (k + 1)).toArray
  arrB : ∀ b, b ≠ a → h'.arr b = h.arr b
  arrs : h'.arrs.size = h.arrs.size
  objs : h'.objs = h.objs

theorem Padded.hstep {h h' : Heap} {a : ArrId} {N k : Nat} {w : Val} (p : Padded h h' a N k w)
    (wf : h.WF) (un : Unshared h) (pl : ElemsPlain h) (hw : Plain w) :
    HStep a h h' (absArr h a ++ List.replicate k (.nil none) ++ [w]) := by
  have hold : ∀ b, (h.arr b).toList.map h'.get = absArr h b := by
    intro b
    simp only [absArr]
    apply List.map_congr_left
    intro c hc
    exact p.old c (wf.arrs b c hc)
  have hnew : (List.range' N (k + 1)).map h'.get = List.replicate k (.nil none) ++ [w] := by
    rw [List.range'_concat, List.map_append]
    congr 1
    · rw [List.eq_replicate_iff]
      refine ⟨by simp, ?_⟩
      intro v hv
      obtain ⟨c, hc, rfl⟩ := List.mem_map.mp hv
      obtain ⟨t, ht, rfl⟩ := List.mem_range'.mp hc
      simpa using p.nulls t ht
    · simp [p.last]
  have ltA : ∀ b c, c ∈ (h.arr b).toList → @LT.lt Nat _ c h.cells.size := wf.arrs
  have ltO : ∀ o kk c, (kk, c) ∈ h.obj o → @LT.lt Nat _ c h.cells.size := wf.objs
  have hN := p.hN
  exact {
    this := by
      simp only [absArr, p.arrA, Array.toList_append, List.map_append]
      rw [hold a, hnew, List.append_assoc]
      rfl
    others := fun b hb => by
      simp only [absArr, p.arrB b hb]
      exact hold b
    wf := by
      constructor
      · intro b c hc
        show @LT.lt Nat _ c h'.cells.size
        rw [p.size]
        by_cases hb : b = a
        · subst hb
          rw [p.arrA] at hc
          simp only [Array.toList_append, List.mem_append, List.mem_range'_1] at hc
          rcases hc with hc | hc
          · have := ltA b c hc; omega
          · have hc' : @LE.le Nat _ N c ∧ @LT.lt Nat _ c (N + (k + 1)) := hc
            omega
        · rw [p.arrB b hb] at hc
          have := ltA b c hc; omega
      · intro o kk c hc
        have e : h'.obj o = h.obj o := by simp only [Heap.obj, p.objs]
        rw [e] at hc
        show @LT.lt Nat _ c h'.cells.size
        rw [p.size]
        have := ltO o kk c hc; omega
    unshared := unshared_append h h' wf un a N (k + 1) p.hN p.arrA p.arrB
    plain := by
      apply elemsPlain_of h h' pl
      intro b c hc
      by_cases hb : b = a
      · subst hb
        rw [p.arrA] at hc
        simp only [Array.toList_append, List.mem_append, List.mem_range'_1] at hc
        rcases hc with hc | hc
        · exact .inl ⟨hc, p.old c (wf.arrs b c hc)⟩
        · right
          have hc' : @LE.le Nat _ N c ∧ @LT.lt Nat _ c (N + (k + 1)) := hc
          obtain ⟨t, rfl⟩ : ∃ t : Nat, c = N + t := ⟨(c : Nat) - N, by show @Eq Nat c (N + (c - N)); omega⟩
          by_cases hck : t = k
          · rw [hck, p.last]; exact hw
          · rw [p.nulls t (by omega)]
            exact ⟨rfl, fun _ _ _ e => by cases e⟩
      · rw [p.arrB b hb] at hc
        exact .inl ⟨hc, p.old c (wf.arrs b c hc)⟩
    arrs := p.arrs
    objs := p.objs }


/-- an index at or past the end (within the padding limit): null padding, then the copy -/
theorem writeAt_pad (pos : Nat) (ac ic rc : CellId) (s : St) (a : ArrId) (x : F64) (w : Val) (i : Nat)
    (wf : s.heap.WF) (un : Unshared s.heap) (pl : ElemsPlain s.heap) (ha : a < s.heap.arrs.size)
    (hac : s.heap.get ac = .arr a) (hic : s.heap.get ic = .num x) (hrc : rc < s.heap.cells.size)
    (hw : copyVal (s.heap.get rc) = .ok w)
    (hri : resolveIndex (s.heap.arr a).size x.toGoInt = some i) (hge : (s.heap.arr a).size ≤ i)
    (hlim : i ≤ fillLimit) :
    ∃ h', writeAt pos ac ic rc s = .ok (s.heap.cells.size + 1 + (i - (s.heap.arr a).size))
        { s with heap := h' } ∧
      h'.get (s.heap.cells.size + 1 + (i - (s.heap.arr a).size)) = w ∧
      HStep a s.heap h' (absArr s.heap a ++ List.replicate (i - (s.heap.arr a).size) (.nil none) ++ [w]) := by
  have hnj : ¬ i < (s.heap.arr a).size := Nat.not_lt.mpr hge
  have hacl : ac < s.heap.cells.size := Heap.lt_of_get_ne_unknown _ _ (by rw [hac]; intro e; cases e)
  generalize hsv : Val.nil (some ⟨ac, Key.num x⟩) = sv
  generalize hH : (s.heap.alloc sv).2 = H
  have hHget : ∀ d, d < s.heap.cells.size → H.get d = s.heap.get d := by
    intro d hd; rw [← hH]; exact Heap.get_push_old s.heap sv d hd
  have hHm : H.get s.heap.cells.size = sv := by rw [← hH]; exact Heap.get_push_new s.heap sv
  have hHarr : ∀ b, H.arr b = s.heap.arr b := by intro b; rw [← hH]; rfl
  have hHsz : H.cells.size = s.heap.cells.size + 1 := by rw [← hH]; simp [Heap.alloc]
  have hHarrs : H.arrs.size = s.heap.arrs.size := by rw [← hH]; rfl
  have hHobjs : H.objs = s.heap.objs := by rw [← hH]; rfl
  have hms : memberStep pos ac ic s = .ok s.heap.cells.size { s with heap := H } := by
    rw [memberStep_arr_num pos ac ic s a x hac hic, hri]
    simp only [hnj, ↓reduceIte]
    rw [hsv, newCell_eq, hH]
  have hct : createTarget H ac (.num x) = (H, .arr a) := by
    unfold createTarget; rw [hHget ac hacl, hac]
  have hri' : resolveIndex (H.arr a).size x.toGoInt = some i := by rw [hHarr]; exact hri
  have hge' : (H.arr a).size ≤ i := by rw [hHarr]; exact hge
  have hlim' := hlim
  obtain ⟨p1, p2, p3, p4, p5, p6, p7, p8⟩ := padHeap_spec H a i sv hge'
  have hsize : (H.arr a).size = (s.heap.arr a).size := by rw [hHarr]
  have hk : i + 1 - (H.arr a).size = (i - (s.heap.arr a).size) + 1 := by omega
  clear hlim
  have hrc' : @LT.lt Nat _ rc s.heap.cells.size := hrc
  have p4' : ∀ d : Nat, d < H.cells.size → (padHeap H a i sv).get d = H.get d := p4
  have hcopy : copyVal ((padHeap H a i sv).get rc) = .ok w := by
    rw [p4' rc (by omega), hHget rc hrc]; exact hw
  refine ⟨(padHeap H a i sv).set (H.cells.size + (i - (H.arr a).size)) w, ?_, ?_, ?_⟩
  · simp only [writeAt, bind, EM.bind, hms]
    rw [evalAssignment_create pos s.heap.cells.size rc ac (.num x) { s with heap := H }
      (by show H.get s.heap.cells.size = _; rw [hHm, hsv])
      (by intro sp; show H.get ac ≠ _; rw [hHget ac hacl, hac]; intro e; cases e)]
    simp only [hct, Key.val]
    rw [setMember_arr_fill H a x s.heap.cells.size i hri' hge' hlim' (by nomega)]
    simp only [hHm, hcopy, hHsz, hHarr]
  · rw [← hHsz, ← hHarr a]
    apply Heap.get_set_same'
    rw [p1]; nomega
  · rw [← hHarr a]
    apply Padded.hstep (N := H.cells.size) _ wf un pl (plain_of_copyVal hw)
    have hne : ∀ d : Nat, d < H.cells.size + (i - (H.arr a).size) →
        ((padHeap H a i sv).set (H.cells.size + (i - (H.arr a).size)) w).get d = (padHeap H a i sv).get d :=
      fun d hd => Heap.get_set_ne' _ _ _ _ (Nat.ne_of_lt hd)
    exact {
      hN := by omega
      size := by rw [Heap.size_set, p1, hk, hHarr]
      old := fun d hd => by rw [hne d (by omega), p4' d (by omega), hHget d hd]
      nulls := fun t ht => by rw [hne _ (by omega), p7 t ht]
      last := Heap.get_set_same' _ _ _ (by rw [p1]; nomega)
      arrA := by
        rw [Heap.arr_set, p6 (by rw [hHarrs]; exact ha), hk, hHarr]
      arrB := fun b hb => by
        rw [Heap.arr_set, p5 b hb, hHarr]
      arrs := by
        rw [set_arrs, p2, hHarrs]
      objs := by
        rw [set_objs, p3, hHobjs] }

/-- an index so far past the end that the padding is refused: a runtime error; no array changes
    (the heap gains one unused cell, the stand-in the member step allocated) -/
theorem writeAt_too_large (pos : Nat) (ac ic rc : CellId) (s : St) (a : ArrId) (x : F64) (i : Nat)
    (hac : s.heap.get ac = .arr a) (hic : s.heap.get ic = .num x)
    (hri : resolveIndex (s.heap.arr a).size x.toGoInt = some i) (hge : (s.heap.arr a).size ≤ i)
    (hlim : fillLimit < i) :
    writeAt pos ac ic rc s = Jqawk.throwRt pos "index too large to auto-fill array"
      { s with heap := (s.heap.alloc (.nil (some ⟨ac, .num x⟩))).2 } := by
  have hnj : ¬ i < (s.heap.arr a).size := Nat.not_lt.mpr hge
  have hacl : ac < s.heap.cells.size := Heap.lt_of_get_ne_unknown _ _ (by rw [hac]; intro e; cases e)
  generalize hsv : Val.nil (some ⟨ac, Key.num x⟩) = sv
  generalize hH : (s.heap.alloc sv).2 = H
  have hHget : ∀ d, d < s.heap.cells.size → H.get d = s.heap.get d := by
    intro d hd; rw [← hH]; exact Heap.get_push_old s.heap sv d hd
  have hHm : H.get s.heap.cells.size = sv := by rw [← hH]; exact Heap.get_push_new s.heap sv
  have hHarr : ∀ b, H.arr b = s.heap.arr b := by intro b; rw [← hH]; rfl
  have hms : memberStep pos ac ic s = .ok s.heap.cells.size { s with heap := H } := by
    rw [memberStep_arr_num pos ac ic s a x hac hic, hri]
    simp only [hnj, ↓reduceIte]
    rw [hsv, newCell_eq, hH]
  have hct : createTarget H ac (.num x) = (H, .arr a) := by
    unfold createTarget; rw [hHget ac hacl, hac]
  simp only [writeAt, bind, EM.bind, hms]
  rw [evalAssignment_create pos s.heap.cells.size rc ac (.num x) { s with heap := H }
    (by show H.get s.heap.cells.size = _; rw [hHm, hsv])
    (by intro sp; show H.get ac ≠ _; rw [hHget ac hacl, hac]; intro e; cases e)]
  simp only [hct, Key.val, setMember, hHarr, hri, hnj, ↓reduceIte, hlim, gt_iff_lt]


theorem absArr_alloc (h : Heap) (wf : h.WF) (v : Val) (b : ArrId) :
    absArr (h.alloc v).2 b = absArr h b := by
  simp only [absArr]
  apply List.map_congr_left
  intro c hc
  exact Heap.get_push_old h v c (wf.arrs b c hc)

/-- **the index write refines the ideal list** (`memberStep` + `evalAssignment` on the cells of the
    array, of the index and of the value): when the ideal `setIdx` yields a list, the write succeeds,
    returns a cell holding the copy `w`, array `a` denotes that list and no other array changes;
    when the ideal operation is an error, the write is the runtime error with the same message and
    no array changes (the heap may have gained an unused cell) -/
theorem writeAt_refines (pos : Nat) (ac ic rc : CellId) (s : St) (a : ArrId) (x : F64) (w : Val)
    (wf : s.heap.WF) (un : Unshared s.heap) (pl : ElemsPlain s.heap) (ha : a < s.heap.arrs.size)
    (hac : s.heap.get ac = .arr a) (hic : s.heap.get ic = .num x) (hrc : rc < s.heap.cells.size)
    (hw : copyVal (s.heap.get rc) = .ok w) :
    match setIdx (absArr s.heap a) x.toGoInt w with
    | .ok l' => ∃ c h', writeAt pos ac ic rc s = .ok c { s with heap := h' } ∧ h'.get c = w ∧
        HStep a s.heap h' l'
    | .error m => ∃ h', writeAt pos ac ic rc s = Jqawk.throwRt pos m { s with heap := h' } ∧
        ∀ b, absArr h' b = absArr s.heap b := by
  unfold setIdx
  rw [absArr_length]
  by_cases h0 : 0 ≤ x.toGoInt
  · have hri : resolveIndex (s.heap.arr a).size x.toGoInt = some x.toGoInt.toNat :=
      resolveIndex_nonneg _ _ h0
    simp only [h0, ↓reduceIte]
    by_cases hj : x.toGoInt.toNat < (s.heap.arr a).size
    · simp only [hj, ↓reduceIte]
      obtain ⟨e, st⟩ := writeAt_inside pos ac ic rc s a x w _ wf un pl hac hic hw hri hj
      exact ⟨_, _, e, Heap.get_set_same' _ _ _ (wf.arrs a _ (mem_arr_getD s.heap a _ hj)), st⟩
    · simp only [hj, ↓reduceIte]
      by_cases hl : fillLimit < x.toGoInt.toNat
      · simp only [hl, ↓reduceIte]
        exact ⟨_, writeAt_too_large pos ac ic rc s a x _ hac hic hri (Nat.le_of_not_lt hj) hl,
          fun b => absArr_alloc s.heap wf _ b⟩
      · simp only [hl, ↓reduceIte]
        obtain ⟨h', e, g, st⟩ := writeAt_pad pos ac ic rc s a x w _ wf un pl ha hac hic hrc hw hri
          (Nat.le_of_not_lt hj) (Nat.le_of_not_lt hl)
        exact ⟨_, h', e, g, st⟩
  · simp only [h0, ↓reduceIte]
    by_cases hk : (-x.toGoInt).toNat ≤ (s.heap.arr a).size
    · have hri : resolveIndex (s.heap.arr a).size x.toGoInt
          = some ((s.heap.arr a).size - (-x.toGoInt).toNat) := by
        simp only [resolveIndex]
        have h1 : x.toGoInt < 0 := by omega
        have h2 : ¬ ((s.heap.arr a).size : Int) + x.toGoInt < 0 := by omega
        simp only [h1, h2, ↓reduceIte, Option.some.injEq]
        omega
      have hj : (s.heap.arr a).size - (-x.toGoInt).toNat < (s.heap.arr a).size := by omega
      simp only [hk, ↓reduceIte]
      obtain ⟨e, st⟩ := writeAt_inside pos ac ic rc s a x w _ wf un pl hac hic hw hri hj
      exact ⟨_, _, e, Heap.get_set_same' _ _ _ (wf.arrs a _ (mem_arr_getD s.heap a _ hj)), st⟩
    · have hri : resolveIndex (s.heap.arr a).size x.toGoInt = none := by
        simp only [resolveIndex]
        have h1 : x.toGoInt < 0 := by omega
        have h2 : ((s.heap.arr a).size : Int) + x.toGoInt < 0 := by omega
        simp only [h1, h2, ↓reduceIte]
      simp only [hk, ↓reduceIte]
      exact ⟨s.heap, writeAt_before pos ac ic rc s a x hac hic hri, fun _ => rfl⟩

/-! ### the evaluator on `ea[ei] = tv` -/

/-- a successful member step changes only the heap -/
theorem memberStep_state (pos : Nat) (l r : CellId) (s : St) (m : CellId) (sm : St)
    (e : memberStep pos l r s = .ok m sm) : sm = { s with heap := sm.heap } := by
  have nc : ∀ v, Jqawk.newCell v s = .ok m sm → sm = { s with heap := sm.heap } := by
    intro v e; rw [newCell_eq] at e; cases e; rfl
  rw [memberStep_eq] at e
  split at e
  · exact nc _ e
  · unfold memberRead at e
    simp only [bind, EM.bind, readCell, getHeap] at e
    generalize getMember s.heap (s.heap.get l) (s.heap.get r) = g at e
    cases g with
    | error msg => cases e
    | ok mem =>
      cases mem with
      | missing => exact nc _ e
      | method f => exact nc _ e
      | char ch x => cases ch <;> exact nc _ e
      | cell c =>
        simp only at e
        generalize s.heap.get c = v at e
        cases v <;> first | exact nc _ e | (cases e; rfl)

/-- `ea[ei] = v` with `v` a variable (or `$`): the evaluator evaluates `ea`, then `ei`, performs the
    member step, looks the variable up and assigns — `writeAt` on the three cells, in the state
    reached after evaluating `ea` and `ei` -/
theorem evalExpr_index_assign (prog : Program) (n : Nat) (ea ei : Expr) (lsq eq tv : Token)
    (s s1 s2 : St) (ac ic rc : CellId)
    (hl : lsq.tag = .lsquare) (he : eq.tag = .equal)
    (h1 : evalExpr prog n ea s = .ok ac s1) (h2 : evalExpr prog n ei s1 = .ok ic s2)
    (h3 : ∀ h', getIdentifier prog tv { s2 with heap := h' } = .ok rc { s2 with heap := h' }) :
    evalExpr prog (n + 4) (.binary (.binary ea ei lsq) (.ident tv) eq) s
      = writeAt ea.token.pos ac ic rc s2 := by
  have inner : evalExpr prog (n + 2) (.binary ea ei lsq) s = memberStep ea.token.pos ac ic s2 := by
    unfold evalExpr
    dsimp only
    unfold evalBinary
    simp only [bind, EM.bind, h1, hl, h2]
  unfold evalExpr
  dsimp only
  unfold evalBinary
  simp only [bind, EM.bind, inner, he, writeAt, Expr.token]
  cases hm : memberStep ea.token.pos ac ic s2 with
  | oof => rfl
  | err e s' => rfl
  | ok m sm =>
    have hs := memberStep_state _ _ _ _ _ _ hm
    simp only
    have : evalExpr prog (n + 2) (.ident tv) sm = .ok rc sm := by
      unfold evalExpr
      dsimp only
      rw [hs]
      exact h3 _
    rw [this]


/-! ### the other operations keep `Unshared` and `ElemsPlain` -/

theorem wf_alloc (h : Heap) (wf : h.WF) (v : Val) : (h.alloc v).2.WF :=
  ⟨fun a c hc => by
      show @LT.lt Nat _ c (h.cells.push v).size
      have : @LT.lt Nat _ c h.cells.size := wf.arrs a c hc
      simp only [Array.size_push]; omega,
   fun o k c hc => by
      show @LT.lt Nat _ c (h.cells.push v).size
      have : @LT.lt Nat _ c h.cells.size := wf.objs o k c hc
      simp only [Array.size_push]; omega⟩

theorem unshared_alloc (h : Heap) (un : Unshared h) (v : Val) : Unshared (h.alloc v).2 := un

theorem elemsPlain_alloc (h : Heap) (wf : h.WF) (pl : ElemsPlain h) (v : Val) :
    ElemsPlain (h.alloc v).2 := by
  intro b c hc
  have : (h.alloc v).2.get c = h.get c := Heap.get_push_old h v c (wf.arrs b c hc)
  rw [this]; exact pl b c hc

theorem unshared_pushHeap (h : Heap) (wf : h.WF) (un : Unshared h) (a : ArrId) (ha : a < h.arrs.size)
    (v : Val) : Unshared (pushHeap h a v) := by
  apply unshared_append h (pushHeap h a v) wf un a h.cells.size 1 (Nat.le_refl _)
  · rw [pushHeap_eq, Heap.arr_setArr_same _ _ _ (by simpa using ha)]
    apply Array.toList_inj.mp
    simp
  · intro b hb
    rw [pushHeap_eq, Heap.arr_setArr_other _ _ _ _ hb]
    rfl

theorem elemsPlain_pushHeap (h : Heap) (wf : h.WF) (pl : ElemsPlain h) (a : ArrId) (ha : a < h.arrs.size)
    (v : Val) (hv : Plain v) : ElemsPlain (pushHeap h a v) := by
  apply elemsPlain_of h _ pl
  intro b c hc
  have hget : ∀ d : Nat, d < h.cells.size → (pushHeap h a v).get d = h.get d := fun d hd => by
    rw [pushHeap_eq, Heap.get_setArr]; exact Heap.get_push_old h v d hd
  by_cases hb : b = a
  · subst hb
    rw [pushHeap_eq, Heap.arr_setArr_same _ _ _ (by simpa using ha)] at hc
    simp only [Array.toList_push, List.mem_append, List.mem_singleton] at hc
    rcases hc with hc | rfl
    · exact .inl ⟨hc, hget c (wf.arrs b c hc)⟩
    · right
      have : (pushHeap h b v).get h.cells.size = v := by
        rw [pushHeap_eq, Heap.get_setArr]; exact Heap.get_push_new h v
      rw [this]; exact hv
  · have e : (pushHeap h a v).arr b = h.arr b := by
      rw [pushHeap_eq, Heap.arr_setArr_other _ _ _ _ hb]; rfl
    rw [e] at hc
    exact .inl ⟨hc, hget c (wf.arrs b c hc)⟩

theorem elemsPlain_setArr_sub (h : Heap) (pl : ElemsPlain h) (a : ArrId) (ha : a < h.arrs.size)
    (sub : Array CellId) (hsub : ∀ c ∈ sub.toList, c ∈ (h.arr a).toList) :
    ElemsPlain (h.setArr a sub) := by
  apply elemsPlain_of h _ pl
  intro b c hc
  left
  refine ⟨?_, Heap.get_setArr h a sub c⟩
  by_cases hb : b = a
  · subst hb
    rw [Heap.arr_setArr_same h b sub ha] at hc
    exact hsub c hc
  · rw [Heap.arr_setArr_other h a b sub hb] at hc
    exact hc

theorem unshared_pop (h : Heap) (un : Unshared h) (a : ArrId) (ha : a < h.arrs.size) :
    Unshared (h.setArr a (h.arr a).pop) := by
  apply unshared_sub h un a ha _ 0
  intro i hi
  have hi' : i < (h.arr a).size - 1 := by simpa using hi
  refine ⟨by omega, ?_⟩
  simp only [Array.getD_eq_getD_getElem?, Nat.add_zero]
  rw [Array.getElem?_pop]
  simp [hi']

theorem unshared_popfirst (h : Heap) (un : Unshared h) (a : ArrId) (ha : a < h.arrs.size) :
    Unshared (h.setArr a ((h.arr a).extract 1 (h.arr a).size)) := by
  apply unshared_sub h un a ha _ 1
  intro i hi
  have hi' : i < (h.arr a).size - 1 := by simpa using hi
  refine ⟨by omega, ?_⟩
  simp only [Array.getD_eq_getD_getElem?]
  rw [Array.getElem?_extract]
  simp [hi', Nat.add_comm]

theorem elemsPlain_pop (h : Heap) (pl : ElemsPlain h) (a : ArrId) (ha : a < h.arrs.size) :
    ElemsPlain (h.setArr a (h.arr a).pop) :=
  elemsPlain_setArr_sub h pl a ha _ (fun c hc => by
    rw [Array.toList_pop] at hc; exact List.dropLast_subset _ hc)

theorem elemsPlain_popfirst (h : Heap) (pl : ElemsPlain h) (a : ArrId) (ha : a < h.arrs.size) :
    ElemsPlain (h.setArr a ((h.arr a).extract 1 (h.arr a).size)) :=
  elemsPlain_setArr_sub h pl a ha _ (fun c hc => by
    rw [Array.toList_extract] at hc
    simp only [List.extract] at hc
    exact List.mem_of_mem_drop (List.mem_of_mem_take hc))


/-! ### a right-hand side evaluated between the member step and the store -/

/-- `H` extends `h` by fresh cells only: the old cells keep their values, arrays and objects are
    the same (what evaluating a literal, a variable, an arithmetic expression … does) -/
structure Ext (h H : Heap) : Prop where
  cells : h.cells.size ≤ H.cells.size
  get : ∀ d : Nat, d < h.cells.size → H.get d = h.get d
  arrs : H.arrs = h.arrs
  objs : H.objs = h.objs

theorem Ext.refl (h : Heap) : Ext h h := ⟨Nat.le_refl _, fun _ _ => rfl, rfl, rfl⟩

theorem Ext.trans {a b c : Heap} (h1 : Ext a b) (h2 : Ext b c) : Ext a c :=
  ⟨Nat.le_trans h1.cells h2.cells, fun d hd => by
      rw [h2.get d (Nat.lt_of_lt_of_le hd h1.cells), h1.get d hd],
   h2.arrs.trans h1.arrs, h2.objs.trans h1.objs⟩

theorem Ext.alloc (h : Heap) (v : Val) : Ext h (h.alloc v).2 :=
  ⟨by simp [Heap.alloc], fun d hd => Heap.get_push_old h v d hd, rfl, rfl⟩

theorem Ext.arr {h H : Heap} (e : Ext h H) (b : ArrId) : H.arr b = h.arr b := by
  simp only [Heap.arr, e.arrs]

theorem Ext.absArr {h H : Heap} (e : Ext h H) (wf : h.WF) (b : ArrId) : absArr H b = absArr h b := by
  simp only [Jqawk.absArr, e.arr b]
  apply List.map_congr_left
  intro c hc
  exact e.get c (wf.arrs b c hc)

theorem Ext.wf {h H : Heap} (e : Ext h H) (wf : h.WF) : H.WF :=
  ⟨fun b c hc => by
      rw [e.arr b] at hc
      exact Nat.lt_of_lt_of_le (wf.arrs b c hc) e.cells,
   fun o k c hc => by
      have : H.obj o = h.obj o := by simp only [Heap.obj, e.objs]
      rw [this] at hc
      exact Nat.lt_of_lt_of_le (wf.objs o k c hc) e.cells⟩

theorem Ext.unshared {h H : Heap} (e : Ext h H) (un : Unshared h) : Unshared H := by
  intro p q i j hi hj eq
  rw [e.arr p] at hi eq
  rw [e.arr q] at hj eq
  exact un p q i j hi hj eq

theorem Ext.plain {h H : Heap} (e : Ext h H) (wf : h.WF) (pl : ElemsPlain h) : ElemsPlain H := by
  intro b c hc
  rw [e.arr b] at hc
  rw [e.get c (wf.arrs b c hc)]
  exact pl b c hc

/-- a step from the extended heap is a step from the original one -/
theorem HStep.ofExt {a : ArrId} {h H h' : Heap} {l' : List Val} (e : Ext h H) (wf : h.WF)
    (st : HStep a H h' l') : HStep a h h' l' :=
  { this := st.this
    others := fun b hb => by rw [st.others b hb, e.absArr wf b]
    wf := st.wf
    unshared := st.unshared
    plain := st.plain
    arrs := by rw [st.arrs, e.arrs]
    objs := by rw [st.objs, e.objs] }

/-- the store into an element cell (the member step returned it) -/
theorem assign_inside (pos : Nat) (rc : CellId) (S : St) (a : ArrId) (w : Val) (j : Nat)
    (wf : S.heap.WF) (un : Unshared S.heap) (pl : ElemsPlain S.heap)
    (hw : copyVal (S.heap.get rc) = .ok w) (hj : j < (S.heap.arr a).size) :
    evalAssignment pos ((S.heap.arr a).getD j 0) rc S = .ok ((S.heap.arr a).getD j 0)
        { S with heap := S.heap.set ((S.heap.arr a).getD j 0) w } ∧
      HStep a S.heap (S.heap.set ((S.heap.arr a).getD j 0) w) ((absArr S.heap a).set j w) := by
  have hmem := mem_arr_getD S.heap a j hj
  have hpl := pl a _ hmem
  constructor
  · rw [evalAssignment_plain pos _ rc S hpl.1, hw]
  · exact {
      this := absArr_set_same S.heap un wf a j hj w
      others := fun b hb => absArr_set_other S.heap un a b j hj w hb
      wf := Heap.WF.set' wf _ _
      unshared := un
      plain := by
        intro b c hc
        by_cases hcc : c = (S.heap.arr a).getD j 0
        · rw [hcc, Heap.get_set_same' _ _ _ (wf.arrs a _ hmem)]; exact plain_of_copyVal hw
        · rw [Heap.get_set_ne' _ _ _ _ hcc]; exact pl b c hc
      arrs := rfl
      objs := rfl }

/-- the store through a stand-in for the missing member `x` of the array in cell `ac`: padding -/
theorem assign_pad (pos : Nat) (m rc ac : CellId) (S : St) (a : ArrId) (x : F64) (w : Val) (i : Nat)
    (wf : S.heap.WF) (un : Unshared S.heap) (pl : ElemsPlain S.heap) (ha : a < S.heap.arrs.size)
    (hm : S.heap.get m = .nil (some ⟨ac, .num x⟩)) (hac : S.heap.get ac = .arr a)
    (hrc : rc < S.heap.cells.size) (hw : copyVal (S.heap.get rc) = .ok w)
    (hri : resolveIndex (S.heap.arr a).size x.toGoInt = some i) (hge : (S.heap.arr a).size ≤ i)
    (hlim : i ≤ fillLimit) :
    ∃ h', evalAssignment pos m rc S = .ok (S.heap.cells.size + (i - (S.heap.arr a).size))
        { S with heap := h' } ∧
      h'.get (S.heap.cells.size + (i - (S.heap.arr a).size)) = w ∧
      HStep a S.heap h' (absArr S.heap a ++ List.replicate (i - (S.heap.arr a).size) (.nil none) ++ [w]) := by
  generalize hH : S.heap = H at *
  have hml : m < H.cells.size := Heap.lt_of_get_ne_unknown _ _ (by rw [hm]; intro e; cases e)
  have hct : createTarget H ac (.num x) = (H, .arr a) := by
    unfold createTarget; rw [hac]
  obtain ⟨p1, p2, p3, p4, p5, p6, p7, p8⟩ := padHeap_spec H a i (H.get m) hge
  have hk : i + 1 - (H.arr a).size = (i - (H.arr a).size) + 1 := by omega
  have hrc' : @LT.lt Nat _ rc H.cells.size := hrc
  have p4' : ∀ d : Nat, d < H.cells.size → (padHeap H a i (H.get m)).get d = H.get d := p4
  have hcopy : copyVal ((padHeap H a i (H.get m)).get rc) = .ok w := by
    rw [p4' rc hrc']; exact hw
  have hlim' := hlim
  clear hlim
  refine ⟨(padHeap H a i (H.get m)).set (H.cells.size + (i - (H.arr a).size)) w, ?_, ?_, ?_⟩
  · rw [evalAssignment_create pos m rc ac (.num x) S (by rw [hH]; exact hm)
      (by intro sp; rw [hH, hac]; intro e; cases e)]
    simp only [hH, hct, Key.val]
    rw [setMember_arr_fill H a x m i hri hge hlim' hml]
    simp only [hcopy]
  · apply Heap.get_set_same'
    rw [p1]; nomega
  · apply Padded.hstep (N := H.cells.size) _ wf un pl (plain_of_copyVal hw)
    have hne : ∀ d : Nat, d < H.cells.size + (i - (H.arr a).size) →
        ((padHeap H a i (H.get m)).set (H.cells.size + (i - (H.arr a).size)) w).get d
          = (padHeap H a i (H.get m)).get d :=
      fun d hd => Heap.get_set_ne' _ _ _ _ (Nat.ne_of_lt hd)
    exact {
      hN := Nat.le_refl _
      size := by rw [Heap.size_set, p1, hk]
      old := fun d hd => by rw [hne d (by omega), p4' d hd]
      nulls := fun t ht => by rw [hne _ (by omega), p7 t ht]
      last := Heap.get_set_same' _ _ _ (by rw [p1]; nomega)
      arrA := by rw [Heap.arr_set, p6 ha, hk]
      arrB := fun b hb => by rw [Heap.arr_set, p5 b hb]
      arrs := by rw [set_arrs, p2]
      objs := by rw [set_objs, p3] }

/-- … refused when the padding would exceed the limit -/
theorem assign_too_large (pos : Nat) (m rc ac : CellId) (S : St) (a : ArrId) (x : F64) (i : Nat)
    (hm : S.heap.get m = .nil (some ⟨ac, .num x⟩)) (hac : S.heap.get ac = .arr a)
    (hri : resolveIndex (S.heap.arr a).size x.toGoInt = some i) (hge : (S.heap.arr a).size ≤ i)
    (hlim : fillLimit < i) :
    evalAssignment pos m rc S = Jqawk.throwRt pos "index too large to auto-fill array" S := by
  have hnj : ¬ i < (S.heap.arr a).size := Nat.not_lt.mpr hge
  have hct : createTarget S.heap ac (.num x) = (S.heap, .arr a) := by
    unfold createTarget; rw [hac]
  rw [evalAssignment_create pos m rc ac (.num x) S hm (by intro sp; rw [hac]; intro e; cases e)]
  simp only [hct, Key.val, setMember, hri, hnj, ↓reduceIte, hlim, gt_iff_lt]

/-- member step, then the right-hand side, then the assignment: what the evaluator runs for
    `ea[ei] = er` after `ea` and `ei` are evaluated -/
def writeAtVia (pos : Nat) (ac ic : CellId) (rhs : EM CellId) : EM CellId := do
  let m ← memberStep pos ac ic
  let rc ← rhs
  evalAssignment pos m rc

/-- what is assumed about the right-hand side, run in a state `sm`: it yields a cell `rc` holding a
    value whose copy is `w`, and changes the state only by allocating cells -/
def RhsYields (rhs : EM CellId) (w : Val) (sm : St) : Prop :=
  ∃ rc H, rhs sm = .ok rc { sm with heap := H } ∧ Ext sm.heap H ∧ rc < H.cells.size ∧
    copyVal (H.get rc) = .ok w

/-- **the index write with an arbitrary right-hand side that only allocates cells** refines the
    ideal list (the right-hand side is run in the state after the member step — `sm` ranges over
    the at most two states that can be: `s` itself and `s` with one more cell, the stand-in) -/
theorem writeAtVia_refines (pos : Nat) (ac ic : CellId) (rhs : EM CellId) (s : St) (a : ArrId) (x : F64)
    (w : Val) (wf : s.heap.WF) (un : Unshared s.heap) (pl : ElemsPlain s.heap) (ha : a < s.heap.arrs.size)
    (hac : s.heap.get ac = .arr a) (hic : s.heap.get ic = .num x)
    (hr : ∀ m sm, memberStep pos ac ic s = .ok m sm → RhsYields rhs w sm) :
    match setIdx (absArr s.heap a) x.toGoInt w with
    | .ok l' => ∃ c h', writeAtVia pos ac ic rhs s = .ok c { s with heap := h' } ∧ h'.get c = w ∧
        HStep a s.heap h' l'
    | .error m => ∃ h', writeAtVia pos ac ic rhs s = Jqawk.throwRt pos m { s with heap := h' } ∧
        ∀ b, absArr h' b = absArr s.heap b := by
  have hms := memberStep_arr_num pos ac ic s a x hac hic
  have hacl : ac < s.heap.cells.size := Heap.lt_of_get_ne_unknown _ _ (by rw [hac]; intro e; cases e)
  -- the two ways the member step can succeed
  have inside : ∀ j, resolveIndex (s.heap.arr a).size x.toGoInt = some j → j < (s.heap.arr a).size →
      ∃ c h', writeAtVia pos ac ic rhs s = .ok c { s with heap := h' } ∧ h'.get c = w ∧
        HStep a s.heap h' ((absArr s.heap a).set j w) := by
    intro j hri hj
    have hpl := pl a _ (mem_arr_getD s.heap a j hj)
    have hm : memberStep pos ac ic s = .ok ((s.heap.arr a).getD j 0) s := by
      rw [hms, hri]
      simp only [hj, ↓reduceIte]
      cases hv : s.heap.get ((s.heap.arr a).getD j 0) with
      | native f b sp => exact absurd hv (hpl.2 f b sp)
      | _ => rfl
    obtain ⟨rc, H, e1, ext, hrc, hw⟩ := hr _ _ hm
    have harr : H.arr a = s.heap.arr a := ext.arr a
    obtain ⟨e2, st⟩ := assign_inside pos rc { s with heap := H } a w j (ext.wf wf) (ext.unshared un)
      (ext.plain wf pl) hw (by rw [harr]; exact hj)
    refine ⟨(s.heap.arr a).getD j 0, H.set ((s.heap.arr a).getD j 0) w, ?_, ?_, ?_⟩
    · simp only [writeAtVia, bind, EM.bind, hm, e1]
      dsimp only at e2
      rw [harr] at e2
      exact e2
    · exact Heap.get_set_same' _ _ _ ((ext.wf wf).arrs a _ (by rw [harr]; exact mem_arr_getD s.heap a j hj))
    · have := HStep.ofExt ext wf st
      simpa only [harr, ext.absArr wf a] using this
  have past : ∀ i, resolveIndex (s.heap.arr a).size x.toGoInt = some i → (s.heap.arr a).size ≤ i →
      ∃ rc H, memberStep pos ac ic s = .ok s.heap.cells.size
          { s with heap := (s.heap.alloc (.nil (some ⟨ac, .num x⟩))).2 } ∧
        rhs { s with heap := (s.heap.alloc (.nil (some ⟨ac, .num x⟩))).2 } = .ok rc { s with heap := H } ∧
        Ext s.heap H ∧ H.get s.heap.cells.size = .nil (some ⟨ac, .num x⟩) ∧ rc < H.cells.size ∧
        copyVal (H.get rc) = .ok w := by
    intro i hri hge
    have hnj : ¬ i < (s.heap.arr a).size := Nat.not_lt.mpr hge
    have hm : memberStep pos ac ic s = .ok s.heap.cells.size
        { s with heap := (s.heap.alloc (.nil (some ⟨ac, .num x⟩))).2 } := by
      rw [hms, hri]; simp only [hnj, ↓reduceIte]; rfl
    obtain ⟨rc, H, e1, ext, hrc, hw⟩ := hr _ _ hm
    refine ⟨rc, H, hm, e1, (Ext.alloc s.heap _).trans ext, ?_, hrc, hw⟩
    have : @LT.lt Nat _ s.heap.cells.size (s.heap.alloc (.nil (some ⟨ac, .num x⟩))).2.cells.size := by
      simp [Heap.alloc]
    rw [ext.get _ this]
    exact Heap.get_push_new s.heap _
  unfold setIdx
  rw [absArr_length]
  by_cases h0 : 0 ≤ x.toGoInt
  · have hri : resolveIndex (s.heap.arr a).size x.toGoInt = some x.toGoInt.toNat :=
      resolveIndex_nonneg _ _ h0
    simp only [h0, ↓reduceIte]
    by_cases hj : x.toGoInt.toNat < (s.heap.arr a).size
    · simp only [hj, ↓reduceIte]
      exact inside _ hri hj
    · simp only [hj, ↓reduceIte]
      obtain ⟨rc, H, hm, e1, ext, hHm, hrc, hw⟩ := past _ hri (Nat.le_of_not_lt hj)
      have harr : H.arr a = s.heap.arr a := ext.arr a
      have hHac : H.get ac = .arr a := by rw [ext.get ac hacl]; exact hac
      by_cases hl : fillLimit < x.toGoInt.toNat
      · simp only [hl, ↓reduceIte]
        refine ⟨H, ?_, fun b => ext.absArr wf b⟩
        simp only [writeAtVia, bind, EM.bind, hm, e1]
        exact assign_too_large pos _ rc ac { s with heap := H } a x _ hHm hHac
          (by rw [harr]; exact hri) (by rw [harr]; exact Nat.le_of_not_lt hj) hl
      · simp only [hl, ↓reduceIte]
        obtain ⟨h', e2, g, st⟩ := assign_pad pos s.heap.cells.size rc ac { s with heap := H } a x w _
          (ext.wf wf) (ext.unshared un) (ext.plain wf pl) (by rw [ext.arrs]; exact ha) hHm hHac hrc hw
          (by rw [harr]; exact hri) (by rw [harr]; exact Nat.le_of_not_lt hj) (Nat.le_of_not_lt hl)
        refine ⟨_, h', ?_, g, ?_⟩
        · simp only [writeAtVia, bind, EM.bind, hm, e1]
          exact e2
        · have := HStep.ofExt ext wf st
          simpa only [harr, ext.absArr wf a] using this
  · simp only [h0, ↓reduceIte]
    by_cases hk : (-x.toGoInt).toNat ≤ (s.heap.arr a).size
    · have hri : resolveIndex (s.heap.arr a).size x.toGoInt
          = some ((s.heap.arr a).size - (-x.toGoInt).toNat) := by
        simp only [resolveIndex]
        have h1 : x.toGoInt < 0 := by omega
        have h2 : ¬ ((s.heap.arr a).size : Int) + x.toGoInt < 0 := by omega
        simp only [h1, h2, ↓reduceIte, Option.some.injEq]
        omega
      have hj : (s.heap.arr a).size - (-x.toGoInt).toNat < (s.heap.arr a).size := by omega
      simp only [hk, ↓reduceIte]
      exact inside _ hri hj
    · have hri : resolveIndex (s.heap.arr a).size x.toGoInt = none := by
        simp only [resolveIndex]
        have h1 : x.toGoInt < 0 := by omega
        have h2 : ((s.heap.arr a).size : Int) + x.toGoInt < 0 := by omega
        simp only [h1, h2, ↓reduceIte]
      simp only [hk, ↓reduceIte]
      refine ⟨s.heap, ?_, fun _ => rfl⟩
      simp only [writeAtVia, bind, EM.bind, hms, hri]
      rfl

/-- `ea[ei] = er` for ANY right-hand side: the evaluator evaluates `ea`, then `ei`, then runs the
    member step, then `er`, then the assignment -/
theorem evalExpr_index_assign_any (prog : Program) (n : Nat) (ea ei er : Expr) (lsq eq : Token)
    (s s1 s2 : St) (ac ic : CellId)
    (hl : lsq.tag = .lsquare) (he : eq.tag = .equal)
    (h1 : evalExpr prog n ea s = .ok ac s1) (h2 : evalExpr prog n ei s1 = .ok ic s2) :
    evalExpr prog (n + 4) (.binary (.binary ea ei lsq) er eq) s
      = writeAtVia ea.token.pos ac ic (evalExpr prog (n + 2) er) s2 := by
  have inner : evalExpr prog (n + 2) (.binary ea ei lsq) s = memberStep ea.token.pos ac ic s2 := by
    unfold evalExpr
    dsimp only
    unfold evalBinary
    simp only [bind, EM.bind, h1, hl, h2]
  have outer : ∀ rhs, evalExpr prog (n + 2) er = rhs →
      evalExpr prog (n + 4) (.binary (.binary ea ei lsq) er eq) s = writeAtVia ea.token.pos ac ic rhs s2 := by
    intro rhs hrhs
    unfold evalExpr
    dsimp only
    unfold evalBinary
    simp only [bind, EM.bind, inner, he, writeAtVia, Expr.token, hrhs]
  exact outer _ rfl

end Jqawk.IndexWrite
