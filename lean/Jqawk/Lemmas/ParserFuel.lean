/-
  C13: the parser never runs out of fuel.

  Fuel bounds the DEPTH of the call stack of the 14 mutually recursive parser functions (loops
  are recursive calls too, so every loop iteration costs one unit).  The measure
  `mu ps ls` = number of unread bytes of the lexer state + 1 if the current token is not EOF
  never increases, and strictly decreases whenever a non-EOF token is consumed (`advance`,
  `Lexer.regex`).  Every chain of nested calls of length 3 consumes a token (the worst cycles are
  `statement → block → blockLoop → statement` on `{{{…` and
  `expressionWithPrec → prefixFn → exprList → expressionWithPrec` on `[[[…`), so fuel
  `3 * mu + c_f` suffices for function `f` (`AllTot`), hence `3 * src.length + 3` for a whole
  program — well below `parserFuel src = 8 * src.length + 64`.

  The invariant is phrased with `Tot m ls Q`: the program `m`, run against the real lexer from
  state `ls`, does not end in `.oof`, and if it succeeds with result `a` in lexer state `ls'`
  then `Q a ls'`; moreover a failure leaf never carries the message `"fuel"`, so that a reported
  syntax error is never the out-of-fuel error of newline skipping either (`Tot.run_err`).
  Same organisation as Lemmas/PMAll.lean + Lemmas/ParserWF.lean.
-/
import Jqawk.Lemmas.Layout
import Jqawk.Lemmas.NewlineTexts

namespace Jqawk
namespace ParserFuel
open Parser

/-! ### the lexer consumes bytes -/

/-- `Lexer.next` never lengthens the unread text -/
theorem next_le (s : LexState) (t : Token) (s' : LexState) (h : Lexer.next s = .ok (t, s')) :
    s'.rest.length ≤ s.rest.length := by
  obtain ⟨pre, hp⟩ := Nl.next_suffix s t s' h
  rw [hp]; simp

/-- `Lexer.nextNN` (what the parser's `advance` receives): the unread text never grows, and
    shrinks by at least one byte unless the token is EOF -/
theorem nextNN_progress (f : Nat) (s : LexState) (nl₀ : Bool) (t : Token) (nl : Bool) (s' : LexState)
    (h : Lexer.nextNN f s nl₀ = .ok (t, nl, s')) :
    s'.rest.length ≤ s.rest.length ∧ (t.tag ≠ .eof → s'.rest.length < s.rest.length) := by
  induction f generalizing s nl₀ with
  | zero => cases h
  | succ f ih =>
    simp only [Lexer.nextNN] at h
    cases hn : Lexer.next s with
    | error e => rw [hn] at h; cases h
    | ok r =>
      obtain ⟨t₁, s₁⟩ := r
      rw [hn] at h
      dsimp only at h
      have hle := next_le s t₁ s₁ hn
      split at h
      · obtain ⟨h1, h2⟩ := ih _ _ h
        exact ⟨by omega, fun ht => by have := h2 ht; omega⟩
      · simp only [Except.ok.injEq, Prod.mk.injEq] at h
        obtain ⟨rfl, _, rfl⟩ := h
        exact ⟨hle, fun ht => Lexer.next_progress s _ _ hn ht⟩

/-- `Lexer.regex` consumes at least the closing `/`, and yields a token of tag `regex` -/
theorem regex_progress (s : LexState) (t : Token) (s' : LexState) (h : Lexer.regex s = .ok (t, s')) :
    s'.rest.length < s.rest.length ∧ t.tag = .regex := by
  unfold Lexer.regex at h
  split at h
  · cases h
  · rename_i body r' hsc
    simp only [Except.ok.injEq, Prod.mk.injEq] at h
    obtain ⟨rfl, rfl⟩ := h
    obtain ⟨hb, _⟩ := (Lexer.scanTo_some_iff 47 s.rest body r').mp hsc
    refine ⟨?_, rfl⟩
    dsimp only
    rw [hb]; simp; omega

/-- the fuel `PM.run` gives to newline skipping always suffices: the answer is never the model's
    out-of-fuel error of `nextNN` -/
theorem nextNN_never_fuel (f : Nat) (s : LexState) (nl : Bool) (hf : s.rest.length < f) :
    Lexer.nextNN f s nl ≠ .error ⟨0, "fuel"⟩ := by
  induction f generalizing s nl with
  | zero => omega
  | succ f ih =>
    simp only [Lexer.nextNN]
    cases hn : Lexer.next s with
    | error e =>
      dsimp only
      intro he
      injection he with he
      subst he
      obtain ⟨ws, r, h1, _, h3⟩ := Lexer.next_cases s
      rw [h3] at hn
      cases r with
      | nil => cases hn
      | cons c cs =>
        rcases (Lexer.lexAt_res c cs _).error hn with h | h
        · injection h with _ h; exact absurd h (by decide)
        · have h := h.2.2; injection h with _ h; exact absurd h (by decide)
    | ok r =>
      obtain ⟨t, s'⟩ := r
      dsimp only
      split
      · rename_i htag
        have := Lexer.next_progress s t s' hn (by intro e; rw [e] at htag; cases htag)
        exact ih _ _ (by omega)
      · intro he; cases he

/-- … more precisely no error of newline skipping carries the message `"fuel"` -/
theorem nextNN_error_msg (f : Nat) (s : LexState) (nl : Bool) (e : SynErr) (hf : s.rest.length < f)
    (h : Lexer.nextNN f s nl = .error e) : e.msg ≠ "fuel" := by
  induction f generalizing s nl with
  | zero => omega
  | succ f ih =>
    simp only [Lexer.nextNN] at h
    cases hn : Lexer.next s with
    | error e' =>
      rw [hn] at h
      dsimp only at h
      injection h with h
      subst h
      obtain ⟨ws, r, h1, _, h3⟩ := Lexer.next_cases s
      rw [h3] at hn
      cases r with
      | nil => cases hn
      | cons c cs =>
        rcases (Lexer.lexAt_res c cs _).error hn with h | h
        · rw [h]; dsimp only; decide
        · rw [h.2.2]; dsimp only; decide
    | ok r =>
      obtain ⟨t, s'⟩ := r
      rw [hn] at h
      dsimp only at h
      split at h
      · rename_i htag
        have := Lexer.next_progress s t s' hn (by intro e; rw [e] at htag; cases htag)
        exact ih _ _ (by omega) h
      · cases h

theorem regex_error_msg (s : LexState) (e : SynErr) (h : Lexer.regex s = .error e) :
    e.msg ≠ "fuel" := by
  unfold Lexer.regex at h
  split at h
  · injection h with h; subst h; dsimp only; decide
  · cases h

/-! ### the measure and the triple -/

/-- unread bytes, plus one for a current token that is not EOF -/
def mu (ps : PS) (ls : LexState) : Nat := ls.rest.length + (if ps.cur.tag = .eof then 0 else 1)

/-- `m`, run against the real lexer from `ls`, is not out of fuel; a success satisfies `Q`; a
    parser-level failure does not carry the message `"fuel"` (the message of the model's
    out-of-fuel error of newline skipping, `Lexer.nextNN`) -/
def Tot {α : Type} : PM α → LexState → (α → LexState → Prop) → Prop
  | .pure a, ls, Q => Q a ls
  | .fail e, _, _ => e.msg ≠ "fuel"
  | .oof, _, _ => False
  | .next k, ls, Q =>
    match Lexer.nextNN (ls.rest.length + 1) ls false with
    | .error _ => True
    | .ok (t, nl, ls') => Tot (k t nl) ls' Q
  | .regex k, ls, Q =>
    match Lexer.regex ls with
    | .error _ => True
    | .ok (t, ls') => Tot (k t) ls' Q

variable {α β : Type}

theorem Tot.mono {Q Q' : α → LexState → Prop} {m : PM α} {ls : LexState} (h : Tot m ls Q)
    (hq : ∀ a ls', Q a ls' → Q' a ls') : Tot m ls Q' := by
  induction m generalizing ls with
  | pure a => exact hq _ _ h
  | fail e => exact h
  | oof => exact h
  | next k ih =>
    simp only [Tot] at h ⊢
    split
    · trivial
    · rename_i t nl ls' heq
      rw [heq] at h
      exact ih _ _ h
  | regex k ih =>
    simp only [Tot] at h ⊢
    split
    · trivial
    · rename_i t ls' heq
      rw [heq] at h
      exact ih _ h

theorem Tot.bind {Q : β → LexState → Prop} {m : PM α} {f : α → PM β} {ls : LexState}
    (h : Tot m ls (fun a ls' => Tot (f a) ls' Q)) : Tot (m.bind f) ls Q := by
  induction m generalizing ls with
  | pure a => exact h
  | fail e => exact h
  | oof => exact h
  | next k ih =>
    simp only [PM.bind, Tot] at h ⊢
    split
    · trivial
    · rename_i t nl ls' heq
      rw [heq] at h
      exact ih _ _ h
  | regex k ih =>
    simp only [PM.bind, Tot] at h ⊢
    split
    · trivial
    · rename_i t ls' heq
      rw [heq] at h
      exact ih _ h

/-- the point of `Tot`: the run is not out of fuel -/
theorem Tot.run_ne_oof {Q : α → LexState → Prop} {m : PM α} {ls : LexState} (h : Tot m ls Q) :
    m.run ls ≠ .oof := by
  induction m generalizing ls with
  | pure a => intro e; cases e
  | fail e => intro e; cases e
  | oof => exact absurd h (by simp [Tot])
  | next k ih =>
    simp only [Tot] at h
    simp only [PM.run]
    split
    · intro e; cases e
    · rename_i t nl ls' heq
      rw [heq] at h
      exact ih _ _ h
  | regex k ih =>
    simp only [Tot] at h
    simp only [PM.run]
    split
    · intro e; cases e
    · rename_i t ls' heq
      rw [heq] at h
      exact ih _ h

/-- … and a syntax error it reports is not the model's newline-skipping fuel error -/
theorem Tot.run_err {Q : α → LexState → Prop} {m : PM α} {ls : LexState} (h : Tot m ls Q)
    {e : SynErr} (hr : m.run ls = .syntaxErr e) : e.msg ≠ "fuel" := by
  induction m generalizing ls with
  | pure a => cases hr
  | fail e' => simp only [PM.run, ParseRes.syntaxErr.injEq] at hr; subst hr; exact h
  | oof => cases hr
  | next k ih =>
    simp only [Tot] at h
    simp only [PM.run] at hr
    split at hr
    · rename_i e' heq
      simp only [ParseRes.syntaxErr.injEq] at hr; subst hr
      exact nextNN_error_msg _ _ _ _ (Nat.lt_succ_self _) heq
    · rename_i t nl ls' heq
      rw [heq] at h
      exact ih _ _ h hr
  | regex k ih =>
    simp only [Tot] at h
    simp only [PM.run] at hr
    split at hr
    · rename_i e' heq
      simp only [ParseRes.syntaxErr.injEq] at hr; subst hr
      exact regex_error_msg _ _ heq
    · rename_i t ls' heq
      rw [heq] at h
      exact ih _ h hr

/-! ### rules for the state-passing layer -/

section rules
variable {Q : α × PS → LexState → Prop} {ps : PS} {ls : LexState}

theorem bind_rule {Q : β × PS → LexState → Prop} {m : P α} {f : α → P β}
    (h : Tot (m ps) ls (fun r ls' => Tot (f r.1 r.2) ls' Q)) : Tot ((m >>= f) ps) ls Q := by
  show Tot ((m ps).bind _) ls Q
  exact Tot.bind h

theorem pure_rule {a : α} (h : Q (a, ps) ls) : Tot ((pure a : P α) ps) ls Q := h

theorem get_rule {Q : PS × PS → LexState → Prop} (h : ∀ s, s = ps → Q (s, ps) ls) :
    Tot ((get : P PS) ps) ls Q := h ps rfl

theorem modify_rule {Q : Unit × PS → LexState → Prop} (g : PS → PS) (hg : ∀ p, (g p).cur = p.cur)
    (h : ∀ ps', mu ps' ls = mu ps ls → Q ((), ps') ls) : Tot ((modify g : P Unit) ps) ls Q :=
  h (g ps) (by unfold mu; rw [hg])

theorem setDidEnd_rule {Q : Unit × PS → LexState → Prop} (b : Bool)
    (h : ∀ ps', mu ps' ls = mu ps ls → Q ((), ps') ls) : Tot (setDidEnd b ps) ls Q :=
  h _ rfl

theorem fail_rule (pos : Nat) (msg : String) (hmsg : msg ≠ "fuel") :
    Tot ((Parser.fail pos msg : P α) ps) ls Q := hmsg

theorem curTag_rule {Q : Tag × PS → LexState → Prop} (h : ∀ t, t = ps.cur.tag → Q (t, ps) ls) :
    Tot (curTag ps) ls Q := h _ rfl

theorem atEnd_rule {Q : Bool × PS → LexState → Prop} (h : Q (ps.cur.tag == .eof, ps) ls) :
    Tot (atEnd ps) ls Q := h

/-- `advance`: the measure does not grow … -/
theorem advance_le {Q : Unit × PS → LexState → Prop}
    (h : ∀ ps' ls', mu ps' ls' ≤ mu ps ls → Q ((), ps') ls') : Tot (advance ps) ls Q := by
  unfold advance
  simp only [Tot]
  split
  · trivial
  · rename_i t nl ls' heq
    obtain ⟨h1, h2⟩ := nextNN_progress _ _ _ _ _ _ heq
    apply h
    unfold mu
    dsimp only
    by_cases ht : t.tag = .eof
    · rw [if_pos ht]; omega
    · rw [if_neg ht]; have := h2 ht; omega

/-- … and shrinks when the current token is not EOF -/
theorem advance_lt {Q : Unit × PS → LexState → Prop} (hc : ps.cur.tag ≠ .eof)
    (h : ∀ ps' ls', mu ps' ls' + 1 ≤ mu ps ls → Q ((), ps') ls') : Tot (advance ps) ls Q := by
  unfold advance
  simp only [Tot]
  split
  · trivial
  · rename_i t nl ls' heq
    obtain ⟨h1, h2⟩ := nextNN_progress _ _ _ _ _ _ heq
    apply h
    unfold mu
    dsimp only
    rw [if_neg hc]
    by_cases ht : t.tag = .eof
    · rw [if_pos ht]; omega
    · rw [if_neg ht]; have := h2 ht; omega

theorem consume_le {Q : Unit × PS → LexState → Prop} (tag : Tag)
    (h : ps.cur.tag = tag → ∀ ps' ls', mu ps' ls' ≤ mu ps ls → Q ((), ps') ls') :
    Tot (consume tag ps) ls Q := by
  unfold consume
  refine bind_rule ?_
  show Tot ((if (ps.cur.tag == tag) = true then advance else Parser.fail ps.cur.pos "expected token") ps) ls Q
  by_cases hc : ps.cur.tag = tag
  · rw [if_pos (by simpa using hc)]; exact advance_le (h hc)
  · rw [if_neg (by simpa using hc)]; exact fail_rule _ _ (by decide)

theorem consume_lt {Q : Unit × PS → LexState → Prop} (tag : Tag) (htag : tag ≠ .eof)
    (h : ps.cur.tag = tag → ∀ ps' ls', mu ps' ls' + 1 ≤ mu ps ls → Q ((), ps') ls') :
    Tot (consume tag ps) ls Q := by
  unfold consume
  refine bind_rule ?_
  show Tot ((if (ps.cur.tag == tag) = true then advance else Parser.fail ps.cur.pos "expected token") ps) ls Q
  by_cases hc : ps.cur.tag = tag
  · rw [if_pos (by simpa using hc)]; exact advance_lt (by rw [hc]; exact htag) (h hc)
  · rw [if_neg (by simpa using hc)]; exact fail_rule _ _ (by decide)

theorem consumeOf_lt {Q : Unit × PS → LexState → Prop} (tags : List Tag) (htags : Tag.eof ∉ tags)
    (h : ps.cur.tag ∈ tags → ∀ ps' ls', mu ps' ls' + 1 ≤ mu ps ls → Q ((), ps') ls') :
    Tot (consumeOf tags ps) ls Q := by
  unfold consumeOf
  refine bind_rule ?_
  show Tot ((if tags.contains ps.cur.tag = true then advance else Parser.fail ps.cur.pos "expected one of") ps) ls Q
  by_cases hc : ps.cur.tag ∈ tags
  · rw [if_pos (by simpa using hc)]
    exact advance_lt (by intro e; rw [e] at hc; exact htags hc) (h hc)
  · rw [if_neg (by simpa using hc)]; exact fail_rule _ _ (by decide)

theorem consumeIgnore_le {Q : Unit × PS → LexState → Prop} (tag : Tag)
    (h : ∀ ps' ls', mu ps' ls' ≤ mu ps ls → Q ((), ps') ls') :
    Tot (consumeIgnore tag ps) ls Q := by
  unfold consumeIgnore
  refine bind_rule ?_
  show Tot ((if (ps.cur.tag == tag) = true then advance else pure ()) ps) ls Q
  split
  · exact advance_le h
  · exact h _ _ (Nat.le_refl _)

theorem atStatementEnd_le {Q : Bool × PS → LexState → Prop}
    (h : ∀ b ps' ls', mu ps' ls' ≤ mu ps ls → Q (b, ps') ls') :
    Tot (atStatementEnd ps) ls Q := by
  rw [Nl.ase_eval]
  split
  · exact h _ _ _ (Nat.le_refl _)
  · split
    · exact h _ _ _ (Nat.le_refl _)
    · split
      · refine Tot.bind ?_
        exact advance_le fun ps' ls' hle => h _ _ _ hle
      · exact h _ _ _ (Nat.le_refl _)

/-- `regex` prefix: `Lexer.Regex()` consumes at least the closing `/`, and the `advance` that
    follows consumes the regex token -/
theorem regexPrefix_lt {Q : Expr × PS → LexState → Prop}
    (h : ∀ e ps' ls', mu ps' ls' + 1 ≤ mu ps ls → Q (e, ps') ls') : Tot (regexPrefix ps) ls Q := by
  unfold regexPrefix
  simp only [Tot]
  split
  · trivial
  · rename_i tok ls₁ heq
    obtain ⟨h1, h2⟩ := regex_progress _ _ _ heq
    refine bind_rule ?_
    refine advance_lt (by dsimp only; rw [h2]; decide) ?_
    intro ps' ls' hlt
    apply h
    show mu ps' ls' + 1 ≤ mu ps ls
    have : mu { ps with cur := tok } ls₁ ≤ mu ps ls := by
      unfold mu; dsimp only; rw [h2]; simp only [reduceCtorEq, if_false]; omega
    omega

end rules

/-! ### the quantitative invariant -/

/-- the requirement on the rule table: the EOF token has neither a prefix nor an infix rule
    (otherwise the Go parser itself could loop at the end of the text: `advance` at EOF yields
    EOF again) -/
def EofRule (tbl : RuleTable) : Prop :=
  (lookupRule tbl .eof).pre = none ∧ (lookupRule tbl .eof).inf = none

instance (tbl : RuleTable) : Decidable (EofRule tbl) := by unfold EofRule; infer_instance

/-- with fuel `n ≥ 3 * mu + c_f`, function `f` is not out of fuel and does not increase the
    measure (`+ 1`: it consumes at least one token) -/
structure AllTot (tbl : RuleTable) (n : Nat) : Prop where
  statement : ∀ ps ls, 3 * mu ps ls + 3 ≤ n →
    Tot (statement tbl n ps) ls (fun r ls' => mu r.2 ls' + 1 ≤ mu ps ls)
  loopBody : ∀ ps ls, 3 * mu ps ls + 4 ≤ n →
    Tot (loopBody tbl n ps) ls (fun r ls' => mu r.2 ls' + 1 ≤ mu ps ls)
  block : ∀ ps ls, 3 * mu ps ls + 2 ≤ n →
    Tot (block tbl n ps) ls (fun r ls' => mu r.2 ls' + 1 ≤ mu ps ls)
  blockLoop : ∀ acc ps ls, 3 * mu ps ls + 4 ≤ n →
    Tot (blockLoop tbl n acc ps) ls (fun r ls' => mu r.2 ls' ≤ mu ps ls)
  printStatement : ∀ ps ls, 3 * mu ps ls + 2 ≤ n →
    Tot (printStatement tbl n ps) ls (fun r ls' => mu r.2 ls' + 1 ≤ mu ps ls)
  printLoop : ∀ acc ps ls, 3 * mu ps ls + 3 ≤ n →
    Tot (printLoop tbl n acc ps) ls (fun r ls' => mu r.2 ls' ≤ mu ps ls)
  expressionWithPrec : ∀ prec ps ls, 3 * mu ps ls + 2 ≤ n →
    Tot (expressionWithPrec tbl n prec ps) ls (fun r ls' => mu r.2 ls' + 1 ≤ mu ps ls)
  infixLoop : ∀ prec lhs ps ls, 3 * mu ps ls + 2 ≤ n →
    Tot (infixLoop tbl n prec lhs ps) ls (fun r ls' => mu r.2 ls' ≤ mu ps ls)
  prefixFn : ∀ pk ps ls, ps.cur.tag ≠ .eof → 3 * mu ps ls + 1 ≤ n →
    Tot (prefixFn tbl n pk ps) ls (fun r ls' => mu r.2 ls' + 1 ≤ mu ps ls)
  exprList : ∀ endTag acc ps ls, 3 * mu ps ls + 3 ≤ n →
    Tot (exprList tbl n endTag acc ps) ls (fun r ls' => mu r.2 ls' ≤ mu ps ls)
  objectLoop : ∀ acc ps ls, 3 * mu ps ls + 3 ≤ n →
    Tot (objectLoop tbl n acc ps) ls (fun r ls' => mu r.2 ls' ≤ mu ps ls)
  matchCases : ∀ acc ps ls, 3 * mu ps ls + 4 ≤ n →
    Tot (matchCases tbl n acc ps) ls (fun r ls' => mu r.2 ls' ≤ mu ps ls)
  matchPats : ∀ acc ps ls, 3 * mu ps ls + 3 ≤ n →
    Tot (matchPats tbl n acc ps) ls (fun r ls' => mu r.2 ls' ≤ mu ps ls)
  infixFn : ∀ ik lhs ps ls, ps.cur.tag ≠ .eof → 3 * mu ps ls + 1 ≤ n →
    Tot (infixFn tbl n ik lhs ps) ls (fun r ls' => mu r.2 ls' + 1 ≤ mu ps ls)

section tactics
set_option hygiene false

/-- one symbolic-execution step on a goal `Tot (prog ps) ls Q` -/
macro "tot_step" : tactic => `(tactic| first
  | (with_reducible exact fail_rule _ _ (by decide))
  | (with_reducible refine pure_rule ?_; try dsimp only)
  | (with_reducible refine get_rule ?_; intro s hs; try dsimp only)
  | (with_reducible refine modify_rule _ (fun _ => rfl) ?_; intro _ _; try dsimp only)
  | (with_reducible refine advance_lt (by assumption) ?_; intro _ _ _; try dsimp only)
  | (with_reducible refine advance_le ?_; intro _ _ _; try dsimp only)
  | (with_reducible refine curTag_rule ?_; intro tg htg; try dsimp only)
  | (with_reducible refine atEnd_rule ?_; try dsimp only)
  | (with_reducible refine setDidEnd_rule _ ?_; intro _ _; try dsimp only)
  | (with_reducible refine consume_lt _ (by decide) ?_; intro hcons _ _ _; try dsimp only)
  | (with_reducible refine consume_le _ ?_; intro hcons _ _ _; try dsimp only)
  | (with_reducible refine consumeOf_lt _ (by decide) ?_; intro hcons _ _ _; try dsimp only)
  | (with_reducible refine consumeIgnore_le _ ?_; intro _ _ _; try dsimp only)
  | (with_reducible refine atStatementEnd_le ?_; intro _ _ _ _; try dsimp only)
  | (with_reducible refine regexPrefix_lt ?_; intro _ _ _ _; try dsimp only)
  | (with_reducible refine bind_rule ?_)
  | (split <;> try subst_vars))

/-- a call of one of the 14 functions, by the induction hypothesis; the fuel side condition is
    closed by `omega` from the measure facts in the context -/
macro "tot_ih" : tactic => `(tactic| (first
  | with_reducible refine Tot.mono (ih.statement _ _ (by subst_vars; omega)) (fun r _ hx => ?_)
  | with_reducible refine Tot.mono (ih.loopBody _ _ (by subst_vars; omega)) (fun r _ hx => ?_)
  | with_reducible refine Tot.mono (ih.block _ _ (by subst_vars; omega)) (fun r _ hx => ?_)
  | with_reducible refine Tot.mono (ih.printStatement _ _ (by subst_vars; omega)) (fun r _ hx => ?_)
  | with_reducible refine Tot.mono (ih.expressionWithPrec _ _ _ (by subst_vars; omega)) (fun r _ hx => ?_)
  | with_reducible refine Tot.mono (ih.blockLoop _ _ _ (by subst_vars; omega)) (fun r _ hx => ?_)
  | with_reducible refine Tot.mono (ih.printLoop _ _ _ (by subst_vars; omega)) (fun r _ hx => ?_)
  | with_reducible refine Tot.mono (ih.infixLoop _ _ _ _ (by subst_vars; omega)) (fun r _ hx => ?_)
  | with_reducible refine Tot.mono (ih.exprList _ _ _ _ (by subst_vars; omega)) (fun r _ hx => ?_)
  | with_reducible refine Tot.mono (ih.objectLoop _ _ _ (by subst_vars; omega)) (fun r _ hx => ?_)
  | with_reducible refine Tot.mono (ih.matchCases _ _ _ (by subst_vars; omega)) (fun r _ hx => ?_)
  | with_reducible refine Tot.mono (ih.matchPats _ _ _ (by subst_vars; omega)) (fun r _ hx => ?_)))

macro "tot_run" : tactic => `(tactic| repeat' (first
  | tot_step
  | (tot_ih <;> try (obtain ⟨x, ps'⟩ := r; dsimp only at hx ⊢))))

macro "tot_close" : tactic => `(tactic| (subst_vars; omega))

end tactics

variable {tbl : RuleTable} {n : Nat}

theorem loopBody_step (ih : AllTot tbl n) (ps : PS) (ls : LexState) (hn : 3 * mu ps ls + 4 ≤ n + 1) :
    Tot (loopBody tbl (n + 1) ps) ls (fun r ls' => mu r.2 ls' + 1 ≤ mu ps ls) := by
  unfold loopBody
  tot_run
  all_goals tot_close

theorem block_step (ih : AllTot tbl n) (ps : PS) (ls : LexState) (hn : 3 * mu ps ls + 2 ≤ n + 1) :
    Tot (block tbl (n + 1) ps) ls (fun r ls' => mu r.2 ls' + 1 ≤ mu ps ls) := by
  unfold block
  tot_run
  all_goals tot_close

theorem blockLoop_step (ih : AllTot tbl n) (acc : List Stmt) (ps : PS) (ls : LexState)
    (hn : 3 * mu ps ls + 4 ≤ n + 1) :
    Tot (blockLoop tbl (n + 1) acc ps) ls (fun r ls' => mu r.2 ls' ≤ mu ps ls) := by
  unfold blockLoop
  tot_run
  all_goals tot_close

theorem printStatement_step (ih : AllTot tbl n) (ps : PS) (ls : LexState)
    (hn : 3 * mu ps ls + 2 ≤ n + 1) :
    Tot (printStatement tbl (n + 1) ps) ls (fun r ls' => mu r.2 ls' + 1 ≤ mu ps ls) := by
  unfold printStatement
  tot_run
  all_goals tot_close

theorem printLoop_step (ih : AllTot tbl n) (acc : List Expr) (ps : PS) (ls : LexState)
    (hn : 3 * mu ps ls + 3 ≤ n + 1) :
    Tot (printLoop tbl (n + 1) acc ps) ls (fun r ls' => mu r.2 ls' ≤ mu ps ls) := by
  unfold printLoop
  tot_run
  all_goals tot_close

theorem exprList_step (ih : AllTot tbl n) (endTag : Tag) (acc : List Expr) (ps : PS) (ls : LexState)
    (hn : 3 * mu ps ls + 3 ≤ n + 1) :
    Tot (exprList tbl (n + 1) endTag acc ps) ls (fun r ls' => mu r.2 ls' ≤ mu ps ls) := by
  unfold exprList
  tot_run
  all_goals tot_close

theorem objectLoop_step (ih : AllTot tbl n) (acc : List (Bytes × Expr)) (ps : PS) (ls : LexState)
    (hn : 3 * mu ps ls + 3 ≤ n + 1) :
    Tot (objectLoop tbl (n + 1) acc ps) ls (fun r ls' => mu r.2 ls' ≤ mu ps ls) := by
  unfold objectLoop
  tot_run
  all_goals tot_close

theorem matchCases_step (ih : AllTot tbl n) (acc : List MatchCase) (ps : PS) (ls : LexState)
    (hn : 3 * mu ps ls + 4 ≤ n + 1) :
    Tot (matchCases tbl (n + 1) acc ps) ls (fun r ls' => mu r.2 ls' ≤ mu ps ls) := by
  unfold matchCases
  tot_run
  all_goals tot_close

theorem matchPats_step (ih : AllTot tbl n) (acc : List Expr) (ps : PS) (ls : LexState)
    (hn : 3 * mu ps ls + 3 ≤ n + 1) :
    Tot (matchPats tbl (n + 1) acc ps) ls (fun r ls' => mu r.2 ls' ≤ mu ps ls) := by
  unfold matchPats
  tot_run
  all_goals tot_close

theorem prefixFn_step (ih : AllTot tbl n) (pk : PrefixKind) (ps : PS) (ls : LexState)
    (hcur : ps.cur.tag ≠ .eof) (hn : 3 * mu ps ls + 1 ≤ n + 1) :
    Tot (prefixFn tbl (n + 1) pk ps) ls (fun r ls' => mu r.2 ls' + 1 ≤ mu ps ls) := by
  unfold prefixFn
  tot_run
  all_goals tot_close

theorem infixFn_step (ih : AllTot tbl n) (ik : InfixKind) (lhs : Expr) (ps : PS) (ls : LexState)
    (hcur : ps.cur.tag ≠ .eof) (hn : 3 * mu ps ls + 1 ≤ n + 1) :
    Tot (infixFn tbl (n + 1) ik lhs ps) ls (fun r ls' => mu r.2 ls' + 1 ≤ mu ps ls) := by
  unfold infixFn
  tot_run
  all_goals tot_close

theorem expressionWithPrec_step (hT : EofRule tbl) (ih : AllTot tbl n) (prec : Nat) (ps : PS)
    (ls : LexState) (hn : 3 * mu ps ls + 2 ≤ n + 1) :
    Tot (expressionWithPrec tbl (n + 1) prec ps) ls (fun r ls' => mu r.2 ls' + 1 ≤ mu ps ls) := by
  unfold expressionWithPrec
  tot_step
  tot_step
  generalize hpre : (lookupRule tbl s.cur.tag).pre = pre
  cases pre with
  | none => exact fail_rule _ _ (by decide)
  | some pk =>
    dsimp only
    have hcur : s.cur.tag ≠ .eof := by
      intro e; rw [e, hT.1] at hpre; cases hpre
    refine bind_rule ?_
    refine Tot.mono (ih.prefixFn _ _ _ (by subst_vars; exact hcur) (by subst_vars; omega)) (fun r _ hx => ?_)
    obtain ⟨x, ps'⟩ := r
    dsimp only at hx ⊢
    tot_run
    all_goals tot_close

theorem infixLoop_step (hT : EofRule tbl) (ih : AllTot tbl n) (prec : Nat) (lhs : Expr) (ps : PS)
    (ls : LexState) (hn : 3 * mu ps ls + 2 ≤ n + 1) :
    Tot (infixLoop tbl (n + 1) prec lhs ps) ls (fun r ls' => mu r.2 ls' ≤ mu ps ls) := by
  unfold infixLoop
  tot_step
  tot_step
  split
  · generalize hinf : (lookupRule tbl s.cur.tag).inf = inf
    cases inf with
    | none => exact fail_rule _ _ (by decide)
    | some ik =>
      dsimp only
      have hcur : s.cur.tag ≠ .eof := by
        intro e; rw [e, hT.2] at hinf; cases hinf
      refine bind_rule ?_
      refine Tot.mono (ih.infixFn _ _ _ _ (by subst_vars; exact hcur) (by subst_vars; omega)) (fun r _ hx => ?_)
      obtain ⟨x, ps'⟩ := r
      dsimp only at hx ⊢
      tot_run
      all_goals tot_close
  · tot_run
    all_goals tot_close

theorem statement_step (ih : AllTot tbl n) (ps : PS) (ls : LexState) (hn : 3 * mu ps ls + 3 ≤ n + 1) :
    Tot (statement tbl (n + 1) ps) ls (fun r ls' => mu r.2 ls' + 1 ≤ mu ps ls) := by
  unfold statement
  tot_step
  tot_step
  tot_step
  tot_step
  generalize s.cur.tag = tg0
  tot_run
  all_goals try (
    show Tot _ _ _
    try generalize (ps'.cur.tag == Tag.in_ || ps'.cur.tag == Tag.comma) = fl
    cases x <;> (try cases fl) <;> dsimp only <;> tot_run)
  all_goals tot_close

/-- the invariant holds for every function of the mutual block, at every fuel -/
theorem allTot (hT : EofRule tbl) : ∀ n, AllTot tbl n := by
  intro n
  induction n with
  | zero =>
    constructor
    all_goals (intros; omega)
  | succ n ih =>
    exact {
      statement := statement_step ih
      loopBody := loopBody_step ih
      block := block_step ih
      blockLoop := blockLoop_step ih
      printStatement := printStatement_step ih
      printLoop := printLoop_step ih
      expressionWithPrec := expressionWithPrec_step hT ih
      infixLoop := infixLoop_step hT ih
      prefixFn := prefixFn_step ih
      exprList := exprList_step ih
      objectLoop := objectLoop_step ih
      matchCases := matchCases_step ih
      matchPats := matchPats_step ih
      infixFn := infixFn_step ih }

/-! ### the top level -/

theorem parseRule_tot (ih : AllTot tbl n) (ps : PS) (ls : LexState)
    (hn : 3 * mu ps ls + 2 ≤ n) :
    Tot (parseRule tbl n ps) ls (fun r ls' => mu r.2 ls' + 1 ≤ mu ps ls) := by
  unfold parseRule
  tot_run
  all_goals try tot_close
  rename_i htg hne
  rw [← htg] at hne
  exact absurd rfl hne

theorem funcArgs_tot : ∀ (n : Nat) (acc : List Bytes) (ps : PS) (ls : LexState),
    mu ps ls + 1 ≤ n → Tot (funcArgs n acc ps) ls (fun r ls' => mu r.2 ls' ≤ mu ps ls) := by
  intro n
  induction n with
  | zero => intros; omega
  | succ n ihn =>
    intro acc ps ls hn
    unfold funcArgs
    tot_run
    all_goals first
      | (refine Tot.mono (ihn _ _ _ (by subst_vars; omega)) (fun r _ hx => ?_)
         obtain ⟨x, ps'⟩ := r
         dsimp only at hx ⊢
         tot_close)
      | tot_close

theorem parseFunction_tot (ih : AllTot tbl n) (ps : PS) (ls : LexState)
    (hn : 3 * mu ps ls + 2 ≤ n) :
    Tot (parseFunction tbl n ps) ls (fun r ls' => mu r.2 ls' + 1 ≤ mu ps ls) := by
  unfold parseFunction
  tot_run
  refine Tot.mono (funcArgs_tot _ _ _ _ (by subst_vars; omega)) (fun r _ hx => ?_)
  obtain ⟨x, ps'⟩ := r
  dsimp only at hx ⊢
  tot_run
  tot_close

theorem parseTop_tot (hT : EofRule tbl) : ∀ (n : Nat) (rules : List Rule) (fns : List FuncDef)
    (ps : PS) (ls : LexState), 3 * mu ps ls + 3 ≤ n →
    Tot (parseTop tbl n rules fns ps) ls (fun r ls' => mu r.2 ls' ≤ mu ps ls) := by
  intro n
  induction n with
  | zero => intros; omega
  | succ n ihn =>
    intro rules fns ps ls hn
    have ih := allTot hT n
    unfold parseTop
    tot_run
    · tot_close
    · refine Tot.mono (parseFunction_tot ih _ _ (by subst_vars; omega)) (fun r _ hx => ?_)
      obtain ⟨f, ps'⟩ := r
      dsimp only at hx ⊢
      tot_run
      refine Tot.mono (ihn _ _ _ _ (by subst_vars; omega)) (fun r _ hx => ?_)
      obtain ⟨x, ps''⟩ := r
      dsimp only at hx ⊢
      tot_close
    · refine Tot.mono (parseRule_tot ih _ _ (by subst_vars; omega)) (fun r _ hx => ?_)
      obtain ⟨f, ps'⟩ := r
      dsimp only at hx ⊢
      tot_run
      refine Tot.mono (ihn _ _ _ _ (by subst_vars; omega)) (fun r _ hx => ?_)
      obtain ⟨x, ps''⟩ := r
      dsimp only at hx ⊢
      tot_close

theorem mu_init (ls : LexState) : mu PS.init ls = ls.rest.length := rfl

/-- `Parse()` from any lexer state, with fuel `n ≥ 3 * (unread bytes) + 3`, is not out of fuel -/
theorem parseProgram_tot (hT : EofRule tbl) (n : Nat) (ls : LexState)
    (hn : 3 * ls.rest.length + 3 ≤ n) :
    Tot (parseProgram tbl n PS.init) ls (fun _ _ => True) := by
  have h0 := mu_init ls
  unfold parseProgram
  tot_run
  refine Tot.mono (parseTop_tot hT _ _ _ _ _ (by omega)) (fun _ _ _ => trivial)

/-- `ParseExpression()` from any lexer state, with fuel `n ≥ 3 * (unread bytes) + 2`, is not out
    of fuel -/
theorem parseExpression_tot (hT : EofRule tbl) (n : Nat) (ls : LexState)
    (hn : 3 * ls.rest.length + 2 ≤ n) :
    Tot (parseExpression tbl n PS.init) ls (fun _ _ => True) := by
  have h0 := mu_init ls
  have ih := allTot hT n
  unfold parseExpression
  tot_run
  all_goals trivial

theorem expectedRuleTable_eofRule : EofRule expectedRuleTable := by decide

end ParserFuel
end Jqawk
