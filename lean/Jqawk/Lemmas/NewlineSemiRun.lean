/-
  C13, `;` for a newline: from the program tree (`Semi.BTree`) to runs on flagged token lists.
-/
import Jqawk.Lemmas.NewlineSemiParser
import Jqawk.Lemmas.NewlineSrc

namespace Jqawk
namespace Semi
open Nl

variable {α : Type} {t₀ semi : Token}

theorem dead_run {β σ : Type} {m : PM β} (h : isDead m) (src : TokSrc σ) (s : σ) (x : β) :
    m.runWith src s ≠ .ok x := by
  cases m <;> first | exact h.elim | (intro hh; cases hh)

/-- the three runs: on `A ++ (t₀, newline) :: B`, on `A ++ t₀ :: B`, on `A ++ ; :: t₀ :: B` -/
theorem run_btree {Q : α → PS → PS → Prop} (A B : List (Token × Bool)) (b : Bool) :
    ∀ (m : PM (α × PS)), BTree t₀ semi Q m → ∀ x,
      m.runWith flagSrc (A ++ (t₀, true) :: B) = .ok x →
      (∃ x', m.runWith flagSrc (A ++ (t₀, false) :: B) = .ok x' ∧ x'.1 = x.1) ∨
      (∃ x', m.runWith flagSrc (A ++ (semi, false) :: (t₀, b) :: B) = .ok x' ∧ x'.1 = x.1) := by
  induction A with
  | nil =>
    intro m hb x hr
    cases m with
    | pure a => exact .inl ⟨a, rfl, by simp only [PM.runWith, ParseRes.ok.injEq] at hr; rw [hr]⟩
    | fail e => cases hr
    | oof => cases hr
    | next k =>
      simp only [List.nil_append, PM.runWith, flagSrc] at hr ⊢
      rcases hb.2 with h | h | ⟨k', hk, hA⟩ | ⟨a, s, hl, hz, _, _, _⟩
      · left; rw [← h]; exact ⟨x, hr, rfl⟩
      · exact absurd hr (dead_run h _ _ _)
      · right
        rw [hk]
        simp only [PM.runWith]
        rcases hA b with h | h | ⟨a, s, s', hl, hr', _⟩
        · rw [← h]; exact ⟨x, hr, rfl⟩
        · exact absurd hr (dead_run h _ _ _)
        · rw [hl] at hr
          simp only [PM.runWith, ParseRes.ok.injEq] at hr
          rw [hr']
          exact ⟨(a, s'), rfl, by rw [← hr]⟩
      · left
        rw [hl] at hr
        simp only [PM.runWith, ParseRes.ok.injEq] at hr
        rw [hz]
        exact ⟨_, rfl, by rw [← hr]⟩
    | regex k =>
      left
      simp only [List.nil_append, PM.runWith, flagSrc] at hr ⊢
      exact ⟨x, hr, rfl⟩
  | cons y A ih =>
    intro m hb x hr
    obtain ⟨t, nl⟩ := y
    cases m with
    | pure a => exact .inl ⟨a, rfl, by simp only [PM.runWith, ParseRes.ok.injEq] at hr; rw [hr]⟩
    | fail e => cases hr
    | oof => cases hr
    | next k =>
      simp only [List.cons_append, PM.runWith, flagSrc] at hr ⊢
      exact ih (k t nl) (hb.1 t nl) x hr
    | regex k =>
      simp only [List.cons_append, PM.runWith, flagSrc] at hr ⊢
      by_cases ht : t.tag = .regex
      · simp only [ht, ↓reduceIte] at hr ⊢
        exact ih (k t) (hb t) x hr
      · simp only [ht, ↓reduceIte] at hr
        cases hr

/-- `;` for a newline, program parser on flagged token lists: if the list with the newline in
    front of `t₀` parses to `p`, then the list without that newline parses to `p` (the newline
    was not significant), or the list with a `;` token in its place parses to `p` -/
theorem parseFlags_semi {tbl : RuleTable} (H : Hyp t₀ semi)
    (hprec : (lookupRule tbl .semiColon).prec = 0) (n : Nat) (A B : List (Token × Bool)) (b : Bool)
    (p : Program) (hp : parseFlags tbl n (A ++ (t₀, true) :: B) = .ok p) :
    parseFlags tbl n (A ++ (t₀, false) :: B) = .ok p ∨
    parseFlags tbl n (A ++ (semi, false) :: (t₀, b) :: B) = .ok p := by
  obtain ⟨st, hr⟩ := parseFlags_ok_iff.mp hp
  rcases run_btree A B b _ (parseProgram_btree H hprec n PS.init) (p, st) hr with
    ⟨⟨p', st'⟩, h, he⟩ | ⟨⟨p', st'⟩, h, he⟩
  · left
    dsimp only at he; subst he
    exact parseFlags_ok_iff.mpr ⟨st', h⟩
  · right
    dsimp only at he; subst he
    exact parseFlags_ok_iff.mpr ⟨st', h⟩

end Semi
end Jqawk
