/-
  `Bytes.cmp` is a total order; `sortByKey` is a permutation, yields an ascending list, and
  its result depends only on the SET of members when the keys are pairwise distinct.
-/
import Jqawk.Model.Value

namespace Jqawk

namespace Bytes

theorem u8_trichotomy (a b : UInt8) : a < b ∨ a = b ∨ b < a := by
  rcases Nat.lt_trichotomy a.toNat b.toNat with h | h | h
  · exact Or.inl (UInt8.lt_iff_toNat_lt.2 h)
  · exact Or.inr (Or.inl (UInt8.toNat_inj.1 h))
  · exact Or.inr (Or.inr (UInt8.lt_iff_toNat_lt.2 h))

theorem u8_lt_asymm {a b : UInt8} (h : a < b) : ¬ b < a := by
  rw [UInt8.lt_iff_toNat_lt] at *; omega

theorem u8_lt_irrefl (a : UInt8) : ¬ a < a := by
  rw [UInt8.lt_iff_toNat_lt]; omega

theorem u8_lt_trans {a b c : UInt8} (h1 : a < b) (h2 : b < c) : a < c := by
  rw [UInt8.lt_iff_toNat_lt] at *; omega

theorem cmp_cons (a b : UInt8) (as bs : Bytes) :
    cmp (a :: as) (b :: bs) = if a < b then .lt else if b < a then .gt else cmp as bs := by
  simp [cmp, GT.gt]

/-- antisymmetry: equal comparison means equal byte strings -/
theorem cmp_eq_iff : ∀ (a b : Bytes), cmp a b = .eq ↔ a = b := by
  intro a
  induction a with
  | nil => intro b; cases b <;> simp [cmp]
  | cons x xs ih =>
    intro b
    cases b with
    | nil => simp [cmp]
    | cons y ys =>
      rw [cmp_cons]
      rcases u8_trichotomy x y with h | h | h
      · have : x ≠ y := fun e => u8_lt_irrefl y (e ▸ h)
        simp [h, this]
      · subst h; simp [ih]
      · have : x ≠ y := fun e => u8_lt_irrefl y (e ▸ h)
        simp [h, u8_lt_asymm h, this]

theorem cmp_refl (a : Bytes) : cmp a a = .eq := (cmp_eq_iff a a).2 rfl

/-- swapping the arguments swaps the result -/
theorem cmp_swap : ∀ (a b : Bytes), cmp b a = (cmp a b).swap := by
  intro a
  induction a with
  | nil => intro b; cases b <;> simp [cmp, Ordering.swap]
  | cons x xs ih =>
    intro b
    cases b with
    | nil => simp [cmp, Ordering.swap]
    | cons y ys =>
      rw [cmp_cons, cmp_cons]
      rcases u8_trichotomy x y with h | h | h
      · simp [h, u8_lt_asymm h, Ordering.swap]
      · subst h; simp [ih]
      · simp [h, u8_lt_asymm h, Ordering.swap]

theorem cmp_gt_iff (a b : Bytes) : cmp a b = .gt ↔ cmp b a = .lt := by
  rw [cmp_swap a b]; cases cmp a b <;> simp [Ordering.swap]

/-- transitivity of the strict order -/
theorem cmp_lt_trans : ∀ (a b c : Bytes), cmp a b = .lt → cmp b c = .lt → cmp a c = .lt := by
  intro a
  induction a with
  | nil =>
    intro b c h1 h2
    cases b with
    | nil => simp [cmp] at h1
    | cons y ys => cases c with
      | nil => simp [cmp] at h2
      | cons z zs => simp [cmp]
  | cons x xs ih =>
    intro b c h1 h2
    cases b with
    | nil => simp [cmp] at h1
    | cons y ys =>
      cases c with
      | nil => simp [cmp] at h2
      | cons z zs =>
        rw [cmp_cons] at h1 h2 ⊢
        rcases u8_trichotomy x y with hxy | hxy | hxy
        · rcases u8_trichotomy y z with hyz | hyz | hyz
          · simp [u8_lt_trans hxy hyz]
          · subst hyz; simp [hxy]
          · simp [hyz, u8_lt_asymm hyz] at h2
        · subst hxy
          rcases u8_trichotomy x z with hyz | hyz | hyz
          · simp [hyz]
          · subst hyz
            simp at h1 h2 ⊢
            exact ih _ _ h1 h2
          · simp [hyz, u8_lt_asymm hyz] at h2
        · simp [hxy, u8_lt_asymm hxy] at h1

theorem cmp_lt_asymm (a b : Bytes) (h : cmp a b = .lt) : cmp b a ≠ .lt := by
  rw [cmp_swap a b, h]; simp [Ordering.swap]

/-- totality of `le` -/
theorem le_total (a b : Bytes) : le a b = true ∨ le b a = true := by
  simp only [le]
  rw [cmp_swap a b]
  cases cmp a b <;> simp [Ordering.swap]

theorem le_iff (a b : Bytes) : le a b = true ↔ cmp a b = .lt ∨ a = b := by
  simp only [le, ← cmp_eq_iff]
  cases cmp a b <;> simp

theorem le_trans (a b c : Bytes) (h1 : le a b = true) (h2 : le b c = true) : le a c = true := by
  rw [le_iff] at *
  rcases h1 with h1 | rfl
  · rcases h2 with h2 | rfl
    · exact Or.inl (cmp_lt_trans _ _ _ h1 h2)
    · exact Or.inl h1
  · exact h2

theorem not_le (a b : Bytes) (h : le a b = false) : cmp b a = .lt := by
  rw [← cmp_gt_iff]; simp only [le] at h
  cases hc : cmp a b <;> simp_all

end Bytes

/-! ### insertion sort by key -/

abbrev Members := List (Bytes × CellId)

/-- ascending by key (weakly) -/
def SortedLe (l : Members) : Prop := l.Pairwise (fun x y => Bytes.le x.1 y.1 = true)
/-- strictly ascending by key -/
def SortedLt (l : Members) : Prop := l.Pairwise (fun x y => Bytes.cmp x.1 y.1 = .lt)
/-- pairwise distinct keys (the invariant of a Go map) -/
def DistinctKeys (l : Members) : Prop := l.Pairwise (fun x y => x.1 ≠ y.1)

theorem insertByKey_perm (kv : Bytes × CellId) (l : Members) : (insertByKey kv l).Perm (kv :: l) := by
  induction l with
  | nil => simp [insertByKey]
  | cons x xs ih =>
    simp only [insertByKey]
    split
    · exact List.Perm.refl _
    · exact (List.Perm.cons x ih).trans (List.Perm.swap kv x xs)

theorem sortByKey_perm (l : Members) : (sortByKey l).Perm l := by
  induction l with
  | nil => simp [sortByKey]
  | cons x xs ih =>
    simp only [sortByKey]
    exact (insertByKey_perm x _).trans (List.Perm.cons x ih)

theorem insertByKey_sorted (kv : Bytes × CellId) (l : Members) (hl : SortedLe l) :
    SortedLe (insertByKey kv l) := by
  induction l with
  | nil => simp [insertByKey, SortedLe]
  | cons x xs ih =>
    simp only [insertByKey]
    have hx := List.pairwise_cons.1 hl
    split
    · rename_i hle
      refine List.pairwise_cons.2 ⟨?_, hl⟩
      intro y hy
      rcases List.mem_cons.1 hy with rfl | hy
      · exact hle
      · exact Bytes.le_trans _ _ _ hle (hx.1 y hy)
    · rename_i hle
      have hle' : Bytes.le kv.1 x.1 = false := by simpa using hle
      refine List.pairwise_cons.2 ⟨?_, ih hx.2⟩
      intro y hy
      rcases List.mem_cons.1 ((insertByKey_perm kv xs).mem_iff.1 hy) with rfl | hy
      · rw [Bytes.le_iff]; exact Or.inl (Bytes.not_le _ _ hle')
      · exact hx.1 y hy

theorem sortByKey_sorted (l : Members) : SortedLe (sortByKey l) := by
  induction l with
  | nil => simp [sortByKey, SortedLe]
  | cons x xs ih => exact insertByKey_sorted x _ ih

theorem DistinctKeys.perm {l1 l2 : Members} (p : l1.Perm l2) (h : DistinctKeys l1) : DistinctKeys l2 :=
  (p.pairwise_iff (fun {_ _} h => Ne.symm h)).1 h

theorem sortByKey_sortedLt (l : Members) (hd : DistinctKeys l) : SortedLt (sortByKey l) := by
  have h1 := sortByKey_sorted l
  have h2 : DistinctKeys (sortByKey l) := hd.perm (sortByKey_perm l).symm
  have := List.Pairwise.and h1 h2
  refine this.imp ?_
  intro x y ⟨hle, hne⟩
  rcases (Bytes.le_iff _ _).1 hle with h | h
  · exact h
  · exact absurd h hne

/-- two strictly ascending lists with the same elements are equal -/
theorem sortedLt_perm_eq : ∀ (l1 l2 : Members), SortedLt l1 → SortedLt l2 → l1.Perm l2 → l1 = l2 := by
  intro l1
  induction l1 with
  | nil => intro l2 _ _ p; exact p.nil_eq
  | cons a t1 ih =>
    intro l2 s1 s2 p
    cases l2 with
    | nil => exact absurd p.symm.nil_eq (by simp)
    | cons b t2 =>
      have hs1 := List.pairwise_cons.1 s1
      have hs2 := List.pairwise_cons.1 s2
      have hab : a = b := by
        have ha : a ∈ b :: t2 := p.mem_iff.1 (by simp)
        have hb : b ∈ a :: t1 := p.mem_iff.2 (by simp)
        rcases List.mem_cons.1 ha with e | ha'
        · exact e
        · rcases List.mem_cons.1 hb with e | hb'
          · exact e.symm
          · exact absurd (hs2.1 a ha') (Bytes.cmp_lt_asymm _ _ (hs1.1 b hb'))
      subst hab
      rw [ih t2 hs1.2 hs2.2 (List.Perm.cons_inv p)]

/-- the sorted member list does not depend on the order of insertion -/
theorem sortByKey_perm_eq (m1 m2 : Members) (p : m1.Perm m2) (hd : DistinctKeys m1) :
    sortByKey m1 = sortByKey m2 :=
  sortedLt_perm_eq _ _ (sortByKey_sortedLt m1 hd) (sortByKey_sortedLt m2 (hd.perm p))
    ((sortByKey_perm m1).trans (p.trans (sortByKey_perm m2).symm))

/-! ### the other readers of a member list: lookup, length, store -/

theorem objLookup_eq_some_iff (m : Members) (hd : DistinctKeys m) (k : Bytes) (c : CellId) :
    objLookup m k = some c ↔ (k, c) ∈ m := by
  induction m with
  | nil => simp [objLookup]
  | cons x xs ih =>
    obtain ⟨k0, c0⟩ := x
    have hx := List.pairwise_cons.1 hd
    simp only [objLookup]
    by_cases hk : k0 = k
    · subst hk
      simp only [beq_self_eq_true, ↓reduceIte, Option.some.injEq, List.mem_cons, Prod.mk.injEq, true_and]
      constructor
      · intro e; exact Or.inl e.symm
      · rintro (e | hm)
        · exact e.symm
        · exact absurd rfl (hx.1 (k0, c) hm)
    · have : (k0 == k) = false := by simpa using hk
      simp only [this, Bool.false_eq_true, ↓reduceIte, List.mem_cons, Prod.mk.injEq]
      rw [ih hx.2]
      constructor
      · intro h; exact Or.inr h
      · rintro (⟨e, _⟩ | h)
        · exact absurd e.symm hk
        · exact h

/-- map lookup does not depend on the order of the members -/
theorem objLookup_perm (m1 m2 : Members) (p : m1.Perm m2) (hd : DistinctKeys m1) (k : Bytes) :
    objLookup m1 k = objLookup m2 k := by
  have hd2 := hd.perm p
  cases h1 : objLookup m1 k with
  | some c =>
    have := (objLookup_eq_some_iff m2 hd2 k c).2 (p.mem_iff.1 ((objLookup_eq_some_iff m1 hd k c).1 h1))
    exact this.symm
  | none =>
    cases h2 : objLookup m2 k with
    | none => rfl
    | some c =>
      have := (objLookup_eq_some_iff m1 hd k c).2 (p.mem_iff.2 ((objLookup_eq_some_iff m2 hd2 k c).1 h2))
      rw [h1] at this; cases this

/-! ### heaps that differ only in the order of object members -/

/-- `h1` and `h2` have the same cells and arrays, and every object has the same members (same
    keys, same cells) in a possibly different order -/
structure HeapOrderEq (h1 h2 : Heap) : Prop where
  cells : h1.cells = h2.cells
  arrs : h1.arrs = h2.arrs
  nobjs : h1.objs.size = h2.objs.size
  perm : ∀ o, (h1.obj o).Perm (h2.obj o)
  distinct : ∀ o, DistinctKeys (h1.obj o)

theorem HeapOrderEq.get {h1 h2 : Heap} (e : HeapOrderEq h1 h2) (c : CellId) : h1.get c = h2.get c := by
  simp [Heap.get, e.cells]

theorem HeapOrderEq.arr {h1 h2 : Heap} (e : HeapOrderEq h1 h2) (a : ArrId) : h1.arr a = h2.arr a := by
  simp [Heap.arr, e.arrs]

theorem HeapOrderEq.sorted {h1 h2 : Heap} (e : HeapOrderEq h1 h2) (o : ObjId) :
    sortByKey (h1.obj o) = sortByKey (h2.obj o) :=
  sortByKey_perm_eq _ _ (e.perm o) (e.distinct o)

end Jqawk
