/-
  Renaming of cell ids (C14), part 2: the relation between the heaps of the two runs and how the
  heap operations preserve it.
-/
import Jqawk.Lemmas.SelectorRen
import Jqawk.Lemmas.ReadOnly

set_option linter.unusedVariables false

namespace Jqawk
namespace Sel

/-! ### heap algebra in `if` form -/

theorem get_alloc (h : Heap) (v : Val) (c : CellId) :
    (h.alloc v).2.get c = if c = h.cells.size then v else h.get c := by
  simp only [Heap.get, Heap.alloc, Array.getD_eq_getD_getElem?, Array.getElem?_push]
  split
  · rename_i e; simp [e]
  · rename_i e; simp [Ne.symm e]

theorem get_set (h : Heap) (d : CellId) (v : Val) (c : CellId) :
    (h.set d v).get c = if c = d ∧ d < h.cells.size then v else h.get c := by
  simp only [Heap.get, Heap.set, Array.getD_eq_getD_getElem?, Array.getElem?_setIfInBounds]
  by_cases e : d = c
  · subst e
    by_cases hd : d < h.cells.size
    · simp [hd]
    · simp [hd]
  · have e' : ¬ c = d := fun x => e x.symm
    simp [e, e']

theorem size_alloc (h : Heap) (v : Val) : (h.alloc v).2.cells.size = h.cells.size + 1 := by
  simp [Heap.alloc]

theorem arr_allocArr (h : Heap) (x : Array CellId) (k : ArrId) :
    (h.allocArr x).2.arr k = if k = h.arrs.size then x else h.arr k := by
  simp only [Heap.arr, Heap.allocArr, Array.getD_eq_getD_getElem?, Array.getElem?_push]
  split
  · rename_i e; simp [e]
  · rename_i e; simp [Ne.symm e]

theorem obj_allocObj (h : Heap) (x : List (Bytes × CellId)) (k : ObjId) :
    (h.allocObj x).2.obj k = if k = h.objs.size then x else h.obj k := by
  simp only [Heap.obj, Heap.allocObj, Array.getD_eq_getD_getElem?, Array.getElem?_push]
  split
  · rename_i e; simp [e]
  · rename_i e; simp [Ne.symm e]

theorem arr_setArr (h : Heap) (a : ArrId) (x : Array CellId) (k : ArrId) :
    (h.setArr a x).arr k = if k = a ∧ a < h.arrs.size then x else h.arr k := by
  simp only [Heap.arr, Heap.setArr, Array.getD_eq_getD_getElem?, Array.getElem?_setIfInBounds]
  by_cases e : a = k
  · subst e
    by_cases hd : a < h.arrs.size
    · simp [hd]
    · simp [hd]
  · have e' : ¬ k = a := fun x => e x.symm
    simp [e, e']

theorem obj_setObj (h : Heap) (a : ObjId) (x : List (Bytes × CellId)) (k : ObjId) :
    (h.setObj a x).obj k = if k = a ∧ a < h.objs.size then x else h.obj k := by
  simp only [Heap.obj, Heap.setObj, Array.getD_eq_getD_getElem?, Array.getElem?_setIfInBounds]
  by_cases e : a = k
  · subst e
    by_cases hd : a < h.objs.size
    · simp [hd]
    · simp [hd]
  · have e' : ¬ k = a := fun x => e x.symm
    simp [e, e']

theorem arr_oob (h : Heap) (k : ArrId) (hk : h.arrs.size ≤ k) : h.arr k = #[] := by
  simp only [Heap.arr, Array.getD_eq_getD_getElem?]
  rw [Array.getElem?_eq_none hk]; rfl

theorem obj_oob (h : Heap) (k : ObjId) (hk : h.objs.size ≤ k) : h.obj k = [] := by
  simp only [Heap.obj, Array.getD_eq_getD_getElem?]
  rw [Array.getElem?_eq_none hk]; rfl

/-! ### well-formed contexts -/

structure Ctx.WF (C : Ctx) : Prop where
  shift : ∀ i, C.m ≤ i → C.σ i = i + C.d
  inj : ∀ i j, C.σ i = C.σ j → i = j
  up : ∀ i, C.m ≤ i → C.D i
  low : ∀ i, i < C.m → C.σ i < C.m + C.d

theorem Ctx.WF.σ_lt {C : Ctx} (wf : C.WF) {i w : Nat} (hi : i < w) (hm : C.m ≤ w) : C.σ i < w + C.d := by
  by_cases h : C.m ≤ i
  · rw [wf.shift i h]; omega
  · have := wf.low i (Nat.lt_of_not_le h); omega

/-- the arrays of the two runs hold corresponding cells -/
def ArrR (C : Ctx) (w : Nat) (xa xb : Array CellId) : Prop :=
  xa = xb.map C.σ ∧ LiveL C w xb.toList

theorem ArrR.mono {C : Ctx} {w w' : Nat} {xa xb : Array CellId} (h : ArrR C w xa xb) (hw : w ≤ w') :
    ArrR C w' xa xb := ⟨h.1, h.2.mono hw⟩

theorem ArrR.empty (C : Ctx) (w : Nat) : ArrR C w #[] #[] := ⟨by simp, fun _ h => by simp at h⟩

theorem ArrR.toList {C : Ctx} {w : Nat} {xa xb : Array CellId} (h : ArrR C w xa xb) :
    ListCellR C w xa.toList xb.toList := by
  obtain ⟨rfl, hl⟩ := h
  exact ⟨by simp, hl⟩

theorem ArrR.ofList {C : Ctx} {w : Nat} {as bs : List CellId} (h : ListCellR C w as bs) :
    ArrR C w as.toArray bs.toArray := by
  obtain ⟨rfl, hl⟩ := h
  exact ⟨by simp, by simpa using hl⟩

theorem ArrR.size {C : Ctx} {w : Nat} {xa xb : Array CellId} (h : ArrR C w xa xb) : xa.size = xb.size := by
  rw [h.1, Array.size_map]

theorem ArrR.getD {C : Ctx} {w : Nat} {xa xb : Array CellId} (h : ArrR C w xa xb) {i : Nat}
    (hi : i < xb.size) : CellR C w (xa.getD i 0) (xb.getD i 0) := by
  obtain ⟨rfl, hl⟩ := h
  have hi' : i < (xb.map C.σ).size := by rw [Array.size_map]; exact hi
  simp only [Array.getD_eq_getD_getElem?, Array.getElem?_eq_getElem hi, Array.getElem?_eq_getElem hi',
    Option.getD_some, Array.getElem_map]
  exact ⟨rfl, hl _ (by simp)⟩

theorem ArrR.push {C : Ctx} {w : Nat} {xa xb : Array CellId} (h : ArrR C w xa xb) {a b : CellId}
    (hc : CellR C w a b) : ArrR C w (xa.push a) (xb.push b) := by
  obtain ⟨rfl, hl⟩ := h
  obtain ⟨rfl, hb⟩ := hc
  refine ⟨by simp, ?_⟩
  intro c hc
  simp only [Array.toList_push, List.mem_append, List.mem_singleton] at hc
  rcases hc with hc | hc
  · exact hl c hc
  · subst hc; exact hb

theorem ArrR.pop {C : Ctx} {w : Nat} {xa xb : Array CellId} (h : ArrR C w xa xb) : ArrR C w xa.pop xb.pop := by
  obtain ⟨rfl, hl⟩ := h
  refine ⟨by simp, ?_⟩
  intro c hc
  simp only [Array.toList_pop] at hc
  exact hl c (List.dropLast_subset _ hc)

theorem ArrR.extract {C : Ctx} {w : Nat} {xa xb : Array CellId} (h : ArrR C w xa xb) (i j : Nat) :
    ArrR C w (xa.extract i j) (xb.extract i j) := by
  obtain ⟨rfl, hl⟩ := h
  refine ⟨by simp, ?_⟩
  intro c hc
  simp only [Array.toList_extract, List.extract_eq_take_drop] at hc
  exact hl c (List.mem_of_mem_drop (List.mem_of_mem_take hc))

/-! ### what the evaluation never touches -/

structure Froz (C : Ctx) (hA hB : Heap) : Prop where
  fzB : C.fz ≤ hB.cells.size
  fzA : C.fzA ≤ hA.cells.size
  aA : C.a0 ≤ hA.arrs.size
  aB : C.a0 ≤ hB.arrs.size
  oA : C.o0 ≤ hA.objs.size
  oB : C.o0 ≤ hB.objs.size
  cellB : ∀ i, i < C.fz → ¬ C.D i → hB.get i = C.snapB.get i
  cellA : ∀ j, j < C.fzA → (∀ i, C.D i → C.σ i ≠ j) → hA.get j = C.snapA.get j
  arrB : ∀ k, k < C.a0 → hB.arr k = C.snapB.arr k
  arrA : ∀ k, k < C.a0 → hA.arr k = C.snapA.arr k
  objB : ∀ k, k < C.o0 → hB.obj k = C.snapB.obj k
  objA : ∀ k, k < C.o0 → hA.obj k = C.snapA.obj k

namespace Froz

variable {C : Ctx} {hA hB : Heap}

theorem trivial (h1 : C.fz = 0) (h2 : C.fzA = 0) (h3 : C.a0 = 0) (h4 : C.o0 = 0) : Froz C hA hB := by
  refine ⟨by rw [h1]; exact Nat.zero_le _, by rw [h2]; exact Nat.zero_le _, by rw [h3]; exact Nat.zero_le _,
    by rw [h3]; exact Nat.zero_le _, by rw [h4]; exact Nat.zero_le _, by rw [h4]; exact Nat.zero_le _,
    ?_, ?_, ?_, ?_, ?_, ?_⟩
  · intro i hi; rw [h1] at hi; exact absurd hi (Nat.not_lt_zero _)
  · intro i hi; rw [h2] at hi; exact absurd hi (Nat.not_lt_zero _)
  · intro i hi; rw [h3] at hi; exact absurd hi (Nat.not_lt_zero _)
  · intro i hi; rw [h3] at hi; exact absurd hi (Nat.not_lt_zero _)
  · intro i hi; rw [h4] at hi; exact absurd hi (Nat.not_lt_zero _)
  · intro i hi; rw [h4] at hi; exact absurd hi (Nat.not_lt_zero _)

theorem alloc (f : Froz C hA hB) (va vb : Val) : Froz C (hA.alloc va).2 (hB.alloc vb).2 := by
  refine ⟨?_, ?_, f.aA, f.aB, f.oA, f.oB, ?_, ?_, f.arrB, f.arrA, f.objB, f.objA⟩
  · rw [size_alloc]; exact Nat.le_succ_of_le f.fzB
  · rw [size_alloc]; exact Nat.le_succ_of_le f.fzA
  · intro i hi hd
    rw [get_alloc]
    have : i ≠ hB.cells.size := Nat.ne_of_lt (Nat.lt_of_lt_of_le hi f.fzB)
    simp only [this, ↓reduceIte]
    exact f.cellB i hi hd
  · intro j hj hd
    rw [get_alloc]
    have : j ≠ hA.cells.size := Nat.ne_of_lt (Nat.lt_of_lt_of_le hj f.fzA)
    simp only [this, ↓reduceIte]
    exact f.cellA j hj hd

theorem set (f : Froz C hA hB) {b : CellId} (hb : C.D b) (va vb : Val) :
    Froz C (hA.set (C.σ b) va) (hB.set b vb) := by
  refine ⟨?_, ?_, f.aA, f.aB, f.oA, f.oB, ?_, ?_, f.arrB, f.arrA, f.objB, f.objA⟩
  · rw [Heap.size_set]; exact f.fzB
  · rw [Heap.size_set]; exact f.fzA
  · intro i hi hd
    rw [get_set]
    have : i ≠ b := fun e => hd (e ▸ hb)
    simp only [this, false_and, ↓reduceIte]
    exact f.cellB i hi hd
  · intro j hj hd
    rw [get_set]
    have : j ≠ C.σ b := fun e => hd b hb e.symm
    simp only [this, false_and, ↓reduceIte]
    exact f.cellA j hj hd

theorem allocArr (f : Froz C hA hB) (xa xb : Array CellId) : Froz C (hA.allocArr xa).2 (hB.allocArr xb).2 := by
  refine ⟨f.fzB, f.fzA, ?_, ?_, f.oA, f.oB, f.cellB, f.cellA, ?_, ?_, f.objB, f.objA⟩
  · show C.a0 ≤ (hA.arrs.push xa).size
    rw [Array.size_push]; exact Nat.le_succ_of_le f.aA
  · show C.a0 ≤ (hB.arrs.push xb).size
    rw [Array.size_push]; exact Nat.le_succ_of_le f.aB
  · intro k hk
    rw [arr_allocArr]
    have : k ≠ hB.arrs.size := Nat.ne_of_lt (Nat.lt_of_lt_of_le hk f.aB)
    simp only [this, ↓reduceIte]
    exact f.arrB k hk
  · intro k hk
    rw [arr_allocArr]
    have : k ≠ hA.arrs.size := Nat.ne_of_lt (Nat.lt_of_lt_of_le hk f.aA)
    simp only [this, ↓reduceIte]
    exact f.arrA k hk

theorem allocObj (f : Froz C hA hB) (xa xb : List (Bytes × CellId)) :
    Froz C (hA.allocObj xa).2 (hB.allocObj xb).2 := by
  refine ⟨f.fzB, f.fzA, f.aA, f.aB, ?_, ?_, f.cellB, f.cellA, f.arrB, f.arrA, ?_, ?_⟩
  · show C.o0 ≤ (hA.objs.push xa).size
    rw [Array.size_push]; exact Nat.le_succ_of_le f.oA
  · show C.o0 ≤ (hB.objs.push xb).size
    rw [Array.size_push]; exact Nat.le_succ_of_le f.oB
  · intro k hk
    rw [obj_allocObj]
    have : k ≠ hB.objs.size := Nat.ne_of_lt (Nat.lt_of_lt_of_le hk f.oB)
    simp only [this, ↓reduceIte]
    exact f.objB k hk
  · intro k hk
    rw [obj_allocObj]
    have : k ≠ hA.objs.size := Nat.ne_of_lt (Nat.lt_of_lt_of_le hk f.oA)
    simp only [this, ↓reduceIte]
    exact f.objA k hk

theorem setArr (f : Froz C hA hB) {a : ArrId} (ha : C.a0 ≤ a) (xa xb : Array CellId) :
    Froz C (hA.setArr a xa) (hB.setArr a xb) := by
  refine ⟨f.fzB, f.fzA, ?_, ?_, f.oA, f.oB, f.cellB, f.cellA, ?_, ?_, f.objB, f.objA⟩
  · show C.a0 ≤ (hA.arrs.setIfInBounds a xa).size
    rw [Array.size_setIfInBounds]; exact f.aA
  · show C.a0 ≤ (hB.arrs.setIfInBounds a xb).size
    rw [Array.size_setIfInBounds]; exact f.aB
  · intro k hk
    rw [arr_setArr]
    have : k ≠ a := Nat.ne_of_lt (Nat.lt_of_lt_of_le hk ha)
    simp only [this, false_and, ↓reduceIte]
    exact f.arrB k hk
  · intro k hk
    rw [arr_setArr]
    have : k ≠ a := Nat.ne_of_lt (Nat.lt_of_lt_of_le hk ha)
    simp only [this, false_and, ↓reduceIte]
    exact f.arrA k hk

theorem setObj (f : Froz C hA hB) {o : ObjId} (ho : C.o0 ≤ o) (xa xb : List (Bytes × CellId)) :
    Froz C (hA.setObj o xa) (hB.setObj o xb) := by
  refine ⟨f.fzB, f.fzA, f.aA, f.aB, ?_, ?_, f.cellB, f.cellA, f.arrB, f.arrA, ?_, ?_⟩
  · show C.o0 ≤ (hA.objs.setIfInBounds o xa).size
    rw [Array.size_setIfInBounds]; exact f.oA
  · show C.o0 ≤ (hB.objs.setIfInBounds o xb).size
    rw [Array.size_setIfInBounds]; exact f.oB
  · intro k hk
    rw [obj_setObj]
    have : k ≠ o := Nat.ne_of_lt (Nat.lt_of_lt_of_le hk ho)
    simp only [this, false_and, ↓reduceIte]
    exact f.objB k hk
  · intro k hk
    rw [obj_setObj]
    have : k ≠ o := Nat.ne_of_lt (Nat.lt_of_lt_of_le hk ho)
    simp only [this, false_and, ↓reduceIte]
    exact f.objA k hk

end Froz

/-! ### the relation between the two heaps -/

structure HR (C : Ctx) (hA hB : Heap) : Prop where
  szc : hA.cells.size = hB.cells.size + C.d
  mle : C.m ≤ hB.cells.size
  sza : hA.arrs.size = hB.arrs.size
  ale : C.a0 ≤ hB.arrs.size
  szo : hA.objs.size = hB.objs.size
  ole : C.o0 ≤ hB.objs.size
  cells : ∀ i, LiveC C hB.cells.size i → ValR C hB.cells.size (hA.get (C.σ i)) (hB.get i)
  arrs : ∀ k, C.a0 ≤ k → ArrR C hB.cells.size (hA.arr k) (hB.arr k)
  objs : ∀ k, C.o0 ≤ k → MemR C hB.cells.size (hA.obj k) (hB.obj k)
  froz : Froz C hA hB

variable {C : Ctx}

namespace HR

theorem get {hA hB : Heap} (r : HR C hA hB) {w : Nat} {a b : CellId} (h : CellR C w a b)
    (hw : w ≤ hB.cells.size) : ValR C hB.cells.size (hA.get a) (hB.get b) := by
  rw [h.1]; exact r.cells b (h.2.mono hw)

theorem arrOf {hA hB : Heap} (r : HR C hA hB) {w : Nat} {v : Val} {a : ArrId}
    (hv : LiveV C w (.arr a)) : ArrR C hB.cells.size (hA.arr a) (hB.arr a) := r.arrs a hv

theorem objOf {hA hB : Heap} (r : HR C hA hB) {w : Nat} {o : ObjId}
    (hv : LiveV C w (.obj o)) : MemR C hB.cells.size (hA.obj o) (hB.obj o) := r.objs o hv

theorem alloc (wf : C.WF) {hA hB : Heap} (r : HR C hA hB) {w : Nat} {va vb : Val} (hv : ValR C w va vb)
    (hw : w ≤ hB.cells.size) :
    HR C (hA.alloc va).2 (hB.alloc vb).2 ∧
      CellR C (hB.cells.size + 1) (hA.alloc va).1 (hB.alloc vb).1 := by
  have hsA : (hA.alloc va).1 = C.σ (hB.alloc vb).1 := by
    show hA.cells.size = C.σ hB.cells.size
    rw [wf.shift _ r.mle, r.szc]
  refine ⟨⟨?_, ?_, r.sza, r.ale, r.szo, r.ole, ?_, ?_, ?_, r.froz.alloc va vb⟩, hsA, wf.up _ r.mle, Nat.lt_succ_self _⟩
  · rw [size_alloc, size_alloc, r.szc]; omega
  · rw [size_alloc]; exact Nat.le_succ_of_le r.mle
  · intro i hi
    rw [size_alloc] at hi ⊢
    rw [get_alloc, get_alloc]
    by_cases e : i = hB.cells.size
    · subst e
      have : C.σ hB.cells.size = hA.cells.size := by rw [wf.shift _ r.mle, r.szc]
      simp only [this, ↓reduceIte]
      exact hv.mono (Nat.le_succ_of_le hw)
    · have hlt : i < hB.cells.size := by
        have h2 : i < hB.cells.size + 1 := hi.2
        exact Nat.lt_of_le_of_ne (Nat.le_of_lt_succ h2) e
      have : C.σ i ≠ hA.cells.size := by
        have := wf.σ_lt hlt r.mle; rw [r.szc]; omega
      simp only [this, e, ↓reduceIte]
      exact (r.cells i ⟨hi.1, hlt⟩).mono (Nat.le_succ _)
  · intro k hk
    rw [size_alloc]
    exact (r.arrs k hk).mono (Nat.le_succ _)
  · intro k hk
    rw [size_alloc]
    exact (r.objs k hk).mono (Nat.le_succ _)

theorem set (wf : C.WF) {hA hB : Heap} (r : HR C hA hB) {w w' : Nat} {a b : CellId} (hc : CellR C w a b)
    (hw : w ≤ hB.cells.size) {va vb : Val} (hv : ValR C w' va vb) (hw' : w' ≤ hB.cells.size) :
    HR C (hA.set a va) (hB.set b vb) := by
  obtain ⟨rfl, hb⟩ := hc
  have hb' : b < hB.cells.size := Nat.lt_of_lt_of_le hb.2 hw
  have ha' : C.σ b < hA.cells.size := by rw [r.szc]; exact wf.σ_lt hb' r.mle
  refine ⟨?_, ?_, r.sza, r.ale, r.szo, r.ole, ?_, ?_, ?_, r.froz.set hb.1 va vb⟩
  · rw [Heap.size_set, Heap.size_set]; exact r.szc
  · rw [Heap.size_set]; exact r.mle
  · intro i hi
    rw [Heap.size_set] at hi ⊢
    rw [get_set, get_set]
    by_cases e : i = b
    · subst e
      simp only [ha', hb', and_self, ↓reduceIte]
      exact hv.mono hw'
    · have : C.σ i ≠ C.σ b := fun x => e (wf.inj _ _ x)
      simp only [this, e, false_and, ↓reduceIte]
      exact r.cells i hi
  · intro k hk; rw [Heap.size_set]; exact r.arrs k hk
  · intro k hk; rw [Heap.size_set]; exact r.objs k hk

theorem allocArr {hA hB : Heap} (r : HR C hA hB) {w : Nat} {xa xb : Array CellId} (hx : ArrR C w xa xb)
    (hw : w ≤ hB.cells.size) :
    HR C (hA.allocArr xa).2 (hB.allocArr xb).2 ∧ (hA.allocArr xa).1 = (hB.allocArr xb).1 ∧
      C.a0 ≤ (hB.allocArr xb).1 := by
  refine ⟨⟨r.szc, r.mle, ?_, ?_, r.szo, r.ole, r.cells, ?_, r.objs, r.froz.allocArr xa xb⟩, r.sza, r.ale⟩
  · show (hA.arrs.push xa).size = (hB.arrs.push xb).size
    rw [Array.size_push, Array.size_push, r.sza]
  · show C.a0 ≤ (hB.arrs.push xb).size
    rw [Array.size_push]; exact Nat.le_succ_of_le r.ale
  · intro k hk
    rw [arr_allocArr, arr_allocArr, r.sza]
    split
    · exact hx.mono hw
    · exact r.arrs k hk

theorem allocObj {hA hB : Heap} (r : HR C hA hB) {w : Nat} {xa xb : List (Bytes × CellId)}
    (hx : MemR C w xa xb) (hw : w ≤ hB.cells.size) :
    HR C (hA.allocObj xa).2 (hB.allocObj xb).2 ∧ (hA.allocObj xa).1 = (hB.allocObj xb).1 ∧
      C.o0 ≤ (hB.allocObj xb).1 := by
  refine ⟨⟨r.szc, r.mle, r.sza, r.ale, ?_, ?_, r.cells, r.arrs, ?_, r.froz.allocObj xa xb⟩, r.szo, r.ole⟩
  · show (hA.objs.push xa).size = (hB.objs.push xb).size
    rw [Array.size_push, Array.size_push, r.szo]
  · show C.o0 ≤ (hB.objs.push xb).size
    rw [Array.size_push]; exact Nat.le_succ_of_le r.ole
  · intro k hk
    rw [obj_allocObj, obj_allocObj, r.szo]
    split
    · exact hx.mono hw
    · exact r.objs k hk

theorem setArr {hA hB : Heap} (r : HR C hA hB) {a : ArrId} (ha : C.a0 ≤ a) {w : Nat} {xa xb : Array CellId}
    (hx : ArrR C w xa xb) (hw : w ≤ hB.cells.size) : HR C (hA.setArr a xa) (hB.setArr a xb) := by
  refine ⟨r.szc, r.mle, ?_, ?_, r.szo, r.ole, r.cells, ?_, r.objs, r.froz.setArr ha xa xb⟩
  · show (hA.arrs.setIfInBounds a xa).size = (hB.arrs.setIfInBounds a xb).size
    rw [Array.size_setIfInBounds, Array.size_setIfInBounds, r.sza]
  · show C.a0 ≤ (hB.arrs.setIfInBounds a xb).size
    rw [Array.size_setIfInBounds]; exact r.ale
  · intro k hk
    rw [arr_setArr, arr_setArr, r.sza]
    split
    · exact hx.mono hw
    · exact r.arrs k hk

theorem setObj {hA hB : Heap} (r : HR C hA hB) {o : ObjId} (ho : C.o0 ≤ o) {w : Nat} {xa xb : List (Bytes × CellId)}
    (hx : MemR C w xa xb) (hw : w ≤ hB.cells.size) : HR C (hA.setObj o xa) (hB.setObj o xb) := by
  refine ⟨r.szc, r.mle, r.sza, r.ale, ?_, ?_, r.cells, r.arrs, ?_, r.froz.setObj ho xa xb⟩
  · show (hA.objs.setIfInBounds o xa).size = (hB.objs.setIfInBounds o xb).size
    rw [Array.size_setIfInBounds, Array.size_setIfInBounds, r.szo]
  · show C.o0 ≤ (hB.objs.setIfInBounds o xb).size
    rw [Array.size_setIfInBounds]; exact r.ole
  · intro k hk
    rw [obj_setObj, obj_setObj, r.szo]
    split
    · exact hx.mono hw
    · exact r.objs k hk

end HR

end Sel
end Jqawk

namespace Jqawk
namespace Sel

variable {C : Ctx}

/-! ### `getMember`, `fillNulls`, `setMember` -/

def renMember (σ : Nat → Nat) : Member → Member
  | .cell c => .cell (σ c)
  | m => m

theorem protoGet_renV (tbl : Bytes → Option Native) (m : Val) :
    protoGet tbl (renV C.σ m) = protoGet tbl m := by
  cases m <;> rfl

theorem protoGet_cases (tbl : Bytes → Option Native) (m : Val) :
    (∃ f, protoGet tbl m = .ok (.method f)) ∨ protoGet tbl m = .ok .missing ∨
      ∃ e, protoGet tbl m = .error e := by
  unfold protoGet
  split
  · cases tbl _ with
    | some f => exact .inl ⟨f, rfl⟩
    | none => exact .inr (.inl rfl)
  · cases tbl _ with
    | some f => exact .inl ⟨f, rfl⟩
    | none => exact .inr (.inl rfl)
  · exact .inr (.inr ⟨_, rfl⟩)

theorem protoGet_not_cell (tbl : Bytes → Option Native) (m : Val) (c : CellId) :
    protoGet tbl m ≠ .ok (.cell c) := by
  intro h
  rcases protoGet_cases tbl m with ⟨f, e⟩ | e | ⟨e', e⟩ <;> rw [e] at h <;> cases h

theorem protoGet_ren (tbl : Bytes → Option Native) (m : Val) :
    protoGet tbl m = Except.map (renMember C.σ) (protoGet tbl m) := by
  rcases protoGet_cases tbl m with ⟨f, e⟩ | e | ⟨e', e⟩ <;> rw [e] <;> rfl

theorem getMember_rel {hA hB : Heap} (r : HR C hA hB) {w : Nat} {v : Val} (hv : LiveV C w v) (m : Val) :
    getMember hA (renV C.σ v) (renV C.σ m) = Except.map (renMember C.σ) (getMember hB v m) ∧
      ∀ c, getMember hB v m = .ok (.cell c) → LiveC C hB.cells.size c := by
  cases v with
  | arr a =>
    have ha := r.arrs a hv
    cases m with
    | num x =>
      simp only [renV, getMember, ha.size]
      cases hri : resolveIndex (hB.arr a).size x.toGoInt with
      | none => exact ⟨rfl, fun c h => by cases h⟩
      | some i =>
        dsimp only
        by_cases hi : i < (hB.arr a).size
        · simp only [hi, ↓reduceIte]
          have hc := ha.getD hi
          refine ⟨?_, ?_⟩
          · rw [hc.1]; rfl
          · intro c h; cases h; exact hc.2
        · simp only [hi, ↓reduceIte]
          exact ⟨rfl, fun c h => by cases h⟩
    | _ =>
      simp only [renV, getMember]
      exact ⟨protoGet_ren _ _, fun c h => absurd h (protoGet_not_cell _ _ c)⟩
  | obj o =>
    have ho := r.objs o hv
    have key : ∀ mm : Val, mm.kind = .num ∨ mm.kind = .str →
        (match objLookup (hA.obj o) mm.str! with
          | some c => (Except.ok (Member.cell c) : Except String Member)
          | none => protoGet objProto mm) =
        Except.map (renMember C.σ) (match objLookup (hB.obj o) mm.str! with
          | some c => .ok (.cell c)
          | none => protoGet objProto mm) ∧
        ∀ c, (match objLookup (hB.obj o) mm.str! with
          | some c => (Except.ok (Member.cell c) : Except String Member)
          | none => protoGet objProto mm) = .ok (.cell c) → LiveC C hB.cells.size c := by
      intro mm _
      have hl := ho.lookup mm.str!
      cases hb : objLookup (hB.obj o) mm.str! with
      | none =>
        rw [hb] at hl
        cases ha : objLookup (hA.obj o) mm.str! with
        | some _ => rw [ha] at hl; cases hl
        | none => exact ⟨protoGet_ren _ _, fun c h => absurd h (protoGet_not_cell _ _ c)⟩
      | some cb =>
        rw [hb] at hl
        cases ha : objLookup (hA.obj o) mm.str! with
        | none => rw [ha] at hl; cases hl
        | some ca =>
          rw [ha] at hl
          refine ⟨by rw [hl.1]; rfl, fun c h => by cases h; exact hl.2⟩
    cases m with
    | num x => exact key (.num x) (.inl rfl)
    | str s sp =>
      have := key (.str s sp) (.inr rfl)
      have e : protoGet objProto (.str s (renSpec C.σ sp)) = protoGet objProto (.str s sp) :=
        protoGet_renV (C := C) objProto (.str s sp)
      simp only [Val.str!] at this
      simp only [renV, getMember, Val.str!, e]
      exact this
    | _ => exact ⟨rfl, fun c h => by cases h⟩
  | str s sp =>
    cases m with
    | num x =>
      simp only [renV, getMember]
      split
      · exact ⟨rfl, fun c h => by cases h⟩
      · exact ⟨rfl, fun c h => by cases h⟩
    | _ =>
      simp only [renV, getMember]
      exact ⟨protoGet_ren _ _, fun c h => absurd h (protoGet_not_cell _ _ c)⟩
  | num x =>
    show getMember hA (.num x) (renV C.σ m) = _ ∧ _
    simp only [getMember, protoGet_renV]
    exact ⟨protoGet_ren _ _, fun c h => absurd h (protoGet_not_cell _ _ c)⟩
  | _ => exact ⟨rfl, fun c h => by cases h⟩

end Sel
end Jqawk

namespace Jqawk
namespace Sel

variable {C : Ctx}

theorem fillNulls_succ (n : Nat) (h : Heap) (x : Array CellId) :
    fillNulls (n + 1) h x = fillNulls n (h.alloc (.nil none)).2 (x.push (h.alloc (.nil none)).1) := rfl

theorem fillNulls_rel (wf : C.WF) : ∀ (n : Nat) (hA hB : Heap) (xa xb : Array CellId), HR C hA hB →
    ArrR C hB.cells.size xa xb →
    HR C (fillNulls n hA xa).1 (fillNulls n hB xb).1 ∧
    ArrR C (fillNulls n hB xb).1.cells.size (fillNulls n hA xa).2 (fillNulls n hB xb).2 ∧
    hB.cells.size ≤ (fillNulls n hB xb).1.cells.size ∧ (fillNulls n hB xb).2.size = xb.size + n
  | 0, hA, hB, xa, xb, r, hx => ⟨r, hx, Nat.le_refl _, rfl⟩
  | n + 1, hA, hB, xa, xb, r, hx => by
    rw [fillNulls_succ, fillNulls_succ]
    obtain ⟨r1, c1⟩ := r.alloc wf (ValR.nilNone (C := C) hB.cells.size) (Nat.le_refl _)
    have hx1 : ArrR C (hB.alloc (.nil none)).2.cells.size (xa.push (hA.alloc (.nil none)).1)
        (xb.push (hB.alloc (.nil none)).1) := by
      rw [size_alloc]
      exact (hx.mono (Nat.le_succ _)).push c1
    have ih := fillNulls_rel wf n _ _ _ _ r1 hx1
    refine ⟨ih.1, ih.2.1, ?_, ?_⟩
    · have := ih.2.2.1; rw [size_alloc] at this; omega
    · rw [ih.2.2.2, Array.size_push]; omega

/-- the outcome of `setMember` in the two runs -/
def SetMemR (C : Ctx) (w0 : Nat) : Except String (CellId × Heap) → Except String (CellId × Heap) → Prop
  | .error e, .error e' => e = e'
  | .ok (ca, hA'), .ok (cb, hB') => w0 ≤ hB'.cells.size ∧ CellR C hB'.cells.size ca cb ∧ HR C hA' hB'
  | _, _ => False

theorem renV_num_iff (m : Val) : (∃ x, renV C.σ m = .num x) ↔ ∃ x, m = .num x := by
  cases m <;> simp [renV]

theorem setMember_rel (wf : C.WF) {hA hB : Heap} (r : HR C hA hB) {w : Nat} {v : Val} (hv : LiveV C w v)
    (m : Val) {ca cb : CellId} (hc : CellR C w ca cb) (hw : w ≤ hB.cells.size) :
    SetMemR C hB.cells.size (setMember hA (renV C.σ v) (renV C.σ m) ca) (setMember hB v m cb) := by
  cases v with
  | arr a =>
    have ha := r.arrs a hv
    cases m with
    | num x =>
      simp only [renV, setMember, ha.size]
      cases hri : resolveIndex (hB.arr a).size x.toGoInt with
      | none => exact rfl
      | some i =>
        dsimp only
        by_cases hi : i < (hB.arr a).size
        · simp only [hi, ↓reduceIte]
          have hitem := ha.getD hi
          refine ⟨?_, ?_, ?_⟩
          · rw [Heap.size_set]; exact Nat.le_refl _
          · rw [Heap.size_set]; exact hitem
          · exact r.set wf hitem (Nat.le_refl _) (r.get hc hw) (Nat.le_refl _)
        · simp only [hi, ↓reduceIte]
          split
          · exact rfl
          · obtain ⟨r1, hx1, hle, hsz⟩ := fillNulls_rel wf (i + 1 - (hB.arr a).size) hA hB _ _ r ha
            have hlt : i < (fillNulls (i + 1 - (hB.arr a).size) hB (hB.arr a)).2.size := by
              rw [hsz]; omega
            have hitem := hx1.getD hlt
            have r2 := r1.setArr (a := a) hv hx1 (Nat.le_refl _)
            have hsz2 : ∀ (h : Heap) (x : Array CellId), (h.setArr a x).cells.size = h.cells.size :=
              fun _ _ => rfl
            refine ⟨?_, ?_, ?_⟩
            · rw [Heap.size_set, hsz2]; exact hle
            · rw [Heap.size_set, hsz2]; exact hitem
            · refine r2.set wf hitem (by rw [hsz2]; exact Nat.le_refl _)
                (r2.get hc (by rw [hsz2]; exact Nat.le_trans hw hle)) (Nat.le_refl _)
    | _ => exact rfl
  | obj o =>
    have ho := r.objs o hv
    show SetMemR C hB.cells.size
      (.ok (ca, hA.setObj o (objInsert (hA.obj o) (renV C.σ m).str! ca)))
      (.ok (cb, hB.setObj o (objInsert (hB.obj o) m.str! cb)))
    rw [str_renV]
    have hsz2 : ∀ (h : Heap) (x : List (Bytes × CellId)), (h.setObj o x).cells.size = h.cells.size :=
      fun _ _ => rfl
    refine ⟨by rw [hsz2]; exact Nat.le_refl _, by rw [hsz2]; exact hc.mono hw, ?_⟩
    exact r.setObj (o := o) hv (ho.objInsert _ (hc.mono hw)) (Nat.le_refl _)
  | _ => exact rfl

end Sel
end Jqawk
