/-
  The dangling `else` of the statement parser, on token lists: in `if (a) if (b) S1 else S2` the
  `else` belongs to the nearest (inner) `if`; attaching it to the outer `if` needs braces.
-/
import Jqawk.Lemmas.PrattMain
import Jqawk.Lemmas.ParserScope   -- `allScoped`: the parser functions restore `inFn` / `inLoop`

namespace Jqawk.LoopsElse
open Jqawk Jqawk.Grammar Jqawk.Parser Jqawk.Pratt

/-! ### run-level unfolding of `statement` -/

/-- running `setDidEnd` -/
@[simp] theorem run_setDidEnd (b : Bool) (s : PS) (ts : List Token) :
    run (setDidEnd b) s ts = .ok (((), { s with didEnd := b }), ts) := rfl

/-- tags that do not start a keyword statement or a block: `statement` takes its default branch -/
def exprStart : Tag → Bool
  | .print | .return_ | .if_ | .while_ | .for_ | .lcurly | .break_ | .continue_ | .next
  | .exit => false
  | _ => true

/-- the default branch of `statement`: an expression statement -/
theorem stmt_default (n : Nat) (s : PS) (ts : List Token) (h : exprStart s.cur.tag = true) :
    run (statement T (n + 1)) s ts
      = (run (expressionWithPrec T n Prec.assign) { s with didEnd := false } ts).bind fun r =>
          .ok ((.expr r.1.1, r.1.2), r.2) := by
  unfold statement
  simp only [run_bind, run_setDidEnd, run_get, ParseRes.bind_ok]
  split <;> first
    | (rename_i heq; rw [show s.cur.tag = _ from heq] at h; exact absurd h (by decide))
    | skip
  simp only [run_bind, run_pure]

/-- the `if` branch of `statement` -/
theorem stmt_if (n : Nat) (s : PS) (t1 t2 : Token) (ts : List Token) (h : s.cur.tag = .if_)
    (ht1 : t1.tag = .lparen) :
    run (statement T (n + 1)) s (t1 :: t2 :: ts)
      = (run (expressionWithPrec T n Prec.assign) (adv (adv s t1) t2) ts).bind fun r =>
          (run (consume .rparen) r.1.2 r.2).bind fun r1 =>
            (run (statement T n) r1.1.2 r1.2).bind fun r2 =>
              if r2.1.2.cur.tag = .else_ then
                (run (consume .else_) r2.1.2 r2.2).bind fun r3 =>
                  (run (statement T n) r3.1.2 r3.2).bind fun r4 =>
                    .ok ((.if_ r.1.1 r2.1.1 (some r4.1.1), r4.1.2), r4.2)
              else .ok ((.if_ r.1.1 r2.1.1 none, r2.1.2), r2.2) := by
  conv => lhs; unfold statement
  simp only [run_bind, run_setDidEnd, run_get, ParseRes.bind_ok]
  simp only [h, run_bind]
  rw [run_consume_cons .if_ { s with didEnd := false } t1 _ h]
  simp only [ParseRes.bind_ok]
  rw [run_consume_cons .lparen _ t2 _ ht1]
  simp only [ParseRes.bind_ok]
  show (run (expressionWithPrec T n Prec.assign) (adv (adv s t1) t2) ts).bind _ = _
  cases run (expressionWithPrec T n Prec.assign) (adv (adv s t1) t2) ts with
  | syntaxErr e => rfl
  | oof => rfl
  | ok r =>
    simp only [ParseRes.bind_ok]
    cases run (consume .rparen) r.1.2 r.2 with
    | syntaxErr e => rfl
    | oof => rfl
    | ok r1 =>
      simp only [ParseRes.bind_ok]
      cases run (statement T n) r1.1.2 r1.2 with
      | syntaxErr e => rfl
      | oof => rfl
      | ok r2 =>
        simp only [ParseRes.bind_ok, run_curTag, beq_iff_eq]
        split
        · simp only [run_bind]
          cases run (consume .else_) r2.1.2 r2.2 with
          | syntaxErr e => rfl
          | oof => rfl
          | ok r3 =>
            simp only [ParseRes.bind_ok]
            cases run (statement T n) r3.1.2 r3.2 <;> rfl
        · rfl

/-- the `{` branch of `statement` -/
theorem stmt_block (n : Nat) (s : PS) (ts : List Token) (h : s.cur.tag = .lcurly) :
    run (statement T (n + 1)) s ts = run (block T n) { s with didEnd := false } ts := by
  conv => lhs; unfold statement
  simp only [run_bind, run_setDidEnd, run_get, ParseRes.bind_ok]
  simp only [h]

/-- `atStatementEnd` at a `}`: true, nothing consumed (whether or not a newline was skipped) -/
theorem run_atStatementEnd_rcurly (s : PS) (ts : List Token) (h : s.cur.tag = .rcurly) :
    run atStatementEnd s ts = .ok ((true, s), ts) := by
  unfold atStatementEnd
  simp only [run_bind, run_get, ParseRes.bind_ok]
  split
  · rfl
  · simp only [h]; rfl

/-! ### the parser functions restore the `inFn` / `inLoop` flags -/

/-- a postcondition that holds on every successful leaf of a parser program holds for the result
    of a successful run on a token list -/
theorem allR_runL {α : Type} (Q : α → Prop) (m : PM α) :
    PM.AllR (fun _ => True) Q m → ∀ ts a more, m.runL ts = .ok (a, more) → Q a := by
  induction m with
  | pure a =>
    intro h ts a' more hr
    simp only [PM.runL, ParseRes.ok.injEq, Prod.mk.injEq] at hr
    exact hr.1 ▸ h
  | fail e => intro _ ts a more hr; simp only [PM.runL] at hr; cases hr
  | oof => intro _ ts a more hr; simp only [PM.runL] at hr; cases hr
  | next k ih =>
    intro h ts a more hr
    cases ts with
    | nil => exact ih _ _ (h _ _) [] a more hr
    | cons t ts => exact ih _ _ (h _ _) ts a more hr
  | regex k ih => intro _ ts a more hr; simp only [PM.runL] at hr; cases hr

/-- a successful expression parse leaves `inFn` / `inLoop` as they were (from `allScoped`) -/
theorem expr_flags {F p : Nat} {s s' : PS} {ts more : List Token} {e : Expr}
    (h : run (expressionWithPrec T F p) s ts = .ok ((e, s'), more)) :
    s'.inFn = s.inFn ∧ s'.inLoop = s.inLoop := by
  have := allR_runL _ _ ((allScoped (fun _ => True) T F).expressionWithPrec p s) ts (e, s') more h
  exact ⟨this.2.1, this.1⟩

/-- a successful statement parse leaves `inFn` / `inLoop` as they were (from `allScoped`) -/
theorem stmt_flags {F : Nat} {s s' : PS} {ts more : List Token} {S : Stmt}
    (h : run (statement T F) s ts = .ok ((S, s'), more)) :
    s'.inFn = s.inFn ∧ s'.inLoop = s.inLoop := by
  have := allR_runL _ _ ((allScoped (fun _ => True) T F).statement s) ts (S, s') more h
  exact ⟨this.2.1, this.1⟩

/-! ### expressions in statement position -/

/-- A whole expression (level `assign`) rendered in front of a token `c` that cannot continue
    any expression (`precT c.tag < 1`: `)`, `;`, `}`, `else`, EOF, …): the parse yields `toExpr e`,
    stops at `c`, and keeps the scope flags. -/
theorem expr_render_stop (e : PE) (hwf : e.wf = true) (pol : PE → Bool) (q : Nat) (hq : 1 ≤ q)
    (c : Token) (more : List Token) (hstop : precT c.tag < 1) (s : PS) (ts : List Token)
    (hs : s.cur :: ts = render pol q e ++ c :: more) (F : Nat) (hF : cost e + 3 ≤ F) :
    ∃ s', s'.cur = c ∧ s'.inFn = s.inFn ∧ s'.inLoop = s.inLoop ∧
      run (expressionWithPrec T F Prec.assign) s ts = .ok ((toExpr e, s'), more) := by
  obtain ⟨F1, s1, hs1, hF1, e1⟩ := renderOK e hwf pol q 1 c more s ts F hs hq
    (Or.inr (by omega)) hF
  obtain ⟨k, rfl⟩ : ∃ k, F1 = k + 1 := ⟨F1 - 1, by omega⟩
  rw [loop_stop k 1 _ s1 _ (by rw [hs1]; omega)] at e1
  have hfl := expr_flags e1
  exact ⟨s1, hs1, hfl.1, hfl.2, e1⟩

/-- **Expression statement.**  From a state whose current token starts a rendering of `e` (not a
    statement keyword, not `{`) followed by a token `c` that stops the operator loop,
    `statement` returns `.expr (toExpr e)`, stops at `c`, consumes exactly the rendering, and
    keeps the scope flags.  (The side condition `e.level < q ∨ precT c.tag ≤ R e` of the main
    lemma follows from `precT c.tag < 1`.) -/
theorem stmt_expr_render (e : PE) (hwf : e.wf = true) (pol : PE → Bool) (q : Nat) (hq : 1 ≤ q)
    (c : Token) (more : List Token) (hstop : precT c.tag < 1) (s : PS) (ts : List Token)
    (hs : s.cur :: ts = render pol q e ++ c :: more) (hx : exprStart s.cur.tag = true)
    (F : Nat) (hF : cost e + 4 ≤ F) :
    ∃ s', s'.cur = c ∧ s'.inFn = s.inFn ∧ s'.inLoop = s.inLoop ∧
      run (statement T F) s ts = .ok ((.expr (toExpr e), s'), more) := by
  obtain ⟨n, rfl⟩ : ∃ n, F = n + 1 := ⟨F - 1, by omega⟩
  rw [stmt_default n s ts hx]
  obtain ⟨s', h1, h2, h3, h4⟩ := expr_render_stop e hwf pol q hq c more hstop
    { s with didEnd := false } ts hs n (by omega)
  rw [h4]
  exact ⟨s', h1, h2, h3, rfl⟩

/-! ### statements as black boxes -/

/-- `ParsesStmt fn lp k h rest S c more`: from every parser state whose current token is `h` and
    whose scope flags are `fn` / `lp`, with `rest` unread, `statement` with any fuel `≥ k` returns
    the statement `S`, stops with current token `c`, and leaves `more` unread. -/
def ParsesStmt (fn lp : Bool) (k : Nat) (h : Token) (rest : List Token) (S : Stmt) (c : Token)
    (more : List Token) : Prop :=
  ∀ (F : Nat) (s : PS), k ≤ F → s.cur = h → s.inFn = fn → s.inLoop = lp →
    ∃ s', s'.cur = c ∧ run (statement T F) s rest = .ok ((S, s'), more)

/-- more fuel does not hurt -/
theorem ParsesStmt.mono {fn lp : Bool} {k k' : Nat} {h : Token} {rest : List Token} {S : Stmt}
    {c : Token} {more : List Token} (hp : ParsesStmt fn lp k h rest S c more) (hk : k ≤ k') :
    ParsesStmt fn lp k' h rest S c more :=
  fun F s hF => hp F s (Nat.le_trans hk hF)

/-- an expression statement as a black box (theorem `stmt_expr_render`) -/
theorem parses_expr (fn lp : Bool) (e : PE) (hwf : e.wf = true) (pol : PE → Bool) (q : Nat)
    (hq : 1 ≤ q) (c : Token) (more : List Token) (hstop : precT c.tag < 1) (hd : Token)
    (tl : List Token) (hr : hd :: tl = render pol q e ++ c :: more)
    (hx : exprStart hd.tag = true) :
    ParsesStmt fn lp (cost e + 4) hd tl (.expr (toExpr e)) c more := by
  intro F s hF hcur _ _
  obtain ⟨s', h1, _, _, h4⟩ := stmt_expr_render e hwf pol q hq c more hstop s tl
    (by rw [hcur]; exact hr) (by rw [hcur]; exact hx) F hF
  exact ⟨s', h1, h4⟩

/-- **`if` without `else`**: `if ( e ) S` followed by a token other than `else`. -/
theorem parses_if_noelse (fn lp : Bool) (e : PE) (hwf : e.wf = true) (pol : PE → Bool) (q : Nat)
    (hq : 1 ≤ q) (i l r : Token) (hi : i.tag = .if_) (hl : l.tag = .lparen) (hr : r.tag = .rparen)
    (k : Nat) (h : Token) (rest : List Token) (S : Stmt) (c : Token) (more : List Token)
    (hS : ParsesStmt fn lp k h rest S c more) (hc : c.tag ≠ .else_) :
    ParsesStmt fn lp (max (cost e + 4) (k + 1)) i (l :: (render pol q e ++ r :: h :: rest))
      (.if_ (toExpr e) S none) c more := by
  intro F s hF hcur hfn hlp
  obtain ⟨n, rfl⟩ : ∃ n, F = n + 1 := ⟨F - 1, by omega⟩
  obtain ⟨t2, ts', hcons⟩ := exists_cons (render pol q e) r (h :: rest)
  rw [hcons, stmt_if n s l t2 ts' (by rw [hcur]; exact hi) hl]
  obtain ⟨s1, hs1, hf1, hl1, e1⟩ := expr_render_stop e hwf pol q hq r (h :: rest)
    (by rw [hr]; decide) (adv (adv s l) t2) ts' (by simpa using hcons.symm) n (by omega)
  rw [e1]
  simp only [ParseRes.bind_ok]
  rw [run_consume_cons _ _ _ _ (by rw [hs1]; exact hr)]
  simp only [ParseRes.bind_ok]
  obtain ⟨s2, hs2, e2⟩ := hS n (adv s1 h) (by omega) rfl (by rw [← hfn]; exact hf1)
    (by rw [← hlp]; exact hl1)
  rw [e2]
  simp only [ParseRes.bind_ok]
  rw [if_neg (by rw [hs2]; exact hc)]
  exact ⟨s2, hs2, rfl⟩

/-- **`if` with `else`**: `if ( e ) S1 else S2`. -/
theorem parses_if_else (fn lp : Bool) (e : PE) (hwf : e.wf = true) (pol : PE → Bool) (q : Nat)
    (hq : 1 ≤ q) (i l r el : Token) (hi : i.tag = .if_) (hl : l.tag = .lparen)
    (hr : r.tag = .rparen) (hel : el.tag = .else_)
    (k1 : Nat) (h1 : Token) (rest1 : List Token) (S1 : Stmt) (h2 : Token) (rest2 : List Token)
    (k2 : Nat) (S2 : Stmt) (c : Token) (more : List Token)
    (hS1 : ParsesStmt fn lp k1 h1 rest1 S1 el (h2 :: rest2))
    (hS2 : ParsesStmt fn lp k2 h2 rest2 S2 c more) :
    ParsesStmt fn lp (max (cost e + 4) (max k1 k2 + 1)) i
      (l :: (render pol q e ++ r :: h1 :: rest1)) (.if_ (toExpr e) S1 (some S2)) c more := by
  intro F s hF hcur hfn hlp
  obtain ⟨n, rfl⟩ : ∃ n, F = n + 1 := ⟨F - 1, by omega⟩
  obtain ⟨t2, ts', hcons⟩ := exists_cons (render pol q e) r (h1 :: rest1)
  rw [hcons, stmt_if n s l t2 ts' (by rw [hcur]; exact hi) hl]
  obtain ⟨s1, hs1, hf1, hl1, e1⟩ := expr_render_stop e hwf pol q hq r (h1 :: rest1)
    (by rw [hr]; decide) (adv (adv s l) t2) ts' (by simpa using hcons.symm) n (by omega)
  rw [e1]
  simp only [ParseRes.bind_ok]
  rw [run_consume_cons _ _ _ _ (by rw [hs1]; exact hr)]
  simp only [ParseRes.bind_ok]
  have hfn1 : (adv s1 h1).inFn = fn := by rw [← hfn]; exact hf1
  have hlp1 : (adv s1 h1).inLoop = lp := by rw [← hlp]; exact hl1
  obtain ⟨s2, hs2, e2⟩ := hS1 n (adv s1 h1) (by omega) rfl hfn1 hlp1
  have hfl2 := stmt_flags e2
  rw [e2]
  simp only [ParseRes.bind_ok]
  rw [if_pos (by rw [hs2]; exact hel)]
  rw [run_consume_cons _ _ _ _ (by rw [hs2]; exact hel)]
  simp only [ParseRes.bind_ok]
  obtain ⟨s3, hs3, e3⟩ := hS2 n (adv s2 h2) (by omega) rfl (by rw [← hfn1]; exact hfl2.1)
    (by rw [← hlp1]; exact hfl2.2)
  rw [e3]
  exact ⟨s3, hs3, rfl⟩

/-! ### the dangling `else` -/

/-- **Dangling else, abstract over the inner statements.**  In
    `if ( a ) if ( b ) S1 else S2` — where `S1` is whatever `statement` parses from `h1 :: rest1`
    stopping at the `else` token, and `S2` whatever it parses after the `else`, stopping at a token
    `c` that is not another `else` — the `else` branch is attached to the INNER `if`; the outer
    `if` has none.  `a` and `b` are arbitrary well-formed expressions in any rendering (any
    redundant parentheses `pol`, any context level `≥ 1`).  The conclusion holds from every state at
    the outer `if` token, for every fuel from the explicit bound on. -/
theorem dangling_else_general (fn lp : Bool) (a b : PE) (hwa : a.wf = true) (hwb : b.wf = true)
    (pol : PE → Bool) (qa qb : Nat) (hqa : 1 ≤ qa) (hqb : 1 ≤ qb)
    (i1 l1 r1 i2 l2 r2 el : Token)
    (hi1 : i1.tag = .if_) (hl1 : l1.tag = .lparen) (hr1 : r1.tag = .rparen)
    (hi2 : i2.tag = .if_) (hl2 : l2.tag = .lparen) (hr2 : r2.tag = .rparen)
    (hel : el.tag = .else_)
    (k1 : Nat) (h1 : Token) (rest1 : List Token) (S1 : Stmt) (h2 : Token) (rest2 : List Token)
    (k2 : Nat) (S2 : Stmt) (c : Token) (more : List Token)
    (hS1 : ParsesStmt fn lp k1 h1 rest1 S1 el (h2 :: rest2))
    (hS2 : ParsesStmt fn lp k2 h2 rest2 S2 c more) (hc : c.tag ≠ .else_) :
    ParsesStmt fn lp (max (max (cost a + 4) (cost b + 5)) (max k1 k2 + 2)) i1
      (l1 :: (render pol qa a ++ r1 :: i2 :: l2 :: (render pol qb b ++ r2 :: h1 :: rest1)))
      (.if_ (toExpr a) (.if_ (toExpr b) S1 (some S2)) none) c more := by
  have inner := parses_if_else fn lp b hwb pol qb hqb i2 l2 r2 el hi2 hl2 hr2 hel
    k1 h1 rest1 S1 h2 rest2 k2 S2 c more hS1 hS2
  have outer := parses_if_noelse fn lp a hwa pol qa hqa i1 l1 r1 hi1 hl1 hr1 _ i2 _ _ c more
    inner hc
  exact outer.mono (by omega)

/-- the first token of a token list is not a statement keyword and not `{` -/
def startsExpr : List Token → Bool
  | t :: _ => exprStart t.tag
  | [] => false

/-- **Dangling else** with expression statements: the token list
    `if ( a ) if ( b ) e1 else e2 c …` parses, from any state at the first `if`, to
    `if a { if b e1 else e2 }` (written with the association made explicit), consuming everything
    up to `c`; `c` is any token that ends an expression and is not `else` (`;`, `}`, EOF, …). -/
theorem dangling_else (a b e1 e2 : PE) (hwa : a.wf = true) (hwb : b.wf = true)
    (hw1 : e1.wf = true) (hw2 : e2.wf = true)
    (pol : PE → Bool) (qa qb q1 q2 : Nat) (hqa : 1 ≤ qa) (hqb : 1 ≤ qb) (hq1 : 1 ≤ q1)
    (hq2 : 1 ≤ q2)
    (i1 l1 r1 i2 l2 r2 el c : Token)
    (hi1 : i1.tag = .if_) (hl1 : l1.tag = .lparen) (hr1 : r1.tag = .rparen)
    (hi2 : i2.tag = .if_) (hl2 : l2.tag = .lparen) (hr2 : r2.tag = .rparen)
    (hel : el.tag = .else_)
    (hx1 : startsExpr (render pol q1 e1) = true) (hx2 : startsExpr (render pol q2 e2) = true)
    (hstop : precT c.tag < 1) (hc : c.tag ≠ .else_) (more : List Token)
    (s : PS) (hs : s.cur = i1) (F : Nat)
    (hF : max (max (cost a + 4) (cost b + 5)) (max (cost e1) (cost e2) + 6) ≤ F) :
    ∃ s', s'.cur = c ∧ s'.inFn = s.inFn ∧ s'.inLoop = s.inLoop ∧
      run (statement T F) s
        (l1 :: (render pol qa a ++ r1 :: i2 :: l2 :: (render pol qb b ++ r2 ::
          (render pol q1 e1 ++ el :: (render pol q2 e2 ++ c :: more)))))
      = .ok ((.if_ (toExpr a)
                (.if_ (toExpr b) (.expr (toExpr e1)) (some (.expr (toExpr e2)))) none, s'),
             more) := by
  obtain ⟨h1, tl1, hr1'⟩ : ∃ h1 tl1, render pol q1 e1 = h1 :: tl1 := by
    cases hh : render pol q1 e1 with
    | nil => rw [hh] at hx1; cases hx1
    | cons x xs => exact ⟨x, xs, rfl⟩
  obtain ⟨h2, tl2, hr2'⟩ : ∃ h2 tl2, render pol q2 e2 = h2 :: tl2 := by
    cases hh : render pol q2 e2 with
    | nil => rw [hh] at hx2; cases hx2
    | cons x xs => exact ⟨x, xs, rfl⟩
  rw [hr1'] at hx1; rw [hr2'] at hx2
  have hS2 : ParsesStmt s.inFn s.inLoop (cost e2 + 4) h2 (tl2 ++ c :: more)
      (.expr (toExpr e2)) c more :=
    parses_expr _ _ e2 hw2 pol q2 hq2 c more hstop h2 _ (by rw [hr2']; rfl) hx2
  have hS1 : ParsesStmt s.inFn s.inLoop (cost e1 + 4) h1
      (tl1 ++ el :: h2 :: (tl2 ++ c :: more)) (.expr (toExpr e1)) el (h2 :: (tl2 ++ c :: more)) :=
    parses_expr _ _ e1 hw1 pol q1 hq1 el _ (by rw [hel]; decide) h1 _ (by rw [hr1']; rfl) hx1
  have h := dangling_else_general s.inFn s.inLoop a b hwa hwb pol qa qb hqa hqb
    i1 l1 r1 i2 l2 r2 el hi1 hl1 hr1 hi2 hl2 hr2 hel _ h1 _ _ h2 _ _ _ c more hS1 hS2 hc
  obtain ⟨s', hs', e'⟩ := h F s (by omega) hs rfl rfl
  rw [hr1', hr2']
  have hfl := stmt_flags e'
  exact ⟨s', hs', hfl.1, hfl.2, e'⟩

/-! ### the contrast: attaching the `else` to the outer `if` needs braces -/

/-- `blockLoop` at the closing brace returns what it has collected -/
theorem blockLoop_end (n : Nat) (acc : List Stmt) (s : PS) (ts : List Token)
    (h : s.cur.tag = .rcurly) :
    run (blockLoop T (n + 1) acc) s ts = .ok ((acc.reverse, s), ts) := by
  unfold blockLoop
  simp [h]

/-- a block with a single statement, `{ S }` -/
theorem parses_block1 (fn lp : Bool) (lc rc : Token) (hlc : lc.tag = .lcurly)
    (hrc : rc.tag = .rcurly) (k : Nat) (h : Token) (rest : List Token) (S : Stmt) (c : Token)
    (more : List Token) (hh1 : h.tag ≠ .eof) (hh2 : h.tag ≠ .rcurly)
    (hS : ParsesStmt fn lp k h rest S rc (c :: more)) :
    ParsesStmt fn lp (k + 3) lc (h :: rest) (.block lc [S]) c more := by
  intro F s hF hcur hfn hlp
  obtain ⟨n, rfl⟩ : ∃ n, F = n + 3 := ⟨F - 3, by omega⟩
  rw [stmt_block (n + 2) s _ (by rw [hcur]; exact hlc)]
  unfold block
  simp only [run_bind, run_get, ParseRes.bind_ok, run_pure]
  rw [run_consume_cons .lcurly { s with didEnd := false } h rest (by rw [← hlc, ← hcur])]
  simp only [ParseRes.bind_ok, adv_prev]
  unfold blockLoop
  have hne : (h.tag == Tag.eof || h.tag == Tag.rcurly) = false := by simp [hh1, hh2]
  simp only [run_bind, run_curTag, ParseRes.bind_ok, adv_cur, hne, Bool.false_eq_true, if_false]
  obtain ⟨s2, hs2, e2⟩ := hS n (adv { s with didEnd := false } h) (by omega) rfl hfn hlp
  rw [e2]
  simp only [ParseRes.bind_ok]
  rw [run_atStatementEnd_rcurly s2 _ (by rw [hs2]; exact hrc)]
  simp only [ParseRes.bind_ok, Bool.not_true, Bool.false_eq_true, if_false]
  obtain ⟨m, rfl⟩ : ∃ m, n = m + 1 := by
    cases n with
    | zero => unfold statement at e2; simp only [run_oof] at e2; cases e2
    | succ m => exact ⟨m, rfl⟩
  rw [blockLoop_end m _ s2 _ (by rw [hs2]; exact hrc)]
  simp only [ParseRes.bind_ok]
  rw [run_consume_cons .rcurly s2 c more (by rw [hs2]; exact hrc)]
  simp only [ParseRes.bind_ok, run_setDidEnd, List.reverse_cons, List.reverse_nil, List.nil_append]
  exact ⟨_, rfl, by rw [hcur]⟩

/-- **The `else` of the outer `if` needs braces.**  `if ( a ) { if ( b ) S1 } else S2`: the inner
    `if` (closed by the `}`) has no `else`; the `else` branch belongs to the outer `if`. -/
theorem else_outer_needs_braces (fn lp : Bool) (a b : PE) (hwa : a.wf = true)
    (hwb : b.wf = true) (pol : PE → Bool) (qa qb : Nat) (hqa : 1 ≤ qa) (hqb : 1 ≤ qb)
    (i1 l1 r1 lc i2 l2 r2 rc el : Token)
    (hi1 : i1.tag = .if_) (hl1 : l1.tag = .lparen) (hr1 : r1.tag = .rparen)
    (hlc : lc.tag = .lcurly)
    (hi2 : i2.tag = .if_) (hl2 : l2.tag = .lparen) (hr2 : r2.tag = .rparen)
    (hrc : rc.tag = .rcurly) (hel : el.tag = .else_)
    (k1 : Nat) (h1 : Token) (rest1 : List Token) (S1 : Stmt) (h2 : Token) (rest2 : List Token)
    (k2 : Nat) (S2 : Stmt) (c : Token) (more : List Token)
    (hS1 : ParsesStmt fn lp k1 h1 rest1 S1 rc (el :: h2 :: rest2))
    (hS2 : ParsesStmt fn lp k2 h2 rest2 S2 c more) :
    ParsesStmt fn lp (max (max (cost a + 4) (cost b + 8)) (max (k1 + 5) (k2 + 1))) i1
      (l1 :: (render pol qa a ++ r1 :: lc :: i2 :: l2 :: (render pol qb b ++ r2 :: h1 :: rest1)))
      (.if_ (toExpr a) (.block lc [.if_ (toExpr b) S1 none]) (some S2)) c more := by
  have inner := parses_if_noelse fn lp b hwb pol qb hqb i2 l2 r2 hi2 hl2 hr2
    k1 h1 rest1 S1 rc (el :: h2 :: rest2) hS1 (by rw [hrc]; decide)
  have blk := parses_block1 fn lp lc rc hlc hrc _ i2 _ _ el (h2 :: rest2)
    (by rw [hi2]; decide) (by rw [hi2]; decide) inner
  have outer := parses_if_else fn lp a hwa pol qa hqa i1 l1 r1 el hi1 hl1 hr1 hel
    _ lc _ _ h2 rest2 k2 S2 c more blk hS2
  exact outer.mono (by omega)

/-! ### which renderings start an expression statement -/

/-- the leftmost atom of the expression (following left operands / targets) is an object
    literal: the only renderings that may begin with `{` -/
def leftObj : PE → Bool
  | .obj _ => true
  | .bin _ l _ => leftObj l
  | .postfix _ e => leftObj e
  | .isType e _ => leftObj e
  | .member e _ => leftObj e
  | .index e _ => leftObj e
  | .call f _ => leftObj f
  | .assign _ t _ => leftObj t
  | _ => false

/-- `startsExpr` only looks at the first token -/
theorem startsExpr_append (xs ys : List Token) (h : startsExpr xs = true) :
    startsExpr (xs ++ ys) = true := by
  cases xs with
  | nil => cases h
  | cons x xs => exact h

/-- parentheses start an expression, too -/
theorem startsExpr_wrapAt (q lev : Nat) (ts : List Token) (h : startsExpr ts = true) :
    startsExpr (wrapAt q lev ts) = true := by
  unfold wrapAt; split
  · rfl
  · exact h

/-- Every rendering of an expression whose leftmost atom is not an object literal begins with a
    token that sends `statement` to its expression branch (no statement keyword, no `{`): the
    `startsExpr` hypotheses of `dangling_else` hold for all such `e1`, `e2`. -/
theorem startsExpr_render (e : PE) (h : leftObj e = false) (pol : PE → Bool) (q : Nat) :
    startsExpr (render pol q e) = true := by
  suffices hb : startsExpr (body pol e) = true from startsExpr_wrapAt _ _ _ hb
  induction e using PE.induct with
  | ident n => rfl
  | dollar => rfl
  | lit l => cases l <;> rfl
  | bin op l r hl _ =>
    simp only [body, List.append_assoc]
    exact startsExpr_append _ _ (startsExpr_wrapAt _ _ _ (hl (by simpa [leftObj] using h)))
  | un op e _ => cases op <;> rfl
  | preInc op e _ => cases op <;> rfl
  | postf op e he =>
    simp only [body]
    exact startsExpr_append _ _ (startsExpr_wrapAt _ _ _ (he (by simpa [leftObj] using h)))
  | isType e ty he =>
    simp only [body]
    exact startsExpr_append _ _ (startsExpr_wrapAt _ _ _ (he (by simpa [leftObj] using h)))
  | member e n he =>
    simp only [body]
    exact startsExpr_append _ _ (startsExpr_wrapAt _ _ _ (he (by simpa [leftObj] using h)))
  | index e i he _ =>
    simp only [body, List.append_assoc]
    exact startsExpr_append _ _ (startsExpr_wrapAt _ _ _ (he (by simpa [leftObj] using h)))
  | call f args hf _ =>
    simp only [body, List.append_assoc]
    exact startsExpr_append _ _ (startsExpr_wrapAt _ _ _ (hf (by simpa [leftObj] using h)))
  | arr items _ => rfl
  | obj items _ => simp [leftObj] at h
  | assign op t v ht _ =>
    simp only [body, List.append_assoc]
    exact startsExpr_append _ _ (startsExpr_wrapAt _ _ _ (ht (by simpa [leftObj] using h)))

/-! ### non-vacuity: concrete instances -/

section examples

/-- the dump of the program a source text parses to (real lexer, real positions) -/
def dumpProgSrc (src : Bytes) : Option Bytes :=
  match parseProgramSrc expectedRuleTable src with
  | .ok p => some (dumpProgram p)
  | _ => none

/-- `x = n` as a statement, with the positions of `x`, `=`, `n` -/
def asgAt (px pe pn : Nat) (n : Bytes) : Stmt :=
  .expr (.binary (.ident ⟨.ident, px, b!"x"⟩) (.lit ⟨.num, pn, n⟩) ⟨.equal, pe, []⟩)

/-- SOURCE TEXT, through the real lexer: `{ if (a) if (b) x = 1 else x = 2 }` is the rule whose
    block holds `if (a) { if (b) x = 1 else x = 2 }` — the `else` sits in the inner `if`, the outer
    `if` has no `else` branch (this is also what the Go binary prints with `-dbg-ast`). -/
example :
    dumpProgSrc b!"{ if (a) if (b) x = 1 else x = 2 }"
      = some (dumpProgram ⟨[⟨.pattern, none, .block ⟨.lcurly, 0, []⟩
          [.if_ (.ident ⟨.ident, 6, b!"a"⟩)
            (.if_ (.ident ⟨.ident, 13, b!"b"⟩) (asgAt 16 18 20 b!"1") (some (asgAt 27 29 31 b!"2")))
            none]⟩], []⟩) := by
  decide +kernel

/-- the contrast from source text: with braces the `else` belongs to the outer `if` -/
example :
    dumpProgSrc b!"{ if (a) { if (b) x = 1 } else x = 2 }"
      = some (dumpProgram ⟨[⟨.pattern, none, .block ⟨.lcurly, 0, []⟩
          [.if_ (.ident ⟨.ident, 6, b!"a"⟩)
            (.block ⟨.lcurly, 9, []⟩
              [.if_ (.ident ⟨.ident, 15, b!"b"⟩) (asgAt 18 20 22 b!"1") none])
            (some (asgAt 31 33 35 b!"2"))]⟩], []⟩) := by
  decide +kernel

/-- the two readings are different programs -/
example : dumpProgSrc b!"{ if (a) if (b) x = 1 else x = 2 }"
    ≠ dumpProgSrc b!"{ if (a) { if (b) x = 1 } else x = 2 }" := by
  decide +kernel

/-- `x = n` as a grammar expression -/
def asgPE (n : Bytes) : PE := .assign .set (.ident b!"x") (.lit (.num n))

/-- the token list of `if ( a ) if ( b ) x = 1 else x = 2 }` after the first `if` -/
def sampleToks : List Token :=
  [opTok .lparen, identTok b!"a", opTok .rparen, opTok .if_, opTok .lparen, identTok b!"b",
   opTok .rparen, identTok b!"x", opTok .equal, ⟨.num, 0, b!"1"⟩, opTok .else_, identTok b!"x",
   opTok .equal, ⟨.num, 0, b!"2"⟩, opTok .rcurly]

/-- the token list of `dangling_else` for these atoms is `sampleToks` -/
example : opTok .lparen :: (renderMin 1 (.ident b!"a") ++ opTok .rparen :: opTok .if_ ::
      opTok .lparen :: (renderMin 1 (.ident b!"b") ++ opTok .rparen ::
        (renderMin 1 (asgPE b!"1") ++ opTok .else_ :: (renderMin 1 (asgPE b!"2") ++
          opTok .rcurly :: [])))) = sampleToks := by
  decide +kernel

/-- an instance of `dangling_else` in which every hypothesis is discharged by computation:
    `if ( a ) if ( b ) x = 1 else x = 2` in front of a `}`, from a state at the first `if`,
    fuel 16 -/
example : ∃ s', s'.cur = opTok .rcurly ∧ s'.inFn = false ∧ s'.inLoop = false ∧
    run (statement T 16) ⟨opTok .if_, opTok .lcurly, false, false, false⟩
      (opTok .lparen :: (renderMin 1 (.ident b!"a") ++ opTok .rparen :: opTok .if_ ::
        opTok .lparen :: (renderMin 1 (.ident b!"b") ++ opTok .rparen ::
          (renderMin 1 (asgPE b!"1") ++ opTok .else_ :: (renderMin 1 (asgPE b!"2") ++
            opTok .rcurly :: [])))))
    = .ok ((.if_ (toExpr (.ident b!"a"))
              (.if_ (toExpr (.ident b!"b")) (.expr (toExpr (asgPE b!"1")))
                (some (.expr (toExpr (asgPE b!"2"))))) none, s'), []) :=
  dangling_else (.ident b!"a") (.ident b!"b") (asgPE b!"1") (asgPE b!"2")
    (by decide +kernel) (by decide +kernel) (by decide +kernel) (by decide +kernel)
    (fun _ => false) 1 1 1 1 (by decide) (by decide) (by decide) (by decide)
    (opTok .if_) (opTok .lparen) (opTok .rparen) (opTok .if_) (opTok .lparen) (opTok .rparen)
    (opTok .else_) (opTok .rcurly) rfl rfl rfl rfl rfl rfl rfl
    (by decide +kernel) (by decide +kernel) (by decide) (by decide) []
    ⟨opTok .if_, opTok .lcurly, false, false, false⟩ rfl 16 (by decide +kernel)

/-- an instance of `else_outer_needs_braces` (all hypotheses discharged):
    `if ( a ) { if ( b ) x = 1 } else x = 2` in front of a `}` -/
example : ParsesStmt false false 19 (opTok .if_)
    (opTok .lparen :: (renderMin 1 (.ident b!"a") ++ opTok .rparen :: opTok .lcurly ::
      opTok .if_ :: opTok .lparen :: (renderMin 1 (.ident b!"b") ++ opTok .rparen ::
        identTok b!"x" :: [opTok .equal, ⟨.num, 0, b!"1"⟩, opTok .rcurly, opTok .else_,
          identTok b!"x", opTok .equal, ⟨.num, 0, b!"2"⟩, opTok .rcurly])))
    (.if_ (toExpr (.ident b!"a"))
      (.block (opTok .lcurly) [.if_ (toExpr (.ident b!"b")) (.expr (toExpr (asgPE b!"1"))) none])
      (some (.expr (toExpr (asgPE b!"2"))))) (opTok .rcurly) [] :=
  else_outer_needs_braces false false (.ident b!"a") (.ident b!"b") (by decide +kernel)
    (by decide +kernel) (fun _ => false) 1 1 (by decide) (by decide)
    (opTok .if_) (opTok .lparen) (opTok .rparen) (opTok .lcurly) (opTok .if_) (opTok .lparen)
    (opTok .rparen) (opTok .rcurly) (opTok .else_) rfl rfl rfl rfl rfl rfl rfl rfl rfl
    (cost (asgPE b!"1") + 4) (identTok b!"x") _ _ (identTok b!"x") _
    (cost (asgPE b!"2") + 4) _ (opTok .rcurly) []
    (parses_expr false false (asgPE b!"1") (by decide +kernel) (fun _ => false) 1 (by decide)
      (opTok .rcurly) [opTok .else_, identTok b!"x", opTok .equal, ⟨.num, 0, b!"2"⟩, opTok .rcurly]
      (by decide) (identTok b!"x") _ (by decide +kernel) (by decide))
    (parses_expr false false (asgPE b!"2") (by decide +kernel) (fun _ => false) 1 (by decide)
      (opTok .rcurly) [] (by decide) (identTok b!"x") [opTok .equal, ⟨.num, 0, b!"2"⟩, opTok .rcurly]
      (by decide +kernel) (by decide))
    |>.mono (by decide +kernel)

end examples


end Jqawk.LoopsElse
