/-
  Signal discipline at the level of the rule driver (C01): `next` and `exit` are consumed by the
  rule loops, and break / continue / return cannot come out of well-scoped rules; hence a run
  never reports an internal control-flow signal as its outcome.
-/
import Jqawk.Lemmas.Signals
import Jqawk.Model.Driver

set_option linter.unusedVariables false

namespace Jqawk

/-- what the parser guarantees about a program: `break`/`continue` only inside loop bodies of
    the same function or rule, `return` only inside functions -/
def Program.WellScoped (prog : Program) : Prop :=
  prog.FnScoped ∧
  ∀ r ∈ prog.rules, ∀ g : Sig, g.confined = true →
    canS g r.body = false ∧ ∀ p, r.pattern = some p → canE g p = false

theorem wellScoped_of_B (prog : Program) (h : prog.wellScopedB = true) : prog.WellScoped := by
  simp only [Program.wellScopedB, Bool.and_eq_true, List.all_eq_true, Bool.not_eq_true',
    confinedSigs] at h
  obtain ⟨hf, hr⟩ := h
  refine ⟨fun f hfm => hf f hfm, fun r hrm g hg => ?_⟩
  have hmem : g ∈ [Sig.brk, Sig.cont, Sig.ret] := by cases g <;> simp_all [Sig.confined]
  have hg' := hr r hrm g hmem
  refine ⟨hg'.1, fun p hp => ?_⟩
  have := hg'.2
  rw [hp] at this
  simpa using this

theorem NoSig.catchSig_same {α : Type} (g : Sig) (d : α) (m : EM α) : NoSig g (catchSig g d m) := by
  intro s s' h
  unfold catchSig at h
  cases hr : m s with
  | ok a s1 => rw [hr] at h; cases h
  | err e s1 =>
    rw [hr] at h
    cases e with
    | sig g' =>
      dsimp only at h
      split at h
      · cases h
      · simp only [Res.err.injEq, Err.sig.injEq] at h; rename_i hne; exact hne h.1
    | runtime p m => cases h
    | panic m => cases h
    | unmodelled m => cases h
  | oof => rw [hr] at h; cases h

theorem NoSig.catchSig_pass {α : Type} {g : Sig} (g' : Sig) (d : α) {m : EM α} (hm : NoSig g m) :
    NoSig g (catchSig g' d m) := by
  intro s s' h
  unfold catchSig at h
  cases hr : m s with
  | ok a s1 => rw [hr] at h; cases h
  | err e s1 =>
    rw [hr] at h
    cases e with
    | sig g'' =>
      dsimp only at h
      split at h
      · cases h
      · simp only [Res.err.injEq, Err.sig.injEq] at h; exact hm s s1 (by rw [hr, h.1])
    | runtime p m => cases h
    | panic m => cases h
    | unmodelled m => cases h
  | oof => rw [hr] at h; cases h

/-- a rule body's `next` and `exit` never come out of `ruleFlow`; other signals only if the body raises them -/
theorem NoSig.ruleFlow {g : Sig} {m : EM Unit} (h : g = .next ∨ g = .exit ∨ NoSig g m) :
    NoSig g (Jqawk.ruleFlow m) := by
  intro s s' he
  unfold Jqawk.ruleFlow at he
  cases hr : m s with
  | ok a s1 => rw [hr] at he; cases he
  | err e s1 =>
    rw [hr] at he
    cases e with
    | sig g' =>
      cases g' <;> first
        | (cases he; done)
        | (cases he
           rcases h with h | h | h
           · cases h
           · cases h
           · exact h _ _ hr)
    | runtime p m => cases he
    | panic m => cases he
    | unmodelled m => cases he
  | oof => rw [hr] at he; cases he

theorem NoSig.catchExit {g : Sig} {m : EM Unit} (h : g = .exit ∨ NoSig g m) :
    NoSig g (Jqawk.catchExit m) := by
  intro s s' he
  unfold Jqawk.catchExit at he
  cases hr : m s with
  | ok a s1 => rw [hr] at he; cases he
  | err e s1 =>
    rw [hr] at he
    cases e with
    | sig g' =>
      cases g' <;> first
        | (cases he; done)
        | (cases he
           rcases h with h | h
           · cases h
           · exact h _ _ hr)
    | runtime p m => cases he
    | panic m => cases he
    | unmodelled m => cases he
  | oof => rw [hr] at he; cases he

variable (prog : Program)

/-- `evalRules` never yields `next` (it consumes it) nor a confined signal (well-scoped rules) -/
theorem NoSig.evalRules (hws : prog.WellScoped) (g : Sig) (hg : g = .next ∨ g.confined = true)
    (rules : List Rule) (hsub : ∀ r ∈ rules, r ∈ prog.rules) :
    NoSig g (Jqawk.evalRules prog rules) := by
  induction rules with
  | nil => exact NoSig.pure g ()
  | cons rule rest ih =>
    have hrest : ∀ r ∈ rest, r ∈ prog.rules := fun r hr => hsub r (List.mem_cons_of_mem _ hr)
    have hrule := hsub rule (List.mem_cons_self ..)
    unfold Jqawk.evalRules
    have hbody : NoSig g (evalStmt prog evalFuel rule.body) ∨ g = .next := by
      rcases hg with hg | hg
      · exact Or.inr hg
      · exact Or.inl ((allNoSig prog g hg hws.1 evalFuel).stmt _ (hws.2 rule hrule g hg).1)
    have hcatchBody : NoSig g (catchSig .next false
        (do evalStmt prog evalFuel rule.body; Pure.pure true : EM Bool)) := by
      rcases hbody with hb | hb
      · exact NoSig.catchSig_pass _ _ (NoSig.bind hb (fun _ => NoSig.pure g _))
      · subst hb; exact NoSig.catchSig_same _ _ _
    refine NoSig.bind ?_ (fun r => ?_)
    · split
      · exact NoSig.pure g _
      · rename_i p hp
        rcases hg with hg | hg
        · subst hg; exact NoSig.catchSig_same _ _ _
        · refine NoSig.catchSig_pass _ _ ?_
          exact NoSig.bind ((allNoSig prog g hg hws.1 evalFuel).expr _ ((hws.2 rule hrule g hg).2 p hp))
            (fun c => NoSig.bind (NoSig.readCell g _) (fun v => NoSig.pure g _))
    · split
      · exact NoSig.pure g _
      · split
        · exact ih hrest
        · refine NoSig.bind hcatchBody (fun more => ?_)
          split
          · exact ih hrest
          · exact NoSig.pure g _

theorem NoSig.evalElems (hws : prog.WellScoped) (g : Sig) (hg : g = .next ∨ g.confined = true)
    (rules : List Rule) (hsub : ∀ r ∈ rules, r ∈ prog.rules) (items : List CellId) (i : Nat) :
    NoSig g (Jqawk.evalElems prog rules items i) := by
  induction items generalizing i with
  | nil => exact NoSig.pure g ()
  | cons item rest ih =>
    unfold Jqawk.evalElems
    exact NoSig.bind (NoSig.modifySt g _) (fun _ => NoSig.bind (NoSig.newCell g _) (fun ic =>
      NoSig.bind (NoSig.setLocal g _ _) (fun _ =>
        NoSig.bind (NoSig.evalRules prog hws g hg rules hsub) (fun _ => ih (i + 1)))))

theorem NoSig.evalPatternRules (hws : prog.WellScoped) (g : Sig) (hg : g = .next ∨ g.confined = true)
    (rules : List Rule) (hsub : ∀ r ∈ rules, r ∈ prog.rules) :
    NoSig g (Jqawk.evalPatternRules prog rules) := by
  unfold Jqawk.evalPatternRules
  refine NoSig.bind (NoSig.getSt g) (fun s => ?_)
  split
  · exact NoSig.pure g _
  · split
    · exact NoSig.evalElems prog hws g hg rules hsub _ _
    · exact NoSig.bind (NoSig.modifySt g _) (fun _ => NoSig.evalRules prog hws g hg rules hsub)

theorem rulesOf_sub (k : RuleKind) : ∀ r ∈ rulesOf prog k, r ∈ prog.rules := by
  intro r hr
  unfold rulesOf at hr
  exact (List.mem_filter.mp hr).1

/-- the special-rule loops let no signal at all out -/
theorem NoSig.evalSpecialRules (hws : prog.WellScoped) (g : Sig) (mkRoot : EM CellId)
    (hmk : NoSig g mkRoot) (rules : List Rule) (hsub : ∀ r ∈ rules, r ∈ prog.rules) :
    NoSig g (Jqawk.evalSpecialRules prog mkRoot rules) := by
  induction rules with
  | nil => exact NoSig.pure g _
  | cons rule rest ih =>
    have hrest : ∀ r ∈ rest, r ∈ prog.rules := fun r hr => hsub r (List.mem_cons_of_mem _ hr)
    have hrule := hsub rule (List.mem_cons_self ..)
    unfold Jqawk.evalSpecialRules
    refine NoSig.bind hmk (fun c => NoSig.bind (NoSig.modifySt g _) (fun _ => NoSig.bind ?_ (fun fl => ?_)))
    · apply NoSig.ruleFlow
      cases g with
      | next => exact Or.inl rfl
      | exit => exact Or.inr (Or.inl rfl)
      | brk => exact Or.inr (Or.inr ((allNoSig prog .brk rfl hws.1 evalFuel).stmt _ (hws.2 rule hrule .brk rfl).1))
      | cont => exact Or.inr (Or.inr ((allNoSig prog .cont rfl hws.1 evalFuel).stmt _ (hws.2 rule hrule .cont rfl).1))
      | ret => exact Or.inr (Or.inr ((allNoSig prog .ret rfl hws.1 evalFuel).stmt _ (hws.2 rule hrule .ret rfl).1))
    · split
      · exact NoSig.pure g _
      · exact ih hrest

theorem NoSig.processRoot (hws : prog.WellScoped) (g : Sig) (c : CellId) :
    NoSig g (Jqawk.processRoot prog c) := by
  unfold Jqawk.processRoot
  refine NoSig.bind (NoSig.readCell g _) (fun rv => NoSig.bind
    (NoSig.evalSpecialRules prog hws g _ (NoSig.pure g _) _ (rulesOf_sub prog _)) (fun fl => ?_))
  split
  · exact NoSig.pure g _
  · refine NoSig.bind (NoSig.modifySt g _) (fun _ => NoSig.bind ?_ (fun fl2 => ?_))
    · apply NoSig.catchExit
      cases g with
      | exit => exact Or.inl rfl
      | next => exact Or.inr (NoSig.evalPatternRules prog hws .next (Or.inl rfl) _ (rulesOf_sub prog _))
      | brk => exact Or.inr (NoSig.evalPatternRules prog hws .brk (Or.inr rfl) _ (rulesOf_sub prog _))
      | cont => exact Or.inr (NoSig.evalPatternRules prog hws .cont (Or.inr rfl) _ (rulesOf_sub prog _))
      | ret => exact Or.inr (NoSig.evalPatternRules prog hws .ret (Or.inr rfl) _ (rulesOf_sub prog _))
    · split
      · exact NoSig.pure g _
      · exact NoSig.evalSpecialRules prog hws g _ (NoSig.newCell g _) _ (rulesOf_sub prog _)

theorem NoSig.processRoots (hws : prog.WellScoped) (g : Sig) (cs : List CellId) :
    NoSig g (Jqawk.processRoots prog cs) := by
  induction cs with
  | nil => exact NoSig.pure g _
  | cons c rest ih =>
    unfold Jqawk.processRoots
    refine NoSig.bind (NoSig.processRoot prog hws g c) (fun fl => ?_)
    split
    · exact NoSig.pure g _
    · exact ih

mutual
theorem NoSig.newValueJson (g : Sig) : ∀ j, NoSig g (Jqawk.newValueJson j)
  | .null => by unfold Jqawk.newValueJson; exact NoSig.pure g _
  | .bool b => by unfold Jqawk.newValueJson; exact NoSig.pure g _
  | .num lit => by unfold Jqawk.newValueJson; exact NoSig.pure g _
  | .str s => by unfold Jqawk.newValueJson; exact NoSig.pure g _
  | .arr items => by
    unfold Jqawk.newValueJson
    exact NoSig.bind (NoSig.newValueItems g items) (fun cells => NoSig.bind (NoSig.allocArrM g _)
      (fun _ => NoSig.pure g _))
  | .obj members => by
    unfold Jqawk.newValueJson
    exact NoSig.bind (NoSig.newValueMembers g members) (fun cells => NoSig.bind (NoSig.allocObjM g _)
      (fun _ => NoSig.pure g _))
theorem NoSig.newValueItems (g : Sig) : ∀ js, NoSig g (Jqawk.newValueItems js)
  | [] => by unfold Jqawk.newValueItems; exact NoSig.pure g _
  | j :: js => by
    unfold Jqawk.newValueItems
    exact NoSig.bind (NoSig.newValueJson g j) (fun v => NoSig.bind (NoSig.newCell g v)
      (fun c => NoSig.bind (NoSig.newValueItems g js) (fun cs => NoSig.pure g _)))
theorem NoSig.newValueMembers (g : Sig) : ∀ ms, NoSig g (Jqawk.newValueMembers ms)
  | [] => by unfold Jqawk.newValueMembers; exact NoSig.pure g _
  | (k, j) :: ms => by
    unfold Jqawk.newValueMembers
    exact NoSig.bind (NoSig.newValueJson g j) (fun v => NoSig.bind (NoSig.newCell g v)
      (fun c => NoSig.bind (NoSig.newValueMembers g ms) (fun cs => NoSig.pure g _)))
end

end Jqawk
