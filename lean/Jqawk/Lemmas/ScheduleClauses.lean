/-
  Consequences of the schedule specification `Spec/Schedule.lean`, for ANY primitive steps
  (C02 infrastructure): the end of the run (`exit`, an error) at any position of any layer is
  the end of the whole schedule; `next` is local to one element; roots come in selector order;
  what `$`, `$index` and `$file` are bound to.
-/
import Jqawk.Lemmas.Schedule
import Jqawk.Lemmas.Heap

set_option linter.unusedSimpArgs false

namespace Jqawk.Sched
open Jqawk

variable (P : Prims) (R : RuleSets)

/-! ### one element -/

/-- the pattern test of a rule (an absent pattern counts as true) -/
def hitSpec (r : Rule) : Run Bool :=
  match r.pattern with
  | none => pure true
  | some p => P.test p

theorem ruleSpec_def (r : Rule) :
    ruleSpec P r = (hitSpec P r >>= fun hit => if hit then P.exec r.body else pure ()) := by
  unfold ruleSpec hitSpec
  rfl

/-- the body runs iff the pattern is absent or truthy … -/
theorem ruleSpec_hit (r : Rule) (s s1 : St) (h : hitSpec P r s = .fine true s1) :
    ruleSpec P r s = P.exec r.body s1 := by
  rw [ruleSpec_def, bind_fine h]; rfl

/-- … and not otherwise: a falsy pattern skips the rule, and only the pattern was evaluated -/
theorem ruleSpec_miss (r : Rule) (s s1 : St) (h : hitSpec P r s = .fine false s1) :
    ruleSpec P r s = .fine () s1 := by
  rw [ruleSpec_def, bind_fine h]; rfl

theorem runRulesSpec_fine (rules : List Rule) (s s' : St)
    (h : each rules (ruleSpec P) s = .fine () s') : runRulesSpec P rules s = .fine () s' :=
  uptoNext_fine h

/-- `next` in rule `r` (its pattern or its body) abandons the remaining rules `post` — whatever
    they are — and the rules for this element end normally in the state `next` left -/
theorem rules_next (pre post : List Rule) (r : Rule) (s s1 s2 : St)
    (hpre : each pre (ruleSpec P) s = .fine () s1) (hr : ruleSpec P r s1 = .next s2) :
    runRulesSpec P (pre ++ r :: post) s = .fine () s2 :=
  uptoNext_next (each_next pre post r _ s s1 s2 hpre hr)

/-- the end of the run (`exit` or an error) in rule `r` is the end of the run: the remaining
    rules `post` — whatever they are — do not run -/
theorem rules_over (pre post : List Rule) (r : Rule) (s s1 s2 : St) (o : Outcome)
    (hpre : each pre (ruleSpec P) s = .fine () s1) (hr : ruleSpec P r s1 = .over o s2) :
    runRulesSpec P (pre ++ r :: post) s = .over o s2 :=
  uptoNext_over (each_over pre post r _ s s1 s2 o hpre hr)

/-! ### the elements of a root -/

theorem elementSpec_def (rules : List Rule) (cell : CellId) (i : Nat) :
    elementSpec P rules (cell, i) =
      (P.setDollar cell >>= fun _ => P.setIndex i >>= fun _ => runRulesSpec P rules) := rfl

theorem elementsSpec_array (rules : List Rule) (root : CellId) (cells : List CellId) (s s0 : St)
    (he : P.elements root s = .fine (some cells) s0) :
    elementsSpec P rules root s = each cells.zipIdx (elementSpec P rules) s0 := by
  unfold elementsSpec
  rw [bind_fine he]

theorem elementsSpec_other (rules : List Rule) (root : CellId) (s s0 : St)
    (he : P.elements root s = .fine none s0) :
    elementsSpec P rules root s = (P.setDollar root >>= fun _ => runRulesSpec P rules) s0 := by
  unfold elementsSpec
  rw [bind_fine he]

/-- `next` while the rules run on one element ends the rules FOR THAT ELEMENT ONLY: the pass
    over the elements goes on with the next element — for which ALL the rules run again -/
theorem next_local_to_element (rules pre post : List Rule) (r : Rule) (hrules : rules = pre ++ r :: post)
    (cell : CellId) (i : Nat) (more : List (CellId × Nat)) (s sa sb s1 s2 : St)
    (hd : P.setDollar cell s = .fine () sa) (hi : P.setIndex i sa = .fine () sb)
    (hpre : each pre (ruleSpec P) sb = .fine () s1) (hr : ruleSpec P r s1 = .next s2) :
    each ((cell, i) :: more) (elementSpec P rules) s = each more (elementSpec P rules) s2 := by
  apply each_fine_step
  rw [elementSpec_def, bind_fine hd, bind_fine hi, hrules]
  exact rules_next P pre post r sb s1 s2 hpre hr

/-- the end of the run while the rules run on element `k` ends the pass: the later elements
    (`post`, arbitrary) are not visited -/
theorem elements_over (rules : List Rule) (root : CellId) (cells : List CellId)
    (pre post : List (CellId × Nat)) (ci : CellId × Nat) (hcells : cells.zipIdx = pre ++ ci :: post)
    (s s0 s1 s2 : St) (o : Outcome)
    (he : P.elements root s = .fine (some cells) s0)
    (hpre : each pre (elementSpec P rules) s0 = .fine () s1)
    (hx : elementSpec P rules ci s1 = .over o s2) :
    elementsSpec P rules root s = .over o s2 := by
  rw [elementsSpec_array P rules root cells s s0 he, hcells]
  exact each_over pre post ci _ s0 s1 s2 o hpre hx

/-! ### one root: BEGINFILE rules, pattern rules, ENDFILE rules -/

theorem rootSpec_def (root : CellId) :
    rootSpec P R root = (P.read root >>= fun selected =>
      specialSpec P (pure root) R.beginFile >>= fun _ =>
      P.setRoot root >>= fun _ =>
      elementsSpec P R.pattern root >>= fun _ =>
      specialSpec P (P.fresh selected) R.endFile) := rfl

/-- the end of the run in a BEGINFILE rule: neither the pattern rules nor the ENDFILE rules run -/
theorem root_over_beginFile (root : CellId) (s s0 s1 : St) (v : Val) (o : Outcome)
    (hv : P.read root s = .fine v s0)
    (hb : specialSpec P (pure root) R.beginFile s0 = .over o s1) :
    rootSpec P R root s = .over o s1 := by
  rw [rootSpec_def, bind_fine hv, bind_over _ hb]

/-- the end of the run in a pattern rule: the ENDFILE rules do not run -/
theorem root_over_pattern (root : CellId) (s s0 s1 s2 s3 : St) (v : Val) (o : Outcome)
    (hv : P.read root s = .fine v s0)
    (hb : specialSpec P (pure root) R.beginFile s0 = .fine () s1)
    (hr : P.setRoot root s1 = .fine () s2)
    (hp : elementsSpec P R.pattern root s2 = .over o s3) :
    rootSpec P R root s = .over o s3 := by
  rw [rootSpec_def, bind_fine hv, bind_fine hb, bind_fine hr, bind_over _ hp]

/-- otherwise the three groups run in this order, each from the state the previous one left -/
theorem root_in_order (root : CellId) (s s0 s1 s2 s3 : St) (v : Val)
    (hv : P.read root s = .fine v s0)
    (hb : specialSpec P (pure root) R.beginFile s0 = .fine () s1)
    (hr : P.setRoot root s1 = .fine () s2)
    (hp : elementsSpec P R.pattern root s2 = .fine () s3) :
    rootSpec P R root s = specialSpec P (P.fresh v) R.endFile s3 := by
  rw [rootSpec_def, bind_fine hv, bind_fine hb, bind_fine hr, bind_fine hp]

/-- special rules: the end of the run in rule `r` skips the later rules of the group -/
theorem special_over (dollar : Run CellId) (pre post : List Rule) (r : Rule) (s s1 s2 : St)
    (o : Outcome) (hpre : specialSpec P dollar pre s = .fine () s1)
    (hr : specialRuleSpec P dollar r s1 = .over o s2) :
    specialSpec P dollar (pre ++ r :: post) s = .over o s2 :=
  each_over pre post r _ s s1 s2 o hpre hr

/-- special rules: `next` just finishes the rule, the later rules of the group run -/
theorem special_next (dollar : Run CellId) (r : Rule) (rest : List Rule) (s s0 s1 s2 : St)
    (c : CellId) (hd : dollar s = .fine c s0) (hs : P.setDollar c s0 = .fine () s1)
    (hb : P.exec r.body s1 = .next s2) :
    specialSpec P dollar (r :: rest) s = specialSpec P dollar rest s2 := by
  apply each_fine_step
  show (dollar >>= fun c => P.setDollar c >>= fun _ => uptoNext () (P.exec r.body)) s = _
  rw [bind_fine hd, bind_fine hs]
  exact uptoNext_next hb

/-! ### the roots of a value: in selector order -/

/-- `SelectsTo v sels s roots s'`: evaluating the selectors in the order given, from `s`, yields
    the roots `roots` — one per selector, in selector order, none for a selector that executed
    `next` — and leaves `s'` -/
inductive SelectsTo (v : JVal) : List Bytes → St → List CellId → St → Prop
  | nil (s : St) : SelectsTo v [] s [] s
  | root {sel : Bytes} {rest : List Bytes} {s s1 s2 : St} {c : CellId} {cs : List CellId} :
      P.select sel v s = .fine c s1 → SelectsTo v rest s1 cs s2 →
      SelectsTo v (sel :: rest) s (c :: cs) s2
  | skip {sel : Bytes} {rest : List Bytes} {s s1 s2 : St} {cs : List CellId} :
      P.select sel v s = .next s1 → SelectsTo v rest s1 cs s2 →
      SelectsTo v (sel :: rest) s cs s2

theorem selectAll_cons (v : JVal) (sel : Bytes) (rest : List Bytes) :
    selectAll P v (sel :: rest) = (do
      let root? ← uptoNext none (do let c ← P.select sel v; pure (some c))
      let roots ← selectAll P v rest
      pure (match root? with
        | some c => c :: roots
        | none => roots)) := rfl

/-- the roots of a value are selected in the order of the selectors -/
theorem selectAll_fine_iff (v : JVal) (sels : List Bytes) (s s' : St) (roots : List CellId) :
    selectAll P v sels s = .fine roots s' ↔ SelectsTo P v sels s roots s' := by
  induction sels generalizing s roots with
  | nil =>
    constructor
    · intro h
      cases h
      exact .nil _
    · intro h
      cases h
      rfl
  | cons sel rest ih =>
    rw [selectAll_cons]
    simp only [bind_def, uptoNext]
    constructor
    · intro h
      cases hs : P.select sel v s with
      | fine c s1 =>
        rw [hs] at h
        simp only [pure_def] at h
        cases hr : selectAll P v rest s1 with
        | fine cs s2 =>
          rw [hr] at h
          simp only [pure_def, Ended.fine.injEq] at h
          obtain ⟨rfl, rfl⟩ := h
          exact .root hs ((ih s1 cs).mp hr)
        | next s2 => rw [hr] at h; cases h
        | over o s2 => rw [hr] at h; cases h
        | oof => rw [hr] at h; cases h
      | next s1 =>
        rw [hs] at h
        simp only at h
        cases hr : selectAll P v rest s1 with
        | fine cs s2 =>
          rw [hr] at h
          simp only [pure_def, Ended.fine.injEq] at h
          obtain ⟨rfl, rfl⟩ := h
          exact .skip hs ((ih s1 cs).mp hr)
        | next s2 => rw [hr] at h; cases h
        | over o s2 => rw [hr] at h; cases h
        | oof => rw [hr] at h; cases h
      | over o s1 => rw [hs] at h; cases h
      | oof => rw [hs] at h; cases h
    · intro h
      cases h with
      | root hs hrest =>
        rw [hs]
        simp only [pure_def]
        rw [(ih _ _).mpr hrest]
      | skip hs hrest =>
        rw [hs]
        simp only
        rw [(ih _ _).mpr hrest]
        rfl

/-- the end of the run in a selector: no root of this value is processed, no rule runs -/
theorem selectAll_over (v : JVal) (pre post : List Bytes) (sel : Bytes) (s s1 s2 : St)
    (roots : List CellId) (o : Outcome)
    (hpre : SelectsTo P v pre s roots s1) (hsel : P.select sel v s1 = .over o s2) :
    selectAll P v (pre ++ sel :: post) s = .over o s2 := by
  induction hpre with
  | nil s =>
    show selectAll P v (sel :: post) s = _
    rw [selectAll_cons]
    simp only [bind_def, uptoNext, hsel]
  | root hs _ ih =>
    rw [List.cons_append, selectAll_cons]
    simp only [bind_def, uptoNext, hs, pure_def, ih hsel]
  | skip hs _ ih =>
    rw [List.cons_append, selectAll_cons]
    simp only [bind_def, uptoNext, hs, ih hsel]

/-! ### one value, one file, the run -/

theorem valueSpec_def' (sels : List Bytes) (file : InputFile) (v : JVal) :
    valueSpec P R sels file v = (P.setFile file.name >>= fun _ => rootsSpec P sels v >>= fun roots =>
      each roots (rootSpec P R)) := rfl

/-- the end of the run while root `k` of a value is processed: the later roots of the value
    (`post`, arbitrary) are not processed -/
theorem value_over (sels : List Bytes) (file : InputFile) (v : JVal) (pre post : List CellId)
    (root : CellId) (s s0 s1 s2 s3 : St) (o : Outcome)
    (hf : P.setFile file.name s = .fine () s0)
    (hroots : rootsSpec P sels v s0 = .fine (pre ++ root :: post) s1)
    (hpre : each pre (rootSpec P R) s1 = .fine () s2)
    (hx : rootSpec P R root s2 = .over o s3) :
    valueSpec P R sels file v s = .over o s3 := by
  rw [valueSpec_def', bind_fine hf, bind_fine hroots]
  exact each_over pre post root _ s1 s2 s3 o hpre hx

theorem fileSpec_def (sels : List Bytes) (file : InputFile) :
    fileSpec P R sels file = (each (P.values file).1 (valueSpec P R sels file) >>= fun _ =>
      if (P.values file).2 then pure () else endRun (.jsonErr file.name)) := by
  rw [fileSpec_eq]; rfl

/-- the end of the run while value `k` of a file is processed: the later values of the file
    (`post`, arbitrary) are not processed, and a later fault in the stream is not reported -/
theorem file_over (sels : List Bytes) (file : InputFile) (pre post : List JVal) (v : JVal)
    (clean : Bool) (hvals : P.values file = (pre ++ v :: post, clean)) (s s1 s2 : St) (o : Outcome)
    (hpre : each pre (valueSpec P R sels file) s = .fine () s1)
    (hx : valueSpec P R sels file v s1 = .over o s2) :
    fileSpec P R sels file s = .over o s2 := by
  rw [fileSpec_def, hvals]
  exact bind_over _ (each_over pre post v _ s s1 s2 o hpre hx)

/-- a fault in the stream is reported as a JSON error naming the file AFTER the values before
    it have been processed -/
theorem file_fault (sels : List Bytes) (file : InputFile) (vals : List JVal)
    (hvals : P.values file = (vals, false)) (s s1 : St)
    (hv : each vals (valueSpec P R sels file) s = .fine () s1) :
    fileSpec P R sels file s = .over (.jsonErr file.name) s1 := by
  rw [fileSpec_def, hvals, bind_fine hv]
  rfl

theorem scheduleSpec_def (sels : List Bytes) (files : List InputFile) :
    scheduleSpec P R sels files = (specialSpec P (P.fresh (.nil none)) R.begin_ >>= fun _ =>
      each files (fileSpec P R sels) >>= fun _ => specialSpec P (P.fresh (.nil none)) R.end_) := rfl

/-- the end of the run in a BEGIN rule: no input is read, the END rules do not run -/
theorem schedule_over_begin (sels : List Bytes) (files : List InputFile) (s s1 : St) (o : Outcome)
    (hb : specialSpec P (P.fresh (.nil none)) R.begin_ s = .over o s1) :
    scheduleSpec P R sels files s = .over o s1 := by
  rw [scheduleSpec_def, bind_over _ hb]

/-- the end of the run while file `k` is processed: the later files (`post`, arbitrary) are not
    read and the END rules do not run -/
theorem schedule_over_input (sels : List Bytes) (pre post : List InputFile) (f : InputFile)
    (s s1 s2 s3 : St) (o : Outcome)
    (hb : specialSpec P (P.fresh (.nil none)) R.begin_ s = .fine () s1)
    (hpre : each pre (fileSpec P R sels) s1 = .fine () s2)
    (hx : fileSpec P R sels f s2 = .over o s3) :
    scheduleSpec P R sels (pre ++ f :: post) s = .over o s3 := by
  rw [scheduleSpec_def, bind_fine hb, bind_over _ (each_over pre post f _ s1 s2 s3 o hpre hx)]

/-- otherwise the END rules run last, from the state all the input left -/
theorem schedule_end_last (sels : List Bytes) (files : List InputFile) (s s1 s2 : St)
    (hb : specialSpec P (P.fresh (.nil none)) R.begin_ s = .fine () s1)
    (hin : each files (fileSpec P R sels) s1 = .fine () s2) :
    scheduleSpec P R sels files s = specialSpec P (P.fresh (.nil none)) R.end_ s2 := by
  rw [scheduleSpec_def, bind_fine hb, bind_fine hin]

/-! ### reading the result of the model off the schedule -/

variable (prog : Program) (src : Bytes) (tbl : RuleTable)

theorem eq_of_agree {a b : RunResult} (h : Agree a b) (hb : b.outcome ≠ .oof) : a = b := by
  rcases h with h | h
  · exact h
  · exact absurd h.2 hb

/-- if the schedule of the model ends the run with outcome `o` in state `s'` — `exit`
    (`o = .ok`) or an error —, the run reports `o` and ends in `s'`: its output is exactly what
    had been written when that happened -/
theorem runProgram_of_over (sels : List Bytes) (files : List InputFile) (o : Outcome) (s' : St)
    (ho : o ≠ .oof)
    (h : scheduleSpec (modelPrims prog src tbl) (rulesByKind prog) sels files
          (newEvaluator prog Heap.empty [] 0) = .over o s') :
    runProgram prog src tbl sels files = finishRun o s' := by
  have ha := runProgram_agrees prog src tbl sels files
  unfold runSpec at ha
  rw [h] at ha
  exact eq_of_agree ha ho

theorem runProgram_of_fine (sels : List Bytes) (files : List InputFile) (s' : St)
    (h : scheduleSpec (modelPrims prog src tbl) (rulesByKind prog) sels files
          (newEvaluator prog Heap.empty [] 0) = .fine () s') :
    runProgram prog src tbl sels files = finishRun .ok s' := by
  have ha := runProgram_agrees prog src tbl sels files
  unfold runSpec at ha
  rw [h] at ha
  exact eq_of_agree ha (by intro h'; cases h')

/-! ### what `$`, `$index` and `$file` are bound to (model primitives) -/

/-- after the bindings for element `cell` at position `i`: `$` denotes the element's own cell
    and the name `$index` resolves to a cell holding the number `i` -/
theorem element_bindings (cell : CellId) (i : Nat) (s : St) (f : Frame) (fs : List Frame)
    (hf : s.frames = f :: fs) :
    ∃ s', ((modelPrims prog src tbl).setDollar cell >>= fun _ =>
            (modelPrims prog src tbl).setIndex i) s = .fine () s' ∧
      s'.ruleRoot = some cell ∧
      ∃ ic, lookupFrames s'.frames b!"$index" = some ic ∧ s'.heap.get ic = .num (F64.ofNat i) := by
  refine ⟨{ s with ruleRoot := some cell,
                    heap := (s.heap.alloc (.num (F64.ofNat i))).2,
                    frames := Frame.mk f.name (objInsert f.locals (b!"$index")
                                  (s.heap.alloc (.num (F64.ofNat i))).1) :: fs }, ?_, ?_⟩
  · simp only [bind_def, modelPrims, lift_def]
    simp only [modifySt, bind, EM.bind, newCell, setLocal, hf]
  · refine ⟨rfl, s.heap.cells.size, ?_, ?_⟩
    · simp [lookupFrames, objLookup_objInsert, Heap.alloc]
    · exact Heap.get_push_new _ _

/-- after `$file` is bound for a value of the file `name`: with a single (root) frame, the name
    `$file` resolves to a cell holding the string `name` -/
theorem file_binding (name : Bytes) (s : St) (f : Frame) (hf : s.frames = [f]) :
    ∃ s', (modelPrims prog src tbl).setFile name s = .fine () s' ∧
      ∃ c, lookupFrames s'.frames b!"$file" = some c ∧ s'.heap.get c = .str name none := by
  refine ⟨_, lift_ok src (setFile_model name s), s.heap.cells.size, ?_, ?_⟩
  · simp [hf, setLastFrame, lookupFrames, objLookup_objInsert, Heap.alloc]
  · exact Heap.get_push_new _ _

/-! ### `next` does not escape -/

theorem liftFlow_no_next {m : EM Flow} (h : NoSig .next m) (s s' : St) :
    liftFlow src m s ≠ .next s' := by
  rw [liftFlow_def, lift_def]
  cases hm : m s with
  | ok fl s1 => cases fl <;> simp
  | err e s1 =>
    cases e with
    | sig g =>
      cases g with
      | next => exact absurd hm (h s s1)
      | _ => simp
    | _ => simp
  | oof => simp

theorem ofStep_no_next (r : StepRes) (s' : St) : ofStep r ≠ .next s' := by
  cases r with
  | done s => simp [ofStep]
  | finished o s => cases o <;> simp [ofStep]

/-- `next` never reaches the top of the schedule of the model: the `next` line of `report` is dead -/
theorem schedule_never_next (sels : List Bytes) (files : List InputFile) (s s' : St) :
    scheduleSpec (modelPrims prog src tbl) (rulesByKind prog) sels files s ≠ .next s' := by
  have hfresh : (modelPrims prog src tbl).fresh (.nil none) = lift src (newCell (.nil none)) := rfl
  have hsp : ∀ rules s s', specialSpec (modelPrims prog src tbl)
      ((modelPrims prog src tbl).fresh (.nil none)) rules s ≠ .next s' := by
    intro rules s s'
    rw [hfresh, ← evalSpecialRules_eq_spec]
    exact liftFlow_no_next src (evalSpecialRules_no_sig prog .next (Or.inl rfl) _ (NoSig.newCell _ _) _) s s'
  rw [scheduleSpec_def]
  simp only [bind_def]
  cases hb : specialSpec (modelPrims prog src tbl) ((modelPrims prog src tbl).fresh (.nil none))
      (rulesByKind prog).begin_ s with
  | fine u s1 =>
    simp only
    rw [← processFiles_eq_spec]
    cases hf : ofStep (processFiles prog src tbl sels files s1) with
    | fine u s2 => exact hsp _ _ _
    | next s2 => exact absurd hf (ofStep_no_next _ _)
    | over o s2 => simp
    | oof => simp
  | next s1 => exact absurd hb (hsp _ _ _)
  | over o s1 => simp
  | oof => simp

end Jqawk.Sched
