import Jqawk.Lemmas.JsonBytesStr
import Jqawk.Lemmas.JsonPrefix
/-!
  Byte-level round trip of whole JSON trees: the output of `Json.marshalIndent` in forward
  (not reversed-accumulator) form, and the run of the decoder's state machine over it.
-/
namespace Jqawk.JsonBytes
open Jqawk Jqawk.Json

/-! ### the writer in forward form -/

/-- indent.go `appendNewline`: a newline and two spaces per level -/
def nlF : Nat → Bytes
  | 0 => [0x0A]
  | d + 1 => nlF d ++ [0x20, 0x20]

theorem newline_eq (d : Nat) (acc : Bytes) : newline d acc = (nlF d).reverse ++ acc := by
  induction d with
  | zero => rfl
  | succ d ih => simp [newline, nlF, ih]

/-- Go `m[k] = v` for every member in turn: key-sorted, last duplicate wins
    (what `mapEncoder` writes, and what the decoder builds) -/
def canonMembers {α : Type} (ms : List (Bytes × α)) : List (Bytes × α) :=
  ms.foldl (fun acc kv => insertMember kv.1 kv.2 acc) []

/-- the members of an object, `"key": value` lines -/
def joinF (d : Nat) : List (Bytes × Bytes) → Bool → Bytes
  | [], _ => []
  | (k, v) :: ms, first =>
    (if first then [] else [0x2C]) ++ nlF d ++ (0x22 :: quoteBody k ++ [0x22]) ++ [0x3A, 0x20] ++ v ++ joinF d ms false

theorem joinMembers_eq (d : Nat) : ∀ (ms : List (Bytes × Bytes)) (first : Bool) (acc : Bytes),
    joinMembers d ms first acc = (joinF d (ms.map fun kv => (kv.1, kv.2.reverse)) first).reverse ++ acc := by
  intro ms
  induction ms with
  | nil => intro first acc; simp [joinMembers, joinF]
  | cons kv ms ih =>
    intro first acc
    obtain ⟨k, v⟩ := kv
    simp only [joinMembers, List.map_cons, joinF]
    rw [ih, encString_eq, newline_eq]
    cases first <;> simp

mutual
/-- `marshalIndent` at depth `d`, forward -/
def outF (d : Nat) : JVal → Bytes
  | .null => [0x6E, 0x75, 0x6C, 0x6C]
  | .bool true => [0x74, 0x72, 0x75, 0x65]
  | .bool false => [0x66, 0x61, 0x6C, 0x73, 0x65]
  | .num lit => lit
  | .str s => 0x22 :: quoteBody s ++ [0x22]
  | .arr [] => [0x5B, 0x5D]
  | .arr (x :: xs) => 0x5B :: itemsF (d + 1) (x :: xs) true ++ nlF d ++ [0x5D]
  | .obj ms =>
    match canonMembers (membersF (d + 1) ms) with
    | [] => [0x7B, 0x7D]
    | ms' => 0x7B :: joinF (d + 1) ms' true ++ nlF d ++ [0x7D]
def itemsF (d : Nat) : List JVal → Bool → Bytes
  | [], _ => []
  | x :: xs, first => (if first then [] else [0x2C]) ++ nlF d ++ outF d x ++ itemsF d xs false
def membersF (d : Nat) : List (Bytes × JVal) → List (Bytes × Bytes)
  | [] => []
  | (k, v) :: ms => (k, outF d v) :: membersF d ms
end

theorem membersF_eq (d : Nat) (ms : List (Bytes × JVal)) :
    membersF d ms = ms.map fun kv => (kv.1, outF d kv.2) := by
  induction ms with
  | nil => rfl
  | cons kv ms ih => obtain ⟨k, v⟩ := kv; simp [membersF, ih]

theorem insertMember_map {α β : Type} (g : α → β) (k : Bytes) (v : α) (l : List (Bytes × α)) :
    insertMember k (g v) (l.map fun kv => (kv.1, g kv.2)) = (insertMember k v l).map fun kv => (kv.1, g kv.2) := by
  induction l with
  | nil => rfl
  | cons x xs ih =>
    obtain ⟨k', v'⟩ := x
    simp only [List.map_cons, insertMember]
    split <;> simp [ih]

theorem foldl_insert_map {α β : Type} (g : α → β) (ms sorted : List (Bytes × α)) :
    (ms.map fun kv => (kv.1, g kv.2)).foldl (fun acc kv => insertMember kv.1 kv.2 acc)
        (sorted.map fun kv => (kv.1, g kv.2))
      = (ms.foldl (fun acc kv => insertMember kv.1 kv.2 acc) sorted).map fun kv => (kv.1, g kv.2) := by
  induction ms generalizing sorted with
  | nil => rfl
  | cons x xs ih =>
    simp only [List.map_cons, List.foldl_cons]
    rw [insertMember_map, ih]

/-- mapping the member values commutes with building the map -/
theorem canonMembers_map {α β : Type} (g : α → β) (ms : List (Bytes × α)) :
    canonMembers (ms.map fun kv => (kv.1, g kv.2)) = (canonMembers ms).map fun kv => (kv.1, g kv.2) := by
  simpa [canonMembers] using foldl_insert_map g ms []

mutual
theorem encVal_eq (d : Nat) : ∀ (j : JVal) (acc : Bytes), encVal d j acc = (outF d j).reverse ++ acc
  | .null, acc => by simp [encVal, outF]
  | .bool true, acc => by simp [encVal, outF]
  | .bool false, acc => by simp [encVal, outF]
  | .num lit, acc => by simp [encVal, outF]
  | .str s, acc => by simp [encVal, outF, encString_eq]
  | .arr [], acc => by simp [encVal, outF]
  | .arr (x :: xs), acc => by
    rw [encVal, outF, newline_eq, encItems_eq (d + 1) (x :: xs) true]
    simp
  | .obj ms, acc => by
    rw [encVal, outF]
    have h := encMembers_eq (d + 1) ms []
    simp only [List.map_nil] at h
    rw [h]
    change (match List.map (fun kv : Bytes × Bytes => (kv.1, kv.2.reverse)) (canonMembers (membersF (d + 1) ms)) with
      | [] => _ | ms' => _) = _
    cases hL : canonMembers (membersF (d + 1) ms) with
    | nil => simp
    | cons kv L =>
      have hmm : ∀ l : List (Bytes × Bytes),
          (l.map fun kv => (kv.1, kv.2.reverse)).map (fun kv => (kv.1, kv.2.reverse)) = l := by
        intro l; induction l <;> simp_all
      have := joinMembers_eq (d + 1) ((kv :: L).map fun kv => (kv.1, kv.2.reverse)) true (0x7B :: acc)
      rw [hmm] at this
      simp only [List.map_cons] at this ⊢
      rw [newline_eq, this]
      simp
theorem encItems_eq (d : Nat) : ∀ (xs : List JVal) (first : Bool) (acc : Bytes),
    encItems d xs first acc = (itemsF d xs first).reverse ++ acc
  | [], first, acc => by simp [encItems, itemsF]
  | x :: xs, first, acc => by
    rw [encItems, encItems_eq d xs false, encVal_eq d x, newline_eq, itemsF]
    cases first <;> simp
theorem encMembers_eq (d : Nat) : ∀ (ms : List (Bytes × JVal)) (sorted : List (Bytes × Bytes)),
    encMembers d ms (sorted.map fun kv => (kv.1, kv.2.reverse))
      = ((membersF d ms).foldl (fun acc kv => insertMember kv.1 kv.2 acc) sorted).map fun kv => (kv.1, kv.2.reverse)
  | [], sorted => by simp [encMembers, membersF]
  | (k, v) :: ms, sorted => by
    rw [encMembers, membersF, List.foldl_cons, encVal_eq d v, List.append_nil,
      insertMember_map (fun b : Bytes => b.reverse), encMembers_eq d ms]
end

theorem marshalIndent_eq (j : JVal) : marshalIndent j = outF 0 j := by
  simp [marshalIndent, encVal_eq]

/-! ### the decoder over the writer's output -/

/-- where `deliver` stores a finished value when the parse stack is not empty -/
def deliverStk : List Frame → JVal → List Frame
  | [], _ => []
  | .arr acc :: fs, v => .arr (v :: acc) :: fs
  | .obj ms _ false :: fs, v => .obj ms (match v with | .str k => k | _ => []) false :: fs
  | .obj ms k true :: fs, v => .obj (insertMember k v ms) [] true :: fs

theorem deliver_eq (st : Step) (fr : Frame) (fs : List Frame) (dp : Nat) (lit : Bytes) (bad : Bool) (v : JVal) :
    deliver ⟨st, fr :: fs, dp, lit, bad⟩ v = ⟨.endValue, deliverStk (fr :: fs) v, dp, lit, bad⟩ := by
  rcases fr with acc | ⟨ms, k, b⟩
  · rfl
  · cases b <;> rfl

/-- the scanner states in which white space is skipped -/
def SkipsWs (st : Step) : Prop :=
  st = .beginValue ∨ st = .beginValueOrEmpty ∨ st = .beginString ∨ st = .beginStringOrEmpty ∨ st = .endValue

/-- WHITE SPACE between tokens is skipped: the state does not change -/
theorem steps_ws (f : Bytes → Bool) (st : Step) (h : SkipsWs st) (stk : List Frame) (dp : Nat)
    (lit : Bytes) (bad : Bool) : ∀ ws : Bytes, (∀ x ∈ ws, isSpace x = true) →
    steps f ⟨st, stk, dp, lit, bad⟩ ws = some ⟨st, stk, dp, lit, bad⟩ := by
  intro ws
  induction ws with
  | nil => intro _; rfl
  | cons x xs ih =>
    intro hx
    have h1 : isSpace x = true := hx x (by simp)
    have h2 := ih fun y hy => hx y (by simp [hy])
    rcases h with rfl | rfl | rfl | rfl | rfl <;>
      simp [steps, step, beginValue, beginString, endValue, h1, h2]

theorem nlF_space (d : Nat) : ∀ x ∈ nlF d, isSpace x = true := by
  induction d with
  | zero => intro x hx; simp [nlF] at hx; subst hx; decide
  | succ d ih =>
    intro x hx
    simp only [nlF, List.mem_append, List.mem_cons, List.not_mem_nil, or_false] at hx
    rcases hx with hx | rfl | rfl
    · exact ih x hx
    · decide
    · decide

theorem run_ws (f : Bytes → Bool) (t : Tail) (st : Step) (h : SkipsWs st) (stk : List Frame) (dp : Nat)
    (lit : Bytes) (bad : Bool) (ws rest : Bytes) (hws : ∀ x ∈ ws, isSpace x = true) :
    run f ⟨st, stk, dp, lit, bad⟩ (ws ++ rest) t = run f ⟨st, stk, dp, lit, bad⟩ rest t :=
  run_steps f t ws rest _ _ (steps_ws f st h stk dp lit bad ws hws)

/-- `bs` is read as the value `v` wherever a value may stand inside an array or object: from a
    state expecting a value, with any enclosing frames, followed by `,` or a newline; `n` = how many
    further nesting levels the bytes open -/
def Reads (f : Bytes → Bool) (bs : Bytes) (v : JVal) (n : Nat) : Prop :=
  ∀ (t : Tail) (st : Step), (st = .beginValue ∨ st = .beginValueOrEmpty) →
    ∀ (fr : Frame) (fs : List Frame) (dp : Nat) (lit : Bytes) (bad : Bool) (c : UInt8) (cs : Bytes),
      dp + n ≤ maxNestingDepth → (c = 0x2C ∨ c = 0x0A) →
      ∃ lit', run f ⟨st, fr :: fs, dp, lit, bad⟩ (bs ++ c :: cs) t
        = run f ⟨.endValue, deliverStk (fr :: fs) v, dp, lit', bad⟩ (c :: cs) t

theorem reads_null (f : Bytes → Bool) : Reads f [0x6E, 0x75, 0x6C, 0x6C] .null 0 := by
  intro t st hst fr fs dp lit bad c cs _ _
  refine ⟨lit, ?_⟩
  rcases hst with rfl | rfl <;> simp [run, step, beginValue, isSpace, deliver_eq]

theorem reads_true (f : Bytes → Bool) : Reads f [0x74, 0x72, 0x75, 0x65] (.bool true) 0 := by
  intro t st hst fr fs dp lit bad c cs _ _
  refine ⟨lit, ?_⟩
  rcases hst with rfl | rfl <;> simp [run, step, beginValue, isSpace, deliver_eq]

theorem reads_false (f : Bytes → Bool) : Reads f [0x66, 0x61, 0x6C, 0x73, 0x65] (.bool false) 0 := by
  intro t st hst fr fs dp lit bad c cs _ _
  refine ⟨lit, ?_⟩
  rcases hst with rfl | rfl <;> simp [run, step, beginValue, isSpace, deliver_eq]

theorem reads_str (f : Bytes → Bool) (s : Bytes) :
    Reads f (0x22 :: quoteBody s ++ [0x22]) (.str (sanitize s)) 0 := by
  intro t st hst fr fs dp lit bad c cs _ _
  refine ⟨[], ?_⟩
  have h1 : run f ⟨st, fr :: fs, dp, lit, bad⟩ ((0x22 :: quoteBody s ++ [0x22]) ++ c :: cs) t
      = run f ⟨.inString, fr :: fs, dp, [], bad⟩ (quoteBody s ++ 0x22 :: c :: cs) t := by
    rcases hst with rfl | rfl <;> simp [run, step, beginValue, isSpace]
  rw [h1, run_steps f t _ _ _ _ (scanOK_quoteBody s f (fr :: fs) dp [] bad)]
  simp [run, step, deliver_eq, unquote_quoteBody]

/-! ### number literals: from "read back as a whole document" to "read back anywhere" -/

/-- the scanner's number states -/
def isNum : Step → Bool
  | .neg | .s0 | .s1 | .dot | .dot0 | .e | .eSign | .e0 => true
  | _ => false

/-- the states in which a number literal may end -/
def canEnd : Step → Bool
  | .s0 | .s1 | .dot0 | .e0 => true
  | _ => false

/-- the next number state when byte `c` continues the literal -/
def numNext : Step → UInt8 → Option Step
  | .neg, c => if c == 0x30 then some .s0 else if isDigit c then some .s1 else none
  | .s1, c => if isDigit c then some .s1 else if c == 0x2E then some .dot
              else if c == 0x65 || c == 0x45 then some .e else none
  | .s0, c => if c == 0x2E then some .dot else if c == 0x65 || c == 0x45 then some .e else none
  | .dot, c => if isDigit c then some .dot0 else none
  | .dot0, c => if isDigit c then some .dot0 else if c == 0x65 || c == 0x45 then some .e else none
  | .e, c => if c == 0x2B || c == 0x2D then some .eSign else if isDigit c then some .e0 else none
  | .eSign, c => if isDigit c then some .e0 else none
  | .e0, c => if isDigit c then some .e0 else none
  | _, _ => none

theorem numNext_isNum {st st' : Step} {c : UInt8} (h : numNext st c = some st') : isNum st' = true := by
  cases st <;> simp only [numNext] at h <;> (repeat' split at h) <;> first | (cases h; rfl) | cases h

/-- in a number state the scanner's step depends on the stack only when the literal ends -/
theorem step_num (f : Bytes → Bool) (st : Step) (hn : isNum st = true) (stk : List Frame) (dp : Nat)
    (acc : Bytes) (bad : Bool) (c : UInt8) :
    step f ⟨st, stk, dp, acc, bad⟩ c =
      match numNext st c with
      | some st' => .cont ⟨st', stk, dp, c :: acc, bad⟩
      | none => if canEnd st then endNumber f ⟨st, stk, dp, acc, bad⟩ c else .err := by
  cases st <;> simp only [isNum] at hn <;> try contradiction
  all_goals simp only [step, numNext, state0, stateESign, more, canEnd]
  all_goals (repeat' split) <;> simp_all

theorem numNext_delim (st : Step) (c : UInt8) (hc : c = 0x20 ∨ c = 0x2C ∨ c = 0x0A) : numNext st c = none := by
  rcases hc with rfl | rfl | rfl <;> cases st <;> rfl

theorem endNumber_top (f : Bytes → Bool) (st : Step) (acc : Bytes) (c : UInt8) :
    endNumber f ⟨st, [], 0, acc, false⟩ c = .done (.num acc.reverse) (!f acc.reverse) false := by
  simp [endNumber, deliver, afterValue]

theorem endNumber_nested (f : Bytes → Bool) (st : Step) (fr : Frame) (fs : List Frame) (dp : Nat)
    (acc : Bytes) (bad : Bool) (c : UInt8) :
    endNumber f ⟨st, fr :: fs, dp, acc, bad⟩ c
      = step f ⟨.endValue, deliverStk (fr :: fs) (.num acc.reverse), dp, [], bad || !f acc.reverse⟩ c := by
  simp [endNumber, deliver_eq, afterValue, step]

theorem num_transfer (f : Bytes → Bool) : ∀ (bs : Bytes) (st : Step) (acc L : Bytes), isNum st = true →
    run f ⟨st, [], 0, acc, false⟩ bs .eof = .value (.num L) [] →
    L = acc.reverse ++ bs ∧ ∀ (t : Tail) fr fs dp bad c cs, (c = 0x2C ∨ c = 0x0A) →
      run f ⟨st, fr :: fs, dp, acc, bad⟩ (bs ++ c :: cs) t
        = run f ⟨.endValue, deliverStk (fr :: fs) (.num L), dp, [], bad⟩ (c :: cs) t := by
  intro bs
  induction bs with
  | nil =>
    intro st acc L hn h
    simp only [run, step_num f st hn, numNext_delim st 0x20 (Or.inl rfl)] at h
    cases hce : canEnd st with
    | false => simp [hce] at h
    | true =>
      simp only [hce, if_true, endNumber_top] at h
      cases hf : f acc.reverse with
      | false => simp [hf] at h
      | true =>
        simp only [hf, Bool.not_true] at h
        have hL : L = acc.reverse := by injection h with h1 _; injection h1 with h2; exact h2.symm
        subst hL
        refine ⟨by simp, ?_⟩
        intro t fr fs dp bad c cs hc
        have hd : numNext st c = none := numNext_delim st c (Or.inr hc)
        simp only [List.nil_append, run, step_num f st hn, hd, hce, if_true, endNumber_nested, hf,
          Bool.not_true, Bool.or_false]
  | cons b bs ih =>
    intro st acc L hn h
    simp only [run, step_num f st hn] at h
    cases hnx : numNext st b with
    | none =>
      simp only [hnx] at h
      cases hce : canEnd st with
      | false => simp [hce] at h
      | true =>
        simp only [hce, if_true, endNumber_top] at h
        cases hf : f acc.reverse <;> simp [hf] at h
    | some st' =>
      simp only [hnx] at h
      obtain ⟨hL, hrun⟩ := ih st' (b :: acc) L (numNext_isNum hnx) h
      refine ⟨by simpa using hL, ?_⟩
      intro t fr fs dp bad c cs hc
      simp only [List.cons_append, run, step_num f st hn, hnx]
      exact hrun t fr fs dp bad c cs hc

/-- HYPOTHESIS on a number literal, in the model's own terms: it starts like a number (`-` or a
    digit) and the decoder, given exactly this literal as a whole document, reads it back as this
    literal (the scanner accepts all of it and `numOk` = strconv.ParseFloat has no range error). -/
def NumLit (f : Bytes → Bool) (lit : Bytes) : Prop :=
  (lit.head?.any fun c => c == 0x2D || isDigit c) = true ∧ decodeOne f lit .eof = .value (.num lit) []

/-- the state after the first byte of a number literal -/
def firstNum (b : UInt8) : Step := if b == 0x2D then .neg else if b == 0x30 then .s0 else .s1

theorem numHead_facts : ∀ b : UInt8, (b == 0x2D || isDigit b) = true →
    isSpace b = false ∧ (b == 0x7B) = false ∧ (b == 0x5B) = false ∧ (b == 0x22) = false ∧
      (b == 0x5D) = false ∧ (b == 0x74) = false ∧ (b == 0x66) = false ∧ (b == 0x6E) = false ∧
      (b == 0x2D || b == 0x30 || isDigit b) = true := by
  apply forall_u8
  decide +kernel

theorem step_numHead (f : Bytes → Bool) (b : UInt8) (hb : (b == 0x2D || isDigit b) = true) (st : Step)
    (hst : st = .beginValue ∨ st = .beginValueOrEmpty) (stk : List Frame) (dp : Nat) (lit : Bytes) (bad : Bool) :
    step f ⟨st, stk, dp, lit, bad⟩ b = .cont ⟨firstNum b, stk, dp, [b], bad⟩ ∧ isNum (firstNum b) = true := by
  obtain ⟨h1, h2, h3, h4, h5, h6, h7, h8, h9⟩ := numHead_facts b hb
  constructor
  · rcases hst with rfl | rfl <;> simp only [step, beginValue, h1, h2, h3, h4, h5, h6, h7, h8, firstNum] <;>
      by_cases e1 : b = 0x2D <;> by_cases e2 : b = 0x30 <;> simp_all
  · unfold firstNum; split; rfl; split <;> rfl

theorem reads_num (f : Bytes → Bool) (lit : Bytes) (h : NumLit f lit) : Reads f lit (.num lit) 0 := by
  obtain ⟨hhead, hdec⟩ := h
  cases lit with
  | nil => simp at hhead
  | cons b bs =>
    simp only [List.head?_cons, Option.any_some] at hhead
    have hsp := (numHead_facts b hhead).1
    have hdw : (b :: bs).dropWhile isSpace = b :: bs := by simp [List.dropWhile, hsp]
    rw [decodeOne_eq_run (by rw [hdw]; simp), hdw] at hdec
    obtain ⟨h0, hn⟩ := step_numHead f b hhead .beginValue (Or.inl rfl) [] 0 [] false
    simp only [run, St.init, h0] at hdec
    obtain ⟨_, htr⟩ := num_transfer f bs (firstNum b) [b] (b :: bs) hn hdec
    intro t st hst fr fs dp lit bad c cs _ hc
    refine ⟨[], ?_⟩
    obtain ⟨h1, _⟩ := step_numHead f b hhead st hst (fr :: fs) dp lit bad
    simp only [List.cons_append, run, h1]
    exact htr t fr fs dp bad c cs hc

/-! ### trees -/

mutual
/-- nesting depth: scalars 0, a container one more than its deepest child -/
def depth : JVal → Nat
  | .arr xs => depthList xs + 1
  | .obj ms => depthMembers ms + 1
  | _ => 0
def depthList : List JVal → Nat
  | [] => 0
  | x :: xs => max (depth x) (depthList xs)
def depthMembers : List (Bytes × JVal) → Nat
  | [] => 0
  | (_, v) :: ms => max (depth v) (depthMembers ms)
end

theorem depth_le_list {x : JVal} {xs : List JVal} (h : x ∈ xs) : depth x ≤ depthList xs := by
  induction xs with
  | nil => cases h
  | cons y ys ih =>
    simp only [depthList]
    rcases List.mem_cons.1 h with rfl | h
    · exact Nat.le_max_left _ _
    · exact Nat.le_trans (ih h) (Nat.le_max_right _ _)

theorem depth_le_members {kv : Bytes × JVal} {ms : List (Bytes × JVal)} (h : kv ∈ ms) :
    depth kv.2 ≤ depthMembers ms := by
  induction ms with
  | nil => cases h
  | cons y ys ih =>
    obtain ⟨k, v⟩ := y
    simp only [depthMembers]
    rcases List.mem_cons.1 h with rfl | h
    · exact Nat.le_max_left _ _
    · exact Nat.le_trans (ih h) (Nat.le_max_right _ _)

/-- the decoder's `m[key] = value` for the members in the order written, keys as re-read -/
def reinsert (l : List (Bytes × JVal)) : List (Bytes × JVal) :=
  l.foldl (fun acc kv => insertMember (sanitize kv.1) kv.2 acc) []

mutual
/-- What writing and re-reading makes of a tree: strings are coerced to valid UTF-8, the members
    of an object are those of the Go map (`canonMembers`: sorted by key, last duplicate wins)
    inserted again under their re-read keys; everything else is unchanged. -/
def reread : JVal → JVal
  | .null => .null
  | .bool b => .bool b
  | .num l => .num l
  | .str s => .str (sanitize s)
  | .arr xs => .arr (rereadList xs)
  | .obj ms => .obj (reinsert (canonMembers (rereadMembers ms)))
def rereadList : List JVal → List JVal
  | [] => []
  | x :: xs => reread x :: rereadList xs
def rereadMembers : List (Bytes × JVal) → List (Bytes × JVal)
  | [] => []
  | (k, v) :: ms => (k, reread v) :: rereadMembers ms
end

theorem rereadList_eq (xs : List JVal) : rereadList xs = xs.map reread := by
  induction xs with
  | nil => rfl
  | cons x xs ih => simp [rereadList, ih]

theorem rereadMembers_eq (ms : List (Bytes × JVal)) :
    rereadMembers ms = ms.map fun kv => (kv.1, reread kv.2) := by
  induction ms with
  | nil => rfl
  | cons kv ms ih => obtain ⟨k, v⟩ := kv; simp [rereadMembers, ih]

theorem itemsF_head (d : Nat) (xs : List JVal) (cs : Bytes) :
    ∃ c cs', itemsF d xs false ++ 0x0A :: cs = c :: cs' ∧ (c = 0x2C ∨ c = 0x0A) := by
  cases xs with
  | nil => exact ⟨0x0A, cs, by simp [itemsF], Or.inr rfl⟩
  | cons x xs => exact ⟨0x2C, _, by simp only [itemsF]; rfl, Or.inl rfl⟩

theorem reads_items (f : Bytes → Bool) (d : Nat) : ∀ (xs : List JVal),
    (∀ x ∈ xs, Reads f (outF d x) (reread x) (depth x)) →
    ∀ (t : Tail) (acc : List JVal) (fs : List Frame) (dp : Nat) (lit : Bytes) (bad : Bool) (cs : Bytes),
      (∀ x ∈ xs, dp + depth x ≤ maxNestingDepth) →
      ∃ lit', run f ⟨.endValue, .arr acc :: fs, dp, lit, bad⟩ (itemsF d xs false ++ 0x0A :: cs) t
        = run f ⟨.endValue, .arr ((xs.map reread).reverse ++ acc) :: fs, dp, lit', bad⟩ (0x0A :: cs) t := by
  intro xs
  induction xs with
  | nil => intro _ t acc fs dp lit bad cs _; exact ⟨lit, by simp [itemsF]⟩
  | cons x xs ih =>
    intro hx t acc fs dp lit bad cs hdp
    obtain ⟨c, cs', hcs, hc⟩ := itemsF_head d xs cs
    have h1 : run f ⟨.endValue, .arr acc :: fs, dp, lit, bad⟩ (itemsF d (x :: xs) false ++ 0x0A :: cs) t
        = run f ⟨.beginValue, .arr acc :: fs, dp, lit, bad⟩ (outF d x ++ c :: cs') t := by
      simp only [itemsF, if_false, Bool.false_eq_true, List.append_assoc, List.cons_append, List.nil_append, hcs]
      simp only [run, step, endValue]
      simp only [show isSpace 0x2C = false from rfl, Bool.false_eq_true, if_false, beq_self_eq_true, if_true]
      exact run_ws f t .beginValue (Or.inl rfl) _ dp lit bad (nlF d) _ (nlF_space d)
    obtain ⟨lit1, h2⟩ := hx x (by simp) t .beginValue (Or.inl rfl) (.arr acc) fs dp lit bad c cs'
      (hdp x (by simp)) hc
    obtain ⟨lit2, h3⟩ := ih (fun y hy => hx y (by simp [hy])) t (reread x :: acc) fs dp lit1 bad cs
      (fun y hy => hdp y (by simp [hy]))
    refine ⟨lit2, ?_⟩
    rw [h1, h2, ← hcs]
    simp only [deliverStk]
    rw [h3]
    simp

theorem nlF_head (d : Nat) : ∃ sp, nlF d = 0x0A :: sp := by
  induction d with
  | zero => exact ⟨[], rfl⟩
  | succ d ih => obtain ⟨sp, h⟩ := ih; exact ⟨sp ++ [0x20, 0x20], by simp [nlF, h]⟩

/-- the elements of a non-empty array, from just after `[` to just before `]` -/
theorem arr_body (f : Bytes → Bool) (d : Nat) (x : JVal) (xs : List JVal)
    (hx : ∀ y ∈ x :: xs, Reads f (outF (d + 1) y) (reread y) (depth y))
    (t : Tail) (fs : List Frame) (dp : Nat) (lit : Bytes) (bad : Bool) (R : Bytes)
    (hdp : dp + 1 + depthList (x :: xs) ≤ maxNestingDepth) :
    ∃ lit', run f ⟨.beginValueOrEmpty, .arr [] :: fs, dp + 1, lit, bad⟩
          (itemsF (d + 1) (x :: xs) true ++ nlF d ++ 0x5D :: R) t
        = run f ⟨.endValue, .arr ((x :: xs).map reread).reverse :: fs, dp + 1, lit', bad⟩ (0x5D :: R) t := by
  have hd : ∀ y ∈ x :: xs, dp + 1 + depth y ≤ maxNestingDepth := fun y hy => by
    have := depth_le_list hy; omega
  obtain ⟨sp, hsp⟩ := nlF_head d
  obtain ⟨c, cs', hcs, hc⟩ := itemsF_head (d + 1) xs (sp ++ 0x5D :: R)
  obtain ⟨lit1, h1⟩ := hx x (by simp) t .beginValueOrEmpty (Or.inr rfl) (.arr []) fs (dp + 1) lit bad c cs'
    (hd x (by simp)) hc
  obtain ⟨lit2, h2⟩ := reads_items f (d + 1) xs (fun y hy => hx y (by simp [hy])) t [reread x] fs (dp + 1)
    lit1 bad (sp ++ 0x5D :: R) (fun y hy => hd y (by simp [hy]))
  refine ⟨lit2, ?_⟩
  have e : itemsF (d + 1) (x :: xs) true ++ nlF d ++ 0x5D :: R
      = nlF (d + 1) ++ (outF (d + 1) x ++ c :: cs') := by
    rw [← hcs]; simp [itemsF, hsp]
  rw [e, run_ws f t .beginValueOrEmpty (Or.inr (Or.inl rfl)) _ _ lit bad (nlF (d + 1)) _ (nlF_space (d + 1)),
    h1, ← hcs]
  simp only [deliverStk]
  rw [h2]
  have hsp' : ∀ y ∈ (0x0A : UInt8) :: sp, isSpace y = true := by rw [← hsp]; exact nlF_space d
  have := run_ws f t .endValue (Or.inr (Or.inr (Or.inr (Or.inr rfl))))
    (.arr ((xs.map reread).reverse ++ [reread x]) :: fs) (dp + 1) lit2 bad (0x0A :: sp) (0x5D :: R) hsp'
  simp only [List.cons_append] at this
  rw [this]
  simp

theorem reads_arr_nil (f : Bytes → Bool) : Reads f [0x5B, 0x5D] (.arr []) 1 := by
  intro t st hst fr fs dp lit bad c cs hdp _
  refine ⟨lit, ?_⟩
  have : dp + 1 ≤ maxNestingDepth := hdp
  rcases hst with rfl | rfl <;>
    simp [run, step, beginValue, isSpace, push, this, endValue, pop, deliver_eq]

theorem reads_arr (f : Bytes → Bool) (d : Nat) (x : JVal) (xs : List JVal)
    (hx : ∀ y ∈ x :: xs, Reads f (outF (d + 1) y) (reread y) (depth y)) :
    Reads f (outF d (.arr (x :: xs))) (.arr ((x :: xs).map reread)) (depthList (x :: xs) + 1) := by
  intro t st hst fr fs dp lit bad c cs hdp _
  have hdp1 : dp + 1 ≤ maxNestingDepth := by omega
  obtain ⟨lit1, h1⟩ := arr_body f d x xs hx t (fr :: fs) dp lit bad (c :: cs) (by omega)
  refine ⟨lit1, ?_⟩
  have h0 : run f ⟨st, fr :: fs, dp, lit, bad⟩ (outF d (.arr (x :: xs)) ++ c :: cs) t
      = run f ⟨.beginValueOrEmpty, .arr [] :: fr :: fs, dp + 1, lit, bad⟩
          (itemsF (d + 1) (x :: xs) true ++ nlF d ++ 0x5D :: c :: cs) t := by
    rcases hst with rfl | rfl <;>
      simp [outF, run, step, beginValue, isSpace, push, hdp1]
  rw [h0, h1]
  simp [run, step, endValue, isSpace, pop, deliver_eq]

/-- one member `"key": value`, from a state expecting a key (after `{` or after `,`) -/
theorem reads_member (f : Bytes → Bool) (d : Nat) (k : Bytes) (v : JVal)
    (hv : Reads f (outF d v) (reread v) (depth v)) (t : Tail) (st : Step)
    (hst : st = .beginString ∨ st = .beginStringOrEmpty) (acc : List (Bytes × JVal)) (k0 : Bytes)
    (fs : List Frame) (dp : Nat) (lit : Bytes) (bad : Bool) (c : UInt8) (cs : Bytes)
    (hdp : dp + depth v ≤ maxNestingDepth) (hc : c = 0x2C ∨ c = 0x0A) :
    ∃ lit', run f ⟨st, .obj acc k0 false :: fs, dp, lit, bad⟩
          (nlF d ++ (0x22 :: quoteBody k ++ [0x22]) ++ [0x3A, 0x20] ++ outF d v ++ c :: cs) t
        = run f ⟨.endValue, .obj (insertMember (sanitize k) (reread v) acc) [] true :: fs, dp, lit', bad⟩
            (c :: cs) t := by
  obtain ⟨lit1, h1⟩ := hv t .beginValue (Or.inl rfl) (.obj acc (sanitize k) true) fs dp [] bad c cs hdp hc
  refine ⟨lit1, ?_⟩
  simp only [deliverStk] at h1
  rw [← h1]
  have hws : SkipsWs st := by rcases hst with rfl | rfl <;> simp [SkipsWs]
  simp only [List.append_assoc]
  rw [run_ws f t st hws _ _ lit bad (nlF d) _ (nlF_space d)]
  have h0 : run f ⟨st, .obj acc k0 false :: fs, dp, lit, bad⟩
        (0x22 :: quoteBody k ++ ([0x22] ++ ([0x3A, 0x20] ++ (outF d v ++ c :: cs)))) t
      = run f ⟨.inString, .obj acc k0 false :: fs, dp, [], bad⟩
          (quoteBody k ++ ([0x22] ++ ([0x3A, 0x20] ++ (outF d v ++ c :: cs)))) t := by
    rcases hst with rfl | rfl <;> simp [run, step, beginString, isSpace]
  rw [h0, run_steps f t _ _ _ _ (scanOK_quoteBody k f _ dp [] bad)]
  simp only [List.append_nil, List.cons_append, List.nil_append, run, step, List.reverse_reverse,
    unquote_quoteBody, beq_self_eq_true, if_true, deliver, endValue, beginValue]
  simp only [show isSpace 0x3A = false from rfl, show isSpace 0x20 = true from rfl, Bool.false_eq_true,
    if_false, if_true]

/-- the rendered members of a list of (key, value) pairs -/
def rend (d : Nat) (L : List (Bytes × JVal)) : List (Bytes × Bytes) := L.map fun kv => (kv.1, outF d kv.2)

theorem joinF_head (d : Nat) (L : List (Bytes × JVal)) (cs : Bytes) :
    ∃ c cs', joinF d (rend d L) false ++ 0x0A :: cs = c :: cs' ∧ (c = 0x2C ∨ c = 0x0A) := by
  cases L with
  | nil => exact ⟨0x0A, cs, by simp [rend, joinF], Or.inr rfl⟩
  | cons x xs => obtain ⟨k, v⟩ := x; exact ⟨0x2C, _, by simp only [rend, List.map_cons, joinF]; rfl, Or.inl rfl⟩

theorem reads_members (f : Bytes → Bool) (d : Nat) : ∀ (L : List (Bytes × JVal)),
    (∀ kv ∈ L, Reads f (outF d kv.2) (reread kv.2) (depth kv.2)) →
    ∀ (t : Tail) (acc : List (Bytes × JVal)) (fs : List Frame) (dp : Nat) (lit : Bytes) (bad : Bool) (cs : Bytes),
      (∀ kv ∈ L, dp + depth kv.2 ≤ maxNestingDepth) →
      ∃ lit', run f ⟨.endValue, .obj acc [] true :: fs, dp, lit, bad⟩ (joinF d (rend d L) false ++ 0x0A :: cs) t
        = run f ⟨.endValue, .obj (L.foldl (fun a kv => insertMember (sanitize kv.1) (reread kv.2) a) acc) [] true :: fs,
            dp, lit', bad⟩ (0x0A :: cs) t := by
  intro L
  induction L with
  | nil => intro _ t acc fs dp lit bad cs _; exact ⟨lit, by simp [rend, joinF]⟩
  | cons kv L ih =>
    obtain ⟨k, v⟩ := kv
    intro hL t acc fs dp lit bad cs hdp
    obtain ⟨c, cs', hcs, hc⟩ := joinF_head d L cs
    obtain ⟨lit1, h1⟩ := reads_member f d k v (hL (k, v) (by simp)) t .beginString (Or.inl rfl) acc [] fs dp
      lit bad c cs' (hdp (k, v) (by simp)) hc
    obtain ⟨lit2, h2⟩ := ih (fun y hy => hL y (by simp [hy])) t (insertMember (sanitize k) (reread v) acc) fs dp
      lit1 bad cs (fun y hy => hdp y (by simp [hy]))
    refine ⟨lit2, ?_⟩
    have e : joinF d (rend d ((k, v) :: L)) false ++ 0x0A :: cs
        = 0x2C :: (nlF d ++ (0x22 :: quoteBody k ++ [0x22]) ++ [0x3A, 0x20] ++ outF d v ++ c :: cs') := by
      rw [← hcs]; simp [rend, joinF]
    rw [e]
    simp only [run, step, endValue]
    simp only [show isSpace 0x2C = false from rfl, Bool.false_eq_true, if_false, beq_self_eq_true, if_true]
    rw [h1, ← hcs, h2]
    rfl

/-- the members of a non-empty object, from just after `{` to just before `}` -/
theorem obj_body (f : Bytes → Bool) (d : Nat) (kv : Bytes × JVal) (L : List (Bytes × JVal))
    (hL : ∀ y ∈ kv :: L, Reads f (outF (d + 1) y.2) (reread y.2) (depth y.2))
    (t : Tail) (fs : List Frame) (dp : Nat) (lit : Bytes) (bad : Bool) (R : Bytes)
    (hdp : ∀ y ∈ kv :: L, dp + 1 + depth y.2 ≤ maxNestingDepth) :
    ∃ lit', run f ⟨.beginStringOrEmpty, .obj [] [] false :: fs, dp + 1, lit, bad⟩
          (joinF (d + 1) (rend (d + 1) (kv :: L)) true ++ nlF d ++ 0x7D :: R) t
        = run f ⟨.endValue, .obj (reinsert ((kv :: L).map fun y => (y.1, reread y.2))) [] true :: fs, dp + 1, lit', bad⟩
            (0x7D :: R) t := by
  obtain ⟨k, v⟩ := kv
  obtain ⟨sp, hsp⟩ := nlF_head d
  obtain ⟨c, cs', hcs, hc⟩ := joinF_head (d + 1) L (sp ++ 0x7D :: R)
  obtain ⟨lit1, h1⟩ := reads_member f (d + 1) k v (hL (k, v) (by simp)) t .beginStringOrEmpty (Or.inr rfl) [] [] fs
    (dp + 1) lit bad c cs' (hdp (k, v) (by simp)) hc
  obtain ⟨lit2, h2⟩ := reads_members f (d + 1) L (fun y hy => hL y (by simp [hy])) t
    (insertMember (sanitize k) (reread v) []) fs (dp + 1) lit1 bad (sp ++ 0x7D :: R)
    (fun y hy => hdp y (by simp [hy]))
  refine ⟨lit2, ?_⟩
  have e : joinF (d + 1) (rend (d + 1) ((k, v) :: L)) true ++ nlF d ++ 0x7D :: R
      = nlF (d + 1) ++ (0x22 :: quoteBody k ++ [0x22]) ++ [0x3A, 0x20] ++ outF (d + 1) v ++ c :: cs' := by
    rw [← hcs]; simp [rend, joinF, hsp]
  rw [e, h1, ← hcs, h2]
  have hsp' : ∀ y ∈ (0x0A : UInt8) :: sp, isSpace y = true := by rw [← hsp]; exact nlF_space d
  have := run_ws f t .endValue (Or.inr (Or.inr (Or.inr (Or.inr rfl))))
    (.obj (L.foldl (fun a kv => insertMember (sanitize kv.1) (reread kv.2) a)
      (insertMember (sanitize k) (reread v) [])) [] true :: fs) (dp + 1) lit2 bad (0x0A :: sp) (0x7D :: R) hsp'
  simp only [List.cons_append] at this
  rw [this]
  simp [reinsert, List.foldl_map]

theorem reads_obj_nil (f : Bytes → Bool) : Reads f [0x7B, 0x7D] (.obj []) 1 := by
  intro t st hst fr fs dp lit bad c cs hdp _
  refine ⟨lit, ?_⟩
  have : dp + 1 ≤ maxNestingDepth := hdp
  rcases hst with rfl | rfl <;>
    simp [run, step, beginValue, isSpace, push, this, endValue, pop, deliver_eq]

theorem reads_obj (f : Bytes → Bool) (d : Nat) (kv : Bytes × JVal) (L : List (Bytes × JVal)) (n : Nat)
    (hL : ∀ y ∈ kv :: L, Reads f (outF (d + 1) y.2) (reread y.2) (depth y.2))
    (hn : ∀ y ∈ kv :: L, depth y.2 ≤ n) :
    Reads f (0x7B :: joinF (d + 1) (rend (d + 1) (kv :: L)) true ++ nlF d ++ [0x7D])
      (.obj (reinsert ((kv :: L).map fun y => (y.1, reread y.2)))) (n + 1) := by
  intro t st hst fr fs dp lit bad c cs hdp _
  have hdp1 : dp + 1 ≤ maxNestingDepth := by omega
  obtain ⟨lit1, h1⟩ := obj_body f d kv L hL t (fr :: fs) dp lit bad (c :: cs)
    (fun y hy => by have := hn y hy; omega)
  refine ⟨lit1, ?_⟩
  have h0 : run f ⟨st, fr :: fs, dp, lit, bad⟩
        ((0x7B :: joinF (d + 1) (rend (d + 1) (kv :: L)) true ++ nlF d ++ [0x7D]) ++ c :: cs) t
      = run f ⟨.beginStringOrEmpty, .obj [] [] false :: fr :: fs, dp + 1, lit, bad⟩
          (joinF (d + 1) (rend (d + 1) (kv :: L)) true ++ nlF d ++ 0x7D :: c :: cs) t := by
    rcases hst with rfl | rfl <;>
      simp [run, step, beginValue, isSpace, push, hdp1]
  rw [h0, h1]
  simp [run, step, endValue, isSpace, pop, deliver_eq]

theorem mem_insertMember {α : Type} {x : Bytes × α} {k : Bytes} {v : α} {l : List (Bytes × α)}
    (h : x ∈ insertMember k v l) : x = (k, v) ∨ x ∈ l := by
  induction l with
  | nil => simp [insertMember] at h; exact Or.inl h
  | cons y ys ih =>
    obtain ⟨k', v'⟩ := y
    simp only [insertMember] at h
    split at h
    · simp only [List.mem_cons] at h ⊢; exact h
    · simp only [List.mem_cons] at h ⊢
      rcases h with h | h
      · exact Or.inl h
      · exact Or.inr (Or.inr h)
    · simp only [List.mem_cons] at h ⊢
      rcases h with h | h
      · exact Or.inr (Or.inl h)
      · rcases ih h with h | h
        · exact Or.inl h
        · exact Or.inr (Or.inr h)

theorem mem_canonMembers {α : Type} {x : Bytes × α} {ms : List (Bytes × α)} (h : x ∈ canonMembers ms) : x ∈ ms := by
  have : ∀ (ms sorted : List (Bytes × α)), x ∈ ms.foldl (fun acc kv => insertMember kv.1 kv.2 acc) sorted →
      x ∈ sorted ∨ x ∈ ms := by
    intro ms
    induction ms with
    | nil => intro sorted h; exact Or.inl h
    | cons y ys ih =>
      intro sorted h
      rcases ih _ h with h | h
      · rcases mem_insertMember h with h | h
        · exact Or.inr (by simp [h])
        · exact Or.inl h
      · exact Or.inr (by simp [h])
  rcases this ms [] h with h | h
  · cases h
  · exact h

mutual
/-- every number leaf of the tree satisfies `NumLit` -/
def NumsOK (f : Bytes → Bool) : JVal → Prop
  | .num lit => NumLit f lit
  | .arr xs => NumsOKList f xs
  | .obj ms => NumsOKMembers f ms
  | _ => True
def NumsOKList (f : Bytes → Bool) : List JVal → Prop
  | [] => True
  | x :: xs => NumsOK f x ∧ NumsOKList f xs
def NumsOKMembers (f : Bytes → Bool) : List (Bytes × JVal) → Prop
  | [] => True
  | (_, v) :: ms => NumsOK f v ∧ NumsOKMembers f ms
end

mutual
theorem reads_val (f : Bytes → Bool) : ∀ (j : JVal), NumsOK f j → ∀ d, Reads f (outF d j) (reread j) (depth j)
  | .null, _, d => by simpa [outF, reread, depth] using reads_null f
  | .bool true, _, d => by simpa [outF, reread, depth] using reads_true f
  | .bool false, _, d => by simpa [outF, reread, depth] using reads_false f
  | .num lit, h, d => by simpa [outF, reread, depth] using reads_num f lit h
  | .str s, _, d => by simpa [outF, reread, depth] using reads_str f s
  | .arr [], _, d => by simpa [outF, reread, depth, rereadList, depthList] using reads_arr_nil f
  | .arr (x :: xs), h, d => by
    have := reads_arr f d x xs (reads_list f (x :: xs) h (d + 1))
    simpa only [reread, depth, rereadList_eq] using this
  | .obj ms, h, d => by
    have hm := reads_mems f ms h (d + 1)
    have e1 : canonMembers (membersF (d + 1) ms) = rend (d + 1) (canonMembers ms) := by
      rw [membersF_eq, canonMembers_map]; rfl
    have e2 : canonMembers (rereadMembers ms) = (canonMembers ms).map fun y => (y.1, reread y.2) := by
      rw [rereadMembers_eq, canonMembers_map]
    simp only [reread, depth, outF, e1, e2]
    cases hL : canonMembers ms with
    | nil =>
      intro t st hst fr fs dp lit bad c cs hdp hc
      exact reads_obj_nil f t st hst fr fs dp lit bad c cs (by simp only [maxNestingDepth] at *; omega) hc
    | cons kv L =>
      have hsub : ∀ y ∈ kv :: L, y ∈ ms := fun y hy => mem_canonMembers (by rw [hL]; exact hy)
      exact reads_obj f d kv L (depthMembers ms) (fun y hy => hm y (hsub y hy))
        (fun y hy => depth_le_members (hsub y hy))
theorem reads_list (f : Bytes → Bool) : ∀ (xs : List JVal), NumsOKList f xs → ∀ d, ∀ x ∈ xs,
    Reads f (outF d x) (reread x) (depth x)
  | [], _, _ => fun _ hx => by cases hx
  | x :: xs, h, d => fun y hy => by
    rcases List.mem_cons.1 hy with e | hy
    · rw [e]; exact reads_val f x h.1 d
    · exact reads_list f xs h.2 d y hy
theorem reads_mems (f : Bytes → Bool) : ∀ (ms : List (Bytes × JVal)), NumsOKMembers f ms → ∀ d, ∀ kv ∈ ms,
    Reads f (outF d kv.2) (reread kv.2) (depth kv.2)
  | [], _, _ => fun _ hx => by cases hx
  | (k, v) :: ms, h, d => fun y hy => by
    rcases List.mem_cons.1 hy with e | hy
    · rw [e]; exact reads_val f v h.1 d
    · exact reads_mems f ms h.2 d y hy
end

/-! ### whole documents -/

theorem decodeOne_head (f : Bytes → Bool) (b : UInt8) (tl : Bytes) (t : Tail) (hb : isSpace b = false) :
    decodeOne f (b :: tl) t = run f St.init (b :: tl) t := by
  have hdw : (b :: tl).dropWhile isSpace = b :: tl := by simp [List.dropWhile, hb]
  rw [decodeOne_eq_run (by rw [hdw]; simp), hdw]

theorem top_arr (f : Bytes → Bool) (x : JVal) (xs : List JVal) (h : NumsOKList f (x :: xs))
    (hd : depthList (x :: xs) + 1 ≤ maxNestingDepth) (rest : Bytes) (t : Tail) :
    decodeOne f (outF 0 (.arr (x :: xs)) ++ rest) t = .value (.arr ((x :: xs).map reread)) rest := by
  obtain ⟨lit1, h1⟩ := arr_body f 0 x xs (reads_list f (x :: xs) h 1) t [] 0 [] false rest (by omega)
  have e : outF 0 (.arr (x :: xs)) ++ rest = 0x5B :: (itemsF 1 (x :: xs) true ++ nlF 0 ++ 0x5D :: rest) := by
    simp [outF]
  rw [e, decodeOne_head f _ _ t rfl]
  have h0 : run f St.init (0x5B :: (itemsF 1 (x :: xs) true ++ nlF 0 ++ 0x5D :: rest)) t
      = run f ⟨.beginValueOrEmpty, [.arr []], 0 + 1, [], false⟩ (itemsF 1 (x :: xs) true ++ nlF 0 ++ 0x5D :: rest) t := by
    simp [run, step, St.init, beginValue, isSpace, push, maxNestingDepth]
  rw [h0, h1]
  simp [run, step, endValue, isSpace, pop]

theorem top_obj (f : Bytes → Bool) (ms : List (Bytes × JVal)) (h : NumsOKMembers f ms)
    (hd : depthMembers ms + 1 ≤ maxNestingDepth) (rest : Bytes) (t : Tail) :
    decodeOne f (outF 0 (.obj ms) ++ rest) t = .value (reread (.obj ms)) rest := by
  have hm := reads_mems f ms h 1
  have e1 : canonMembers (membersF 1 ms) = rend 1 (canonMembers ms) := by
    rw [membersF_eq, canonMembers_map]; rfl
  have e2 : canonMembers (rereadMembers ms) = (canonMembers ms).map fun y => (y.1, reread y.2) := by
    rw [rereadMembers_eq, canonMembers_map]
  simp only [reread, outF, e1, e2]
  cases hL : canonMembers ms with
  | nil =>
    simp only [rend, List.map_nil, List.cons_append, List.nil_append]
    rw [decodeOne_head f _ _ t rfl]
    simp [run, step, St.init, beginValue, isSpace, push, maxNestingDepth, endValue, pop, reinsert]
  | cons kv L =>
    have hsub : ∀ y ∈ kv :: L, y ∈ ms := fun y hy => mem_canonMembers (by rw [hL]; exact hy)
    obtain ⟨lit1, h1⟩ := obj_body f 0 kv L (fun y hy => hm y (hsub y hy)) t [] 0 [] false rest
      (fun y hy => by have := depth_le_members (hsub y hy); omega)
    have e : (match rend 1 (kv :: L) with
        | [] => [0x7B, 0x7D]
        | ms' => 0x7B :: joinF 1 ms' true ++ nlF 0 ++ [0x7D]) ++ rest
        = 0x7B :: (joinF 1 (rend 1 (kv :: L)) true ++ nlF 0 ++ 0x7D :: rest) := by
      simp [rend]
    rw [e, decodeOne_head f _ _ t rfl]
    have h0 : run f St.init (0x7B :: (joinF 1 (rend 1 (kv :: L)) true ++ nlF 0 ++ 0x7D :: rest)) t
        = run f ⟨.beginStringOrEmpty, [.obj [] [] false], 0 + 1, [], false⟩
            (joinF 1 (rend 1 (kv :: L)) true ++ nlF 0 ++ 0x7D :: rest) t := by
      simp [run, step, St.init, beginValue, isSpace, push, maxNestingDepth]
    rw [h0, h1]
    simp [run, step, endValue, isSpace, pop]

/-- STRUCTURE: a written array or object, followed by ANY bytes, with any reader state -/
theorem top_composite (f : Bytes → Bool) (j : JVal) (hc : (∃ xs, j = .arr xs) ∨ ∃ ms, j = .obj ms)
    (h : NumsOK f j) (hd : depth j ≤ maxNestingDepth) (rest : Bytes) (t : Tail) :
    decodeOne f (marshalIndent j ++ rest) t = .value (reread j) rest := by
  rw [marshalIndent_eq]
  rcases hc with ⟨xs, rfl⟩ | ⟨ms, rfl⟩
  · cases xs with
    | nil =>
      simp only [outF, List.cons_append, List.nil_append]
      rw [decodeOne_head f _ _ t rfl]
      simp [run, step, St.init, beginValue, isSpace, push, maxNestingDepth, endValue, pop, reread, rereadList]
    | cons x xs =>
      simp only [depth] at hd
      simp only [reread, rereadList_eq]
      exact top_arr f x xs h hd rest t
  · simp only [depth] at hd
    exact top_obj f ms h hd rest t

/-- SCALARS other than numbers, followed by at least one byte (the scanner reports a top-level
    scalar only when it sees the byte after it) -/
theorem top_scalar (f : Bytes → Bool) (j : JVal)
    (hs : j = .null ∨ (∃ b, j = .bool b) ∨ ∃ s, j = .str s) (c : UInt8) (cs : Bytes) (t : Tail) :
    decodeOne f (marshalIndent j ++ c :: cs) t = .value (reread j) (c :: cs) := by
  rw [marshalIndent_eq]
  rcases hs with rfl | ⟨b, rfl⟩ | ⟨s, rfl⟩
  · simp only [outF, List.cons_append, List.nil_append]
    rw [decodeOne_head f _ _ t rfl]
    simp [run, step, St.init, beginValue, isSpace, deliver, reread]
  · cases b <;> simp only [outF, List.cons_append, List.nil_append] <;> rw [decodeOne_head f _ _ t rfl] <;>
      simp [run, step, St.init, beginValue, isSpace, deliver, reread]
  · simp only [outF, List.cons_append, List.append_assoc, List.nil_append]
    rw [decodeOne_head f _ _ t rfl]
    have h0 : run f St.init (0x22 :: (quoteBody s ++ 0x22 :: c :: cs)) t
        = run f ⟨.inString, [], 0, [], false⟩ (quoteBody s ++ 0x22 :: c :: cs) t := by
      simp [run, step, St.init, beginValue, isSpace]
    rw [h0, run_steps f t _ _ _ _ (scanOK_quoteBody s f [] 0 [] false)]
    simp [run, step, deliver, unquote_quoteBody, reread]

/-- every document at clean end of input -/
theorem top_eof (f : Bytes → Bool) (j : JVal) (h : NumsOK f j) (hd : depth j ≤ maxNestingDepth) :
    decodeOne f (marshalIndent j) .eof = .value (reread j) [] := by
  cases j with
  | arr xs => simpa using top_composite f (.arr xs) (Or.inl ⟨xs, rfl⟩) h hd [] .eof
  | obj ms => simpa using top_composite f (.obj ms) (Or.inr ⟨ms, rfl⟩) h hd [] .eof
  | num lit => simpa [marshalIndent_eq, outF, reread] using h.2
  | null =>
    rw [marshalIndent_eq]; simp only [outF]
    rw [decodeOne_head f _ _ _ rfl]
    simp [run, step, St.init, beginValue, isSpace, deliver, reread]
  | bool b =>
    rw [marshalIndent_eq]
    cases b <;> simp only [outF] <;> rw [decodeOne_head f _ _ _ rfl] <;>
      simp [run, step, St.init, beginValue, isSpace, deliver, reread]
  | str s =>
    rw [marshalIndent_eq]; simp only [outF, List.cons_append]
    rw [decodeOne_head f _ _ _ rfl]
    have h0 : run f St.init (0x22 :: (quoteBody s ++ [0x22])) .eof
        = run f ⟨.inString, [], 0, [], false⟩ (quoteBody s ++ [0x22]) .eof := by
      simp [run, step, St.init, beginValue, isSpace]
    rw [h0, run_steps f _ _ _ _ _ (scanOK_quoteBody s f [] 0 [] false)]
    simp [run, step, deliver, unquote_quoteBody, reread]

/-! ### a string anywhere; a class of number literals; nesting deeper than the decoder allows -/

/-- a written string where a VALUE is expected inside a container, followed by any bytes -/
theorem run_str_value (f : Bytes → Bool) (s : Bytes) (t : Tail) (st : Step)
    (hst : st = .beginValue ∨ st = .beginValueOrEmpty) (fr : Frame) (fs : List Frame) (dp : Nat)
    (lit : Bytes) (bad : Bool) (rest : Bytes) :
    run f ⟨st, fr :: fs, dp, lit, bad⟩ (marshalIndent (.str s) ++ rest) t
      = run f ⟨.endValue, deliverStk (fr :: fs) (.str (sanitize s)), dp, [], bad⟩ rest t := by
  rw [marshalIndent_eq]
  have h1 : run f ⟨st, fr :: fs, dp, lit, bad⟩ (outF 0 (.str s) ++ rest) t
      = run f ⟨.inString, fr :: fs, dp, [], bad⟩ (quoteBody s ++ 0x22 :: rest) t := by
    rcases hst with rfl | rfl <;> simp [outF, run, step, beginValue, isSpace]
  rw [h1, run_steps f t _ _ _ _ (scanOK_quoteBody s f (fr :: fs) dp [] bad)]
  simp [run, step, deliver_eq, unquote_quoteBody]

/-- a written string where an object KEY is expected, followed by any bytes -/
theorem run_str_key (f : Bytes → Bool) (s : Bytes) (t : Tail) (st : Step)
    (hst : st = .beginString ∨ st = .beginStringOrEmpty) (ms : List (Bytes × JVal)) (k0 : Bytes)
    (fs : List Frame) (dp : Nat) (lit : Bytes) (bad : Bool) (rest : Bytes) :
    run f ⟨st, .obj ms k0 false :: fs, dp, lit, bad⟩ (marshalIndent (.str s) ++ rest) t
      = run f ⟨.endValue, .obj ms (sanitize s) false :: fs, dp, [], bad⟩ rest t := by
  rw [marshalIndent_eq]
  have h1 : run f ⟨st, .obj ms k0 false :: fs, dp, lit, bad⟩ (outF 0 (.str s) ++ rest) t
      = run f ⟨.inString, .obj ms k0 false :: fs, dp, [], bad⟩ (quoteBody s ++ 0x22 :: rest) t := by
    rcases hst with rfl | rfl <;> simp [outF, run, step, beginString, isSpace]
  rw [h1, run_steps f t _ _ _ _ (scanOK_quoteBody s f _ dp [] bad)]
  simp [run, step, deliver, unquote_quoteBody]

theorem run_digits (f : Bytes → Bool) : ∀ (ds acc : Bytes), (∀ x ∈ ds, isDigit x = true) →
    f (acc.reverse ++ ds) = true →
    run f ⟨.s1, [], 0, acc, false⟩ ds .eof = .value (.num (acc.reverse ++ ds)) [] := by
  intro ds
  induction ds with
  | nil =>
    intro acc _ hf
    simp only [List.append_nil] at hf
    simp [run, step_num f .s1 rfl, numNext, isDigit, canEnd, endNumber_top, hf]
  | cons x xs ih =>
    intro acc hd hf
    have hx : isDigit x = true := hd x (by simp)
    simp only [run, step_num f .s1 rfl, numNext, hx, if_true]
    have := ih (x :: acc) (fun y hy => hd y (by simp [hy])) (by simpa using hf)
    simpa using this

/-- the literals `1`…`9` followed by digits (every non-negative integer literal without leading
    zero) satisfy `NumLit` as soon as `numOk` accepts them -/
theorem numLit_of_digits (f : Bytes → Bool) (b : UInt8) (ds : Bytes) (hb : isDigit b = true) (hb0 : b ≠ 0x30)
    (hd : ∀ x ∈ ds, isDigit x = true) (hf : f (b :: ds) = true) : NumLit f (b :: ds) := by
  have hhead : (b == 0x2D || isDigit b) = true := by simp [hb]
  refine ⟨by simpa using hhead, ?_⟩
  rw [decodeOne_head f b ds .eof (numHead_facts b hhead).1]
  obtain ⟨h0, _⟩ := step_numHead f b hhead .beginValue (Or.inl rfl) [] 0 [] false
  have hfirst : firstNum b = .s1 := by
    have : b ≠ 0x2D := by rintro rfl; simp [isDigit] at hb
    simp [firstNum, this, hb0]
  simp only [run, St.init, h0, hfirst]
  simpa using run_digits f ds [b] hd (by simpa using hf)

/-- `n + 1` arrays inside each other -/
def nest : Nat → JVal
  | 0 => .arr []
  | n + 1 => .arr [nest n]

theorem depth_nest (n : Nat) : depth (nest n) = n + 1 := by
  induction n with
  | zero => simp [nest, depth, depthList]
  | succ n ih => simp [nest, depth, depthList, ih]

theorem nest_too_deep (f : Bytes → Bool) (t : Tail) : ∀ (n d : Nat) (st : Step),
    (st = .beginValue ∨ st = .beginValueOrEmpty) → ∀ (stk : List Frame) (dp : Nat) (lit : Bytes) (bad : Bool)
      (R : Bytes), maxNestingDepth < dp + (n + 1) →
      run f ⟨st, stk, dp, lit, bad⟩ (outF d (nest n) ++ R) t = .error := by
  intro n
  induction n with
  | zero =>
    intro d st hst stk dp lit bad R h
    have : ¬ dp + 1 ≤ maxNestingDepth := by omega
    rcases hst with rfl | rfl <;> simp [nest, outF, run, step, beginValue, isSpace, push, this]
  | succ n ih =>
    intro d st hst stk dp lit bad R h
    by_cases hdp : dp + 1 ≤ maxNestingDepth
    · have h0 : run f ⟨st, stk, dp, lit, bad⟩ (outF d (nest (n + 1)) ++ R) t
          = run f ⟨.beginValueOrEmpty, .arr [] :: stk, dp + 1, lit, bad⟩
              (nlF (d + 1) ++ (outF (d + 1) (nest n) ++ (nlF d ++ 0x5D :: R))) t := by
        rcases hst with rfl | rfl <;>
          simp [nest, outF, itemsF, run, step, beginValue, isSpace, push, hdp]
      rw [h0, run_ws f t .beginValueOrEmpty (Or.inr (Or.inl rfl)) _ _ lit bad _ _ (nlF_space (d + 1))]
      exact ih (d + 1) .beginValueOrEmpty (Or.inr rfl) _ (dp + 1) lit bad _ (by omega)
    · rcases hst with rfl | rfl <;> simp [nest, outF, run, step, beginValue, isSpace, push, hdp]

/-- FINDING: 10001 nested arrays are written by the model's `marshalIndent` but the decoder (Go:
    "exceeded max depth") rejects the text.  (Go's `MarshalIndent` itself fails there, in its indent
    pass; the model's `marshalIndent` has no error result, its callers `json()` and `getRootJson`
    test `Json.tooDeep` first and report the error as Go does: Props/C04.lean section 7.) -/
theorem nest_rejected (f : Bytes → Bool) (t : Tail) (n : Nat) (h : maxNestingDepth ≤ n) (rest : Bytes) :
    decodeOne f (marshalIndent (nest n) ++ rest) t = .error := by
  rw [marshalIndent_eq]
  have hb : ∃ tl, outF 0 (nest n) ++ rest = 0x5B :: tl := by
    cases n <;> exact ⟨_, by simp only [nest, outF, List.cons_append]; rfl⟩
  obtain ⟨tl, htl⟩ := hb
  rw [htl, decodeOne_head f _ _ t rfl, ← htl]
  exact nest_too_deep f t n 0 .beginValue (Or.inl rfl) [] 0 [] false rest (by omega)

/-! ### `NumLit` is a syntactic check plus `numOk` -/

/-- the JSON number grammar as a finite automaton over the scanner's number states: the literal's
    remaining bytes are consumed and the automaton stops in a state where a number may end -/
def numAccepts : Step → Bytes → Bool
  | st, [] => canEnd st
  | st, c :: cs => match numNext st c with | some st' => numAccepts st' cs | none => false

/-- `-`? then `0` or a non-zero digit and digits, an optional fraction, an optional exponent -/
def numGrammar (lit : Bytes) : Bool :=
  match lit with
  | [] => false
  | b :: ds => (b == 0x2D || isDigit b) && numAccepts (firstNum b) ds

theorem run_numAccepts (f : Bytes → Bool) : ∀ (ds : Bytes) (st : Step) (acc : Bytes), isNum st = true →
    numAccepts st ds = true → f (acc.reverse ++ ds) = true →
    run f ⟨st, [], 0, acc, false⟩ ds .eof = .value (.num (acc.reverse ++ ds)) [] := by
  intro ds
  induction ds with
  | nil =>
    intro st acc hn ha hf
    simp only [numAccepts] at ha
    simp only [List.append_nil] at hf
    simp [run, step_num f st hn, numNext_delim st 0x20 (Or.inl rfl), ha, endNumber_top, hf]
  | cons x xs ih =>
    intro st acc hn ha hf
    simp only [numAccepts] at ha
    cases hnx : numNext st x with
    | none => simp [hnx] at ha
    | some st' =>
      simp only [hnx] at ha
      simp only [run, step_num f st hn, hnx]
      have := ih st' (x :: acc) (numNext_isNum hnx) ha (by simpa using hf)
      simpa using this

theorem numAccepts_of_run (f : Bytes → Bool) : ∀ (ds : Bytes) (st : Step) (acc L : Bytes), isNum st = true →
    run f ⟨st, [], 0, acc, false⟩ ds .eof = .value (.num L) [] →
    numAccepts st ds = true ∧ f (acc.reverse ++ ds) = true := by
  intro ds
  induction ds with
  | nil =>
    intro st acc L hn h
    simp only [run, step_num f st hn, numNext_delim st 0x20 (Or.inl rfl)] at h
    cases hce : canEnd st with
    | false => simp [hce] at h
    | true =>
      simp only [hce, if_true, endNumber_top] at h
      cases hf : f acc.reverse with
      | false => simp [hf] at h
      | true => simp [numAccepts, hce, hf]
  | cons b bs ih =>
    intro st acc L hn h
    simp only [run, step_num f st hn] at h
    cases hnx : numNext st b with
    | none =>
      simp only [hnx] at h
      cases hce : canEnd st with
      | false => simp [hce] at h
      | true =>
        simp only [hce, if_true, endNumber_top] at h
        cases hf : f acc.reverse <;> simp [hf] at h
    | some st' =>
      simp only [hnx] at h
      have := ih st' (b :: acc) L (numNext_isNum hnx) h
      simpa [numAccepts, hnx] using this

/-- hypothesis (a) unfolded: a literal is read back as itself exactly when it matches the JSON
    number grammar and `numOk` accepts it -/
theorem numLit_iff (f : Bytes → Bool) (lit : Bytes) : NumLit f lit ↔ (numGrammar lit = true ∧ f lit = true) := by
  cases lit with
  | nil => simp [NumLit, numGrammar]
  | cons b ds =>
    simp only [NumLit, numGrammar, List.head?_cons, Option.any_some, Bool.and_eq_true]
    constructor
    · rintro ⟨hhead, hdec⟩
      rw [decodeOne_head f b ds .eof (numHead_facts b hhead).1] at hdec
      obtain ⟨h0, hn⟩ := step_numHead f b hhead .beginValue (Or.inl rfl) [] 0 [] false
      simp only [run, St.init, h0] at hdec
      have := numAccepts_of_run f ds (firstNum b) [b] (b :: ds) hn hdec
      exact ⟨⟨hhead, this.1⟩, by simpa using this.2⟩
    · rintro ⟨⟨hhead, hacc⟩, hf⟩
      refine ⟨hhead, ?_⟩
      rw [decodeOne_head f b ds .eof (numHead_facts b hhead).1]
      obtain ⟨h0, hn⟩ := step_numHead f b hhead .beginValue (Or.inl rfl) [] 0 [] false
      simp only [run, St.init, h0]
      simpa using run_numAccepts f ds (firstNum b) [b] hn hacc (by simpa using hf)

/-! ### a top-level number followed by further bytes -/

/-- a byte that cannot continue a number literal -/
def numDelim (c : UInt8) : Bool :=
  !(isDigit c || c == 0x2E || c == 0x65 || c == 0x45 || c == 0x2B || c == 0x2D)

theorem numNext_numDelim (st : Step) (c : UInt8) (h : numDelim c = true) : numNext st c = none := by
  cases st <;> first | rfl | (revert h; revert c; apply forall_u8; decide +kernel)

theorem num_top (f : Bytes → Bool) : ∀ (bs : Bytes) (st : Step) (acc L : Bytes), isNum st = true →
    run f ⟨st, [], 0, acc, false⟩ bs .eof = .value (.num L) [] →
    ∀ (t : Tail) c cs, numDelim c = true →
      run f ⟨st, [], 0, acc, false⟩ (bs ++ c :: cs) t = .value (.num L) (c :: cs) := by
  intro bs
  induction bs with
  | nil =>
    intro st acc L hn h t c cs hc
    simp only [run, step_num f st hn, numNext_delim st 0x20 (Or.inl rfl)] at h
    cases hce : canEnd st with
    | false => simp [hce] at h
    | true =>
      simp only [hce, if_true, endNumber_top] at h
      cases hf : f acc.reverse with
      | false => simp [hf] at h
      | true =>
        simp only [hf, Bool.not_true] at h
        simp only [List.nil_append, run, step_num f st hn, numNext_numDelim st c hc, hce, if_true,
          endNumber_top, hf, Bool.not_true]
        simpa using h
  | cons b bs ih =>
    intro st acc L hn h t c cs hc
    simp only [run, step_num f st hn] at h
    cases hnx : numNext st b with
    | none =>
      simp only [hnx] at h
      cases hce : canEnd st with
      | false => simp [hce] at h
      | true =>
        simp only [hce, if_true, endNumber_top] at h
        cases hf : f acc.reverse <;> simp [hf] at h
    | some st' =>
      simp only [hnx] at h
      simp only [List.cons_append, run, step_num f st hn, hnx]
      exact ih st' (b :: acc) L (numNext_isNum hnx) h t c cs hc

/-- a written number as a whole document, followed by a byte that cannot continue it (white space,
    `,`, `]`, `}`, a letter other than e/E, …) and then anything -/
theorem top_num (f : Bytes → Bool) (lit : Bytes) (h : NumLit f lit) (t : Tail) (c : UInt8) (cs : Bytes)
    (hc : numDelim c = true) : decodeOne f (lit ++ c :: cs) t = .value (.num lit) (c :: cs) := by
  obtain ⟨hhead, hdec⟩ := h
  cases lit with
  | nil => simp at hhead
  | cons b bs =>
    simp only [List.head?_cons, Option.any_some] at hhead
    have hsp := (numHead_facts b hhead).1
    rw [decodeOne_head f b bs .eof hsp] at hdec
    obtain ⟨h0, hn⟩ := step_numHead f b hhead .beginValue (Or.inl rfl) [] 0 [] false
    simp only [run, St.init, h0] at hdec
    rw [List.cons_append, decodeOne_head f b _ t hsp]
    simp only [run, St.init, h0]
    exact num_top f bs (firstNum b) [b] (b :: bs) hn hdec t c cs hc

end Jqawk.JsonBytes
