/-
  C06, finite clause: the triple tables for five first operators (split so that the files check in parallel;
  each `decide +kernel` evaluates the parser on 225 token lists).
-/
import Jqawk.Lemmas.PrattFinite

namespace Jqawk.C06

theorem triples_equalEqual : TriplesFor .equalEqual := by decide +kernel
theorem triples_bangEqual : TriplesFor .bangEqual := by decide +kernel
theorem triples_lessThan : TriplesFor .lessThan := by decide +kernel
theorem triples_lessEqual : TriplesFor .lessEqual := by decide +kernel
theorem triples_greaterThan : TriplesFor .greaterThan := by decide +kernel

end Jqawk.C06
