/-
  Read-only evaluation (C09): an expression (or statement) that contains no assignment, no
  `++`/`--`, no `for … in` and no call other than a method call `recv.name(args)` /
  `recv["name"](args)` whose name is not `push`, `pop` or `popfirst` never writes to a cell,
  array or object that existed before: everything it does to the heap is allocation.  (Since
  the repair of the member step — an unset base is no longer turned into a container by a read,
  only by `createSpeculative` when the member is assigned to — this holds without exception.)

  Architecture: as Lemmas/Invariant.lean — a relation between start and end state (`Rel`), a
  predicate `Pres` on computations closed under the monad operations, primitives, and one mutual
  induction over all evaluator functions (`AllRO`).
-/
import Jqawk.Model.Eval
import Jqawk.Lemmas.Heap

set_option linter.unusedVariables false

namespace Jqawk

/-! ## the syntactic predicate -/

/-- the names of the prototype methods that change their receiver -/
def mutatingName (k : Bytes) : Bool := k == b!"push" || k == b!"pop" || k == b!"popfirst"

/-- the natives that change their receiver (`sort` returns a new array; `printf` only writes
    output) -/
def Native.mutating : Native → Bool
  | .arrPush | .arrPop | .arrPopfirst => true
  | _ => false

/-- a literal member name (`.name` or `["name"]`) that does not denote a mutating method -/
def safeKey (t : Token) : Bool :=
  (t.tag == .str || t.tag == .ident) &&
  match evalStringLit t.text with
  | .ok k => !mutatingName k
  | .error _ => true

mutual
/-- `e.readOnly calls`: no assignment (`=`, hence no compound assignment: the parser rewrites
    `a op= b` to `a = a op b`), no `++`/`--`, and
    * `calls = false`: no call at all;
    * `calls = true`: only calls whose callee is syntactically a member access with a literal
      name other than push/pop/popfirst. -/
def Expr.readOnly (k : Bool) : Expr → Bool
  | .lit _ => true
  | .ident _ => true
  | .arr _ items => roEs k items
  | .obj _ items => roKVs k items
  | .unary e op _ => !(op.tag == .plusPlus) && !(op.tag == .minusMinus) && Expr.readOnly k e
  | .binary l r op => !(op.tag == .equal) && Expr.readOnly k l && Expr.readOnly k r
  | .call (.binary recv (.lit t) op) args =>
    k && (op.tag == .dot || op.tag == .lsquare) && safeKey t && Expr.readOnly k recv && roEs k args
  | .call _ _ => false
  | .match_ _ v cases => Expr.readOnly k v && roCases k cases
def roEs (k : Bool) : List Expr → Bool
  | [] => true
  | e :: es => Expr.readOnly k e && roEs k es
def roKVs (k : Bool) : List (Bytes × Expr) → Bool
  | [] => true
  | (_, e) :: es => Expr.readOnly k e && roKVs k es
/-- patterns are never a problem: only literals in them are evaluated -/
def roCases (k : Bool) : List MatchCase → Bool
  | [] => true
  | (.mk _ body) :: cs => Stmt.readOnly k body && roCases k cs
/-- statements: `for … in` assigns its loop variables, everything else is as good as its parts
    (`print` writes output, `return` sets the return slot: neither is part of any value) -/
def Stmt.readOnly (k : Bool) : Stmt → Bool
  | .block _ body => roSs k body
  | .print _ args => roEs k args
  | .expr e => Expr.readOnly k e
  | .ret none => true
  | .ret (some e) => Expr.readOnly k e
  | .brk _ => true
  | .cont _ => true
  | .next _ => true
  | .exit _ => true
  | .if_ c b none => Expr.readOnly k c && Stmt.readOnly k b
  | .if_ c b (some e) => Expr.readOnly k c && Stmt.readOnly k b && Stmt.readOnly k e
  | .while_ c b => Expr.readOnly k c && Stmt.readOnly k b
  | .for_ pre c post b => Expr.readOnly k pre && Expr.readOnly k c && Expr.readOnly k post && Stmt.readOnly k b
  | .forIn _ _ _ _ => false
def roSs (k : Bool) : List Stmt → Bool
  | [] => true
  | s :: ss => Stmt.readOnly k s && roSs k ss
end

/-- every function body of the program is read-only (needed when calls are allowed: a member
    of an object may hold a function value, and then `o.name(…)` runs that function) -/
def Program.FnsRO (prog : Program) : Prop :=
  ∀ f ∈ prog.functions, Stmt.readOnly true f.body = true

/-! ## the heap relation -/

/-- `h'` is `h` plus allocations: every cell keeps its value (an unset cell stays unset),
    every array keeps its cells, every object its members. -/
structure HeapPreserved (h h' : Heap) : Prop where
  cells : h.cells.size ≤ h'.cells.size
  arrs : h.arrs.size ≤ h'.arrs.size
  objs : h.objs.size ≤ h'.objs.size
  get : ∀ c, c < h.cells.size → h'.get c = h.get c
  arr : ∀ a, a < h.arrs.size → h'.arr a = h.arr a
  obj : ∀ o, o < h.objs.size → h'.obj o = h.obj o

theorem Heap.lt_of_get_ne_unknown (h : Heap) (c : CellId) (hne : h.get c ≠ .unknown) :
    c < h.cells.size := by
  apply Classical.byContradiction
  intro hc
  apply hne
  simp only [Heap.get, Array.getD_eq_getD_getElem?]
  rw [Array.getElem?_eq_none (Nat.le_of_not_lt hc)]
  rfl

namespace HeapPreserved

theorem refl (h : Heap) : HeapPreserved h h :=
  ⟨Nat.le_refl _, Nat.le_refl _, Nat.le_refl _, fun _ _ => rfl, fun _ _ => rfl, fun _ _ => rfl⟩

theorem trans {a b c : Heap} (h1 : HeapPreserved a b) (h2 : HeapPreserved b c) :
    HeapPreserved a c := by
  refine ⟨Nat.le_trans h1.cells h2.cells, Nat.le_trans h1.arrs h2.arrs,
    Nat.le_trans h1.objs h2.objs, ?_, ?_, ?_⟩
  · intro x hx
    rw [h2.get x (Nat.lt_of_lt_of_le hx h1.cells), h1.get x hx]
  · intro x hx
    rw [h2.arr x (Nat.lt_of_lt_of_le hx h1.arrs), h1.arr x hx]
  · intro x hx
    rw [h2.obj x (Nat.lt_of_lt_of_le hx h1.objs), h1.obj x hx]

/-- a cell that holds a value is allocated, hence keeps it -/
theorem get_of_ne {h h' : Heap} (p : HeapPreserved h h') (c : CellId)
    (hne : h.get c ≠ .unknown) : h'.get c = h.get c :=
  p.get c (Heap.lt_of_get_ne_unknown h c hne)

theorem alloc (h : Heap) (v : Val) : HeapPreserved h (h.alloc v).2 :=
  ⟨by simp [Heap.alloc], Nat.le_refl _, Nat.le_refl _,
   fun c hc => Heap.get_push_old h v c hc, fun _ _ => rfl, fun _ _ => rfl⟩

theorem arr_push_old (h : Heap) (x : Array CellId) (a : ArrId) (ha : a < h.arrs.size) :
    ({ h with arrs := h.arrs.push x } : Heap).arr a = h.arr a := by
  have : a ≠ h.arrs.size := Nat.ne_of_lt ha
  simp [Heap.arr, Array.getD_eq_getD_getElem?, Array.getElem?_push, this]

theorem obj_push_old (h : Heap) (x : List (Bytes × CellId)) (o : ObjId) (ho : o < h.objs.size) :
    ({ h with objs := h.objs.push x } : Heap).obj o = h.obj o := by
  have : o ≠ h.objs.size := Nat.ne_of_lt ho
  simp [Heap.obj, Array.getD_eq_getD_getElem?, Array.getElem?_push, this]

theorem allocArr (h : Heap) (x : Array CellId) : HeapPreserved h (h.allocArr x).2 :=
  ⟨Nat.le_refl _, by simp [Heap.allocArr], Nat.le_refl _, fun _ _ => rfl,
   fun a ha => arr_push_old h x a ha, fun _ _ => rfl⟩

theorem allocObj (h : Heap) (x : List (Bytes × CellId)) : HeapPreserved h (h.allocObj x).2 :=
  ⟨Nat.le_refl _, Nat.le_refl _, by simp [Heap.allocObj], fun _ _ => rfl, fun _ _ => rfl,
   fun o ho => obj_push_old h x o ho⟩

theorem allocMany (h : Heap) (vs : List Val) : HeapPreserved h (h.allocMany vs) :=
  ⟨by simp [Heap.allocMany], Nat.le_refl _, Nat.le_refl _,
   fun c hc => Heap.get_allocMany_old h vs c hc, fun _ _ => rfl, fun _ _ => rfl⟩

end HeapPreserved

/-! ### single-cell writes -/

theorem Heap.get_set_ne' (h : Heap) (c d : CellId) (v : Val) (hne : c ≠ d) :
    (h.set d v).get c = h.get c := by
  simp only [Heap.set, Heap.get, Array.getD_eq_getD_getElem?]
  rw [Array.getElem?_setIfInBounds_ne (Ne.symm hne)]

theorem Heap.get_set_same' (h : Heap) (d : CellId) (v : Val) (hd : d < h.cells.size) :
    (h.set d v).get d = v := by
  simp [Heap.set, Heap.get, Array.getD_eq_getD_getElem?, hd]

theorem Heap.size_set (h : Heap) (d : CellId) (v : Val) : (h.set d v).cells.size = h.cells.size := by
  simp [Heap.set]

/-- writing to the cell that was allocated last -/
theorem HeapPreserved.alloc_set (h : Heap) (x w : Val) :
    HeapPreserved h ((h.alloc x).2.set h.cells.size w) := by
  refine ⟨?_, Nat.le_refl _, Nat.le_refl _, ?_, fun _ _ => rfl, fun _ _ => rfl⟩
  · rw [Heap.size_set]; simp [Heap.alloc]
  · intro c hc
    rw [Heap.get_set_ne' _ _ _ _ (Nat.ne_of_lt hc)]
    exact Heap.get_push_old h x c hc

/-! ## the relation on states -/

/-- every member of every object is an allocated cell (the `objs` half of `Heap.WF`) -/
def ObjsInRange (h : Heap) : Prop :=
  ∀ o k c, objLookup (h.obj o) k = some c → c < h.cells.size

/-- side invariant, needed only when calls are allowed -/
def Inv (k : Bool) (h : Heap) : Prop := k = true → ObjsInRange h

theorem Inv.same_objs {k : Bool} {h h' : Heap} (i : Inv k h) (ho : h'.objs = h.objs)
    (hc : h.cells.size ≤ h'.cells.size) : Inv k h' := by
  intro hk o key c hl
  have : h'.obj o = h.obj o := by simp [Heap.obj, ho]
  rw [this] at hl
  exact Nat.lt_of_lt_of_le (i hk o key c hl) hc

/-- a new object whose members are allocated cells -/
theorem Inv.push_obj {k : Bool} {h : Heap} (i : Inv k h) (m : List (Bytes × CellId))
    (hm : ∀ key c, objLookup m key = some c → c < h.cells.size) : Inv k (h.allocObj m).2 := by
  intro hk o key c hl
  by_cases ho : o < h.objs.size
  · rw [show (h.allocObj m).2.obj o = h.obj o from HeapPreserved.obj_push_old h m o ho] at hl
    exact i hk o key c hl
  · by_cases ho' : o = h.objs.size
    · subst ho'
      have : (h.allocObj m).2.obj h.objs.size = m := by
        simp [Heap.allocObj, Heap.obj, Array.getD_eq_getD_getElem?]
      rw [this] at hl
      exact hm key c hl
    · have : (h.allocObj m).2.obj o = [] := by
        have : h.objs.size < o := Nat.lt_of_le_of_ne (Nat.le_of_not_lt ho) (Ne.symm ho')
        simp only [Heap.allocObj, Heap.obj, Array.getD_eq_getD_getElem?]
        rw [Array.getElem?_eq_none (by simp; exact this)]
        rfl
      rw [this] at hl
      simp [objLookup] at hl

/-- bindings found by the dynamic lookup are still found, with the same cell -/
def FramesPreserved (f f' : List Frame) : Prop :=
  ∀ name c, lookupFrames f name = some c → lookupFrames f' name = some c

/-- what a read-only evaluation guarantees about the state it ends in.  `fr = false` drops the
    clause about frames (used inside a pushed frame, which is discarded afterwards). -/
structure Rel (fr : Bool) (s s' : St) : Prop where
  heap : HeapPreserved s.heap s'.heap
  frames : fr = true → FramesPreserved s.frames s'.frames
  root : s'.root = s.root
  ruleRoot : s'.ruleRoot = s.ruleRoot

theorem Rel.refl (fr : Bool) (s : St) : Rel fr s s :=
  ⟨HeapPreserved.refl _, fun _ _ _ h => h, rfl, rfl⟩

theorem Rel.trans {fr : Bool} {a b c : St} (h1 : Rel fr a b) (h2 : Rel fr b c) : Rel fr a c :=
  ⟨h1.heap.trans h2.heap, fun e n x hx => h2.frames e n x (h1.frames e n x hx),
   h2.root.trans h1.root, h2.ruleRoot.trans h1.ruleRoot⟩

theorem Rel.weaken {fr : Bool} {a b : St} (h : Rel fr a b) : Rel false a b :=
  ⟨h.heap, (fun e => by cases e), h.root, h.ruleRoot⟩

/-- only the heap changed -/
theorem Rel.heapOnly {fr : Bool} (s : St) (h' : Heap) (hp : HeapPreserved s.heap h') :
    Rel fr s { s with heap := h' } := ⟨hp, fun _ _ _ h => h, rfl, rfl⟩

def Good (k fr : Bool) (s s' : St) : Prop := Inv k s.heap → Rel fr s s' ∧ Inv k s'.heap

theorem Good.refl (k fr : Bool) (s : St) : Good k fr s s := fun i => ⟨Rel.refl fr s, i⟩

theorem Good.trans {k fr : Bool} {a b c : St} (h1 : Good k fr a b) (h2 : Good k fr b c) :
    Good k fr a c := fun i =>
  let ⟨r1, i1⟩ := h1 i
  let ⟨r2, i2⟩ := h2 i1
  ⟨r1.trans r2, i2⟩

theorem Good.weaken {k fr : Bool} {a b : St} (h : Good k fr a b) : Good k false a b := fun i =>
  let ⟨r1, i1⟩ := h i
  ⟨r1.weaken, i1⟩

/-- the invariant on a result -/
def QR {α : Type} (k fr : Bool) (s : St) : Res α → Prop
  | .ok _ s' => Good k fr s s'
  | .err _ s' => Good k fr s s'
  | .oof => True

theorem QR.trans {α : Type} {k fr : Bool} {s s1 : St} {r : Res α} (hg : Good k fr s s1)
    (h : QR k fr s1 r) : QR k fr s r := by
  cases r with
  | ok a s' => exact hg.trans h
  | err e s' => exact hg.trans h
  | oof => trivial

theorem QR.weaken {α : Type} {k fr : Bool} {s : St} {r : Res α} (h : QR k fr s r) : QR k false s r := by
  cases r with
  | ok a s' => exact Good.weaken h
  | err e s' => exact Good.weaken h
  | oof => trivial

/-- a computation that is read-only from every start state -/
def Pres {α : Type} (k fr : Bool) (m : EM α) : Prop := ∀ s, QR k fr s (m s)

/-- bind at one state -/
theorem QR.bind {α β : Type} {k fr : Bool} {s : St} {m : EM α} {f : α → EM β}
    (hm : QR k fr s (m s)) (hf : ∀ a, Pres k fr (f a)) : QR k fr s ((m >>= f) s) := by
  show QR k fr s (EM.bind m f s)
  unfold EM.bind
  cases hr : m s with
  | ok a s1 => rw [hr] at hm; exact QR.trans hm (hf a s1)
  | err e s1 => rw [hr] at hm; exact hm
  | oof => trivial

theorem EM.bind_assoc' {α β γ : Type} (m : EM α) (f : α → EM β) (g : β → EM γ) :
    (m >>= fun a => f a >>= g) = ((m >>= f) >>= g) := by
  funext s
  show EM.bind m (fun a => EM.bind (f a) g) s = EM.bind (EM.bind m f) g s
  unfold EM.bind
  cases m s <;> rfl

namespace Pres

variable {k fr : Bool}

theorem weaken {α : Type} {m : EM α} (h : Pres k fr m) : Pres k false m := fun s => (h s).weaken

theorem pure {α : Type} (a : α) : Pres k fr (Pure.pure a : EM α) := fun s => Good.refl k fr s

theorem bind {α β : Type} {m : EM α} {f : α → EM β} (hm : Pres k fr m) (hf : ∀ a, Pres k fr (f a)) :
    Pres k fr (m >>= f) := fun s => QR.bind (hm s) hf

theorem oof {α : Type} : Pres k fr (Jqawk.oof : EM α) := fun _ => trivial
theorem getSt : Pres k fr Jqawk.getSt := fun s => Good.refl k fr s
theorem getHeap : Pres k fr Jqawk.getHeap := fun s => Good.refl k fr s
theorem readCell (c : CellId) : Pres k fr (Jqawk.readCell c) := fun s => Good.refl k fr s
theorem throwSig {α : Type} (g : Sig) : Pres k fr (Jqawk.throwSig g : EM α) := fun s => Good.refl k fr s
theorem throwPanic {α : Type} (m : String) : Pres k fr (Jqawk.throwPanic m : EM α) :=
  fun s => Good.refl k fr s
theorem throwUnmodelled {α : Type} (m : String) : Pres k fr (Jqawk.throwUnmodelled m : EM α) :=
  fun s => Good.refl k fr s

theorem throwRt {α : Type} (p : Nat) (m : String) : Pres k fr (Jqawk.throwRt p m : EM α) :=
  fun s i => ⟨⟨HeapPreserved.refl _, fun _ _ _ h => h, rfl, rfl⟩, i⟩

theorem liftExcept {α : Type} (p : Nat) (e : Except String α) : Pres k fr (Jqawk.liftExcept p e) := by
  cases e with
  | ok a => exact pure a
  | error m => exact throwRt p m

theorem newCell (v : Val) : Pres k fr (Jqawk.newCell v) := fun s i =>
  ⟨Rel.heapOnly s _ (HeapPreserved.alloc s.heap v), i.same_objs rfl (HeapPreserved.alloc s.heap v).cells⟩

theorem allocArrM (items : Array CellId) : Pres k fr (Jqawk.allocArrM items) := fun s i =>
  ⟨Rel.heapOnly s _ (HeapPreserved.allocArr s.heap items), i.same_objs rfl (Nat.le_refl _)⟩

/-- the empty object is always fine; a non-empty one needs its members in range (`Inv.push_obj`) -/
theorem allocObjM_nil : Pres k fr (Jqawk.allocObjM []) := fun s i =>
  ⟨Rel.heapOnly s _ (HeapPreserved.allocObj s.heap []), i.push_obj [] (by simp [objLookup])⟩

theorem emit (b : Bytes) : Pres k fr (Jqawk.emit b) := fun s i =>
  ⟨⟨HeapPreserved.refl _, fun _ _ _ h => h, rfl, rfl⟩, i⟩

theorem setReturnVal (c : Option CellId) :
    Pres k fr (Jqawk.modifySt fun s => { s with returnVal := c }) := fun s i =>
  ⟨⟨HeapPreserved.refl _, fun _ _ _ h => h, rfl, rfl⟩, i⟩

/-- binding a local: nothing but the innermost frame changes (so: `fr = false`) -/
theorem setLocal (name : Bytes) (c : CellId) : Pres k false (Jqawk.setLocal name c) := by
  intro s
  unfold Jqawk.setLocal
  cases hf : s.frames with
  | nil => exact Good.refl k false s
  | cons f fs => exact fun i => ⟨⟨HeapPreserved.refl _, (fun e => by cases e), rfl, rfl⟩, i⟩

end Pres


/-! ### compound primitives -/

theorem lookupFrames_setLocal (f : Frame) (fs : List Frame) (name : Bytes) (c : CellId) (name' : Bytes) :
    lookupFrames ({ f with locals := objInsert f.locals name c } :: fs) name' =
      if name = name' then some c else lookupFrames (f :: fs) name' := by
  simp only [lookupFrames, objLookup_objInsert]
  by_cases e : name = name'
  · simp [e]
  · simp [e]

theorem newCell_setLocal_eq (v : Val) (name : Bytes) (s : St) :
    (Jqawk.newCell v >>= fun c => Jqawk.setLocal name c >>= fun _ => (Pure.pure (Except.ok c) : EM (Except String CellId))) s =
      match s.frames with
      | [] => .err (.panic "no frame") { s with heap := (s.heap.alloc v).2 }
      | f :: fs => .ok (.ok s.heap.cells.size)
          { s with heap := (s.heap.alloc v).2,
                   frames := { f with locals := objInsert f.locals name s.heap.cells.size } :: fs } := by
  cases hf : s.frames <;>
    simp [bind, EM.bind, Jqawk.newCell, Jqawk.setLocal, hf, pure, EM.pure, Heap.alloc]

namespace Pres

variable {k fr : Bool}

theorem withSt {α : Type} {f : St → EM α} (h : ∀ s, QR k fr s (f s s)) : Pres k fr (Jqawk.getSt >>= f) :=
  fun s => h s

/-- `getVariable`: an unknown name gets a fresh unset cell in the innermost frame; no existing
    binding changes -/
theorem getVariable (name : Bytes) : Pres k fr (Jqawk.getVariable name) := by
  unfold Jqawk.getVariable
  apply withSt
  intro s
  cases hl : lookupFrames s.frames name with
  | some c => exact Good.refl k fr s
  | none =>
    dsimp only
    split
    · exact Good.refl k fr s
    · rw [newCell_setLocal_eq]
      cases hf : s.frames with
      | nil =>
        exact fun i => ⟨⟨HeapPreserved.alloc s.heap _, fun _ n c h => by rw [hf] at h; exact h, rfl, rfl⟩,
          i.same_objs rfl (HeapPreserved.alloc s.heap .unknown).cells⟩
      | cons f fs =>
        refine fun i => ⟨⟨HeapPreserved.alloc s.heap _, ?_, rfl, rfl⟩,
          i.same_objs rfl (HeapPreserved.alloc s.heap .unknown).cells⟩
        intro _ name' c' hc'
        simp only [hf] at hc' ⊢
        rw [lookupFrames_setLocal]
        split
        · rename_i e; subst e; rw [hf] at hl; rw [hl] at hc'; cases hc'
        · exact hc'

theorem bindAll (l : List (Bytes × CellId)) : Pres k false (Jqawk.bindAll l) := by
  induction l with
  | nil => exact pure ()
  | cons kv rest ih =>
    obtain ⟨key, c⟩ := kv
    exact bind (setLocal key c) (fun _ => ih)

theorem bindParams (ps : List Bytes) (as : List Val) : Pres k false (Jqawk.bindParams ps as) := by
  induction ps generalizing as with
  | nil => exact pure ()
  | cons p ps ih =>
    cases as with
    | nil => exact bind (newCell _) (fun c => bind (setLocal _ _) (fun _ => ih []))
    | cons a as => exact bind (newCell _) (fun c => bind (setLocal _ _) (fun _ => ih as))

theorem allocCells (vs : List Val) : Pres k fr (Jqawk.allocCells vs) := by
  induction vs with
  | nil => exact pure []
  | cons v vs ih => exact bind (newCell v) (fun c => bind ih (fun cs => pure _))

theorem newArrayOf (vs : List Val) : Pres k fr (Jqawk.newArrayOf vs) := by
  intro s
  rw [newArrayOf_eq]
  exact fun i => ⟨Rel.heapOnly s _ ((HeapPreserved.allocMany s.heap vs).trans
      (HeapPreserved.allocArr (s.heap.allocMany vs) _)),
    i.same_objs rfl (HeapPreserved.allocMany s.heap vs).cells⟩

/-- a value copied into a cell allocated for it: `NewCell(…)` followed by `copyValue(v, cell)` -/
theorem newCopy0 (x : Val) (v : CellId) :
    Pres k fr (Jqawk.newCell x >>= fun c => Jqawk.copyValue v c) := by
  intro s
  simp only [Bind.bind, EM.bind, Jqawk.newCell, Heap.alloc, Jqawk.copyValue, Jqawk.readCell]
  cases copyVal (Heap.get { cells := s.heap.cells.push x, arrs := s.heap.arrs, objs := s.heap.objs } v) with
  | ok w =>
    exact fun i => ⟨Rel.heapOnly s _ (HeapPreserved.alloc_set s.heap x w),
      i.same_objs rfl (HeapPreserved.alloc_set s.heap x w).cells⟩
  | error m =>
    exact fun i => ⟨Rel.heapOnly s _ (HeapPreserved.alloc s.heap x),
      i.same_objs rfl (HeapPreserved.alloc s.heap x).cells⟩

theorem newCopy {α : Type} (x : Val) (v : CellId) {K : Except String CellId → EM α}
    (hK : ∀ r, Pres k fr (K r)) :
    Pres k fr (Jqawk.newCell x >>= fun c => Jqawk.copyValue v c >>= K) := by
  rw [EM.bind_assoc']
  intro s
  exact QR.bind (newCopy0 x v s) hK

end Pres


/-- one decomposition step for goals `Pres k fr (…)` built from the primitives -/
macro "pres_step" : tactic => `(tactic| with_reducible_and_instances first
  | exact Pres.pure _
  | exact Pres.oof
  | exact Pres.getSt
  | exact Pres.getHeap
  | exact Pres.readCell _
  | exact Pres.throwSig _
  | exact Pres.throwPanic _
  | exact Pres.throwUnmodelled _
  | exact Pres.throwRt _ _
  | exact Pres.liftExcept _ _
  | exact Pres.newCell _
  | exact Pres.emit _
  | exact Pres.allocArrM _
  | exact Pres.allocObjM_nil
  | exact Pres.setReturnVal _
  | exact Pres.setLocal _ _
  | exact Pres.getVariable _
  | exact Pres.bindAll _
  | exact Pres.bindParams _ _
  | exact Pres.allocCells _
  | exact Pres.newArrayOf _
  | assumption
  | apply Pres.newCopy
  | apply Pres.bind
  | intro _
  | split
  | dsimp only)

macro "pres_auto" : tactic => `(tactic| repeat' pres_step)

namespace Pres

variable {k fr : Bool}

theorem readThen {α : Type} (c : CellId) {f : Val → EM α}
    (h : ∀ s, QR k fr s (f (s.heap.get c) s)) : Pres k fr (Jqawk.readCell c >>= f) := fun s => h s

theorem kind_unknown {v : Val} (h : (v.kind == Kind.unknown) = true) : v = .unknown := by
  cases v <;> simp [Val.kind] at h ⊢

/-- **the member / index step** only allocates: a missing member — and every member of an unset
    base — is NOT created; the result is a fresh cell that only remembers parent and key -/
theorem memberStep (pos : Nat) (left right : CellId) : Pres k fr (Jqawk.memberStep pos left right) := by
  unfold Jqawk.memberStep
  pres_auto

theorem pluck (args : List Val) (this : Option Val) :
    Pres k fr (Jqawk.callNative .objPluck args this) := by
  intro s
  cases this with
  | none => exact Good.refl k fr s
  | some v =>
    cases v with
    | obj o =>
      rw [callNative_objPluck]
      split
      · exact Good.refl k fr s
      · rename_i kvs _
        intro i
        refine ⟨Rel.heapOnly s _ ((HeapPreserved.allocMany s.heap _).trans
          (HeapPreserved.allocObj (s.heap.allocMany _) _)), ?_⟩
        refine Inv.push_obj (h := s.heap.allocMany (kvs.map (·.2)))
          (i.same_objs rfl (HeapPreserved.allocMany s.heap _).cells) _ ?_
        apply objLookup_pluckMembers_inv (fun _ c => c < (s.heap.allocMany (kvs.map (·.2))).cells.size)
        · intro key c hl; simp [objLookup] at hl
        · intro kc hkc
          have := (List.of_mem_zip hkc).2
          rw [List.mem_range'_1] at this
          simp [Heap.allocMany]
          exact this.2
    | _ => exact Good.refl k fr s

/-- a native that is not push/pop/popfirst, or whose receiver is not an array, only allocates
    (and `printf` writes output) -/
theorem callNative (f : Native) (args : List Val) (this : Option Val)
    (hok : f.mutating = false ∨ ∀ a, this ≠ some (.arr a)) :
    Pres k fr (Jqawk.callNative f args this) := by
  by_cases hp : f = .objPluck
  · subst hp; exact pluck args this
  · have hne : f.mutating = true → ∀ a, this ≠ some (.arr a) := by
      intro hm; rcases hok with h | h
      · rw [hm] at h; cases h
      · exact h
    unfold Jqawk.callNative
    apply bind getHeap
    intro h
    cases f <;> dsimp only
    case objPluck => exact absurd rfl hp
    case arrPush =>
      split
      · rename_i a; exact absurd rfl (hne rfl a)
      · pres_auto
    case arrPop =>
      split
      · rename_i a; exact absurd rfl (hne rfl a)
      · pres_auto
    case arrPopfirst =>
      split
      · rename_i a; exact absurd rfl (hne rfl a)
      · pres_auto
    all_goals pres_auto

/-! ### control combinators -/

theorem loopIter {body kk : EM Unit} (hb : Pres k fr body) (hk : Pres k fr kk) :
    Pres k fr (Jqawk.loopIter body kk) := by
  intro s
  unfold Jqawk.loopIter
  have h := hb s
  cases hr : body s with
  | ok a s1 => rw [hr] at h; exact QR.trans h (hk s1)
  | err e s1 =>
    rw [hr] at h
    cases e with
    | sig g =>
      cases g with
      | brk => exact h
      | cont => exact QR.trans h (hk s1)
      | ret => exact h
      | next => exact h
      | exit => exact h
    | runtime p m => exact h
    | panic m => exact h
    | unmodelled m => exact h
  | oof => trivial

theorem catchReturn {body : EM Unit} (hb : Pres k fr body) : Pres k fr (Jqawk.catchReturn body) := by
  intro s
  unfold Jqawk.catchReturn
  have h := hb s
  cases hr : body s with
  | ok a s1 => rw [hr] at h; exact h
  | err e s1 =>
    rw [hr] at h
    cases e with
    | sig g => cases g <;> exact h
    | runtime p m => exact h
    | panic m => exact h
    | unmodelled m => exact h
  | oof => trivial

/-- a frame pushed for a call or a match body, the body run in it, the saved stack restored:
    whatever the body did to its own frame is gone afterwards -/
theorem framed {α : Type} (name : Bytes) (pos : Nat) (body : EM α) (hb : Pres k false body) :
    Pres k fr (do
      let saved := (← Jqawk.getSt).frames
      match (← Jqawk.pushFrame name) with
      | .error m => Jqawk.throwRt pos m
      | .ok () => Jqawk.withFrames saved body) := by
  intro s
  by_cases hd : s.frames.length > callDepthLimit
  · simp only [Bind.bind, EM.bind, Jqawk.getSt, Jqawk.pushFrame, hd, ↓reduceIte]
    exact throwRt pos _ s
  · simp only [Bind.bind, EM.bind, Jqawk.getSt, Jqawk.pushFrame, hd, ↓reduceIte, Jqawk.withFrames]
    have h := hb { s with frames := ⟨name, []⟩ :: s.frames,
                          maxDepth := max s.maxDepth (s.frames.length + 1) }
    have fix : ∀ s0 s1 : St, Good k false s0 s1 → s0.heap = s.heap → s0.root = s.root →
        s0.ruleRoot = s.ruleRoot → Good k fr s { s1 with frames := s.frames } := by
      intro s0 s1 hg e1 e2 e3 i
      obtain ⟨r, i1⟩ := hg (e1 ▸ i)
      exact ⟨⟨e1 ▸ r.heap, fun _ _ _ hx => hx, r.root.trans e2, r.ruleRoot.trans e3⟩, i1⟩
    cases hr : body { s with frames := ⟨name, []⟩ :: s.frames,
                             maxDepth := max s.maxDepth (s.frames.length + 1) } with
    | ok a s1 => rw [hr] at h; exact fix _ s1 h rfl rfl rfl
    | err e s1 => rw [hr] at h; exact fix _ s1 h rfl rfl rfl
    | oof => trivial

theorem getIdentifier (prog : Program) (t : Token) : Pres k fr (Jqawk.getIdentifier prog t) := by
  unfold Jqawk.getIdentifier
  pres_auto

end Pres


/-! ## the callee of a method call -/

/-- what evaluating the callee of a read-only call guarantees about the cell it yields: it is
    allocated, and if it holds a native function, that is not push/pop/popfirst or its receiver
    is (and stays) something other than an array -/
def CalleeOK (h : Heap) (c : CellId) : Prop :=
  c < h.cells.size ∧ ∀ f b sp, h.get c = .native f b sp →
    f.mutating = false ∨ ∀ bc, b = some bc → h.get bc ≠ .unknown ∧ ∀ a, h.get bc ≠ .arr a



/-- `memberStep` on a base that is set -/
def memberRead (pos : Nat) (left : CellId) (rv : Val) : EM CellId := do
  let lv ← readCell left
  let h ← getHeap
  match getMember h lv rv with
  | .error m => throwRt pos m
  | .ok .missing =>
    let key : Key := match rv with
      | .num x => .num x
      | _ => .str rv.str!
    newCell (.nil (some ⟨left, key⟩))
  | .ok (.method f) => newCell (.native f (some left) (some ⟨left, .str rv.str!⟩))
  | .ok (.char none x) => newCell (.nil (some ⟨left, .num x⟩))
  | .ok (.char (some ch) x) => newCell (.str ch (some ⟨left, .num x⟩))
  | .ok (.cell c) =>
    match h.get c with
    | .native f _ _ => newCell (.native f (some left) (some ⟨left, .str rv.str!⟩))
    | _ => return c

theorem memberStep_str (pos : Nat) (left right : CellId) (s : St) (key : Bytes) (sp : Option SpecRef)
    (hr : s.heap.get right = .str key sp) :
    memberStep pos left right s =
      if s.heap.get left = .unknown then
        Jqawk.newCell (.nil (some ⟨left, .str key⟩)) s
      else memberRead pos left (.str key sp) s := by
  unfold memberStep memberRead
  by_cases hu : s.heap.get left = .unknown
  · simp only [bind, EM.bind, readCell, hr, hu, Val.kind, ↓reduceIte, beq_self_eq_true, Val.str!]
  · have hk : ((s.heap.get left).kind == Kind.unknown) = false := by
      cases hv : s.heap.get left <;> simp_all [Val.kind]
    simp only [bind, EM.bind, readCell, hr, hu, hk, getHeap, ↓reduceIte, Bool.false_eq_true, pure]
    rfl

theorem proto_nonmutating (key : Bytes) (f : Native) (hm : mutatingName key = false)
    (h : arrayProto key = some f ∨ objProto key = some f ∨ strProto key = some f ∨ numProto key = some f) :
    f.mutating = false := by
  simp only [mutatingName, Bool.or_eq_false_iff] at hm
  obtain ⟨⟨h1, h2⟩, h3⟩ := hm
  rcases h with h | h | h | h
  · simp only [arrayProto, h1, h2, h3, Bool.false_eq_true, ↓reduceIte] at h
    repeat' split at h
    all_goals first | (cases h; done) | (cases h; rfl)
  · simp only [objProto] at h
    repeat' split at h
    all_goals first | (cases h; done) | (cases h; rfl)
  · simp only [strProto] at h
    repeat' split at h
    all_goals first | (cases h; done) | (cases h; rfl)
  · simp only [numProto] at h
    repeat' split at h
    all_goals first | (cases h; done) | (cases h; rfl)

/-- what `GetMember` can return for a string key -/
theorem getMember_str (h : Heap) (lv : Val) (key : Bytes) (sp : Option SpecRef) (m : Member)
    (hg : getMember h lv (.str key sp) = .ok m) :
    m = .missing ∨
    (∃ f, m = .method f ∧ (arrayProto key = some f ∨ objProto key = some f ∨ strProto key = some f ∨
      numProto key = some f)) ∨
    (∃ o c, lv = .obj o ∧ m = .cell c ∧ objLookup (h.obj o) key = some c) := by
  have hp : ∀ tbl, protoGet tbl (.str key sp) = .ok m →
      m = .missing ∨ ∃ f, m = .method f ∧ tbl key = some f := by
    intro tbl hp
    simp only [protoGet, Val.str!] at hp
    split at hp
    · rename_i f hf; cases hp; exact .inr ⟨f, rfl, hf⟩
    · cases hp; exact .inl rfl
  cases lv with
  | arr a =>
    simp only [getMember] at hg
    rcases hp _ hg with h | ⟨f, h1, h2⟩
    · exact .inl h
    · exact .inr (.inl ⟨f, h1, .inl h2⟩)
  | obj o =>
    simp only [getMember, Val.str!] at hg
    split at hg
    · rename_i c hc; cases hg; exact .inr (.inr ⟨o, c, rfl, rfl, hc⟩)
    · rcases hp _ hg with h | ⟨f, h1, h2⟩
      · exact .inl h
      · exact .inr (.inl ⟨f, h1, .inr (.inl h2)⟩)
  | str s0 sp0 =>
    simp only [getMember] at hg
    rcases hp _ hg with h | ⟨f, h1, h2⟩
    · exact .inl h
    · exact .inr (.inl ⟨f, h1, .inr (.inr (.inl h2))⟩)
  | num x =>
    simp only [getMember] at hg
    rcases hp _ hg with h | ⟨f, h1, h2⟩
    · exact .inl h
    · exact .inr (.inl ⟨f, h1, .inr (.inr (.inr h2))⟩)
  | _ => simp only [getMember] at hg; cases hg; exact .inl rfl

theorem newCell_ok (v : Val) (s : St) (c : CellId) (s' : St) (h : Jqawk.newCell v s = .ok c s') :
    c = s.heap.cells.size ∧ s'.heap = (s.heap.alloc v).2 := by
  simp only [Jqawk.newCell, Heap.alloc, Res.ok.injEq] at h
  obtain ⟨rfl, rfl⟩ := h
  exact ⟨rfl, rfl⟩

theorem Heap.get_alloc_new_readOnly (h : Heap) (v : Val) : (h.alloc v).2.get h.cells.size = v :=
  Heap.get_push_new h v

theorem Heap.get_alloc_old (h : Heap) (v : Val) (c : CellId) (hc : c < h.cells.size) :
    (h.alloc v).2.get c = h.get c := Heap.get_push_old h v c hc

theorem Heap.size_alloc (h : Heap) (v : Val) : (h.alloc v).2.cells.size = h.cells.size + 1 := by
  simp [Heap.alloc]

/-- the callee of a read-only method call: see `CalleeOK` -/
theorem memberRead_callee (pos : Nat) (left : CellId) (key : Bytes) (sp : Option SpecRef) (s : St)
    (c : CellId) (s' : St) (hk : ObjsInRange s.heap) (hm : mutatingName key = false)
    (h : memberRead pos left (.str key sp) s = .ok c s') : CalleeOK s'.heap c := by
  unfold memberRead at h
  simp only [bind, EM.bind, readCell, getHeap] at h
  have fresh : ∀ v, Jqawk.newCell v s = .ok c s' →
      (∀ f b sp', v = .native f b sp' → f.mutating = false ∨
        (b = some left ∧ s.heap.get left ≠ .unknown ∧ ∀ a, s.heap.get left ≠ .arr a)) →
      CalleeOK s'.heap c := by
    intro v hn hv
    obtain ⟨rfl, e⟩ := newCell_ok v s c s' hn
    rw [e]
    refine ⟨by rw [Heap.size_alloc]; exact Nat.lt_succ_self _, ?_⟩
    intro f b sp' hget
    rw [Heap.get_alloc_new_readOnly] at hget
    rcases hv f b sp' hget with h1 | ⟨rfl, h2, h3⟩
    · exact .inl h1
    · right
      intro bc hbc
      cases hbc
      rw [Heap.get_alloc_old _ _ _ (Heap.lt_of_get_ne_unknown _ _ h2)]
      exact ⟨h2, h3⟩
  cases hg : getMember s.heap (s.heap.get left) (.str key sp) with
  | error m => rw [hg] at h; simp [Jqawk.throwRt] at h
  | ok mem =>
    rw [hg] at h
    rcases getMember_str _ _ _ _ _ hg with rfl | ⟨f, rfl, hf⟩ | ⟨o, c0, hlv, rfl, hl⟩
    · exact fresh _ h (fun f b sp' e => by cases e)
    · refine fresh _ h (fun f' b sp' e => ?_)
      cases e
      exact .inl (proto_nonmutating key _ hm hf)
    · dsimp only at h
      have hc0 : c0 < s.heap.cells.size := hk o key c0 hl
      cases hv : s.heap.get c0 with
      | native f b0 sp0 =>
        rw [hv] at h
        refine fresh _ h (fun f' b sp' e => ?_)
        cases e
        right
        refine ⟨rfl, by rw [hlv]; simp, by rw [hlv]; simp⟩
      | _ =>
        rw [hv] at h
        simp only [pure, EM.pure, Res.ok.injEq] at h
        obtain ⟨rfl, rfl⟩ := h
        exact ⟨hc0, fun f b sp' e => by rw [hv] at e; cases e⟩


theorem CalleeOK.stable {h h' : Heap} {c : CellId} (hc : CalleeOK h c) (p : HeapPreserved h h') :
    CalleeOK h' c := by
  refine ⟨Nat.lt_of_lt_of_le hc.1 p.cells, ?_⟩
  intro f b sp hget
  rw [p.get c hc.1] at hget
  rcases hc.2 f b sp hget with h1 | h1
  · exact .inl h1
  · right
    intro bc hbc
    obtain ⟨h2, h3⟩ := h1 bc hbc
    rw [p.get_of_ne bc h2]
    exact ⟨h2, h3⟩

/-- a literal member name evaluates to a fresh string cell (or fails) -/
theorem evalExpr_lit_key (prog : Program) (n : Nat) (t : Token) (s : St) (hs : safeKey t = true) :
    evalExpr prog n (.lit t) s = .oof ∨
    (∃ p m, evalExpr prog n (.lit t) s = Jqawk.throwRt p m s) ∨
    (∃ key, mutatingName key = false ∧ evalExpr prog n (.lit t) s = Jqawk.newCell (.str key none) s) := by
  cases n with
  | zero => left; unfold evalExpr; rfl
  | succ n =>
    right
    unfold evalExpr
    simp only [safeKey, Bool.and_eq_true, Bool.or_eq_true, beq_iff_eq] at hs
    obtain ⟨htag, hkey⟩ := hs
    cases hk : evalStringLit t.text with
    | error m =>
      left
      refine ⟨t.pos, m, ?_⟩
      rcases htag with h | h <;> simp only [h, hk]
    | ok key =>
      right
      rw [hk] at hkey
      refine ⟨key, by simpa using hkey, ?_⟩
      rcases htag with h | h <;> simp only [h, hk]

/-! ## the mutual induction over the evaluator -/

theorem readOnly_lit (k : Bool) (t : Token) : Expr.readOnly k (.lit t) = true := by
  simp [Expr.readOnly]

theorem readOnly_ident (k : Bool) (t : Token) : Expr.readOnly k (.ident t) = true := by
  simp [Expr.readOnly]

/-- the invariant with a postcondition on the value of a successful result -/
def QP {α : Type} (k fr : Bool) (s : St) (P : α → St → Prop) : Res α → Prop
  | .ok a s' => Inv k s.heap → Rel fr s s' ∧ Inv k s'.heap ∧ P a s'
  | .err _ s' => Good k fr s s'
  | .oof => True

theorem QR.of_inv {α : Type} {k fr : Bool} {s : St} {r : Res α} (h : Inv k s.heap → QR k fr s r) :
    QR k fr s r := by
  cases r with
  | ok a s' => exact fun i => h i i
  | err e s' => exact fun i => h i i
  | oof => trivial

theorem QP.trans {α : Type} {k fr : Bool} {s s1 : St} {P : α → St → Prop} {r : Res α}
    (hg : Good k fr s s1) (h : Inv k s.heap → Rel fr s s1 → Inv k s1.heap → QP k fr s1 P r) :
    QP k fr s P r := by
  cases r with
  | ok a s' =>
    intro i
    obtain ⟨r1, i1⟩ := hg i
    obtain ⟨r2, i2, p⟩ := h i r1 i1 i1
    exact ⟨r1.trans r2, i2, p⟩
  | err e s' =>
    intro i
    obtain ⟨r1, i1⟩ := hg i
    obtain ⟨r2, i2⟩ := h i r1 i1 i1
    exact ⟨r1.trans r2, i2⟩
  | oof => trivial

theorem QP.bind_left {α β : Type} {k fr : Bool} {s : St} {m : EM α} {f : α → EM β} {P : β → St → Prop}
    (hm : QR k fr s (m s))
    (hf : ∀ a s1, m s = .ok a s1 → Inv k s.heap → Rel fr s s1 → Inv k s1.heap → QP k fr s1 P (f a s1)) :
    QP k fr s P ((m >>= f) s) := by
  show QP k fr s P (EM.bind m f s)
  unfold EM.bind
  cases hr : m s with
  | ok a s1 => rw [hr] at hm; exact QP.trans hm (hf a s1 hr)
  | err e s1 => rw [hr] at hm; exact hm
  | oof => trivial

theorem QR.bind_of_QP {α β : Type} {k fr : Bool} {s : St} {m : EM α} {f : α → EM β} {P : α → St → Prop}
    (hm : QP k fr s P (m s)) (hf : ∀ a s1, P a s1 → QR k fr s1 (f a s1)) :
    QR k fr s ((m >>= f) s) := by
  show QR k fr s (EM.bind m f s)
  unfold EM.bind
  cases hr : m s with
  | ok a s1 =>
    rw [hr] at hm
    exact QR.of_inv (fun i => by
      obtain ⟨r1, i1, p⟩ := hm i
      exact QR.trans (fun _ => ⟨r1, i1⟩) (hf a s1 p))
  | err e s1 => rw [hr] at hm; exact hm
  | oof => trivial

theorem QR.readThen {α : Type} {k fr : Bool} {s : St} {c : CellId} {f : Val → EM α}
    (h : QR k fr s (f (s.heap.get c) s)) : QR k fr s ((Jqawk.readCell c >>= f) s) := h

theorem QR.heapThen {α : Type} {k fr : Bool} {s : St} {f : Heap → EM α}
    (h : QR k fr s (f s.heap s)) : QR k fr s ((Jqawk.getHeap >>= f) s) := h

theorem newCopy_eq (x : Val) (v : CellId) (s : St) :
    (Jqawk.newCell x >>= fun c => Jqawk.copyValue v c) s =
      match copyVal ((s.heap.alloc x).2.get v) with
      | .ok w => .ok (.ok s.heap.cells.size)
          { s with heap := (s.heap.alloc x).2.set s.heap.cells.size w }
      | .error m => .ok (.error m) { s with heap := (s.heap.alloc x).2 } := by
  simp only [bind, EM.bind, Jqawk.newCell, Jqawk.copyValue, Jqawk.readCell, Heap.alloc]
  cases copyVal (Heap.get { cells := s.heap.cells.push x, arrs := s.heap.arrs, objs := s.heap.objs } v) <;> rfl

theorem newCopy_ok (x : Val) (v : CellId) (s : St) (r : Except String CellId) (s' : St)
    (h : (Jqawk.newCell x >>= fun c => Jqawk.copyValue v c) s = .ok r s') :
    s.heap.cells.size < s'.heap.cells.size ∧ ∀ c, r = .ok c → c = s.heap.cells.size := by
  rw [newCopy_eq] at h
  split at h
  · simp only [Res.ok.injEq] at h
    obtain ⟨rfl, rfl⟩ := h
    refine ⟨?_, fun c e => by cases e; rfl⟩
    rw [Heap.size_set, Heap.size_alloc]; exact Nat.lt_succ_self _
  · simp only [Res.ok.injEq] at h
    obtain ⟨rfl, rfl⟩ := h
    refine ⟨?_, fun c e => by cases e⟩
    rw [Heap.size_alloc]; exact Nat.lt_succ_self _

theorem readOnly_call {k : Bool} {f : Expr} {args : List Expr}
    (h : Expr.readOnly k (.call f args) = true) :
    ∃ recv t op, f = .binary recv (.lit t) op ∧ k = true ∧ (op.tag = .dot ∨ op.tag = .lsquare) ∧
      safeKey t = true ∧ Expr.readOnly k recv = true ∧ roEs k args = true := by
  cases f with
  | binary l r op =>
    cases r with
    | lit t =>
      simp only [Expr.readOnly, Bool.and_eq_true, Bool.or_eq_true, beq_iff_eq] at h
      obtain ⟨⟨⟨⟨a, b⟩, c⟩, d⟩, e⟩ := h
      exact ⟨l, t, op, rfl, a, b, c, d, e⟩
    | _ => simp [Expr.readOnly] at h
  | _ => simp [Expr.readOnly] at h

theorem memberStep_callee {k fr : Bool} (hk : k = true) (pos : Nat) (left right : CellId) (s : St)
    (key : Bytes) (sp : Option SpecRef) (hr : s.heap.get right = .str key sp)
    (hm : mutatingName key = false) :
    QP k fr s (fun c s' => CalleeOK s'.heap c) (memberStep pos left right s) := by
  have hg := Pres.memberStep (k := k) (fr := fr) pos left right s
  cases hres : memberStep pos left right s with
  | oof => trivial
  | err e s' => rw [hres] at hg; exact hg
  | ok c s' =>
    rw [hres] at hg
    intro i
    obtain ⟨r, i'⟩ := hg i
    refine ⟨r, i', ?_⟩
    rw [memberStep_str pos left right s key sp hr] at hres
    split at hres
    · obtain ⟨rfl, e⟩ := newCell_ok _ s c s' hres
      rw [e]
      refine ⟨by rw [Heap.size_alloc]; exact Nat.lt_succ_self _, ?_⟩
      intro f b sp' hget
      rw [Heap.get_alloc_new_readOnly] at hget
      cases hget
    · exact memberRead_callee pos left key sp s c s' (i hk) hm hres

structure AllRO (prog : Program) (k : Bool) (n : Nat) : Prop where
  expr : ∀ fr e, Expr.readOnly k e = true → Pres k fr (evalExpr prog n e)
  objItems : ∀ fr pos items acc, roKVs k items = true → ∀ s,
    (∀ key c, objLookup acc key = some c → c < s.heap.cells.size) →
    QP k fr s (fun m s' => ∀ key c, objLookup m key = some c → c < s'.heap.cells.size)
      (evalObjItems prog n pos items acc s)
  exprList : ∀ fr es c, roEs k es = true → Pres k fr (evalExprList prog n es c)
  matchCases : ∀ fr pos v cs, roCases k cs = true → Pres k fr (evalMatchCases prog n pos v cs)
  caseMatch : ∀ fr v ps, Pres k fr (evalCaseMatch prog n v ps)
  arrayCaseMatch : ∀ fr v ps, Pres k fr (evalArrayCaseMatch prog n v ps)
  matchElems : ∀ fr cs ps acc, Pres k fr (Jqawk.matchElems prog n cs ps acc)
  call : k = true → ∀ fr pos f args s, CalleeOK s.heap f → QR k fr s (callFunction prog n pos f args s)
  calleeE : k = true → ∀ fr recv t op, Expr.readOnly k recv = true → (op.tag = .dot ∨ op.tag = .lsquare) →
    safeKey t = true → ∀ s, QP k fr s (fun c s' => CalleeOK s'.heap c)
      (evalExpr prog n (.binary recv (.lit t) op) s)
  calleeB : k = true → ∀ fr recv t op, Expr.readOnly k recv = true → (op.tag = .dot ∨ op.tag = .lsquare) →
    safeKey t = true → ∀ s, QP k fr s (fun c s' => CalleeOK s'.heap c)
      (evalBinary prog n recv (.lit t) op s)
  unary : ∀ fr e op p, (op.tag == Tag.plusPlus) = false → (op.tag == Tag.minusMinus) = false →
    Expr.readOnly k e = true → Pres k fr (evalUnary prog n e op p)
  binary : ∀ fr l r op, (op.tag == Tag.equal) = false → Expr.readOnly k l = true →
    Expr.readOnly k r = true → Pres k fr (evalBinary prog n l r op)
  stmt : ∀ fr st, Stmt.readOnly k st = true → Pres k fr (evalStmt prog n st)
  block : ∀ fr sts, roSs k sts = true → Pres k fr (evalBlock prog n sts)
  whileL : ∀ fr c b, Expr.readOnly k c = true → Stmt.readOnly k b = true →
    Pres k fr (whileLoop prog n c b)
  forL : ∀ fr c p b, Expr.readOnly k c = true → Expr.readOnly k p = true → Stmt.readOnly k b = true →
    Pres k fr (forLoop prog n c p b)

/-- try the induction hypotheses, finding the syntactic side conditions among the assumptions -/
macro "pres_ih" ih:term : tactic => `(tactic| with_reducible_and_instances first
  | exact ($ih).expr _ _ (by first | assumption | exact readOnly_lit _ _ | exact readOnly_ident _ _)
  | exact ($ih).exprList _ _ _ (by assumption)
  | exact ($ih).matchCases _ _ _ _ (by assumption)
  | exact ($ih).caseMatch _ _ _
  | exact ($ih).arrayCaseMatch _ _ _
  | exact ($ih).matchElems _ _ _ _
  | exact ($ih).unary _ _ _ _ (by assumption) (by assumption) (by assumption)
  | exact ($ih).binary _ _ _ _ (by assumption) (by assumption) (by assumption)
  | exact ($ih).stmt _ _ (by assumption)
  | exact ($ih).block _ _ (by assumption)
  | exact ($ih).whileL _ _ _ (by assumption) (by assumption)
  | exact ($ih).forL _ _ _ _ (by assumption) (by assumption) (by assumption))

macro "pres_ind" ih:term : tactic => `(tactic| repeat' (first
  | pres_ih $ih
  | (with_reducible_and_instances first
      | exact Pres.memberStep _ _ _
      | exact Pres.getIdentifier _ _
      | apply Pres.loopIter
      | apply Pres.catchReturn
      | apply Pres.framed)
  | pres_step))

theorem allRO_zero (prog : Program) (k : Bool) : AllRO prog k 0 := by
  constructor
  case call => intro _ _ _ _ _ s _; unfold callFunction; exact Pres.oof (k := k) s
  case objItems => intro _ _ _ _ _ s _; unfold evalObjItems; trivial
  case calleeE => intro _ _ _ _ _ _ _ _ s; unfold evalExpr; trivial
  case calleeB => intro _ _ _ _ _ _ _ _ s; unfold evalBinary; trivial
  all_goals
    intros
    first
      | (unfold evalExpr; exact Pres.oof)
      | (unfold evalExprList; exact Pres.oof)
      | (unfold evalMatchCases; exact Pres.oof)
      | (unfold evalCaseMatch; exact Pres.oof)
      | (unfold evalArrayCaseMatch; exact Pres.oof)
      | (unfold Jqawk.matchElems; exact Pres.oof)
      | (unfold evalUnary; exact Pres.oof)
      | (unfold evalBinary; exact Pres.oof)
      | (unfold evalStmt; exact Pres.oof)
      | (unfold evalBlock; exact Pres.oof)
      | (unfold whileLoop; exact Pres.oof)
      | (unfold forLoop; exact Pres.oof)


theorem allRO_succ (prog : Program) (k : Bool) (hfn : k = true → prog.FnsRO) (n : Nat)
    (ih : AllRO prog k n) : AllRO prog k (n + 1) := by
  constructor
  · -- evalExpr
    intro fr e he
    unfold evalExpr
    cases e with
    | lit t => dsimp only; pres_ind ih
    | ident t => dsimp only; pres_ind ih
    | arr t items =>
      simp only [Expr.readOnly] at he
      dsimp only; pres_ind ih
    | obj t items =>
      simp only [Expr.readOnly] at he
      dsimp only
      intro s
      refine QR.bind_of_QP (ih.objItems fr t.pos items [] he s (by simp [objLookup])) (fun m s1 hm => ?_)
      refine QR.bind (m := Jqawk.allocObjM m) ?_ (fun o => Pres.newCell _)
      exact fun i => ⟨Rel.heapOnly s1 _ (HeapPreserved.allocObj s1.heap m), i.push_obj m hm⟩
    | unary e op p =>
      simp only [Expr.readOnly, Bool.and_eq_true, Bool.not_eq_true'] at he
      obtain ⟨⟨h1, h2⟩, h3⟩ := he
      dsimp only; pres_ind ih
    | binary l r op =>
      simp only [Expr.readOnly, Bool.and_eq_true, Bool.not_eq_true'] at he
      obtain ⟨⟨h1, h2⟩, h3⟩ := he
      dsimp only; pres_ind ih
    | call f args =>
      obtain ⟨recv, t, op, rfl, hk, hop, hkey, hrecv, hargs⟩ := readOnly_call he
      dsimp only
      intro s
      refine QR.bind_of_QP (ih.calleeE hk fr recv t op hrecv hop hkey s) (fun fc s1 hc1 => ?_)
      show QR k fr s1 (EM.bind _ _ s1)
      unfold EM.bind
      have h2 := ih.exprList fr args true hargs s1
      cases hr2 : evalExprList prog n args true s1 with
      | ok acs s2 =>
        rw [hr2] at h2
        exact QR.of_inv (fun i1 => by
          obtain ⟨r2, i2⟩ := h2 i1
          exact QR.trans h2 (ih.call hk fr _ fc acs s2 (hc1.stable r2.heap)))
      | err e s2 => rw [hr2] at h2; exact h2
      | oof => trivial
    | match_ t v cases =>
      simp only [Expr.readOnly, Bool.and_eq_true] at he
      obtain ⟨h1, h2⟩ := he
      dsimp only; pres_ind ih
  · -- evalObjItems
    intro fr pos items acc h s hacc
    cases items with
    | nil => unfold evalObjItems; exact fun i => ⟨Rel.refl fr s, i, hacc⟩
    | cons kv rest =>
      obtain ⟨key, e⟩ := kv
      simp only [roKVs, Bool.and_eq_true] at h
      obtain ⟨h1, h2⟩ := h
      unfold evalObjItems
      refine QP.bind_left (ih.expr fr e h1 s) (fun value s1 _ i r1 i1 => ?_)
      rw [EM.bind_assoc']
      refine QP.bind_left (Pres.newCopy0 _ _ s1) (fun r s2 hr2 i1' r2 i2 => ?_)
      obtain ⟨hlt, hc⟩ := newCopy_ok _ _ _ _ _ hr2
      cases r with
      | error m => exact Pres.throwRt (α := List (Bytes × CellId)) pos m s2
      | ok c =>
        dsimp only
        apply ih.objItems fr pos rest _ h2 s2
        intro key' c' hl
        rw [objLookup_objInsert] at hl
        split at hl
        · cases hl; rw [hc c rfl]; exact hlt
        · exact Nat.lt_trans (Nat.lt_of_lt_of_le (hacc key' c' hl) r1.heap.cells) hlt
  · -- evalExprList
    intro fr es c h
    cases es with
    | nil => unfold evalExprList; exact Pres.pure _
    | cons e rest =>
      simp only [roEs, Bool.and_eq_true] at h
      obtain ⟨h1, h2⟩ := h
      unfold evalExprList; pres_ind ih
  · -- evalMatchCases
    intro fr pos v cs h
    cases cs with
    | nil => unfold evalMatchCases; exact Pres.newCell _
    | cons c rest =>
      obtain ⟨pats, body⟩ := c
      simp only [roCases, Bool.and_eq_true] at h
      obtain ⟨h1, h2⟩ := h
      unfold evalMatchCases
      cases body with
      | expr be =>
        have h1' : Expr.readOnly k be = true := by simpa [Stmt.readOnly] using h1
        pres_ind ih
      | _ => pres_ind ih
  · -- evalCaseMatch
    intro fr v ps
    cases ps with
    | nil => unfold evalCaseMatch; exact Pres.pure _
    | cons p rest =>
      unfold evalCaseMatch
      cases p <;> dsimp only <;> pres_ind ih
  · -- evalArrayCaseMatch
    intro fr v ps
    unfold evalArrayCaseMatch
    pres_ind ih
  · -- matchElems
    intro fr cs ps acc
    cases cs with
    | nil => unfold Jqawk.matchElems; exact Pres.pure _
    | cons c cs =>
      cases ps with
      | nil => unfold Jqawk.matchElems; exact Pres.pure _
      | cons p ps => unfold Jqawk.matchElems; pres_ind ih
  · -- callFunction
    intro hk fr pos fc args s hc
    subst hk
    unfold callFunction
    refine QR.readThen ?_
    refine QR.heapThen ?_
    dsimp only
    cases hv : s.heap.get fc with
    | native f b sp =>
      dsimp only
      refine QR.bind (Pres.callNative f _ _ ?_ s) (fun r => by pres_auto)
      rcases hc.2 f b sp hv with h | h
      · exact .inl h
      · right
        intro a e
        cases b with
        | none => cases e
        | some bc =>
          simp only [Option.map_some, Option.some.injEq] at e
          exact (h bc rfl).2 a e
    | fn i =>
      dsimp only
      refine (?_ : Pres true fr _) s
      split
      · exact Pres.throwPanic _
      · rename_i fd hfd
        have hbody : Stmt.readOnly true fd.body = true := hfn rfl fd (List.mem_of_getElem? hfd)
        apply Pres.framed
        exact Pres.bind (Pres.bindParams _ _) (fun _ =>
          Pres.bind (Pres.catchReturn (ih.stmt false fd.body hbody)) (fun rv => Pres.newCell rv))
    | _ => exact Pres.throwRt _ _ s
  · -- calleeE
    intro hk fr recv t op h1 h2 h3 s
    unfold evalExpr
    exact ih.calleeB hk fr recv t op h1 h2 h3 s
  · -- calleeB
    intro hk fr recv t op hrecv hop hkey s
    unfold evalBinary
    refine QP.bind_left (ih.expr fr recv hrecv s) (fun left s1 _ i r1 i1 => ?_)
    have goal' : QP k fr s1 (fun c s' => CalleeOK s'.heap c)
        ((evalExpr prog n (.lit t) >>= fun right => memberStep recv.token.pos left right) s1) := by
      show QP k fr s1 _ (EM.bind (evalExpr prog n (.lit t)) _ s1)
      unfold EM.bind
      rcases evalExpr_lit_key prog n t s1 hkey with h0 | ⟨p, m, h0⟩ | ⟨key, hmut, h0⟩
      · rw [h0]; trivial
      · rw [h0]; exact Pres.throwRt (α := CellId) p m s1
      · rw [h0]
        exact QP.trans (Pres.newCell (.str key none) s1) (fun _ _ _ =>
          memberStep_callee hk _ _ _ _ key none (Heap.get_alloc_new_readOnly _ _) hmut)
    rcases hop with h | h <;> simp only [h] <;> exact goal'

  · -- evalUnary
    intro fr e op p h1 h2 h3
    unfold evalUnary
    refine Pres.bind (ih.expr fr e h3) (fun val => Pres.bind (Pres.readCell _) (fun v => ?_))
    split
    · pres_auto
    · pres_auto
    · pres_auto
    · rename_i heq; rw [heq] at h1; cases h1
    · rename_i heq; rw [heq] at h2; cases h2
    · pres_auto
  · -- evalBinary
    intro fr l r op h1 h2 h3
    unfold evalBinary
    refine Pres.bind (ih.expr fr l h2) (fun left => ?_)
    split
    · pres_ind ih
    · pres_ind ih
    · pres_ind ih
    · refine Pres.bind (ih.expr fr r h3) (fun right => ?_)
      split
      · pres_ind ih
      · pres_ind ih
      · rename_i heq; rw [heq] at h1; cases h1
      · pres_ind ih
  · -- evalStmt
    intro fr st h
    unfold evalStmt
    cases st with
    | block t body => simp only [Stmt.readOnly] at h; dsimp only; pres_ind ih
    | print t args => simp only [Stmt.readOnly] at h; dsimp only; pres_ind ih
    | expr e => simp only [Stmt.readOnly] at h; dsimp only; pres_ind ih
    | ret e =>
      cases e with
      | none => dsimp only; pres_ind ih
      | some e => simp only [Stmt.readOnly] at h; dsimp only; pres_ind ih
    | brk t => exact Pres.throwSig _
    | cont t => exact Pres.throwSig _
    | next t => exact Pres.throwSig _
    | exit t => exact Pres.throwSig _
    | if_ c b els =>
      cases els with
      | none =>
        simp only [Stmt.readOnly, Bool.and_eq_true] at h
        obtain ⟨h1, h2⟩ := h
        dsimp only; pres_ind ih
      | some eb =>
        simp only [Stmt.readOnly, Bool.and_eq_true] at h
        obtain ⟨⟨h1, h2⟩, h3⟩ := h
        dsimp only; pres_ind ih
    | while_ c b =>
      simp only [Stmt.readOnly, Bool.and_eq_true] at h
      obtain ⟨h1, h2⟩ := h
      dsimp only; pres_ind ih
    | for_ pre c post b =>
      simp only [Stmt.readOnly, Bool.and_eq_true] at h
      obtain ⟨⟨⟨h0, h1⟩, h2⟩, h3⟩ := h
      dsimp only; pres_ind ih
    | forIn id idx iter b => simp [Stmt.readOnly] at h
  · -- evalBlock
    intro fr sts h
    cases sts with
    | nil => unfold evalBlock; exact Pres.pure _
    | cons st rest =>
      simp only [roSs, Bool.and_eq_true] at h
      obtain ⟨h1, h2⟩ := h
      unfold evalBlock; pres_ind ih
  · -- whileLoop
    intro fr c b hc hb
    unfold whileLoop
    pres_ind ih
  · -- forLoop
    intro fr c p b hc hp hb
    unfold forLoop
    pres_ind ih


/-- **Read-only evaluation**: every evaluator function, at every fuel, from every state.
    `k = false`: no calls at all, any program.  `k = true`: method calls with a literal,
    non-mutating name, in a program whose function bodies are read-only. -/
theorem allRO (prog : Program) (k : Bool) (hfn : k = true → prog.FnsRO) : ∀ n, AllRO prog k n
  | 0 => allRO_zero prog k
  | n + 1 => allRO_succ prog k hfn n (allRO prog k hfn n)

end Jqawk
