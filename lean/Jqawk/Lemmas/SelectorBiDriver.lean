/-
  `-r E` versus `BEGINFILE { $ = E }` (C14), builtins, part 3: the invariant `InvB` through the
  rule driver (after Lemmas/NoPanicDriver.lean), and `NewEvaluator` establishes it: in the main
  evaluator of a program without a function of a builtin name, `printf`, `json` and `num` are
  bound to the cells 0, 1, 2, which hold the natives.
-/
import Jqawk.Lemmas.SelectorBiEval

set_option linter.unusedVariables false
set_option linter.unusedSimpArgs false
set_option linter.unusedSectionVars false

namespace Jqawk
namespace Sel

variable {P : Region} {h0 : Heap} {b0 : Bytes → Option CellId} {K : Option CellId → Prop}

theorem InvB.monoK {K K' : Option CellId → Prop} (hK : ∀ r, K r → K' r) {s : St} (h : InvB P h0 b0 K s) :
    InvB P h0 b0 K' s := ⟨h.heap, h.frames, h.ret, h.root, hK _ h.rr⟩

theorem BPres.monoK {K K' : Option CellId → Prop} (hK : ∀ r, K r → K' r) {α : Type} {R : α → Prop}
    {r : Res α} (h : BPres P h0 b0 K R r) : BPres P h0 b0 K' R r := by
  cases r with
  | ok a s' => exact ⟨h.1.monoK hK, h.2⟩
  | err e s' =>
    cases e with
    | runtime p m => exact InvB.monoK hK h
    | sig g => exact InvB.monoK hK h
    | panic m => exact InvB.monoK hK h
    | unmodelled w => exact InvB.monoK hK h
  | oof => trivial

namespace BP

/-- bind `$`, then run code that needs it -/
theorem enter (hK : KSup P K) {c : CellId} (hc : P.N ≤ c) {β : Type} {k : EM β} {R : β → Prop}
    (hk : BP P h0 b0 (KSet P) k R) :
    BP P h0 b0 K (Jqawk.modifySt (fun s => { s with ruleRoot := some c }) >>= fun _ => k) R := by
  intro s hs
  exact BPres.monoK hK (hk { s with ruleRoot := some c }
    ⟨hs.heap, hs.frames, hs.ret, hs.root, ⟨c, rfl, hc⟩⟩)

theorem setRoot {c : Option CellId} (hc : OptReg P c) :
    BP P h0 b0 K (Jqawk.modifySt fun s => { s with root := c }) Tr :=
  fun s hs => ⟨⟨hs.heap, hs.frames, hs.ret, hc, hs.rr⟩, trivial⟩

theorem ruleFlow {m : EM Unit} (hm : BP P h0 b0 K m Tr) : BP P h0 b0 K (Jqawk.ruleFlow m) Tr := by
  intro s hs
  unfold BPat Jqawk.ruleFlow
  have h := hm s hs
  unfold BPat at h
  cases hr : m s with
  | ok a s1 => rw [hr] at h; exact ⟨h.1, trivial⟩
  | err e s1 =>
    rw [hr] at h
    cases e with
    | sig g => cases g <;> first | exact h | exact ⟨h, trivial⟩
    | runtime p m => exact h
    | panic m => exact h
    | unmodelled m => exact h
  | oof => trivial

theorem catchExit {m : EM Unit} (hm : BP P h0 b0 K m Tr) : BP P h0 b0 K (Jqawk.catchExit m) Tr := by
  intro s hs
  unfold BPat Jqawk.catchExit
  have h := hm s hs
  unfold BPat at h
  cases hr : m s with
  | ok a s1 => rw [hr] at h; exact ⟨h.1, trivial⟩
  | err e s1 =>
    rw [hr] at h
    cases e with
    | sig g => cases g <;> first | exact h | exact ⟨h, trivial⟩
    | runtime p m => exact h
    | panic m => exact h
    | unmodelled m => exact h
  | oof => trivial

end BP

/-! ### converting decoded JSON -/

mutual
theorem BP.newValueJson : ∀ j, BP P h0 b0 K (Jqawk.newValueJson j) (GoodV P)
  | .null => by unfold Jqawk.newValueJson; exact BP.pure trivial
  | .bool b => by unfold Jqawk.newValueJson; exact BP.pure trivial
  | .num lit => by unfold Jqawk.newValueJson; exact BP.pure trivial
  | .str s => by unfold Jqawk.newValueJson; exact BP.pure trivial
  | .arr items => by
    unfold Jqawk.newValueJson
    exact BP.bind (BP.newValueItems items) (fun cells hc =>
      BP.bind (BP.allocArrM (by simpa using hc)) (fun a ha => BP.pure ha))
  | .obj members => by
    unfold Jqawk.newValueJson
    exact BP.bind (BP.newValueMembers members) (fun cells hc =>
      BP.bind (BP.allocObjM (RegM.foldInsert hc RegM.nil)) (fun o ho => BP.pure ho))
theorem BP.newValueItems : ∀ js, BP P h0 b0 K (Jqawk.newValueItems js) (RegL P)
  | [] => by unfold Jqawk.newValueItems; exact BP.pure RegL.nil
  | j :: js => by
    unfold Jqawk.newValueItems
    refine BP.bind (BP.newValueJson j) (fun v hv => BP.bind (BP.newCell hv) (fun c hc =>
      BP.bind (BP.newValueItems js) (fun cs hcs => BP.pure ?_)))
    intro d hd
    rcases List.mem_cons.mp hd with hd | hd
    · subst hd; exact hc
    · exact hcs d hd
theorem BP.newValueMembers : ∀ ms, BP P h0 b0 K (Jqawk.newValueMembers ms) (RegM P)
  | [] => by unfold Jqawk.newValueMembers; exact BP.pure RegM.nil
  | (k, j) :: ms => by
    unfold Jqawk.newValueMembers
    refine BP.bind (BP.newValueJson j) (fun v hv => BP.bind (BP.newCell hv) (fun c hc =>
      BP.bind (BP.newValueMembers ms) (fun cs hcs => BP.pure ?_)))
    intro d hd
    rcases List.mem_cons.mp hd with hd | hd
    · subst hd; exact hc
    · exact hcs d hd
end

/-! ### the rule loops -/

theorem okProg_functions {prog : Program} (h : okProg prog = true) :
    ∀ f ∈ prog.functions, okFn f = true := by
  simp only [okProg, Bool.and_eq_true, List.all_eq_true] at h
  exact h.2

theorem okProg_rules {prog : Program} (h : okProg prog = true) :
    ∀ r ∈ prog.rules, okS r.body = true ∧ ∀ p, r.pattern = some p → okE p = true := by
  simp only [okProg, Bool.and_eq_true, List.all_eq_true, okRule] at h
  intro r hr
  have := h.1 r hr
  refine ⟨this.1, fun p hp => ?_⟩
  have h2 := this.2
  rw [hp] at h2
  exact h2

section rules
variable (prog : Program) (hF : P.F ≤ prog.functions.length)
  (hwf : prog.wfB = true) (hok : okProg prog = true)

include hF hwf hok

theorem BP.evalRules (rules : List Rule) (hsub : ∀ r ∈ rules, r ∈ prog.rules) :
    BP P h0 b0 (KSet P) (Jqawk.evalRules prog rules) Tr := by
  have hall := allBP P h0 b0 prog hF (Program.wfB_functions hwf) (okProg_functions hok) evalFuel
  induction rules with
  | nil => exact BP.pure trivial
  | cons rule rest ih =>
    have ih' := ih (fun r hr => hsub r (List.mem_cons_of_mem _ hr))
    have hr := Program.wfB_rules hwf rule (hsub rule (List.mem_cons_self ..))
    have hro := okProg_rules hok rule (hsub rule (List.mem_cons_self ..))
    unfold Jqawk.evalRules
    refine BP.bind (R1 := Tr) ?_ (fun r _ => ?_)
    · split
      · exact BP.pure trivial
      · rename_i p hp
        exact BP.catchSig _ trivial (BP.bind (hall.expr _ (hr.2 p hp) (hro.2 p hp)) (fun c hc =>
          BP.bind (BP.readCell hc) (fun v _ => BP.pure trivial)))
    · split
      · exact BP.pure trivial
      · split
        · exact ih'
        · refine BP.bind (R1 := Tr) (BP.catchSig _ trivial (BP.bind (hall.stmt _ hr.1 hro.1)
            (fun _ _ => BP.pure trivial))) (fun more _ => ?_)
          split
          · exact ih'
          · exact BP.pure trivial

theorem BP.evalElems (hK : KSup P K) (rules : List Rule) (hsub : ∀ r ∈ rules, r ∈ prog.rules)
    (items : List CellId) (hit : RegL P items) (i : Nat) :
    BP P h0 b0 K (Jqawk.evalElems prog rules items i) Tr := by
  induction items generalizing i K with
  | nil => exact BP.pure trivial
  | cons item rest ih =>
    unfold Jqawk.evalElems
    refine BP.enter hK (hit item (List.mem_cons_self ..)) ?_
    exact BP.bind (BP.newCell trivial) (fun ic hic => BP.bind (BP.setLocal (by decide) hic) (fun _ _ =>
      BP.bind (BP.evalRules prog hF hwf hok rules hsub) (fun _ _ =>
        ih KSup.set (fun c hc => hit c (List.mem_cons_of_mem _ hc)) (i + 1))))

theorem BP.evalSpecialRules (hK : KSup P K) (mkRoot : EM CellId)
    (hmk : ∀ K', BP P h0 b0 K' mkRoot (InR P)) (rules : List Rule) (hsub : ∀ r ∈ rules, r ∈ prog.rules) :
    BP P h0 b0 K (Jqawk.evalSpecialRules prog mkRoot rules) Tr := by
  have hall := allBP P h0 b0 prog hF (Program.wfB_functions hwf) (okProg_functions hok) evalFuel
  induction rules generalizing K with
  | nil => exact BP.pure trivial
  | cons rule rest ih =>
    have hr := Program.wfB_rules hwf rule (hsub rule (List.mem_cons_self ..))
    have hro := okProg_rules hok rule (hsub rule (List.mem_cons_self ..))
    unfold Jqawk.evalSpecialRules
    refine BP.bind (hmk K) (fun c hc => BP.enter hK hc ?_)
    refine BP.bind (BP.ruleFlow (hall.stmt _ hr.1 hro.1)) (fun fl _ => ?_)
    split
    · exact BP.pure trivial
    · exact ih KSup.set (fun r hr => hsub r (List.mem_cons_of_mem _ hr))

theorem BP.evalPatternRules (hK : KSup P K) (rules : List Rule) (hsub : ∀ r ∈ rules, r ∈ prog.rules) :
    BP P h0 b0 K (Jqawk.evalPatternRules prog rules) Tr := by
  unfold Jqawk.evalPatternRules
  refine BP.bind BP.getSt (fun s hs => ?_)
  split
  · exact BP.pure trivial
  · rename_i root hroot
    have hreg : P.N ≤ root := by
      have := hs.root; rw [hroot] at this; exact this
    split
    · rename_i a ha
      have hv := hs.heap.cells root hreg
      rw [ha] at hv
      exact BP.evalElems prog hF hwf hok hK rules hsub _ (hs.heap.arrs a hv) 0
    · exact BP.enter hK hreg (BP.evalRules prog hF hwf hok rules hsub)

theorem BP.processRoot (hK : KSup P K) (c : CellId) (hc : P.N ≤ c) :
    BP P h0 b0 K (Jqawk.processRoot prog c) Tr := by
  unfold Jqawk.processRoot
  refine BP.bind (BP.readCell hc) (fun rv hrv => ?_)
  refine BP.bind (BP.evalSpecialRules prog hF hwf hok hK _
    (fun K' => BP.pure hc) _ (rulesOf_sub' prog _)) (fun fl _ => ?_)
  split
  · exact BP.pure trivial
  · refine BP.bind (BP.setRoot (c := some c) hc) (fun _ _ => BP.bind (BP.catchExit
      (BP.evalPatternRules prog hF hwf hok hK _ (rulesOf_sub' prog _))) (fun fl2 _ => ?_))
    split
    · exact BP.pure trivial
    · exact BP.evalSpecialRules prog hF hwf hok hK _ (fun K' => BP.newCell hrv) _
        (rulesOf_sub' prog _)

/-- what run B does with a decoded value: conversion, a root cell, the rules -/
theorem BP.valueStep (hK : KSup P K) (v : JVal) :
    BP P h0 b0 K (do
      let val ← Jqawk.newValueJson v
      let c ← Jqawk.newCell val
      Jqawk.processRoot prog c) Tr :=
  BP.bind (BP.newValueJson v) (fun val hval => BP.bind (BP.newCell hval) (fun c hc =>
    BP.processRoot prog hF hwf hok hK c hc))

end rules

/-! ### `$file` -/

theorem setLastFrame_ne (fr : List Frame) (name : Bytes) (c : CellId) (h : fr ≠ []) :
    setLastFrame fr name c ≠ [] := by
  cases fr with
  | nil => exact absurd rfl h
  | cons f fs =>
    cases fs with
    | nil => simp [setLastFrame]
    | cons g gs => simp [setLastFrame]

theorem FramesB.setGlobal {fr : List Frame} (h : FramesB P b0 fr) {name : Bytes} (hn : isB name = false)
    {c : CellId} (hc : P.N ≤ c) : FramesB P b0 (setLastFrame fr name c) := by
  induction fr with
  | nil => exact absurd rfl h.ne
  | cons f fs ih =>
    cases fs with
    | nil =>
      show FramesB P b0 [{ f with locals := objInsert f.locals name c }]
      exact h.setLocal hn hc
    | cons g gs =>
      have h' : FramesB P b0 (g :: gs) := by
        refine ⟨by simp, fun x hx => h.loc x (List.mem_cons_of_mem _ hx), ?_, h.some⟩
        intro k hk
        rw [← h.bot k hk, botLookup_cons]
      have ih' := ih h'
      refine ⟨by simp [setLastFrame], ?_, ?_, h.some⟩
      · intro x hx
        simp only [setLastFrame, List.mem_cons] at hx
        rcases hx with hx | hx
        · subst hx; exact h.loc _ (List.mem_cons_self ..)
        · exact ih'.loc x hx
      · intro k hk
        show botLookup (f :: setLastFrame (g :: gs) name c) k = b0 k
        rw [botLookup_push _ (setLastFrame_ne _ _ _ (by simp))]
        exact ih'.bot k hk

theorem BP.setGlobal {name : Bytes} (hn : isB name = false) {c : CellId} (hc : P.N ≤ c) :
    BP P h0 b0 K (Jqawk.setGlobal name c) Tr :=
  fun s hs => ⟨⟨hs.heap, hs.frames.setGlobal hn hc, hs.ret, hs.root, hs.rr⟩, trivial⟩

theorem BP.setFile (name : Bytes) :
    BP P h0 b0 K (do let c ← Jqawk.newCell (.str name none); Jqawk.setGlobal b!"$file" c : EM Unit) Tr :=
  BP.bind (BP.newCell trivial) (fun c hc => BP.setGlobal (by decide) hc)

/-! ### `NewEvaluator` -/

/-- the region of the main evaluator: every cell but the three builtin cells -/
def P3 (prog : Program) : Region := ⟨3, 0, 0, prog.functions.length, prog.functions.length⟩

/-- what the root frame of the main evaluator binds the builtin names to -/
def b0m (k : Bytes) : Option CellId :=
  if k == b!"printf" then some 0 else if k == b!"json" then some 1 else if k == b!"num" then some 2 else none

/-- the native a builtin name denotes -/
def nativeOf (k : Bytes) : Native :=
  if k == b!"printf" then .printf else if k == b!"json" then .json else .num

/-- the root frame and the heap while `NewEvaluator` adds the functions -/
structure InitB (prog : Program) (L : List (Bytes × CellId)) (h : Heap) : Prop where
  heap : HeapOK (P3 prog) h
  loc : FrM (P3 prog) L
  bot : ∀ k, isB k = true → objLookup L k = b0m k
  c0 : h.get 0 = .native .printf none none
  c1 : h.get 1 = .native .json none none
  c2 : h.get 2 = .native .num none none

theorem InitB.add {prog : Program} {L : List (Bytes × CellId)} {h : Heap} (ok : InitB prog L h)
    {name : Bytes} (hn : isB name = false) {v : Val} (hv : GoodV (P3 prog) v) :
    InitB prog (objInsert L name (h.alloc v).1) (h.alloc v).2 := by
  have ha := ok.heap.alloc hv
  have hsz : 3 ≤ h.cells.size := ok.heap.nle
  have hne : ∀ i : Nat, i < 3 → (h.alloc v).2.get i = h.get i := by
    intro i hi
    rw [get_alloc]
    have : i ≠ h.cells.size := Nat.ne_of_lt (Nat.lt_of_lt_of_le hi hsz)
    simp only [this, ↓reduceIte]
  refine ⟨ha.1, ok.loc.objInsert _ ha.2, ?_, ?_, ?_, ?_⟩
  · intro k hk
    rw [objLookup_objInsert]
    have : ¬ name = k := fun e => by rw [e, hk] at hn; cases hn
    simp only [this, ↓reduceIte]
    exact ok.bot k hk
  · rw [hne 0 (by decide)]; exact ok.c0
  · rw [hne 1 (by decide)]; exact ok.c1
  · rw [hne 2 (by decide)]; exact ok.c2

theorem initFoldB {prog : Program} (l : List (FuncDef × Nat))
    (hl : ∀ fi ∈ l, isB fi.1.ident.text = false ∧ fi.2 < prog.functions.length) :
    ∀ (st : List (Bytes × CellId) × Heap), InitB prog st.1 st.2 →
      InitB prog
        (l.foldl (fun st (fi : FuncDef × Nat) =>
          (objInsert st.1 fi.1.ident.text (st.2.alloc (.fn fi.2)).1, (st.2.alloc (.fn fi.2)).2)) st).1
        (l.foldl (fun st (fi : FuncDef × Nat) =>
          (objInsert st.1 fi.1.ident.text (st.2.alloc (.fn fi.2)).1, (st.2.alloc (.fn fi.2)).2)) st).2 := by
  induction l with
  | nil => intro st h; exact h
  | cons fi rest ih =>
    intro st h
    simp only [List.foldl_cons]
    have h1 := hl fi (List.mem_cons_self ..)
    exact ih (fun x hx => hl x (List.mem_cons_of_mem _ hx)) _
      (h.add h1.1 (v := .fn fi.2) ⟨h1.2, h1.2⟩)

theorem lt3 (c : Nat) (h : c < 3) : c = 0 ∨ c = 1 ∨ c = 2 := by omega

/-- **`NewEvaluator` establishes the invariant**, with the builtins in the cells 0, 1, 2 -/
theorem newEvaluator_invB (prog : Program) (hok : okProg prog = true) :
    InvB (P3 prog) (newEvaluator prog Heap.empty [] 0).heap b0m KAny (newEvaluator prog Heap.empty [] 0) ∧
    (newEvaluator prog Heap.empty [] 0).heap.get 0 = .native .printf none none ∧
    (newEvaluator prog Heap.empty [] 0).heap.get 1 = .native .json none none ∧
    (newEvaluator prog Heap.empty [] 0).heap.get 2 = .native .num none none := by
  have hnat : ∀ {f : Native}, GoodV (P3 prog) (.native f none none) := ⟨trivial, trivial⟩
  -- the three builtins
  let h1 := (Heap.empty.alloc (.native .printf none none)).2
  let h2 := (h1.alloc (.native .json none none)).2
  let h3 := (h2.alloc (.native .num none none)).2
  have e0 : h3.get 0 = .native .printf none none := by decide
  have e1 : h3.get 1 = .native .json none none := by decide
  have e2 : h3.get 2 = .native .num none none := by decide
  have i3 : InitB prog (objInsert (objInsert (objInsert [] b!"printf" 0) b!"json" 1) b!"num" 2) h3 := by
    have hsz3 : h3.cells.size = 3 := by decide
    refine ⟨⟨by show 3 ≤ h3.cells.size; rw [hsz3]; exact Nat.le_refl _, Nat.zero_le _, Nat.zero_le _, ?_, ?_, ?_, ?_⟩, ?_, ?_, e0, e1, e2⟩
    · intro c
      by_cases hc : c < 3
      · have : c = 0 ∨ c = 1 ∨ c = 2 := lt3 c hc
        rcases this with rfl | rfl | rfl
        · rw [e0]; trivial
        · rw [e1]; trivial
        · rw [e2]; trivial
      · have : h3.get c = .unknown := by
          have hsz : h3.cells.size = 3 := by decide
          simp only [Heap.get, Array.getD_eq_getD_getElem?,
            Array.getElem?_eq_none (by rw [hsz]; exact Nat.le_of_not_lt hc), Option.getD_none]
        rw [this]; trivial
    · intro c hc
      have hc' : 3 ≤ c := hc
      have : h3.get c = .unknown := by
        have hsz : h3.cells.size = 3 := by decide
        simp only [Heap.get, Array.getD_eq_getD_getElem?,
          Array.getElem?_eq_none (by rw [hsz]; exact hc'), Option.getD_none]
      rw [this]; trivial
    · intro a _ c hc
      have : h3.arr a = #[] := by
        have : h3.arrs = #[] := by decide
        simp only [Heap.arr, this]; rfl
      rw [this] at hc; simp at hc
    · intro o _ kc hkc
      have : h3.obj o = [] := by
        have : h3.objs = #[] := by decide
        simp only [Heap.obj, this]; rfl
      rw [this] at hkc; cases hkc
    · intro kc hkc
      have : kc = (b!"printf", 0) ∨ kc = (b!"json", 1) ∨ kc = (b!"num", 2) := by
        have : objInsert (objInsert (objInsert [] b!"printf" 0) b!"json" 1) b!"num" 2 =
          [(b!"printf", 0), (b!"json", 1), (b!"num", 2)] := by decide
        rw [this] at hkc
        simpa using hkc
      rcases this with rfl | rfl | rfl <;> exact .inr (by decide)
    · intro k hk
      have hL : objInsert (objInsert (objInsert [] b!"printf" 0) b!"json" 1) b!"num" 2 =
          [(b!"printf", 0), (b!"json", 1), (b!"num", 2)] := by decide
      rw [hL]
      simp only [isB, Bool.or_eq_true, beq_iff_eq] at hk
      rcases hk with (rfl | rfl) | rfl <;> decide
  have hfn : ∀ fi ∈ prog.functions.zipIdx, isB fi.1.ident.text = false ∧ fi.2 < prog.functions.length := by
    intro fi hfi
    obtain ⟨f, i⟩ := fi
    have hm := List.mem_zipIdx' hfi
    have hf : f ∈ prog.functions := by
      have := hm.2
      rw [this]; exact List.getElem_mem _
    have := okProg_functions hok f hf
    simp only [okFn, Bool.and_eq_true] at this
    exact ⟨by simpa using this.1.1, hm.1⟩
  have i4 := initFoldB (prog := prog) prog.functions.zipIdx hfn (_, _) i3
  have hsome : ∀ k, isB k = true → (b0m k).isSome = true := by
    intro k hk
    simp only [isB, Bool.or_eq_true, beq_iff_eq] at hk
    rcases hk with (rfl | rfl) | rfl <;> decide
  have hex : ∃ L, (newEvaluator prog Heap.empty [] 0).frames = [⟨b!"<root>", L⟩] ∧
      InitB prog L (newEvaluator prog Heap.empty [] 0).heap := ⟨_, rfl, i4⟩
  obtain ⟨L, hfr, i5⟩ := hex
  refine ⟨⟨⟨i5.heap, fun _ _ => rfl, ?_⟩, ⟨by rw [hfr]; simp, ?_, ?_, hsome⟩, trivial, trivial, trivial⟩,
    i5.c0, i5.c1, i5.c2⟩
  · intro i hi
    have hi' : i < 3 := hi
    have : i = 0 ∨ i = 1 ∨ i = 2 := lt3 i hi'
    rcases this with rfl | rfl | rfl
    · rw [i5.c0]; exact hnat
    · rw [i5.c1]; exact hnat
    · rw [i5.c2]; exact hnat
  · intro f hf
    rw [hfr] at hf
    simp only [List.mem_singleton] at hf
    subst hf
    exact i5.loc
  · intro k hk
    rw [hfr]
    exact i5.bot k hk

end Sel
end Jqawk
