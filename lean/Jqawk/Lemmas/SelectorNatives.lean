/-
  Renaming of cell ids (C14), part 6: the native functions in the two runs.
-/
import Jqawk.Lemmas.SelectorPrims

set_option linter.unusedVariables false
set_option linter.unusedSimpArgs false

namespace Jqawk
namespace Sel

variable {X : XCtx}

/-! ### helpers in primitive form -/

theorem SimW.allocCells (wf : X.WF) {w w0 : Nat} {va vb : List Val} (h : ListValR X.toCtx w0 va vb)
    (hw0 : w0 ≤ w) : SimW X w (ListCellR X.toCtx) (Jqawk.allocCells va) (Jqawk.allocCells vb) := by
  obtain ⟨rfl, hl⟩ := h
  induction vb generalizing w with
  | nil => exact SimW.pure (VR := ListCellR X.toCtx) (ListCellR.nil 0) (Nat.zero_le _)
  | cons v vs ih =>
    simp only [List.map_cons, Jqawk.allocCells]
    refine SimW.bind (SimW.newCell wf ⟨rfl, hl v (List.mem_cons_self ..)⟩ hw0) (fun w1 ca cb hw1 hc => ?_)
    refine SimW.bind (ih (Nat.le_trans hw0 hw1) (fun x hx => hl x (List.mem_cons_of_mem _ hx)))
      (fun w2 csa csb hw2 hcs => ?_)
    exact SimW.pure (VR := ListCellR X.toCtx) (ListCellR.cons (hc.mono hw2) hcs) (Nat.le_refl _)

theorem newArrayOf_eq2 (vs : List Val) :
    newArrayOf vs = (do
      let cells ← allocCells vs
      let a ← allocArrM cells.toArray
      pure (Val.arr a)) := by
  funext s
  simp only [newArrayOf, bind, EM.bind, getHeap, setHeap, allocArrM, pure, EM.pure]

theorem SimW.newArrayOf (wf : X.WF) {w w0 : Nat} {va vb : List Val} (h : ListValR X.toCtx w0 va vb)
    (hw0 : w0 ≤ w) : SimW X w (ValR X.toCtx) (Jqawk.newArrayOf va) (Jqawk.newArrayOf vb) := by
  rw [newArrayOf_eq2, newArrayOf_eq2]
  refine SimW.bind (SimW.allocCells wf h hw0) (fun w1 ca cb hw1 hc => ?_)
  refine SimW.bind (SimW.allocArrM wf (ArrR.ofList hc) (Nat.le_refl _)) (fun w2 a a' hw2 ha => ?_)
  obtain ⟨rfl, hle⟩ := ha
  exact SimW.pure (VR := ValR X.toCtx) (a := .arr a) (b := .arr a) (w0 := w2) ⟨rfl, hle⟩ (Nat.le_refl _)

/-- replace the cells of an array by a function of the current ones -/
def setArrM (a : ArrId) (f : Array CellId → Array CellId) : EM Unit := fun s =>
  .ok () { s with heap := s.heap.setArr a (f (s.heap.arr a)) }

theorem SimW.setArrM (wf : X.WF) {w : Nat} {a : ArrId} (ha : X.a0 ≤ a) {fA fB : Array CellId → Array CellId}
    (hf : ∀ w' xa xb, w ≤ w' → ArrR X.toCtx w' xa xb → ArrR X.toCtx w' (fA xa) (fB xb)) :
    SimW X w EqR (Sel.setArrM a fA) (Sel.setArrM a fB) := by
  intro sA sB hs hw
  have hx := hf _ _ _ hw (hs.heap.arrs a ha)
  have r1 := hs.heap.setArr ha hx (Nat.le_refl _)
  exact ⟨Nat.le_refl _, rfl, hs.withHeap wf r1 (Nat.le_refl _)⟩


/-! ### printf -/

theorem checkArg_map (σ : Nat → Nat) (args : List Val) (i : Nat) (k : Kind) :
    checkArg (args.map (renV σ)) i k =
      match checkArg args i k with
      | .ok v => .ok (renV σ v)
      | .error m => .error m := by
  unfold checkArg
  simp only [List.getElem?_map]
  cases args[i]? with
  | none => rfl
  | some v =>
    simp only [Option.map_some, kind_renV]
    split <;> rfl

theorem printfLoop_rel (σ : Nat → Nat) (rA rB : Val → Option Bytes) (args : List Val)
    (hr : ∀ v ∈ args, rA (renV σ v) = rB v) : ∀ (fuel : Nat) (fmt : Bytes) (idx : Nat) (acc : Bytes),
    printfLoop rA (args.map (renV σ)) fuel fmt idx acc = printfLoop rB args fuel fmt idx acc := by
  intro fuel
  induction fuel with
  | zero => intro fmt idx acc; rfl
  | succ fuel ih =>
    intro fmt idx acc
    cases fmt with
    | nil => rfl
    | cons b rest =>
      cases h3 : args[idx]? with
      | none =>
        cases h1 : checkArg args idx Kind.str <;> cases h2 : checkArg args idx Kind.num <;>
          simp only [printfLoop, checkArg_map, List.getElem?_map, ih, h1, h2, h3, str_renV,
            Option.map_some, Option.map_none]
      | some v =>
        have hv := hr v (List.mem_of_getElem? h3)
        cases h1 : checkArg args idx Kind.str <;> cases h2 : checkArg args idx Kind.num <;>
          simp only [printfLoop, checkArg_map, List.getElem?_map, ih, h1, h2, h3, str_renV,
            Option.map_some, Option.map_none, hv]

theorem printfFormat_rel (σ : Nat → Nat) (rA rB : Val → Option Bytes) (args : List Val)
    (hr : ∀ v ∈ args, rA (renV σ v) = rB v) :
    printfFormat rA (args.map (renV σ)) = printfFormat rB args := by
  cases args with
  | nil => rfl
  | cons v vs =>
    cases v with
    | str fmt sp =>
      simp only [printfFormat, List.map_cons, renV_str]
      exact printfLoop_rel σ rA rB (.str fmt sp :: vs) hr _ _ _ _
    | _ => rfl

/-! ### push / pop / popfirst / pluck in primitive form -/

theorem callNative_push_eq (args : List Val) (a : ArrId) :
    callNative .arrPush args (some (.arr a)) =
      (match checkArgCount args 1 with
       | .error m => pure (.error m)
       | .ok () => do
         let c ← newCell (args.getD 0 .unknown)
         Sel.setArrM a (·.push c)
         pure (.ok (some (.arr a)))) := by
  funext s
  simp only [callNative, bind, EM.bind, getHeap]
  cases checkArgCount args 1 <;> rfl

theorem callNative_pop_eq (args : List Val) (a : ArrId) :
    callNative .arrPop args (some (.arr a)) =
      (match checkArgCount args 0 with
       | .error m => pure (.error m)
       | .ok () => do
         let h ← getHeap
         if (h.arr a).size == 0 then pure (.ok (some (.nil none))) else do
           Sel.setArrM a (·.pop)
           pure (.ok (some (h.get ((h.arr a).getD ((h.arr a).size - 1) 0))))) := by
  funext s
  simp only [callNative, bind, EM.bind, getHeap]
  cases checkArgCount args 0 with
  | error m => rfl
  | ok u =>
    simp only [EM.bind, getHeap]
    split <;> simp_all [EM.bind, setHeap, Sel.setArrM, pure, EM.pure]

theorem callNative_popfirst_eq (args : List Val) (a : ArrId) :
    callNative .arrPopfirst args (some (.arr a)) =
      (match checkArgCount args 0 with
       | .error m => pure (.error m)
       | .ok () => do
         let h ← getHeap
         if (h.arr a).size == 0 then pure (.ok (some (.nil none))) else do
           Sel.setArrM a (fun items => items.extract 1 items.size)
           pure (.ok (some (h.get ((h.arr a).getD 0 0))))) := by
  funext s
  simp only [callNative, bind, EM.bind, getHeap]
  cases checkArgCount args 0 with
  | error m => rfl
  | ok u =>
    simp only [EM.bind, getHeap]
    split <;> simp_all [EM.bind, setHeap, Sel.setArrM, pure, EM.pure]

theorem callNative_pluck_eq (args : List Val) (o : ObjId) :
    callNative .objPluck args (some (.obj o)) = (do
      let h ← getHeap
      match pluckCollect h (h.obj o) args [] with
      | .error m => pure (.error m)
      | .ok kvs => do
        let cells ← allocCells (kvs.map (·.2))
        let no ← allocObjM (pluckMembers ((kvs.map (·.1)).zip cells) [])
        pure (.ok (some (.obj no)))) := by
  funext s
  simp only [callNative, bind, EM.bind, getHeap]
  cases pluckCollect s.heap (s.heap.obj o) args [] with
  | error m => rfl
  | ok kvs =>
    dsimp only
    cases allocCells (kvs.map (·.2)) s <;> rfl

/-! ### contains, pluck, sort -/

theorem containsLoop_rel {hA hB : Heap} (r : HR X.toCtx hA hB) (v : Val) :
    ∀ cs : List CellId, LiveL X.toCtx hB.cells.size cs →
      containsLoop hA (renV X.σ v) (cs.map X.σ) = containsLoop hB v cs
  | [], _ => rfl
  | c :: cs, hl => by
    have hc := r.cells c (hl c (List.mem_cons_self ..))
    have ih := containsLoop_rel r v cs (fun x hx => hl x (List.mem_cons_of_mem _ hx))
    simp only [List.map_cons, containsLoop, hc.1, kind_renV, compare_renV, ih]

theorem isKeyVal_renV (v : Val) : isKeyVal (renV X.σ v) = isKeyVal v := by cases v <;> rfl

theorem pluckVal_rel {hA hB : Heap} (r : HR X.toCtx hA hB) {members : List (Bytes × CellId)}
    (hm : LiveM X.toCtx hB.cells.size members) (key : Bytes) :
    ValR X.toCtx hB.cells.size (pluckVal hA (renM X.σ members) key) (pluckVal hB members key) := by
  unfold pluckVal
  rw [objLookup_renM]
  cases hl : objLookup members key with
  | none => exact ValR.nilNone _
  | some c => exact r.cells c (hm.lookup hl)

/-- the relation on the key/value lists `pluck` collects -/
def KvsR (K : Ctx) (w : Nat) (as bs : List (Bytes × Val)) : Prop :=
  as.map (·.1) = bs.map (·.1) ∧ ListValR K w (as.map (·.2)) (bs.map (·.2))

theorem pluckCollect_rel {hA hB : Heap} (r : HR X.toCtx hA hB) {members : List (Bytes × CellId)}
    (hm : LiveM X.toCtx hB.cells.size members) (args : List Val) :
    match pluckCollect hA (renM X.σ members) (args.map (renV X.σ)) [], pluckCollect hB members args [] with
    | .error m, .error m' => m = m'
    | .ok ka, .ok kb => KvsR X.toCtx hB.cells.size ka kb
    | _, _ => False := by
  rw [pluckCollect_eq, pluckCollect_eq]
  have hall : (args.map (renV X.σ)).all isKeyVal = args.all isKeyVal := by
    rw [List.all_map]
    congr 1
    funext v
    exact isKeyVal_renV v
  rw [hall]
  by_cases hk : args.all isKeyVal = true
  · simp only [hk, ↓reduceIte, List.reverse_nil, List.nil_append, List.map_map]
    refine ⟨?_, ?_, ?_⟩
    · simp only [List.map_map]
      apply List.map_congr_left
      intro v hv
      simp only [Function.comp, str_renV]
    · simp only [List.map_map]
      apply List.map_congr_left
      intro v hv
      simp only [Function.comp, str_renV]
      exact (pluckVal_rel r hm _).1
    · intro v hv
      simp only [List.map_map, List.mem_map, Function.comp] at hv
      obtain ⟨k, _, rfl⟩ := hv
      exact (pluckVal_rel r hm _).2
  · simp only [hk, Bool.false_eq_true, ↓reduceIte]

theorem pluckMembers_rel {K : Ctx} {w : Nat} (ks : List Bytes) : ∀ {ca cb : List CellId} {ma mb : List (Bytes × CellId)},
    ListCellR K w ca cb → MemR K w ma mb → MemR K w (pluckMembers (ks.zip ca) ma) (pluckMembers (ks.zip cb) mb) := by
  induction ks with
  | nil => intro ca cb ma mb _ hm; simpa [pluckMembers] using hm
  | cons k ks ih =>
    intro ca cb ma mb hc hm
    obtain ⟨rfl, hl⟩ := hc
    cases cb with
    | nil => simpa [pluckMembers] using hm
    | cons c cs =>
      simp only [List.map_cons, List.zip_cons_cons, pluckMembers, List.foldl_cons]
      exact ih (ca := cs.map K.σ) (cb := cs) ⟨rfl, fun x hx => hl x (List.mem_cons_of_mem _ hx)⟩
        (hm.objInsert k ⟨rfl, hl c (List.mem_cons_self ..)⟩)

theorem containsLoop_res (h : Heap) (v : Val) : ∀ cs : List CellId,
    (∃ m, containsLoop h v cs = .error m) ∨ ∃ b, containsLoop h v cs = .ok (some (.bool b))
  | [] => .inr ⟨false, rfl⟩
  | c :: cs => by
    unfold containsLoop
    dsimp only
    split
    · exact containsLoop_res h v cs
    · split
      · exact .inl ⟨_, rfl⟩
      · split
        · exact .inr ⟨true, rfl⟩
        · exact containsLoop_res h v cs

/-- what `sort` copies out of the array -/
def sortCopies (items : List Val) : List Val :=
  items.map fun v => match copyVal v with | .ok w => w | .error _ => Val.str [] none

theorem callNative_sort_eq (args : List Val) (a : ArrId) :
    callNative .arrSort args (some (.arr a)) = (do
      let h ← getHeap
      let items := (h.arr a).toList.map h.get
      let sorted :=
        if items.all (fun v => v.kind == .num) then (sortCopies items).mergeSort (fun x y => f64Le x.asNum y.asNum)
        else (sortCopies items).mergeSort (fun x y => Bytes.le x.str! y.str!)
      let r ← newArrayOf sorted
      pure (.ok (some r))) := by
  unfold callNative sortCopies
  rfl

theorem sortCopies_renV (items : List Val) : sortCopies (items.map (renV X.σ)) = sortCopies items := by
  unfold sortCopies
  rw [List.map_map]
  apply List.map_congr_left
  intro v _
  simp only [Function.comp, copyVal_renV]

theorem sortCopies_ok {w : Nat} {items : List Val} (h : ∀ v ∈ items, LiveV X.toCtx w v) :
    ∀ x ∈ sortCopies items, Val.plain x ∧ LiveV X.toCtx w x := by
  intro x hx
  simp only [sortCopies, List.mem_map] at hx
  obtain ⟨v, hv, rfl⟩ := hx
  cases hc : copyVal v with
  | ok y => exact ⟨copyVal_plain hc, copyVal_live hc (h v hv)⟩
  | error m => exact ⟨rfl, trivial⟩

theorem listValR_self {w : Nat} {l : List Val} (h : ∀ x ∈ l, Val.plain x ∧ LiveV X.toCtx w x) :
    ListValR X.toCtx w l l := by
  refine ⟨?_, fun v hv => (h v hv).2⟩
  have : l.map (renV X.σ) = l.map id := List.map_congr_left (fun v hv => renV_plain (h v hv).1)
  rw [this, List.map_id]

/-! ### `callNative` -/

abbrev NatR (K : Ctx) := ExR (OptValR K)

theorem retNone {w : Nat} : SimW X w (NatR X.toCtx) (pure (.ok none)) (pure (.ok none)) :=
  SimW.pure (VR := NatR X.toCtx) (a := .ok none) (b := .ok none) (w0 := 0) trivial (Nat.zero_le _)

theorem retErr {w : Nat} (m : String) : SimW X w (NatR X.toCtx) (pure (.error m)) (pure (.error m)) :=
  SimW.pure (VR := NatR X.toCtx) (a := .error m) (b := .error m) (w0 := 0) rfl (Nat.zero_le _)

theorem retVal {w w0 : Nat} {va vb : Val} (h : ValR X.toCtx w0 va vb) (hw : w0 ≤ w) :
    SimW X w (NatR X.toCtx) (pure (.ok (some va))) (pure (.ok (some vb))) :=
  SimW.pure (VR := NatR X.toCtx) (a := .ok (some va)) (b := .ok (some vb)) h hw

theorem retNum {w : Nat} (x : F64) :
    SimW X w (NatR X.toCtx) (pure (.ok (some (.num x)))) (pure (.ok (some (.num x)))) :=
  retVal (ValR.num 0 x) (Nat.zero_le _)

theorem retNil {w : Nat} :
    SimW X w (NatR X.toCtx) (pure (.ok (some (.nil none)))) (pure (.ok (some (.nil none)))) :=
  retVal (ValR.nilNone 0) (Nat.zero_le _)

theorem thisCases {K : Ctx} {w : Nat} {ta tb : Option Val} (ht : OptValR K w ta tb) :
    (ta = none ∧ tb = none) ∨ ∃ vb, ta = some (renV K.σ vb) ∧ tb = some vb ∧ LiveV K w vb := by
  cases ta <;> cases tb <;> first
    | exact .inl ⟨rfl, rfl⟩
    | exact ht.elim
    | (rename_i va vb; exact .inr ⟨vb, by rw [ht.1], rfl, ht.2⟩)

theorem checkArgCount_rel {K : Ctx} {w : Nat} {aa ab : List Val} (ha : ListValR K w aa ab) (n : Nat) :
    checkArgCount aa n = checkArgCount ab n := by
  unfold checkArgCount; rw [ha.length]

theorem SimW.callNative (wf : X.WF) (f : Native) {w w0 w1 : Nat} {aa ab : List Val}
    (ha : ListValR X.toCtx w0 aa ab) (hw0 : w0 ≤ w) {ta tb : Option Val} (ht : OptValR X.toCtx w1 ta tb)
    (hw1 : w1 ≤ w) :
    SimW X w (NatR X.toCtx) (Jqawk.callNative f aa ta) (Jqawk.callNative f ab tb) := by
  have hcnt := fun n => checkArgCount_rel ha n
  have harg0 := ha.getD 0
  -- the receiver
  rcases thisCases ht with ⟨rfl, rfl⟩ | ⟨tv, rfl, rfl, htl⟩
  · -- no receiver: only the builtins do anything
    cases f
    case printf =>
      unfold Jqawk.callNative
      apply SimW.getHeap_bind
      intro hA hB hh hw2
      obtain ⟨rfl, hal⟩ := ha
      dsimp only
      rw [printfFormat_rel X.σ (prettyTop hA) (prettyTop hB) ab
        (fun v hv => prettyTop_rel hh ⟨rfl, hal v hv⟩ (Nat.le_trans hw0 hw2))]
      cases printfFormat (prettyTop hB) ab with
      | none => exact SimW.oof
      | some r =>
        cases r with
        | error m => exact retErr m
        | ok out => exact SimW.bind (SimW.emit out) (fun _ _ _ _ _ => retNone)
    case json =>
      unfold Jqawk.callNative
      apply SimW.getHeap_bind
      intro hA hB hh hw2
      dsimp only
      rw [hcnt 1]
      cases checkArgCount ab 1 with
      | error m => exact retErr m
      | ok u =>
        dsimp only
        rw [toJValTop_rel hh harg0 (Nat.le_trans hw0 hw2)]
        cases toJValTop hB (ab.getD 0 .unknown) with
        | oof => exact SimW.oof
        | error m => exact retErr _
        | ok j =>
          dsimp only
          split
          · exact retErr _
          · exact retVal (ValR.strNone 0 _) (Nat.zero_le _)
    case num =>
      unfold Jqawk.callNative
      apply SimW.getHeap_bind
      intro hA hB hh hw2
      dsimp only
      rw [hcnt 1]
      cases checkArgCount ab 1 with
      | error m => exact retErr m
      | ok u =>
        dsimp only
        rw [harg0.1]
        cases ab.getD 0 .unknown with
        | num x => exact retNum _
        | str s sp =>
          simp only [renV_str]
          cases F64.parse s with
          | some x => exact retNum _
          | none => exact retNil
        | _ => exact retNil
    all_goals
      unfold Jqawk.callNative
      apply SimW.getHeap_bind
      intro hA hB hh hw2
      first
        | exact retNone
        | exact retNum _
        | exact retNil
        | (refine SimW.bind (SimW.newArrayOf wf (ListValR.nil 0) (Nat.zero_le _)) (fun w3 va vb hw3 hv => ?_)
           exact retVal hv (Nat.le_refl _))
  · -- a receiver `tv`
    have dflt : ∀ {mA mB : EM NativeRes}, (∀ hA hB, HR X.toCtx hA hB → w ≤ hB.cells.size →
        SimW X hB.cells.size (NatR X.toCtx) mA mB) →
        SimW X w (NatR X.toCtx) (getHeap >>= fun _ => mA) (getHeap >>= fun _ => mB) :=
      fun h => SimW.getHeap_bind h
    cases f
    case printf =>
      unfold Jqawk.callNative
      apply SimW.getHeap_bind
      intro hA hB hh hw2
      obtain ⟨rfl, hal⟩ := ha
      dsimp only
      rw [printfFormat_rel X.σ (prettyTop hA) (prettyTop hB) ab
        (fun v hv => prettyTop_rel hh ⟨rfl, hal v hv⟩ (Nat.le_trans hw0 hw2))]
      cases printfFormat (prettyTop hB) ab with
      | none => exact SimW.oof
      | some r =>
        cases r with
        | error m => exact retErr m
        | ok out => exact SimW.bind (SimW.emit out) (fun _ _ _ _ _ => retNone)
    case json =>
      unfold Jqawk.callNative
      apply SimW.getHeap_bind
      intro hA hB hh hw2
      dsimp only
      rw [hcnt 1]
      cases checkArgCount ab 1 with
      | error m => exact retErr m
      | ok u =>
        dsimp only
        rw [toJValTop_rel hh harg0 (Nat.le_trans hw0 hw2)]
        cases toJValTop hB (ab.getD 0 .unknown) with
        | oof => exact SimW.oof
        | error m => exact retErr _
        | ok j =>
          dsimp only
          split
          · exact retErr _
          · exact retVal (ValR.strNone 0 _) (Nat.zero_le _)
    case num =>
      unfold Jqawk.callNative
      apply SimW.getHeap_bind
      intro hA hB hh hw2
      dsimp only
      rw [hcnt 1]
      cases checkArgCount ab 1 with
      | error m => exact retErr m
      | ok u =>
        dsimp only
        rw [harg0.1]
        cases ab.getD 0 .unknown with
        | num x => exact retNum _
        | str s sp =>
          simp only [renV_str]
          cases F64.parse s with
          | some x => exact retNum _
          | none => exact retNil
        | _ => exact retNil
    case arrLength =>
      cases tv with
      | arr a =>
        unfold Jqawk.callNative
        apply SimW.getHeap_bind
        intro hA hB hh hw2
        simp only [renV_arr]
        rw [(hh.arrs a htl).size]
        exact retNum _
      | _ =>
        unfold Jqawk.callNative
        apply SimW.getHeap_bind
        intro hA hB hh hw2
        exact retNum _
    case arrPush =>
      cases tv with
      | arr a =>
        rw [renV_arr, callNative_push_eq, callNative_push_eq, hcnt 1]
        cases checkArgCount ab 1 with
        | error m => exact retErr m
        | ok u =>
          dsimp only
          refine SimW.bind (SimW.newCell wf harg0 hw0) (fun w2 ca cb hw2 hc => ?_)
          refine SimW.bind (SimW.setArrM wf htl (fun w' xa xb hw' hx => hx.push (hc.mono hw')))
            (fun w3 _ _ hw3 _ => ?_)
          exact retVal (va := .arr a) (vb := .arr a) (w0 := w1) ⟨rfl, htl⟩
            (Nat.le_trans hw1 (Nat.le_trans hw2 hw3))
      | _ =>
        unfold Jqawk.callNative
        apply SimW.getHeap_bind
        intro hA hB hh hw2
        exact retNone
    case arrPop =>
      cases tv with
      | arr a =>
        rw [renV_arr, callNative_pop_eq, callNative_pop_eq, hcnt 0]
        cases checkArgCount ab 0 with
        | error m => exact retErr m
        | ok u =>
          dsimp only
          apply SimW.getHeap_bind
          intro hA hB hh hw2
          have har := hh.arrs a htl
          rw [har.size]
          by_cases hz : ((hB.arr a).size == 0) = true
          · simp only [hz, ↓reduceIte]; exact retNil
          · simp only [hz, ↓reduceIte]
            have hpos : (hB.arr a).size - 1 < (hB.arr a).size := by
              have : (hB.arr a).size ≠ 0 := by simpa using hz
              omega
            have hv := hh.get (har.getD hpos) (Nat.le_refl _)
            refine SimW.bind (SimW.setArrM wf htl (fun w' xa xb hw' hx => hx.pop)) (fun w3 _ _ hw3 _ => ?_)
            exact retVal hv hw3
      | _ =>
        unfold Jqawk.callNative
        apply SimW.getHeap_bind
        intro hA hB hh hw2
        exact retNone
    case arrPopfirst =>
      cases tv with
      | arr a =>
        rw [renV_arr, callNative_popfirst_eq, callNative_popfirst_eq, hcnt 0]
        cases checkArgCount ab 0 with
        | error m => exact retErr m
        | ok u =>
          dsimp only
          apply SimW.getHeap_bind
          intro hA hB hh hw2
          have har := hh.arrs a htl
          rw [har.size]
          by_cases hz : ((hB.arr a).size == 0) = true
          · simp only [hz, ↓reduceIte]; exact retNil
          · simp only [hz, ↓reduceIte]
            have hpos : 0 < (hB.arr a).size := by
              have : (hB.arr a).size ≠ 0 := by simpa using hz
              omega
            have hv := hh.get (har.getD hpos) (Nat.le_refl _)
            refine SimW.bind (SimW.setArrM wf htl (fun w' xa xb hw' hx => by
              rw [hx.size]; exact hx.extract _ _)) (fun w3 _ _ hw3 _ => ?_)
            exact retVal hv hw3
      | _ =>
        unfold Jqawk.callNative
        apply SimW.getHeap_bind
        intro hA hB hh hw2
        exact retNone
    case arrContains =>
      cases tv with
      | arr a =>
        unfold Jqawk.callNative
        apply SimW.getHeap_bind
        intro hA hB hh hw2
        simp only [renV_arr]
        rw [hcnt 1]
        cases checkArgCount ab 1 with
        | error m => exact retErr m
        | ok u =>
          dsimp only
          have har := hh.arrs a htl
          rw [har.1, Array.toList_map, harg0.1, containsLoop_rel hh _ _ har.2]
          rcases containsLoop_res hB (ab.getD 0 .unknown) (hB.arr a).toList with ⟨m, e⟩ | ⟨b, e⟩
          · rw [e]; exact retErr m
          · rw [e]; exact retVal (ValR.bool 0 b) (Nat.zero_le _)
      | _ =>
        unfold Jqawk.callNative
        apply SimW.getHeap_bind
        intro hA hB hh hw2
        exact retNone
    case arrSort =>
      cases tv with
      | arr a =>
        rw [renV_arr, callNative_sort_eq, callNative_sort_eq]
        apply SimW.getHeap_bind
        intro hA hB hh hw2
        have har := hh.arrs a htl
        have hitems : (hA.arr a).toList.map hA.get = ((hB.arr a).toList.map hB.get).map (renV X.σ) := by
          rw [har.1, Array.toList_map, List.map_map, List.map_map]
          apply List.map_congr_left
          intro c hc
          exact (hh.cells c (har.2 c hc)).1
        have hlive : ∀ v ∈ (hB.arr a).toList.map hB.get, LiveV X.toCtx hB.cells.size v := by
          intro v hv
          obtain ⟨c, hc, rfl⟩ := List.mem_map.mp hv
          exact (hh.cells c (har.2 c hc)).2
        have hall : (((hB.arr a).toList.map hB.get).map (renV X.σ)).all (fun v => v.kind == Kind.num) =
            ((hB.arr a).toList.map hB.get).all (fun v => v.kind == Kind.num) := by
          rw [List.all_map]; congr 1; funext v; simp only [Function.comp, kind_renV]
        dsimp only
        rw [hitems, hall, sortCopies_renV]
        have hok := sortCopies_ok hlive
        refine SimW.bind (SimW.newArrayOf wf (w0 := hB.cells.size) (listValR_self ?_) (Nat.le_refl _))
          (fun w3 va vb hw3 hv => retVal hv (Nat.le_refl _))
        intro x hx
        split at hx
        · exact hok x ((List.mergeSort_perm _ _).mem_iff.mp hx)
        · exact hok x ((List.mergeSort_perm _ _).mem_iff.mp hx)
      | _ =>
        unfold Jqawk.callNative
        apply SimW.getHeap_bind
        intro hA hB hh hw2
        exact retNone
    case objLength =>
      cases tv with
      | obj o =>
        unfold Jqawk.callNative
        apply SimW.getHeap_bind
        intro hA hB hh hw2
        simp only [renV_obj]
        rw [(hh.objs o htl).1, renM, List.length_map]
        exact retNum _
      | _ =>
        unfold Jqawk.callNative
        apply SimW.getHeap_bind
        intro hA hB hh hw2
        exact retNum _
    case objPluck =>
      cases tv with
      | obj o =>
        rw [renV_obj, callNative_pluck_eq, callNative_pluck_eq]
        apply SimW.getHeap_bind
        intro hA hB hh hw2
        have hob := hh.objs o htl
        have hpc := pluckCollect_rel hh hob.2 ab
        rw [hob.1, ha.1]
        revert hpc
        generalize pluckCollect hA (renM X.σ (hB.obj o)) (ab.map (renV X.σ)) [] = ra
        generalize pluckCollect hB (hB.obj o) ab [] = rb
        intro hpc
        cases ra with
        | error m =>
          cases rb with
          | error m' => cases hpc; exact retErr m
          | ok _ => exact hpc.elim
        | ok ka =>
          cases rb with
          | error _ => exact hpc.elim
          | ok kb =>
            obtain ⟨hkeys, hvals⟩ := hpc
            dsimp only
            refine SimW.bind (SimW.allocCells wf hvals (Nat.le_refl _)) (fun w3 ca cb hw3 hc => ?_)
            rw [hkeys]
            refine SimW.bind (SimW.allocObjM wf (pluckMembers_rel _ hc (MemR.nil _)) (Nat.le_refl _))
              (fun w4 no no' hw4 hno => ?_)
            obtain ⟨rfl, hle⟩ := hno
            exact retVal (va := .obj no) (vb := .obj no) (w0 := w4) ⟨rfl, hle⟩ (Nat.le_refl _)
      | _ =>
        unfold Jqawk.callNative
        apply SimW.getHeap_bind
        intro hA hB hh hw2
        exact retNone
    case strLength =>
      unfold Jqawk.callNative
      apply SimW.getHeap_bind
      intro hA hB hh hw2
      cases tv <;> exact retNum _
    case strSplit =>
      cases tv with
      | str s sp =>
        unfold Jqawk.callNative
        apply SimW.getHeap_bind
        intro hA hB hh hw2
        simp only [renV_str]
        obtain ⟨rfl, hal⟩ := ha
        rw [checkArg_map]
        cases checkArg ab 0 Kind.str with
        | error m => exact retErr m
        | ok sep =>
          simp only [str_renV]
          refine SimW.bind (SimW.newArrayOf wf (w0 := 0) (listValR_self ?_) (Nat.zero_le _))
            (fun w3 va vb hw3 hv => retVal hv (Nat.le_refl _))
          intro x hx
          obtain ⟨b, _, rfl⟩ := List.mem_map.mp hx
          exact ⟨rfl, trivial⟩
      | _ =>
        unfold Jqawk.callNative
        apply SimW.getHeap_bind
        intro hA hB hh hw2
        refine SimW.bind (SimW.newArrayOf wf (ListValR.nil 0) (Nat.zero_le _)) (fun w3 va vb hw3 hv => ?_)
        exact retVal hv (Nat.le_refl _)
    case strLower =>
      unfold Jqawk.callNative
      apply SimW.getHeap_bind
      intro hA hB hh hw2
      cases tv with
      | str s sp =>
        simp only [renV_str]
        split
        · exact retVal (ValR.strNone 0 _) (Nat.zero_le _)
        · exact SimW.throwUnmodelled _
      | _ => exact retNum _
    case strUpper =>
      unfold Jqawk.callNative
      apply SimW.getHeap_bind
      intro hA hB hh hw2
      cases tv with
      | str s sp =>
        simp only [renV_str]
        split
        · exact retVal (ValR.strNone 0 _) (Nat.zero_le _)
        · exact SimW.throwUnmodelled _
      | _ => exact retNum _
    all_goals
      unfold Jqawk.callNative
      apply SimW.getHeap_bind
      intro hA hB hh hw2
      cases tv <;> first | exact retNum _ | exact retNil
end Sel
end Jqawk
