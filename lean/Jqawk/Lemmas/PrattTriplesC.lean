/-
  C06, finite clause: the triple tables for five first operators (split so that the files check in parallel;
  each `decide +kernel` evaluates the parser on 225 token lists).
-/
import Jqawk.Lemmas.PrattFinite

namespace Jqawk.C06

theorem triples_greaterEqual : TriplesFor .greaterEqual := by decide +kernel
theorem triples_tilde : TriplesFor .tilde := by decide +kernel
theorem triples_bangTilde : TriplesFor .bangTilde := by decide +kernel
theorem triples_ampAmp : TriplesFor .ampAmp := by decide +kernel
theorem triples_pipePipe : TriplesFor .pipePipe := by decide +kernel

end Jqawk.C06
