/-
  Reachability between containers of a heap, and what an error of `toJVal` means in terms of it.
-/
import Jqawk.Lemmas.Render

namespace Jqawk

/-- `w` is the value of an element / member of container `c` -/
inductive Child (h : Heap) : Cont → Val → Prop
  | arr (a : ArrId) (c : CellId) (hc : c ∈ (h.arr a).toList) : Child h (.a a) (h.get c)
  | obj (o : ObjId) (kv : Bytes × CellId) (hkv : kv ∈ h.obj o) : Child h (.o o) (h.get kv.2)

/-- container `d` is reachable from container `c` in one or more steps -/
inductive Reach (h : Heap) : Cont → Cont → Prop
  | step {c d : Cont} {v : Val} (hv : Child h c v) (hd : v.cont? = some d) : Reach h c d
  | trans {c d e : Cont} (h1 : Reach h c d) (h2 : Reach h d e) : Reach h c e

/-- value `v` is reachable from container `c` in one or more steps -/
def ReachV (h : Heap) (c : Cont) (v : Val) : Prop := Child h c v ∨ ∃ d, Reach h c d ∧ Child h d v

theorem ReachV.cont {h : Heap} {c d : Cont} {v : Val} (r : ReachV h c v) (hd : v.cont? = some d) :
    Reach h c d := by
  rcases r with r | ⟨e, r1, r2⟩
  · exact .step r hd
  · exact .trans r1 (.step r2 hd)

theorem ReachV.child {h : Heap} {c d : Cont} {v w : Val} (r : ReachV h c v) (hd : v.cont? = some d)
    (hw : Child h d w) : ReachV h c w := Or.inr ⟨d, r.cont hd, hw⟩

/-- values reachable from the value `v0` (including `v0` itself) -/
def RootReach (h : Heap) (v0 v : Val) : Prop := v = v0 ∨ ∃ d, v0.cont? = some d ∧ ReachV h d v

theorem RootReach.child {h : Heap} {v0 v w : Val} {d : Cont} (r : RootReach h v0 v)
    (hd : v.cont? = some d) (hw : Child h d w) : RootReach h v0 w := by
  rcases r with rfl | ⟨e, he, r⟩
  · exact Or.inr ⟨d, hd, Or.inl hw⟩
  · exact Or.inr ⟨e, he, r.child hd hw⟩

/-- JSON can express the value itself (containers: their own node) -/
def Expressible : Val → Prop
  | .fn _ | .native .. | .regex _ => False
  | .num x => x.jsonFormat ≠ none
  | _ => True

theorem GoValRes.map_eq_error {α β : Type} (f : α → β) (r : GoValRes α) (m : String)
    (e : r.map f = .error m) : r = .error m := by
  cases r <;> simp_all [GoValRes.map]

/-- Every error of the conversion has a cause among the values reachable from the start:
    "circular reference" — a container that reaches itself; any other message — a value JSON
    cannot express. -/
theorem toJVal_error_cause (h : Heap) (v0 : Val) : ∀ (n : Nat) (path : List Cont) (check : Bool) (v : Val)
    (m : String), RootReach h v0 v → (∀ c ∈ path, ReachV h c v) →
    toJVal h n path check v = .error m →
    (m = "circular reference" ∧ ∃ w c, RootReach h v0 w ∧ w.cont? = some c ∧ Reach h c c) ∨
    (m ≠ "circular reference" ∧ ∃ w, RootReach h v0 w ∧ ¬ Expressible w) := by
  intro n
  induction n with
  | zero => intro path check v m _ _ e; simp [toJVal] at e
  | succ n ih =>
    intro path check v m hroot hpath e
    by_cases hon : (check && onPath path v) = true
    · rw [toJVal.eq_def] at e
      simp only [hon, ↓reduceIte, GoValRes.error.injEq] at e
      simp only [Bool.and_eq_true] at hon
      left
      refine ⟨e.symm, ?_⟩
      cases hc : v.cont? with
      | none => simp [onPath, hc] at hon
      | some c =>
        have hmem : c ∈ path := by simpa [onPath, hc] using hon.2
        exact ⟨v, c, hroot, hc, (hpath c hmem).cont hc⟩
    · have hon' : (check && onPath path v) = false := by simpa using hon
      cases v with
      | arr a =>
        rw [toJVal_arr_unfold h n path check a (by simpa [onPath_arr] using hon')] at e
        have e' := sequence_error_mem _ _ (GoValRes.map_eq_error _ _ _ e)
        obtain ⟨c, hc, hm⟩ := List.mem_map.1 e'
        have hch : Child h (.a a) (h.get c) := .arr a c hc
        refine ih (path ++ [.a a]) true (h.get c) m (hroot.child rfl hch) ?_ hm
        intro d hd
        rcases List.mem_append.1 hd with hd | hd
        · exact (hpath d hd).child rfl hch
        · simp at hd; subst hd; exact Or.inl hch
      | obj o =>
        rw [toJVal_obj_unfold h n path check o (by simpa [onPath_obj] using hon')] at e
        have e' := sequence_error_mem _ _ (GoValRes.map_eq_error _ _ _ e)
        obtain ⟨kv, hkv, hm⟩ := List.mem_map.1 e'
        have hm' := GoValRes.map_eq_error _ _ _ hm
        have hch : Child h (.o o) (h.get kv.2) := .obj o kv ((sortByKey_perm _).mem_iff.1 hkv)
        refine ih (path ++ [.o o]) true (h.get kv.2) m (hroot.child rfl hch) ?_ hm'
        intro d hd
        rcases List.mem_append.1 hd with hd | hd
        · exact (hpath d hd).child rfl hch
        · simp at hd; subst hd; exact Or.inl hch
      | num x =>
        rw [toJVal.eq_def] at e
        simp only [hon', Bool.false_eq_true, ↓reduceIte] at e
        cases hx : x.jsonFormat with
        | some lit => simp [hx] at e
        | none =>
          simp only [hx, GoValRes.error.injEq] at e
          right
          exact ⟨by rw [← e]; decide, .num x, hroot, by simp [Expressible, hx]⟩
      | fn i =>
        rw [toJVal.eq_def] at e
        simp only [hon', Bool.false_eq_true, ↓reduceIte, GoValRes.error.injEq] at e
        right; exact ⟨by rw [← e]; decide, _, hroot, by simp [Expressible]⟩
      | native f b sp =>
        rw [toJVal.eq_def] at e
        simp only [hon', Bool.false_eq_true, ↓reduceIte, GoValRes.error.injEq] at e
        right; exact ⟨by rw [← e]; decide, _, hroot, by simp [Expressible]⟩
      | regex r =>
        rw [toJVal.eq_def] at e
        simp only [hon', Bool.false_eq_true, ↓reduceIte, GoValRes.error.injEq] at e
        right; exact ⟨by rw [← e]; decide, _, hroot, by simp [Expressible]⟩
      | str s sp => rw [toJVal.eq_def] at e; simp [hon'] at e
      | bool b => rw [toJVal.eq_def] at e; simp [hon'] at e
      | nil sp => rw [toJVal.eq_def] at e; simp [hon'] at e
      | unknown => rw [toJVal.eq_def] at e; simp [hon'] at e

/-! ### what a successful conversion implies -/

theorem GoValRes.map_eq_ok {α β : Type} (f : α → β) (r : GoValRes α) (y : β)
    (e : r.map f = .ok y) : ∃ x, r = .ok x ∧ y = f x := by
  cases r <;> simp_all [GoValRes.map]

theorem toJVal_ok_not_on_path (h : Heap) (n : Nat) (path : List Cont) (check : Bool) (v : Val)
    (j : JVal) (e : toJVal h n path check v = .ok j) : (check && onPath path v) = false := by
  cases n with
  | zero => simp [toJVal] at e
  | succ n =>
    rw [toJVal.eq_def] at e
    by_cases hon : (check && onPath path v) = true
    · simp [hon] at e
    · simpa using hon

/-- success at a container implies success at each child, one level down the path -/
theorem toJVal_ok_child (h : Heap) (n : Nat) (path : List Cont) (check : Bool) (v : Val) (j : JVal)
    (e : toJVal h n path check v = .ok j) (d : Cont) (hd : v.cont? = some d) (w : Val)
    (hw : Child h d w) : ∃ n' j', toJVal h n' (path ++ [d]) true w = .ok j' := by
  have hon := toJVal_ok_not_on_path h n path check v j e
  cases n with
  | zero => simp [toJVal] at e
  | succ n =>
    cases v with
    | arr a =>
      simp only [Val.cont?, Option.some.injEq] at hd
      subst hd
      cases hw with
      | arr _ c hc =>
      rw [toJVal_arr_unfold h n path check a (by simpa [onPath_arr] using hon)] at e
      obtain ⟨items, hs, _⟩ := GoValRes.map_eq_ok _ _ _ e
      rw [sequence_eq_ok] at hs
      have : toJVal h n (path ++ [.a a]) true (h.get c) ∈ items.map GoValRes.ok := by
        rw [← hs]; exact List.mem_map.2 ⟨c, hc, rfl⟩
      obtain ⟨j', _, hj'⟩ := List.mem_map.1 this
      exact ⟨n, j', hj'.symm⟩
    | obj o =>
      simp only [Val.cont?, Option.some.injEq] at hd
      subst hd
      cases hw with
      | obj _ kv hkv =>
      rw [toJVal_obj_unfold h n path check o (by simpa [onPath_obj] using hon)] at e
      obtain ⟨items, hs, _⟩ := GoValRes.map_eq_ok _ _ _ e
      rw [sequence_eq_ok] at hs
      have : (toJVal h n (path ++ [.o o]) true (h.get kv.2)).map (fun j => (kv.1, j))
          ∈ items.map GoValRes.ok := by
        rw [← hs]; exact List.mem_map.2 ⟨kv, (sortByKey_perm _).mem_iff.2 hkv, rfl⟩
      obtain ⟨j', _, hj'⟩ := List.mem_map.1 this
      obtain ⟨x, hx, _⟩ := GoValRes.map_eq_ok _ _ _ hj'.symm
      exact ⟨n, x, hx⟩
    | _ => simp [Val.cont?] at hd

/-- success at a container `c` implies success (under a path containing `c`) at some value
    whose container is any `e` reachable from `c` -/
theorem toJVal_ok_reach (h : Heap) {c e : Cont} (r : Reach h c e) :
    ∀ (n : Nat) (path : List Cont) (check : Bool) (v : Val) (j : JVal),
      toJVal h n path check v = .ok j → v.cont? = some c →
      ∃ n' path' w j', (∀ x ∈ path, x ∈ path') ∧ c ∈ path' ∧ w.cont? = some e ∧
        toJVal h n' path' true w = .ok j' := by
  induction r with
  | step hv hd =>
    intro n path check v j e hc
    obtain ⟨n', j', h'⟩ := toJVal_ok_child h n path check v j e _ hc _ hv
    exact ⟨n', _, _, j', fun x hx => List.mem_append_left _ hx, by simp, hd, h'⟩
  | trans _ _ ih1 ih2 =>
    intro n path check v j e hc
    obtain ⟨n1, p1, w1, j1, hsub1, hmem1, hc1, e1⟩ := ih1 n path check v j e hc
    obtain ⟨n2, p2, w2, j2, hsub2, _, hc2, e2⟩ := ih2 n1 p1 true w1 j1 e1 hc1
    exact ⟨n2, p2, w2, j2, fun x hx => hsub2 x (hsub1 x hx), hsub2 _ hmem1, hc2, e2⟩

/-- success at the start implies success at every reachable value (under some path) -/
theorem toJVal_ok_rootReach (h : Heap) (n : Nat) (path : List Cont) (check : Bool) (v0 : Val) (j : JVal)
    (e : toJVal h n path check v0 = .ok j) (w : Val) (r : RootReach h v0 w) :
    ∃ n' path' check' j', toJVal h n' path' check' w = .ok j' := by
  rcases r with rfl | ⟨d, hd, hr⟩
  · exact ⟨n, path, check, j, e⟩
  · rcases hr with hch | ⟨d', hr, hch⟩
    · obtain ⟨n', j', h'⟩ := toJVal_ok_child h n path check v0 j e d hd w hch
      exact ⟨n', _, true, j', h'⟩
    · obtain ⟨n1, p1, w1, j1, _, _, hc1, e1⟩ := toJVal_ok_reach h hr n path check v0 j e hd
      obtain ⟨n', j', h'⟩ := toJVal_ok_child h n1 p1 true w1 j1 e1 d' hc1 w hch
      exact ⟨n', _, true, j', h'⟩

theorem toJVal_ok_expressible (h : Heap) (n : Nat) (path : List Cont) (check : Bool) (v : Val) (j : JVal)
    (e : toJVal h n path check v = .ok j) : Expressible v := by
  have hon := toJVal_ok_not_on_path h n path check v j e
  cases n with
  | zero => simp [toJVal] at e
  | succ n =>
    cases v <;> (try (simp [Expressible]; done)) <;>
      (rw [toJVal.eq_def] at e; simp only [hon, Bool.false_eq_true, ↓reduceIte] at e) <;>
      (try (simp at e; done))
    rename_i x
    simp only [Expressible]
    intro hx; simp [hx] at e

/-- a successful conversion never passed through a container that reaches itself -/
theorem toJVal_ok_acyclic (h : Heap) (n : Nat) (path : List Cont) (check : Bool) (v : Val) (j : JVal)
    (e : toJVal h n path check v = .ok j) (c : Cont) (hc : v.cont? = some c) : ¬ Reach h c c := by
  intro r
  obtain ⟨n', path', w, j', _, hmem, hcw, e'⟩ := toJVal_ok_reach h r n path check v j e hc
  have := toJVal_ok_not_on_path h n' path' true w j' e'
  simp [onPath, hcw, hmem] at this

end Jqawk
