/-
  Lemmas about the lexer model (Model/Lexer.lean): `getLineAndCol`, `skipWs`, `spanB`, `scanTo`,
  position bounds of `Lexer.next`.  Used by Props/C12.lean and Props/C13.lean.
-/
import Jqawk.Model.Lexer

namespace Jqawk

/-! ### `getLineAndCol` -/

namespace LineColLemmas

theorem takeLine_append_of_not_mem (cur after : Bytes) (h : (10 : UInt8) ∉ cur) :
    takeLine (cur ++ after) = cur ++ takeLine after := by
  induction cur with
  | nil => rfl
  | cons c cs ih =>
    have hc : c ≠ 10 := fun e => h (by simp [e])
    have hcs : (10 : UInt8) ∉ cs := fun m => h (List.mem_cons_of_mem _ m)
    simp [takeLine, hc, ih hcs]

theorem takeLine_of_not_mem (cur : Bytes) (h : (10 : UInt8) ∉ cur) : takeLine cur = cur := by
  simpa [takeLine] using takeLine_append_of_not_mem cur [] h

theorem aux_zero (lr s : Bytes) (line col : Nat) :
    getLineAndColAux lr s line col 0 = ⟨takeLine lr, line, col⟩ := by
  cases s <;> rfl

/-- skipping a newline-free stretch only advances the column -/
theorem aux_skip_noNl (cur : Bytes) (h : (10 : UInt8) ∉ cur) (lr after : Bytes) (line col k : Nat) :
    getLineAndColAux lr (cur ++ after) line col (cur.length + k)
      = getLineAndColAux lr after line (col + cur.length) k := by
  induction cur generalizing col with
  | nil => simp
  | cons c cs ih =>
    have hc : c ≠ 10 := fun e => h (by simp [e])
    have hcs : (10 : UInt8) ∉ cs := fun m => h (List.mem_cons_of_mem _ m)
    have : (c :: cs).length + k = (cs.length + k) + 1 := by simp; omega
    rw [this, List.cons_append, getLineAndColAux]
    simp only [beq_iff_eq, hc, ↓reduceIte]
    rw [ih hcs]
    congr 1
    simp; omega

/-- skipping a stretch that ends in a newline: the line counter advances by the number of
    newlines, the current line restarts right after it -/
theorem aux_skip_lines (pre : Bytes) (h : pre.getLast? = some 10) (rest lr : Bytes)
    (line col k : Nat) :
    getLineAndColAux lr (pre ++ rest) line col (pre.length + k)
      = getLineAndColAux rest rest (line + pre.count 10) 0 k := by
  induction pre generalizing lr line col with
  | nil => simp at h
  | cons c cs ih =>
    have hk : (c :: cs).length + k = (cs.length + k) + 1 := by simp; omega
    rw [hk, List.cons_append, getLineAndColAux]
    by_cases hc : c = 10
    · subst hc
      simp only [beq_self_eq_true, ↓reduceIte]
      cases cs with
      | nil => simp
      | cons d ds =>
        rw [ih (by simpa [List.getLast?_cons_cons] using h)]
        congr 1
        simp [List.count_cons]; omega
    · simp only [beq_iff_eq, hc, ↓reduceIte]
      cases cs with
      | nil => simp at h; exact absurd h hc
      | cons d ds =>
        rw [ih (by simpa [List.getLast?_cons_cons] using h)]
        congr 1
        simp [List.count_cons, hc]

theorem aux_beyond (s lr : Bytes) (line col k : Nat) (hk : s.length ≤ k) :
    getLineAndColAux lr s line col k = getLineAndColAux lr s line col s.length := by
  induction s generalizing lr line col k with
  | nil => cases k <;> simp [getLineAndColAux]
  | cons c cs ih =>
    cases k with
    | zero => simp at hk
    | succ k =>
      have hk' : cs.length ≤ k := by simpa using hk
      simp only [List.length_cons, getLineAndColAux]
      split
      · exact ih _ _ _ _ hk'
      · exact ih _ _ _ _ hk'

/-- every byte string splits into complete lines followed by a newline-free remainder -/
theorem split_last_line (a : Bytes) :
    ∃ pre cur, a = pre ++ cur ∧ (pre = [] ∨ pre.getLast? = some 10) ∧ (10 : UInt8) ∉ cur := by
  induction a with
  | nil => exact ⟨[], [], rfl, .inl rfl, by simp⟩
  | cons c cs ih =>
    obtain ⟨pre, cur, rfl, hp, hc⟩ := ih
    rcases hp with rfl | hp
    · by_cases h10 : c = 10
      · exact ⟨[c], cur, rfl, .inr (by simp [h10]), hc⟩
      · refine ⟨[], c :: cur, rfl, .inl rfl, ?_⟩
        simp only [List.mem_cons, not_or]
        exact ⟨fun e => h10 e.symm, hc⟩
    · refine ⟨c :: pre, cur, rfl, .inr ?_, hc⟩
      cases pre with
      | nil => simp at hp
      | cons d ds => simpa [List.getLast?_cons_cons] using hp

end LineColLemmas


/-! ### `Lexer.next` = skip trivia, then dispatch on the first byte -/

namespace Lexer

/-- The dispatch part of `Lexer.next` (everything after `skipWhitespace`), as a function of the
    first byte `c`, the bytes after it and the offset of `c`.  (`Lexer.next` uses a private
    helper, so the copy is stated with explicit results; `next_eq` is by `rfl`.) -/
def lexAt (c : UInt8) (cs : Bytes) (p : Nat) : Except SynErr (Token × LexState) :=
  let simple (t : Tag) (r : Bytes) (n : Nat) : Except SynErr (Token × LexState) :=
    .ok (⟨t, p, []⟩, ⟨r, p + n, p⟩)
  if c == 10 then simple .newline cs 1
  else if c == 36 then .ok (identifier [36] p cs)
  else if isDigitB c then .ok (number p (c :: cs))
  else if isLetterB c || c == 95 then .ok (identifier [] p (c :: cs))
  else
    let two (t2 : Tag) (rest2 : Bytes) := simple t2 rest2 2
    let one (t1 : Tag) := simple t1 cs 1
    if c == 123 then one .lcurly
    else if c == 125 then one .rcurly
    else if c == 91 then one .lsquare
    else if c == 93 then one .rsquare
    else if c == 40 then one .lparen
    else if c == 41 then one .rparen
    else if c == 44 then one .comma
    else if c == 46 then one .dot
    else if c == 59 then one .semiColon
    else if c == 58 then one .colon
    else if c == 126 then one .tilde
    else if c == 37 then one .percent
    else if c == 60 then
      match cs with | 61 :: r2 => two .lessEqual r2 | _ => one .lessThan
    else if c == 62 then
      match cs with | 61 :: r2 => two .greaterEqual r2 | _ => one .greaterThan
    else if c == 43 then
      match cs with
      | 43 :: r2 => two .plusPlus r2
      | 61 :: r2 => two .plusEqual r2
      | _ => one .plus
    else if c == 45 then
      match cs with
      | 45 :: r2 => two .minusMinus r2
      | 61 :: r2 => two .minusEqual r2
      | _ => one .minus
    else if c == 42 then
      match cs with | 61 :: r2 => two .multiplyEqual r2 | _ => one .multiply
    else if c == 47 then
      match cs with | 61 :: r2 => two .divideEqual r2 | _ => one .divide
    else if c == 61 then
      match cs with
      | 61 :: r2 => two .equalEqual r2
      | 62 :: r2 => two .arrow r2
      | _ => one .equal
    else if c == 33 then
      match cs with
      | 61 :: r2 => two .bangEqual r2
      | 126 :: r2 => two .bangTilde r2
      | _ => one .bang
    else if c == 38 then
      match cs with
      | 38 :: r2 => two .ampAmp r2
      | _ => .error ⟨p, "unexpected character"⟩
    else if c == 124 then
      match cs with
      | 124 :: r2 => two .pipePipe r2
      | _ => .error ⟨p, "unexpected character"⟩
    else if c == 39 || c == 34 then string c p cs
    else .error ⟨p, "unexpected character"⟩

theorem next_eq (s : LexState) :
    next s = match skipWs (s.rest.length + 1) s.rest s.pos with
      | ([], p) => .ok (⟨.eof, s.tokenStart, []⟩, ⟨[], p, s.tokenStart⟩)
      | (c :: cs, p) => lexAt c cs p := by
  unfold next
  generalize skipWs (s.rest.length + 1) s.rest s.pos = x
  obtain ⟨r, p⟩ := x
  cases r with
  | nil => rfl
  | cons c cs => rfl

/-! ### `skipComment`, `skipWs` -/

/-- the bytes `skipWhitespace` skips one at a time -/
def isBlankB (c : UInt8) : Bool := c == 32 || c == 13 || c == 9

theorem skipWs_succ_cons (fuel : Nat) (c : UInt8) (cs : Bytes) (p : Nat) :
    skipWs (fuel + 1) (c :: cs) p =
      if isBlankB c then skipWs fuel cs (p + 1)
      else if c == 35 then skipWs fuel (skipComment cs (p + 1)).1 (skipComment cs (p + 1)).2
      else (c :: cs, p) := by
  simp only [skipWs, isBlankB]
  rfl

theorem skipWs_nil (fuel p : Nat) : skipWs fuel [] p = ([], p) := by
  cases fuel <;> rfl

theorem skipComment_spec (body rest : Bytes) (p : Nat) (hb : (10 : UInt8) ∉ body)
    (hr : rest = [] ∨ rest.head? = some 10) :
    skipComment (body ++ rest) p = (rest, p + body.length) := by
  induction body generalizing p with
  | nil =>
    rcases hr with rfl | hr
    · rfl
    · cases rest with
      | nil => simp at hr
      | cons d ds => simp at hr; subst hr; simp [skipComment]
  | cons c cs ih =>
    have hc : c ≠ 10 := fun e => hb (by simp [e])
    have hcs : (10 : UInt8) ∉ cs := fun m => hb (List.mem_cons_of_mem _ m)
    simp only [List.cons_append, skipComment, beq_iff_eq, hc, ↓reduceIte, ih (p + 1) hcs]
    simp; omega

theorem skipComment_decomp (cs : Bytes) (p : Nat) :
    ∃ body, cs = body ++ (skipComment cs p).1 ∧ (skipComment cs p).2 = p + body.length ∧
      (10 : UInt8) ∉ body ∧
      ((skipComment cs p).1 = [] ∨ (skipComment cs p).1.head? = some 10) := by
  induction cs generalizing p with
  | nil => exact ⟨[], rfl, rfl, by simp, .inl rfl⟩
  | cons c cs ih =>
    by_cases hc : c = 10
    · subst hc
      exact ⟨[], by simp [skipComment], by simp [skipComment], by simp, .inr (by simp [skipComment])⟩
    · obtain ⟨body, h1, h2, h3, h4⟩ := ih (p + 1)
      refine ⟨c :: body, ?_, ?_, ?_, ?_⟩
      · simp only [skipComment, beq_iff_eq, hc, ↓reduceIte, List.cons_append]; rw [← h1]
      · simp only [skipComment, beq_iff_eq, hc, ↓reduceIte, h2, List.length_cons]; omega
      · simp only [List.mem_cons, not_or]; exact ⟨fun e => hc e.symm, h3⟩
      · simpa only [skipComment, beq_iff_eq, hc, ↓reduceIte] using h4

/-- what `skipWs` skipped is a prefix of its input, and the offset advanced by its length -/
theorem skipWs_decomp (fuel : Nat) (r : Bytes) (p : Nat) :
    ∃ ws, r = ws ++ (skipWs fuel r p).1 ∧ (skipWs fuel r p).2 = p + ws.length := by
  induction fuel generalizing r p with
  | zero => exact ⟨[], by simp [skipWs], by simp [skipWs]⟩
  | succ fuel ih =>
    cases r with
    | nil => exact ⟨[], by simp [skipWs_nil], by simp [skipWs_nil]⟩
    | cons c cs =>
      rw [skipWs_succ_cons]
      split
      · obtain ⟨ws, h1, h2⟩ := ih cs (p + 1)
        exact ⟨c :: ws, by rw [List.cons_append, ← h1], by rw [h2, List.length_cons]; omega⟩
      · split
        · obtain ⟨body, b1, b2, _, _⟩ := skipComment_decomp cs (p + 1)
          obtain ⟨ws, h1, h2⟩ := ih (skipComment cs (p + 1)).1 (skipComment cs (p + 1)).2
          refine ⟨c :: body ++ ws, ?_, ?_⟩
          · rw [List.cons_append, List.cons_append, List.append_assoc, ← h1, ← b1]
          · rw [h2, b2]; simp; omega
        · exact ⟨[], rfl, rfl⟩

/-- with fuel exceeding the length of the input, `skipWs` does not depend on the fuel -/
theorem skipWs_fuel (f1 f2 : Nat) (r : Bytes) (p : Nat) (h1 : r.length < f1) (h2 : r.length < f2) :
    skipWs f1 r p = skipWs f2 r p := by
  induction f1 generalizing f2 r p with
  | zero => omega
  | succ f1 ih =>
    cases f2 with
    | zero => omega
    | succ f2 =>
      cases r with
      | nil => rfl
      | cons c cs =>
        simp only [List.length_cons] at h1 h2
        rw [skipWs_succ_cons, skipWs_succ_cons]
        split
        · exact ih _ _ _ (by omega) (by omega)
        · split
          · obtain ⟨body, b1, _⟩ := skipComment_decomp cs (p + 1)
            have : (skipComment cs (p + 1)).1.length ≤ cs.length := by
              have := congrArg List.length b1
              simp at this; omega
            exact ih _ _ _ (by omega) (by omega)
          · rfl

/-- blanks, tabs and CRs are skipped -/
theorem skipWs_blanks (t : Bytes) (ht : ∀ c ∈ t, isBlankB c = true) (rest : Bytes) (fuel p : Nat) :
    skipWs (t.length + fuel) (t ++ rest) p = skipWs fuel rest (p + t.length) := by
  induction t generalizing p with
  | nil => simp
  | cons c cs ih =>
    have hc : isBlankB c = true := ht c (by simp)
    have hcs : ∀ d ∈ cs, isBlankB d = true := fun d hd => ht d (List.mem_cons_of_mem _ hd)
    rw [show (c :: cs).length + fuel = (cs.length + fuel) + 1 by simp; omega, List.cons_append,
      skipWs_succ_cons, if_pos hc, ih hcs]
    congr 1; simp; omega

/-- a comment is skipped up to (not including) the newline that ends it, or up to the end -/
theorem skipWs_comment (body rest : Bytes) (hb : (10 : UInt8) ∉ body)
    (hr : rest = [] ∨ rest.head? = some 10) (fuel p : Nat) :
    skipWs (fuel + 1) (35 :: body ++ rest) p = skipWs fuel rest (p + (35 :: body).length) := by
  rw [List.cons_append, skipWs_succ_cons, if_neg (by decide), if_pos (by decide),
    skipComment_spec body rest (p + 1) hb hr]
  congr 1; simp; omega

/-- Horizontal trivia in front of `rest`: blanks, tabs, CRs and `#` comments, each comment
    running up to a newline or the end of the text. -/
inductive Trivia : Bytes → Bytes → Prop
  | nil (rest : Bytes) : Trivia [] rest
  | blank (c : UInt8) (t rest : Bytes) : isBlankB c = true → Trivia t rest → Trivia (c :: t) rest
  | comment (body t rest : Bytes) : (10 : UInt8) ∉ body →
      (t ++ rest = [] ∨ (t ++ rest).head? = some 10) → Trivia t rest →
      Trivia (35 :: body ++ t) rest

theorem skipWs_trivia_gen {t rest : Bytes} (ht : Trivia t rest) (f1 f2 p : Nat)
    (h1 : (t ++ rest).length < f1) (h2 : rest.length < f2) :
    skipWs f1 (t ++ rest) p = skipWs f2 rest (p + t.length) := by
  induction ht generalizing f1 p with
  | nil rest => simpa using skipWs_fuel f1 f2 rest p (by simpa using h1) h2
  | blank c t rest hc _ ih =>
    obtain ⟨f, rfl⟩ : ∃ f, f1 = f + 1 := ⟨f1 - 1, by omega⟩
    rw [List.cons_append, skipWs_succ_cons, if_pos hc, ih f (p + 1) (by simpa using h1) h2]
    congr 1; simp; omega
  | comment body t rest hb hr _ ih =>
    obtain ⟨f, rfl⟩ : ∃ f, f1 = f + 1 := ⟨f1 - 1, by omega⟩
    rw [List.append_assoc, skipWs_comment body (t ++ rest) hb hr,
      ih f _ (by simp at h1 ⊢; omega) h2]
    congr 1; simp; omega

/-! ### `spanB`, `scanTo` -/

theorem spanB_cons (f : UInt8 → Bool) (c : UInt8) (cs : Bytes) :
    spanB f (c :: cs) = if f c then (c :: (spanB f cs).1, (spanB f cs).2) else ([], c :: cs) := by
  simp only [spanB]

theorem spanB_append (f : UInt8 → Bool) (r : Bytes) : (spanB f r).1 ++ (spanB f r).2 = r := by
  induction r with
  | nil => rfl
  | cons c cs ih => rw [spanB_cons]; split <;> simp [ih]

theorem spanB_all (f : UInt8 → Bool) (r : Bytes) : ∀ c ∈ (spanB f r).1, f c = true := by
  induction r with
  | nil => simp [spanB]
  | cons c cs ih =>
    rw [spanB_cons]; split
    · intro d hd
      simp only [List.mem_cons] at hd
      rcases hd with rfl | hd
      · assumption
      · exact ih d hd
    · simp

/-- maximality: what `spanB` leaves begins with a byte that fails the test (or is empty) -/
theorem spanB_rest (f : UInt8 → Bool) (r : Bytes) :
    ∀ c, (spanB f r).2.head? = some c → f c = false := by
  induction r with
  | nil => simp [spanB]
  | cons c cs ih =>
    rw [spanB_cons]; split
    · exact ih
    · intro d hd; simp at hd; subst hd; simpa using ‹¬f c = true›

theorem spanB_spec (f : UInt8 → Bool) (w rest : Bytes) (hw : ∀ c ∈ w, f c = true)
    (hr : ∀ c, rest.head? = some c → f c = false) : spanB f (w ++ rest) = (w, rest) := by
  induction w with
  | nil =>
    cases rest with
    | nil => rfl
    | cons d ds => simp [spanB_cons, hr d rfl]
  | cons c cs ih =>
    rw [List.cons_append, spanB_cons, if_pos (hw c (by simp)),
      ih (fun d hd => hw d (List.mem_cons_of_mem _ hd))]

theorem scanTo_some_iff (q : UInt8) (r body r' : Bytes) :
    scanTo q r = some (body, r') ↔ r = body ++ q :: r' ∧ q ∉ body := by
  induction r generalizing body with
  | nil => simp [scanTo]
  | cons c cs ih =>
    simp only [scanTo]
    by_cases hc : c = q
    · subst hc
      simp only [beq_self_eq_true, ↓reduceIte, Option.some.injEq, Prod.mk.injEq]
      constructor
      · rintro ⟨rfl, rfl⟩; simp
      · rintro ⟨h, hn⟩
        cases body with
        | nil => simpa using h
        | cons b bs => simp at h; exact absurd (by simp [h.1]) hn
    · simp only [beq_iff_eq, hc, ↓reduceIte]
      cases hs : scanTo q cs with
      | none =>
        simp only [false_iff, reduceCtorEq]
        rintro ⟨h, hn⟩
        cases body with
        | nil => simp at h; exact hc h.1
        | cons b bs =>
          simp at h
          have := (ih bs).mpr ⟨h.2, fun m => hn (List.mem_cons_of_mem _ m)⟩
          rw [hs] at this; cases this
      | some ab =>
        obtain ⟨a, b⟩ := ab
        have iha := ih a
        rw [hs] at iha
        simp only [Option.some.injEq, Prod.mk.injEq]
        constructor
        · rintro ⟨rfl, rfl⟩
          obtain ⟨h1, h2⟩ := (ih a).mp (by rw [hs])
          refine ⟨by rw [h1]; rfl, ?_⟩
          simp only [List.mem_cons, not_or]
          exact ⟨fun e => hc e.symm, h2⟩
        · rintro ⟨h, hn⟩
          cases body with
          | nil => simp at h; exact absurd h.1 hc
          | cons b bs =>
            simp at h
            have := (ih bs).mpr ⟨h.2, fun m => hn (List.mem_cons_of_mem _ m)⟩
            rw [hs] at this
            simp at this
            exact ⟨by rw [h.1, this.1], this.2⟩

theorem scanTo_none_iff (q : UInt8) (r : Bytes) : scanTo q r = none ↔ q ∉ r := by
  induction r with
  | nil => simp [scanTo]
  | cons c cs ih =>
    simp only [scanTo]
    by_cases hc : c = q
    · simp [hc]
    · simp only [beq_iff_eq, hc, ↓reduceIte, List.mem_cons, not_or]
      cases hs : scanTo q cs with
      | none => simp [ih.mp hs, Ne.symm hc]
      | some ab => simp; intro _; rw [hs] at ih; simpa using ih

/-! ### the token scanners -/

theorem identifier_eq (pre : Bytes) (start : Nat) (r : Bytes) :
    identifier pre start r =
      ((match keyword (pre ++ (spanB isIdentB r).1) with
        | some t => ⟨t, start, []⟩
        | none => ⟨.ident, start, pre ++ (spanB isIdentB r).1⟩),
       ⟨(spanB isIdentB r).2, start + (pre ++ (spanB isIdentB r).1).length, start⟩) := by
  unfold identifier
  generalize spanB isIdentB r = x
  obtain ⟨w, r'⟩ := x
  dsimp only
  cases keyword (pre ++ w) <;> rfl

theorem number_eq (start : Nat) (r : Bytes) :
    number start r =
      match (spanB isDigitB r).2 with
      | 46 :: d :: r2 =>
        if isDigitB d then
          (⟨.num, start, (spanB isDigitB r).1 ++ 46 :: (spanB isDigitB (d :: r2)).1⟩,
           ⟨(spanB isDigitB (d :: r2)).2,
            start + ((spanB isDigitB r).1 ++ 46 :: (spanB isDigitB (d :: r2)).1).length, start⟩)
        else (⟨.num, start, (spanB isDigitB r).1⟩,
              ⟨(spanB isDigitB r).2, start + (spanB isDigitB r).1.length, start⟩)
      | _ => (⟨.num, start, (spanB isDigitB r).1⟩,
              ⟨(spanB isDigitB r).2, start + (spanB isDigitB r).1.length, start⟩) := by
  unfold number
  rfl

theorem ite_some_prop {P : Tag → Prop} (c : Prop) [Decidable c] (a : Tag) (e : Option Tag)
    (ha : P a) (he : ∀ t, e = some t → P t) : ∀ t, (if c then some a else e) = some t → P t := by
  intro t h
  split at h
  · cases h; exact ha
  · exact he t h

/-- the tags `keyword` can return -/
def isKeywordTag (t : Tag) : Bool :=
  [Tag.begin_, .end_, .beginFile, .endFile, .print, .dollar, .function, .return_, .if_, .else_,
   .for_, .while_, .in_, .match_, .true_, .false_, .break_, .continue_, .next, .exit, .null,
   .is].contains t

theorem keyword_range (s : Bytes) : ∀ t, keyword s = some t → isKeywordTag t = true := by
  unfold keyword
  iterate 22 refine ite_some_prop _ _ _ (by decide) ?_
  intro t h; cases h

theorem keyword_ne_ident_num (s : Bytes) (t : Tag) (h : keyword s = some t) :
    t ≠ .ident ∧ t ≠ .num ∧ t ≠ .eof := by
  have := keyword_range s t h
  revert this; cases t <;> decide

/-- `tok` are the bytes a scanner consumed from `r` at offset `p`, yielding token `t` and
    successor state `s'`. -/
def Consumed (r : Bytes) (p : Nat) (t : Token) (s' : LexState) : Prop :=
  ∃ tok, tok ≠ [] ∧ r = tok ++ s'.rest ∧ s'.pos = p + tok.length ∧ p ≤ t.pos ∧ t.pos ≤ s'.pos

theorem identifier_pos (pre : Bytes) (start : Nat) (r : Bytes) :
    (identifier pre start r).1.pos = start := by
  rw [identifier_eq]; dsimp only; split <;> rfl

theorem identifier_consumed (pre : Bytes) (start : Nat) (r : Bytes)
    (h : pre ≠ [] ∨ ∃ c cs, r = c :: cs ∧ isIdentB c = true) :
    Consumed (pre ++ r) start (identifier pre start r).1 (identifier pre start r).2 := by
  refine ⟨pre ++ (spanB isIdentB r).1, ?_, ?_, ?_, ?_, ?_⟩
  · rcases h with h | ⟨c, cs, rfl, hc⟩
    · simp [h]
    · simp [spanB_cons, hc]
  · rw [identifier_eq]; simp [spanB_append]
  · rw [identifier_eq]
  · rw [identifier_pos]; exact Nat.le_refl _
  · rw [identifier_pos, identifier_eq]; simp

theorem number_consumed (start : Nat) (c : UInt8) (cs : Bytes) (hc : isDigitB c = true) :
    Consumed (c :: cs) start (number start (c :: cs)).1 (number start (c :: cs)).2 := by
  have happ := spanB_append isDigitB (c :: cs)
  have hne : (spanB isDigitB (c :: cs)).1 ≠ [] := by simp [spanB_cons, hc]
  rw [number_eq]
  split
  · rename_i d r2 heq
    split
    · refine ⟨(spanB isDigitB (c :: cs)).1 ++ 46 :: (spanB isDigitB (d :: r2)).1, by simp, ?_, rfl,
        Nat.le_refl _, by simp⟩
      dsimp only
      rw [List.append_assoc, List.cons_append, spanB_append, ← heq, happ]
    · exact ⟨(spanB isDigitB (c :: cs)).1, hne, happ.symm, rfl, Nat.le_refl _, by simp⟩
  · exact ⟨(spanB isDigitB (c :: cs)).1, hne, happ.symm, rfl, Nat.le_refl _, by simp⟩

theorem string_ok_iff (q : UInt8) (start : Nat) (r : Bytes) (t : Token) (s' : LexState) :
    string q start r = .ok (t, s') ↔
      ∃ body rest', r = body ++ q :: rest' ∧ q ∉ body ∧ t = ⟨.str, start + 1, body⟩ ∧
        s' = ⟨rest', start + 1 + body.length + 1, start + 1⟩ := by
  unfold string
  cases hs : scanTo q r with
  | none =>
    simp only [reduceCtorEq, false_iff]
    rintro ⟨body, rest', h1, h2, _⟩
    have := (scanTo_some_iff q r body rest').mpr ⟨h1, h2⟩
    rw [hs] at this; cases this
  | some br =>
    obtain ⟨b, r'⟩ := br
    obtain ⟨h1, h2⟩ := (scanTo_some_iff q r b r').mp hs
    simp only [Except.ok.injEq, Prod.mk.injEq]
    constructor
    · rintro ⟨rfl, rfl⟩; exact ⟨b, r', h1, h2, rfl, rfl⟩
    · rintro ⟨body, rest', h3, h4, rfl, rfl⟩
      have := (scanTo_some_iff q r body rest').mpr ⟨h3, h4⟩
      rw [hs] at this
      simp only [Option.some.injEq, Prod.mk.injEq] at this
      obtain ⟨rfl, rfl⟩ := this
      exact ⟨rfl, rfl⟩

theorem string_error_iff (q : UInt8) (start : Nat) (r : Bytes) (e : SynErr) :
    string q start r = .error e ↔
      q ∉ r ∧ e = ⟨start + 1, "unexpected EOF while reading string"⟩ := by
  unfold string
  cases hs : scanTo q r with
  | none =>
    simp only [Except.error.injEq]
    exact ⟨fun h => ⟨(scanTo_none_iff q r).mp hs, h.symm⟩, fun h => h.2.symm⟩
  | some br =>
    simp only [reduceCtorEq, false_iff, not_and]
    intro hn
    rw [(scanTo_none_iff q r).mpr hn] at hs; cases hs

theorem string_consumed (q : UInt8) (start : Nat) (r : Bytes) (t : Token) (s' : LexState)
    (h : string q start r = .ok (t, s')) : Consumed (q :: r) start t s' := by
  obtain ⟨body, rest', rfl, _, rfl, rfl⟩ := (string_ok_iff q start r t s').mp h
  exact ⟨q :: body ++ [q], by simp, by simp, by simp; omega, by simp, by simp; omega⟩

/-- the shape of what `number` scans -/
theorem number_spec (start : Nat) (r : Bytes) :
    (number start r).1.tag = .num ∧ (number start r).1.pos = start ∧
    r = (number start r).1.text ++ (number start r).2.rest ∧
    (number start r).2.pos = start + (number start r).1.text.length ∧
    (number start r).2.tokenStart = start ∧
    (∀ c, (number start r).2.rest.head? = some c → isDigitB c = false) ∧
    (∀ c ∈ (spanB isDigitB r).1, isDigitB c = true) ∧
    (((number start r).1.text = (spanB isDigitB r).1 ∧
        ∀ d r2, (number start r).2.rest = 46 :: d :: r2 → isDigitB d = false) ∨
     ∃ fs, fs ≠ [] ∧ (∀ c ∈ fs, isDigitB c = true) ∧
        (number start r).1.text = (spanB isDigitB r).1 ++ [46] ++ fs) := by
  have happ := spanB_append isDigitB r
  have hall := spanB_all isDigitB r
  have hrest := spanB_rest isDigitB r
  rw [number_eq]
  generalize (spanB isDigitB r).1 = ds at *
  generalize (spanB isDigitB r).2 = r1 at *
  subst happ
  split
  · rename_i d r2
    split
    · rename_i hd
      refine ⟨rfl, rfl, ?_, rfl, rfl, spanB_rest isDigitB (d :: r2), hall, .inr
        ⟨(spanB isDigitB (d :: r2)).1, by simp [spanB_cons, hd], spanB_all isDigitB (d :: r2), by simp⟩⟩
      dsimp only
      rw [List.append_assoc, List.cons_append, spanB_append]
    · rename_i hd
      refine ⟨rfl, rfl, rfl, rfl, rfl, hrest, hall, .inl ⟨rfl, ?_⟩⟩
      intro d' r2' h
      simp only [List.cons.injEq, true_and] at h
      rw [← h.1]; simpa using hd
  · rename_i hno
    refine ⟨rfl, rfl, rfl, rfl, rfl, hrest, hall, .inl ⟨rfl, ?_⟩⟩
    intro d r2 h
    cases hd : isDigitB d with
    | false => rfl
    | true => exact absurd h (by intro h; exact hno d r2 h)

/-! ### the dispatch, case by case -/

def isPunctTag (t : Tag) : Bool :=
  [Tag.newline, .lcurly, .rcurly, .lsquare, .rsquare, .lparen, .rparen, .lessThan, .greaterThan,
   .comma, .dot, .equal, .equalEqual, .bangEqual, .lessEqual, .greaterEqual, .colon, .semiColon,
   .plus, .minus, .multiply, .divide, .plusEqual, .minusEqual, .multiplyEqual, .divideEqual,
   .tilde, .bangTilde, .ampAmp, .pipePipe, .arrow, .bang, .plusPlus, .minusMinus, .percent].contains t

inductive LexAtRes (c : UInt8) (cs : Bytes) (p : Nat) : Except SynErr (Token × LexState) → Prop
  | one (tg : Tag) (h : isPunctTag tg = true) : LexAtRes c cs p (.ok (⟨tg, p, []⟩, ⟨cs, p + 1, p⟩))
  | two (tg : Tag) (h : isPunctTag tg = true) (d : UInt8) (r2 : Bytes) (hcs : cs = d :: r2) :
      LexAtRes c cs p (.ok (⟨tg, p, []⟩, ⟨r2, p + 2, p⟩))
  | dollar (h : c = 36) : LexAtRes c cs p (.ok (identifier [36] p cs))
  | ident (h : isIdentB c = true) (h : isDigitB c = false) : LexAtRes c cs p (.ok (identifier [] p (c :: cs)))
  | num (h : isDigitB c = true) : LexAtRes c cs p (.ok (number p (c :: cs)))
  | str (h : c = 39 ∨ c = 34) : LexAtRes c cs p (string c p cs)
  | bad : LexAtRes c cs p (.error ⟨p, "unexpected character"⟩)

theorem ite_P {β : Type} {P : β → Prop} (c : Prop) [Decidable c] (a e : β)
    (ha : c → P a) (he : ¬c → P e) : P (if c then a else e) := by
  split
  · exact ha ‹_›
  · exact he ‹_›

theorem lexAt_res (c : UInt8) (cs : Bytes) (p : Nat) : LexAtRes c cs p (lexAt c cs p) := by
  unfold lexAt
  dsimp only
  refine ite_P _ _ _ (fun _ => .one _ (by decide)) (fun _ => ?_)
  refine ite_P _ _ _ (fun h => .dollar (by simpa using h)) (fun _ => ?_)
  refine ite_P _ _ _ (fun h => .num h) (fun hd => ?_)
  refine ite_P _ _ _ (fun h => .ident ?_ (by simpa using hd)) (fun _ => ?_)
  · simp only [isIdentB]; simp only [Bool.or_eq_true] at h ⊢; rcases h with h | h <;> simp [h]
  iterate 12 refine ite_P _ _ _ (fun _ => .one _ (by decide)) (fun _ => ?_)
  iterate 10
    refine ite_P _ _ _ (fun _ => ?_) (fun _ => ?_)
    · split <;> first | exact .one _ (by decide) | exact .two _ (by decide) _ _ rfl | exact .bad
  refine ite_P _ _ _ (fun h => .str (by simpa using h)) (fun _ => .bad)

variable {c : UInt8} {cs : Bytes} {p : Nat} {res : Except SynErr (Token × LexState)}

theorem isPunctTag_ne (tg : Tag) (h : isPunctTag tg = true) :
    tg ≠ .num ∧ tg ≠ .eof ∧ tg ≠ .ident ∧ tg ≠ .str := by
  revert h; cases tg <;> decide

theorem identifier_tag (pre : Bytes) (start : Nat) (r : Bytes) :
    (identifier pre start r).1.tag ≠ .num ∧ (identifier pre start r).1.tag ≠ .eof := by
  rw [identifier_eq]; dsimp only
  split
  · rename_i t h; have := keyword_ne_ident_num _ t h; exact ⟨this.2.1, this.2.2⟩
  · exact ⟨by simp, by simp⟩

theorem number_tag (start : Nat) (r : Bytes) : (number start r).1.tag = .num := by
  rw [number_eq]; split
  · split <;> rfl
  · rfl

theorem LexAtRes.consumed (hr : LexAtRes c cs p res) {t : Token} {s' : LexState}
    (h : res = .ok (t, s')) : Consumed (c :: cs) p t s' := by
  cases hr with
  | one tg _ => cases h; exact ⟨[c], by simp, rfl, rfl, Nat.le_refl _, by simp⟩
  | two tg _ d r2 hcs => cases h; subst hcs; exact ⟨[c, d], by simp, rfl, rfl, Nat.le_refl _, by simp⟩
  | dollar hc =>
    injection h with h
    have := identifier_consumed [36] p cs (.inl (by simp))
    rw [h] at this; subst hc; exact this
  | ident hi _ =>
    injection h with h
    have := identifier_consumed [] p (c :: cs) (.inr ⟨c, cs, rfl, hi⟩)
    rw [h] at this; exact this
  | num hd =>
    injection h with h
    have := number_consumed p c cs hd
    rw [h] at this; exact this
  | str _ => exact string_consumed c p cs t s' h
  | bad => cases h

theorem LexAtRes.ne_eof (hr : LexAtRes c cs p res) {t : Token} {s' : LexState}
    (h : res = .ok (t, s')) : t.tag ≠ .eof := by
  cases hr with
  | one tg ht => cases h; exact (isPunctTag_ne tg ht).2.1
  | two tg ht d r2 hcs => cases h; exact (isPunctTag_ne tg ht).2.1
  | dollar hc => injection h with h; have := (identifier_tag [36] p cs).2; rw [h] at this; exact this
  | ident hi _ =>
    injection h with h; have := (identifier_tag [] p (c :: cs)).2; rw [h] at this; exact this
  | num hd =>
    injection h with h; have := number_tag p (c :: cs); rw [h] at this
    show t.tag ≠ .eof; rw [this]; decide
  | str _ =>
    obtain ⟨body, rest', _, _, rfl, _⟩ := (string_ok_iff c p cs t s').mp h
    simp
  | bad => cases h

theorem LexAtRes.error (hr : LexAtRes c cs p res) {e : SynErr} (h : res = .error e) :
    e = ⟨p, "unexpected character"⟩ ∨
    ((c = 39 ∨ c = 34) ∧ c ∉ cs ∧ e = ⟨p + 1, "unexpected EOF while reading string"⟩) := by
  cases hr with
  | one tg _ => cases h
  | two tg _ d r2 hcs => cases h
  | dollar hc => cases h
  | ident hi _ => cases h
  | num hd => cases h
  | str hq => exact .inr ⟨hq, (string_error_iff c p cs e).mp h⟩
  | bad => cases h; exact .inl rfl

theorem LexAtRes.num_only (hr : LexAtRes c cs p res) {t : Token} {s' : LexState}
    (h : res = .ok (t, s')) (ht : t.tag = .num) :
    isDigitB c = true ∧ number p (c :: cs) = (t, s') := by
  cases hr with
  | one tg hp => cases h; exact absurd ht (isPunctTag_ne tg hp).1
  | two tg hp d r2 hcs => cases h; exact absurd ht (isPunctTag_ne tg hp).1
  | dollar hc =>
    injection h with h; have := (identifier_tag [36] p cs).1; rw [h] at this; exact absurd ht this
  | ident hi _ =>
    injection h with h; have := (identifier_tag [] p (c :: cs)).1; rw [h] at this
    exact absurd ht this
  | num hd => injection h with h; exact ⟨hd, h⟩
  | str _ =>
    obtain ⟨body, rest', _, _, rfl, _⟩ := (string_ok_iff c p cs t s').mp h
    cases ht
  | bad => cases h

/-- bytes that begin some token on their own (`&` and `|` need a second, equal byte) -/
def canStartToken (c : UInt8) : Bool :=
  c == 10 || c == 36 || isDigitB c || (isLetterB c || c == 95) ||
  c == 123 || c == 125 || c == 91 || c == 93 || c == 40 || c == 41 || c == 44 || c == 46 ||
  c == 59 || c == 58 || c == 126 || c == 37 || c == 60 || c == 62 || c == 43 || c == 45 ||
  c == 42 || c == 47 || c == 61 || c == 33 || c == 39 || c == 34

def UnexpOK (c : UInt8) (cs : Bytes) (res : Except SynErr (Token × LexState)) : Prop :=
  ∀ e, res = .error e → e.msg = "unexpected character" →
      (canStartToken c = false ∧ c ≠ 38 ∧ c ≠ 124) ∨ (c = 38 ∧ cs.head? ≠ some 38) ∨
      (c = 124 ∧ cs.head? ≠ some 124)

theorem lexAt_unexpected (c : UInt8) (cs : Bytes) (p : Nat) : UnexpOK c cs (lexAt c cs p) := by
  unfold lexAt
  dsimp only
  iterate 16 refine ite_P (P := UnexpOK c cs) _ _ _ (fun _ e h => by cases h) (fun _ => ?_)
  iterate 8
    refine ite_P (P := UnexpOK c cs) _ _ _ (fun _ => ?_) (fun _ => ?_)
    · split <;> (intro e h; cases h)
  refine ite_P (P := UnexpOK c cs) _ _ _ (fun hc => ?_) (fun _ => ?_)
  · split
    · intro e h; cases h
    · rename_i hno
      intro e _ _
      refine .inr (.inl ⟨by simpa using hc, ?_⟩)
      intro hh
      cases cs with
      | nil => cases hh
      | cons d ds => simp at hh; subst hh; exact hno ds rfl
  refine ite_P (P := UnexpOK c cs) _ _ _ (fun hc => ?_) (fun _ => ?_)
  · split
    · intro e h; cases h
    · rename_i hno
      intro e _ _
      refine .inr (.inr ⟨by simpa using hc, ?_⟩)
      intro hh
      cases cs with
      | nil => cases hh
      | cons d ds => simp at hh; subst hh; exact hno ds rfl
  refine ite_P (P := UnexpOK c cs) _ _ _ (fun _ e h hm => ?_) (fun _ e h hm => ?_)
  · obtain ⟨_, rfl⟩ := (string_error_iff c p cs e).mp h
    simp at hm
  · refine .inl ?_
    simp only [canStartToken]
    simp_all
theorem lexAt_of_cannotStart (c : UInt8) (cs : Bytes) (p : Nat) (h : canStartToken c = false)
    (h38 : c ≠ 38) (h124 : c ≠ 124) : lexAt c cs p = .error ⟨p, "unexpected character"⟩ := by
  simp only [canStartToken, Bool.or_eq_false_iff] at h
  obtain ⟨⟨⟨⟨⟨⟨⟨⟨⟨⟨⟨⟨⟨⟨⟨⟨⟨⟨⟨⟨⟨⟨⟨⟨⟨a1, a2⟩, a3⟩, a4⟩, a5⟩, a6⟩, a7⟩, a8⟩, a9⟩, a10⟩, a11⟩, a12⟩, a13⟩, a14⟩,
    a15⟩, a16⟩, a17⟩, a18⟩, a19⟩, a20⟩, a21⟩, a22⟩, a23⟩, a24⟩, a25⟩, a26⟩ := h
  have b38 : (c == 38) = false := by simpa using h38
  have b124 : (c == 124) = false := by simpa using h124
  unfold lexAt
  dsimp only
  simp only [a1, a2, a3, a4, a5, a6, a7, a8, a9, a10, a11, a12, a13, a14, a15, a16, a17, a18, a19,
    a20, a21, a22, a23, a24, a25, a26, b38, b124, Bool.false_eq_true, ↓reduceIte, Bool.or_self]
/-- `Lexer.next`, decomposed: the skipped trivia `ws`, then end of text or the dispatch. -/
theorem next_cases (s : LexState) :
    ∃ ws r, s.rest = ws ++ r ∧ skipWs (s.rest.length + 1) s.rest s.pos = (r, s.pos + ws.length) ∧
      next s = match r with
        | [] => .ok (⟨.eof, s.tokenStart, []⟩, ⟨[], s.pos + ws.length, s.tokenStart⟩)
        | c :: cs => lexAt c cs (s.pos + ws.length) := by
  obtain ⟨ws, h1, h2⟩ := skipWs_decomp (s.rest.length + 1) s.rest s.pos
  refine ⟨ws, (skipWs (s.rest.length + 1) s.rest s.pos).1, h1, by rw [← h2], ?_⟩
  rw [next_eq, ← h2]
  generalize skipWs (s.rest.length + 1) s.rest s.pos = x
  obtain ⟨r, q⟩ := x
  cases r <;> rfl

end Lexer

end Jqawk
