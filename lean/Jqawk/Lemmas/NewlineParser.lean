/-
  C13, newline insertion: every function of the parser respects the relation of
  Lemmas/NewlineSim.lean — run on the same tokens with newline flags raised on the right only
  where `Nl.Allowed` permits, the right run succeeds with the same result whenever the left run
  does (`Nl.AllNl`, `Nl.parseProgram_nl`).

  The flag `didEnd` is read only by `atStatementEnd`; its four call sites (after `return`, in the
  `print` argument loop, after the `print` arguments, after a statement of a block) are treated by
  hand, everything else by the tactic `nl_step`.
-/
import Jqawk.Lemmas.NewlineSim

namespace Jqawk
namespace Nl
open Parser

variable {α β : Type}

/-! ### `atStatementEnd` and the requests whose answer must carry the same flag -/

theorem ase_eval (s : PS) : atStatementEnd s =
    if s.didEnd = true then .pure (true, s)
    else if s.cur.tag = .rcurly then .pure (true, s)
    else if s.cur.tag = .semiColon then (advance s).bind fun x => .pure (true, x.2)
    else .pure (false, s) := by
  unfold atStatementEnd
  show (if s.didEnd = true then _ else _ : P Bool) s = _
  split
  · rfl
  · generalize s.cur.tag = t
    cases t <;> rfl

/-- `atStatementEnd` from related states: the answers agree if the `didEnd` flags agree;
    otherwise the only possible disagreement is `false` on the left, `true` on the right (and
    then nothing was consumed). -/
theorem ase {g : G} {s s' : PS} (hR : R g s s') :
    NSim (fun g' (x x' : Bool × PS) => R g' x.2 x'.2 ∧ Rel 0 0 g g' ∧
        (s.didEnd = s'.didEnd → x.1 = x'.1) ∧
        (x.1 = x'.1 ∨ (x.1 = false ∧ x'.1 = true ∧ x.2.didEnd = false ∧ x'.2.didEnd = true))) g
      (atStatementEnd s) (atStatementEnd s') := by
  rw [ase_eval, ase_eval]
  rcases hR.flag with hd | ⟨h1, h2, h3⟩
  · have := hR.of_eq hd; subst this
    split
    · exact .pure ⟨hR, Rel.refl 0 g, fun _ => rfl, .inl rfl⟩
    · split
      · exact .pure ⟨hR, Rel.refl 0 g, fun _ => rfl, .inl rfl⟩
      · split
        · rename_i hsemi
          refine (NlP.advance_gen hR).bind ?_
          rintro g₁ ⟨_, t⟩ ⟨_, t'⟩ ⟨hR₁, _, hstk, _⟩
          refine .pure ⟨hR₁, ?_, fun _ => rfl, .inl rfl⟩
          show Le g.stk g₁.stk
          rw [hstk, hsemi]; exact Le.refl _
        · exact .pure ⟨hR, Rel.refl 0 g, fun _ => rfl, .inl rfl⟩
  · rw [if_neg (by rw [h1]; decide), if_pos h2, if_neg h3]
    split
    · exact .pure ⟨hR, Rel.refl 0 g, fun _ => rfl, .inl rfl⟩
    · exact .pure ⟨hR, Rel.refl 0 g, (fun h => by rw [h1, h2] at h; cases h), .inr ⟨rfl, rfl, h1, h2⟩⟩

/-- precondition of the `print` argument loop: the flags agree and the frame is marked -/
def PrePL : G → PS → PS → Prop := fun g s s' => s.didEnd = s'.didEnd ∧ top g.stk = true

/-- precondition "the innermost frame is marked" -/
def PreTop : G → PS → PS → Prop := fun g _ _ => top g.stk = true

/-- sequencing when the first action establishes the precondition of the rest -/
theorem NlP.bindS {pre pre₂ : G → PS → PS → Prop} {i j k : Nat} {m : P α} {f : α → P β}
    (hm : Tr pre m (fun g g' x x' => x.1 = x'.1 ∧ Rel i j g g' ∧ pre₂ g' x.2 x'.2))
    (hf : ∀ a, NlP pre₂ j k (f a)) : NlP pre i k (m >>= f) := by
  intro g s s' hR hpre
  show NSim _ g ((m s).bind _) ((m s').bind _)
  refine (hm g s s' hR hpre).bind ?_
  rintro g₁ ⟨a, t⟩ ⟨a', t'⟩ ⟨hR₁, rfl, hrel, hp₂⟩
  exact (hf a g₁ t t' hR₁ hp₂).mono fun _ _ _ hq => ⟨hq.1, hq.2.1, hrel.trans hq.2.2⟩

/-- a marked innermost frame stays marked -/
theorem NlP.keepTop {m : P α} (h : NlP T 0 0 m) :
    Tr PreTop m (fun g g' x x' => x.1 = x'.1 ∧ Rel 0 0 g g' ∧ PreTop g' x.2 x'.2) :=
  fun g s s' hR hpre => (h g s s' hR trivial).mono fun _ _ _ hq =>
    ⟨hq.1, hq.2.1, hq.2.2, hq.2.2.top hpre⟩

/-- `atStatementEnd` when the flags agree -/
theorem ase_eq : Tr PrePL atStatementEnd
    (fun g g' x x' => x.1 = x'.1 ∧ Rel 0 0 g g' ∧ PreTop g' x.2 x'.2) :=
  fun _ _ _ hR hpre => (ase hR).mono fun _ _ _ hq =>
    ⟨hq.1, hq.2.2.1 hpre.1, hq.2.1, hq.2.1.top hpre.2⟩

/-- `consume print` / `consume return`: the next token carries the same flag on both sides, and
    after `print` the frame is marked -/
theorem consume_strict (tag : Tag) (h : tag = .print ∨ tag = .return_) :
    Tr T (consume tag) (fun g g' x x' => x.1 = x'.1 ∧ Rel 0 0 g g' ∧
      (x.2.didEnd = x'.2.didEnd ∧ (tag = .print → top g'.stk = true))) := by
  intro g s s' hR _
  unfold consume
  show NSim _ g ((if (s.cur.tag == tag) = true then advance else _ : P Unit) s)
    ((if (s'.cur.tag == tag) = true then advance else _ : P Unit) s')
  rw [hR.cur_eq]
  split
  · rename_i hx
    rw [beq_iff_eq] at hx
    refine (NlP.advance_gen hR).mono fun g' x x' hq => ⟨hq.1, rfl, ?_, hq.2.2.2 ?_, ?_⟩
    · show Le g.stk g'.stk
      rw [hq.2.2.1, hx]
      exact applyTag_other (by rcases h with rfl | rfl <;> rfl) _
    · simp only [Allowed, hR.cur, hx]
      rcases h with rfl | rfl <;> rfl
    · rintro rfl
      rw [hq.2.2.1, hx]
      cases g.stk <;> rfl
  · exact .failL

theorem Tr.mono {pre pre' : G → PS → PS → Prop} {m : P α}
    {post post' : G → G → α × PS → α × PS → Prop} (h : Tr pre m post)
    (hpre : ∀ g s s', pre' g s s' → pre g s s')
    (hpost : ∀ g g' x x', post g g' x x' → post' g g' x x') : Tr pre' m post' :=
  fun g s s' hR hp => (h g s s' hR (hpre g s s' hp)).mono fun _ _ _ hq => ⟨hq.1, hpost _ _ _ _ hq.2⟩

/-- the flags agree -/
def PreEq : G → PS → PS → Prop := fun _ s s' => s.didEnd = s'.didEnd

theorem consume_print {pre : G → PS → PS → Prop} : Tr pre (consume .print)
    (fun g g' x x' => x.1 = x'.1 ∧ Rel 0 0 g g' ∧ PrePL g' x.2 x'.2) :=
  (consume_strict .print (.inl rfl)).mono (fun _ _ _ _ => trivial)
    fun _ _ _ _ h => ⟨h.1, h.2.1, h.2.2.1, h.2.2.2 rfl⟩

theorem consume_return {pre : G → PS → PS → Prop} : Tr pre (consume .return_)
    (fun g g' x x' => x.1 = x'.1 ∧ Rel 0 0 g g' ∧ PreEq g' x.2 x'.2) :=
  (consume_strict .return_ (.inr rfl)).mono (fun _ _ _ _ => trivial)
    fun _ _ _ _ h => ⟨h.1, h.2.1, h.2.2.1⟩

/-- `consume ,` at print level: same flag on both sides, the frame stays marked -/
theorem consume_comma_strict :
    Tr (fun g s s' => PreTop g s s' ∧ s.cur.tag = .comma) (consume .comma)
      (fun g g' x x' => x.1 = x'.1 ∧ Rel 0 0 g g' ∧ PrePL g' x.2 x'.2) := by
  intro g s s' hR hpre
  unfold consume
  show NSim _ g ((if (s.cur.tag == Tag.comma) = true then advance else _ : P Unit) s)
    ((if (s'.cur.tag == Tag.comma) = true then advance else _ : P Unit) s')
  rw [hR.cur_eq]
  split
  · have hstk : ∀ g' : G, g'.stk = applyTag s.cur.tag g.stk → g'.stk = g.stk := by
      intro g' h; rw [h, hpre.2]; rfl
    refine (NlP.advance_gen hR).mono fun g' x x' hq => ⟨hq.1, rfl, ?_, hq.2.2.2 ?_, ?_⟩
    · show Le g.stk g'.stk
      rw [hstk g' hq.2.2.1]; exact Le.refl _
    · have ht : top g.stk = true := hpre.1
      simp [Allowed, hR.cur, hpre.2, ht]
    · show top g'.stk = true
      rw [hstk g' hq.2.2.1]; exact hpre.1
  · exact .failL

/-- sequencing after `atStatementEnd` from arbitrary related states: the continuations must
    also be related when the left answer is `false` and the right one `true` -/
theorem ase_bind {pre : G → PS → PS → Prop} {k : Nat} {f : Bool → P α}
    (hf : ∀ b, NlP T 0 k (f b))
    (hmis : ∀ g s s', R g s s' → s.didEnd = false → s'.didEnd = true →
      NSim (fun g' x x' => R g' x.2 x'.2 ∧ x.1 = x'.1 ∧ Rel 0 k g g') g (f false s) (f true s')) :
    NlP pre 0 k (atStatementEnd >>= f) := by
  intro g s s' hR _
  show NSim _ g ((atStatementEnd s).bind _) ((atStatementEnd s').bind _)
  refine (ase hR).bind ?_
  rintro g₁ ⟨b, t⟩ ⟨b', t'⟩ ⟨hR₁, hrel, _, hb⟩
  rcases hb with hb | ⟨hb1, hb2, hd1, hd2⟩
  · dsimp only at hb; subst hb
    exact (hf b g₁ t t' hR₁ trivial).mono fun _ _ _ hq => ⟨hq.1, hq.2.1, hrel.trans hq.2.2⟩
  · dsimp only at hb1 hb2 hd1 hd2; subst hb1 hb2
    exact (hmis g₁ t t' hR₁ hd1 hd2).mono fun _ _ _ hq => ⟨hq.1, hq.2.1, hrel.trans hq.2.2⟩

/-- sequencing after `atStatementEnd` from states with equal flags -/
theorem ase_bind_eq {k : Nat} {f : Bool → P α} (hf : ∀ b, NlP T 0 k (f b)) :
    NlP PreEq 0 k (atStatementEnd >>= f) := by
  intro g s s' hR hpre
  show NSim _ g ((atStatementEnd s).bind _) ((atStatementEnd s').bind _)
  refine (ase hR).bind ?_
  rintro g₁ ⟨b, t⟩ ⟨b', t'⟩ ⟨hR₁, hrel, hb, _⟩
  have hb := hb hpre
  dsimp only at hb; subst hb
  exact (hf b g₁ t t' hR₁ trivial).mono fun _ _ _ hq => ⟨hq.1, hq.2.1, hrel.trans hq.2.2⟩

/-- `regexPrefix`: the `/` is replaced by the regex token, then `advance` -/
theorem regexPrefix_nl {k : Nat} :
    NlP (fun _ s _ => isBracket s.cur.tag = false) k k regexPrefix := by
  intro g s s' hR hpre
  unfold regexPrefix
  refine .regex fun t ht => .next fun t₂ nl nl' hfl => .pure ⟨⟨rfl, ?_, ?_⟩, rfl, ?_⟩
  · show ({ s' with cur := t₂, prev := t, didEnd := nl' } : PS) =
      { s with cur := t₂, prev := t, didEnd := nl' }
    rw [hR.eq]
  · show nl = nl' ∨ (nl = false ∧ nl' = true ∧ t₂.tag ≠ .semiColon)
    rcases hfl with h | ⟨h1, h2, h3⟩
    · exact .inl h
    · refine .inr ⟨h1, h2, ?_⟩
      simp only [Allowed, Bool.and_eq_true, bne_iff_ne] at h3
      exact h3.2
  · have : Rel 0 0 g ((g.step t).step t₂) := by
      show Le g.stk (applyTag t.tag (applyTag g.cur g.stk))
      rw [ht, hR.cur]
      exact applyTag_other hpre _
    simpa using this.lift k

/-! ### the mutual block -/

/-- The rule table never lets a bracket token be consumed as a literal, a unary/binary/assignment/
    postfix operator or the opening of a regex (brackets are consumed by `consume` of the
    specific tag only), so that the ghost's frame stack follows the parser's nesting. -/
def TableOK (tbl : RuleTable) : Bool :=
  [Tag.lparen, .rparen, .lsquare, .rsquare, .lcurly, .rcurly].all fun tag =>
    let r := lookupRule tbl tag
    r.pre != some .literal && r.pre != some .unary && r.pre != some .regex &&
    r.inf != some .binary && r.inf != some .assign && r.inf != some .postfixOp

theorem TableOK.pre {tbl : RuleTable} (h : TableOK tbl = true) {tag : Tag} {pk : PrefixKind}
    (hl : (lookupRule tbl tag).pre = some pk) (hpk : pk = .literal ∨ pk = .unary ∨ pk = .regex) :
    isBracket tag = false := by
  cases hb : isBracket tag with
  | false => rfl
  | true =>
    exfalso
    simp only [TableOK, List.all_cons, List.all_nil, Bool.and_true, Bool.and_eq_true, bne_iff_ne] at h
    cases tag <;> first | cases hb | skip
    all_goals (rw [hl] at h; rcases hpk with rfl | rfl | rfl <;> simp at h)

theorem TableOK.inf {tbl : RuleTable} (h : TableOK tbl = true) {tag : Tag} {ik : InfixKind}
    (hl : (lookupRule tbl tag).inf = some ik) (hik : ik = .binary ∨ ik = .assign ∨ ik = .postfixOp) :
    isBracket tag = false := by
  cases hb : isBracket tag with
  | false => rfl
  | true =>
    exfalso
    simp only [TableOK, List.all_cons, List.all_nil, Bool.and_true, Bool.and_eq_true, bne_iff_ne] at h
    cases tag <;> first | cases hb | skip
    all_goals (rw [hl] at h; rcases hik with rfl | rfl | rfl <;> simp at h)

example : TableOK expectedRuleTable = true := by decide

/-- the statement for all functions of the mutual block at fuel `n` -/
structure AllNl (tbl : RuleTable) (n : Nat) : Prop where
  statement : NlP T 0 0 (statement tbl n)
  loopBody : NlP T 0 0 (loopBody tbl n)
  block : NlP T 0 0 (block tbl n)
  blockLoop : ∀ acc, NlP T 0 0 (blockLoop tbl n acc)
  printStatement : NlP T 0 0 (printStatement tbl n)
  printLoop : ∀ acc, NlP PrePL 0 0 (printLoop tbl n acc)
  expressionWithPrec : ∀ prec, NlP T 0 0 (expressionWithPrec tbl n prec)
  infixLoop : ∀ prec lhs, NlP T 0 0 (infixLoop tbl n prec lhs)
  prefixFn : ∀ pk, NlP (fun _ s _ => (lookupRule tbl s.cur.tag).pre = some pk) 0 0 (prefixFn tbl n pk)
  exprList : ∀ endTag acc, isClose endTag = true → NlP T 1 0 (exprList tbl n endTag acc)
  objectLoop : ∀ acc, NlP T 0 0 (objectLoop tbl n acc)
  matchCases : ∀ acc, NlP T 0 0 (matchCases tbl n acc)
  matchPats : ∀ acc, NlP T 0 0 (matchPats tbl n acc)
  infixFn : ∀ ik left,
    NlP (fun _ s _ => (lookupRule tbl s.cur.tag).inf = some ik) 0 0 (infixFn tbl n ik left)

section tactics
set_option hygiene false

/-- goals that are instances of a leaf lemma or of the induction hypothesis `ih` -/
macro "nl_leaf" : tactic => `(tactic| first
  | with_reducible exact NlP.fail
  | with_reducible exact NlP.oof
  | with_reducible exact NlP.pure _
  | with_reducible exact NlP.setDidEnd _
  | ((with_reducible refine NlP.consume_open _ ?_); decide)
  | ((with_reducible refine NlP.consume_close _ ?_); first | decide | assumption)
  | ((with_reducible refine NlP.consume_other _ ?_); decide)
  | ((with_reducible refine NlP.consumeOf _ ?_); decide)
  | ((with_reducible refine NlP.consumeIgnore _ ?_); decide)
  | ((with_reducible refine NlP.modify ?_ ?_ ?_) <;> (intros; rfl))
  | with_reducible exact NlP.lift00 ih.statement
  | with_reducible exact NlP.lift00 ih.loopBody
  | with_reducible exact NlP.lift00 ih.block
  | with_reducible exact NlP.lift00 ih.printStatement
  | with_reducible exact NlP.lift00 (ih.blockLoop _)
  | with_reducible exact NlP.lift00 (ih.expressionWithPrec _)
  | with_reducible exact NlP.lift00 (ih.infixLoop _ _)
  | with_reducible exact NlP.lift00 (ih.objectLoop _)
  | with_reducible exact NlP.lift00 (ih.matchCases _)
  | with_reducible exact NlP.lift00 (ih.matchPats _)
  | with_reducible exact NlP.lift00 ih0
  | with_reducible exact NlP.lift00 ih0'
  | with_reducible exact NlP.lift00 (ih1 _)
  | with_reducible exact NlP.lift00 (ih2 _ _)
  | ((with_reducible refine NlP.lift10 (ih.exprList _ _ ?_)); first | decide | assumption))

/-- one structural step -/
macro "nl_step" : tactic => `(tactic| first
  | nl_leaf
  | ((with_reducible refine NlP.bind_get ?_ (fun x => ?_)) <;> first | (intros; rfl) | try dsimp only)
  | with_reducible refine NlP.bind_curTag (fun t => ?_)
  | with_reducible refine NlP.bind_atEnd (fun b => ?_)
  | ((with_reducible refine NlP.bind (j := ?_) ?_ (fun x => ?_)); rotate_left)
  | split)

end tactics

variable {tbl : RuleTable} {n : Nat}

theorem loopBody_step (ih : AllNl tbl n) : NlP T 0 0 (loopBody tbl (n + 1)) := by
  unfold loopBody
  repeat' nl_step

theorem block_step (ih : AllNl tbl n) : NlP T 0 0 (block tbl (n + 1)) := by
  unfold block
  repeat' nl_step

theorem blockLoop_step (ih : AllNl tbl n) (acc : List Stmt) :
    NlP T 0 0 (blockLoop tbl (n + 1) acc) := by
  unfold blockLoop
  refine NlP.bind_curTag fun t => ?_
  split
  · nl_leaf
  · refine NlP.bind (j := 0) (NlP.lift00 ih.statement) fun st => ?_
    refine ase_bind (fun b => ?_) ?_
    · repeat' nl_step
    · intro g s s' _ _ _; exact .failL

theorem printLoop_step (ih : AllNl tbl n) (acc : List Expr) :
    NlP PrePL 0 0 (printLoop tbl (n + 1) acc) := by
  unfold printLoop
  refine NlP.bindS ase_eq fun b => ?_
  split
  · exact NlP.pure _
  · refine NlP.bindS (NlP.keepTop (ih.expressionWithPrec _)) fun e => ?_
    refine NlP.bind_curTag fun t => ?_
    split
    · rename_i ht
      rw [beq_iff_eq] at ht; subst ht
      exact NlP.bindS consume_comma_strict fun _ => ih.printLoop _
    · exact NlP.pure _

theorem printStatement_step (ih : AllNl tbl n) : NlP T 0 0 (printStatement tbl (n + 1)) := by
  unfold printStatement
  refine NlP.bindS consume_print fun _ => ?_
  refine NlP.bind_get (fun _ _ => rfl) fun x => ?_
  dsimp only
  refine NlP.bind (j := 0) ((ih.printLoop _).weaken fun _ _ _ h => h.1) fun r => ?_
  obtain ⟨args, ended⟩ := r
  dsimp only
  refine ase_bind (fun b => ?_) ?_
  · repeat' nl_step
  · intro g s s' hR h1 h2
    cases ended with
    | true =>
      have : NlP T 0 0 (do setDidEnd true; pure (Stmt.print x.prev args) : P Stmt) := by
        repeat' nl_step
      exact this g s s' hR trivial
    | false =>
      refine .pure ⟨⟨hR.cur, ?_, .inr ⟨h1, rfl, ?_⟩⟩, rfl, Rel.refl 0 g⟩
      · show ({ s' with didEnd := true } : PS) = { s with didEnd := true }
        rw [hR.eq]
      · rcases hR.flag with h | h
        · rw [h1, h2] at h; cases h
        · exact h.2.2

theorem exprList_step (ih : AllNl tbl n) (endTag : Tag) (acc : List Expr)
    (hend : isClose endTag = true) : NlP T 1 0 (exprList tbl (n + 1) endTag acc) := by
  unfold exprList
  repeat' nl_step

theorem objectLoop_step (ih : AllNl tbl n) (acc : List (Bytes × Expr)) :
    NlP T 0 0 (objectLoop tbl (n + 1) acc) := by
  unfold objectLoop
  repeat' nl_step

theorem matchPats_step (ih : AllNl tbl n) (acc : List Expr) :
    NlP T 0 0 (matchPats tbl (n + 1) acc) := by
  unfold matchPats
  repeat' nl_step

theorem matchCases_step (ih : AllNl tbl n) (acc : List MatchCase) :
    NlP T 0 0 (matchCases tbl (n + 1) acc) := by
  unfold matchCases
  repeat' nl_step
  rename_i t ht
  refine NlP.advance_other.weaken ?_
  rintro g s s' ⟨_, h⟩
  rw [h, beq_iff_eq.mp ht]; rfl

theorem expressionWithPrec_step (ih : AllNl tbl n) (prec : Nat) :
    NlP T 0 0 (expressionWithPrec tbl (n + 1) prec) := by
  unfold expressionWithPrec
  repeat' nl_step
  exact (ih.prefixFn _).weaken (by rintro g s s' ⟨_, rfl⟩; assumption)

theorem infixLoop_step (ih : AllNl tbl n) (prec : Nat) (lhs : Expr) :
    NlP T 0 0 (infixLoop tbl (n + 1) prec lhs) := by
  unfold infixLoop
  repeat' nl_step
  exact (ih.infixFn _ _).weaken (by rintro g s s' ⟨_, rfl⟩; assumption)

theorem prefixFn_step (hT : TableOK tbl = true) (ih : AllNl tbl n) (pk : PrefixKind) :
    NlP (fun _ s _ => (lookupRule tbl s.cur.tag).pre = some pk) 0 0 (prefixFn tbl (n + 1) pk) := by
  unfold prefixFn
  split
  all_goals repeat' nl_step
  · exact NlP.advance_other.weaken fun _ _ _ h => TableOK.pre hT h (.inl rfl)
  · exact regexPrefix_nl.weaken fun _ _ _ h => TableOK.pre hT h (.inr (.inr rfl))
  · rename_i x h
    refine NlP.advance_other.weaken ?_
    rintro g s s' ⟨_, rfl⟩
    simp only [Bool.or_eq_true, beq_iff_eq] at h
    rcases h with h | h <;> rw [h] <;> rfl
  · exact NlP.advance_other.weaken fun _ _ _ h => TableOK.pre hT h (.inr (.inl rfl))

theorem infixFn_step (hT : TableOK tbl = true) (ih : AllNl tbl n) (ik : InfixKind) (left : Expr) :
    NlP (fun _ s _ => (lookupRule tbl s.cur.tag).inf = some ik) 0 0 (infixFn tbl (n + 1) ik left) := by
  unfold infixFn
  split
  all_goals repeat' nl_step
  · exact NlP.advance_other.weaken fun _ _ _ h => TableOK.inf hT h (.inr (.inr rfl))
  · exact NlP.advance_other.weaken fun _ _ _ h => TableOK.inf hT h (.inl rfl)
  · exact NlP.advance_other.weaken fun _ _ _ h => TableOK.inf hT h (.inr (.inl rfl))

theorem statement_step (ih : AllNl tbl n) : NlP T 0 0 (statement tbl (n + 1)) := by
  unfold statement
  nl_step
  · nl_step
  nl_step
  split
  case h_2 =>
    split
    · nl_leaf
    · refine NlP.bindS consume_return fun _ => ?_
      refine ase_bind_eq fun b => ?_
      repeat' nl_step
  all_goals repeat' nl_step

/-- all functions of the mutual block, any fuel -/
theorem allNl (hT : TableOK tbl = true) : ∀ n, AllNl tbl n := by
  intro n
  induction n with
  | zero =>
    constructor
    all_goals intros
    · unfold statement; exact NlP.oof
    · unfold loopBody; exact NlP.oof
    · unfold block; exact NlP.oof
    · unfold blockLoop; exact NlP.oof
    · unfold printStatement; exact NlP.oof
    · unfold printLoop; exact NlP.oof
    · unfold expressionWithPrec; exact NlP.oof
    · unfold infixLoop; exact NlP.oof
    · unfold prefixFn; exact NlP.oof
    · unfold exprList; exact NlP.oof
    · unfold objectLoop; exact NlP.oof
    · unfold matchCases; exact NlP.oof
    · unfold matchPats; exact NlP.oof
    · unfold infixFn; exact NlP.oof
  | succ n ih =>
    exact {
      statement := statement_step ih
      loopBody := loopBody_step ih
      block := block_step ih
      blockLoop := blockLoop_step ih
      printStatement := printStatement_step ih
      printLoop := printLoop_step ih
      expressionWithPrec := expressionWithPrec_step ih
      infixLoop := infixLoop_step ih
      prefixFn := prefixFn_step hT ih
      exprList := exprList_step ih
      objectLoop := objectLoop_step ih
      matchCases := matchCases_step ih
      matchPats := matchPats_step ih
      infixFn := infixFn_step hT ih }

/-! ### the top level -/

theorem parseRule_nl (ih : AllNl tbl n) : NlP T 0 0 (parseRule tbl n) := by
  unfold parseRule
  repeat' nl_step

theorem funcArgs_nl : ∀ (n : Nat) (acc : List Bytes), NlP T 0 0 (funcArgs n acc) := by
  intro n
  induction n with
  | zero => intro acc; unfold funcArgs; exact NlP.oof
  | succ n ihn =>
    intro acc
    have ih1 := ihn
    unfold funcArgs
    repeat' nl_step

theorem parseFunction_nl (ih : AllNl tbl n) : NlP T 0 0 (parseFunction tbl n) := by
  have ih2 := funcArgs_nl
  unfold parseFunction
  repeat' nl_step

theorem parseTop_nl (hT : TableOK tbl = true) : ∀ (n : Nat) (rules : List Rule) (fns : List FuncDef),
    NlP T 0 0 (parseTop tbl n rules fns) := by
  intro n
  induction n with
  | zero => intros; unfold parseTop; exact NlP.oof
  | succ n ihn =>
    intro rules fns
    have ih := allNl hT n
    have ih0 := parseFunction_nl ih
    have ih0' := parseRule_nl ih
    have ih2 := ihn
    unfold parseTop
    repeat' nl_step

/-- `parseProgram` from the initial parser state (whose current token is not a bracket) -/
theorem parseProgram_nl (hT : TableOK tbl = true) (n : Nat) :
    NlP (fun _ s _ => isBracket s.cur.tag = false) 0 0 (parseProgram tbl n) := by
  unfold parseProgram
  exact NlP.bind NlP.advance_other fun _ => parseTop_nl hT n _ _

theorem parseExpression_nl (hT : TableOK tbl = true) (n : Nat) :
    NlP (fun _ s _ => isBracket s.cur.tag = false) 0 0 (parseExpression tbl n) := by
  have ih := allNl hT n
  unfold parseExpression
  refine NlP.bind NlP.advance_other fun _ => ?_
  repeat' nl_step

end Nl
end Jqawk
