/-
  C13, `;` for a newline at the level of bytes: the three texts `a ++ "\n" ++ b`,
  `a ++ " " ++ b`, `a ++ ";" ++ b` (one byte replaced: offsets, and hence positions, are the same
  in all three).  Before the replaced byte the three runs are the same (prefix stability of the
  lexer, Lemmas/NewlineBytes.lean); at it they receive `(t₀, newline)`, `(t₀, flag of b)` and
  `;` — the situation of `Semi.BTree`; after it the three lexers are in the same state.
-/
import Jqawk.Lemmas.NewlineBytesRun
import Jqawk.Lemmas.NewlineSemiRun

namespace Jqawk
namespace Semi
open Lexer Nl

/-- `next` depends on `tokenStart` only when it answers with the end of the text -/
theorem next_ts (r : Bytes) (q ts₁ ts₂ : Nat) (t : Token) (s' : LexState)
    (h : next ⟨r, q, ts₁⟩ = .ok (t, s')) (ht : t.tag ≠ .eof) : next ⟨r, q, ts₂⟩ = .ok (t, s') := by
  rw [next_eq] at h ⊢
  dsimp only at h ⊢
  generalize skipWs (r.length + 1) r q = sk at h ⊢
  obtain ⟨r', q'⟩ := sk
  cases r' with
  | nil =>
    simp only [Except.ok.injEq, Prod.mk.injEq] at h
    exact absurd (by rw [← h.1]) ht
  | cons c cs => exact h

theorem nextNN_ts (f : Nat) (r : Bytes) (q ts₁ ts₂ : Nat) (nl₀ : Bool) (t : Token) (nl : Bool)
    (s' : LexState) (h : nextNN f ⟨r, q, ts₁⟩ nl₀ = .ok (t, nl, s')) (ht : t.tag ≠ .eof) :
    nextNN f ⟨r, q, ts₂⟩ nl₀ = .ok (t, nl, s') := by
  cases f with
  | zero => cases h
  | succ f =>
    simp only [nextNN] at h ⊢
    cases hn : next ⟨r, q, ts₁⟩ with
    | error e => rw [hn] at h; cases h
    | ok x =>
      obtain ⟨t₁, s₁⟩ := x
      rw [hn] at h
      dsimp only at h
      have hne : t₁.tag ≠ .eof := by
        by_cases hnl : (t₁.tag == .newline) = true
        · rw [beq_iff_eq] at hnl; rw [hnl]; decide
        · rw [if_neg hnl] at h
          simp only [Except.ok.injEq, Prod.mk.injEq] at h
          rw [h.1]; exact ht
      rw [next_ts r q ts₁ ts₂ t₁ s₁ hn hne]
      exact h

/-- what `advance` receives in front of a newline byte -/
theorem nextNN_at_newline (b : Bytes) (p ts : Nat) :
    nextNN ((10 :: b).length + 1) ⟨10 :: b, p, ts⟩ false = nextNN (b.length + 1) ⟨b, p + 1, p⟩ true := by
  simp only [List.length_cons]
  rw [nextNN, next_newline]
  rfl

/-- … in front of a blank -/
theorem nextNN_at_blank (b : Bytes) (p ts : Nat) :
    nextNN ((32 :: b).length + 1) ⟨32 :: b, p, ts⟩ false = nextNN (b.length + 1) ⟨b, p + 1, ts⟩ false := by
  have := nextNN_trivia (t := [32]) (rest := b) (.blank 32 [] b rfl (.nil b)) p ts false
  simpa using this

/-- … in front of a `;` -/
theorem nextNN_at_semi (b : Bytes) (p ts : Nat) :
    nextNN ((59 :: b).length + 1) ⟨59 :: b, p, ts⟩ false
      = .ok (⟨.semiColon, p, []⟩, false, ⟨b, p + 1, p⟩) := by
  simp only [List.length_cons]
  have : next ⟨59 :: b, p, ts⟩ = .ok (⟨.semiColon, p, []⟩, ⟨b, p + 1, p⟩) := by
    rw [next_eq]; dsimp only
    rw [skipWs_succ_cons]
    rfl
  rw [nextNN, this]
  rfl

theorem sepStart_cons (c : UInt8) (r : Bytes) (h : isSepB c = true) : SepStart (c :: r) := by
  intro d hd
  simp only [List.head?_cons, Option.some.injEq] at hd
  subst hd; exact h

/-- The three runs of a program tree satisfying `BTree` against the lexer: on `x ++ "\n" ++ b`
    (L), `x ++ " " ++ b` (Z) and `x ++ ";" ++ b` (R), where the L run passes the recorded state
    `⟨"\n" ++ b, pb, tsb⟩` and `t₀` is the token then delivered. -/
theorem run_btree_bytes {α : Type} {Q : α → PS → PS → Prop} {t₀ : Token} (b : Bytes) (pb tsb : Nat)
    (gb : G) (nl₀ : Bool) (s' : LexState)
    (ht₀ : nextNN (b.length + 1) ⟨b, pb + 1, pb⟩ false = .ok (t₀, nl₀, s')) (hne : t₀.tag ≠ .eof) :
    ∀ (m : PM (α × PS)), BTree t₀ ⟨.semiColon, pb, []⟩ Q m → ∀ (g : G) (x : Bytes) (p ts : Nat),
      (gb, (⟨10 :: b, pb, tsb⟩ : LexState)) ∈ nextStates g m ⟨x ++ 10 :: b, p, ts⟩ →
      ∀ r, m.runWith lexerSrc ⟨x ++ 10 :: b, p, ts⟩ = .ok r →
        (∃ r', m.runWith lexerSrc ⟨x ++ 32 :: b, p, ts⟩ = .ok r' ∧ r'.1 = r.1) ∨
        (∃ r', m.runWith lexerSrc ⟨x ++ 59 :: b, p, ts⟩ = .ok r' ∧ r'.1 = r.1) := by
  intro m
  induction m with
  | pure a => intro _ g x p ts hm; simp [nextStates] at hm
  | fail e => intro _ g x p ts hm; simp [nextStates] at hm
  | oof => intro _ g x p ts hm; simp [nextStates] at hm
  | next k ih =>
    intro hb g x p ts hm r hr
    simp only [nextStates, List.mem_cons, Prod.mk.injEq] at hm
    simp only [PM.runWith, lexerSrc_next] at hr ⊢
    rcases hm with ⟨_, hs⟩ | hm
    · -- the boundary
      simp only [LexState.mk.injEq] at hs
      obtain ⟨hrest, rfl, rfl⟩ := hs
      have hx0 : x = [] := by
        have hlen := congrArg List.length hrest
        simp only [List.length_append, List.length_cons] at hlen
        exact List.eq_nil_of_length_eq_zero (by omega)
      subst hx0
      simp only [List.nil_append] at hr ⊢
      -- L
      have hL : nextNN ((10 :: b).length + 1) ⟨10 :: b, pb, tsb⟩ false = .ok (t₀, true, s') := by
        rw [nextNN_at_newline, nextNN_or_flag, ht₀]; simp
      rw [hL] at hr
      dsimp only at hr
      -- Z
      have hZ : nextNN ((32 :: b).length + 1) ⟨32 :: b, pb, tsb⟩ false = .ok (t₀, nl₀, s') := by
        rw [nextNN_at_blank]
        exact nextNN_ts _ _ _ _ _ _ _ _ _ ht₀ hne
      rw [hZ, nextNN_at_semi]
      dsimp only
      cases nl₀ with
      | true => exact .inl ⟨r, hr, rfl⟩
      | false =>
        rcases hb.2 with h | h | ⟨k', hk, hA⟩ | ⟨a, s, hl, hz, _, _, _⟩
        · left; rw [← h]; exact ⟨r, hr, rfl⟩
        · exact absurd hr (dead_run h _ _ _)
        · right
          rw [hk]
          simp only [PM.runWith, lexerSrc_next]
          rw [ht₀]
          dsimp only
          rcases hA false with h | h | ⟨a, s, s₂, hl, hr', _⟩
          · rw [← h]; exact ⟨r, hr, rfl⟩
          · exact absurd hr (dead_run h _ _ _)
          · rw [hl] at hr
            simp only [PM.runWith, ParseRes.ok.injEq] at hr
            rw [hr']
            exact ⟨(a, s₂), rfl, by rw [← hr]⟩
        · left
          rw [hl] at hr
          simp only [PM.runWith, ParseRes.ok.injEq] at hr
          rw [hz]
          exact ⟨_, rfl, by rw [← hr]⟩
    · -- before the boundary
      cases hn : nextNN ((x ++ 10 :: b).length + 1) ⟨x ++ 10 :: b, p, ts⟩ false with
      | error e => rw [hn] at hm; simp at hm
      | ok y =>
        obtain ⟨t, nl, s₁'⟩ := y
        rw [hn] at hm hr
        dsimp only at hm hr
        have hteof : t.tag ≠ .eof := by
          intro he; rw [if_pos he] at hm; simp at hm
        rw [if_neg hteof] at hm
        obtain ⟨pre, hpre⟩ := nextStates_suffix _ _ _ _ _ hm
        have hl : (10 :: b).length ≤ s₁'.rest.length := by
          have := congrArg List.length hpre
          simp only [List.length_append] at this; omega
        have key : ∀ c : UInt8, isSepB c = true → ∃ x', s₁'.rest = x' ++ 10 :: b ∧
            nextNN ((x ++ c :: b).length + 1) ⟨x ++ c :: b, p, ts⟩ false
              = .ok (t, nl, ⟨x' ++ c :: b, s₁'.pos, s₁'.tokenStart⟩) := by
          intro c hc
          obtain ⟨x', e1, e2⟩ := nextNN_stable (10 :: b) (c :: b) (sepStart_cons c b hc) _ x _ _ false
            t nl s₁' (.inr hteof) hn hl
          refine ⟨x', e1, ?_⟩
          rw [nextNN_fuel _ ((x ++ 10 :: b).length + 1) _ _ (by simp) (by simp)]
          exact e2
        obtain ⟨x', e1, e32⟩ := key 32 rfl
        obtain ⟨x'', e1', e59⟩ := key 59 rfl
        have : x'' = x' := by
          have := e1.symm.trans e1'
          exact (List.append_cancel_right this).symm
        subst this
        rw [e32, e59]
        dsimp only
        have hs₁ : s₁' = ⟨x'' ++ 10 :: b, s₁'.pos, s₁'.tokenStart⟩ := by rw [← e1]
        rw [hs₁] at hm hr
        exact ih t nl (hb.1 t nl) (g.step t) x'' _ _ hm r hr
  | regex k ih =>
    intro hb g x p ts hm r hr
    simp only [nextStates] at hm
    simp only [PM.runWith, lexerSrc_regex] at hr ⊢
    cases hn : regex ⟨x ++ 10 :: b, p, ts⟩ with
    | error e => rw [hn] at hm; simp at hm
    | ok y =>
      obtain ⟨t, s₁'⟩ := y
      rw [hn] at hm hr
      dsimp only at hm hr
      obtain ⟨pre, hpre⟩ := nextStates_suffix _ _ _ _ _ hm
      have hl : (10 :: b).length ≤ s₁'.rest.length := by
        have := congrArg List.length hpre
        simp only [List.length_append] at this; omega
      obtain ⟨x', e1, e32⟩ := regex_stable (10 :: b) (32 :: b) x _ _ t s₁' hn hl
      obtain ⟨x'', e1', e59⟩ := regex_stable (10 :: b) (59 :: b) x _ _ t s₁' hn hl
      have : x'' = x' := by
        have := e1.symm.trans e1'
        exact (List.append_cancel_right this).symm
      subst this
      rw [e32, e59]
      dsimp only
      have hs₁ : s₁' = ⟨x'' ++ 10 :: b, s₁'.pos, s₁'.tokenStart⟩ := by rw [← e1]
      rw [hs₁] at hm hr
      exact ih t (hb t) (g.step t) x'' _ _ hm r hr

/-- `;` for a newline, bytes, program parser (the three texts have the same length, hence get
    the same fuel `n`) -/
theorem parseProgram_semi_bytes {tbl : RuleTable} (hprec : (lookupRule tbl .semiColon).prec = 0)
    (a b : Bytes) (pb tsb : Nat) (gb : G) (t₀ : Token) (nl₀ : Bool) (s' : LexState)
    (ht₀ : nextNN (b.length + 1) ⟨b, pb + 1, pb⟩ false = .ok (t₀, nl₀, s'))
    (H : Hyp t₀ ⟨.semiColon, pb, []⟩) (n : Nat)
    (hreach : (gb, (⟨10 :: b, pb, tsb⟩ : LexState)) ∈
      nextStates G.init (Parser.parseProgram tbl n PS.init) (LexState.init (a ++ 10 :: b)))
    {p : Program} {st : PS}
    (hr : (Parser.parseProgram tbl n PS.init).run (LexState.init (a ++ 10 :: b)) = .ok (p, st)) :
    (∃ st', (Parser.parseProgram tbl n PS.init).run (LexState.init (a ++ 32 :: b)) = .ok (p, st')) ∨
    (∃ st', (Parser.parseProgram tbl n PS.init).run (LexState.init (a ++ 59 :: b)) = .ok (p, st')) := by
  simp only [PM.run_eq_runWith] at hr ⊢
  rcases run_btree_bytes b pb tsb gb nl₀ s' ht₀ H.ne_eof _ (parseProgram_btree H hprec n PS.init)
    G.init a 0 0 hreach (p, st) hr with ⟨⟨p', st'⟩, h, he⟩ | ⟨⟨p', st'⟩, h, he⟩
  · left
    dsimp only at he; subst he
    exact ⟨st', h⟩
  · right
    dsimp only at he; subst he
    exact ⟨st', h⟩

end Semi
end Jqawk
