/-
  C03 — "a value and at most one following byte suffice", decoder level.

  The decoder (`Json.decodeOne`, the port of encoding/json's `Decoder.Decode`) answers for the first
  value of a stream as soon as it has seen the value's own bytes and AT MOST ONE further byte:
    * arrays and objects are self-delimiting: the answer comes with the closing bracket
      (stream.go `readValue` "invents a space" after scanEndObject / scanEndArray);
    * numbers, the literals true / false / null AND STRINGS need one following byte: the scanner
      reports the end of a top-level scalar one byte late (`stateEndTop` answers scanEnd to the
      byte after the value) and `readValue` has no shortcut for a closing quote.
  Everything here is about `decodeOne … .more` (bytes read so far, the reader may deliver more).
-/
import Jqawk.Model.Json
import Jqawk.Lemmas.JsonPrefix

namespace Jqawk.OneByte
open Jqawk Jqawk.Json

/-- arrays and objects -/
def composite : JVal → Bool
  | .arr _ => true
  | .obj _ => true
  | _ => false

/-- the bytes that can continue a number literal (in SOME scanner state): digits `.` `e` `E` -/
def numCont (c : UInt8) : Bool := isDigit c || c == 0x2E || c == 0x65 || c == 0x45

/-- feed bytes to the scanner; `some s'` when every byte was absorbed without the value ending -/
def feed (f : Bytes → Bool) : St → Bytes → Option St
  | s, [] => some s
  | s, c :: cs =>
    match step f s c with
    | .cont s' => feed f s' cs
    | _ => none

/-- the scalar-carrying scanner states carry scalars (true of every state reachable from `St.init`) -/
def Good (s : St) : Prop :=
  match s.step with
  | .endTop v => composite v = false
  | .lit _ v => composite v = false
  | _ => True

theorem good_init : Good St.init := trivial

/-! ### one scanner step -/

theorem deliver_good {s : St} {v : JVal} (h : s.stack = [] → composite v = false) : Good (deliver s v) := by
  unfold deliver
  split
  · rename_i hs; exact h hs
  all_goals trivial

theorem pop_cont_good {s s' : St} {fs : List Frame} {v : JVal} (h : pop s fs v = .cont s') : Good s' := by
  unfold pop at h
  split at h
  · cases h
  · rename_i hne
    simp only [Out.cont.injEq] at h
    subst h
    apply deliver_good
    intro h0; exact absurd h0 (by simpa using hne)

theorem pop_done {s : St} {fs : List Frame} {v j : JVal} {bad consumed : Bool}
    (h : pop s fs v = .done j bad consumed) : consumed = true ∧ j = v := by
  unfold pop at h
  split at h
  · simp only [Out.done.injEq] at h; exact ⟨h.2.2.symm, h.1.symm⟩
  · cases h

theorem endValue_cont_good {s s' : St} {c : UInt8} (h : endValue s c = .cont s') : Good s' := by
  unfold endValue at h
  split at h
  · simp only [Out.cont.injEq] at h; subst h; trivial
  · split at h
    · cases h
    · split at h
      · simp only [Out.cont.injEq] at h; subst h; trivial
      · cases h
    · split at h
      · simp only [Out.cont.injEq] at h; subst h; trivial
      · split at h
        · exact pop_cont_good h
        · cases h
    · split at h
      · simp only [Out.cont.injEq] at h; subst h; trivial
      · split at h
        · exact pop_cont_good h
        · cases h

theorem endValue_done {s : St} {c : UInt8} {j : JVal} {bad consumed : Bool}
    (h : endValue s c = .done j bad consumed) : consumed = true ∧ composite j = true := by
  unfold endValue at h
  split at h
  · cases h
  · split at h
    · cases h
    · split at h <;> cases h
    · split at h
      · cases h
      · split at h
        · obtain ⟨h1, h2⟩ := pop_done h; subst h2; exact ⟨h1, rfl⟩
        · cases h
    · split at h
      · cases h
      · split at h
        · obtain ⟨h1, h2⟩ := pop_done h; subst h2; exact ⟨h1, rfl⟩
        · cases h

theorem deliver_endTop {s : St} {v j : JVal} (h : (deliver s v).step = .endTop j) : j = v := by
  unfold deliver at h
  split at h
  · simp only [Step.endTop.injEq] at h; exact h.symm
  all_goals cases h

theorem afterValue_cont_good {s s' : St} {c : UInt8} (h : afterValue s c = .cont s') : Good s' := by
  unfold afterValue at h
  split at h
  · cases h
  · exact endValue_cont_good h

theorem afterValue_endTop {s : St} {j : JVal} (h : s.step = .endTop j) (d : UInt8) :
    afterValue s d = .done j s.bad false := by
  unfold afterValue; rw [h]

theorem afterValue_done {s : St} {c : UInt8} {j : JVal} {bad consumed : Bool}
    (h : afterValue s c = .done j bad consumed) :
    (consumed = true ∧ composite j = true) ∨ (consumed = false ∧ s.step = .endTop j ∧ bad = s.bad) := by
  unfold afterValue at h
  split at h
  · rename_i v hv
    simp only [Out.done.injEq] at h
    obtain ⟨rfl, rfl, rfl⟩ := h
    exact .inr ⟨rfl, hv, rfl⟩
  · exact .inl (endValue_done h)

theorem endNumber_cont_good {f : Bytes → Bool} {s s' : St} {c : UInt8} (h : endNumber f s c = .cont s') :
    Good s' := afterValue_cont_good h

/-- a number literal that ends a top-level value ends it before ANY byte that ends the literal -/
theorem endNumber_done {f : Bytes → Bool} {s : St} {c : UInt8} {j : JVal} {bad consumed : Bool}
    (h : endNumber f s c = .done j bad consumed) :
    (consumed = true ∧ composite j = true) ∨
    (consumed = false ∧ j = .num s.lit.reverse ∧ ∀ d, endNumber f s d = .done j bad false) := by
  unfold endNumber at h
  rcases afterValue_done h with h1 | ⟨h1, h2, h3⟩
  · exact .inl h1
  · refine .inr ⟨h1, deliver_endTop h2, fun d => ?_⟩
    unfold endNumber
    rw [afterValue_endTop h2 d, h3]

theorem push_cont_good {s s' : St} {fr : Frame} {next : Step}
    (hn : match next with | .endTop _ => False | .lit _ _ => False | _ => True)
    (h : push s fr next = .cont s') : Good s' := by
  unfold push at h
  split at h
  · simp only [Out.cont.injEq] at h; subst h
    unfold Good; dsimp only
    cases next <;> simp_all
  · cases h

theorem push_not_done {s : St} {fr : Frame} {next : Step} {j : JVal} {bad consumed : Bool} :
    push s fr next ≠ .done j bad consumed := by
  unfold push; split <;> simp

theorem beginValue_cont_good {s s' : St} {c : UInt8} (h : beginValue s c = .cont s') (hs : Good s) : Good s' := by
  unfold beginValue at h
  split at h
  · simp only [Out.cont.injEq] at h; subst h; exact hs
  split at h
  · exact push_cont_good trivial h
  split at h
  · exact push_cont_good trivial h
  repeat' split at h
  all_goals first
    | (simp only [Out.cont.injEq] at h; subst h; first | trivial | rfl)
    | cases h

theorem beginValue_not_done {s : St} {c : UInt8} {j : JVal} {bad consumed : Bool} :
    beginValue s c ≠ .done j bad consumed := by
  unfold beginValue
  repeat' split
  all_goals first | exact push_not_done | simp

theorem more_cont_good {s s' : St} {c : UInt8} {next : Step}
    (hn : match next with | .endTop _ => False | .lit _ _ => False | _ => True)
    (h : more s c next = .cont s') : Good s' := by
  unfold more at h
  simp only [Out.cont.injEq] at h; subst h
  unfold Good; dsimp only
  cases next <;> simp_all

theorem state0_cont_good {f : Bytes → Bool} {s s' : St} {c : UInt8} (h : state0 f s c = .cont s') : Good s' := by
  unfold state0 at h
  split at h
  · exact more_cont_good trivial h
  split at h
  · exact more_cont_good trivial h
  · exact endNumber_cont_good h

theorem beginString_cont_good {s s' : St} {c : UInt8} (h : beginString s c = .cont s') (hs : Good s) :
    Good s' := by
  unfold beginString at h
  split at h
  · simp only [Out.cont.injEq] at h; subst h; exact hs
  split at h
  · simp only [Out.cont.injEq] at h; subst h; trivial
  · cases h

theorem stateESign_cont_good {s s' : St} {c : UInt8} (h : stateESign s c = .cont s') : Good s' := by
  unfold stateESign at h
  split at h
  · exact more_cont_good trivial h
  · cases h

/-- the invariant is preserved by every scanner step -/
theorem step_cont_good {f : Bytes → Bool} {s s' : St} {c : UInt8} (hs : Good s) (h : step f s c = .cont s') :
    Good s' := by
  unfold step at h
  split at h
  case h_1 => exact beginValue_cont_good h hs
  case h_2 =>
    split at h
    · simp only [Out.cont.injEq] at h; subst h; exact hs
    split at h
    · exact endValue_cont_good h
    · exact beginValue_cont_good h hs
  case h_3 =>
    split at h
    · simp only [Out.cont.injEq] at h; subst h; exact hs
    split at h
    · split at h
      · exact endValue_cont_good h
      · cases h
    · exact beginString_cont_good h hs
  case h_4 => exact beginString_cont_good h hs
  case h_5 => exact endValue_cont_good h
  case h_6 => cases h
  case h_7 =>
    split at h
    · simp only [Out.cont.injEq] at h; subst h
      exact deliver_good (fun _ => rfl)
    split at h
    · exact more_cont_good trivial h
    split at h
    · cases h
    · exact more_cont_good trivial h
  case h_8 =>
    split at h
    · exact more_cont_good trivial h
    split at h
    · exact more_cont_good trivial h
    · cases h
  case h_9 n _ =>
    split at h
    · refine more_cont_good ?_ h
      cases n <;> trivial
    · cases h
  case h_10 =>
    split at h
    · exact more_cont_good trivial h
    split at h
    · exact more_cont_good trivial h
    · cases h
  case h_11 =>
    split at h
    · exact more_cont_good trivial h
    · exact state0_cont_good h
  case h_12 => exact state0_cont_good h
  case h_13 =>
    split at h
    · exact more_cont_good trivial h
    · cases h
  case h_14 =>
    split at h
    · exact more_cont_good trivial h
    split at h
    · exact more_cont_good trivial h
    · exact endNumber_cont_good h
  case h_15 =>
    split at h
    · exact more_cont_good trivial h
    · exact stateESign_cont_good h
  case h_16 => exact stateESign_cont_good h
  case h_17 =>
    split at h
    · exact more_cont_good trivial h
    · exact endNumber_cont_good h
  case h_18 rest v hst =>
    have hv : composite v = false := by unfold Good at hs; rw [hst] at hs; exact hs
    split at h
    · cases h
    · split at h
      · simp only [Out.cont.injEq] at h; subst h
        exact deliver_good (fun _ => hv)
      · cases h
    · split at h
      · simp only [Out.cont.injEq] at h; subst h
        exact hv
      · cases h

/-- `d` can end the top-level value `j`: any byte after true / false / null / a string; any byte
    that is not a digit, `.`, `e`, `E` after a number (composites: not applicable, `true`) -/
def delimits (j : JVal) (d : UInt8) : Bool :=
  match j with
  | .num _ => !numCont d
  | _ => true

theorem numCont_false {d : UInt8} (h : numCont d = false) :
    isDigit d = false ∧ (d == 0x2E) = false ∧ (d == 0x65 || d == 0x45) = false := by
  unfold numCont at h
  simp only [Bool.or_eq_false_iff] at h
  simp [h.1.1.1, h.1.1.2, h.1.2, h.2]

theorem state0_num {f : Bytes → Bool} {s : St} {d : UInt8} (h : numCont d = false) :
    state0 f s d = endNumber f s d := by
  obtain ⟨_, h2, h3⟩ := numCont_false h
  unfold state0; simp [h2, h3]

/-- the shape of a `done` answer of `state0` -/
theorem state0_done {f : Bytes → Bool} {s : St} {c : UInt8} {j : JVal} {bad consumed : Bool}
    (h : state0 f s c = .done j bad consumed) :
    (consumed = true ∧ composite j = true) ∨
    (consumed = false ∧ (∃ l, j = .num l) ∧ ∀ d, endNumber f s d = .done j bad false) := by
  unfold state0 at h
  split at h
  · cases h
  split at h
  · cases h
  · rcases endNumber_done h with h1 | ⟨h1, h2, h3⟩
    · exact .inl h1
    · exact .inr ⟨h1, ⟨_, h2⟩, h3⟩

/-- **One scanner step that completes the top-level value.**  Either the byte is the closing
    bracket of an array / object (`consumed = true`), or the value is a scalar that ended BEFORE
    this byte — and then it would have ended the same way before any other delimiting byte. -/
theorem step_done {f : Bytes → Bool} {s : St} {c : UInt8} {j : JVal} {bad consumed : Bool} (hs : Good s)
    (h : step f s c = .done j bad consumed) :
    (consumed = true ∧ composite j = true) ∨
    (consumed = false ∧ composite j = false ∧
      ∀ d, delimits j d = true → step f s d = .done j bad false) := by
  unfold step at h
  split at h
  case h_1 => exact absurd h beginValue_not_done
  case h_2 =>
    split at h
    · cases h
    split at h
    · exact .inl (endValue_done h)
    · exact absurd h beginValue_not_done
  case h_3 =>
    split at h
    · cases h
    split at h
    · split at h
      · exact .inl (endValue_done h)
      · cases h
    · unfold beginString at h; repeat' split at h
      all_goals cases h
  case h_4 =>
    unfold beginString at h; repeat' split at h
    all_goals cases h
  case h_5 => exact .inl (endValue_done h)
  case h_6 v hst =>
    simp only [Out.done.injEq] at h
    obtain ⟨rfl, rfl, rfl⟩ := h
    refine .inr ⟨rfl, ?_, fun d _ => ?_⟩
    · unfold Good at hs; rw [hst] at hs; exact hs
    · unfold step; rw [hst]
  case h_7 =>
    unfold more at h; repeat' split at h
    all_goals cases h
  case h_8 =>
    unfold more at h; repeat' split at h
    all_goals cases h
  case h_9 =>
    unfold more at h; repeat' split at h
    all_goals cases h
  case h_10 =>
    unfold more at h; repeat' split at h
    all_goals cases h
  case h_11 hst =>
    split at h
    · cases h
    · rcases state0_done h with h1 | ⟨h1, ⟨l, rfl⟩, h3⟩
      · exact .inl h1
      · refine .inr ⟨h1, rfl, fun d hd => ?_⟩
        have hd' : numCont d = false := by simpa [delimits] using hd
        unfold step; rw [hst]; dsimp only
        rw [if_neg (by simp [(numCont_false hd').1]), state0_num hd']
        exact h3 d
  case h_12 hst =>
    rcases state0_done h with h1 | ⟨h1, ⟨l, rfl⟩, h3⟩
    · exact .inl h1
    · refine .inr ⟨h1, rfl, fun d hd => ?_⟩
      have hd' : numCont d = false := by simpa [delimits] using hd
      unfold step; rw [hst]; dsimp only
      rw [state0_num hd']
      exact h3 d
  case h_13 =>
    unfold more at h; repeat' split at h
    all_goals cases h
  case h_14 hst =>
    split at h
    · cases h
    split at h
    · cases h
    · rcases endNumber_done h with h1 | ⟨h1, h2, h3⟩
      · exact .inl h1
      · subst h2
        refine .inr ⟨h1, rfl, fun d hd => ?_⟩
        have hd' : numCont d = false := by simpa [delimits] using hd
        obtain ⟨k1, _, k3⟩ := numCont_false hd'
        unfold step; rw [hst]; dsimp only
        rw [if_neg (by simp [k1]), if_neg (by simp [k3])]
        exact h3 d
  case h_15 =>
    unfold stateESign more at h; repeat' split at h
    all_goals cases h
  case h_16 =>
    unfold stateESign more at h; repeat' split at h
    all_goals cases h
  case h_17 hst =>
    split at h
    · cases h
    · rcases endNumber_done h with h1 | ⟨h1, h2, h3⟩
      · exact .inl h1
      · subst h2
        refine .inr ⟨h1, rfl, fun d hd => ?_⟩
        have hd' : numCont d = false := by simpa [delimits] using hd
        obtain ⟨k1, _, k3⟩ := numCont_false hd'
        unfold step; rw [hst]; dsimp only
        rw [if_neg (by simp [k1])]
        exact h3 d
  case h_18 =>
    repeat' split at h
    all_goals cases h

/-! ### runs of the scanner -/

theorem feed_good {f : Bytes → Bool} : ∀ (v : Bytes) (s s' : St), Good s → feed f s v = some s' → Good s'
  | [], s, s', hs, h => by simp only [feed, Option.some.injEq] at h; subst h; exact hs
  | c :: cs, s, s', hs, h => by
    simp only [feed] at h
    cases hst : step f s c with
    | cont s1 => rw [hst] at h; exact feed_good cs s1 s' (step_cont_good hs hst) h
    | err => rw [hst] at h; cases h
    | done _ _ _ => rw [hst] at h; cases h

theorem run_feed {f : Bytes → Bool} (m : Bytes) (t : Tail) :
    ∀ (v : Bytes) (s s' : St), feed f s v = some s' → run f s (v ++ m) t = run f s' m t
  | [], s, s', h => by simp only [feed, Option.some.injEq] at h; subst h; rfl
  | c :: cs, s, s', h => by
    simp only [feed] at h
    cases hst : step f s c with
    | cont s1 =>
      rw [hst] at h
      rw [List.cons_append, run, hst]
      exact run_feed m t cs s1 s' h
    | err => rw [hst] at h; cases h
    | done _ _ _ => rw [hst] at h; cases h

/-- a successful `readValue` splits the input at the byte on which the scanner answered -/
theorem run_value_split {f : Bytes → Bool} {j : JVal} {rest : Bytes} :
    ∀ (inp : Bytes) (s : St), run f s inp .more = .value j rest →
      ∃ v s' c cs consumed, inp = v ++ c :: cs ∧ feed f s v = some s' ∧
        step f s' c = .done j false consumed ∧ rest = if consumed then cs else c :: cs
  | [], s, h => by simp [run] at h
  | c :: cs, s, h => by
    simp only [run] at h
    cases hst : step f s c with
    | cont s1 =>
      rw [hst] at h
      obtain ⟨v, s', c', cs', consumed, h1, h2, h3, h4⟩ := run_value_split cs s1 h
      exact ⟨c :: v, s', c', cs', consumed, by rw [h1]; rfl, by simp only [feed, hst]; exact h2, h3, h4⟩
    | err => rw [hst] at h; cases h
    | done w bad consumed =>
      rw [hst] at h
      cases bad
      · simp only [Bool.false_eq_true, ↓reduceIte, DecodeRes.value.injEq] at h
        obtain ⟨rfl, rfl⟩ := h
        exact ⟨[], s, c, cs, consumed, rfl, rfl, hst, rfl⟩
      · simp at h

theorem run_nil_more {f : Bytes → Bool} (s : St) : run f s [] .more = .needMore := by
  unfold run; rfl

theorem run_done {f : Bytes → Bool} {s : St} {c : UInt8} {j : JVal} {consumed : Bool} (cs : Bytes) (t : Tail)
    (h : step f s c = .done j false consumed) :
    run f s (c :: cs) t = .value j (if consumed then cs else c :: cs) := by
  rw [run, h]; rfl

/-! ### `decodeOne` with more bytes possibly to come is `run` from the initial state -/

theorem step_init_space {f : Bytes → Bool} {c : UInt8} (h : isSpace c = true) :
    step f St.init c = .cont St.init := by
  unfold step; simp only [St.init]; unfold beginValue; simp [h]

theorem run_init_dropWhile {f : Bytes → Bool} (t : Tail) :
    ∀ inp : Bytes, inp.dropWhile isSpace ≠ [] →
      run f St.init inp t = run f St.init (inp.dropWhile isSpace) t
  | [], h => by simp at h
  | c :: cs, h => by
    by_cases hc : isSpace c = true
    · rw [List.dropWhile_cons_of_pos hc] at h ⊢
      rw [run, step_init_space hc]
      exact run_init_dropWhile t cs h
    · rw [List.dropWhile_cons_of_neg hc]

theorem run_init_allSpace {f : Bytes → Bool} :
    ∀ inp : Bytes, inp.dropWhile isSpace = [] → run f St.init inp .more = .needMore
  | [], _ => run_nil_more _
  | c :: cs, h => by
    by_cases hc : isSpace c = true
    · rw [List.dropWhile_cons_of_pos hc] at h
      rw [run, step_init_space hc]
      exact run_init_allSpace cs h
    · rw [List.dropWhile_cons_of_neg hc] at h; cases h

theorem decodeOne_more_eq_run (f : Bytes → Bool) (inp : Bytes) :
    decodeOne f inp .more = run f St.init inp .more := by
  by_cases h : inp.dropWhile isSpace = []
  · rw [run_init_allSpace inp h]; unfold decodeOne; rw [h]
  · rw [decodeOne_eq_run h, run_init_dropWhile _ inp h]

theorem run_more_ne_eof {f : Bytes → Bool} : ∀ (l : Bytes) (s : St), run f s l .more ≠ .eof
  | [], s => by rw [run_nil_more]; simp
  | c :: cs, s => by
    rw [run]
    cases step f s c with
    | cont s' => exact run_more_ne_eof cs s'
    | err => simp
    | done v bad consumed => cases bad <;> simp

theorem decodeOne_more_ne_eof (f : Bytes → Bool) (inp : Bytes) : decodeOne f inp .more ≠ .eof := by
  rw [decodeOne_more_eq_run]; exact run_more_ne_eof _ _

/-! ### the anatomy of a successful `Decode` -/

theorem step_init_not_done {f : Bytes → Bool} {c : UInt8} {j : JVal} {bad consumed : Bool} :
    step f St.init c ≠ .done j bad consumed := by
  unfold step; simp only [St.init]; exact beginValue_not_done

/-- **Anatomy of a successful decode.**  If the decoder, given the bytes `inp` (more may follow),
    answers with the value `j` and leaves `rest` unread, then `inp = v ++ rest` where `v` (not
    empty) is the value's own text including leading white space, and
    * `j` is an array or object, and `v` ALONE already decodes to `j` with nothing left; or
    * `j` is a scalar (null, a boolean, a number, a string), `v` alone is NOT enough (the decoder
      asks for more), `rest` is not empty, and `v` followed by just the first byte `d` of `rest`
      decodes to `j` leaving `d` — as does `v` followed by any byte that `delimits j`. -/
theorem decode_split {f : Bytes → Bool} {inp rest : Bytes} {j : JVal}
    (h : decodeOne f inp .more = .value j rest) :
    ∃ v, inp = v ++ rest ∧ v ≠ [] ∧
      ((composite j = true ∧ decodeOne f v .more = .value j []) ∨
       (composite j = false ∧ decodeOne f v .more = .needMore ∧
        (∃ d r, rest = d :: r ∧ decodeOne f (v ++ [d]) .more = .value j [d]) ∧
        ∀ d, delimits j d = true → decodeOne f (v ++ [d]) .more = .value j [d])) := by
  rw [decodeOne_more_eq_run] at h
  obtain ⟨v, s', c, cs, consumed, h1, h2, h3, h4⟩ := run_value_split inp St.init h
  have hg : Good s' := feed_good v _ _ good_init h2
  rcases step_done hg h3 with ⟨hc, hj⟩ | ⟨hc, hj, hd⟩
  · subst hc
    simp only [↓reduceIte] at h4
    subst h4
    refine ⟨v ++ [c], by rw [h1]; simp, by simp, .inl ⟨hj, ?_⟩⟩
    rw [decodeOne_more_eq_run, run_feed [c] .more v _ _ h2, run_done [] .more h3]; rfl
  · subst hc
    simp only [Bool.false_eq_true, ↓reduceIte] at h4
    subst h4
    have hv : v ≠ [] := by
      rintro rfl
      simp only [feed, Option.some.injEq] at h2
      subst h2
      exact step_init_not_done h3
    refine ⟨v, h1, hv, .inr ⟨hj, ?_, ⟨c, cs, rfl, ?_⟩, fun d hdel => ?_⟩⟩
    · have := run_feed (f := f) [] .more v _ _ h2
      rw [List.append_nil] at this
      rw [decodeOne_more_eq_run, this, run_nil_more]
    · rw [decodeOne_more_eq_run, run_feed [c] .more v _ _ h2, run_done [] .more h3]; rfl
    · rw [decodeOne_more_eq_run, run_feed [d] .more v _ _ h2, run_done [] .more (hd d hdel)]; rfl

/-- only arrays and objects are ever returned with NOTHING left unread -/
theorem composite_of_rest_nil {f : Bytes → Bool} {inp : Bytes} {j : JVal}
    (h : decodeOne f inp .more = .value j []) : composite j = true := by
  obtain ⟨v, _, _, h1 | ⟨_, _, ⟨d, r, hr, _⟩, _⟩⟩ := decode_split h
  · exact h1.1
  · cases hr

/-- an answer `needMore` on some bytes means `needMore` on every prefix of them -/
theorem needMore_of_prefix {f : Bytes → Bool} {p q : Bytes} (h : decodeOne f (p ++ q) .more = .needMore) :
    decodeOne f p .more = .needMore := by
  cases hp : decodeOne f p .more with
  | needMore => rfl
  | eof => exact absurd hp (decodeOne_more_ne_eof f p)
  | error => rw [decodeOne_prefix_error q .more hp] at h; cases h
  | value v r => rw [decodeOne_prefix_value q .more hp] at h; cases h

/-- if `v ++ rest` decodes to `j` leaving `rest`, so does `v` followed by any initial part `r'` of
    `rest` — provided `r'` is not empty (one byte is enough) or `j` is an array / object -/
theorem decode_shorter_rest {f : Bytes → Bool} {v rest r' : Bytes} {j : JVal}
    (h : decodeOne f (v ++ rest) .more = .value j rest) (hp : r' <+: rest)
    (hr : r' ≠ [] ∨ composite j = true) : decodeOne f (v ++ r') .more = .value j r' := by
  obtain ⟨v0, h0, _, hcase⟩ := decode_split h
  have hv : v0 = v := (List.append_cancel_right h0).symm
  subst hv
  rcases hcase with ⟨_, h1⟩ | ⟨hj, _, ⟨d, r, hrest, h2⟩, _⟩
  · simpa using decodeOne_prefix_value r' .more h1
  · have hne : r' ≠ [] := by
      rcases hr with hr | hr
      · exact hr
      · rw [hj] at hr; cases hr
    cases r' with
    | nil => exact absurd rfl hne
    | cons d' r'' =>
      subst hrest
      obtain ⟨q, hq⟩ := hp
      simp only [List.cons_append, List.cons.injEq] at hq
      obtain ⟨rfl, _⟩ := hq
      simpa using decodeOne_prefix_value r'' .more h2

end Jqawk.OneByte
