/-
  Panic freedom (C01), part 6: selectors, the input loop and the whole run.
-/
import Jqawk.Lemmas.NoPanicDriver
import Jqawk.Lemmas.ParserWF

set_option linter.unusedVariables false

namespace Jqawk

/-! ### the region of a selector's evaluator -/

/-- everything allocated after the heap `h`; no function of the program is known there -/
def Psel (prog : Program) (h : Heap) : Region :=
  ⟨h.cells.size, h.arrs.size, h.objs.size, 0, prog.functions.length⟩

theorem FnB_congr {P P' : Region} (h : P.L = P'.L) {v : Val} (hv : FnB P v) : FnB P' v := by
  cases v <;> simp_all [FnB]

theorem specOK_main (prog : Program) (sp : Option SpecRef) : SpecOK (Pm prog) sp := by
  cases sp with
  | none => trivial
  | some r => exact Nat.zero_le _

theorem optReg_main (prog : Program) (b : Option CellId) : OptReg (Pm prog) b := by
  cases b with
  | none => trivial
  | some r => exact Nat.zero_le _

theorem goodV_main_of_fnB {prog : Program} {v : Val} (h : FnB (Pm prog) v) : GoodV (Pm prog) v := by
  cases v with
  | str s sp => exact specOK_main prog sp
  | nil sp => exact specOK_main prog sp
  | native f b sp => exact ⟨optReg_main prog b, specOK_main prog sp⟩
  | fn i => exact ⟨h, h⟩
  | arr a => exact Nat.zero_le a
  | obj o => exact Nat.zero_le o
  | _ => trivial

theorem HeapOK.toSel {prog : Program} {h : Heap} (ok : HeapOK (Pm prog) h) : HeapOK (Psel prog h) h := by
  refine ⟨Nat.le_refl _, Nat.le_refl _, Nat.le_refl _, fun c => FnB_congr rfl (ok.all c), ?_, ?_, ?_⟩
  · intro c hc
    have : h.get c = .unknown := by
      simp only [Heap.get, Array.getD_eq_getD_getElem?, Array.getElem?_eq_none hc, Option.getD_none]
    rw [this]; trivial
  · intro a ha c hc
    have : h.arr a = #[] := by
      simp only [Heap.arr, Array.getD_eq_getD_getElem?, Array.getElem?_eq_none ha, Option.getD_none]
    rw [this] at hc; simp at hc
  · intro o ho kc hkc
    have : h.obj o = [] := by
      simp only [Heap.obj, Array.getD_eq_getD_getElem?, Array.getElem?_eq_none ho, Option.getD_none]
    rw [this] at hkc; cases hkc

theorem HeapOK.toMain {prog : Program} {h0 h : Heap} (ok : HeapOK (Psel prog h0) h) :
    HeapOK (Pm prog) h := by
  refine ⟨Nat.zero_le _, Nat.zero_le _, Nat.zero_le _, fun c => FnB_congr rfl (ok.all c), ?_, ?_, ?_⟩
  · intro c _; exact goodV_main_of_fnB (FnB_congr rfl (ok.all c))
  · intro a _ c _; exact Nat.zero_le c
  · intro o _ kc _; exact Nat.zero_le kc.2

/-- the nested evaluator of a selector never panics and keeps its region closed -/
theorem selectorRun_np (prog : Program) (h0 : Heap) (rootValue : JVal) (expr : Expr)
    (hwf : expr.wfB = true) :
    NP (Psel prog h0) KAny (selectorRun rootValue expr) (InR (Psel prog h0)) := by
  unfold selectorRun
  refine NP.bind (NP.newValueJson _) (fun v hv => NP.bind (NP.newCell hv) (fun rc hrc =>
    NP.enter2 KSup.any hrc ?_))
  refine NP.bind ((allNP (Psel prog h0) Program.empty (Nat.zero_le _) (by intro f hf; cases hf)
    evalFuel).expr _ hwf) (fun cell hcell => NP.bind (NP.newCell trivial) (fun root hroot =>
      NP.bind (NP.copyValue hcell hroot) (fun r hr => ?_)))
  split
  · exact NP.throwRt _ _
  · exact NP.pure hr

variable {tbl : RuleTable} (htbl : TblOK tbl) (prog : Program)
include htbl

/-- one selector evaluation: no panic, and the main evaluator's invariant holds afterwards -/
theorem evalSelector_np (sel : Bytes) (rootValue : JVal) (s : St) (hs : InvK (Pm prog) KAny s) :
    (∀ o s', evalSelector tbl sel rootValue s = .inl (o, s') → ∀ m, o ≠ .panic m) ∧
    (∀ x s', evalSelector tbl sel rootValue s = .inr (x, s') → InvK (Pm prog) KAny s') := by
  unfold evalSelector
  split
  · constructor
    · intro o s' h; simp only [Sum.inl.injEq, Prod.mk.injEq] at h; obtain ⟨rfl, rfl⟩ := h
      intro m hm; cases hm
    · intro x s' h; cases h
  · constructor
    · intro o s' h; simp only [Sum.inl.injEq, Prod.mk.injEq] at h; obtain ⟨rfl, rfl⟩ := h
      intro m hm; cases hm
    · intro x s' h; cases h
  · rename_i expr hp
    have hwf : expr.wfB = true := parseExpressionSrc_wf htbl sel expr hp
    have hs0 : InvK (Psel prog s.heap) KAny (newEvaluator Program.empty s.heap s.out s.faults) :=
      newEvaluator_inv Program.empty (Nat.zero_le _) (Nat.zero_le _) hs.heap.toSel _ _
    have h0 := selectorRun_np prog s.heap rootValue expr hwf _ hs0
    unfold NPat at h0
    have back : ∀ s1 : St, InvK (Psel prog s.heap) KAny s1 →
        InvK (Pm prog) KAny { s with heap := s1.heap, out := s1.out, faults := s1.faults,
                                     faultOut := s1.faultOut, maxDepth := max s.maxDepth s1.maxDepth } :=
      fun s1 h1 => ⟨⟨h1.heap.toMain, hs.frames, hs.ret⟩, trivial⟩
    dsimp only
    split
    all_goals (rename_i hr; rw [hr] at h0)
    all_goals constructor
    all_goals intro a s' h
    all_goals (first
      | (cases h; done)
      | (exact False.elim h0)
      | (simp only [Sum.inl.injEq, Sum.inr.injEq, Prod.mk.injEq] at h
         obtain ⟨rfl, rfl⟩ := h
         first
           | exact back _ h0.1
           | exact back _ h0
           | (intro m hm; cases hm; done)))

/-- the result of evaluating the selectors: no panic; the invariant when the run goes on -/
def RootsNP (P : Region) : Roots → Prop
  | .cells _ s' => InvK P KAny s'
  | .exit _ => True
  | .stop o _ => ∀ m, o ≠ .panic m

theorem evalSelectors_np (rootValue : JVal) (sels : List Bytes) (acc : List CellId) (s : St)
    (hs : InvK (Pm prog) KAny s) : RootsNP (Pm prog) (evalSelectors tbl rootValue sels acc s) := by
  induction sels generalizing acc s with
  | nil => exact hs
  | cons sel rest ih =>
    unfold evalSelectors
    have hg := evalSelector_np htbl prog sel rootValue s hs
    cases he : evalSelector tbl sel rootValue s with
    | inl p =>
      obtain ⟨o, s1⟩ := p
      exact hg.1 o s1 he
    | inr p =>
      obtain ⟨x, s1⟩ := p
      have h1 := hg.2 x s1 he
      cases x with
      | ok c => exact ih (c :: acc) s1 h1
      | error g =>
        cases g with
        | exit => trivial
        | cont => exact ih acc s1 h1
        | brk => exact ih acc s1 h1
        | ret => exact ih acc s1 h1
        | next => exact ih acc s1 h1

omit htbl in
theorem errOutcome_panic (src : Bytes) (e : Err) (m : String) :
    errOutcome src e = .panic m ↔ e = .panic m := by
  cases e <;> simp [errOutcome]

omit htbl in
/-- an error result that satisfies `NPres` is not reported as a panic -/
theorem NPres.not_panic {P : Region} {K : Option CellId → Prop} {α : Type} {R : α → Prop} {e : Err}
    {s' : St} (h : NPres P K R (.err e s' : Res α)) (src : Bytes) (m : String) :
    errOutcome src e ≠ .panic m := by
  intro hm
  rw [errOutcome_panic] at hm
  subst hm
  exact h

omit htbl in
theorem setLastFrame_ok {P : Region} {fr : List Frame} (h : FramesOK P fr) (name : Bytes) {c : CellId}
    (hc : P.N ≤ c) : FramesOK P (setLastFrame fr name c) := by
  obtain ⟨hne, hreg⟩ := h
  induction fr with
  | nil => exact absurd rfl hne
  | cons f fs ih =>
    cases fs with
    | nil =>
      refine ⟨by simp [setLastFrame], ?_⟩
      intro g hg
      simp only [setLastFrame, List.mem_singleton] at hg
      subst hg
      exact (hreg f (List.mem_cons_self ..)).objInsert _ hc
    | cons f2 fs2 =>
      have ih' := ih (by simp) (fun g hg => hreg g (List.mem_cons_of_mem _ hg))
      refine ⟨by simp [setLastFrame], ?_⟩
      intro g hg
      simp only [setLastFrame] at hg
      rcases List.mem_cons.mp hg with hg | hg
      · subst hg; exact hreg _ (List.mem_cons_self ..)
      · exact ih'.2 g hg

omit htbl in
theorem NP.setGlobal {P : Region} {K : Option CellId → Prop} (name : Bytes) {c : CellId} (hc : P.N ≤ c) :
    NP P K (Jqawk.setGlobal name c) Tr :=
  fun s hs => ⟨⟨⟨hs.heap, setLastFrame_ok hs.frames name hc, hs.ret⟩, hs.rr⟩, trivial⟩

/-- what one file contributes: no panic; the invariant when the run goes on -/
def StepNP (P : Region) : StepRes → Prop
  | .done s' => InvK P KAny s'
  | .finished o _ => ∀ m, o ≠ .panic m

variable (hwf : prog.wfB = true)
include hwf

theorem processFile_np (src : Bytes) (sels : List Bytes) (file : InputFile) :
    ∀ (fuel : Nat) (data : Bytes) (s : St), InvK (Pm prog) KAny s →
      StepNP (Pm prog) (processFile prog src tbl sels file fuel data s) := by
  intro fuel
  induction fuel with
  | zero => intro data s hs m hm; cases hm
  | succ fuel ih =>
    intro data s hs
    unfold processFile
    cases hd : Json.decodeOne numOk data file.tail with
    | eof => exact hs
    | error => intro m hm; cases hm
    | needMore => intro m hm; cases hm
    | value v rest =>
      dsimp only
      have hset : NP (Pm prog) KAny (do
          let c ← newCell (.str file.name none)
          setGlobal b!"$file" c : EM Unit) Tr :=
        NP.bind (NP.newCell trivial) (fun c hc => NP.setGlobal _ hc)
      have h1 := hset s hs
      unfold NPat at h1
      cases hsf : (do
          let c ← newCell (.str file.name none)
          setGlobal b!"$file" c : EM Unit) s with
      | err e s1 => rw [hsf] at h1; exact h1.not_panic src
      | oof => intro m hm; cases hm
      | ok u s1 =>
        rw [hsf] at h1
        dsimp only
        have hroots : RootsNP (Pm prog) (if sels.isEmpty then
            match (do let val ← newValueJson v; newCell val : EM CellId) s1 with
            | .ok c s2 => Roots.cells [c] s2
            | .err e s2 => Roots.stop (errOutcome src e) s2
            | .oof => Roots.stop Outcome.oof s1
          else evalSelectors tbl v sels [] s1) := by
          split
          · have hnv : NP (Pm prog) KAny (do let val ← newValueJson v; newCell val : EM CellId)
                (InR (Pm prog)) :=
              NP.bind (NP.newValueJson v) (fun val hval => NP.newCell hval)
            have h := hnv s1 h1.1
            unfold NPat at h
            cases hr : (do let val ← newValueJson v; newCell val : EM CellId) s1 with
            | ok c s2 => rw [hr] at h; exact h.1
            | err e s2 => rw [hr] at h; exact h.not_panic src
            | oof => intro m hm; cases hm
          · exact evalSelectors_np htbl prog v sels [] s1 h1.1
        revert hroots
        generalize (if sels.isEmpty then
            match (do let val ← newValueJson v; newCell val : EM CellId) s1 with
            | .ok c s2 => Roots.cells [c] s2
            | .err e s2 => Roots.stop (errOutcome src e) s2
            | .oof => Roots.stop Outcome.oof s1
          else evalSelectors tbl v sels [] s1) = roots
        intro hroots
        cases roots with
        | stop o s2 => exact hroots
        | exit s2 => intro m hm; cases hm
        | cells cs s2 =>
          dsimp only
          have hp := NP.processRoots prog hwf KSup.any cs s2 hroots
          unfold NPat at hp
          cases hpr : processRoots prog cs s2 with
          | ok fl s3 =>
            rw [hpr] at hp
            cases fl with
            | exit => intro m hm; cases hm
            | continue_ => exact ih rest s3 hp.1
          | err e s3 => rw [hpr] at hp; exact hp.not_panic src
          | oof => intro m hm; cases hm

theorem processFiles_np (src : Bytes) (sels : List Bytes) :
    ∀ (files : List InputFile) (s : St), InvK (Pm prog) KAny s →
      StepNP (Pm prog) (processFiles prog src tbl sels files s) := by
  intro files
  induction files with
  | nil => intro s hs; exact hs
  | cons f rest ih =>
    intro s hs
    unfold processFiles
    have h := processFile_np htbl prog hwf src sels f (f.data.length + 2) f.data s hs
    cases hpf : processFile prog src tbl sels f (f.data.length + 2) f.data s with
    | done s1 => rw [hpf] at h; exact ih s1 h
    | finished o s1 => rw [hpf] at h; exact h

omit htbl in
theorem runEnd_np (src : Bytes) (s2 : St) (hs : InvK (Pm prog) KAny s2) (m : String) :
    (runEnd prog src s2).outcome ≠ .panic m := by
  unfold runEnd
  have he := NP.evalSpecialRules prog (Nat.le_refl _) hwf KSup.any (newCell (.nil none))
    (fun K' => NP.newCell trivial) (rulesOf prog .end_) (rulesOf_sub' prog _) s2 hs
  unfold NPat at he
  cases her : evalSpecialRules prog (newCell (.nil none)) (rulesOf prog .end_) s2 with
  | err e s3 => rw [her] at he; exact he.not_panic src m
  | oof => intro h; cases h
  | ok fl s3 => intro h; cases h

theorem runFiles_np (src : Bytes) (sels : List Bytes) (files : List InputFile) (s1 : St)
    (hs : InvK (Pm prog) KAny s1) (m : String) :
    (runFiles prog src tbl sels files s1).outcome ≠ .panic m := by
  unfold runFiles
  have hf := processFiles_np htbl prog hwf src sels files s1 hs
  cases hpf : processFiles prog src tbl sels files s1 with
  | finished o s2 => rw [hpf] at hf; exact hf m
  | done s2 => rw [hpf] at hf; exact runEnd_np prog hwf src s2 hf m

/-- **A run of a well-formed program never panics** (any rule table satisfying `TblOK` for the
    selectors, any selector texts, any input files). -/
theorem runProgram_np (src : Bytes) (sels : List Bytes) (files : List InputFile) (m : String) :
    (runProgram prog src tbl sels files).outcome ≠ .panic m := by
  unfold runProgram
  have hs0 : InvK (Pm prog) KAny (newEvaluator prog Heap.empty [] 0) :=
    newEvaluator_inv prog (Nat.le_refl _) (Nat.le_refl _) (HeapOK.empty _ rfl rfl rfl) _ _
  have hb := NP.evalSpecialRules prog (Nat.le_refl _) hwf KSup.any (newCell (.nil none))
    (fun K' => NP.newCell trivial) (rulesOf prog .begin_) (rulesOf_sub' prog _) _ hs0
  unfold NPat at hb
  cases hbr : evalSpecialRules prog (newCell (.nil none)) (rulesOf prog .begin_)
      (newEvaluator prog Heap.empty [] 0) with
  | err e s1 => rw [hbr] at hb; exact hb.not_panic src m
  | oof => intro h; cases h
  | ok fl s1 =>
    rw [hbr] at hb
    cases fl with
    | exit => intro h; cases h
    | continue_ => exact runFiles_np htbl prog hwf src sels files s1 hb.1 m

end Jqawk
