/-
  The driver consumes a byte stream value by value: processing `pre ++ more` first does exactly
  what processing `pre` alone (with more bytes possibly to come) does, and only then looks at
  the later bytes.  (C03: "for any prefix of a stream the output is the output of the complete
  values in that prefix".)
-/
import Jqawk.Lemmas.DriverInvariant
import Jqawk.Lemmas.JsonPrefix

namespace Jqawk
open Jqawk.Json

def StepRes.state : StepRes → St
  | .done s => s
  | .finished _ s => s

/-- how the processing of a prefix `r1` relates to the processing of the whole stream `r2`:
    * the prefix ended the run (exit, runtime error, …): the whole stream ends the same way in the
      same state, the later bytes are never looked at;
    * the prefix was used up (the decoder wanted more bytes, or hit a fault): the state reached
      after its complete values is a state the whole run passes through — its output only
      extends the prefix's output;
    * out of fuel: nothing claimed. -/
def PrefixRel (r1 r2 : StepRes) : Prop :=
  match r1 with
  | .finished .oof _ => True
  | .finished (.jsonErr _) s' => OutExt s' r2.state
  | .done s' => OutExt s' r2.state
  | .finished o s' => r2 = .finished o s'

theorem prefixRel_same (o : Outcome) (s : St) : PrefixRel (.finished o s) (.finished o s) := by
  cases o <;> simp [PrefixRel, StepRes.state, OutExt.refl]

variable (prog : Program)

theorem goodStep_outExt {s : St} {r : StepRes} (h : GoodStep s r) : OutExt s r.state := by
  cases r with
  | done s' => exact h.1
  | finished o s' => exact h.1

theorem processFile_prefix (src : Bytes) (tbl : RuleTable) (sels : List Bytes) (f1 f2 : InputFile)
    (hn : f1.name = f2.name) (h1 : f1.tail = .more) (more : Bytes) :
    ∀ (n : Nat) (pre : Bytes) (s : St) (m : Nat), n ≤ m →
      PrefixRel (processFile prog src tbl sels f1 n pre s)
        (processFile prog src tbl sels f2 m (pre ++ more) s) := by
  intro n
  induction n with
  | zero => intro pre s m _; simp [processFile, PrefixRel]
  | succ n ih =>
    intro pre s m hm
    obtain ⟨m', rfl⟩ : ∃ m', m = m' + 1 := ⟨m - 1, by omega⟩
    have hgood := processFile_good prog src tbl sels f2 (m' + 1) (pre ++ more) s
    conv => lhs; unfold processFile
    rw [h1]
    cases hd : decodeOne numOk pre .more with
    | eof => exact goodStep_outExt hgood
    | error => exact goodStep_outExt hgood
    | needMore => exact goodStep_outExt hgood
    | value v rest =>
      have hd2 := decodeOne_prefix_value more f2.tail hd
      conv => rhs; unfold processFile
      rw [hd2, hn]
      dsimp only
      split
      · exact prefixRel_same _ _
      · exact prefixRel_same _ _
      · split
        · exact prefixRel_same _ _
        · exact prefixRel_same _ _
        · split
          · exact prefixRel_same _ _
          · exact ih _ _ _ (by omega)
          · exact prefixRel_same _ _
          · exact prefixRel_same _ _

end Jqawk
