import Jqawk.Lemmas.JsonBytesTree
import Jqawk.Lemmas.Order
/-!
  The tree that comes back from writing and re-reading (`reread`) in closed form: with valid
  UTF-8 text it is the tree with every object turned into the Go map it denotes (`canonJ`: keys
  strictly ascending, last duplicate wins); a tree whose keys are already strictly ascending is
  returned unchanged.
-/
namespace Jqawk.JsonBytes
open Jqawk Jqawk.Json

theorem cmpBytes_eq_cmp : ∀ a b : Bytes, cmpBytes a b = Bytes.cmp a b := by
  intro a
  induction a with
  | nil => intro b; cases b <;> rfl
  | cons x xs ih =>
    intro b
    cases b with
    | nil => rfl
    | cons y ys => simp only [cmpBytes, Bytes.cmp_cons, ih]

/-- keys strictly ascending -/
def SortedKeys {α : Type} (l : List (Bytes × α)) : Prop := l.Pairwise fun x y => cmpBytes x.1 y.1 = .lt

theorem insertMember_sorted {α : Type} (k : Bytes) (v : α) (l : List (Bytes × α)) (h : SortedKeys l) :
    SortedKeys (insertMember k v l) := by
  induction l with
  | nil => simp [insertMember, SortedKeys]
  | cons x xs ih =>
    obtain ⟨k', v'⟩ := x
    simp only [SortedKeys, List.pairwise_cons] at h
    obtain ⟨h1, h2⟩ := h
    simp only [insertMember]
    split
    · rename_i hlt
      simp only [SortedKeys, List.pairwise_cons]
      refine ⟨?_, h1, h2⟩
      intro y hy
      rcases List.mem_cons.1 hy with rfl | hy
      · exact hlt
      · have := h1 y hy
        rw [cmpBytes_eq_cmp] at *
        exact Bytes.cmp_lt_trans _ _ _ hlt this
    · rename_i heq
      rw [cmpBytes_eq_cmp, Bytes.cmp_eq_iff] at heq
      subst heq
      simp only [SortedKeys, List.pairwise_cons]
      exact ⟨h1, h2⟩
    · rename_i hgt
      rw [cmpBytes_eq_cmp, Bytes.cmp_gt_iff, ← cmpBytes_eq_cmp] at hgt
      simp only [SortedKeys, List.pairwise_cons]
      refine ⟨?_, ih h2⟩
      intro y hy
      rcases mem_insertMember hy with rfl | hy
      · exact hgt
      · exact h1 y hy

theorem canonMembers_sorted {α : Type} (ms : List (Bytes × α)) : SortedKeys (canonMembers ms) := by
  have : ∀ (ms sorted : List (Bytes × α)), SortedKeys sorted →
      SortedKeys (ms.foldl (fun acc kv => insertMember kv.1 kv.2 acc) sorted) := by
    intro ms
    induction ms with
    | nil => intro s h; exact h
    | cons x xs ih => intro s h; exact ih _ (insertMember_sorted _ _ _ h)
  exact this ms [] (by simp [SortedKeys])

/-- inserting a key above all present keys appends -/
theorem insertMember_append {α : Type} (k : Bytes) (v : α) (l : List (Bytes × α))
    (h : ∀ y ∈ l, cmpBytes y.1 k = .lt) : insertMember k v l = l ++ [(k, v)] := by
  induction l with
  | nil => rfl
  | cons x xs ih =>
    obtain ⟨k', v'⟩ := x
    have h1 : cmpBytes k k' = .gt := by
      have := h (k', v') (by simp)
      rw [cmpBytes_eq_cmp] at *
      exact (Bytes.cmp_gt_iff _ _).2 this
    simp only [insertMember, h1, List.cons_append]
    rw [ih fun y hy => h y (by simp [hy])]

theorem foldl_insert_sorted {α : Type} : ∀ (S P : List (Bytes × α)), SortedKeys (P ++ S) →
    S.foldl (fun acc kv => insertMember kv.1 kv.2 acc) P = P ++ S := by
  intro S
  induction S with
  | nil => intro P _; simp
  | cons x xs ih =>
    intro P h
    simp only [List.foldl_cons]
    have hx : insertMember x.1 x.2 P = P ++ [x] := by
      apply insertMember_append
      intro y hy
      simp only [SortedKeys, List.pairwise_append] at h
      exact h.2.2 y hy x (by simp)
    rw [hx, ih (P ++ [x]) (by simpa using h)]
    simp

/-- building the Go map from an already strictly ascending member list changes nothing -/
theorem canonMembers_of_sorted {α : Type} (l : List (Bytes × α)) (h : SortedKeys l) : canonMembers l = l := by
  simpa [canonMembers] using foldl_insert_sorted l [] (by simpa using h)

theorem canonMembers_idem {α : Type} (l : List (Bytes × α)) : canonMembers (canonMembers l) = canonMembers l :=
  canonMembers_of_sorted _ (canonMembers_sorted l)

mutual
/-- the tree with every object replaced by the Go map it denotes: members sorted by key
    (bytewise), of several members with the same key the last one kept -/
def canonJ : JVal → JVal
  | .null => .null
  | .bool b => .bool b
  | .num l => .num l
  | .str s => .str s
  | .arr xs => .arr (canonJList xs)
  | .obj ms => .obj (canonMembers (canonJMembers ms))
def canonJList : List JVal → List JVal
  | [] => []
  | x :: xs => canonJ x :: canonJList xs
def canonJMembers : List (Bytes × JVal) → List (Bytes × JVal)
  | [] => []
  | (k, v) :: ms => (k, canonJ v) :: canonJMembers ms
end

mutual
/-- every string value and every object key is valid UTF-8 -/
def Utf8OK : JVal → Prop
  | .str s => validUtf8 0 s = true
  | .arr xs => Utf8OKList xs
  | .obj ms => Utf8OKMembers ms
  | _ => True
def Utf8OKList : List JVal → Prop
  | [] => True
  | x :: xs => Utf8OK x ∧ Utf8OKList xs
def Utf8OKMembers : List (Bytes × JVal) → Prop
  | [] => True
  | (k, v) :: ms => validUtf8 0 k = true ∧ Utf8OK v ∧ Utf8OKMembers ms
end

mutual
/-- object keys strictly ascending at every level (true of every tree the decoder builds:
    `decodeOne_sorted` in Lemmas/JsonBytesSorted.lean) -/
def SortedJ : JVal → Prop
  | .arr xs => SortedJList xs
  | .obj ms => SortedKeys ms ∧ SortedJMembers ms
  | _ => True
def SortedJList : List JVal → Prop
  | [] => True
  | x :: xs => SortedJ x ∧ SortedJList xs
def SortedJMembers : List (Bytes × JVal) → Prop
  | [] => True
  | (_, v) :: ms => SortedJ v ∧ SortedJMembers ms
end

theorem canonJMembers_keys (ms : List (Bytes × JVal)) : (canonJMembers ms).map (·.1) = ms.map (·.1) := by
  induction ms with
  | nil => rfl
  | cons kv ms ih => obtain ⟨k, v⟩ := kv; simp [canonJMembers, ih]

theorem utf8_keys {ms : List (Bytes × JVal)} (h : Utf8OKMembers ms) : ∀ kv ∈ ms, validUtf8 0 kv.1 = true := by
  induction ms with
  | nil => intro kv hkv; cases hkv
  | cons x xs ih =>
    obtain ⟨k, v⟩ := x
    intro kv hkv
    rcases List.mem_cons.1 hkv with rfl | hkv
    · exact h.1
    · exact ih h.2.2 kv hkv

theorem reinsert_valid (l : List (Bytes × JVal)) (h : ∀ kv ∈ l, validUtf8 0 kv.1 = true) :
    reinsert l = canonMembers l := by
  have : ∀ (l acc : List (Bytes × JVal)), (∀ kv ∈ l, validUtf8 0 kv.1 = true) →
      l.foldl (fun acc kv => insertMember (sanitize kv.1) kv.2 acc) acc
        = l.foldl (fun acc kv => insertMember kv.1 kv.2 acc) acc := by
    intro l
    induction l with
    | nil => intro acc _; rfl
    | cons x xs ih =>
      intro acc h
      simp only [List.foldl_cons]
      rw [sanitize_valid x.1 (h x (by simp)), ih _ fun kv hkv => h kv (by simp [hkv])]
  exact this l [] h

mutual
theorem reread_eq_canonJ : ∀ (j : JVal), Utf8OK j → reread j = canonJ j
  | .null, _ => rfl
  | .bool _, _ => rfl
  | .num _, _ => rfl
  | .str s, h => by simp only [reread, canonJ]; rw [sanitize_valid s h]
  | .arr xs, h => by simp only [reread, canonJ]; rw [rereadList_eq_canonJ xs h]
  | .obj ms, h => by
    simp only [reread, canonJ]
    rw [rereadMembers_eq_canonJ ms h, reinsert_valid, canonMembers_idem]
    intro kv hkv
    have hk : kv.1 ∈ (canonJMembers ms).map (·.1) := List.mem_map.2 ⟨kv, mem_canonMembers hkv, rfl⟩
    rw [canonJMembers_keys] at hk
    obtain ⟨kv', hkv', e⟩ := List.mem_map.1 hk
    rw [← e]
    exact utf8_keys h kv' hkv'
theorem rereadList_eq_canonJ : ∀ (xs : List JVal), Utf8OKList xs → rereadList xs = canonJList xs
  | [], _ => rfl
  | x :: xs, h => by simp only [rereadList, canonJList]; rw [reread_eq_canonJ x h.1, rereadList_eq_canonJ xs h.2]
theorem rereadMembers_eq_canonJ : ∀ (ms : List (Bytes × JVal)), Utf8OKMembers ms →
    rereadMembers ms = canonJMembers ms
  | [], _ => rfl
  | (k, v) :: ms, h => by
    simp only [rereadMembers, canonJMembers]; rw [reread_eq_canonJ v h.2.1, rereadMembers_eq_canonJ ms h.2.2]
end

mutual
theorem canonJ_of_sorted : ∀ (j : JVal), SortedJ j → canonJ j = j
  | .null, _ => rfl
  | .bool _, _ => rfl
  | .num _, _ => rfl
  | .str _, _ => rfl
  | .arr xs, h => by simp only [canonJ]; rw [canonJList_of_sorted xs h]
  | .obj ms, h => by
    simp only [canonJ]; rw [canonJMembers_of_sorted ms h.2, canonMembers_of_sorted ms h.1]
theorem canonJList_of_sorted : ∀ (xs : List JVal), SortedJList xs → canonJList xs = xs
  | [], _ => rfl
  | x :: xs, h => by simp only [canonJList]; rw [canonJ_of_sorted x h.1, canonJList_of_sorted xs h.2]
theorem canonJMembers_of_sorted : ∀ (ms : List (Bytes × JVal)), SortedJMembers ms → canonJMembers ms = ms
  | [], _ => rfl
  | (k, v) :: ms, h => by
    simp only [canonJMembers]; rw [canonJ_of_sorted v h.1, canonJMembers_of_sorted ms h.2]
end

end Jqawk.JsonBytes
