import Jqawk.Model.Json
/-! Prefix stability of `decodeOne` (checked proof; shows the definitions are friendly to it). -/
namespace Jqawk.Json

theorem run_more_value {f : Bytes → Bool} {v : JVal} {rest : Bytes} (m : Bytes) (t : Tail) :
    ∀ (pre : Bytes) (s : St), run f s pre .more = .value v rest → run f s (pre ++ m) t = .value v (rest ++ m)
  | [], s, h => by simp [run] at h
  | c :: cs, s, h => by
    simp only [run, List.cons_append] at h ⊢
    cases hs : step f s c with
    | cont s' => rw [hs] at h; exact run_more_value m t cs s' h
    | err => rw [hs] at h; simp at h
    | done w bad consumed =>
      rw [hs] at h
      cases bad <;> cases consumed <;> simp at h <;> obtain ⟨rfl, rfl⟩ := h <;> simp

theorem run_more_error {f : Bytes → Bool} (m : Bytes) (t : Tail) :
    ∀ (pre : Bytes) (s : St), run f s pre .more = .error → run f s (pre ++ m) t = .error
  | [], s, h => by simp [run] at h
  | c :: cs, s, h => by
    simp only [run, List.cons_append] at h ⊢
    cases hs : step f s c with
    | cont s' => rw [hs] at h; exact run_more_error m t cs s' h
    | err => rfl
    | done w bad consumed => rw [hs] at h; cases bad <;> simp_all

theorem dropWhile_append_of_ne_nil {p : UInt8 → Bool} {a : Bytes} (b : Bytes) (h : a.dropWhile p ≠ []) :
    (a ++ b).dropWhile p = a.dropWhile p ++ b := by
  induction a with
  | nil => simp at h
  | cons x xs ih =>
    simp only [List.cons_append, List.dropWhile_cons] at h ⊢
    split <;> simp_all

theorem decodeOne_eq_run {f : Bytes → Bool} {inp : Bytes} {t : Tail} (h : inp.dropWhile isSpace ≠ []) :
    decodeOne f inp t = run f St.init (inp.dropWhile isSpace) t := by
  unfold decodeOne; split <;> simp_all

theorem dropWhile_ne_nil_of_more {f : Bytes → Bool} {pre : Bytes} (h : decodeOne f pre .more ≠ .needMore) :
    pre.dropWhile isSpace ≠ [] := by
  intro h0; apply h; unfold decodeOne; rw [h0]

/-- If `Decode` succeeds on a prefix without asking for more data, it gives the same value on every extension. -/
theorem decodeOne_prefix_value {f : Bytes → Bool} {pre rest : Bytes} {v : JVal} (m : Bytes) (t : Tail)
    (h : decodeOne f pre .more = .value v rest) : decodeOne f (pre ++ m) t = .value v (rest ++ m) := by
  have hne := dropWhile_ne_nil_of_more (f := f) (pre := pre) (by rw [h]; intro h'; cases h')
  have hne' : (pre ++ m).dropWhile isSpace ≠ [] := by
    rw [dropWhile_append_of_ne_nil m hne]; simp [hne]
  rw [decodeOne_eq_run hne] at h
  rw [decodeOne_eq_run hne', dropWhile_append_of_ne_nil m hne]
  exact run_more_value m t _ _ h

/-- The same for errors. -/
theorem decodeOne_prefix_error {f : Bytes → Bool} {pre : Bytes} (m : Bytes) (t : Tail)
    (h : decodeOne f pre .more = .error) : decodeOne f (pre ++ m) t = .error := by
  have hne := dropWhile_ne_nil_of_more (f := f) (pre := pre) (by rw [h]; intro h'; cases h')
  have hne' : (pre ++ m).dropWhile isSpace ≠ [] := by
    rw [dropWhile_append_of_ne_nil m hne]; simp [hne]
  rw [decodeOne_eq_run hne] at h
  rw [decodeOne_eq_run hne', dropWhile_append_of_ne_nil m hne]
  exact run_more_error m t _ _ h

end Jqawk.Json

#print axioms Jqawk.Json.decodeOne_prefix_value
#print axioms Jqawk.Json.decodeOne_prefix_error
