/-
  Renaming of cell ids (C14, `-r E` ≡ `BEGINFILE { $ = E }`), part 1: contexts, renaming of
  values, the relation between two heaps.

  Two runs of the evaluator are compared whose heaps differ by an injective renaming `σ` of the
  *cell* ids of the second run (run B) into those of the first (run A); array and object ids are
  the same in both runs (the extra cells of run A — the builtins of the nested evaluator, the
  root cell of the selector — are cells only).  From the id `m` on, `σ` is the shift by `d`, so
  cells allocated in lock step correspond automatically.  `D` singles out the cells of run B that
  take part in the relation (everything from `m` on; below `m` it leaves out what the evaluation
  cannot reach: the main program's cells while the selector runs, the detached `$` of ENDFILE
  rules); related values only mention cells of `D` that are allocated ("world" `w` = number of
  cells of run B).
-/
import Jqawk.Model.Driver
import Jqawk.Lemmas.Heap

set_option linter.unusedVariables false

namespace Jqawk
namespace Sel

structure Ctx where
  σ : Nat → Nat
  D : Nat → Prop
  a0 : Nat
  o0 : Nat
  m : Nat
  d : Nat
  progA : Program
  progB : Program
  /-- the cells of run B below `fz` outside `D`, the cells of run A below `fzA` that no cell of `D`
      corresponds to, and the arrays / objects below `a0` / `o0` are never touched: they stay as
      in these snapshots -/
  fz : Nat := 0
  fzA : Nat := 0
  snapA : Heap := Heap.empty
  snapB : Heap := Heap.empty

/-! ### renaming of values -/

def renSpec (σ : Nat → Nat) : Option SpecRef → Option SpecRef
  | none => none
  | some r => some ⟨σ r.parent, r.key⟩

def renV (σ : Nat → Nat) : Val → Val
  | .str s sp => .str s (renSpec σ sp)
  | .nil sp => .nil (renSpec σ sp)
  | .native f b sp => .native f (b.map σ) (renSpec σ sp)
  | .bool b => .bool b
  | .num x => .num x
  | .arr a => .arr a
  | .obj o => .obj o
  | .fn i => .fn i
  | .regex s => .regex s
  | .unknown => .unknown

def renM (σ : Nat → Nat) (m : List (Bytes × CellId)) : List (Bytes × CellId) :=
  m.map fun kc => (kc.1, σ kc.2)

variable {σ : Nat → Nat}

@[simp] theorem renSpec_none : renSpec σ none = none := rfl
@[simp] theorem renSpec_some (r : SpecRef) : renSpec σ (some r) = some ⟨σ r.parent, r.key⟩ := rfl

@[simp] theorem renV_str (s : Bytes) (sp : Option SpecRef) : renV σ (.str s sp) = .str s (renSpec σ sp) := rfl
@[simp] theorem renV_nil (sp : Option SpecRef) : renV σ (.nil sp) = .nil (renSpec σ sp) := rfl
@[simp] theorem renV_native (f : Native) (b : Option CellId) (sp : Option SpecRef) :
    renV σ (.native f b sp) = .native f (b.map σ) (renSpec σ sp) := rfl
@[simp] theorem renV_bool (b : Bool) : renV σ (.bool b) = .bool b := rfl
@[simp] theorem renV_num (x : F64) : renV σ (.num x) = .num x := rfl
@[simp] theorem renV_arr (a : ArrId) : renV σ (.arr a) = .arr a := rfl
@[simp] theorem renV_obj (o : ObjId) : renV σ (.obj o) = .obj o := rfl
@[simp] theorem renV_fn (i : Nat) : renV σ (.fn i) = .fn i := rfl
@[simp] theorem renV_regex (s : Bytes) : renV σ (.regex s) = .regex s := rfl
@[simp] theorem renV_unknown : renV σ .unknown = .unknown := rfl

@[simp] theorem kind_renV (v : Val) : (renV σ v).kind = v.kind := by cases v <;> rfl
@[simp] theorem truthy_renV (v : Val) : (renV σ v).truthy = v.truthy := by cases v <;> rfl
@[simp] theorem asNum_renV (v : Val) : (renV σ v).asNum = v.asNum := by cases v <;> rfl
@[simp] theorem str_renV (v : Val) : (renV σ v).str! = v.str! := by cases v <;> rfl
@[simp] theorem tagName_renV (v : Val) : (renV σ v).tagName = v.tagName := by cases v <;> rfl
@[simp] theorem cont_renV (v : Val) : (renV σ v).cont? = v.cont? := by cases v <;> rfl

@[simp] theorem copyVal_renV (v : Val) : copyVal (renV σ v) = copyVal v := by cases v <;> rfl

theorem compare_renV (a b : Val) : (renV σ a).compare (renV σ b) = a.compare b := by
  cases a <;> cases b <;> rfl

theorem binaryOp_renV (op : Tag) (l r : Val) : binaryOp op (renV σ l) (renV σ r) = binaryOp op l r := by
  unfold binaryOp
  simp only [kind_renV, compare_renV, str_renV, asNum_renV]
  cases r <;> rfl

theorem isType_renV (v : Val) (t : Token) : isType (renV σ v) t = isType v t := by
  unfold isType
  simp only [kind_renV]

/-- a value without references to cells is its own renaming -/
def Val.plain : Val → Prop
  | .str _ sp => sp = none
  | .nil sp => sp = none
  | .native _ b sp => b = none ∧ sp = none
  | _ => True

theorem renV_plain {v : Val} (h : Val.plain v) : renV σ v = v := by
  cases v <;> simp_all [Val.plain, renV]

theorem copyVal_plain {v w : Val} (h : copyVal v = .ok w) : Val.plain w := by
  cases v <;> simp [copyVal] at h <;> subst h <;> simp [Val.plain]

/-! ### liveness: which cells a value of run B may mention -/

variable (C : Ctx)

def LiveC (w : Nat) (c : CellId) : Prop := C.D c ∧ c < w

def SpecLive (w : Nat) : Option SpecRef → Prop
  | none => True
  | some r => LiveC C w r.parent

def OptLive (w : Nat) : Option CellId → Prop
  | none => True
  | some c => LiveC C w c

def LiveV (w : Nat) : Val → Prop
  | .str _ sp => SpecLive C w sp
  | .nil sp => SpecLive C w sp
  | .native _ b sp => OptLive C w b ∧ SpecLive C w sp
  | .arr a => C.a0 ≤ a
  | .obj o => C.o0 ≤ o
  | .fn i => C.progA.functions[i]? = C.progB.functions[i]?
  | _ => True

def LiveL (w : Nat) (cs : List CellId) : Prop := ∀ c ∈ cs, LiveC C w c
def LiveM (w : Nat) (m : List (Bytes × CellId)) : Prop := ∀ kc ∈ m, LiveC C w kc.2

variable {C}

theorem LiveC.mono {w w' : Nat} {c : CellId} (h : LiveC C w c) (hw : w ≤ w') : LiveC C w' c :=
  ⟨h.1, Nat.lt_of_lt_of_le h.2 hw⟩

theorem SpecLive.mono {w w' : Nat} {sp : Option SpecRef} (h : SpecLive C w sp) (hw : w ≤ w') :
    SpecLive C w' sp := by
  cases sp with
  | none => trivial
  | some r => exact LiveC.mono h hw

theorem OptLive.mono {w w' : Nat} {sp : Option CellId} (h : OptLive C w sp) (hw : w ≤ w') :
    OptLive C w' sp := by
  cases sp with
  | none => trivial
  | some r => exact LiveC.mono h hw

theorem LiveV.mono {w w' : Nat} {v : Val} (h : LiveV C w v) (hw : w ≤ w') : LiveV C w' v := by
  cases v with
  | str s sp => exact SpecLive.mono h hw
  | nil sp => exact SpecLive.mono h hw
  | native f b sp => exact ⟨OptLive.mono h.1 hw, SpecLive.mono h.2 hw⟩
  | _ => exact h

theorem LiveL.mono {w w' : Nat} {cs : List CellId} (h : LiveL C w cs) (hw : w ≤ w') : LiveL C w' cs :=
  fun c hc => (h c hc).mono hw

theorem LiveM.mono {w w' : Nat} {m : List (Bytes × CellId)} (h : LiveM C w m) (hw : w ≤ w') :
    LiveM C w' m :=
  fun c hc => (h c hc).mono hw

theorem LiveV.plain {w : Nat} {v : Val} (h : Val.plain v) (ha : ∀ a, v = .arr a → C.a0 ≤ a)
    (ho : ∀ o, v = .obj o → C.o0 ≤ o)
    (hf : ∀ i, v = .fn i → C.progA.functions[i]? = C.progB.functions[i]?) : LiveV C w v := by
  cases v with
  | str s sp => simp only [Val.plain] at h; subst h; trivial
  | nil sp => simp only [Val.plain] at h; subst h; trivial
  | native f b sp => simp only [Val.plain] at h; obtain ⟨rfl, rfl⟩ := h; exact ⟨trivial, trivial⟩
  | arr a => exact ha a rfl
  | obj o => exact ho o rfl
  | fn i => exact hf i rfl
  | _ => trivial

theorem copyVal_live {w : Nat} {v x : Val} (h : copyVal v = .ok x) (hv : LiveV C w v) : LiveV C w x := by
  cases v <;> simp [copyVal] at h <;> subst h <;> first | trivial | exact hv

/-! ### the relations on values of the two runs -/

variable (C)

def CellR (w : Nat) (a b : CellId) : Prop := a = C.σ b ∧ LiveC C w b
def ValR (w : Nat) (a b : Val) : Prop := a = renV C.σ b ∧ LiveV C w b
def OptCellR (w : Nat) : Option CellId → Option CellId → Prop
  | none, none => True
  | some a, some b => CellR C w a b
  | _, _ => False
def ListCellR (w : Nat) (as bs : List CellId) : Prop := as = bs.map C.σ ∧ LiveL C w bs
def MemR (w : Nat) (as bs : List (Bytes × CellId)) : Prop := as = renM C.σ bs ∧ LiveM C w bs
def ListValR (w : Nat) (as bs : List Val) : Prop := as = bs.map (renV C.σ) ∧ ∀ v ∈ bs, LiveV C w v
def OptValR (w : Nat) : Option Val → Option Val → Prop
  | none, none => True
  | some a, some b => ValR C w a b
  | _, _ => False
def EqR {α : Type} (_ : Nat) (a b : α) : Prop := a = b

variable {C}

theorem CellR.mono {w w' : Nat} {a b : CellId} (h : CellR C w a b) (hw : w ≤ w') : CellR C w' a b :=
  ⟨h.1, h.2.mono hw⟩
theorem ValR.mono {w w' : Nat} {a b : Val} (h : ValR C w a b) (hw : w ≤ w') : ValR C w' a b :=
  ⟨h.1, h.2.mono hw⟩
theorem OptCellR.mono {w w' : Nat} {a b : Option CellId} (h : OptCellR C w a b) (hw : w ≤ w') :
    OptCellR C w' a b := by
  cases a <;> cases b <;> first | exact h | exact CellR.mono h hw
theorem ListCellR.mono {w w' : Nat} {a b : List CellId} (h : ListCellR C w a b) (hw : w ≤ w') :
    ListCellR C w' a b := ⟨h.1, h.2.mono hw⟩
theorem MemR.mono {w w' : Nat} {a b : List (Bytes × CellId)} (h : MemR C w a b) (hw : w ≤ w') :
    MemR C w' a b := ⟨h.1, h.2.mono hw⟩
theorem ListValR.mono {w w' : Nat} {a b : List Val} (h : ListValR C w a b) (hw : w ≤ w') :
    ListValR C w' a b := ⟨h.1, fun v hv => (h.2 v hv).mono hw⟩
theorem OptValR.mono {w w' : Nat} {a b : Option Val} (h : OptValR C w a b) (hw : w ≤ w') :
    OptValR C w' a b := by
  cases a <;> cases b <;> first | exact h | exact ValR.mono h hw

theorem ValR.kind {w : Nat} {a b : Val} (h : ValR C w a b) : a.kind = b.kind := by rw [h.1, kind_renV]
theorem ValR.truthy {w : Nat} {a b : Val} (h : ValR C w a b) : a.truthy = b.truthy := by
  rw [h.1, truthy_renV]
theorem ValR.asNum {w : Nat} {a b : Val} (h : ValR C w a b) : a.asNum = b.asNum := by
  rw [h.1, asNum_renV]
theorem ValR.str {w : Nat} {a b : Val} (h : ValR C w a b) : a.str! = b.str! := by rw [h.1, str_renV]

theorem ValR.of_plain {w : Nat} {v : Val} (h : Val.plain v) (hl : LiveV C w v) : ValR C w v v :=
  ⟨(renV_plain h).symm, hl⟩

theorem ValR.bool (w : Nat) (b : Bool) : ValR C w (.bool b) (.bool b) := ⟨rfl, trivial⟩
theorem ValR.num (w : Nat) (x : F64) : ValR C w (.num x) (.num x) := ⟨rfl, trivial⟩
theorem ValR.strNone (w : Nat) (s : Bytes) : ValR C w (.str s none) (.str s none) := ⟨rfl, trivial⟩
theorem ValR.nilNone (w : Nat) : ValR C w (.nil none) (.nil none) := ⟨rfl, trivial⟩
theorem ValR.regex (w : Nat) (s : Bytes) : ValR C w (.regex s) (.regex s) := ⟨rfl, trivial⟩
theorem ValR.unknown (w : Nat) : ValR C w .unknown .unknown := ⟨rfl, trivial⟩

theorem ListCellR.nil (w : Nat) : ListCellR C w [] [] := ⟨rfl, fun _ h => by cases h⟩
theorem ListCellR.cons {w : Nat} {a b : CellId} {as bs : List CellId} (h : CellR C w a b)
    (ht : ListCellR C w as bs) : ListCellR C w (a :: as) (b :: bs) := by
  refine ⟨by rw [h.1, ht.1]; rfl, ?_⟩
  intro c hc
  rcases List.mem_cons.mp hc with e | e
  · subst e; exact h.2
  · exact ht.2 c e

theorem MemR.nil (w : Nat) : MemR C w [] [] := ⟨rfl, fun _ h => by cases h⟩

theorem ListValR.nil (w : Nat) : ListValR C w [] [] := ⟨rfl, fun _ h => by cases h⟩
theorem ListValR.cons {w : Nat} {a b : Val} {as bs : List Val} (h : ValR C w a b)
    (ht : ListValR C w as bs) : ListValR C w (a :: as) (b :: bs) := by
  refine ⟨by rw [h.1, ht.1]; rfl, ?_⟩
  intro c hc
  rcases List.mem_cons.mp hc with e | e
  · subst e; exact h.2
  · exact ht.2 c e

theorem ListValR.getD {w : Nat} {as bs : List Val} (h : ListValR C w as bs) (i : Nat) :
    ValR C w (as.getD i .unknown) (bs.getD i .unknown) := by
  obtain ⟨rfl, hl⟩ := h
  simp only [List.getD_eq_getElem?_getD, List.getElem?_map]
  cases hb : bs[i]? with
  | none => exact ValR.unknown w
  | some v => exact ⟨rfl, hl v (List.mem_of_getElem? hb)⟩

theorem ListValR.length {w : Nat} {as bs : List Val} (h : ListValR C w as bs) : as.length = bs.length := by
  rw [h.1, List.length_map]

/-! ### objLookup / objInsert under renaming -/

theorem objLookup_renM (m : List (Bytes × CellId)) (k : Bytes) :
    objLookup (renM σ m) k = (objLookup m k).map σ := by
  induction m with
  | nil => rfl
  | cons x rest ih =>
    obtain ⟨k0, c0⟩ := x
    simp only [renM, List.map_cons, objLookup] at ih ⊢
    split
    · rfl
    · exact ih

theorem objInsert_renM (m : List (Bytes × CellId)) (k : Bytes) (c : CellId) :
    objInsert (renM σ m) k (σ c) = renM σ (objInsert m k c) := by
  induction m with
  | nil => rfl
  | cons x rest ih =>
    obtain ⟨k0, c0⟩ := x
    simp only [renM, List.map_cons, objInsert] at ih ⊢
    split
    · rfl
    · simp only [List.map_cons, ih]

theorem LiveM.objInsert {w : Nat} {m : List (Bytes × CellId)} (hm : LiveM C w m) (k : Bytes) {c : CellId}
    (hc : LiveC C w c) : LiveM C w (objInsert m k c) := by
  induction m with
  | nil => intro kc h; simp [Jqawk.objInsert] at h; subst h; exact hc
  | cons x rest ih =>
    obtain ⟨k0, c0⟩ := x
    unfold Jqawk.objInsert
    split
    · intro kc h
      rcases List.mem_cons.mp h with h | h
      · subst h; exact hc
      · exact hm kc (List.mem_cons_of_mem _ h)
    · intro kc h
      rcases List.mem_cons.mp h with h | h
      · subst h; exact hm _ (List.mem_cons_self ..)
      · exact ih (fun x hx => hm x (List.mem_cons_of_mem _ hx)) kc h

theorem LiveM.lookup {w : Nat} {m : List (Bytes × CellId)} (hm : LiveM C w m) {k : Bytes} {c : CellId}
    (h : objLookup m k = some c) : LiveC C w c := by
  induction m with
  | nil => cases h
  | cons x rest ih =>
    obtain ⟨k0, c0⟩ := x
    unfold objLookup at h
    split at h
    · cases h; exact hm (k0, c) (List.mem_cons_self ..)
    · exact ih (fun y hy => hm y (List.mem_cons_of_mem _ hy)) h

theorem MemR.objInsert {w : Nat} {as bs : List (Bytes × CellId)} (h : MemR C w as bs) (k : Bytes)
    {a b : CellId} (hc : CellR C w a b) : MemR C w (objInsert as k a) (objInsert bs k b) := by
  obtain ⟨rfl, hl⟩ := h
  obtain ⟨rfl, hb⟩ := hc
  exact ⟨objInsert_renM bs k b, hl.objInsert k hb⟩

theorem MemR.lookup {w : Nat} {as bs : List (Bytes × CellId)} (h : MemR C w as bs) (k : Bytes) :
    OptCellR C w (objLookup as k) (objLookup bs k) := by
  obtain ⟨rfl, hl⟩ := h
  rw [objLookup_renM]
  cases hb : objLookup bs k with
  | none => trivial
  | some c => exact ⟨rfl, hl.lookup hb⟩

theorem insertByKey_renM (kv : Bytes × CellId) (m : List (Bytes × CellId)) :
    insertByKey (kv.1, σ kv.2) (renM σ m) = renM σ (insertByKey kv m) := by
  induction m with
  | nil => rfl
  | cons x rest ih =>
    simp only [renM, List.map_cons, insertByKey] at ih ⊢
    split
    · rfl
    · simp only [List.map_cons, ih]

theorem sortByKey_renM (m : List (Bytes × CellId)) : sortByKey (renM σ m) = renM σ (sortByKey m) := by
  induction m with
  | nil => rfl
  | cons x rest ih =>
    show insertByKey (x.1, σ x.2) (sortByKey (renM σ rest)) = _
    rw [ih, insertByKey_renM]
    rfl

theorem mem_insertByKey {kv x : Bytes × CellId} {m : List (Bytes × CellId)} (h : x ∈ insertByKey kv m) :
    x = kv ∨ x ∈ m := by
  induction m with
  | nil => simp [insertByKey] at h; exact .inl h
  | cons y rest ih =>
    unfold insertByKey at h
    split at h
    · rcases List.mem_cons.mp h with h | h
      · exact .inl h
      · exact .inr h
    · rcases List.mem_cons.mp h with h | h
      · exact .inr (h ▸ List.mem_cons_self ..)
      · rcases ih h with h | h
        · exact .inl h
        · exact .inr (List.mem_cons_of_mem _ h)

theorem mem_sortByKey' {x : Bytes × CellId} {m : List (Bytes × CellId)} (h : x ∈ sortByKey m) : x ∈ m := by
  induction m with
  | nil => exact h
  | cons y rest ih =>
    unfold sortByKey at h
    rcases mem_insertByKey h with h | h
    · exact h ▸ List.mem_cons_self ..
    · exact List.mem_cons_of_mem _ (ih h)

theorem LiveM.sortByKey {w : Nat} {m : List (Bytes × CellId)} (h : LiveM C w m) : LiveM C w (sortByKey m) :=
  fun kc hkc => h kc (mem_sortByKey' hkc)

end Sel
end Jqawk
