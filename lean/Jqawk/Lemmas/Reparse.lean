/-
  The Go JSON decoder model (`Json.decodeOne`) reads back the rendering of a flat array of
  booleans and nulls (fragment of C17 "the rendering of a container is JSON equal to the value").
-/
import Jqawk.Model.Render

namespace Jqawk
namespace Reparse
open Json

/-- an element of the fragment: `some b` = boolean, `none` = null -/
abbrev Elem := Option Bool

def word : Elem → Bytes
  | some true => b!"true"
  | some false => b!"false"
  | none => b!"null"

def tree : Elem → JVal
  | some b => .bool b
  | none => .null

/-- scanner state inside the top-level array -/
def inArr (st : Step) (acc : List JVal) : Json.St :=
  { step := st, stack := [.arr acc], depth := 1, lit := [], bad := false }

theorem run_word (numOk : Bytes → Bool) (st : Step) (hst : st = .beginValue ∨ st = .beginValueOrEmpty)
    (acc : List JVal) (e : Elem) (rest : Bytes) (t : Tail) :
    run numOk (inArr st acc) (word e ++ rest) t = run numOk (inArr .endValue (tree e :: acc)) rest t := by
  rcases hst with rfl | rfl <;> rcases e with _ | _ | _ <;> rfl

theorem run_close (numOk : Bytes → Bool) (acc : List JVal) :
    run numOk (inArr .endValue acc) [93] .eof = .value (.arr acc.reverse) [] := by rfl

theorem run_comma (numOk : Bytes → Bool) (acc : List JVal) (rest : Bytes) (t : Tail) :
    run numOk (inArr .endValue acc) (44 :: 32 :: rest) t = run numOk (inArr .beginValue acc) rest t := by
  rfl

theorem run_words (numOk : Bytes → Bool) : ∀ (es : List Elem) (e : Elem) (st : Step)
    (_ : st = .beginValue ∨ st = .beginValueOrEmpty) (acc : List JVal),
    run numOk (inArr st acc) (joinSep b!", " ((e :: es).map word) ++ [93]) .eof
      = .value (.arr (acc.reverse ++ (e :: es).map tree)) [] := by
  intro es
  induction es with
  | nil =>
    intro e st hst acc
    simp only [List.map_cons, List.map_nil, joinSep]
    rw [run_word numOk st hst, run_close]
    simp
  | cons e' es ih =>
    intro e st hst acc
    have : joinSep b!", " ((e :: e' :: es).map word) ++ [93]
        = word e ++ (44 :: 32 :: (joinSep b!", " ((e' :: es).map word) ++ [93])) := by
      simp [joinSep, List.append_assoc]
    rw [this, run_word numOk st hst, run_comma, ih e' .beginValue (Or.inl rfl)]
    simp

/-- the decoder reads `[w1, w2, …]` as the array of the corresponding trees, consuming everything -/
theorem decode_flat (numOk : Bytes → Bool) (es : List Elem) :
    decodeOne numOk ([91] ++ joinSep b!", " (es.map word) ++ [93]) .eof
      = .value (.arr (es.map tree)) [] := by
  cases es with
  | nil => rfl
  | cons e es =>
    have h1 : decodeOne numOk ([91] ++ joinSep b!", " ((e :: es).map word) ++ [93]) .eof
        = run numOk (inArr .beginValueOrEmpty []) (joinSep b!", " ((e :: es).map word) ++ [93]) .eof := by
      rfl
    rw [h1, run_words numOk es e _ (Or.inr rfl)]
    simp

end Reparse
end Jqawk
