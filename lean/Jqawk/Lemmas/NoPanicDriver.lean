/-
  Panic freedom (C01), part 5: the rule driver and the whole run.

  * `newEvaluator` establishes the invariant (every `.fn i` it creates has `i` in range);
  * the rule loops bind `$` (`ruleRoot`) before any rule code runs, so `print` without arguments
    always finds it;
  * a selector runs a nested evaluator with `Program.empty` on the shared heap: its region is
    "everything allocated since it started" (fresh builtins, a fresh conversion of the JSON
    value), which contains no function value, so `callFunction` never sees a dangling one;
  * hence no run of a well-formed program reports `Outcome.panic`.
-/
import Jqawk.Lemmas.NoPanicAll
import Jqawk.Model.Driver

set_option linter.unusedVariables false

namespace Jqawk

variable {P : Region} {K : Option CellId → Prop}

theorem InvK.monoK {K K' : Option CellId → Prop} (hK : ∀ r, K r → K' r) {s : St} (h : InvK P K s) :
    InvK P K' s := ⟨h.toInv0, hK _ h.rr⟩

theorem NPres.monoK {K K' : Option CellId → Prop} (hK : ∀ r, K r → K' r) {α : Type} {R : α → Prop}
    {r : Res α} (h : NPres P K R r) : NPres P K' R r := by
  cases r with
  | ok a s' => exact ⟨h.1.monoK hK, h.2⟩
  | err e s' =>
    cases e with
    | runtime p m => exact InvK.monoK hK h
    | sig g => exact InvK.monoK hK h
    | panic m => exact h
    | unmodelled w => exact InvK.monoK hK h
  | oof => trivial

/-- `K` holds of every state in which `$` is bound inside the region -/
def KSup (P : Region) (K : Option CellId → Prop) : Prop := ∀ r, KSet P r → K r

theorem KSup.any : KSup P KAny := fun _ _ => trivial
theorem KSup.set : KSup P (KSet P) := fun _ h => h

namespace NP

/-- bind `$`, then run code that needs it -/
theorem enter (hK : KSup P K) {c : CellId} (hc : P.N ≤ c) {β : Type} {k : EM β} {R : β → Prop}
    (hk : NP P (KSet P) k R) :
    NP P K (Jqawk.modifySt (fun s => { s with ruleRoot := some c }) >>= fun _ => k) R := by
  intro s hs
  exact NPres.monoK hK (hk { s with ruleRoot := some c }
    ⟨⟨hs.heap, hs.frames, hs.ret⟩, ⟨c, rfl, hc⟩⟩)

/-- the same for the selector's evaluator, which also records the value as `root` -/
theorem enter2 (hK : KSup P K) {c : CellId} (hc : P.N ≤ c) {β : Type} {k : EM β} {R : β → Prop}
    (hk : NP P (KSet P) k R) :
    NP P K (Jqawk.modifySt (fun st => { st with root := some c, ruleRoot := some c }) >>= fun _ => k) R := by
  intro s hs
  exact NPres.monoK hK (hk { s with root := some c, ruleRoot := some c }
    ⟨⟨hs.heap, hs.frames, hs.ret⟩, ⟨c, rfl, hc⟩⟩)

theorem setRoot (c : Option CellId) : NP P K (Jqawk.modifySt fun s => { s with root := c }) Tr :=
  fun s hs => ⟨⟨⟨hs.heap, hs.frames, hs.ret⟩, hs.rr⟩, trivial⟩

theorem ruleFlow {m : EM Unit} (hm : NP P K m Tr) : NP P K (Jqawk.ruleFlow m) Tr := by
  intro s hs
  unfold NPat Jqawk.ruleFlow
  have h := hm s hs
  unfold NPat at h
  cases hr : m s with
  | ok a s1 => rw [hr] at h; exact ⟨h.1, trivial⟩
  | err e s1 =>
    rw [hr] at h
    cases e with
    | sig g => cases g <;> first | exact h | exact ⟨h, trivial⟩
    | runtime p m => exact h
    | panic m => exact h
    | unmodelled m => exact h
  | oof => trivial

theorem catchExit {m : EM Unit} (hm : NP P K m Tr) : NP P K (Jqawk.catchExit m) Tr := by
  intro s hs
  unfold NPat Jqawk.catchExit
  have h := hm s hs
  unfold NPat at h
  cases hr : m s with
  | ok a s1 => rw [hr] at h; exact ⟨h.1, trivial⟩
  | err e s1 =>
    rw [hr] at h
    cases e with
    | sig g => cases g <;> first | exact h | exact ⟨h, trivial⟩
    | runtime p m => exact h
    | panic m => exact h
    | unmodelled m => exact h
  | oof => trivial

end NP

/-! ### converting decoded JSON -/

mutual
theorem NP.newValueJson : ∀ j, NP P K (Jqawk.newValueJson j) (GoodV P)
  | .null => by unfold Jqawk.newValueJson; exact NP.pure trivial
  | .bool b => by unfold Jqawk.newValueJson; exact NP.pure trivial
  | .num lit => by unfold Jqawk.newValueJson; exact NP.pure trivial
  | .str s => by unfold Jqawk.newValueJson; exact NP.pure trivial
  | .arr items => by
    unfold Jqawk.newValueJson
    exact NP.bind (NP.newValueItems items) (fun cells hc =>
      NP.bind (NP.allocArrM (by simpa using hc)) (fun a ha => NP.pure ha))
  | .obj members => by
    unfold Jqawk.newValueJson
    exact NP.bind (NP.newValueMembers members) (fun cells hc =>
      NP.bind (NP.allocObjM (RegM.foldInsert hc RegM.nil)) (fun o ho => NP.pure ho))
theorem NP.newValueItems : ∀ js, NP P K (Jqawk.newValueItems js) (RegL P)
  | [] => by unfold Jqawk.newValueItems; exact NP.pure RegL.nil
  | j :: js => by
    unfold Jqawk.newValueItems
    refine NP.bind (NP.newValueJson j) (fun v hv => NP.bind (NP.newCell hv) (fun c hc =>
      NP.bind (NP.newValueItems js) (fun cs hcs => NP.pure ?_)))
    intro d hd
    rcases List.mem_cons.mp hd with hd | hd
    · subst hd; exact hc
    · exact hcs d hd
theorem NP.newValueMembers : ∀ ms, NP P K (Jqawk.newValueMembers ms) (RegM P)
  | [] => by unfold Jqawk.newValueMembers; exact NP.pure RegM.nil
  | (k, j) :: ms => by
    unfold Jqawk.newValueMembers
    refine NP.bind (NP.newValueJson j) (fun v hv => NP.bind (NP.newCell hv) (fun c hc =>
      NP.bind (NP.newValueMembers ms) (fun cs hcs => NP.pure ?_)))
    intro d hd
    rcases List.mem_cons.mp hd with hd | hd
    · subst hd; exact hc
    · exact hcs d hd
end

/-! ### `newEvaluator` establishes the invariant -/

theorem HeapOK.empty (P : Region) (hN : P.N = 0) (hA : P.A = 0) (hO : P.O = 0) : HeapOK P Heap.empty := by
  refine ⟨by simp [hN], by simp [hA], by simp [hO], ?_, ?_, ?_, ?_⟩
  · intro c; simp [Heap.get, Heap.empty]; trivial
  · intro c _; simp [Heap.get, Heap.empty]
  · intro a _ c hc; simp [Heap.arr, Heap.empty] at hc
  · intro o _ kc hkc; simp [Heap.obj, Heap.empty] at hkc

/-- one step of the construction of the root frame -/
def initAdd (st : List (Bytes × CellId) × Heap) (name : Bytes) (v : Val) : List (Bytes × CellId) × Heap :=
  let (c, h') := st.2.alloc v
  (objInsert st.1 name c, h')

theorem initAdd_ok {st : List (Bytes × CellId) × Heap} (h : RegM P st.1 ∧ HeapOK P st.2) (name : Bytes)
    {v : Val} (hv : GoodV P v) : RegM P (initAdd st name v).1 ∧ HeapOK P (initAdd st name v).2 := by
  have ha := h.2.alloc hv
  exact ⟨h.1.objInsert _ ha.2, ha.1⟩

theorem initFrames_eq (prog : Program) (h : Heap) :
    initFrames prog h =
      let s4 := prog.functions.zipIdx.foldl (fun st (fi : FuncDef × Nat) => initAdd st fi.1.ident.text (.fn fi.2))
        (initAdd (initAdd (initAdd ([], h) b!"printf" (.native .printf none none))
          b!"json" (.native .json none none)) b!"num" (.native .num none none))
      ([⟨b!"<root>", s4.1⟩], s4.2) := rfl

theorem initFold_ok (l : List (FuncDef × Nat)) (hl : ∀ fi ∈ l, GoodV P (.fn fi.2)) :
    ∀ st : List (Bytes × CellId) × Heap, RegM P st.1 ∧ HeapOK P st.2 →
      RegM P (l.foldl (fun st (fi : FuncDef × Nat) => initAdd st fi.1.ident.text (.fn fi.2)) st).1 ∧
      HeapOK P (l.foldl (fun st (fi : FuncDef × Nat) => initAdd st fi.1.ident.text (.fn fi.2)) st).2 := by
  induction l with
  | nil => intro st h; exact h
  | cons x rest ih =>
    intro st h
    simp only [List.foldl_cons]
    exact ih (fun fi hfi => hl fi (List.mem_cons_of_mem _ hfi)) _
      (initAdd_ok h _ (hl x (List.mem_cons_self ..)))

/-- **`NewEvaluator` establishes the invariant**: the root frame exists, and every function
    value it stores has an index below the number of functions -/
theorem newEvaluator_inv (prog : Program) (hF : prog.functions.length ≤ P.F)
    (hL : prog.functions.length ≤ P.L) {h : Heap} (hh : HeapOK P h) (out : List Bytes) (faults : Nat) :
    InvK P KAny (newEvaluator prog h out faults) := by
  have hnat : ∀ {f : Native}, GoodV P (.native f none none) := ⟨trivial, trivial⟩
  have h3 : RegM P (initAdd (initAdd (initAdd ([], h) b!"printf" (.native .printf none none))
      b!"json" (.native .json none none)) b!"num" (.native .num none none)).1 ∧
      HeapOK P (initAdd (initAdd (initAdd ([], h) b!"printf" (.native .printf none none))
      b!"json" (.native .json none none)) b!"num" (.native .num none none)).2 :=
    initAdd_ok (initAdd_ok (initAdd_ok ⟨RegM.nil, hh⟩ _ hnat) _ hnat) _ hnat
  have h4 := initFold_ok (P := P) prog.functions.zipIdx (by
    intro fi hfi
    obtain ⟨f, i⟩ := fi
    have := (List.mem_zipIdx' hfi).1
    exact ⟨Nat.lt_of_lt_of_le this hF, Nat.lt_of_lt_of_le this hL⟩) _ h3
  unfold newEvaluator
  rw [initFrames_eq]
  refine ⟨⟨h4.2, ⟨by simp, ?_⟩, trivial⟩, trivial⟩
  intro f hf
  simp only [List.mem_singleton] at hf
  subst hf
  exact h4.1

/-! ### the rule loops -/

section rules
variable (prog : Program) (hF : P.F ≤ prog.functions.length)
  (hwf : prog.wfB = true)

theorem Program.wfB_functions {prog : Program} (h : prog.wfB = true) :
    ∀ f ∈ prog.functions, f.body.wfB = true := by
  simp only [Program.wfB, Bool.and_eq_true, List.all_eq_true] at h
  exact h.2

theorem Program.wfB_rules {prog : Program} (h : prog.wfB = true) :
    ∀ r ∈ prog.rules, r.body.wfB = true ∧ ∀ p, r.pattern = some p → p.wfB = true := by
  simp only [Program.wfB, Bool.and_eq_true, List.all_eq_true, Rule.wfB] at h
  intro r hr
  have := h.1 r hr
  refine ⟨this.1, fun p hp => ?_⟩
  have h2 := this.2
  rw [hp] at h2
  exact h2

include hF hwf

theorem NP.evalRules (rules : List Rule) (hsub : ∀ r ∈ rules, r ∈ prog.rules) :
    NP P (KSet P) (Jqawk.evalRules prog rules) Tr := by
  have hall := allNP P prog hF (Program.wfB_functions hwf) evalFuel
  induction rules with
  | nil => exact NP.pure trivial
  | cons rule rest ih =>
    have ih' := ih (fun r hr => hsub r (List.mem_cons_of_mem _ hr))
    have hr := Program.wfB_rules hwf rule (hsub rule (List.mem_cons_self ..))
    unfold Jqawk.evalRules
    refine NP.bind (R1 := Tr) ?_ (fun r _ => ?_)
    · split
      · exact NP.pure trivial
      · rename_i p hp
        exact NP.catchSig _ trivial (NP.bind (hall.expr _ (hr.2 p hp)) (fun c hc =>
          NP.bind (NP.readCell hc) (fun v _ => NP.pure trivial)))
    · split
      · exact NP.pure trivial
      · split
        · exact ih'
        · refine NP.bind (R1 := Tr) (NP.catchSig _ trivial (NP.bind (hall.stmt _ hr.1)
            (fun _ _ => NP.pure trivial))) (fun more _ => ?_)
          split
          · exact ih'
          · exact NP.pure trivial

theorem NP.evalElems (hK : KSup P K) (rules : List Rule) (hsub : ∀ r ∈ rules, r ∈ prog.rules)
    (items : List CellId) (hit : RegL P items) (i : Nat) :
    NP P K (Jqawk.evalElems prog rules items i) Tr := by
  induction items generalizing i K with
  | nil => exact NP.pure trivial
  | cons item rest ih =>
    unfold Jqawk.evalElems
    refine NP.enter hK (hit item (List.mem_cons_self ..)) ?_
    exact NP.bind (NP.newCell trivial) (fun ic hic => NP.bind (NP.setLocal _ hic) (fun _ _ =>
      NP.bind (NP.evalRules prog hF hwf rules hsub) (fun _ _ =>
        ih KSup.set (fun c hc => hit c (List.mem_cons_of_mem _ hc)) (i + 1))))

theorem NP.evalSpecialRules (hK : KSup P K) (mkRoot : EM CellId)
    (hmk : ∀ K', NP P K' mkRoot (InR P)) (rules : List Rule) (hsub : ∀ r ∈ rules, r ∈ prog.rules) :
    NP P K (Jqawk.evalSpecialRules prog mkRoot rules) Tr := by
  have hall := allNP P prog hF (Program.wfB_functions hwf) evalFuel
  induction rules generalizing K with
  | nil => exact NP.pure trivial
  | cons rule rest ih =>
    have hr := Program.wfB_rules hwf rule (hsub rule (List.mem_cons_self ..))
    unfold Jqawk.evalSpecialRules
    refine NP.bind (hmk K) (fun c hc => NP.enter hK hc ?_)
    refine NP.bind (NP.ruleFlow (hall.stmt _ hr.1)) (fun fl _ => ?_)
    split
    · exact NP.pure trivial
    · exact ih KSup.set (fun r hr => hsub r (List.mem_cons_of_mem _ hr))

end rules

theorem rulesOf_sub' (prog : Program) (k : RuleKind) : ∀ r ∈ rulesOf prog k, r ∈ prog.rules := by
  intro r hr
  exact (List.mem_filter.mp hr).1

/-- the region of the main evaluator: the whole heap -/
def Pm (prog : Program) : Region := ⟨0, 0, 0, prog.functions.length, prog.functions.length⟩

section main
variable (prog : Program) (hwf : prog.wfB = true)
include hwf

theorem NP.evalPatternRules (hK : KSup (Pm prog) K) (rules : List Rule) (hsub : ∀ r ∈ rules, r ∈ prog.rules) :
    NP (Pm prog) K (Jqawk.evalPatternRules prog rules) Tr := by
  unfold Jqawk.evalPatternRules
  refine NP.bind NP.getSt (fun s hs => ?_)
  split
  · exact NP.pure trivial
  · rename_i root _
    split
    · rename_i a _
      exact NP.evalElems prog (Nat.le_refl _) hwf hK rules hsub _ (fun c _ => Nat.zero_le c) 0
    · exact NP.enter hK (Nat.zero_le root) (NP.evalRules prog (Nat.le_refl _) hwf rules hsub)

theorem NP.processRoot (hK : KSup (Pm prog) K) (c : CellId) : NP (Pm prog) K (Jqawk.processRoot prog c) Tr := by
  unfold Jqawk.processRoot
  refine NP.bind (NP.readCell (Nat.zero_le c)) (fun rv hrv => ?_)
  refine NP.bind (NP.evalSpecialRules prog (Nat.le_refl _) hwf hK _
    (fun K' => NP.pure (Nat.zero_le c)) _ (rulesOf_sub' prog _)) (fun fl _ => ?_)
  split
  · exact NP.pure trivial
  · refine NP.bind (NP.setRoot _) (fun _ _ => NP.bind (NP.catchExit
      (NP.evalPatternRules prog hwf hK _ (rulesOf_sub' prog _))) (fun fl2 _ => ?_))
    split
    · exact NP.pure trivial
    · exact NP.evalSpecialRules prog (Nat.le_refl _) hwf hK _ (fun K' => NP.newCell hrv) _
        (rulesOf_sub' prog _)

theorem NP.processRoots (hK : KSup (Pm prog) K) (cs : List CellId) :
    NP (Pm prog) K (Jqawk.processRoots prog cs) Tr := by
  induction cs with
  | nil => exact NP.pure trivial
  | cons c rest ih =>
    unfold Jqawk.processRoots
    refine NP.bind (NP.processRoot prog hwf hK c) (fun fl _ => ?_)
    split
    · exact NP.pure trivial
    · exact ih

end main

end Jqawk
