/-
  C07: generic facts about the loop specification (`Spec/Loops.lean`): what a round is,
  `Repeats` = some number of "go on" rounds followed by a final round (the unrolled least fixed
  point), determinism, monotonicity in the fuel order `EMLe`, and the fuel-indexed versions
  (`repeatN`, `iterateN`) the evaluator's loops are instances of.
-/
import Jqawk.Spec.Loops
import Jqawk.Lemmas.LoopsMono

set_option linter.unusedVariables false
set_option linter.unusedSimpArgs false

namespace Jqawk.Spec
open Jqawk

/-! ### outcomes -/

theorem outcome_continue_iff (r : Res Unit) (s' : St) :
    outcome r = .continue_ s' ↔ r = .ok () s' ∨ r = .err (.sig .cont) s' := by
  cases r with
  | ok a s1 => cases a; simp [outcome]
  | err e s1 =>
    cases e with
    | sig g => cases g <;> simp [outcome]
    | _ => simp [outcome]
  | oof => simp [outcome]

theorem outcome_stop_iff (r : Res Unit) (s' : St) :
    outcome r = .stop s' ↔ r = .err (.sig .brk) s' := by
  cases r with
  | ok a s1 => cases a; simp [outcome]
  | err e s1 =>
    cases e with
    | sig g => cases g <;> simp [outcome]
    | _ => simp [outcome]
  | oof => simp [outcome]

theorem outcome_abort_iff (r : Res Unit) (e : Err) (s' : St) :
    outcome r = .abort e s' ↔ r = .err e s' ∧ e ≠ .sig .brk ∧ e ≠ .sig .cont := by
  cases r with
  | ok a s1 => cases a; simp [outcome]
  | err e1 s1 =>
    cases e1 with
    | sig g => cases g <;> simp [outcome] <;> (intro h _; subst h; simp)
    | _ => simp [outcome] <;> (intro h _; subst h; simp)
  | oof => simp [outcome]

theorem outcome_oof_iff (r : Res Unit) : outcome r = .oof ↔ r = .oof := by
  cases r with
  | ok a s1 => cases a; simp [outcome]
  | err e s1 =>
    cases e with
    | sig g => cases g <;> simp [outcome]
    | _ => simp [outcome]
  | oof => simp [outcome]

/-- the model's `loopIter` in terms of the outcome of the body -/
theorem loopIter_eq (body k : EM Unit) (s : St) :
    loopIter body k s = (match outcome (body s) with
      | .continue_ s' => k s'
      | .stop s' => .ok () s'
      | .abort e s' => .err e s'
      | .oof => .oof) := by
  unfold loopIter
  cases body s with
  | ok a s1 => cases a; rfl
  | err e s1 =>
    cases e with
    | sig g => cases g <;> rfl
    | _ => rfl
  | oof => rfl

/-! ### what a round is -/

theorem bodyRound_true_iff (body : EM Unit) (s s' : St) :
    bodyRound body s = .ok true s' ↔ body s = .ok () s' ∨ body s = .err (.sig .cont) s' := by
  rw [← outcome_continue_iff]
  unfold bodyRound
  cases outcome (body s) <;> simp

theorem bodyRound_false_iff (body : EM Unit) (s s' : St) :
    bodyRound body s = .ok false s' ↔ body s = .err (.sig .brk) s' := by
  rw [← outcome_stop_iff]
  unfold bodyRound
  cases outcome (body s) <;> simp

theorem bodyRound_err_iff (body : EM Unit) (s s' : St) (e : Err) :
    bodyRound body s = .err e s' ↔ body s = .err e s' ∧ e ≠ .sig .brk ∧ e ≠ .sig .cont := by
  rw [← outcome_abort_iff]
  unfold bodyRound
  cases outcome (body s) <;> simp

theorem bodyRound_oof_iff (body : EM Unit) (s : St) : bodyRound body s = .oof ↔ body s = .oof := by
  rw [← outcome_oof_iff]
  unfold bodyRound
  cases outcome (body s) <;> simp

/-! inversion of `bind` / `pure` -/

theorem bind_eq_ok {α β : Type} (m : EM α) (f : α → EM β) (s s' : St) (b : β) :
    (m >>= f) s = .ok b s' ↔ ∃ a s1, m s = .ok a s1 ∧ f a s1 = .ok b s' := by
  show EM.bind m f s = _ ↔ _
  unfold EM.bind
  cases m s with
  | ok a s1 =>
    constructor
    · intro h; exact ⟨a, s1, rfl, h⟩
    · rintro ⟨a', s1', h1, h2⟩; cases h1; exact h2
  | err e s1 =>
    constructor
    · intro h; cases h
    · rintro ⟨_, _, h1, _⟩; cases h1
  | oof =>
    constructor
    · intro h; cases h
    · rintro ⟨_, _, h1, _⟩; cases h1

theorem bind_eq_err {α β : Type} (m : EM α) (f : α → EM β) (s s' : St) (e : Err) :
    (m >>= f) s = .err e s' ↔ m s = .err e s' ∨ ∃ a s1, m s = .ok a s1 ∧ f a s1 = .err e s' := by
  show EM.bind m f s = _ ↔ _
  unfold EM.bind
  cases m s with
  | ok a s1 =>
    constructor
    · intro h; exact .inr ⟨a, s1, rfl, h⟩
    · rintro (h | ⟨a', s1', h1, h2⟩)
      · cases h
      · cases h1; exact h2
  | err e1 s1 =>
    constructor
    · intro h; exact .inl (by simpa using h)
    · rintro (h | ⟨_, _, h1, _⟩)
      · simpa using h
      · cases h1
  | oof =>
    constructor
    · intro h; cases h
    · rintro (h | ⟨_, _, h1, _⟩)
      · cases h
      · cases h1

theorem pure_eq_ok {α : Type} (a b : α) (s s' : St) :
    (pure a : EM α) s = .ok b s' ↔ a = b ∧ s = s' := by
  show EM.pure a s = _ ↔ _
  simp [EM.pure]

theorem pure_eq_err {α : Type} (a : α) (s s' : St) (e : Err) :
    (pure a : EM α) s = .err e s' ↔ False := by
  show EM.pure a s = _ ↔ _
  simp [EM.pure]

theorem unit_ok_iff (m : EM Unit) (s s3 : St) :
    (∃ a s1, m s = Res.ok a s1 ∧ True ∧ s1 = s3) ↔ m s = .ok () s3 := by
  constructor
  · rintro ⟨a, s1, h, _, rfl⟩; cases a; exact h
  · intro h; exact ⟨(), s3, h, trivial, rfl⟩

/-- a `while` round answers "go on" iff the test held and the body completed or continued -/
theorem whileRound_true_iff (cond : EM Bool) (body : EM Unit) (s s2 : St) :
    whileRound cond body s = .ok true s2 ↔
      ∃ s1, cond s = .ok true s1 ∧ (body s1 = .ok () s2 ∨ body s1 = .err (.sig .cont) s2) := by
  simp only [whileRound, bind_eq_ok, Bool.exists_bool, pure_eq_ok, Bool.false_eq_true, ↓reduceIte,
    false_and, and_false, exists_false, false_or, bodyRound_true_iff]

/-- a `while` round answers "stop" iff the test failed or the body ended with `break` -/
theorem whileRound_false_iff (cond : EM Bool) (body : EM Unit) (s s2 : St) :
    whileRound cond body s = .ok false s2 ↔
      cond s = .ok false s2 ∨ ∃ s1, cond s = .ok true s1 ∧ body s1 = .err (.sig .brk) s2 := by
  simp only [whileRound, bind_eq_ok, Bool.exists_bool, pure_eq_ok, Bool.false_eq_true, ↓reduceIte,
    true_and, exists_eq_right, bodyRound_false_iff]

/-- a `while` round fails iff the test failed with an error or the body ended with anything
    but completion, `continue`, `break` -/
theorem whileRound_err_iff (cond : EM Bool) (body : EM Unit) (s s2 : St) (e : Err) :
    whileRound cond body s = .err e s2 ↔
      cond s = .err e s2 ∨
      ∃ s1, cond s = .ok true s1 ∧ body s1 = .err e s2 ∧ e ≠ .sig .brk ∧ e ≠ .sig .cont := by
  simp only [whileRound, bind_eq_err, Bool.exists_bool, pure_eq_err, Bool.false_eq_true, ↓reduceIte,
    and_false, exists_false, false_or, bodyRound_err_iff]

/-- a `for` round answers "go on" iff the test held, the body completed or CONTINUED, and then
    the post-expression completed: it runs after each completed or continued iteration -/
theorem forRound_true_iff (cond : EM Bool) (body post : EM Unit) (s s3 : St) :
    forRound cond body post s = .ok true s3 ↔
      ∃ s1 s2, cond s = .ok true s1 ∧ (body s1 = .ok () s2 ∨ body s1 = .err (.sig .cont) s2) ∧
        post s2 = .ok () s3 := by
  simp only [forRound, bind_eq_ok, Bool.exists_bool, pure_eq_ok, Bool.false_eq_true, ↓reduceIte,
    false_and, and_false, exists_false, false_or, bodyRound_true_iff, unit_ok_iff]
  constructor
  · rintro ⟨s1, h1, s2, h2, h3⟩; exact ⟨s1, s2, h1, h2, h3⟩
  · rintro ⟨s1, s2, h1, h2, h3⟩; exact ⟨s1, h1, s2, h2, h3⟩

/-- a `for` round answers "stop" iff the test failed or the body ended with `break` — and then
    the post-expression is NOT run (the state is the one `break` was raised in) -/
theorem forRound_false_iff (cond : EM Bool) (body post : EM Unit) (s s2 : St) :
    forRound cond body post s = .ok false s2 ↔
      cond s = .ok false s2 ∨ ∃ s1, cond s = .ok true s1 ∧ body s1 = .err (.sig .brk) s2 := by
  simp only [forRound, bind_eq_ok, Bool.exists_bool, pure_eq_ok, Bool.false_eq_true, ↓reduceIte,
    false_and, and_false, exists_false, false_or, or_false, bodyRound_true_iff, bodyRound_false_iff, unit_ok_iff,
    Bool.true_eq_false, true_and, exists_eq_right]

/-- a `for` round fails iff the test, the body (other than by continue / break) or the
    post-expression fails -/
theorem forRound_err_iff (cond : EM Bool) (body post : EM Unit) (s s3 : St) (e : Err) :
    forRound cond body post s = .err e s3 ↔
      cond s = .err e s3 ∨
      (∃ s1, cond s = .ok true s1 ∧ body s1 = .err e s3 ∧ e ≠ .sig .brk ∧ e ≠ .sig .cont) ∨
      (∃ s1 s2, cond s = .ok true s1 ∧ (body s1 = .ok () s2 ∨ body s1 = .err (.sig .cont) s2) ∧
        post s2 = .err e s3) := by
  simp only [forRound, bind_eq_ok, bind_eq_err, Bool.exists_bool, pure_eq_ok, pure_eq_err, Bool.false_eq_true, ↓reduceIte,
    false_and, and_false, exists_false, false_or, or_false, bodyRound_true_iff, bodyRound_false_iff, bodyRound_err_iff, unit_ok_iff,
    Bool.true_eq_false, true_and, exists_eq_right]
  constructor
  · rintro (h | ⟨s1, h1, h2 | ⟨s2, h2, h3⟩⟩)
    · exact .inl h
    · exact .inr (.inl ⟨s1, h1, h2⟩)
    · exact .inr (.inr ⟨s1, s2, h1, h2, h3⟩)
  · rintro (h | ⟨s1, h1, h2⟩ | ⟨s1, s2, h1, h2, h3⟩)
    · exact .inl h
    · exact .inr ⟨s1, h1, .inl h2⟩
    · exact .inr ⟨s1, h1, .inr ⟨s2, h2, h3⟩⟩

/-- the truth value of a condition: the cell it evaluates to, read in the state reached -/
theorem truthyOf_ok_iff (m : EM CellId) (s s1 : St) (b : Bool) :
    truthyOf m s = .ok b s1 ↔ ∃ cell, m s = .ok cell s1 ∧ (s1.heap.get cell).truthy = b := by
  simp only [truthyOf, bind, EM.bind, readCell, pure, EM.pure]
  cases m s with
  | ok c s2 =>
    simp only [Res.ok.injEq]
    constructor
    · rintro ⟨h1, h2⟩; subst h2; exact ⟨c, ⟨rfl, rfl⟩, h1⟩
    · rintro ⟨cell, ⟨h1, h2⟩, h3⟩; subst h1 h2; exact ⟨h3, rfl⟩
  | err e s2 => simp
  | oof => simp

theorem truthyOf_err_iff (m : EM CellId) (s s1 : St) (e : Err) :
    truthyOf m s = .err e s1 ↔ m s = .err e s1 := by
  simp only [truthyOf, bind, EM.bind, readCell, pure, EM.pure]
  cases m s <;> simp

/-! ### `Repeats`: determinism, unrolling, monotonicity -/

theorem Repeats.ne_oof {round : EM Bool} {s : St} {r : Res Unit} (h : Repeats round s r) :
    r ≠ .oof := by
  induction h with
  | done _ => intro h; cases h
  | fail _ => intro h; cases h
  | more _ _ ih => exact ih

/-- a loop has at most one result -/
theorem Repeats.deterministic {round : EM Bool} {s : St} {r r' : Res Unit}
    (h : Repeats round s r) (h' : Repeats round s r') : r = r' := by
  induction h with
  | done h1 =>
    cases h' with
    | done h2 => rw [h1] at h2; cases h2; rfl
    | fail h2 => rw [h1] at h2; cases h2
    | more h2 _ => rw [h1] at h2; cases h2
  | fail h1 =>
    cases h' with
    | done h2 => rw [h1] at h2; cases h2
    | fail h2 => rw [h1] at h2; cases h2; rfl
    | more h2 _ => rw [h1] at h2; cases h2
  | more h1 _ ih =>
    cases h' with
    | done h2 => rw [h1] at h2; cases h2
    | fail h2 => rw [h1] at h2; cases h2
    | more h2 h3 => rw [h1] at h2; cases h2; exact ih h3

/-- how the last round of a loop ends it -/
def FinalRound (round : EM Bool) (s : St) (r : Res Unit) : Prop :=
  (∃ s', round s = .ok false s' ∧ r = .ok () s') ∨ (∃ e s', round s = .err e s' ∧ r = .err e s')

/-- **The loop unrolled**: a loop has result `r` iff for some `k`, `k` rounds answer "go on"
    one after the other and the round after them ends the loop with `r`. -/
theorem repeats_iff_rounds (round : EM Bool) (s : St) (r : Res Unit) :
    Repeats round s r ↔ ∃ k sk, Rounds round k s sk ∧ FinalRound round sk r := by
  constructor
  · intro h
    induction h with
    | done h1 => exact ⟨0, _, .zero, .inl ⟨_, h1, rfl⟩⟩
    | fail h1 => exact ⟨0, _, .zero, .inr ⟨_, _, h1, rfl⟩⟩
    | more h1 _ ih =>
      obtain ⟨k, sk, hr, hf⟩ := ih
      exact ⟨k + 1, sk, .succ h1 hr, hf⟩
  · rintro ⟨k, sk, hr, hf⟩
    induction hr with
    | zero =>
      rcases hf with ⟨s', h1, rfl⟩ | ⟨e, s', h1, rfl⟩
      · exact .done h1
      · exact .fail h1
    | succ h1 _ ih => exact .more h1 (ih hf)

theorem Rounds.mono {round round' : EM Bool} (hle : EMLe round round') {k : Nat} {s s' : St}
    (h : Rounds round k s s') : Rounds round' k s s' := by
  induction h with
  | zero => exact .zero
  | succ h1 _ ih => exact .succ (by rw [hle.eq_of_ne_oof (by rw [h1]; simp), h1]) ih

theorem Repeats.mono {round round' : EM Bool} (hle : EMLe round round') {s : St} {r : Res Unit}
    (h : Repeats round s r) : Repeats round' s r := by
  induction h with
  | done h1 => exact .done (by rw [hle.eq_of_ne_oof (by rw [h1]; simp), h1])
  | fail h1 => exact .fail (by rw [hle.eq_of_ne_oof (by rw [h1]; simp), h1])
  | more h1 _ ih => exact .more (by rw [hle.eq_of_ne_oof (by rw [h1]; simp), h1]) ih

/-! ### monotonicity of the round constructors -/

theorem bodyRound_mono {body body' : EM Unit} (h : EMLe body body') :
    EMLe (bodyRound body) (bodyRound body') := by
  intro s
  unfold bodyRound
  rcases h s with h | h
  · left; rw [h]; rfl
  · right; rw [h]

theorem truthyOf_mono {m m' : EM CellId} (h : EMLe m m') : EMLe (truthyOf m) (truthyOf m') :=
  EMLe.bind h (fun _ => EMLe.refl _)

theorem whileRound_mono {cond cond' : EM Bool} {body body' : EM Unit} (hc : EMLe cond cond')
    (hb : EMLe body body') : EMLe (whileRound cond body) (whileRound cond' body') := by
  unfold whileRound
  refine EMLe.bind hc (fun b => ?_)
  cases b
  · exact EMLe.refl _
  · exact bodyRound_mono hb

theorem forRound_mono {cond cond' : EM Bool} {body body' post post' : EM Unit} (hc : EMLe cond cond')
    (hb : EMLe body body') (hp : EMLe post post') :
    EMLe (forRound cond body post) (forRound cond' body' post') := by
  unfold forRound
  refine EMLe.bind hc (fun b => ?_)
  cases b
  · exact EMLe.refl _
  · refine EMLe.bind (bodyRound_mono hb) (fun b2 => ?_)
    cases b2
    · exact EMLe.refl _
    · exact EMLe.bind hp (fun _ => EMLe.refl _)

/-! ### fuel-indexed repetition (the shape of `whileLoop` / `forLoop`) -/

/-- repeat with a fuel counter that also indexes the round -/
def repeatN (round : Nat → EM Bool) : Nat → EM Unit
  | 0 => oof
  | n + 1 => do
    if (← round n) then repeatN round n else pure ()

theorem repeatN_sound (round : Nat → EM Bool) (hmono : ∀ n, EMLe (round n) (round (n + 1)))
    (n : Nat) (s : St) (r : Res Unit) (h : repeatN round n s = r) (hr : r ≠ .oof) :
    Repeats (round n) s r := by
  induction n generalizing s r with
  | zero => exact absurd h.symm hr
  | succ n ih =>
    have hle : EMLe (round n) (round (n + 1)) := hmono n
    simp only [repeatN, bind, EM.bind] at h
    cases hc : round n s with
    | ok b s1 =>
      have hc' : round (n + 1) s = .ok b s1 := by rw [hle.eq_of_ne_oof (by rw [hc]; simp), hc]
      rw [hc] at h
      cases b with
      | true =>
        simp only [↓reduceIte] at h
        exact .more hc' ((ih s1 r h hr).mono hle)
      | false =>
        simp only [Bool.false_eq_true, ↓reduceIte, pure, EM.pure] at h
        subst h; exact .done hc'
    | err e s1 =>
      have hc' : round (n + 1) s = .err e s1 := by rw [hle.eq_of_ne_oof (by rw [hc]; simp), hc]
      rw [hc] at h; subst h; exact .fail hc'
    | oof => rw [hc] at h; exact absurd h.symm hr

theorem emle_add {α : Type} (f : Nat → EM α) (hmono : ∀ n, EMLe (f n) (f (n + 1))) (n k : Nat) :
    EMLe (f n) (f (n + k)) := by
  induction k with
  | zero => exact EMLe.refl _
  | succ k ih => exact ih.trans (hmono (n + k))

theorem emle_le {α : Type} (f : Nat → EM α) (hmono : ∀ n, EMLe (f n) (f (n + 1))) {n m : Nat}
    (h : n ≤ m) : EMLe (f n) (f m) := by
  obtain ⟨k, rfl⟩ : ∃ k, m = n + k := ⟨m - n, by omega⟩
  exact emle_add f hmono n k

theorem repeatN_of_rounds (round : Nat → EM Bool) (hmono : ∀ n, EMLe (round n) (round (n + 1)))
    (m k : Nat) (s sk : St) (r : Res Unit) (hk : Rounds (round m) k s sk)
    (hf : FinalRound (round m) sk r) : ∀ n, m + k < n → repeatN round n s = r := by
  induction hk with
  | zero =>
    intro n hn
    obtain ⟨n', rfl⟩ : ∃ n', n = n' + 1 := ⟨n - 1, by omega⟩
    have hle : EMLe (round m) (round n') := emle_le round hmono (by omega)
    simp only [repeatN, bind, EM.bind]
    rcases hf with ⟨s', h1, rfl⟩ | ⟨e, s', h1, rfl⟩
    · rw [hle.eq_of_ne_oof (by rw [h1]; simp), h1]; rfl
    · rw [hle.eq_of_ne_oof (by rw [h1]; simp), h1]
  | succ h1 _ ih =>
    intro n hn
    obtain ⟨n', rfl⟩ : ∃ n', n = n' + 1 := ⟨n - 1, by omega⟩
    have hle : EMLe (round m) (round n') := emle_le round hmono (by omega)
    simp only [repeatN, bind, EM.bind]
    rw [hle.eq_of_ne_oof (by rw [h1]; simp), h1]
    exact ih hf n' (by omega)

theorem repeatN_complete (round : Nat → EM Bool) (hmono : ∀ n, EMLe (round n) (round (n + 1)))
    (m : Nat) (s : St) (r : Res Unit) (h : Repeats (round m) s r) : ∃ n, repeatN round n s = r := by
  obtain ⟨k, sk, hk, hf⟩ := (repeats_iff_rounds _ _ _).mp h
  exact ⟨m + k + 1, repeatN_of_rounds round hmono m k s sk r hk hf _ (by omega)⟩

/-! ### fuel-indexed iteration (the shape of `forInLoop`) -/

def iterateN {ι : Type} (step : Nat → ι → EM Unit) : Nat → List ι → EM Unit
  | 0, _ => oof
  | _ + 1, [] => pure ()
  | n + 1, x :: xs => fun s =>
    match outcome (step n x s) with
    | .continue_ s' => iterateN step n xs s'
    | .stop s' => .ok () s'
    | .abort e s' => .err e s'
    | .oof => .oof

theorem iterate_mono {ι : Type} {step step' : ι → EM Unit} (h : ∀ x, EMLe (step x) (step' x))
    (l : List ι) : EMLe (iterate step l) (iterate step' l) := by
  induction l with
  | nil => exact EMLe.refl _
  | cons x xs ih =>
    intro s
    simp only [iterate]
    rcases h x s with h1 | h1
    · left; rw [h1]; rfl
    · rw [← h1]
      cases outcome (step x s) with
      | continue_ s' => exact ih s'
      | stop s' => right; rfl
      | abort e s' => right; rfl
      | oof => left; rfl

theorem iterateN_sound {ι : Type} (step : Nat → ι → EM Unit)
    (hmono : ∀ n x, EMLe (step n x) (step (n + 1) x)) (n : Nat) (l : List ι) :
    EMLe (iterateN step n l) (iterate (step n) l) := by
  induction n generalizing l with
  | zero => intro s; left; rfl
  | succ n ih =>
    cases l with
    | nil => exact EMLe.refl _
    | cons x xs =>
      intro s
      simp only [iterateN, iterate]
      rcases hmono n x s with h1 | h1
      · left; rw [h1]; rfl
      · rw [← h1]
        cases outcome (step n x s) with
        | continue_ s' => exact ((ih xs).trans (iterate_mono (hmono n) xs)) s'
        | stop s' => right; rfl
        | abort e s' => right; rfl
        | oof => left; rfl

theorem iterateN_complete {ι : Type} (step : Nat → ι → EM Unit)
    (hmono : ∀ n x, EMLe (step n x) (step (n + 1) x)) (m : Nat) (l : List ι) :
    ∀ n, m + l.length < n → EMLe (iterate (step m) l) (iterateN step n l) := by
  induction l with
  | nil =>
    intro n hn
    obtain ⟨n', rfl⟩ : ∃ n', n = n' + 1 := ⟨n - 1, by omega⟩
    exact EMLe.refl _
  | cons x xs ih =>
    intro n hn
    obtain ⟨n', rfl⟩ : ∃ n', n = n' + 1 := ⟨n - 1, by omega⟩
    simp only [List.length_cons] at hn
    have hle : EMLe (step m x) (step n' x) :=
      emle_le (fun k => step k x) (fun k => hmono k x) (by omega)
    intro s
    simp only [iterateN, iterate]
    rcases hle s with h1 | h1
    · left; rw [h1]; rfl
    · rw [← h1]
      cases outcome (step m x s) with
      | continue_ s' => exact ih n' (by omega) s'
      | stop s' => right; rfl
      | abort e s' => right; rfl
      | oof => left; rfl

/-! ### for-in visits the items in order, each at most once, all of them unless it ends early -/

theorem visited_prefix {ι : Type} (step : ι → EM Unit) (l : List ι) (s : St) :
    visited step l s <+: l := by
  induction l generalizing s with
  | nil => exact List.prefix_refl _
  | cons x xs ih =>
    simp only [visited]
    cases outcome (step x s) with
    | continue_ s' => exact (List.prefix_cons_inj x).mpr (ih s')
    | stop s' => exact ⟨xs, rfl⟩
    | abort e s' => exact ⟨xs, rfl⟩
    | oof => exact ⟨xs, rfl⟩

/-- if the loop ran to completion although not all items were visited, the last visited item's
    step ended with `break`; contrapositive: without `break`, EVERY item is visited exactly once -/
theorem visited_all_or_break {ι : Type} (step : ι → EM Unit) (l : List ι) (s s' : St)
    (h : iterate step l s = .ok () s') :
    visited step l s = l ∨
    ∃ pre x post s1, l = pre ++ x :: post ∧ visited step l s = pre ++ [x] ∧
      step x s1 = .err (.sig .brk) s' := by
  induction l generalizing s with
  | nil => left; rfl
  | cons x xs ih =>
    simp only [iterate] at h
    simp only [visited]
    cases ho : outcome (step x s) with
    | continue_ s1 =>
      rw [ho] at h
      rcases ih s1 h with h1 | ⟨pre, y, post, s2, h1, h2, h3⟩
      · left; simp only; rw [h1]
      · right
        refine ⟨x :: pre, y, post, s2, by rw [h1]; rfl, ?_, h3⟩
        simp only; rw [h2]; rfl
    | stop s1 =>
      rw [ho] at h
      simp only [Res.ok.injEq, true_and] at h
      subst h
      right
      exact ⟨[], x, xs, s, rfl, rfl, (outcome_stop_iff _ _).mp ho⟩
    | abort e s1 => rw [ho] at h; cases h
    | oof => rw [ho] at h; cases h

end Jqawk.Spec
