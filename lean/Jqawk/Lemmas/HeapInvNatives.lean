/-
  The natives keep the heap invariant (C15).
-/
import Jqawk.Lemmas.HeapInvCore

set_option linter.unusedVariables false
set_option linter.unusedSimpArgs false

namespace Jqawk.HeapInv
open Jqawk Jqawk.IndexWrite

/-! ### pointwise use of `Good`, and a computation that starts by reading the heap -/

theorem Good.run {α : Type} {m : EM α} (g : Good m) (s : St) (i : Inv s.heap) :
    Post (fun _ _ => True) s.heap (m s) := g s i trivial

theorem Good.withHeap {α : Type} {f : Heap → EM α}
    (hf : ∀ s, Inv s.heap → Post (fun _ _ => True) s.heap (f s.heap s)) :
    Good (Jqawk.getHeap >>= f) :=
  fun s i _ => hf s i

/-! ### allocation of several cells -/

theorem size_allocMany (h : Heap) (vs : List Val) :
    (h.allocMany vs).cells.size = h.cells.size + vs.length := by
  simp [Heap.allocMany]

theorem inv_allocMany {h : Heap} (i : Inv h) (vs : List Val) : Inv (h.allocMany vs) :=
  ⟨⟨fun a c hc => by
      have : @LT.lt Nat _ c h.cells.size := i.wf.arrs a c hc
      show @LT.lt Nat _ c (h.allocMany vs).cells.size
      rw [size_allocMany]; omega,
    fun o k c hc => by
      have : @LT.lt Nat _ c h.cells.size := i.wf.objs o k c hc
      show @LT.lt Nat _ c (h.allocMany vs).cells.size
      rw [size_allocMany]; omega⟩,
   i.un,
   fun a c hc => by
     rw [Heap.get_allocMany_old h vs c (i.wf.arrs a c hc)]; exact i.ep a c hc,
   fun o k c hc => by
     rw [Heap.get_allocMany_old h vs c (i.wf.objs o k c hc)]; exact i.mp o k c hc⟩

theorem trans_allocMany (h : Heap) (vs : List Val) : Trans h (h.allocMany vs) :=
  ⟨by rw [size_allocMany]; omega,
   fun c hc p => by rw [Heap.get_allocMany_old h vs c hc]; exact p,
   fun b c hc _ => ⟨b, hc⟩⟩

theorem Good.allocCells (vs : List Val) : Good (Jqawk.allocCells vs) := by
  intro s i _
  rw [allocCells_eq]
  exact ⟨inv_allocMany i vs, trans_allocMany _ vs, trivial⟩

/-- the fresh cells hold the given values -/
theorem fresh_cell (h : Heap) (vs : List Val) (hvs : ∀ v ∈ vs, Plain v) (c : Nat)
    (hc : c ∈ List.range' h.cells.size vs.length) :
    c < (h.allocMany vs).cells.size ∧ Plain ((h.allocMany vs).get c) ∧ h.cells.size ≤ c := by
  obtain ⟨h1, h2⟩ := List.mem_range'_1.mp hc
  refine ⟨by rw [size_allocMany]; exact h2, ?_, h1⟩
  obtain ⟨j, rfl⟩ := Nat.exists_eq_add_of_le h1
  rw [Heap.get_allocMany_new h vs j (by omega)]
  exact hvs _ (List.getElem_mem _)

theorem Good.newArrayOf (vs : List Val) (hvs : ∀ v ∈ vs, Plain v) : Good (Jqawk.newArrayOf vs) := by
  intro s i _
  rw [newArrayOf_eq]
  have i1 := inv_allocMany i vs
  have t1 := trans_allocMany s.heap vs
  refine ⟨inv_allocArr i1 (List.range' s.heap.cells.size vs.length) List.nodup_range' ?_,
    trans_allocArr t1 _ ?_, trivial⟩
  · intro c hc
    obtain ⟨h1, h2, h3⟩ := fresh_cell s.heap vs hvs c hc
    refine ⟨h1, h2, ?_⟩
    intro b hb
    have : @LT.lt Nat _ c s.heap.cells.size := i.wf.arrs b c hb
    omega
  · intro c hc
    exact (fresh_cell s.heap vs hvs c hc).2.2

/-! ### push -/

theorem get_pushHeap_old (h : Heap) (a : ArrId) (v : Val) (c : Nat) (hc : c < h.cells.size) :
    (pushHeap h a v).get c = h.get c := by
  rw [pushHeap_eq, Heap.get_setArr]; exact Heap.get_push_old h v c hc

theorem setArr_oob (h : Heap) (a : ArrId) (x : Array CellId) (ha : h.arrs.size ≤ a) :
    h.setArr a x = h := by
  have : ¬ a < h.arrs.size := Nat.not_lt.mpr ha
  simp [Heap.setArr, Array.setIfInBounds, this]

theorem pushHeap_oob (h : Heap) (a : ArrId) (v : Val) (ha : h.arrs.size ≤ a) :
    pushHeap h a v = (h.alloc v).2 := by
  rw [pushHeap_eq, setArr_oob ({ h with cells := h.cells.push v }) a _ ha]; rfl

theorem inv_pushHeap {h : Heap} (i : Inv h) (a : ArrId) (v : Val) (hv : Plain v) :
    Inv (pushHeap h a v) := by
  by_cases ha : a < h.arrs.size
  · exact ⟨i.wf.pushHeap a v, unshared_pushHeap h i.wf i.un a ha v,
      elemsPlain_pushHeap h i.wf i.ep a ha v hv,
      fun o k c hc => by
        rw [get_pushHeap_old h a v c (i.wf.objs o k c hc)]; exact i.mp o k c hc⟩
  · rw [pushHeap_oob h a v (Nat.le_of_not_lt ha)]; exact inv_alloc i v

theorem trans_pushHeap (h : Heap) (a : ArrId) (v : Val) : Trans h (pushHeap h a v) := by
  by_cases ha : a < h.arrs.size
  · refine ⟨by simp [pushHeap], fun c hc p => by rw [get_pushHeap_old h a v c hc]; exact p, ?_⟩
    intro b c hc hlt
    by_cases hb : b = a
    · subst hb
      rw [pushHeap_eq, Heap.arr_setArr_same _ _ _ (by simpa using ha)] at hc
      simp only [Array.toList_push, List.mem_append, List.mem_singleton] at hc
      rcases hc with hc | rfl
      · exact ⟨b, hc⟩
      · exact absurd hlt (Nat.lt_irrefl _)
    · rw [pushHeap_eq, Heap.arr_setArr_other _ _ _ _ hb] at hc
      exact ⟨b, hc⟩
  · rw [pushHeap_oob h a v (Nat.le_of_not_lt ha)]; exact trans_alloc h v

theorem Good.pushSeq {α : Type} (a : ArrId) (v : Val) (hv : Plain v) (r : α) :
    Good (do
      let c ← Jqawk.newCell v
      let h ← Jqawk.getHeap
      Jqawk.setHeap (h.setArr a ((h.arr a).push c))
      return r) := by
  intro s i _
  show Post _ _ (Res.ok r { s with heap := pushHeap s.heap a v })
  exact ⟨inv_pushHeap i a v hv, trans_pushHeap _ a v, trivial⟩

theorem plain_getD (args : List Val) (hargs : ∀ v ∈ args, Plain v) (n : Nat) :
    Plain (args.getD n .unknown) := by
  rw [List.getD_eq_getElem?_getD]
  cases h : args[n]? with
  | none => exact plain_unknown
  | some v => exact hargs v (List.mem_of_getElem? h)

/-! ### pop and popfirst -/

theorem inv_setArr_of {h : Heap} (i : Inv h) (a : ArrId) (sub : Array CellId)
    (wf : (h.setArr a sub).WF) (un : a < h.arrs.size → Unshared (h.setArr a sub))
    (ep : a < h.arrs.size → ElemsPlain (h.setArr a sub)) : Inv (h.setArr a sub) := by
  by_cases ha : a < h.arrs.size
  · exact ⟨wf, un ha, ep ha, fun o k c hc => i.mp o k c hc⟩
  · rw [setArr_oob h a sub (Nat.le_of_not_lt ha)]; exact i

theorem trans_setArr_sub (h : Heap) (a : ArrId) (sub : Array CellId)
    (hsub : ∀ c ∈ sub.toList, c ∈ (h.arr a).toList) : Trans h (h.setArr a sub) := by
  refine ⟨Nat.le_refl _, fun _ _ p => p, ?_⟩
  intro b c hc _
  by_cases hb : b = a
  · subst hb
    by_cases ha : b < h.arrs.size
    · rw [Heap.arr_setArr_same h b sub ha] at hc; exact ⟨b, hsub c hc⟩
    · rw [setArr_oob h b sub (Nat.le_of_not_lt ha)] at hc; exact ⟨b, hc⟩
  · rw [Heap.arr_setArr_other h a b sub hb] at hc; exact ⟨b, hc⟩

theorem pop_sub (h : Heap) (a : ArrId) : ∀ c ∈ (h.arr a).pop.toList, c ∈ (h.arr a).toList :=
  fun c hc => by rw [Array.toList_pop] at hc; exact List.dropLast_subset _ hc

theorem popfirst_sub (h : Heap) (a : ArrId) :
    ∀ c ∈ ((h.arr a).extract 1 (h.arr a).size).toList, c ∈ (h.arr a).toList :=
  fun c hc => by
    rw [Array.toList_extract] at hc
    simp only [List.extract] at hc
    exact List.mem_of_mem_drop (List.mem_of_mem_take hc)

theorem Good.callNative_arrPop (args : List Val) (this : Option Val) :
    Good (Jqawk.callNative .arrPop args this) := by
  unfold Jqawk.callNative
  apply Good.withHeap
  intro s i
  dsimp only
  split
  · rename_i a
    cases checkArgCount args 0 <;> dsimp only
    all_goals repeat' split
    all_goals first
      | exact Good.run (Good.pure _) s i
      | (show Post _ _ (Res.ok _ { s with heap := _ })
         exact ⟨inv_setArr_of i a _ (i.wf.pop a) (unshared_pop _ i.un a) (elemsPlain_pop _ i.ep a),
          trans_setArr_sub _ a _ (pop_sub _ a), trivial⟩)
  · exact Good.run (Good.pure _) s i

theorem Good.callNative_arrPopfirst (args : List Val) (this : Option Val) :
    Good (Jqawk.callNative .arrPopfirst args this) := by
  unfold Jqawk.callNative
  apply Good.withHeap
  intro s i
  dsimp only
  split
  · rename_i a
    cases checkArgCount args 0 <;> dsimp only
    all_goals repeat' split
    all_goals first
      | exact Good.run (Good.pure _) s i
      | (show Post _ _ (Res.ok _ { s with heap := _ })
         exact ⟨inv_setArr_of i a _ (i.wf.popfirst a) (unshared_popfirst _ i.un a)
            (elemsPlain_popfirst _ i.ep a),
          trans_setArr_sub _ a _ (popfirst_sub _ a), trivial⟩)
  · exact Good.run (Good.pure _) s i

/-! ### pluck -/

theorem objLookup_mem {m : List (Bytes × CellId)} {k : Bytes} {c : CellId}
    (h : objLookup m k = some c) : ∃ k', (k', c) ∈ m := by
  induction m with
  | nil => simp [objLookup] at h
  | cons x rest ih =>
    obtain ⟨k0, c0⟩ := x
    simp only [objLookup] at h
    split at h
    · cases h; exact ⟨k0, List.mem_cons_self⟩
    · obtain ⟨k', hk'⟩ := ih h
      exact ⟨k', List.mem_cons_of_mem _ hk'⟩

theorem plain_pluckVal {h : Heap} (i : Inv h) (o : ObjId) (key : Bytes) :
    Plain (pluckVal h (h.obj o) key) := by
  unfold pluckVal
  split
  · rename_i c hc
    obtain ⟨k', hk'⟩ := objLookup_mem hc
    exact i.mp o k' c hk'
  · exact plain_nilNone

theorem mem_pluckMembers {kcs m0 : List (Bytes × CellId)} {kc : Bytes × CellId}
    (h : kc ∈ pluckMembers kcs m0) : kc ∈ m0 ∨ ∃ kc' ∈ kcs, kc.2 = kc'.2 := by
  induction kcs generalizing m0 with
  | nil => exact .inl h
  | cons x kcs ih =>
    simp only [pluckMembers, List.foldl_cons] at h
    rcases ih h with h | ⟨kc', h1, h2⟩
    · rcases mem_objInsert h with h | h
      · exact .inl h
      · exact .inr ⟨x, List.mem_cons_self, h⟩
    · exact .inr ⟨kc', List.mem_cons_of_mem _ h1, h2⟩

theorem Good.callNative_objPluck (args : List Val) (this : Option Val) :
    Good (Jqawk.callNative .objPluck args this) := by
  intro s i _
  rcases this with _ | v
  · exact ⟨i, Trans.refl _, trivial⟩
  · cases v
    case obj o =>
      rw [Jqawk.callNative_objPluck]
      cases hp : pluckCollect s.heap (s.heap.obj o) args [] with
      | error m => exact ⟨i, Trans.refl _, trivial⟩
      | ok kvs =>
        dsimp only
        have hvs : ∀ v ∈ kvs.map (·.2), Plain v := by
          rw [pluckCollect_eq] at hp
          split at hp
          · cases hp
            intro v hv
            simp only [List.reverse_nil, List.nil_append, List.map_map, List.mem_map,
              Function.comp] at hv
            obtain ⟨k, _, rfl⟩ := hv
            exact plain_pluckVal i o _
          · cases hp
        have i1 := inv_allocMany i (kvs.map (·.2))
        have t1 := trans_allocMany s.heap (kvs.map (·.2))
        refine ⟨inv_allocObj i1 _ ?_, t1.trans (trans_allocObj _ _), trivial⟩
        intro kc hkc
        rcases mem_pluckMembers hkc with h | ⟨kc', h1, h2⟩
        · cases h
        · have hm : kc'.2 ∈ List.range' s.heap.cells.size (kvs.map (·.2)).length := by
            obtain ⟨k', c'⟩ := kc'
            simpa using (List.of_mem_zip h1).2
          have := fresh_cell s.heap _ hvs _ hm
          rw [h2]
          exact ⟨this.1, this.2.1⟩
    all_goals exact ⟨i, Trans.refl _, trivial⟩

/-! ### all natives -/

/-- one decomposition step for goals `Good (…)` built from the primitives -/
macro "good_step" : tactic => `(tactic| with_reducible_and_instances first
  | exact Good.pure _
  | exact Good.oof
  | exact Good.getSt
  | exact Good.getHeap
  | exact Good.readCell _
  | exact Good.throwSig _
  | exact Good.throwPanic _
  | exact Good.throwUnmodelled _
  | exact Good.throwRt _ _
  | exact Good.liftExcept _ _
  | exact Good.newCell _
  | exact Good.emit _
  | exact Good.allocCells _
  | assumption
  | apply Good.bind
  | intro _
  | split
  | dsimp only)

macro "good_auto" : tactic => `(tactic| repeat' good_step)

theorem Good.callNative (f : Native) (args : List Val) (this : Option Val)
    (hargs : ∀ v ∈ args, Plain v) : Good (Jqawk.callNative f args this) := by
  cases f
  case arrPop => exact Good.callNative_arrPop args this
  case arrPopfirst => exact Good.callNative_arrPopfirst args this
  case objPluck => exact Good.callNative_objPluck args this
  case arrPush =>
    unfold Jqawk.callNative
    apply Good.bind Good.getHeap
    intro h
    dsimp only
    split
    · split
      · exact Good.pure _
      · exact Good.pushSeq _ _ (plain_getD args hargs 0) _
    · exact Good.pure _
  case arrSort =>
    unfold Jqawk.callNative
    apply Good.bind Good.getHeap
    intro h
    dsimp only
    split
    · rename_i a
      refine Good.bind (Good.newArrayOf _ ?_) (fun _ => Good.pure _)
      have hc : ∀ v ∈ (List.map h.get (h.arr a).toList).map
          (fun v => match copyVal v with | .ok w => w | .error _ => Val.str [] none), Plain v := by
        intro v hv
        obtain ⟨w, _, rfl⟩ := List.mem_map.mp hv
        cases hcv : copyVal w with
        | ok x => exact plain_of_copyVal hcv
        | error m => exact plain_strNone _
      intro v hv
      split at hv
      · exact hc v (List.mem_mergeSort.mp hv)
      · exact hc v (List.mem_mergeSort.mp hv)
    · exact Good.pure _
  case strSplit =>
    unfold Jqawk.callNative
    apply Good.bind Good.getHeap
    intro h
    dsimp only
    split
    · split
      · exact Good.pure _
      · refine Good.bind (Good.newArrayOf _ ?_) (fun _ => Good.pure _)
        intro v hv
        obtain ⟨w, _, rfl⟩ := List.mem_map.mp hv
        exact plain_strNone _
    · exact Good.bind (Good.newArrayOf _ (fun _ h => by cases h)) (fun _ => Good.pure _)
  all_goals
    unfold Jqawk.callNative
    apply Good.bind Good.getHeap
    intro h
    dsimp only
    good_auto

end Jqawk.HeapInv
