/-
  `-r E` versus `BEGINFILE { $ = E }` (C14): selectors that create containers and call methods.

  Class `selX ok`: `$` (and the names `ok` allows), literals, array / object literals, member /
  index steps, unary and binary operators other than assignment and `++`/`--`, calls, `match`
  whose case bodies are expressions of the same kind.

  For the nested evaluator of a selector (no program functions) evaluating such an expression:
  no cell that exists ever changes its value (`CK`), no signal is raised, and every array or
  object of the evaluator's region — those of the converted document and those the expression
  creates — holds member cells other than the `$` cell whose values mention no cell (`MPH`).
  The second fact is what lets the main evaluator take over the selected value: nothing that
  stays reachable refers to the cell `$` was bound to.

  The region invariant of Lemmas/NoPanic*.lean (`InvK`) is carried along: `pluck` copies the
  raw values of the members of its receiver, which are known to be plain only because the
  receiver is an object of the region.
-/
import Jqawk.Lemmas.SelectorEval
import Jqawk.Lemmas.SelectorPath
import Jqawk.Lemmas.NoPanicAll
import Jqawk.Lemmas.NoPanicDriver

set_option linter.unusedVariables false
set_option linter.unusedSimpArgs false
set_option linter.unusedSectionVars false

namespace Jqawk
namespace Sel

/-! ### the class -/

mutual
def selX (ok : Bytes → Bool) : Expr → Bool
  | .lit _ => true
  | .ident t => t.tag == .dollar || ok t.text
  | .arr _ items => selXs ok items
  | .obj _ items => selXKVs ok items
  | .unary e op _ => !(op.tag == .plusPlus) && !(op.tag == .minusMinus) && selX ok e
  | .binary l r op => !(op.tag == .equal) && selX ok l && (op.tag == .is || selX ok r)
  | .call f args => selX ok f && selXs ok args
  | .match_ _ v cases => selX ok v && selXCases ok cases
def selXs (ok : Bytes → Bool) : List Expr → Bool
  | [] => true
  | e :: es => selX ok e && selXs ok es
def selXKVs (ok : Bytes → Bool) : List (Bytes × Expr) → Bool
  | [] => true
  | (_, e) :: es => selX ok e && selXKVs ok es
def selXCases (ok : Bytes → Bool) : List MatchCase → Bool
  | [] => true
  | (.mk _ body) :: cs => selXBody ok body && selXCases ok cs
def selXBody (ok : Bytes → Bool) : Stmt → Bool
  | .expr be => selX ok be
  | _ => false
end

mutual
theorem selX_ids (ok : Bytes → Bool) : ∀ e : Expr, selX ok e = true → idsE true ok e = true
  | .lit _, _ => rfl
  | .ident t, h => by
    simp only [selX, Bool.or_eq_true] at h
    simp only [idsE]
    split
    · rfl
    · rename_i hd
      rcases h with h | h
      · exact absurd h hd
      · exact h
  | .arr _ items, h => by simp only [selX] at h; rw [idsE]; exact selXs_ids ok items h
  | .obj _ items, h => by simp only [selX] at h; rw [idsE]; exact selXKVs_ids ok items h
  | .unary e op p, h => by
    simp only [selX, Bool.and_eq_true] at h
    rw [idsE]; exact selX_ids ok e h.2
  | .binary l r op, h => by
    simp only [selX, Bool.and_eq_true, Bool.or_eq_true] at h
    rw [idsE, selX_ids ok l h.1.2]
    rcases h.2 with h2 | h2
    · simp [h2]
    · simp [selX_ids ok r h2]
  | .call f args, h => by
    simp only [selX, Bool.and_eq_true] at h
    rw [idsE, selX_ids ok f h.1, selXs_ids ok args h.2]; rfl
  | .match_ t v cases, h => by
    simp only [selX, Bool.and_eq_true] at h
    rw [idsE, selX_ids ok v h.1, selXCases_ids ok cases h.2]; rfl
theorem selXs_ids (ok : Bytes → Bool) : ∀ es : List Expr, selXs ok es = true → idsEs true ok es = true
  | [], _ => rfl
  | e :: es, h => by
    simp only [selXs, Bool.and_eq_true] at h
    rw [idsEs, selX_ids ok e h.1, selXs_ids ok es h.2]; rfl
theorem selXKVs_ids (ok : Bytes → Bool) : ∀ es : List (Bytes × Expr), selXKVs ok es = true →
    idsKVs true ok es = true
  | [], _ => rfl
  | (_, e) :: es, h => by
    simp only [selXKVs, Bool.and_eq_true] at h
    rw [idsKVs, selX_ids ok e h.1, selXKVs_ids ok es h.2]; rfl
theorem selXCases_ids (ok : Bytes → Bool) : ∀ cs : List MatchCase, selXCases ok cs = true →
    idsCases true ok cs = true
  | [], _ => rfl
  | (.mk pats body) :: cs, h => by
    simp only [selXCases, Bool.and_eq_true] at h
    rw [idsCases, selXCases_ids ok cs h.2]
    cases body with
    | expr be =>
      simp only [selXBody] at h
      rw [idsS, selX_ids ok be h.1]; rfl
    | _ => simp [selXBody] at h
end

mutual
/-- the container-free selectors of Lemmas/SelectorPath.lean are a special case -/
theorem selE_selX (ok : Bytes → Bool) : ∀ e : Expr, selE e = true → selX ok e = true
  | .lit _, _ => rfl
  | .ident t, h => by simp only [selE] at h; simp [selX, h]
  | .unary e op p, h => by
    simp only [selE, Bool.and_eq_true] at h
    rw [selX, selE_selX ok e h.2, h.1.1, h.1.2]; rfl
  | .binary l r op, h => by
    simp only [selE, Bool.and_eq_true, Bool.or_eq_true] at h
    rw [selX, selE_selX ok l h.1.2, h.1.1]
    rcases h.2 with h2 | h2
    · simp [h2]
    · simp [selE_selX ok r h2]
  | .match_ t v cases, h => by
    simp only [selE, Bool.and_eq_true] at h
    rw [selX, selE_selX ok v h.1, selCases_selX ok cases h.2]; rfl
  | .arr _ _, h => by simp [selE] at h
  | .obj _ _, h => by simp [selE] at h
  | .call _ _, h => by simp [selE] at h
theorem selCases_selX (ok : Bytes → Bool) : ∀ cs : List MatchCase, selCases cs = true → selXCases ok cs = true
  | [], _ => rfl
  | (.mk pats body) :: cs, h => by
    simp only [selCases, Bool.and_eq_true] at h
    rw [selXCases, selCases_selX ok cs h.2]
    cases body with
    | expr be =>
      simp only [Sel.selBody] at h
      rw [selXBody, selE_selX ok be h.1]; rfl
    | _ => simp [Sel.selBody] at h
end

/-! ### cells keep their values; members of region containers are plain -/

/-- every cell that exists keeps its value -/
def CK (h h' : Heap) : Prop := h.cells.size ≤ h'.cells.size ∧ ∀ i, i < h.cells.size → h'.get i = h.get i

theorem CK.refl (h : Heap) : CK h h := ⟨Nat.le_refl _, fun _ _ => rfl⟩
theorem CK.trans {a b c : Heap} (h1 : CK a b) (h2 : CK b c) : CK a c :=
  ⟨Nat.le_trans h1.1 h2.1, fun i hi => by rw [h2.2 i (Nat.lt_of_lt_of_le hi h1.1), h1.2 i hi]⟩

theorem CK.alloc (h : Heap) (v : Val) : CK h (h.alloc v).2 := by
  refine ⟨by rw [size_alloc]; exact Nat.le_succ _, fun i hi => ?_⟩
  rw [get_alloc]; simp only [Nat.ne_of_lt hi, ↓reduceIte]

/-- a cell fit to be a member of a region container: not the `$` cell, allocated, holding a value
    without references -/
def PC (rc : CellId) (h : Heap) (x : CellId) : Prop := x ≠ rc ∧ x < h.cells.size ∧ Val.plain (h.get x)

theorem PC.mono {rc : CellId} {h h' : Heap} {x : CellId} (p : PC rc h x) (ck : CK h h') : PC rc h' x :=
  ⟨p.1, Nat.lt_of_lt_of_le p.2.1 ck.1, by rw [ck.2 x p.2.1]; exact p.2.2⟩

structure MPH (P : Region) (rc : CellId) (h : Heap) : Prop where
  rcLt : rc < h.cells.size
  arrs : ∀ k, P.A ≤ k → ∀ x ∈ (h.arr k).toList, PC rc h x
  objs : ∀ k, P.O ≤ k → ∀ kc ∈ h.obj k, PC rc h kc.2

variable {P : Region} {rc : CellId}

/-- the cells changed, the containers did not -/
theorem MPH.cells {h h' : Heap} (m : MPH P rc h) (ck : CK h h') (ha : h'.arrs = h.arrs) (ho : h'.objs = h.objs) :
    MPH P rc h' := by
  refine ⟨Nat.lt_of_lt_of_le m.rcLt ck.1, ?_, ?_⟩
  · intro k hk x hx
    have : h'.arr k = h.arr k := by simp only [Heap.arr, ha]
    rw [this] at hx
    exact (m.arrs k hk x hx).mono ck
  · intro k hk kc hkc
    have : h'.obj k = h.obj k := by simp only [Heap.obj, ho]
    rw [this] at hkc
    exact (m.objs k hk kc hkc).mono ck

theorem MPH.alloc {h : Heap} (m : MPH P rc h) (v : Val) : MPH P rc (h.alloc v).2 :=
  m.cells (CK.alloc h v) rfl rfl

theorem PC.new {h : Heap} (m : MPH P rc h) {v : Val} (hv : Val.plain v) : PC rc (h.alloc v).2 h.cells.size := by
  refine ⟨Nat.ne_of_gt m.rcLt, by rw [size_alloc]; exact Nat.lt_succ_self _, ?_⟩
  rw [get_alloc]; simp only [↓reduceIte]; exact hv

theorem MPH.allocArr {h : Heap} (m : MPH P rc h) {items : Array CellId} (hi : ∀ x ∈ items.toList, PC rc h x) :
    MPH P rc (h.allocArr items).2 := by
  refine ⟨m.rcLt, ?_, m.objs⟩
  intro k hk x hx
  rw [arr_allocArr] at hx
  split at hx
  · exact hi x hx
  · exact m.arrs k hk x hx

theorem MPH.allocObj {h : Heap} (m : MPH P rc h) {items : List (Bytes × CellId)}
    (hi : ∀ kc ∈ items, PC rc h kc.2) : MPH P rc (h.allocObj items).2 := by
  refine ⟨m.rcLt, m.arrs, ?_⟩
  intro k hk kc hkc
  rw [obj_allocObj] at hkc
  split at hkc
  · exact hi kc hkc
  · exact m.objs k hk kc hkc

theorem MPH.setArr {h : Heap} (m : MPH P rc h) (a : ArrId) {items : Array CellId}
    (hi : P.A ≤ a → ∀ x ∈ items.toList, PC rc h x) : MPH P rc (h.setArr a items) := by
  refine ⟨m.rcLt, ?_, m.objs⟩
  intro k hk x hx
  rw [arr_setArr] at hx
  split at hx
  · rename_i e; exact hi (e.1 ▸ hk) x hx
  · exact m.arrs k hk x hx


/-! ### the logic: a result together with the region fact about the same computation -/

variable (P rc)

/-- what a step of the nested evaluator guarantees, from a state whose heap satisfies `MPH` -/
def Qp {α : Type} (s : St) (R : α → St → Prop) : Res α → Prop
  | .ok a s' => CK s.heap s'.heap ∧ MPH P rc s'.heap ∧ R a s'
  | .err e _ => ∀ g, e ≠ .sig g
  | .oof => True

variable {P rc}

theorem Qp.conseq {α : Type} {s : St} {R R' : α → St → Prop} {r : Res α} (h : Qp P rc s R r)
    (hr : ∀ a s', R a s' → R' a s') : Qp P rc s R' r := by
  cases r with
  | ok a s' => exact ⟨h.1, h.2.1, hr a s' h.2.2⟩
  | err e s' => exact h
  | oof => trivial

/-- sequencing; the region fact about the first computation (`np`) is cited from
    Lemmas/NoPanic*.lean -/
theorem Qp.bind {α β : Type} {m : EM α} {f : α → EM β} {s : St} {Rg : α → Prop} {R1 : α → St → Prop}
    {R2 : β → St → Prop} (np : NPres P (KSet P) Rg (m s)) (q : Qp P rc s R1 (m s))
    (hf : ∀ a s1, m s = .ok a s1 → InvK P (KSet P) s1 → Rg a → CK s.heap s1.heap → MPH P rc s1.heap →
      R1 a s1 → Qp P rc s1 R2 (f a s1)) :
    Qp P rc s R2 ((m >>= f) s) := by
  show Qp P rc s R2 (EM.bind m f s)
  unfold EM.bind
  cases hr : m s with
  | oof => trivial
  | err e s1 => rw [hr] at q; exact q
  | ok a s1 =>
    rw [hr] at np q
    have h2 := hf a s1 hr np.1 np.2 q.1 q.2.1 q.2.2
    show Qp P rc s R2 (f a s1)
    revert h2
    generalize f a s1 = r2
    intro h2
    cases r2 with
    | ok b s2 => exact ⟨q.1.trans h2.1, h2.2.1, h2.2.2⟩
    | err e s2 => exact h2
    | oof => trivial

/-- a computation that only allocates cells (Lemmas/SelectorPath.lean) -/
theorem Qp.of_NA {α : Type} {s : St} {r : Res α} (h : NAres s r) (m : MPH P rc s.heap) :
    Qp P rc s (fun _ _ => True) r := by
  cases r with
  | ok a s' =>
    have ck : CK s.heap s'.heap := ⟨h.heap.cells, fun i hi => h.heap.get i hi⟩
    exact ⟨ck, m.cells ck h.arrs h.objs, trivial⟩
  | err e s' => exact h.2
  | oof => trivial

theorem qp_pure {α : Type} {s : St} {R : α → St → Prop} (m : MPH P rc s.heap) {a : α} (hr : R a s) :
    Qp P rc s R ((pure a : EM α) s) := ⟨CK.refl _, m, hr⟩

theorem qp_throwRt {α : Type} {s s' : St} {R : α → St → Prop} (p : Nat) (msg : String) :
    Qp P rc s R ((throwRt p msg : EM α) s') := fun g h => by cases h

/-- a fresh cell; if the value is plain the cell can become a member -/
theorem qp_newCell {s : St} (m : MPH P rc s.heap) (v : Val) :
    Qp P rc s (fun c s' => Val.plain v → PC rc s'.heap c) (newCell v s) :=
  ⟨CK.alloc _ _, m.alloc v, fun hv => PC.new m hv⟩

/-- a fresh cell holding a copy: it can become a member -/
theorem qp_newCopy {s : St} (m : MPH P rc s.heap) (x : Val) (v : CellId) :
    Qp P rc s (fun r s' => ∀ c, r = .ok c → PC rc s'.heap c)
      ((newCell x >>= fun c => copyValue v c) s) := by
  rw [newCopy_eq]
  cases hcv : copyVal ((s.heap.alloc x).2.get v) with
  | error msg =>
    exact ⟨CK.alloc _ _, m.alloc x, fun c h => by cases h⟩
  | ok w =>
    have ck : CK s.heap ((s.heap.alloc x).2.set s.heap.cells.size w) := by
      refine ⟨by rw [Heap.size_set, size_alloc]; exact Nat.le_succ _, fun i hi => ?_⟩
      rw [get_set, get_alloc]
      simp only [Nat.ne_of_lt hi, false_and, ↓reduceIte]
    refine ⟨ck, m.cells ck rfl rfl, ?_⟩
    intro c h
    cases h
    refine ⟨Nat.ne_of_gt m.rcLt, by rw [Heap.size_set, size_alloc]; exact Nat.lt_succ_self _, ?_⟩
    rw [get_set, size_alloc]
    simp only [Nat.lt_succ_self, and_self, ↓reduceIte]
    exact copyVal_plain hcv

theorem qp_allocArrM {s : St} (m : MPH P rc s.heap) {items : Array CellId}
    (hi : ∀ x ∈ items.toList, PC rc s.heap x) : Qp P rc s (fun _ _ => True) (allocArrM items s) :=
  ⟨CK.refl _, m.allocArr hi, trivial⟩

theorem qp_allocObjM {s : St} (m : MPH P rc s.heap) {items : List (Bytes × CellId)}
    (hi : ∀ kc ∈ items, PC rc s.heap kc.2) : Qp P rc s (fun _ _ => True) (allocObjM items s) :=
  ⟨CK.refl _, m.allocObj hi, trivial⟩

/-- a frame pushed, the body run in it, the frames restored (state-level form) -/
theorem qp_framed {α : Type} {s : St} {R : α → St → Prop} (hR : ∀ a s1 fr, R a s1 → R a { s1 with frames := fr })
    (name : Bytes) (pos : Nat) (body : EM α)
    (hb : Qp P rc { s with frames := ⟨name, []⟩ :: s.frames, maxDepth := max s.maxDepth (s.frames.length + 1) } R
      (body { s with frames := ⟨name, []⟩ :: s.frames, maxDepth := max s.maxDepth (s.frames.length + 1) })) :
    Qp P rc s R ((do
      let saved := (← getSt).frames
      match (← pushFrame name) with
      | .error m => throwRt pos m
      | .ok () => withFrames saved body) s) := by
  by_cases hd : s.frames.length > callDepthLimit
  · simp only [Bind.bind, EM.bind, getSt, pushFrame, hd, ↓reduceIte]
    exact qp_throwRt pos _
  · simp only [Bind.bind, EM.bind, getSt, pushFrame, hd, ↓reduceIte, withFrames]
    revert hb
    generalize body _ = r
    intro hb
    cases r with
    | ok a s1 => exact ⟨hb.1, hb.2.1, hR a s1 _ hb.2.2⟩
    | err e s1 => exact hb
    | oof => trivial

/-- the state in which the body of a pushed frame starts satisfies the region invariant -/
theorem invK_push {K : Option CellId → Prop} {s : St} (h : InvK P K s) (name : Bytes) (d : Nat) :
    InvK P K { s with frames := ⟨name, []⟩ :: s.frames, maxDepth := d } := by
  refine ⟨⟨h.heap, ⟨by simp, ?_⟩, h.ret⟩, h.rr⟩
  intro f hf
  rcases List.mem_cons.mp hf with e | e
  · subst e; exact RegM.nil
  · exact h.frames.2 f e

/-! ### the natives -/

theorem qp_heapSame {α : Type} {s s' : St} (m : MPH P rc s.heap) (a : α) (h : s'.heap = s.heap) :
    Qp P rc s (fun _ _ => True) (.ok a s') := by
  refine ⟨?_, ?_, trivial⟩
  · rw [h]; exact CK.refl _
  · rw [h]; exact m

/-- fresh cells for plain values can become members -/
theorem qp_allocCells {s : St} (m : MPH P rc s.heap) : ∀ (vs : List Val), (∀ v ∈ vs, Val.plain v) →
    Qp P rc s (fun cs s' => s'.heap.arrs = s.heap.arrs ∧ s'.heap.objs = s.heap.objs ∧ ∀ c ∈ cs, PC rc s'.heap c)
      (allocCells vs s) := by
  intro vs
  induction vs generalizing s with
  | nil => intro _; exact ⟨CK.refl _, m, rfl, rfl, fun c h => by cases h⟩
  | cons v vs ih =>
    intro hv
    simp only [allocCells, bind, EM.bind, Jqawk.newCell, pure, EM.pure]
    have m1 := m.alloc v (P := P) (rc := rc)
    have h2 := ih (s := { s with heap := (s.heap.alloc v).2 }) m1 (fun x hx => hv x (List.mem_cons_of_mem _ hx))
    revert h2
    generalize allocCells vs { s with heap := (s.heap.alloc v).2 } = r
    intro h2
    cases r with
    | oof => trivial
    | err e s2 => exact h2
    | ok cs s2 =>
      obtain ⟨ck, m2, ha, ho, hc⟩ := h2
      refine ⟨(CK.alloc _ v).trans ck, m2, ha, ho, ?_⟩
      intro c hcm
      rcases List.mem_cons.mp hcm with e | e
      · subst e
        exact (PC.new m (hv v (List.mem_cons_self ..))).mono ck
      · exact hc c e

theorem qp_newArrayOf {s : St} (m : MPH P rc s.heap) (vs : List Val) (hv : ∀ v ∈ vs, Val.plain v) :
    Qp P rc s (fun _ _ => True) (newArrayOf vs s) := by
  rw [newArrayOf_eq2]
  simp only [bind, EM.bind]
  have h1 := qp_allocCells m vs hv
  revert h1
  generalize allocCells vs s = r
  intro h1
  cases r with
  | oof => trivial
  | err e s1 => exact h1
  | ok cs s1 =>
    obtain ⟨ck, m1, _, _, hc⟩ := h1
    exact ⟨ck, m1.allocArr (by simpa using hc), trivial⟩

theorem plain_pluckVal {h : Heap} (m : MPH P rc h) {o : ObjId} (ho : P.O ≤ o) (key : Bytes) :
    Val.plain (pluckVal h (h.obj o) key) := by
  unfold pluckVal
  cases hl : objLookup (h.obj o) key with
  | none => rfl
  | some c =>
    have hmem : (key, c) ∈ h.obj o ∨ True := .inr trivial
    -- the cell found is a member
    have : ∃ kc ∈ h.obj o, kc.2 = c := by
      clear hmem
      generalize h.obj o = l at hl
      induction l with
      | nil => cases hl
      | cons x rest ih =>
        obtain ⟨k0, c0⟩ := x
        unfold objLookup at hl
        split at hl
        · cases hl; exact ⟨(k0, c), List.mem_cons_self .., rfl⟩
        · obtain ⟨kc, h1, h2⟩ := ih hl
          exact ⟨kc, List.mem_cons_of_mem _ h1, h2⟩
    obtain ⟨kc, h1, h2⟩ := this
    rw [← h2]
    exact (m.objs o ho kc h1).2.2

theorem qp_map {α β : Type} {s : St} {m : EM α} (g : α → β) (h : Qp P rc s (fun _ _ => True) (m s)) :
    Qp P rc s (fun _ _ => True) ((m >>= fun r => (pure (g r) : EM β)) s) := by
  show Qp P rc s _ (EM.bind m _ s)
  unfold EM.bind
  revert h
  generalize m s = r
  intro h
  cases r with
  | ok a s' => exact ⟨h.1, h.2.1, trivial⟩
  | err e s' => exact h
  | oof => trivial

/-- computations that preserve the member invariant from every state (no result condition) -/
def QpM {α : Type} (P : Region) (rc : CellId) (m : EM α) : Prop :=
  ∀ s, MPH P rc s.heap → Qp P rc s (fun _ _ => True) (m s)

namespace QpM

theorem pure {α : Type} (a : α) : QpM P rc (Pure.pure a : EM α) := fun s m => ⟨CK.refl _, m, trivial⟩
theorem oof {α : Type} : QpM P rc (Jqawk.oof : EM α) := fun _ _ => trivial
theorem getHeap : QpM P rc Jqawk.getHeap := fun s m => ⟨CK.refl _, m, trivial⟩
theorem emit (b : Bytes) : QpM P rc (Jqawk.emit b) := fun s m => ⟨CK.refl _, m, trivial⟩
theorem throwUnmodelled {α : Type} (w : String) : QpM P rc (Jqawk.throwUnmodelled w : EM α) :=
  fun _ _ g h => by cases h
theorem newArrayOfPlain (vs : List Val) (hv : ∀ v ∈ vs, Val.plain v) : QpM P rc (Jqawk.newArrayOf vs) :=
  fun s m => qp_newArrayOf m vs hv

theorem bind {α β : Type} {m : EM α} {f : α → EM β} (hm : QpM P rc m) (hf : ∀ a, QpM P rc (f a)) :
    QpM P rc (m >>= f) := by
  intro s hs
  show Qp P rc s _ (EM.bind m f s)
  unfold EM.bind
  have h1 := hm s hs
  cases hr : m s with
  | oof => trivial
  | err e s1 => rw [hr] at h1; exact h1
  | ok a s1 =>
    rw [hr] at h1
    have h2 := hf a s1 h1.2.1
    show Qp P rc s _ (f a s1)
    revert h2
    generalize f a s1 = r2
    intro h2
    cases r2 with
    | ok b s2 => exact ⟨h1.1.trans h2.1, h2.2.1, trivial⟩
    | err e s2 => exact h2
    | oof => trivial

end QpM

/-- closes the goals of natives that leave the heap alone -/
macro "qpm_auto" : tactic => `(tactic| repeat' (with_reducible_and_instances first
  | exact QpM.pure _
  | exact QpM.oof
  | exact QpM.getHeap
  | exact QpM.emit _
  | exact QpM.throwUnmodelled _
  | exact QpM.newArrayOfPlain [] (fun _ h => by cases h)
  | apply QpM.bind
  | intro _
  | split
  | dsimp only))

/-- the receiver is not of the kind for which the method allocates or changes members -/
def wrongRecv (f : Native) (this : Option Val) : Prop :=
  match f with
  | .arrPush | .arrPop | .arrPopfirst | .arrSort => ∀ a, this ≠ some (.arr a)
  | .objPluck => ∀ o, this ≠ some (.obj o)
  | .strSplit => ∀ x sp, this ≠ some (.str x sp)
  | _ => True

theorem qpM_wrong (f : Native) (args : List Val) (this : Option Val) (h : wrongRecv f this) :
    QpM P rc (callNative f args this) := by
  unfold callNative
  apply QpM.bind QpM.getHeap
  intro hp
  cases f <;> dsimp only [wrongRecv] at h ⊢
  case arrPush => split; · rename_i a; exact absurd rfl (h a)
                  qpm_auto
  case arrPop => split; · rename_i a; exact absurd rfl (h a)
                 qpm_auto
  case arrPopfirst => split; · rename_i a; exact absurd rfl (h a)
                      qpm_auto
  case arrSort => split; · rename_i a; exact absurd rfl (h a)
                  qpm_auto
  case objPluck => split; · rename_i o; exact absurd rfl (h o)
                   qpm_auto
  case strSplit => split; · rename_i x sp; exact absurd rfl (h x sp)
                   qpm_auto
  all_goals qpm_auto

theorem qp_setArrM {s : St} (m : MPH P rc s.heap) (a : ArrId) (f : Array CellId → Array CellId)
    (hf : P.A ≤ a → ∀ x ∈ (f (s.heap.arr a)).toList, PC rc s.heap x) :
    Qp P rc s (fun _ _ => True) (Sel.setArrM a f s) :=
  ⟨CK.refl _, m.setArr a hf, trivial⟩

theorem mem_pluckMembers {kcs m0 : List (Bytes × CellId)} {kc : Bytes × CellId}
    (h : kc ∈ pluckMembers kcs m0) : kc ∈ m0 ∨ ∃ x ∈ kcs, kc.2 = x.2 := by
  induction kcs generalizing m0 with
  | nil => exact .inl h
  | cons x rest ih =>
    simp only [pluckMembers, List.foldl_cons] at h
    rcases ih (m0 := objInsert m0 x.1 x.2) h with h1 | ⟨y, hy, e⟩
    · have : kc ∈ m0 ∨ kc.2 = x.2 := by
        clear ih h
        induction m0 with
        | nil => simp [objInsert] at h1; right; rw [h1]
        | cons z zs ihz =>
          obtain ⟨k0, c0⟩ := z
          unfold objInsert at h1
          split at h1
          · rcases List.mem_cons.mp h1 with e | e
            · right; rw [e]
            · left; exact List.mem_cons_of_mem _ e
          · rcases List.mem_cons.mp h1 with e | e
            · left; rw [e]; exact List.mem_cons_self ..
            · rcases ihz e with e2 | e2
              · left; exact List.mem_cons_of_mem _ e2
              · right; exact e2
      rcases this with e | e
      · exact .inl e
      · exact .inr ⟨x, List.mem_cons_self .., e⟩
    · exact .inr ⟨y, List.mem_cons_of_mem _ hy, e⟩

theorem qp_callNative (f : Native) {s : St} (m : MPH P rc s.heap) {args : List Val}
    (hargs : ∀ v ∈ args, Val.plain v) {this : Option Val} (hthis : ∀ v, this = some v → GoodV P v) :
    Qp P rc s (fun _ _ => True) (callNative f args this s) := by
  have harg0 : Val.plain (args.getD 0 .unknown) := by
    rw [List.getD_eq_getElem?_getD]
    cases h : args[0]? with
    | none => trivial
    | some v => exact hargs v (List.mem_of_getElem? h)
  cases f
  case arrPush =>
    cases this with
    | none => exact qpM_wrong .arrPush args _ (fun _ h => by cases h) s m
    | some tv =>
      cases tv with
      | arr a =>
        rw [callNative_push_eq]
        cases checkArgCount args 1 with
        | error msg => exact qp_heapSame m _ rfl
        | ok u =>
          simp only [bind, EM.bind, Jqawk.newCell, pure, EM.pure, Sel.setArrM]
          have m1 := m.alloc (args.getD 0 .unknown) (P := P) (rc := rc)
          have hnew := PC.new m harg0 (P := P) (rc := rc)
          refine ⟨CK.alloc _ _, m1.setArr a (fun ha x hx => ?_), trivial⟩
          simp only [Array.toList_push, List.mem_append, List.mem_singleton] at hx
          rcases hx with hx | hx
          · exact m1.arrs a ha x hx
          · rw [hx]; exact hnew
      | _ => exact qpM_wrong .arrPush args _ (fun _ h => by cases h) s m
  case arrPop =>
    cases this with
    | none => exact qpM_wrong .arrPop args _ (fun _ h => by cases h) s m
    | some tv =>
      cases tv with
      | arr a =>
        rw [callNative_pop_eq]
        cases checkArgCount args 0 with
        | error msg => exact qp_heapSame m _ rfl
        | ok u =>
          simp only [bind, EM.bind, getHeap, pure, EM.pure, Sel.setArrM]
          split
          · exact qp_heapSame m _ rfl
          · refine ⟨CK.refl _, m.setArr a (fun ha x hx => ?_), trivial⟩
            simp only [Array.toList_pop] at hx
            exact m.arrs a ha x (List.dropLast_subset _ hx)
      | _ => exact qpM_wrong .arrPop args _ (fun _ h => by cases h) s m
  case arrPopfirst =>
    cases this with
    | none => exact qpM_wrong .arrPopfirst args _ (fun _ h => by cases h) s m
    | some tv =>
      cases tv with
      | arr a =>
        rw [callNative_popfirst_eq]
        cases checkArgCount args 0 with
        | error msg => exact qp_heapSame m _ rfl
        | ok u =>
          simp only [bind, EM.bind, getHeap, pure, EM.pure, Sel.setArrM]
          split
          · exact qp_heapSame m _ rfl
          · refine ⟨CK.refl _, m.setArr a (fun ha x hx => ?_), trivial⟩
            simp only [Array.toList_extract, List.extract_eq_take_drop] at hx
            exact m.arrs a ha x (List.mem_of_mem_drop (List.mem_of_mem_take hx))
      | _ => exact qpM_wrong .arrPopfirst args _ (fun _ h => by cases h) s m
  case arrSort =>
    cases this with
    | none => exact qpM_wrong .arrSort args _ (fun _ h => by cases h) s m
    | some tv =>
      cases tv with
      | arr a =>
        rw [callNative_sort_eq]
        simp only [bind, EM.bind, getHeap]
        refine qp_map _ (qp_newArrayOf m _ ?_)
        intro x hx
        have hok : ∀ y ∈ sortCopies ((s.heap.arr a).toList.map s.heap.get), Val.plain y := by
          intro y hy
          simp only [sortCopies, List.mem_map] at hy
          obtain ⟨v, _, rfl⟩ := hy
          cases hc : copyVal v with
          | ok z => exact copyVal_plain hc
          | error _ => rfl
        split at hx
        · exact hok x ((List.mergeSort_perm _ _).mem_iff.mp hx)
        · exact hok x ((List.mergeSort_perm _ _).mem_iff.mp hx)
      | _ => exact qpM_wrong .arrSort args _ (fun _ h => by cases h) s m
  case objPluck =>
    cases this with
    | none => exact qpM_wrong .objPluck args _ (fun _ h => by cases h) s m
    | some tv =>
      cases tv with
      | obj o =>
        have ho : P.O ≤ o := hthis _ rfl
        rw [callNative_pluck_eq]
        simp only [bind, EM.bind, getHeap]
        rw [pluckCollect_eq]
        by_cases hk : args.all isKeyVal = true
        · simp only [hk, ↓reduceIte, List.reverse_nil, List.nil_append]
          have hvals : ∀ v ∈ (args.map fun k => (k.str!, pluckVal s.heap (s.heap.obj o) k.str!)).map (·.2),
              Val.plain v := by
            intro v hv
            simp only [List.map_map, List.mem_map, Function.comp] at hv
            obtain ⟨k, _, rfl⟩ := hv
            exact plain_pluckVal m ho _
          have h1 := qp_allocCells m _ hvals
          simp only [bind, EM.bind]
          revert h1
          generalize allocCells _ s = r
          intro h1
          cases r with
          | oof => exact trivial
          | err e s1 => exact h1
          | ok cs s1 =>
            obtain ⟨ck, m1, _, _, hc⟩ := h1
            simp only [allocObjM, pure, EM.pure]
            refine ⟨ck, m1.allocObj ?_, trivial⟩
            intro kc hkc
            rcases mem_pluckMembers hkc with h0 | ⟨x, hx, e⟩
            · cases h0
            · rw [e]; exact hc _ (List.of_mem_zip hx).2
        · simp only [hk, Bool.false_eq_true, ↓reduceIte]
          exact qp_heapSame m _ rfl
      | _ => exact qpM_wrong .objPluck args _ (fun _ h => by cases h) s m
  case strSplit =>
    cases this with
    | none => exact qpM_wrong .strSplit args _ (fun _ _ h => by cases h) s m
    | some tv =>
      cases tv with
      | str str sp =>
        simp only [callNative, bind, EM.bind, getHeap]
        cases checkArg args 0 Kind.str with
        | error msg => exact qp_heapSame m _ rfl
        | ok sep =>
          refine qp_map _ (qp_newArrayOf m _ ?_)
          intro x hx
          obtain ⟨b, _, rfl⟩ := List.mem_map.mp hx
          rfl
      | _ => exact qpM_wrong .strSplit args _ (fun _ _ h => by cases h) s m
  all_goals exact qpM_wrong _ args this (by unfold wrongRecv; trivial) s m


/-! ### the induction over the nested evaluator (`Program.empty`) -/

/-- sequencing when the continuation needs no region fact -/
theorem Qp.bind' {α β : Type} {m : EM α} {f : α → EM β} {s : St} {R1 : α → St → Prop}
    {R2 : β → St → Prop} (q : Qp P rc s R1 (m s))
    (hf : ∀ a s1, m s = .ok a s1 → CK s.heap s1.heap → MPH P rc s1.heap → R1 a s1 → Qp P rc s1 R2 (f a s1)) :
    Qp P rc s R2 ((m >>= f) s) := by
  show Qp P rc s R2 (EM.bind m f s)
  unfold EM.bind
  cases hr : m s with
  | oof => trivial
  | err e s1 => rw [hr] at q; exact q
  | ok a s1 =>
    rw [hr] at q
    have h2 := hf a s1 hr q.1 q.2.1 q.2.2
    show Qp P rc s R2 (f a s1)
    revert h2
    generalize f a s1 = r2
    intro h2
    cases r2 with
    | ok b s2 => exact ⟨q.1.trans h2.1, h2.2.1, h2.2.2⟩
    | err e s2 => exact h2
    | oof => trivial

abbrev pe : Program := Program.empty

structure AllPl (P : Region) (rc : CellId) (ok : Bytes → Bool) (n : Nat) : Prop where
  expr : ∀ (e : Expr) (s : St), selX ok e = true → e.wfB = true → InvK P (KSet P) s → MPH P rc s.heap →
    Qp P rc s (fun _ _ => True) (evalExpr pe n e s)
  objItems : ∀ (pos : Nat) (items : List (Bytes × Expr)) (acc : List (Bytes × CellId)) (s : St),
    selXKVs ok items = true → wfKVs items = true → RegM P acc → (∀ kc ∈ acc, PC rc s.heap kc.2) →
    InvK P (KSet P) s → MPH P rc s.heap →
    Qp P rc s (fun m s' => ∀ kc ∈ m, PC rc s'.heap kc.2) (evalObjItems pe n pos items acc s)
  exprList : ∀ (es : List Expr) (copy : Bool) (s : St), selXs ok es = true → wfEs es = true →
    InvK P (KSet P) s → MPH P rc s.heap →
    Qp P rc s (fun cs s' => copy = true → ∀ c ∈ cs, PC rc s'.heap c) (evalExprList pe n es copy s)
  matchCases : ∀ (pos : Nat) (v : CellId) (cs : List MatchCase) (s : St), selXCases ok cs = true →
    wfCases cs = true → P.N ≤ v → InvK P (KSet P) s → MPH P rc s.heap →
    Qp P rc s (fun _ _ => True) (evalMatchCases pe n pos v cs s)
  caseMatch : ∀ (v : CellId) (ps : List Expr) (s : St), wfEs ps = true → P.N ≤ v →
    InvK P (KSet P) s → MPH P rc s.heap → Qp P rc s (fun _ _ => True) (evalCaseMatch pe n v ps s)
  arrayCaseMatch : ∀ (v : CellId) (ps : List Expr) (s : St), wfEs ps = true → P.N ≤ v →
    InvK P (KSet P) s → MPH P rc s.heap → Qp P rc s (fun _ _ => True) (evalArrayCaseMatch pe n v ps s)
  matchElems : ∀ (cs : List CellId) (ps : List Expr) (acc : List (Bytes × CellId)) (s : St), wfEs ps = true →
    RegL P cs → RegM P acc → InvK P (KSet P) s → MPH P rc s.heap →
    Qp P rc s (fun _ _ => True) (Jqawk.matchElems pe n cs ps acc s)
  call : ∀ (pos : Nat) (f : CellId) (args : List CellId) (s : St), P.N ≤ f → RegL P args →
    (∀ c ∈ args, Val.plain (s.heap.get c)) → InvK P (KSet P) s → MPH P rc s.heap →
    Qp P rc s (fun _ _ => True) (callFunction pe n pos f args s)
  unary : ∀ (e : Expr) (op : Token) (p : Bool) (s : St), (op.tag == Tag.plusPlus) = false →
    (op.tag == Tag.minusMinus) = false → selX ok e = true → e.wfB = true →
    InvK P (KSet P) s → MPH P rc s.heap → Qp P rc s (fun _ _ => True) (evalUnary pe n e op p s)
  binary : ∀ (l r : Expr) (op : Token) (s : St), (op.tag == Tag.equal) = false → selX ok l = true →
    (op.tag == Tag.is || selX ok r) = true → l.wfB = true → r.wfB = true →
    InvK P (KSet P) s → MPH P rc s.heap → Qp P rc s (fun _ _ => True) (evalBinary pe n l r op s)

theorem allPl_zero (P : Region) (rc : CellId) (ok : Bytes → Bool) : AllPl P rc ok 0 := by
  constructor
  all_goals
    intros
    first
      | (unfold evalExpr; exact trivial)
      | (unfold evalObjItems; exact trivial)
      | (unfold evalExprList; exact trivial)
      | (unfold evalMatchCases; exact trivial)
      | (unfold evalCaseMatch; exact trivial)
      | (unfold evalArrayCaseMatch; exact trivial)
      | (unfold Jqawk.matchElems; exact trivial)
      | (unfold callFunction; exact trivial)
      | (unfold evalUnary; exact trivial)
      | (unfold evalBinary; exact trivial)

theorem npE (P : Region) (hF : P.F = 0) (n : Nat) : AllNP P pe n :=
  allNP P pe (by rw [hF]; exact Nat.zero_le _) (fun f hf => by cases hf) n

section PlSucc

variable {ok : Bytes → Bool} (hF : P.F = 0) {n : Nat} (ih : AllPl P rc ok n)
include hF ih

theorem pl_exprList (es : List Expr) (copy : Bool) (s : St) (hx : selXs ok es = true) (hwf : wfEs es = true)
    (hinv : InvK P (KSet P) s) (hm : MPH P rc s.heap) :
    Qp P rc s (fun cs s' => copy = true → ∀ c ∈ cs, PC rc s'.heap c) (evalExprList pe (n + 1) es copy s) := by
  cases es with
  | nil => unfold evalExprList; exact ⟨CK.refl _, hm, fun _ c h => by cases h⟩
  | cons e rest =>
    simp only [selXs, Bool.and_eq_true] at hx
    simp only [wfEs, Bool.and_eq_true] at hwf
    unfold evalExprList
    refine Qp.bind ((npE P hF n).expr e hwf.1 s hinv) (ih.expr e s hx.1 hwf.1 hinv hm)
      (fun v s1 _ inv1 hv ck1 m1 _ => ?_)
    cases copy with
    | false =>
      simp only [Bool.false_eq_true, ↓reduceIte]
      show Qp P rc s1 _ ((pure v >>= fun c => evalExprList pe n rest false >>= fun cs => pure (c :: cs)) s1)
      simp only [bind, EM.bind, pure, EM.pure]
      have h2 := ih.exprList rest false s1 hx.2 hwf.2 inv1 m1
      revert h2
      generalize evalExprList pe n rest false s1 = r
      intro h2
      cases r with
      | oof => exact trivial
      | err e2 s2 => exact h2
      | ok cs s2 => exact ⟨h2.1, h2.2.1, fun h => by cases h⟩
    | true =>
      simp only [↓reduceIte]
      rw [EM.bind_assoc']
      have npc : NPres P (KSet P) (ExReg P)
          ((newCell (.str [] none) >>= copyValue v) s1) :=
        (NP.bind (NP.newCell (v := .str [] none) trivial) (fun fresh hf => NP.copyValue hv hf)) s1 inv1
      refine Qp.bind (Rg := InR P) (R1 := fun c s' => PC rc s'.heap c) ?_ ?_ (fun c s2 _ inv2 hc ck2 m2 pc2 => ?_)
      · -- region fact for the copy
        show NPres P (KSet P) (InR P) (EM.bind _ _ s1)
        unfold EM.bind
        revert npc
        generalize (newCell (.str [] none) >>= copyValue v) s1 = r
        intro npc
        cases r with
        | oof => exact trivial
        | err e2 s2 => exact npc.err_cast
        | ok r2 s2 =>
          cases r2 with
          | error msg => exact (NP.throwRt (R := InR P) _ _) s2 npc.1
          | ok c => exact ⟨npc.1, npc.2⟩
      · show Qp P rc s1 _ (EM.bind _ _ s1)
        unfold EM.bind
        have q : Qp P rc s1 _ ((newCell (.str [] none) >>= copyValue v) s1) := qp_newCopy m1 (.str [] none) v
        revert q
        generalize (newCell (.str [] none) >>= copyValue v) s1 = r
        intro q
        cases r with
        | oof => exact trivial
        | err e2 s2 => exact q
        | ok r2 s2 =>
          cases r2 with
          | error msg => exact qp_throwRt _ _
          | ok c => exact ⟨q.1, q.2.1, q.2.2 c rfl⟩
      · refine Qp.bind' (ih.exprList rest true s2 hx.2 hwf.2 inv2 m2) (fun cs s3 _ ck3 m3 hcs => ?_)
        refine ⟨CK.refl _, m3, fun _ x hxm => ?_⟩
        rcases List.mem_cons.mp hxm with e1 | e1
        · rw [e1]; exact pc2.mono ck3
        · exact hcs rfl x e1


omit ih in
/-- region fact for "a fresh cell, then a copy into it" -/
theorem np_newCopy {s1 : St} (inv1 : InvK P (KSet P) s1) {v : CellId} (hv : P.N ≤ v) {x : Val} (hx : GoodV P x) :
    NPres P (KSet P) (ExReg P) ((newCell x >>= copyValue v) s1) :=
  (NP.bind (NP.newCell hx) (fun fresh hf => NP.copyValue hv hf)) s1 inv1

theorem pl_objItems (pos : Nat) (items : List (Bytes × Expr)) (acc : List (Bytes × CellId)) (s : St)
    (hx : selXKVs ok items = true) (hwf : wfKVs items = true) (hacc : RegM P acc)
    (hpc : ∀ kc ∈ acc, PC rc s.heap kc.2) (hinv : InvK P (KSet P) s) (hm : MPH P rc s.heap) :
    Qp P rc s (fun m s' => ∀ kc ∈ m, PC rc s'.heap kc.2) (evalObjItems pe (n + 1) pos items acc s) := by
  cases items with
  | nil => unfold evalObjItems; exact ⟨CK.refl _, hm, hpc⟩
  | cons kv rest =>
    obtain ⟨k, e⟩ := kv
    simp only [selXKVs, Bool.and_eq_true] at hx
    simp only [wfKVs, Bool.and_eq_true] at hwf
    unfold evalObjItems
    refine Qp.bind ((npE P hF n).expr e hwf.1 s hinv) (ih.expr e s hx.1 hwf.1 hinv hm)
      (fun v s1 _ inv1 hv ck1 m1 _ => ?_)
    rw [EM.bind_assoc']
    refine Qp.bind (np_newCopy hF inv1 hv (x := .unknown) trivial)
      (show Qp P rc s1 _ ((newCell .unknown >>= copyValue v) s1) from qp_newCopy m1 .unknown v)
      (fun r s2 _ inv2 hr ck2 m2 pc2 => ?_)
    cases r with
    | error msg => exact qp_throwRt _ _
    | ok c =>
      dsimp only
      refine Qp.conseq (ih.objItems pos rest (objInsert acc k c) s2 hx.2 hwf.2 (hacc.objInsert k hr) ?_ inv2 m2)
        (fun _ _ h => h)
      intro kc hkc
      have hall : ∀ kc ∈ acc, PC rc s2.heap kc.2 := fun kc h => ((hpc kc h).mono ck1).mono ck2
      clear hwf hx
      induction acc with
      | nil => simp [objInsert] at hkc; rw [hkc]; exact pc2 c rfl
      | cons z zs ihz =>
        obtain ⟨k0, c0⟩ := z
        unfold objInsert at hkc
        split at hkc
        · rcases List.mem_cons.mp hkc with e1 | e1
          · rw [e1]; exact pc2 c rfl
          · exact hall kc (List.mem_cons_of_mem _ e1)
        · rcases List.mem_cons.mp hkc with e1 | e1
          · rw [e1]; exact hall _ (List.mem_cons_self ..)
          · exact ihz (fun x hx => hacc x (List.mem_cons_of_mem _ hx))
              (fun x hx => hpc x (List.mem_cons_of_mem _ hx)) e1 (fun x hx => hall x (List.mem_cons_of_mem _ hx))

theorem pl_expr (e : Expr) (s : St) (hx : selX ok e = true) (hwf : e.wfB = true)
    (hinv : InvK P (KSet P) s) (hm : MPH P rc s.heap) :
    Qp P rc s (fun _ _ => True) (evalExpr pe (n + 1) e s) := by
  cases e with
  | lit t => exact Qp.of_NA ((allNA pe (n + 1)).expr (.lit t) rfl s) hm
  | ident t =>
    unfold evalExpr
    exact Qp.of_NA (NA.getIdentifier pe t s) hm
  | unary inner op p =>
    simp only [selX, Bool.and_eq_true, Bool.not_eq_true'] at hx
    simp only [Expr.wfB, Bool.and_eq_true] at hwf
    unfold evalExpr
    exact ih.unary inner op p s hx.1.1 hx.1.2 hx.2 hwf.2 hinv hm
  | binary l r op =>
    simp only [selX, Bool.and_eq_true, Bool.not_eq_true'] at hx
    simp only [Expr.wfB, Bool.and_eq_true] at hwf
    unfold evalExpr
    exact ih.binary l r op s hx.1.1 hx.1.2 hx.2 hwf.1.2 hwf.2 hinv hm
  | arr t items =>
    simp only [selX] at hx
    simp only [Expr.wfB] at hwf
    unfold evalExpr
    dsimp only
    refine Qp.bind ((npE P hF n).exprList items true hwf s hinv) (ih.exprList items true s hx hwf hinv hm)
      (fun cells s1 _ inv1 hreg ck1 m1 hpc => ?_)
    refine Qp.bind' (qp_allocArrM m1 (by simpa using hpc rfl)) (fun a s2 _ ck2 m2 _ => ?_)
    exact Qp.conseq (qp_newCell m2 (.arr a)) (fun _ _ _ => trivial)
  | obj t items =>
    simp only [selX] at hx
    simp only [Expr.wfB] at hwf
    unfold evalExpr
    dsimp only
    refine Qp.bind' (ih.objItems t.pos items [] s hx hwf RegM.nil (fun _ h => by cases h) hinv hm)
      (fun members s1 _ ck1 m1 hpc => ?_)
    refine Qp.bind' (qp_allocObjM m1 hpc) (fun o s2 _ ck2 m2 _ => ?_)
    exact Qp.conseq (qp_newCell m2 (.obj o)) (fun _ _ _ => trivial)
  | call f args =>
    simp only [selX, Bool.and_eq_true] at hx
    simp only [Expr.wfB, Bool.and_eq_true] at hwf
    unfold evalExpr
    dsimp only
    refine Qp.bind ((npE P hF n).expr f hwf.1 s hinv) (ih.expr f s hx.1 hwf.1 hinv hm)
      (fun fc s1 _ inv1 hfc ck1 m1 _ => ?_)
    refine Qp.bind ((npE P hF n).exprList args true hwf.2 s1 inv1) (ih.exprList args true s1 hx.2 hwf.2 inv1 m1)
      (fun acs s2 _ inv2 hacs ck2 m2 hpc => ?_)
    exact ih.call _ fc acs s2 hfc hacs (fun c hc => (hpc rfl c hc).2.2) inv2 m2
  | match_ t v cases =>
    simp only [selX, Bool.and_eq_true] at hx
    simp only [Expr.wfB, Bool.and_eq_true] at hwf
    unfold evalExpr
    dsimp only
    refine Qp.bind ((npE P hF n).expr v hwf.1 s hinv) (ih.expr v s hx.1 hwf.1 hinv hm)
      (fun value s1 _ inv1 hv ck1 m1 _ => ?_)
    exact ih.matchCases _ value cases s1 hx.2 hwf.2 hv inv1 m1


theorem pl_matchCases (pos : Nat) (v : CellId) (cs : List MatchCase) (s : St) (hx : selXCases ok cs = true)
    (hwf : wfCases cs = true) (hv : P.N ≤ v) (hinv : InvK P (KSet P) s) (hm : MPH P rc s.heap) :
    Qp P rc s (fun _ _ => True) (evalMatchCases pe (n + 1) pos v cs s) := by
  cases cs with
  | nil => unfold evalMatchCases; exact Qp.conseq (qp_newCell hm (.nil none)) (fun _ _ _ => trivial)
  | cons c rest =>
    obtain ⟨pats, body⟩ := c
    simp only [selXCases, Bool.and_eq_true] at hx
    simp only [wfCases, Bool.and_eq_true] at hwf
    unfold evalMatchCases
    refine Qp.bind ((npE P hF n).caseMatch v pats hwf.1.1 hv s hinv) (ih.caseMatch v pats s hwf.1.1 hv hinv hm)
      (fun r s1 _ inv1 hr ck1 m1 _ => ?_)
    cases r with
    | none => exact ih.matchCases pos v rest s1 hx.2 hwf.2 hv inv1 m1
    | some bindings =>
      dsimp only
      cases body with
      | expr be =>
        have hbe : selX ok be = true := by simpa [selXBody] using hx.1
        have hwbe : be.wfB = true := by simpa [Stmt.wfB] using hwf.1.2
        apply qp_framed (fun _ _ _ h => h)
        have invp := invK_push inv1 b!"<match>" (max s1.maxDepth (s1.frames.length + 1))
        refine Qp.bind ((NP.bindAll (hr : RegM P bindings)) _ invp)
          (Qp.of_NA (NA.bindAll bindings _) m1) (fun _ s2 _ inv2 _ ck2 m2 _ => ?_)
        exact ih.expr be s2 hbe hwbe inv2 m2
      | _ => simp [selXBody] at hx

theorem pl_caseMatch (v : CellId) (ps : List Expr) (s : St) (hwf : wfEs ps = true) (hv : P.N ≤ v)
    (hinv : InvK P (KSet P) s) (hm : MPH P rc s.heap) :
    Qp P rc s (fun _ _ => True) (evalCaseMatch pe (n + 1) v ps s) := by
  cases ps with
  | nil => unfold evalCaseMatch; exact ⟨CK.refl _, hm, trivial⟩
  | cons p rest =>
    simp only [wfEs, Bool.and_eq_true] at hwf
    unfold evalCaseMatch
    cases p with
    | lit t =>
      dsimp only
      refine Qp.bind ((npE P hF n).expr (.lit t) hwf.1 s hinv)
        (Qp.of_NA ((allNA pe n).expr (.lit t) rfl s) hm) (fun cv s1 _ inv1 hcv ck1 m1 _ => ?_)
      simp only [bind, EM.bind, readCell]
      have hrest := ih.caseMatch v rest s1 hwf.2 hv inv1 m1
      split
      · exact hrest
      · generalize (s1.heap.get v).compare (s1.heap.get cv) = cmp
        cases cmp with
        | error msg => exact qp_throwRt _ _
        | ok c =>
          dsimp only
          split
          · exact ⟨CK.refl _, m1, trivial⟩
          · exact hrest
    | arr t items =>
      have hit : wfEs items = true := by simpa [Expr.wfB] using hwf.1
      dsimp only
      refine Qp.bind ((npE P hF n).arrayCaseMatch v items hit hv s hinv) (ih.arrayCaseMatch v items s hit hv hinv hm)
        (fun r s1 _ inv1 hr ck1 m1 _ => ?_)
      cases r with
      | some b => exact ⟨CK.refl _, m1, trivial⟩
      | none => exact ih.caseMatch v rest s1 hwf.2 hv inv1 m1
    | ident t => exact ⟨CK.refl _, hm, trivial⟩
    | _ => exact qp_throwRt _ _

theorem pl_arrayCaseMatch (v : CellId) (ps : List Expr) (s : St) (hwf : wfEs ps = true) (hv : P.N ≤ v)
    (hinv : InvK P (KSet P) s) (hm : MPH P rc s.heap) :
    Qp P rc s (fun _ _ => True) (evalArrayCaseMatch pe (n + 1) v ps s) := by
  unfold evalArrayCaseMatch
  simp only [bind, EM.bind, readCell]
  have hgv : GoodV P (s.heap.get v) := hinv.heap.cells v hv
  cases hval : s.heap.get v with
  | arr a =>
    rw [hval] at hgv
    simp only [EM.bind, getHeap]
    split
    · exact ⟨CK.refl _, hm, trivial⟩
    · exact ih.matchElems _ ps [] s hwf (hinv.heap.arrs a hgv) RegM.nil hinv hm
  | _ => exact ⟨CK.refl _, hm, trivial⟩

theorem pl_matchElems (cs : List CellId) (ps : List Expr) (acc : List (Bytes × CellId)) (s : St)
    (hwf : wfEs ps = true) (hcs : RegL P cs) (hacc : RegM P acc) (hinv : InvK P (KSet P) s)
    (hm : MPH P rc s.heap) : Qp P rc s (fun _ _ => True) (Jqawk.matchElems pe (n + 1) cs ps acc s) := by
  cases cs with
  | nil => unfold Jqawk.matchElems; exact ⟨CK.refl _, hm, trivial⟩
  | cons c cs =>
    cases ps with
    | nil => unfold Jqawk.matchElems; exact ⟨CK.refl _, hm, trivial⟩
    | cons p ps =>
      simp only [wfEs, Bool.and_eq_true] at hwf
      have h3 : wfEs [p] = true := by simp [wfEs, hwf.1]
      have hc : P.N ≤ c := hcs c (List.mem_cons_self ..)
      unfold Jqawk.matchElems
      refine Qp.bind ((npE P hF n).caseMatch c [p] h3 hc s hinv) (ih.caseMatch c [p] s h3 hc hinv hm)
        (fun r s1 _ inv1 hr ck1 m1 _ => ?_)
      cases r with
      | none => exact ⟨CK.refl _, m1, trivial⟩
      | some nb =>
        exact ih.matchElems cs ps _ s1 hwf.2 (fun x hx => hcs x (List.mem_cons_of_mem _ hx))
          (RegM.foldInsert hr hacc) inv1 m1

theorem pl_call (pos : Nat) (f : CellId) (args : List CellId) (s : St) (hf : P.N ≤ f) (hargs : RegL P args)
    (hpl : ∀ c ∈ args, Val.plain (s.heap.get c)) (hinv : InvK P (KSet P) s) (hm : MPH P rc s.heap) :
    Qp P rc s (fun _ _ => True) (callFunction pe (n + 1) pos f args s) := by
  unfold callFunction
  simp only [bind, EM.bind, readCell, getHeap]
  have hgv : GoodV P (s.heap.get f) := hinv.heap.cells f hf
  cases hval : s.heap.get f with
  | native nf binding sp =>
    rw [hval] at hgv
    dsimp only
    have hthis : ∀ v, binding.map s.heap.get = some v → GoodV P v := by
      intro v hv
      cases binding with
      | none => cases hv
      | some b => cases hv; exact hinv.heap.cells b hgv.1
    have hvals : ∀ v ∈ args.map s.heap.get, Val.plain v := by
      intro v hv
      obtain ⟨c, hc, rfl⟩ := List.mem_map.mp hv
      exact hpl c hc
    have q := qp_callNative nf hm hvals hthis (P := P) (rc := rc)
    simp only [EM.bind]
    revert q
    generalize callNative nf (args.map s.heap.get) (binding.map s.heap.get) s = r
    intro q
    cases r with
    | oof => exact trivial
    | err e s1 => exact q
    | ok res s1 =>
      cases res with
      | error msg => exact qp_throwRt _ _
      | ok ov =>
        cases ov with
        | none => exact ⟨q.1.trans (CK.alloc _ _), q.2.1.alloc _, trivial⟩
        | some v => exact ⟨q.1.trans (CK.alloc _ _), q.2.1.alloc _, trivial⟩
  | fn i =>
    dsimp only
    have : (pe.functions[i]? : Option FuncDef) = none := by simp [pe, Program.empty]
    simp only [this]
    exact fun g h => by cases h
  | _ => exact qp_throwRt _ _

theorem pl_unary (e : Expr) (op : Token) (p : Bool) (s : St) (h1 : (op.tag == Tag.plusPlus) = false)
    (h2 : (op.tag == Tag.minusMinus) = false) (hx : selX ok e = true) (hwf : e.wfB = true)
    (hinv : InvK P (KSet P) s) (hm : MPH P rc s.heap) :
    Qp P rc s (fun _ _ => True) (evalUnary pe (n + 1) e op p s) := by
  unfold evalUnary
  refine Qp.bind' (ih.expr e s hx hwf hinv hm) (fun val s1 _ ck1 m1 _ => Qp.of_NA ?_ m1)
  refine (NA.bind (NA.readCell _) (fun v => ?_) : NA _) s1
  split
  · exact NA.newCell _
  · exact NA.newCell _
  · exact NA.newCell _
  · rename_i heq; rw [heq] at h1; cases h1
  · rename_i heq; rw [heq] at h2; cases h2
  · exact NA.throwRt _ _


omit hF ih in
/-- a computation (not applied to a state, so that `split` can take it apart) that keeps the
    invariants from every state -/
def QQ (P : Region) (rc : CellId) (m : EM CellId) : Prop :=
  ∀ s', InvK P (KSet P) s' → MPH P rc s'.heap → Qp P rc s' (fun _ _ => True) (m s')

theorem pl_binary (l r : Expr) (op : Token) (s : St) (h1 : (op.tag == Tag.equal) = false)
    (hxl : selX ok l = true) (hxr : (op.tag == Tag.is || selX ok r) = true) (hwl : l.wfB = true)
    (hwr : r.wfB = true) (hinv : InvK P (KSet P) s) (hm : MPH P rc s.heap) :
    Qp P rc s (fun _ _ => True) (evalBinary pe (n + 1) l r op s) := by
  unfold evalBinary
  refine Qp.bind ((npE P hF n).expr l hwl s hinv) (ih.expr l s hxl hwl hinv hm)
    (fun left s1 _ inv1 hl ck1 m1 _ => ?_)
  have truthyCell : ∀ c : CellId, NA (do newCell (.bool (← Jqawk.readCell c).truthy)) :=
    fun c => NA.bind (NA.readCell c) (fun v => NA.newCell _)
  refine (?_ : QQ P rc _) s1 inv1 m1
  split
  · rename_i htag
    have hr' : selX ok r = true := by simpa [htag] using hxr
    intro s' inv' m'
    simp only [bind, EM.bind, readCell]
    split
    · exact Qp.bind' (ih.expr r s' hr' hwr inv' m') (fun right s2 _ ck2 m2 _ => Qp.of_NA (truthyCell right s2) m2)
    · exact Qp.conseq (qp_newCell m' _) (fun _ _ _ => trivial)
  · rename_i htag
    have hr' : selX ok r = true := by simpa [htag] using hxr
    intro s' inv' m'
    simp only [bind, EM.bind, readCell]
    split
    · exact Qp.conseq (qp_newCell m' _) (fun _ _ _ => trivial)
    · exact Qp.bind' (ih.expr r s' hr' hwr inv' m') (fun right s2 _ ck2 m2 _ => Qp.of_NA (truthyCell right s2) m2)
  · intro s' inv' m'
    refine Qp.of_NA ((?_ : NA _) s') m'
    split
    · exact NA.bind (NA.readCell _) (fun v => NA.newCell _)
    · exact NA.throwRt _ _
  · rename_i hn1 hn2 hn3
    have hr' : selX ok r = true := by
      cases hb : (op.tag == Tag.is) with
      | true => exact absurd (by simpa using hb) hn3
      | false => simpa [hb] using hxr
    intro s' inv' m'
    refine Qp.bind' (ih.expr r s' hr' hwr inv' m') (fun right s2 _ ck2 m2 _ => Qp.of_NA ((?_ : NA _) s2) m2)
    split
    · exact NA.memberStep _ _ _
    · exact NA.memberStep _ _ _
    · rename_i heq; rw [heq] at h1; cases h1
    · split
      · refine NA.bind (NA.readCell _) (fun a => NA.bind (NA.readCell _) (fun b => ?_))
        split
        · exact NA.newCell _
        · exact NA.throwRt _ _
        · exact NA.throwUnmodelled _
      · exact NA.throwRt _ _

end PlSucc

theorem allPl_succ (hF : P.F = 0) (ok : Bytes → Bool) (n : Nat) (ih : AllPl P rc ok n) : AllPl P rc ok (n + 1) :=
  ⟨pl_expr hF ih, pl_objItems hF ih, pl_exprList hF ih, pl_matchCases hF ih, pl_caseMatch hF ih,
   pl_arrayCaseMatch hF ih, pl_matchElems hF ih, pl_call hF ih, pl_unary hF ih, pl_binary hF ih⟩

/-- **the nested evaluator of a selector keeps cells, raises no signal, and puts only plain,
    fresh cells into containers** -/
theorem allPl (hF : P.F = 0) (ok : Bytes → Bool) : ∀ n, AllPl P rc ok n
  | 0 => allPl_zero P rc ok
  | n + 1 => allPl_succ hF ok n (allPl hF ok n)

end Sel
end Jqawk
