/-
  The documented semantics of the loops, as the specification C07 refers to: loops as folds with
  early exit, free of fuel and of the evaluator's continuation-passing shape.

  * a for-in loop is `iterate step items`: `step x` (bind the loop variables to `x`, run the
    body) for the items in list order, each item at most once, until the list is exhausted,
    a step ends with `break` (the loop ends normally) or with anything else that is not
    `continue` (the loop ends with it);
  * `while` and the three-clause `for` repeat a ROUND (`whileRound`: test, body; `forRound`:
    test, body, post-expression) until a round answers "stop" (`Repeats`, the least fixed point
    as an inductive relation; `Rounds k` = exactly `k` rounds that answered "go on").

  Everything is parametric in how conditions, bodies and post-expressions run (`EM` actions), so
  that the evaluator at any fuel can be plugged in (`Props/C07.lean`).
-/
import Jqawk.Model.State

namespace Jqawk.Spec
open Jqawk

/-- how a loop sees the end of one execution of its body -/
inductive IterOutcome
  | continue_ (s : St)        -- completed, or ended by `continue`: the loop goes on
  | stop (s : St)             -- ended by `break`: the loop ends normally
  | abort (e : Err) (s : St)  -- return / next / exit / runtime error / panic: the loop ends with it
  | oof                       -- out of fuel: never a success

def outcome : Res Unit → IterOutcome
  | .ok () s => .continue_ s
  | .err (.sig .cont) s => .continue_ s
  | .err (.sig .brk) s => .stop s
  | .err e s => .abort e s
  | .oof => .oof

/-! ### for-in: a fold over the items with early exit -/

/-- run `step x` for the items in order until the list is exhausted or a step stops / aborts -/
def iterate {ι : Type} (step : ι → EM Unit) : List ι → EM Unit
  | [] => pure ()
  | x :: xs => fun s =>
    match outcome (step x s) with
    | .continue_ s' => iterate step xs s'
    | .stop s' => .ok () s'
    | .abort e s' => .err e s'
    | .oof => .oof

/-- ghost: the items for which `step` was started, in the order in which it was started -/
def visited {ι : Type} (step : ι → EM Unit) : List ι → St → List ι
  | [], _ => []
  | x :: xs, s =>
    x :: (match outcome (step x s) with
          | .continue_ s' => visited step xs s'
          | _ => [])

/-- the optional second loop variable receives `v` -/
def setIndex (il : Option CellId) (v : Val) : EM Unit :=
  match il with
  | some ic => writeCell ic v
  | none => pure ()

/-- array element `c` at position `i`: the index variable (if any) receives `i`, the loop
    variable a raw copy of the element's CURRENT value -/
def bindArrayItem (loc : CellId) (il : Option CellId) (ci : CellId × Nat) : EM Unit := do
  setIndex il (.num (F64.ofNat ci.2))
  writeCell loc (← readCell ci.1)

/-- object member `k ↦ mc`: the second variable (if any) receives the member's CURRENT value,
    the loop variable the key as a fresh string -/
def bindObjectItem (loc : CellId) (il : Option CellId) (kv : Bytes × CellId) : EM Unit := do
  match il with
  | some ic => writeCell ic (← readCell kv.2)
  | none => pure ()
  writeCell loc (.str kv.1 none)

/-- code point `r` at byte offset `off` of a string: the index variable (if any) receives the
    offset, the loop variable the character as a fresh (UTF-8 encoded) string -/
def bindStringItem (loc : CellId) (il : Option CellId) (p : Nat × Nat) : EM Unit := do
  setIndex il (.num (F64.ofNat p.1))
  writeCell loc (.str (utf8Encode p.2) none)

/-- for-in over the cells an array held WHEN THE LOOP STARTED, with their positions -/
def forInArray (body : EM Unit) (loc : CellId) (il : Option CellId) (cells : List CellId) : EM Unit :=
  iterate (fun ci => do bindArrayItem loc il ci; body) cells.zipIdx

/-- for-in over the members an object had when the loop started, in ascending key order -/
def forInObject (body : EM Unit) (loc : CellId) (il : Option CellId)
    (members : List (Bytes × CellId)) : EM Unit :=
  iterate (fun kv => do bindObjectItem loc il kv; body) (sortByKey members)

/-- for-in over the code points of a string with their byte offsets (an invalid byte counts as
    U+FFFD of width 1, as in Go's `range` over a string) -/
def forInString (body : EM Unit) (loc : CellId) (il : Option CellId) (s : Bytes) : EM Unit :=
  iterate (fun p => do bindStringItem loc il p; body) (utf8Runes s)

/-- the loop variable named `name` (created in the innermost frame if unknown); errors are
    reported at `pos` -/
def loopVar (pos : Nat) (name : Bytes) : EM CellId := do
  match (← getVariable name) with
  | .ok c => pure c
  | .error m => throwRt pos m

/-- the whole statement `for (id[, idx] in iter) body`: variables first, then the iterable —
    evaluated ONCE —, then the fold over what it held at that moment -/
def forInStmt (evalE : Expr → EM CellId) (evalS : Stmt → EM Unit)
    (id : Token) (idx : Option Token) (iter : Expr) (body : Stmt) : EM Unit := do
  let loc ← loopVar id.pos id.text
  let il ← (match idx with
    | none => pure none
    | some it => do let c ← loopVar id.pos it.text; pure (some c) : EM (Option CellId))
  let iterable ← evalE iter
  let h ← getHeap
  match h.get iterable with
  | .arr a => forInArray (evalS body) loc il (h.arr a).toList
  | .obj o => forInObject (evalS body) loc il (h.obj o)
  | .str s _ => forInString (evalS body) loc il s
  | _ => throwRt iter.token.pos "not iterable"

/-! ### while / for: repeat a round until it says stop -/

/-- the truth value of an evaluated condition -/
def truthyOf (m : EM CellId) : EM Bool := do
  let c ← m
  return (← readCell c).truthy

/-- the body within a round: `true` = go on (completed or `continue`), `false` = `break` -/
def bodyRound (body : EM Unit) : EM Bool := fun s =>
  match outcome (body s) with
  | .continue_ s' => .ok true s'
  | .stop s' => .ok false s'
  | .abort e s' => .err e s'
  | .oof => .oof

/-- one round of `while (c) body`: the test, then (if it holds) the body -/
def whileRound (cond : EM Bool) (body : EM Unit) : EM Bool := do
  if (← cond) then bodyRound body else pure false

/-- one round of `for (…; c; post) body`: the test, the body, and — after a completed or
    continued body, not after `break` — the post-expression -/
def forRound (cond : EM Bool) (body : EM Unit) (post : EM Unit) : EM Bool := do
  if (← cond) then
    if (← bodyRound body) then do post; pure true
    else pure false
  else pure false

/-- repeat `round` until it answers `false` (the loop ends normally) or fails (the loop ends
    with that error or signal); no fuel: a loop that never stops has no result -/
inductive Repeats (round : EM Bool) : St → Res Unit → Prop
  | done {s s' : St} : round s = .ok false s' → Repeats round s (.ok () s')
  | fail {s s' : St} {e : Err} : round s = .err e s' → Repeats round s (.err e s')
  | more {s s1 : St} {r : Res Unit} : round s = .ok true s1 → Repeats round s1 r → Repeats round s r

/-- exactly `k` consecutive rounds that answered "go on" lead from `s` to `s'` -/
inductive Rounds (round : EM Bool) : Nat → St → St → Prop
  | zero {s : St} : Rounds round 0 s s
  | succ {k : Nat} {s s1 s2 : St} : round s = .ok true s1 → Rounds round k s1 s2 →
      Rounds round (k + 1) s s2

/-- the whole statement `for (pre; c; post) body` -/
def ForRuns (pre : EM Unit) (round : EM Bool) (s : St) (r : Res Unit) : Prop :=
  (∃ s1, pre s = .ok () s1 ∧ Repeats round s1 r) ∨ (∃ e s1, pre s = .err e s1 ∧ r = .err e s1)

end Jqawk.Spec
