/-
  The operator tables of DESIGN.md section 3, transcribed row by row (by operand KIND), as the
  documented semantics C05 refers to.  `Props/C05.lean` proves the code-shaped evaluator
  (`binaryOp`, `Val.compare`, `Val.truthy`, …) equal to these tables.
-/
import Jqawk.Model.Eval

namespace Jqawk.Spec
open Jqawk

/-- §3.1 `num(v)` -/
def num (v : Val) : F64 :=
  match v.kind with
  | .num => (match v with | .num x => x | _ => F64.zero)
  | .str => (match F64.parse v.str! with | some x => x | none => F64.zero)
  | .bool => (if v == .bool true then F64.one else F64.zero)
  | _ => F64.zero

/-- §3.1 `str(v)` -/
def str (v : Val) : Bytes :=
  match v with
  | .str s _ => s
  | .num x => x.format
  | _ => []

/-- §3.1 `truthy(v)`: false, 0, "", null, unset and regex are falsy -/
def truthy (v : Val) : Bool :=
  match v with
  | .bool b => b
  | .num x => !x.isZero
  | .str s _ => s != []
  | .nil _ => false
  | .unknown => false
  | .regex _ => false
  | .arr _ | .obj _ | .fn _ | .native .. => true

/-- §3.5 step 2: three-way comparison, `none` = runtime error "cannot compare" -/
def cmp (a b : Val) : Option Int :=
  match a.kind, b.kind with
  | .nil, .nil => some 0
  | .nil, _ => some (-1)
  | _, .nil => some 1
  | .arr, _ => none
  | .obj, _ => none
  | _, .arr => none
  | _, .obj => none
  | .str, .str => some (match Bytes.cmp (str a) (str b) with | .lt => -1 | .eq => 0 | .gt => 1)
  | _, _ =>
    let x := num a
    let y := num b
    some (if F64.lt y x then 1 else if F64.lt x y then -1 else 0)

/-- §3.5 step 3 -/
def relHolds (op : Tag) (c : Int) : Bool :=
  match op with
  | .lessThan => c < 0
  | .greaterThan => c > 0
  | .equalEqual => c == 0
  | .bangEqual => !(c == 0)
  | .lessEqual => c ≤ 0
  | _ => c ≥ 0

inductive Result
  | value (v : Val)
  | divideByZero
  | cannotCompare
  | notAPattern          -- rhs of ~ is neither string nor regex
  | invalidPattern
  | unmodelled           -- pattern outside the modelled RE2 subset
  deriving DecidableEq

/-- §3.5 comparisons -/
def compareOp (op : Tag) (a b : Val) : Result :=
  if a.kind == .unknown || b.kind == .unknown then
    .value (.bool (op == .lessThan || op == .greaterThan))
  else match cmp a b with
    | none => .cannotCompare
    | some c => .value (.bool (relHolds op c))

/-- §3.6 arithmetic and concatenation -/
def arithOp (op : Tag) (a b : Val) : Result :=
  match op with
  | .plus =>
    if a.kind == .str || b.kind == .str then .value (.str (str a ++ str b) none)
    else .value (.num (F64.add (num a) (num b)))
  | .minus => .value (.num (F64.sub (num a) (num b)))
  | .multiply => .value (.num (F64.mul (num a) (num b)))
  | .divide => if (num b).isZero then .divideByZero else .value (.num (F64.div (num a) (num b)))
  | _ =>
    let i := (num a).toGoInt
    let j := (num b).toGoInt
    if j == 0 then .divideByZero else .value (.num (F64.ofInt (Int.tmod i j)))

/-- §3.6 regex match -/
def matchOp (op : Tag) (a b : Val) : Result :=
  match b with
  | .str p _ | .regex p =>
    (match Re.compile p with
     | .invalid => .invalidPattern
     | .unmodelled => .unmodelled
     | .ok re => .value (.bool (if op == .bangTilde then !Re.isMatch re (str a) else Re.isMatch re (str a))))
  | _ => .notAPattern

end Jqawk.Spec
