/-
  The ideal list an array is compared with (property C15): operations on `List Val`, no heap,
  no cells, no ids.
-/
import Jqawk.Model.Natives
import Jqawk.Model.Eval

namespace Jqawk.Spec.ListArr

/-- `a.push(v)`: append one value -/
def push (l : List Val) (v : Val) : List Val := l ++ [v]

/-- `a.pop()`: the last element (null when empty) and the shortened list -/
def pop (l : List Val) : Val × List Val :=
  match l.getLast? with
  | none => (.nil none, l)
  | some v => (v, l.dropLast)

/-- `a.popfirst()`: the first element (null when empty) and the rest -/
def popfirst : List Val → Val × List Val
  | [] => (.nil none, [])
  | v :: rest => (v, rest)

/-- `a.length` -/
def length (l : List Val) : Nat := l.length

/-- `a[i]`: `a[-k]` is the k-th element from the end; an index before the start is an error
    (`none`); an index past the end reads as absent (`some none`). -/
def get (l : List Val) (i : Int) : Option (Option Val) :=
  if 0 ≤ i then some l[i.toNat]?
  else if (-i).toNat ≤ l.length then some l[l.length - (-i).toNat]?
  else none

/-- `a.contains(v)`: `v == item` for each element in order, stopping at the first `true`; an
    error of `==` (comparing with a container) before that is the result -/
def contains (v : Val) : List Val → Except String Bool
  | [] => .ok false
  | item :: rest =>
    match binaryOp .equalEqual v item with
    | .val (.bool true) => .ok true
    | .err _ m => .error m
    | _ => contains v rest

/-- the order `sort` uses: numeric when every element is a number (NaN first, -0 = +0),
    otherwise bytewise on the string forms -/
def sortLe (l : List Val) : Val → Val → Bool :=
  if l.all (fun v => v.kind == .num) then fun x y => f64Le x.asNum y.asNum
  else fun x y => Bytes.le x.str! y.str!

/-- `sort` works on copies of the elements (`copyValue`): scalars lose their provenance,
    containers are shared, a value that cannot be copied (a function) is left as the zero value -/
def sortCopy (v : Val) : Val :=
  match copyVal v with
  | .ok w => w
  | .error _ => .str [] none

/-- what `a.sort()` must return for the list `l`: a stably sorted rearrangement -/
structure IsStableSort (le : Val → Val → Bool) (l r : List Val) : Prop where
  perm : r.Perm l
  sorted : r.Pairwise (fun x y => le x y = true)
  /-- elements that are already in order keep their relative order -/
  stable : ∀ sub : List Val, sub.Sublist l → sub.Pairwise (fun x y => le x y = true) → sub.Sublist r

/-- the operations of the sequence theorem -/
inductive Op
  | push (v : Val)
  | pop
  | popfirst

/-- one operation on the ideal list: its result (`push` returns the array itself, represented
    by `none` here) and the new list -/
def step (l : List Val) : Op → Option Val × List Val
  | .push v => (none, push l v)
  | .pop => (some (pop l).1, (pop l).2)
  | .popfirst => (some (popfirst l).1, (popfirst l).2)

/-- the list after a sequence of operations -/
def run (l : List Val) (ops : List Op) : List Val := ops.foldl (fun l op => (step l op).2) l

/-- the results of a sequence of operations -/
def results : List Val → List Op → List (Option Val)
  | _, [] => []
  | l, op :: ops => (step l op).1 :: results (step l op).2 ops

end Jqawk.Spec.ListArr
