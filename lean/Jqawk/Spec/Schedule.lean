/-
  The awk schedule of a jqawk run, as the specification C02 refers to.

  A run is a sequence of PRIMITIVE STEPS — test a rule's pattern, execute a rule's body, evaluate
  a root selector, import a decoded value, bind `$` / `$index` / `$file` — and this file fixes
  nothing but their ORDER and the early-exit discipline.  The primitive steps are parameters
  (`Prims`); `modelPrims` plugs in the evaluator of the model (`evalExpr`, `evalStmt`,
  `evalSelector`, `Json.decodeOne`, …).  `Props/C02.lean` proves that `runProgram` and
  `runSpec` agree (equal results, unless both are "out of fuel") for every program, every selector
  list and every list of input files, and likewise — exactly — for every layer below.

  How to read it.  A piece of the schedule is an action `Run α`; from a state it ends in one of
  four ways (`Ended`):
    * `fine a s`  — normally, with a result: the schedule goes on;
    * `next s`    — the statement `next` is being executed;
    * `over o s`  — THE RUN IS OVER with outcome `o`: `exit` (then `o = .ok`: success) or an error
                    (`o` says which); nothing at all runs afterwards;
    * `oof`       — the evaluator ran out of fuel (never counts as a result).
  In a `do` block everything but `fine` skips the rest of the block — and of every enclosing
  block, up to a handler.  There is exactly ONE handler in this file, `uptoNext`, it handles only
  `next`, and it is used in three places: around the rules of one element, around the body of one
  BEGIN / END / BEGINFILE / ENDFILE rule, around one root selector.  Nothing handles `over`:
  `exit` and errors end the run from wherever they occur (`runSpec` turns `over o s` into the
  final result).  `each xs f` is the only loop: `f x` for the
  `x` in list order.

  Core library only (linked into `jqmodel`).
-/
import Jqawk.Model.Driver

namespace Jqawk.Sched
open Jqawk

/-! ### the scheduling monad -/

/-- how a piece of the schedule ends -/
inductive Ended (α : Type)
  | fine (a : α) (s : St)          -- normally: go on
  | next (s : St)                  -- `next` is being executed
  | over (o : Outcome) (s : St)    -- the run is over: `exit` (`o = .ok`) or an error
  | oof                            -- out of fuel

/-- a piece of the schedule -/
def Run (α : Type) := St → Ended α

namespace Run
@[always_inline, inline] def pure {α : Type} (a : α) : Run α := fun s => .fine a s
/-- `m`, then — only if `m` ended normally — `k` -/
@[always_inline, inline] def bind {α β : Type} (m : Run α) (k : α → Run β) : Run β := fun s =>
  match m s with
  | .fine a s' => k a s'
  | .next s' => .next s'
  | .over o s' => .over o s'
  | .oof => .oof
@[always_inline] instance : Monad Run where
  pure := Run.pure
  bind := Run.bind
end Run

/-- the only handler: `next` ends `m` normally (with result `dflt`); everything else passes -/
def uptoNext {α : Type} (dflt : α) (m : Run α) : Run α := fun s =>
  match m s with
  | .next s' => .fine dflt s'
  | r => r

/-- the only loop: `f x` for the `x` of the list, in list order -/
def each {α : Type} : List α → (α → Run Unit) → Run Unit
  | [], _ => pure ()
  | x :: xs, f => do f x; each xs f

/-- the run is over with outcome `o` -/
def endRun {α : Type} (o : Outcome) : Run α := fun s => .over o s

/-! ### the primitive steps (parameters) -/

structure Prims where
  /-- evaluate a rule's pattern; the truth value of the result -/
  test : Expr → Run Bool
  /-- execute a rule's body -/
  exec : Stmt → Run Unit
  /-- evaluate a root selector on a decoded JSON value: a cell holding the selected root -/
  select : Bytes → JVal → Run CellId
  /-- (no selectors) a decoded JSON value as a root cell -/
  load : JVal → Run CellId
  /-- the JSON values of an input stream in stream order, and whether the stream then ends
      cleanly (`false`: malformed / truncated / unreadable input after these values) -/
  values : InputFile → List JVal × Bool
  /-- `$` denotes this cell from now on -/
  setDollar : CellId → Run Unit
  /-- `$index` is this number from now on -/
  setIndex : Nat → Run Unit
  /-- `$file` is this name from now on -/
  setFile : Bytes → Run Unit
  /-- this cell is the root being processed (what `-o` writes back) -/
  setRoot : CellId → Run Unit
  /-- a new cell holding this value -/
  fresh : Val → Run CellId
  /-- the value a cell holds now -/
  read : CellId → Run Val
  /-- if the cell holds an array now: its element cells, in index order -/
  elements : CellId → Run (Option (List CellId))

/-- the rules of a program by kind, each list in source order -/
structure RuleSets where
  begin_ : List Rule
  beginFile : List Rule
  pattern : List Rule
  endFile : List Rule
  end_ : List Rule

variable (P : Prims) (R : RuleSets)

/-! ### one element -/

/-- one pattern rule on the current element: the body runs iff the pattern is absent or truthy
    (a rule written without a body has the body `print $`: that is the parser's business) -/
def ruleSpec (r : Rule) : Run Unit := do
  let hit ← (match r.pattern with
    | none => pure true
    | some p => P.test p)
  if hit then P.exec r.body

/-- the pattern rules on the current element: in source order; `next` — in a body or in a
    pattern — abandons the remaining rules, for this element only -/
def runRulesSpec (rules : List Rule) : Run Unit :=
  uptoNext () (each rules (ruleSpec P))

/-! ### one root -/

/-- the pattern rules on the element `cell` at position `i` of an array root -/
def elementSpec (rules : List Rule) : CellId × Nat → Run Unit
  | (cell, i) => do
    P.setDollar cell
    P.setIndex i
    runRulesSpec P rules

/-- an array root: one pass over the pattern rules per element (the elements the array has
    when the passes start), in index order, `$` = the element, `$index` = its position;
    any other root: exactly one pass, `$` = the root -/
def elementsSpec (rules : List Rule) (root : CellId) : Run Unit := do
  match (← P.elements root) with
  | some cells => each cells.zipIdx (elementSpec P rules)
  | none => do
    P.setDollar root
    runRulesSpec P rules

/-- one BEGIN / END / BEGINFILE / ENDFILE rule: `$` is the cell `dollar` delivers; there is no
    element to skip, so `next` just finishes the rule -/
def specialRuleSpec (dollar : Run CellId) (r : Rule) : Run Unit := do
  P.setDollar (← dollar)
  uptoNext () (P.exec r.body)

/-- BEGIN / END / BEGINFILE / ENDFILE rules: in source order -/
def specialSpec (dollar : Run CellId) (rules : List Rule) : Run Unit :=
  each rules (specialRuleSpec P dollar)

/-- one root: the BEGINFILE rules with `$` = the root, then the pattern rules, then the ENDFILE
    rules with `$` = (a fresh copy of) the root value as it was selected -/
def rootSpec (root : CellId) : Run Unit := do
  let selected ← P.read root
  specialSpec P (pure root) R.beginFile
  P.setRoot root
  elementsSpec P R.pattern root
  specialSpec P (P.fresh selected) R.endFile

/-! ### one JSON value, one file, the run -/

/-- the roots of a value: one per selector, in the order given (a selector that executes `next`
    contributes no root) … -/
def selectAll (v : JVal) : List Bytes → Run (List CellId)
  | [] => pure []
  | sel :: rest => do
    let root? ← uptoNext none (do let c ← P.select sel v; pure (some c))
    let roots ← selectAll v rest
    pure (match root? with
      | some c => c :: roots
      | none => roots)

/-- … or the value itself when there are no selectors -/
def rootsSpec (sels : List Bytes) (v : JVal) : Run (List CellId) :=
  if sels.isEmpty then do
    let c ← P.load v
    pure [c]
  else selectAll P v sels

/-- one JSON value: `$file` names the current file; all roots are selected; then root by root -/
def valueSpec (sels : List Bytes) (file : InputFile) (v : JVal) : Run Unit := do
  P.setFile file.name
  let roots ← rootsSpec P sels v
  each roots (rootSpec P R)

/-- one file: its values in stream order; a fault in the stream is a JSON error naming the
    file, reported after the values before it have been processed -/
def fileSpec (sels : List Bytes) (file : InputFile) : Run Unit := do
  let (vals, clean) := P.values file
  each vals (valueSpec P R sels file)
  if clean then pure () else endRun (.jsonErr file.name)

/-- the whole schedule: BEGIN rules (`$` null), the files in the order given, END rules (`$` null) -/
def scheduleSpec (sels : List Bytes) (files : List InputFile) : Run Unit := do
  specialSpec P (P.fresh (.nil none)) R.begin_
  each files (fileSpec P R sels)
  specialSpec P (P.fresh (.nil none)) R.end_

/-- what is reported when the schedule has ended -/
def report : Ended Unit → RunResult
  | .fine () s => finishRun .ok s
  | .over o s => finishRun o s                     -- `exit`: `o = .ok`, success
  | .next s => finishRun (.sentinel .next) s       -- (`next` outside every rule: does not happen)
  | .oof => ⟨.oof, [], none⟩

/-- a run from the initial state `init` -/
def runSpec (sels : List Bytes) (files : List InputFile) (init : St) : RunResult :=
  report (scheduleSpec P R sels files init)

/-! ### ghost: which items of a loop were started -/

/-- the items for which `each` started `f`, in the order in which it did -/
def started {α : Type} (f : α → Run Unit) : List α → St → List α
  | [], _ => []
  | x :: xs, s =>
    x :: (match f x s with
          | .fine () s' => started f xs s'
          | _ => [])

/-! ### the primitive steps of the model -/

/-- an evaluator action as a piece of the schedule: `next` and `exit` are what the evaluator
    signals, every other failure is reported as it would be for the program text `src` -/
def lift {α : Type} (src : Bytes) (m : EM α) : Run α := fun s =>
  match m s with
  | .ok a s' => .fine a s'
  | .err (.sig .next) s' => .next s'
  | .err (.sig .exit) s' => .over .ok s'
  | .err e s' => .over (errOutcome src e) s'
  | .oof => .oof

/-- the JSON values of a byte stream (`Json.decodeOne` repeatedly); the fuel is a technicality:
    each value consumes at least one byte (`Sched.decodeStream_unfold`) -/
def decodeStream (tail : Json.Tail) : Nat → Bytes → List JVal × Bool
  | 0, _ => ([], false)
  | n + 1, data =>
    match Json.decodeOne numOk data tail with
    | .eof => ([], true)
    | .error | .needMore => ([], false)
    | .value v rest =>
      let r := decodeStream tail n rest
      (v :: r.1, r.2)

def valuesOf (file : InputFile) : List JVal × Bool :=
  decodeStream file.tail (file.data.length + 1) file.data

def modelPrims (prog : Program) (src : Bytes) (tbl : RuleTable) : Prims where
  test p := lift src (do
    let c ← evalExpr prog evalFuel p
    return (← readCell c).truthy)
  exec body := lift src (evalStmt prog evalFuel body)
  select sel v := fun s =>
    match evalSelector tbl sel v s with
    | .inl (.oof, _) => .oof
    | .inl (o, s') => .over o s'                       -- syntax / runtime error in the selector
    | .inr (.ok c, s') => .fine c s'
    | .inr (.error .exit, s') => .over .ok s'
    | .inr (.error _, s') => .next s'
  load v := lift src (do
    let val ← newValueJson v
    newCell val)
  values := valuesOf
  setDollar c := lift src (modifySt fun s => { s with ruleRoot := some c })
  setIndex i := lift src (do
    let ic ← newCell (.num (F64.ofNat i))
    setLocal b!"$index" ic)
  setFile name := lift src (do
    let c ← newCell (.str name none)
    setGlobal b!"$file" c)
  setRoot c := lift src (modifySt fun s => { s with root := some c })
  fresh v := lift src (newCell v)
  read c := lift src (readCell c)
  elements root := lift src (do
    let h ← getHeap
    match h.get root with
    | .arr a => pure (some (h.arr a).toList)
    | _ => pure none)

def rulesByKind (prog : Program) : RuleSets where
  begin_ := rulesOf prog .begin_
  beginFile := rulesOf prog .beginFile
  pattern := rulesOf prog .pattern
  endFile := rulesOf prog .endFile
  end_ := rulesOf prog .end_

end Jqawk.Sched
