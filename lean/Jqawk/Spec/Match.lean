/-
  The documented semantics of `match (v) { p, p, … => body … }`, as the specification C19 refers
  to: a reference matcher by structural recursion on the PATTERN — free of fuel and of the
  evaluator's continuation shape.

  * `patMatches p c`: does the value in cell `c` match pattern `p`, and with which bindings?
      literal      ⇒ the primitive test `subject == literal` (`litMatches`);
      identifier   ⇒ always; binds the name to the subject's OWN cell;
      `[p₁, …, pₙ]` ⇒ the subject is an array of exactly `n` elements and element `i` matches
                      `pᵢ`, position by position; the bindings are merged left to right
                      (a name bound twice keeps the later cell);
      anything else ⇒ runtime error "not supported in match expressions" — when reached.
  * `firstAlt`: the alternatives of one case, left to right; the first that matches decides; an
    alternative that does not match contributes NOTHING (none of the names it bound on the way).
  * `firstMatch`: the cases in source order; the first case one of whose alternatives matches
    is selected (its body and the bindings of the matching alternative).
  * `runCase`: the body of the selected case runs in a fresh frame `<match>` holding the
    bindings; an expression body yields its value, any other body is run and yields a fresh
    null; the frame is dropped however the body ends.
  * `matchSpec`: the subject is evaluated ONCE, then `selectAndRun`: `firstMatch`, then
    `runCase`, or a fresh null when no case matches.

  Evaluating a literal is an effect in the model (a fresh cell is allocated; a malformed
  literal is a runtime error), and bodies are arbitrary code: so the matcher lives in the
  evaluation monad `EM` and is parametric in HOW literals, expressions and statements run
  (`evalLit`, `evalE`, `evalS`: the evaluator at any fuel can be plugged in, `Props/C19.lean`).
  The specification fixes the ORDER, the first-match discipline, the bindings, the frame and the
  result value.  `patMatchesPure` is the same matcher as a function of the heap alone.
-/
import Jqawk.Model.Eval

namespace Jqawk.Spec
open Jqawk

/-- names bound by a pattern, each to a cell of the subject -/
abbrev Bindings := List (Bytes × CellId)

/-- the primitive test of a literal pattern, on the values of subject and literal: an unset
    subject equals no literal; otherwise `Compare` decides (it fails on containers) — this is
    `==` (`Props/C19.lean`, `literal_pattern_is_equality`) -/
def litMatches (subject literal : Val) : Except String Bool :=
  if subject.kind == .unknown then .ok false
  else
    match subject.compare literal with
    | .error m => .error m
    | .ok c => .ok (c == 0)

/-- `bindings[k] = v` for every new binding, in order: later wins -/
def mergeBindings (acc new : Bindings) : Bindings :=
  new.foldl (fun m kv => objInsert m kv.1 kv.2) acc

mutual
/-- does the value in cell `c` match pattern `p`?  `some bindings` / `none` / a runtime error -/
def patMatches (evalLit : Expr → EM CellId) : Expr → CellId → EM (Option Bindings)
  | .lit t, c => do
    let lc ← evalLit (.lit t)
    match litMatches (← readCell c) (← readCell lc) with
    | .error m => throwRt t.pos m
    | .ok true => pure (some [])
    | .ok false => pure none
  | .ident t, c => pure (some [(t.text, c)])
  | .arr _ items, c => do
    match (← readCell c) with
    | .arr a =>
      let cells := ((← getHeap).arr a).toList
      if cells.length != items.length then pure none
      else elemsMatch evalLit items cells []
    | _ => pure none
  | p, _ => throwRt p.token.pos "not supported in match expressions"
/-- sub-patterns against elements, position by position, left to right; stops at the first
    element that does not match -/
def elemsMatch (evalLit : Expr → EM CellId) : List Expr → List CellId → Bindings → EM (Option Bindings)
  | p :: ps, c :: cs, acc => do
    match (← patMatches evalLit p c) with
    | none => pure none
    | some nb => elemsMatch evalLit ps cs (mergeBindings acc nb)
  | _, _, acc => pure (some acc)
end

/-- the alternatives of one case, left to right: the first that matches decides -/
def firstAlt (evalLit : Expr → EM CellId) (c : CellId) : List Expr → EM (Option Bindings)
  | [] => pure none
  | p :: rest => do
    match (← patMatches evalLit p c) with
    | some b => pure (some b)
    | none => firstAlt evalLit c rest

/-- the cases in source order: the first one with a matching alternative is selected -/
def firstMatch (evalLit : Expr → EM CellId) (c : CellId) : List MatchCase → EM (Option (Stmt × Bindings))
  | [] => pure none
  | .mk pats body :: rest => do
    match (← firstAlt evalLit c pats) with
    | some b => pure (some (body, b))
    | none => firstMatch evalLit c rest

/-- the body of the selected case in a fresh frame `<match>` holding the bindings; the frame
    is dropped however the body ends (`pos`: where "call depth limit exceeded" is reported) -/
def runCase (evalE : Expr → EM CellId) (evalS : Stmt → EM Unit) (pos : Nat) (body : Stmt)
    (b : Bindings) : EM CellId := do
  let saved := (← getSt).frames
  match (← pushFrame b!"<match>") with
  | .error m => throwRt pos m
  | .ok () =>
    withFrames saved (do
      bindAll b
      match body with
      | .expr be => evalE be
      | _ => do evalS body; newCell (.nil none))

/-- select the first matching case and run its body; a fresh null when no case matches -/
def selectAndRun (evalE : Expr → EM CellId) (evalS : Stmt → EM Unit) (pos : Nat) (c : CellId)
    (cases : List MatchCase) : EM CellId := do
  match (← firstMatch evalE c cases) with
  | some (body, b) => runCase evalE evalS pos body b
  | none => newCell (.nil none)

/-- `match (v) { cases }`: the subject once, then select and run -/
def matchSpec (evalE : Expr → EM CellId) (evalS : Stmt → EM Unit) (t : Token) (v : Expr)
    (cases : List MatchCase) : EM CellId := do
  let c ← evalE v
  selectAndRun evalE evalS t.pos c cases

/-! ### the same matcher as a function of the heap alone -/

/-- the value of a literal token, or the error its evaluation raises (the literal clause of
    `evalExpr`) -/
def litValue (t : Token) : Except Err Val :=
  match t.tag with
  | .str | .ident =>
    match evalStringLit t.text with
    | .error m => .error (.runtime t.pos m)
    | .ok s => .ok (.str s none)
  | .regex => .ok (.regex t.text)
  | .num =>
    match F64.parse t.text with
    | none => .error (.runtime t.pos "could not parse number")
    | some x => .ok (.num x)
  | .true_ => .ok (.bool true)
  | .false_ => .ok (.bool false)
  | .null => .ok (.nil none)
  | _ => .error (.panic "unhandled literal type")

/-- the answer of the matcher: bindings, no match, or the error it ends with -/
inductive PatAnswer
  | binds (b : Bindings)
  | noMatch
  | fault (e : Err)
  deriving DecidableEq, Repr

mutual
/-- `patMatches` without state: the subject is read from the heap `h`, literals have the
    values `lit` gives them -/
def patMatchesPure (h : Heap) (lit : Token → Except Err Val) : Expr → CellId → PatAnswer
  | .lit t, c =>
    match lit t with
    | .error e => .fault e
    | .ok lv =>
      match litMatches (h.get c) lv with
      | .error m => .fault (.runtime t.pos m)
      | .ok true => .binds []
      | .ok false => .noMatch
  | .ident t, c => .binds [(t.text, c)]
  | .arr _ items, c =>
    match h.get c with
    | .arr a =>
      if (h.arr a).toList.length != items.length then .noMatch
      else elemsMatchPure h lit items (h.arr a).toList []
    | _ => .noMatch
  | p, _ => .fault (.runtime p.token.pos "not supported in match expressions")
def elemsMatchPure (h : Heap) (lit : Token → Except Err Val) :
    List Expr → List CellId → Bindings → PatAnswer
  | p :: ps, c :: cs, acc =>
    match patMatchesPure h lit p c with
    | .binds nb => elemsMatchPure h lit ps cs (mergeBindings acc nb)
    | .noMatch => .noMatch
    | .fault e => .fault e
  | _, _, acc => .binds acc
end

/-- the alternatives of one case, left to right, on the heap alone -/
def firstAltPure (h : Heap) (lit : Token → Except Err Val) (c : CellId) : List Expr → PatAnswer
  | [] => .noMatch
  | p :: rest =>
    match patMatchesPure h lit p c with
    | .noMatch => firstAltPure h lit c rest
    | r => r

end Jqawk.Spec
