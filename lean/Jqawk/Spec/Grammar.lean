/-
  C06 specification: the expression grammar over the documented operators (DESIGN §3.8), the AST
  the parser is expected to build for an expression (`toExpr`), and the renderings of an
  expression as a token list: `renderMin` (parentheses only where §3.8 requires them),
  `renderFull` (every compound subexpression parenthesised) and, generally, `render pol` (the
  subexpressions in the set `pol` carry redundant parentheses).

  Levels are numbered as the parser's `Precedence` constants (1 = assignment … 5 = `* / %`,
  6 = postfix, 7 = prefix, 8 = call/member/index; 10 = atoms); DESIGN §3.8 lists them in the
  opposite order (tightest first).  The levels here are part of the SPECIFICATION; that the
  parser's rule table agrees with them is `Jqawk.C06.table_ok`.

  Parentheses are not a constructor of `PE`: they exist only in renderings.
  All tokens of a rendering carry position 0 (`Jqawk.C06.parse_render_anypos` lifts the results to
  arbitrary positions).
-/
import Jqawk.Model.Ast

namespace Jqawk.Grammar
open Jqawk

/-- the 15 binary operators whose right operand is an expression -/
inductive BinOp
  | mul | div | mod | add | sub | eq | ne | lt | le | gt | ge | match_ | noMatch | and | or
  deriving DecidableEq, Repr

def BinOp.tag : BinOp → Tag
  | .mul => .multiply | .div => .divide | .mod => .percent
  | .add => .plus | .sub => .minus
  | .eq => .equalEqual | .ne => .bangEqual | .lt => .lessThan | .le => .lessEqual
  | .gt => .greaterThan | .ge => .greaterEqual | .match_ => .tilde | .noMatch => .bangTilde
  | .and => .ampAmp | .or => .pipePipe

/-- documented level of a binary operator -/
def BinOp.level : BinOp → Nat
  | .mul | .div | .mod => 5
  | .add | .sub => 4
  | .eq | .ne | .lt | .le | .gt | .ge | .match_ | .noMatch => 3
  | .and | .or => 2

def BinOp.all : List BinOp :=
  [.mul, .div, .mod, .add, .sub, .eq, .ne, .lt, .le, .gt, .ge, .match_, .noMatch, .and, .or]

/-- prefix operators `! - +` -/
inductive UnOp | not | neg | pos
  deriving DecidableEq, Repr

def UnOp.tag : UnOp → Tag
  | .not => .bang | .neg => .minus | .pos => .plus

/-- assignment operators `= += -= *= /=` -/
inductive AsgOp | set | add | sub | mul | div
  deriving DecidableEq, Repr

def AsgOp.tag : AsgOp → Tag
  | .set => .equal | .add => .plusEqual | .sub => .minusEqual | .mul => .multiplyEqual
  | .div => .divideEqual

/-- the binary operator a compound assignment stands for (`none` for plain `=`) -/
def AsgOp.binTag : AsgOp → Option Tag
  | .set => none | .add => some .plus | .sub => some .minus | .mul => some .multiply
  | .div => some .divide

/-- `++` and `--` -/
inductive IncOp | inc | dec
  deriving DecidableEq, Repr

def IncOp.tag : IncOp → Tag
  | .inc => .plusPlus | .dec => .minusMinus

/-- literals: number (its digits), string (its body, delimiters excluded), `true false null` -/
inductive Lit
  | num (text : Bytes) | str (body : Bytes) | true_ | false_ | null
  deriving DecidableEq, Repr

/-- the right operand of `is`: a type name, the keyword `function`, or `null` -/
inductive TypeName
  | name (n : Bytes) | function | null
  deriving DecidableEq, Repr

/-- a key of an object literal: a bare name or a string -/
inductive ObjKey
  | name (n : Bytes) | str (body : Bytes)
  deriving DecidableEq, Repr

/-- Expressions over the documented operators.  `assign`, `postfix` and `preInc` are meaningful
    only on identifier / `$` / member / index targets (`PE.wf`). -/
inductive PE
  | ident (name : Bytes)
  | dollar                                 -- `$`, the current record
  | lit (l : Lit)
  | bin (op : BinOp) (l r : PE)
  | un (op : UnOp) (e : PE)
  | preInc (op : IncOp) (target : PE)
  | postfix (op : IncOp) (target : PE)
  | isType (e : PE) (ty : TypeName)
  | member (e : PE) (name : Bytes)
  | index (e i : PE)
  | call (f : PE) (args : List PE)
  | arr (items : List PE)                  -- array literal `[a, b, …]`
  | obj (items : List (ObjKey × PE))       -- object literal `{k: a, "s": b, …}`
  | assign (op : AsgOp) (target value : PE)

/-! ### tokens (all at position 0) -/

def opTok (t : Tag) : Token := ⟨t, 0, []⟩
def identTok (name : Bytes) : Token := ⟨.ident, 0, name⟩
def Lit.tok : Lit → Token
  | .num t => ⟨.num, 0, t⟩
  | .str b => ⟨.str, 0, b⟩
  | .true_ => opTok .true_
  | .false_ => opTok .false_
  | .null => opTok .null
def TypeName.tok : TypeName → Token
  | .name n => identTok n
  | .function => opTok .function
  | .null => opTok .null

def ObjKey.tok : ObjKey → Token
  | .name n => identTok n
  | .str b => ⟨.str, 0, b⟩
/-- the key as the AST records it: the raw token text -/
def ObjKey.text : ObjKey → Bytes
  | .name n => n
  | .str b => b

/-! ### the AST an expression stands for -/

mutual
def toExpr : PE → Expr
  | .ident n => .ident (identTok n)
  | .dollar => .ident (opTok .dollar)
  | .lit l => .lit l.tok
  | .bin op l r => .binary (toExpr l) (toExpr r) (opTok op.tag)
  | .un op e => .unary (toExpr e) (opTok op.tag) false
  | .preInc op t => .unary (toExpr t) (opTok op.tag) false
  | .postfix op t => .unary (toExpr t) (opTok op.tag) true
  | .isType e ty => .binary (toExpr e) (.ident ty.tok) (opTok .is)
  | .member e n => .binary (toExpr e) (.lit (identTok n)) (opTok .dot)
  | .index e i => .binary (toExpr e) (toExpr i) (opTok .lsquare)
  | .call f args => .call (toExpr f) (toExprs args)
  | .arr items => .arr (opTok .lsquare) (toExprs items)
  | .obj items => .obj (opTok .lcurly) (toKVs items)
  | .assign op t v =>
    match op.binTag with
    | none => .binary (toExpr t) (toExpr v) (opTok .equal)
    -- `t op= v` is `t = t op v`
    | some b => .binary (toExpr t) (.binary (toExpr t) (toExpr v) (opTok b)) (opTok .equal)
def toExprs : List PE → List Expr
  | [] => []
  | e :: es => toExpr e :: toExprs es
def toKVs : List (ObjKey × PE) → List (Bytes × Expr)
  | [] => []
  | (k, e) :: r => (k.text, toExpr e) :: toKVs r
end

/-! ### levels -/

/-- level of atoms (and of array and object literals, which are closed by their own brackets), and the level at which `renderFull` renders every operand -/
def topLevel : Nat := 10

/-- documented level of the outermost construct of an expression -/
def PE.level : PE → Nat
  | .ident _ | .dollar | .lit _ | .arr _ | .obj _ => topLevel
  | .bin op _ _ => op.level
  | .un _ _ | .preInc _ _ => 7
  | .postfix _ _ => 6
  | .isType _ _ => 3
  | .member _ _ | .index _ _ | .call _ _ => 8
  | .assign _ _ _ => 1

/-- assignment / increment targets: identifiers, member and index expressions -/
def PE.isTarget : PE → Bool
  | .ident _ | .dollar | .member _ _ | .index _ _ => true
  | _ => false

mutual
/-- well-formed: `assign`, `postfix` and `preInc` have targets -/
def PE.wf : PE → Bool
  | .ident _ | .dollar | .lit _ => true
  | .bin _ l r => l.wf && r.wf
  | .un _ e => e.wf
  | .preInc _ t => t.isTarget && t.wf
  | .postfix _ t => t.isTarget && t.wf
  | .isType e _ => e.wf
  | .member e _ => e.wf
  | .index e i => e.wf && i.wf
  | .call f args => f.wf && wfs args
  | .arr items => wfs items
  | .obj items => wfKVs items
  | .assign _ t v => t.isTarget && t.wf && v.wf
def wfs : List PE → Bool
  | [] => true
  | e :: es => e.wf && wfs es
def wfKVs : List (ObjKey × PE) → Bool
  | [] => true
  | (_, e) :: r => e.wf && wfKVs r
end

/-! ### renderings -/

def paren (ts : List Token) : List Token := [opTok .lparen] ++ ts ++ [opTok .rparen]

/-- an operand of level `lev` in a context of level `q`: parenthesised iff `lev < q` -/
def wrapAt (q lev : Nat) (ts : List Token) : List Token := if lev < q then paren ts else ts

/-- the level an operand is rendered at: its documented level `n`, or — when the operand is to
    be parenthesised regardless — the top level -/
def lv (force : Bool) (n : Nat) : Nat := if force then topLevel else n

mutual
/-- The tokens of an expression without parentheses around the whole.  Operands are rendered at
    the level §3.8 gives them: left operand of a binary operator at the operator's level, right
    operand one level up (left associativity); operand of a prefix operator at level 7; targets
    of call/member/index/postfix at level 8; right side of an assignment at level 1 (right
    associativity); arguments and indices at level 1.  `pol` is the set of subexpressions that are
    written with parentheses even where none are needed (compound ones; atoms never get any). -/
def body (pol : PE → Bool) : PE → List Token
  | .ident n => [identTok n]
  | .dollar => [opTok .dollar]
  | .lit l => [l.tok]
  | .bin op l r =>
    wrapAt (lv (pol l) op.level) l.level (body pol l) ++ [opTok op.tag]
      ++ wrapAt (lv (pol r) (op.level + 1)) r.level (body pol r)
  | .un op e => [opTok op.tag] ++ wrapAt (lv (pol e) 7) e.level (body pol e)
  | .preInc op t => [opTok op.tag] ++ wrapAt (lv (pol t) 7) t.level (body pol t)
  | .postfix op t => wrapAt (lv (pol t) 8) t.level (body pol t) ++ [opTok op.tag]
  | .isType e ty => wrapAt (lv (pol e) 3) e.level (body pol e) ++ [opTok .is, ty.tok]
  | .member e n => wrapAt (lv (pol e) 8) e.level (body pol e) ++ [opTok .dot, identTok n]
  | .index e i =>
    wrapAt (lv (pol e) 8) e.level (body pol e) ++ [opTok .lsquare]
      ++ wrapAt (lv (pol i) 1) i.level (body pol i) ++ [opTok .rsquare]
  | .call f args =>
    wrapAt (lv (pol f) 8) f.level (body pol f) ++ [opTok .lparen] ++ bodyArgs pol args
      ++ [opTok .rparen]
  | .arr items => [opTok .lsquare] ++ bodyArgs pol items ++ [opTok .rsquare]
  | .obj items => [opTok .lcurly] ++ bodyKVs pol items ++ [opTok .rcurly]
  | .assign op t v =>
    wrapAt (lv (pol t) 8) t.level (body pol t) ++ [opTok op.tag]
      ++ wrapAt (lv (pol v) 1) v.level (body pol v)
/-- comma-separated arguments -/
def bodyArgs (pol : PE → Bool) : List PE → List Token
  | [] => []
  | e :: es => wrapAt (lv (pol e) 1) e.level (body pol e) ++ bodyArgsTail pol es
def bodyArgsTail (pol : PE → Bool) : List PE → List Token
  | [] => []
  | e :: es => [opTok .comma] ++ wrapAt (lv (pol e) 1) e.level (body pol e) ++ bodyArgsTail pol es
/-- comma-separated `key : value` entries -/
def bodyKVs (pol : PE → Bool) : List (ObjKey × PE) → List Token
  | [] => []
  | (k, e) :: r =>
    [k.tok, opTok .colon] ++ wrapAt (lv (pol e) 1) e.level (body pol e) ++ bodyKVsTail pol r
def bodyKVsTail (pol : PE → Bool) : List (ObjKey × PE) → List Token
  | [] => []
  | (k, e) :: r =>
    [opTok .comma, k.tok, opTok .colon] ++ wrapAt (lv (pol e) 1) e.level (body pol e)
      ++ bodyKVsTail pol r
end

/-- an expression rendered for a context of level `q`: in parentheses iff its level is below `q` -/
def render (pol : PE → Bool) (q : Nat) (e : PE) : List Token := wrapAt q e.level (body pol e)

/-- minimal parenthesisation, for a context of level `q` (1 = a whole expression) -/
def renderMin (q : Nat) (e : PE) : List Token := render (fun _ => false) q e

/-- every compound subexpression (and the whole, if compound) in parentheses -/
def renderFull (e : PE) : List Token := render (fun _ => true) topLevel e

end Jqawk.Grammar
