/-
  Reference formatter for `printf` (property C18): two phases.
  1. `parseFormat`: the format string becomes a list of items — literal text and directives
     `%[-][0-9]*c` with `c ∈ {%, s, f, v}` — or a format error.
  2. `renderItems`: the items are rendered left to right, each directive except `%%` consuming
     the next argument, padded with `padTo` (whose laws are `C18.padTo_*`).
  Nothing of the implementation's scanning loop (fuel, argument index, accumulator) appears here.
-/
import Jqawk.Model.Natives

namespace Jqawk.Spec

inductive Item
  | lit (b : Bytes)
  | dir (zero : Bool) (width : Int) (code : UInt8)
  deriving DecidableEq, Repr

/-- the fixed maximum of a width, either sign -/
def maxWidth : Nat := 65536

/-- the four format codes `%`, `s`, `f`, `v` -/
def isCode (c : UInt8) : Bool := c == 37 || c == 115 || c == 102 || c == 118

/-- What follows a `%`: an optional width `-?[0-9]+` (a lone `-` is unparsable), then a code.
    Returns the directive and the unread rest of the format. -/
def parseDirective (rest : Bytes) : Except String (Item × Bytes) :=
  let neg := rest.head? == some 45
  let afterSign := if neg then rest.drop 1 else rest
  let digits := afterSign.takeWhile isDigitB
  let afterWidth := afterSign.dropWhile isDigitB
  let hasWidth := neg || !digits.isEmpty
  if rest.isEmpty then .error "dangling %"
  else if neg && digits.isEmpty then .error "unparsable width"
  else
    let n := digitsToNat digits
    if n > maxWidth then .error "width too large"
    else
      match afterWidth with
      | [] => .error (if hasWidth then "dangling width" else "dangling %")
      | code :: rest' =>
        if isCode code then
          .ok (.dir (!neg && digits.head? == some 48) (if neg then -(n : Int) else n) code, rest')
        else .error "unknown code"

/-- put a literal byte in front, merging it into a leading literal run -/
def consLit (b : UInt8) : List Item → List Item
  | .lit bs :: items => .lit (b :: bs) :: items
  | items => .lit [b] :: items

/-- the items of a format (`fuel` > length of the format is enough: `parseFormat`) -/
def parseItems : Nat → Bytes → Except String (List Item)
  | 0, _ => .error "out of fuel"
  | _, [] => .ok []
  | fuel + 1, b :: rest =>
    if b != 37 then
      match parseItems fuel rest with
      | .error m => .error m
      | .ok items => .ok (consLit b items)
    else
      match parseDirective rest with
      | .error m => .error m
      | .ok (d, rest') =>
        match parseItems fuel rest' with
        | .error m => .error m
        | .ok items => .ok (d :: items)

def parseFormat (fmt : Bytes) : Except String (List Item) := parseItems (fmt.length + 1) fmt

abbrev Out := Option (Except String Bytes)

/-- put `b` in front of a successful output -/
def prepend (b : Bytes) : Out → Out
  | none => none
  | some (.error m) => some (.error m)
  | some (.ok r) => some (.ok (b ++ r))

/-- the unpadded rendering of one argument: `%s` needs a string, `%f` a number, `%v` takes
    anything (`render`, which is `none` when it runs out of fuel) -/
def renderArg (render : Val → Option Bytes) (code : UInt8) (v : Val) : Out :=
  if code == 115 then
    match v with
    | .str s _ => some (.ok s)
    | _ => some (.error "wrong argument type")
  else if code == 102 then
    match v with
    | .num x => some (.ok x.format)
    | _ => some (.error "wrong argument type")
  else
    match render v with
    | none => none
    | some r => some (.ok r)

/-- render the items left to right; `args` are the arguments not yet consumed -/
def renderItems (render : Val → Option Bytes) : List Item → List Val → Out
  | [], _ => some (.ok [])
  | .lit b :: items, args => prepend b (renderItems render items args)
  | .dir zero width code :: items, args =>
    if code == 37 then prepend [37] (renderItems render items args)
    else
      match args with
      | [] => some (.error "missing argument")
      | v :: args' =>
        match renderArg render code v with
        | none => none
        | some (.error m) => some (.error m)
        | some (.ok r) =>
          prepend (padTo width (if zero then 48 else 32) r) (renderItems render items args')

/-- what `printf(fmt, args…)` writes, or an error -/
def printfRef (render : Val → Option Bytes) (args : List Val) : Out :=
  match args with
  | [] => some (.error "no format")
  | .str fmt _ :: rest =>
    match parseFormat fmt with
    | .error m => some (.error m)
    | .ok items => renderItems render items rest
  | _ :: _ => some (.error "format is not a string")

/-- equality of outcomes up to the error message -/
def Out.Equiv : Out → Out → Prop
  | none, none => True
  | some (.ok a), some (.ok b) => a = b
  | some (.error _), some (.error _) => True
  | _, _ => False

example : (parseFormat b!"ab%-05s%%c%3v").toOption =
    some [.lit b!"ab", .dir false (-5) 115, .dir false 0 37, .lit b!"c", .dir false 3 118] := by
  decide +kernel
example : (parseFormat b!"%05f").toOption = some [.dir true 5 102] := by decide +kernel
example : (parseFormat b!"abc%").toOption = none ∧ (parseFormat b!"%-s").toOption = none
    ∧ (parseFormat b!"%65537s").toOption = none ∧ (parseFormat b!"%12").toOption = none
    ∧ (parseFormat b!"%d").toOption = none := by decide +kernel
example : (printfRef (fun _ => some b!"V") [.str b!"<%3s|%-3s|%03s|%v>" none, .str b!"a" none,
    .str b!"b" none, .str b!"c" none, .nil none, .bool true]).map Except.toOption
      = some (some b!"<  a|b  |00c|V>") := by
  decide +kernel

end Jqawk.Spec
