/-
  L3: values and the heap (src/value.go).  Every Go pointer that matters is an id:
  `*Cell` = CellId, `*[]*Cell` = ArrId, `*map[string]*Cell` = ObjId; `ParentObj`, `Binding`
  and `returnVal` (always `&someCell.Value`) are CellIds.
-/
import Jqawk.Model.F64

namespace Jqawk

abbrev CellId := Nat
abbrev ArrId := Nat
abbrev ObjId := Nat

/-- key of a speculative member: `Str` or `Num` field of a speculative null -/
inductive Key
  | str (s : Bytes)
  | num (x : F64)
  deriving DecidableEq, Repr, Inhabited

/-- `ParentObj` + key: where a value would be stored if it were assigned to -/
structure SpecRef where
  parent : CellId
  key : Key
  deriving DecidableEq, Repr, Inhabited

/-- the native functions: three builtins and the prototype methods (src/runtime.go, src/prototypes.go) -/
inductive Native
  | printf | json | num
  | arrLength | arrPush | arrPop | arrPopfirst | arrContains | arrSort
  | objLength | objPluck
  | strLength | strSplit | strLower | strUpper
  | numFloor | numCeil | numRound
  deriving DecidableEq, Repr, Inhabited

/-- `Value`: tag and payload consistent by construction. -/
inductive Val
  | str (s : Bytes) (spec : Option SpecRef)           -- `spec`: set on a character read from a string by index
  | bool (b : Bool)
  | num (x : F64)
  | arr (a : ArrId)
  | obj (o : ObjId)
  | nil (spec : Option SpecRef)                       -- ValueNil; `spec` = speculative member info
  | native (f : Native) (binding : Option CellId) (spec : Option SpecRef)
  | fn (i : Nat)                                      -- index into Program.functions
  | regex (s : Bytes)
  | unknown
  deriving DecidableEq, Repr, Inhabited

/-- `ValueTag.String()` (valuetag_string.go) -/
def Val.tagName : Val → String
  | .str .. => "string" | .bool _ => "bool" | .num _ => "number" | .arr _ => "array"
  | .obj _ => "object" | .nil _ => "nil" | .native .. => "nativefunction" | .fn _ => "function"
  | .regex _ => "regex" | .unknown => "unknown"

/-- the kinds of values (tags), for kind-indexed statements -/
inductive Kind | str | bool | num | arr | obj | nil | native | fn | regex | unknown
  deriving DecidableEq, Repr

def Val.kind : Val → Kind
  | .str .. => .str | .bool _ => .bool | .num _ => .num | .arr _ => .arr | .obj _ => .obj
  | .nil _ => .nil | .native .. => .native | .fn _ => .fn | .regex _ => .regex | .unknown => .unknown

/-- `Value.String()`: string form used for concatenation and object keys -/
def Val.str! : Val → Bytes
  | .str s _ => s
  | .num x => x.format
  | _ => []

/-- `isTruthy` -/
def Val.truthy : Val → Bool
  | .bool b => b
  | .num x => !x.isZero
  | .str s _ => !s.isEmpty
  | .arr _ | .obj _ | .fn _ | .native .. => true
  | _ => false

/-- `asFloat64` -/
def Val.asNum : Val → F64
  | .num x => x
  | .bool b => if b then F64.one else F64.zero
  | .str s _ => match F64.parse s with | some x => x | none => F64.zero
  | _ => F64.zero

/-- `Value.Compare`: -1/0/1, or the error "cannot compare" -/
def Val.compare (a b : Val) : Except String Int :=
  match a, b with
  | .nil _, .nil _ => .ok 0
  | .nil _, _ => .ok (-1)
  | _, .nil _ => .ok 1
  | _, _ =>
    if a.kind == .arr || b.kind == .arr || a.kind == .obj || b.kind == .obj then
      .error "cannot compare"
    else
      match a, b with
      | .str x _, .str y _ =>
        .ok (match Bytes.cmp x y with | .lt => -1 | .eq => 0 | .gt => 1)
      | _, _ =>
        let x := a.asNum
        let y := b.asNum
        .ok (if F64.lt y x then 1 else if F64.lt x y then -1 else 0)

/-! ### the heap -/

structure Heap where
  cells : Array Val
  arrs : Array (Array CellId)
  objs : Array (List (Bytes × CellId))      -- members in insertion order, keys unique
  deriving Repr, Inhabited

namespace Heap

def empty : Heap := ⟨#[], #[], #[]⟩

def get (h : Heap) (c : CellId) : Val := h.cells.getD c .unknown

def set (h : Heap) (c : CellId) (v : Val) : Heap :=
  { h with cells := h.cells.setIfInBounds c v }

/-- `NewCell(v)` -/
def alloc (h : Heap) (v : Val) : CellId × Heap :=
  (h.cells.size, { h with cells := h.cells.push v })

def arr (h : Heap) (a : ArrId) : Array CellId := h.arrs.getD a #[]

def setArr (h : Heap) (a : ArrId) (items : Array CellId) : Heap :=
  { h with arrs := h.arrs.setIfInBounds a items }

/-- a new array object holding the given cells -/
def allocArr (h : Heap) (items : Array CellId) : ArrId × Heap :=
  (h.arrs.size, { h with arrs := h.arrs.push items })

def obj (h : Heap) (o : ObjId) : List (Bytes × CellId) := h.objs.getD o []

def setObj (h : Heap) (o : ObjId) (m : List (Bytes × CellId)) : Heap :=
  { h with objs := h.objs.setIfInBounds o m }

def allocObj (h : Heap) (m : List (Bytes × CellId)) : ObjId × Heap :=
  (h.objs.size, { h with objs := h.objs.push m })

end Heap

/-- map lookup -/
def objLookup : List (Bytes × CellId) → Bytes → Option CellId
  | [], _ => none
  | (k, c) :: rest, key => if k == key then some c else objLookup rest key

/-- map store `m[key] = cell` -/
def objInsert : List (Bytes × CellId) → Bytes → CellId → List (Bytes × CellId)
  | [], key, c => [(key, c)]
  | (k, c0) :: rest, key, c => if k == key then (k, c) :: rest else (k, c0) :: objInsert rest key c

/-- insertion sort of members by key, bytewise ascending (`sort.Strings` on the keys) -/
def insertByKey (kv : Bytes × CellId) : List (Bytes × CellId) → List (Bytes × CellId)
  | [] => [kv]
  | x :: xs => if Bytes.le kv.1 x.1 then kv :: x :: xs else x :: insertByKey kv xs

def sortByKey : List (Bytes × CellId) → List (Bytes × CellId)
  | [] => []
  | x :: xs => insertByKey x (sortByKey xs)

/-- `copyValue(from, to)`: scalars are copied into fresh payloads, arrays/objects/unset are
    shared, functions are rejected.  Returns the value to store in `to`. -/
def copyVal : Val → Except String Val
  | .num x => .ok (.num x)
  | .bool b => .ok (.bool b)
  | .nil _ => .ok (.nil none)
  | .str s _ => .ok (.str s none)
  | .regex s => .ok (.regex s)
  | .arr a => .ok (.arr a)
  | .obj o => .ok (.obj o)
  | .unknown => .ok .unknown
  | .native .. => .error "cannot copy a nativefunction"
  | .fn _ => .error "cannot copy a function"

/-! ### prototypes: method tables as pure lookups (never written) -/

def arrayProto (key : Bytes) : Option Native :=
  if key == b!"length" then some .arrLength
  else if key == b!"push" then some .arrPush
  else if key == b!"pop" then some .arrPop
  else if key == b!"popfirst" then some .arrPopfirst
  else if key == b!"contains" then some .arrContains
  else if key == b!"sort" then some .arrSort
  else none

def objProto (key : Bytes) : Option Native :=
  if key == b!"length" then some .objLength
  else if key == b!"pluck" then some .objPluck
  else none

def strProto (key : Bytes) : Option Native :=
  if key == b!"length" then some .strLength
  else if key == b!"split" then some .strSplit
  else if key == b!"lower" then some .strLower
  else if key == b!"upper" then some .strUpper
  else none

def numProto (key : Bytes) : Option Native :=
  if key == b!"floor" then some .numFloor
  else if key == b!"ceil" then some .numCeil
  else if key == b!"round" then some .numRound
  else none

/-- what `GetMember` found -/
inductive Member
  | cell (c : CellId)          -- a live cell of the container
  | char (c : Option Bytes) (index : F64)  -- string indexing: a fresh cell holding the character (or null), remembering parent and index
  | method (f : Native)        -- a prototype method
  | missing                    -- `nil, nil`
  deriving Repr, DecidableEq

/-- lookup in a prototype object: `proto.GetMember(member)` -/
def protoGet (tbl : Bytes → Option Native) (member : Val) : Except String Member :=
  match member with
  | .num _ | .str .. =>
    match tbl member.str! with
    | some f => .ok (.method f)
    | none => .ok .missing
  | _ => .error "objects can only be indexed with numbers or strings"

/-- array index resolution: negative indices count from the end; `none` = before the start -/
def resolveIndex (len : Nat) (i : Int) : Option Nat :=
  if i < 0 then
    let j := (len : Int) + i
    if j < 0 then none else some j.toNat
  else some i.toNat

/-- `Value.GetMember(member)` (never changes anything) -/
def getMember (h : Heap) (v : Val) (member : Val) : Except String Member :=
  match v with
  | .arr a =>
    match member with
    | .num x =>
      let items := h.arr a
      match resolveIndex items.size x.toGoInt with
      | none => .error "index out of range"
      | some i => if i < items.size then .ok (.cell (items.getD i 0)) else .ok .missing
    | _ => protoGet arrayProto member
  | .obj o =>
    match member with
    | .num _ | .str .. =>
      match objLookup (h.obj o) member.str! with
      | some c => .ok (.cell c)
      | none => protoGet objProto member
    | _ => .error "objects can only be indexed with numbers or strings"
  | .str s _ =>
    match member with
    | .num x =>
      let i := x.toGoInt
      -- the character remembers the TRUNCATED index (`fIndex := float64(index)`, src/value.go:300-303)
      if i < 0 || i ≥ s.length then .ok (.char none (F64.ofInt i))
      else .ok (.char (some (utf8Encode (s.getD i.toNat 0).toNat)) (F64.ofInt i))
    | _ => protoGet strProto member
  | .num _ => protoGet numProto member
  | _ => .ok .missing

def fillLimit : Nat := 1024 * 1024

/-- append `n` fresh null cells to an array -/
def fillNulls : Nat → Heap → Array CellId → Heap × Array CellId
  | 0, h, items => (h, items)
  | n + 1, h, items =>
    let (c, h') := h.alloc (.nil none)
    fillNulls n h' (items.push c)

/-- `Value.SetMember(member, cell)`: returns the cell that now is the member. -/
def setMember (h : Heap) (v : Val) (member : Val) (cell : CellId) : Except String (CellId × Heap) :=
  match v with
  | .arr a =>
    match member with
    | .num x =>
      let items := h.arr a
      match resolveIndex items.size x.toGoInt with
      | none => .error "index out of range"
      | some i =>
        if i < items.size then
          let item := items.getD i 0
          .ok (item, h.set item (h.get cell))
        else if i > fillLimit then .error "index too large to auto-fill array"
        else
          let (h1, items') := fillNulls (i + 1 - items.size) h items
          let item := items'.getD i 0
          let h2 := h1.setArr a items'
          .ok (item, h2.set item (h2.get cell))
    | _ => .error "array indices must be numbers"
  | .obj o =>
    .ok (cell, h.setObj o (objInsert (h.obj o) member.str! cell))
  | _ => .error "cannot set member on a scalar"

end Jqawk
