/-
  L1: tokens and the on-demand lexer (src/lexer.go).
  The lexer state is the unread suffix plus its absolute offset and Go's `tokenStart`
  field (which survives across calls and gives the EOF token its position).
-/
import Jqawk.Model.Bytes

namespace Jqawk

/-- `TokenTag` of src/lexer.go, same order. -/
inductive Tag
  | eof | error | ident | str | regex | num
  | begin_ | end_ | beginFile | endFile | print | function | return_ | if_ | else_ | for_
  | while_ | in_ | match_ | break_ | continue_ | next | newline | exit | null | is
  | true_ | false_
  | lcurly | rcurly | lsquare | rsquare | lparen | rparen | lessThan | greaterThan | dollar
  | comma | dot | equal | equalEqual | bangEqual | lessEqual | greaterEqual | colon | semiColon
  | plus | minus | multiply | divide | plusEqual | minusEqual | multiplyEqual | divideEqual
  | tilde | bangTilde | ampAmp | pipePipe | arrow | bang | plusPlus | minusMinus | percent
  deriving DecidableEq, Repr, Inhabited

/-- A token.  Go stores (Tag, Pos, Len) and slices the source on demand; the model stores the
    slice itself (`text`), so `Len = text.length`.  For `str`/`regex` tokens `pos` is the offset
    just after the opening delimiter and `text` excludes both delimiters, as in Go. -/
structure Token where
  tag : Tag
  pos : Nat
  text : Bytes
  deriving DecidableEq, Repr, Inhabited

/-- Zero value `Token{}` (used by the body-less rule's `StatementPrint{}`). -/
def Token.zero : Token := ⟨.eof, 0, []⟩

/-- A syntax error: byte offset into the program text and a message (never compared). -/
structure SynErr where
  pos : Nat
  msg : String
  deriving Repr, Inhabited, DecidableEq

structure LexState where
  rest : Bytes          -- src[pos:]
  pos : Nat
  tokenStart : Nat
  deriving Repr, Inhabited, DecidableEq

def LexState.init (src : Bytes) : LexState := ⟨src, 0, 0⟩

namespace Lexer

/-- `skipWhitespace`: blanks, tabs, CRs and `#` comments (up to, not including, the newline). -/
def skipComment : Bytes → Nat → Bytes × Nat
  | [], p => ([], p)
  | c :: cs, p => if c == 10 then (c :: cs, p) else skipComment cs (p + 1)

def skipWs : Nat → Bytes → Nat → Bytes × Nat
  | 0, r, p => (r, p)
  | _, [], p => ([], p)
  | fuel + 1, c :: cs, p =>
    if c == 32 || c == 13 || c == 9 then skipWs fuel cs (p + 1)
    else if c == 35 then
      let (r, p') := skipComment cs (p + 1)
      skipWs fuel r p'
    else (c :: cs, p)

/-- Longest prefix satisfying `f`, and the remainder. -/
def spanB (f : UInt8 → Bool) : Bytes → Bytes × Bytes
  | [] => ([], [])
  | c :: cs => if f c then let (a, b) := spanB f cs; (c :: a, b) else ([], c :: cs)

/-- keyword table of `identifier()` -/
def keyword (s : Bytes) : Option Tag :=
  if s == b!"BEGIN" then some .begin_
  else if s == b!"END" then some .end_
  else if s == b!"BEGINFILE" then some .beginFile
  else if s == b!"ENDFILE" then some .endFile
  else if s == b!"print" then some .print
  else if s == b!"$" then some .dollar
  else if s == b!"function" then some .function
  else if s == b!"return" then some .return_
  else if s == b!"if" then some .if_
  else if s == b!"else" then some .else_
  else if s == b!"for" then some .for_
  else if s == b!"while" then some .while_
  else if s == b!"in" then some .in_
  else if s == b!"match" then some .match_
  else if s == b!"true" then some .true_
  else if s == b!"false" then some .false_
  else if s == b!"break" then some .break_
  else if s == b!"continue" then some .continue_
  else if s == b!"next" then some .next
  else if s == b!"exit" then some .exit
  else if s == b!"null" then some .null
  else if s == b!"is" then some .is
  else none

/-- `identifier()`: `pre` is what has been consumed already (empty, or `$`). -/
def identifier (pre : Bytes) (start : Nat) (r : Bytes) : Token × LexState :=
  let (w, r') := spanB isIdentB r
  let s := pre ++ w
  let st : LexState := ⟨r', start + s.length, start⟩
  match keyword s with
  | some t => (⟨t, start, []⟩, st)
  | none => (⟨.ident, start, s⟩, st)

/-- `number()`: digits, then a fraction only if a `.` is directly followed by a digit. -/
def number (start : Nat) (r : Bytes) : Token × LexState :=
  let (ds, r1) := spanB isDigitB r
  match r1 with
  | 46 :: d :: r2 =>
    if isDigitB d then
      let (fs, r3) := spanB isDigitB (d :: r2)
      let s := ds ++ 46 :: fs
      (⟨.num, start, s⟩, ⟨r3, start + s.length, start⟩)
    else (⟨.num, start, ds⟩, ⟨r1, start + ds.length, start⟩)
  | _ => (⟨.num, start, ds⟩, ⟨r1, start + ds.length, start⟩)

/-- Scan to the closing delimiter `q`: the bytes before it and the rest after it. -/
def scanTo (q : UInt8) : Bytes → Option (Bytes × Bytes)
  | [] => none
  | c :: cs => if c == q then some ([], cs) else
    match scanTo q cs with
    | some (a, b) => some (c :: a, b)
    | none => none

/-- `string(quoteChar)`; `start` is the offset of the opening quote, `r` the bytes after it. -/
def string (q : UInt8) (start : Nat) (r : Bytes) : Except SynErr (Token × LexState) :=
  match scanTo q r with
  | none => .error ⟨start + 1, "unexpected EOF while reading string"⟩
  | some (body, r') =>
    .ok (⟨.str, start + 1, body⟩, ⟨r', start + 1 + body.length + 1, start + 1⟩)

/-- `Lexer.Regex()`: called by the parser when `/` is in prefix position; the state is the one
    left by the `Next()` that produced the `/` token (tokenStart = its offset). -/
def regex (s : LexState) : Except SynErr (Token × LexState) :=
  match scanTo 47 s.rest with
  | none => .error ⟨s.tokenStart, "unexpected EOF while reading regex"⟩
  | some (body, r') =>
    -- Go: Len = pos - (tokenStart+1) - 1 where pos is after the closing '/'
    let newPos := s.pos + body.length + 1
    let tstart := s.tokenStart + 1
    -- the token text is src[tstart : tstart + (newPos - tstart - 1)]; when tokenStart+1 = s.pos
    -- (always, since '/' is one byte and nothing is skipped) this is `body`
    .ok (⟨.regex, tstart, body⟩, ⟨r', newPos, tstart⟩)

private def simple (t : Tag) (start : Nat) (r : Bytes) (n : Nat) : Except SynErr (Token × LexState) :=
  .ok (⟨t, start, []⟩, ⟨r, start + n, start⟩)

/-- `Lexer.Next()` -/
def next (s : LexState) : Except SynErr (Token × LexState) :=
  let (r, p) := skipWs (s.rest.length + 1) s.rest s.pos
  match r with
  | [] => .ok (⟨.eof, s.tokenStart, []⟩, ⟨[], p, s.tokenStart⟩)
  | c :: cs =>
    if c == 10 then simple .newline p cs 1
    else if c == 36 then .ok (identifier [36] p cs)
    else if isDigitB c then .ok (number p (c :: cs))
    else if isLetterB c || c == 95 then .ok (identifier [] p (c :: cs))
    else
      let two (t2 : Tag) (rest2 : Bytes) := simple t2 p rest2 2
      let one (t1 : Tag) := simple t1 p cs 1
      if c == 123 then one .lcurly
      else if c == 125 then one .rcurly
      else if c == 91 then one .lsquare
      else if c == 93 then one .rsquare
      else if c == 40 then one .lparen
      else if c == 41 then one .rparen
      else if c == 44 then one .comma
      else if c == 46 then one .dot
      else if c == 59 then one .semiColon
      else if c == 58 then one .colon
      else if c == 126 then one .tilde
      else if c == 37 then one .percent
      else if c == 60 then
        match cs with | 61 :: r2 => two .lessEqual r2 | _ => one .lessThan
      else if c == 62 then
        match cs with | 61 :: r2 => two .greaterEqual r2 | _ => one .greaterThan
      else if c == 43 then
        match cs with
        | 43 :: r2 => two .plusPlus r2
        | 61 :: r2 => two .plusEqual r2
        | _ => one .plus
      else if c == 45 then
        match cs with
        | 45 :: r2 => two .minusMinus r2
        | 61 :: r2 => two .minusEqual r2
        | _ => one .minus
      else if c == 42 then
        match cs with | 61 :: r2 => two .multiplyEqual r2 | _ => one .multiply
      else if c == 47 then
        match cs with | 61 :: r2 => two .divideEqual r2 | _ => one .divide
      else if c == 61 then
        match cs with
        | 61 :: r2 => two .equalEqual r2
        | 62 :: r2 => two .arrow r2
        | _ => one .equal
      else if c == 33 then
        match cs with
        | 61 :: r2 => two .bangEqual r2
        | 126 :: r2 => two .bangTilde r2
        | _ => one .bang
      else if c == 38 then
        match cs with
        | 38 :: r2 => two .ampAmp r2
        | _ => .error ⟨p, "unexpected character"⟩
      else if c == 124 then
        match cs with
        | 124 :: r2 => two .pipePipe r2
        | _ => .error ⟨p, "unexpected character"⟩
      else if c == 39 || c == 34 then string c p cs
      else .error ⟨p, "unexpected character"⟩

end Lexer

/-! ### `GetLineAndCol` (src/lexer.go), byte-based -/

/-- Result of `GetLineAndCol pos`: (source line text, 1-based line, 0-based byte column). -/
structure LineCol where
  srcLine : Bytes
  line : Nat
  col : Nat
  deriving Repr, DecidableEq

/-- The bytes of `s` up to (not including) the first newline. -/
def takeLine : Bytes → Bytes
  | [] => []
  | c :: cs => if c == 10 then [] else c :: takeLine cs

/-- Scan: `cur` = current line number, `lineRest` = the source from the start of the current
    line, `col` = offset into the current line, `s` = unread bytes, `k` = bytes still to skip. -/
def getLineAndColAux : Bytes → Bytes → Nat → Nat → Nat → LineCol
  | lineRest, _, line, col, 0 => ⟨takeLine lineRest, line, col⟩
  | lineRest, [], line, col, _ + 1 => ⟨takeLine lineRest, line, col⟩
  | lineRest, c :: cs, line, col, k + 1 =>
    if c == 10 then getLineAndColAux cs cs (line + 1) 0 k
    else getLineAndColAux lineRest cs line (col + 1) k

def getLineAndCol (src : Bytes) (pos : Nat) : LineCol :=
  getLineAndColAux src src 1 0 pos

end Jqawk
