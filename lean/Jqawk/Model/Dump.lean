/-
  AST → S-expression, byte for byte the format of the `verif` hook `VerifDumpProgram` in /repo
  (src/verif_hooks.go).  Used by the correspondence check (`parse` mode) and by the finite
  `decide` theorems of C06 (comparison of parse results).
-/
import Jqawk.Model.Ast

namespace Jqawk

def hexOrDash (b : Bytes) : Bytes := if b.isEmpty then [45] else Bytes.toHex b

def natB (n : Nat) : Bytes := natToBytes n

def sp : Bytes := [32]

def RuleKind.idx : RuleKind → Nat
  | .begin_ => 0 | .end_ => 1 | .beginFile => 2 | .endFile => 3 | .pattern => 4

mutual
def dumpExpr : Expr → Bytes
  | .lit t => b!"(lit " ++ natB t.tag.ctorIdx ++ sp ++ natB t.pos ++ sp ++ hexOrDash t.text ++ b!")"
  | .ident t => b!"(id " ++ natB t.tag.ctorIdx ++ sp ++ natB t.pos ++ sp ++ hexOrDash t.text ++ b!")"
  | .arr t items => b!"(arr " ++ natB t.pos ++ dumpExprs items ++ b!")"
  | .obj t items => b!"(obj " ++ natB t.pos ++ dumpKVs items ++ b!")"
  | .unary e op post =>
    b!"(un " ++ natB op.tag.ctorIdx ++ sp ++ natB op.pos ++ sp ++ (if post then b!"1" else b!"0") ++ sp
      ++ dumpExpr e ++ b!")"
  | .binary l r op =>
    b!"(bin " ++ natB op.tag.ctorIdx ++ sp ++ natB op.pos ++ sp ++ dumpExpr l ++ sp ++ dumpExpr r ++ b!")"
  | .call f args => b!"(call " ++ dumpExpr f ++ dumpExprs args ++ b!")"
  | .match_ t v cases => b!"(match " ++ natB t.pos ++ sp ++ dumpExpr v ++ dumpCases cases ++ b!")"
def dumpExprs : List Expr → Bytes
  | [] => []
  | e :: es => sp ++ dumpExpr e ++ dumpExprs es
def dumpKVs : List (Bytes × Expr) → Bytes
  | [] => []
  | (k, e) :: es => b!" (kv " ++ hexOrDash k ++ sp ++ dumpExpr e ++ b!")" ++ dumpKVs es
def dumpCases : List MatchCase → Bytes
  | [] => []
  | (.mk pats body) :: cs =>
    b!" (case (pats" ++ dumpExprs pats ++ b!") " ++ dumpStmt body ++ b!")" ++ dumpCases cs
def dumpStmt : Stmt → Bytes
  | .block t body => b!"(block " ++ natB t.pos ++ dumpStmts body ++ b!")"
  | .print t args => b!"(print " ++ natB t.pos ++ dumpExprs args ++ b!")"
  | .expr e => b!"(expr " ++ dumpExpr e ++ b!")"
  | .ret none => b!"(ret)"
  | .ret (some e) => b!"(ret " ++ dumpExpr e ++ b!")"
  | .brk t => b!"(brk " ++ natB t.pos ++ b!")"
  | .cont t => b!"(cont " ++ natB t.pos ++ b!")"
  | .next t => b!"(next " ++ natB t.pos ++ b!")"
  | .exit t => b!"(exit " ++ natB t.pos ++ b!")"
  | .if_ c b none => b!"(if " ++ dumpExpr c ++ sp ++ dumpStmt b ++ b!")"
  | .if_ c b (some e) => b!"(if " ++ dumpExpr c ++ sp ++ dumpStmt b ++ sp ++ dumpStmt e ++ b!")"
  | .while_ c b => b!"(while " ++ dumpExpr c ++ sp ++ dumpStmt b ++ b!")"
  | .for_ pre c post b =>
    b!"(for " ++ dumpExpr pre ++ sp ++ dumpExpr c ++ sp ++ dumpExpr post ++ sp ++ dumpStmt b ++ b!")"
  | .forIn id idx iter body =>
    b!"(forin " ++ natB id.pos ++ sp ++ hexOrDash id.text ++ sp ++
      (match idx with
       | none => []
       | some it => b!"(idx " ++ natB it.pos ++ sp ++ hexOrDash it.text ++ b!") ") ++
      dumpExpr iter ++ sp ++ dumpStmt body ++ b!")"
def dumpStmts : List Stmt → Bytes
  | [] => []
  | s :: ss => sp ++ dumpStmt s ++ dumpStmts ss
end

def dumpArgs : List Bytes → Bytes
  | [] => []
  | a :: as => sp ++ hexOrDash a ++ dumpArgs as

def dumpRule (r : Rule) : Bytes :=
  b!" (rule " ++ natB r.kind.idx ++ sp ++
    (match r.pattern with
     | none => []
     | some p => b!"(pat " ++ dumpExpr p ++ b!") ") ++
    dumpStmt r.body ++ b!")"

def dumpFunc (f : FuncDef) : Bytes :=
  b!" (fn " ++ natB f.ident.pos ++ sp ++ hexOrDash f.ident.text ++ b!" (args" ++ dumpArgs f.args ++ b!") "
    ++ dumpStmt f.body ++ b!")"

def dumpProgram (p : Program) : Bytes :=
  b!"(prog" ++ (p.rules.map dumpRule).flatten ++ (p.functions.map dumpFunc).flatten ++ b!")"

end Jqawk
