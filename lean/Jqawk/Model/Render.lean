/-
  L3: rendering of values (src/value.go PrettyString, ToGoValue).  Both walk a possibly cyclic
  heap with the list of ancestor containers; fuel = number of containers + 1 always suffices
  (Lemmas/Render.lean).
-/
import Jqawk.Model.Value
import Jqawk.Model.Json

namespace Jqawk

/-- identity of a container (`isSame`: same map pointer / same slice pointer) -/
inductive Cont
  | a (i : ArrId)
  | o (i : ObjId)
  deriving DecidableEq, Repr

def Val.cont? : Val → Option Cont
  | .arr a => some (.a a)
  | .obj o => some (.o o)
  | _ => none

def onPath (path : List Cont) (v : Val) : Bool :=
  match v.cont? with
  | some c => path.contains c
  | none => false

def joinSep (sep : Bytes) : List Bytes → Bytes
  | [] => []
  | [x] => x
  | x :: xs => x ++ sep ++ joinSep sep xs

/-- `prettyStringInteral(rootValues, quote, checkCircularReference)`; `none` = out of fuel -/
def pretty (h : Heap) : Nat → List Cont → Bool → Bool → Val → Option Bytes
  | 0, _, _, _, _ => none
  | n + 1, path, quote, check, v =>
    if check && onPath path v then some b!"<circular reference>" else
    match v with
    | .str s _ => some (if quote then [34] ++ s ++ [34] else s)
    | .num x => some x.format
    | .bool b => some (if b then b!"true" else b!"false")
    | .nil _ => some b!"null"
    | .arr a =>
      match (h.arr a).toList.mapM (fun c => pretty h n (path ++ [.a a]) true true (h.get c)) with
      | none => none
      | some parts => some ([91] ++ joinSep b!", " parts ++ [93])
    | .obj o =>
      match (sortByKey (h.obj o)).mapM (fun kv =>
          match pretty h n (path ++ [.o o]) true true (h.get kv.2) with
          | none => none
          | some r => some ([34] ++ kv.1 ++ [34] ++ b!": " ++ r)) with
      | none => none
      | some parts => some ([123] ++ joinSep b!", " parts ++ [125])
    | .native .. => some b!"<nativefunction>"
    | .fn _ => some b!"<function>"
    | .regex _ => some b!"<regex>"
    | .unknown => some b!"<unknown>"

/-- enough fuel for any heap -/
def renderFuel (h : Heap) : Nat := h.arrs.size + h.objs.size + 2

/-- `PrettyString(false)` -/
def prettyTop (h : Heap) (v : Val) : Option Bytes := pretty h (renderFuel h) [] false false v

inductive GoValRes (α : Type)
  | ok (v : α)
  | error (msg : String)      -- "circular reference", "cannot be converted", unsupported float
  | oof

/-- first non-ok result in order, else all the values -/
def GoValRes.sequence {α : Type} : List (GoValRes α) → GoValRes (List α)
  | [] => .ok []
  | .ok v :: rest =>
    match sequence rest with
    | .ok vs => .ok (v :: vs)
    | .error m => .error m
    | .oof => .oof
  | .error m :: _ => .error m
  | .oof :: _ => .oof

/-- `toGoValueInterval` followed by what `json.Marshal` needs (numbers formatted; a non-finite
    number is the encoder's UnsupportedValueError). -/
def toJVal (h : Heap) : Nat → List Cont → Bool → Val → GoValRes JVal
  | 0, _, _, _ => .oof
  | n + 1, path, check, v =>
    if check && onPath path v then .error "circular reference" else
    match v with
    | .str s _ => .ok (.str s)
    | .bool b => .ok (.bool b)
    | .num x =>
      match x.jsonFormat with
      | some lit => .ok (.num lit)
      | none => .error "unsupported value"
    | .arr a =>
      match GoValRes.sequence ((h.arr a).toList.map fun c => toJVal h n (path ++ [.a a]) true (h.get c)) with
      | .ok items => .ok (.arr items)
      | .error m => .error m
      | .oof => .oof
    | .obj o =>
      match GoValRes.sequence ((sortByKey (h.obj o)).map fun kv =>
          match toJVal h n (path ++ [.o o]) true (h.get kv.2) with
          | .ok j => .ok (kv.1, j)
          | .error m => .error m
          | .oof => .oof) with
      | .ok members => .ok (.obj members)
      | .error m => .error m
      | .oof => .oof
    | .nil _ | .unknown => .ok .null
    | .native .. => .error "a nativefunction cannot be converted to a native type"
    | .fn _ => .error "a function cannot be converted to a native type"
    | .regex _ => .error "a regex cannot be converted to a native type"

/-- `ToGoValue()` -/
def toJValTop (h : Heap) (v : Val) : GoValRes JVal := toJVal h (renderFuel h) [] false v

end Jqawk
