/-
  L4: the evaluator (src/evaluator.go:169-1038): one mutual, fuel-recursive block that follows
  the Go code case by case, threading Go's `(value, error)` pairs and the sentinel errors.
-/
import Jqawk.Model.Natives
import Jqawk.Model.Re

namespace Jqawk

/-- `evalString`: process `\n`, `\t`, `\\`; anything else after a backslash is an error -/
def evalStringLit : Bytes → Except String Bytes
  | [] => .ok []
  | 92 :: [] => .error "unexpected '\\' at end of string"
  | 92 :: c :: rest =>
    let out : Option UInt8 :=
      if c == 110 then some 10 else if c == 92 then some 92 else if c == 116 then some 9 else none
    match out with
    | none => .error "unknown escape char"
    | some b =>
      match evalStringLit rest with
      | .ok r => .ok (b :: r)
      | .error m => .error m
  | c :: rest =>
    match evalStringLit rest with
    | .ok r => .ok (c :: r)
    | .error m => .error m

/-- `copyValue(from, to)` on cells; the error is a plain Go error -/
def copyValue (src dst : CellId) : EM (Except String CellId) := do
  let v ← readCell src
  match copyVal v with
  | .ok w => writeCell dst w; return .ok dst
  | .error m => return .error m

/-- `createSpeculativeObjects(specObj)` (src/evaluator.go:708-766): materialise the parents
    of a speculative member, then store the cell itself as that member. -/
def createSpeculative : Nat → CellId → EM (Except String CellId)
  | 0, _ => oof
  | n + 1, specObj => do
    let sv ← readCell specObj
    let spec? : Option SpecRef := match sv with
      | .nil s => s
      | .native _ _ s => s
      | .str _ s => s
      | _ => none
    match spec? with
    | none => throwPanic "speculative object has no parent"
    | some spec =>
      let pv ← readCell spec.parent
      match pv with
      | .nil none => return .error "could not create this object"
      | _ =>
        let memberToSet : Val := match spec.key with
          | .str s => .str s none
          | .num x => .num x
        let objToSet ← (match pv with
          | .unknown => do
            -- an unset value becomes an array for a numeric key, an object otherwise
            let newObj : Val ← (match memberToSet with
              | .num _ => do let a ← allocArrM #[]; pure (Val.arr a)
              | _ => do let o ← allocObjM []; pure (Val.obj o) : EM Val)
            writeCell spec.parent newObj
            return Except.ok newObj
          | .nil (some _) => do
            -- the parent is itself speculative: create it first (on a copy of its value)
            let pc ← newCell pv
            match (← createSpeculative n pc) with
            | .error m => return Except.error m
            | .ok newParent =>
              let h ← getHeap
              let newObj : Val × Heap := match memberToSet with
                | .str .. => let (o, h') := h.allocObj []; (.obj o, h')
                | _ => let (a, h') := h.allocArr #[]; (.arr a, h')
              setHeap newObj.2
              writeCell newParent newObj.1
              -- the cell that stood for the missing parent now refers to it too
              writeCell spec.parent newObj.1
              return Except.ok newObj.1
          | _ => return Except.ok pv : EM (Except String Val))
        match objToSet with
        | .error m => return .error m
        | .ok target =>
          let h ← getHeap
          match setMember h target memberToSet specObj with
          | .error m => return .error m
          | .ok (c, h') => setHeap h'; return .ok c

/-- `evalAssignment(expr, left, right)` (src/evaluator.go:768-783); `pos` = `expr.Token().Pos` -/
def evalAssignment (pos : Nat) (left right : CellId) : EM CellId := do
  let lv ← readCell left
  let needsCreate := match lv with
    | .nil (some _) => true
    | .native _ _ (some _) => true
    | .str _ (some _) => true
    | _ => false
  let target ← (if needsCreate then do
      let h ← getHeap
      match (← createSpeculative (h.cells.size + 2) left) with
      | .error m => throwRt pos m
      | .ok c => pure c
    else pure left : EM CellId)
  match (← copyValue right target) with
  | .error m => throwRt pos m
  | .ok c => return c

/-- the comparison operators on a three-way result -/
def cmpResult (op : Tag) (c : Int) : Bool :=
  match op with
  | .lessThan => c < 0
  | .greaterThan => c > 0
  | .equalEqual => c == 0
  | .bangEqual => !(c == 0)
  | .lessEqual => c ≤ 0
  | _ => c ≥ 0

def isCompareOp (t : Tag) : Bool :=
  t == .lessThan || t == .greaterThan || t == .equalEqual || t == .lessEqual ||
  t == .greaterEqual || t == .bangEqual

def isArithOp (t : Tag) : Bool :=
  t == .plus || t == .minus || t == .multiply || t == .divide || t == .percent

/-- `a is T` for a type name given as an identifier token -/
def isType (v : Val) (t : Token) : Bool :=
  match t.tag with
  | .function => v.kind == .fn
  | .null => v.kind == .nil
  | _ =>
    if t.text == b!"string" then v.kind == .str
    else if t.text == b!"bool" then v.kind == .bool
    else if t.text == b!"number" then v.kind == .num
    else if t.text == b!"array" then v.kind == .arr
    else if t.text == b!"object" then v.kind == .obj
    else if t.text == b!"regex" then v.kind == .regex
    else if t.text == b!"unknown" then v.kind == .unknown
    else false

/-- Go `int % int` (truncated remainder; `MinInt64 % -1 = 0`) -/
def goRem (a b : Int) : Int := Int.tmod a b

inductive BinOut
  | val (v : Val)
  | err (atRight : Bool) (msg : String)     -- runtime error; position: op token or right operand
  | unmodelled (why : String)
  deriving DecidableEq, Repr

/-- the value-level part of `evalBinaryExpr` for arithmetic, comparison and regex operators,
    applied to the operands' values (src/evaluator.go:601-700) -/
def binaryOp (op : Tag) (l r : Val) : BinOut :=
  if isCompareOp op then
    if l.kind == .unknown || r.kind == .unknown then
      .val (.bool (op == .lessThan || op == .greaterThan))
    else
      match l.compare r with
      | .error m => .err false m
      | .ok c => .val (.bool (cmpResult op c))
  else if isArithOp op then
    if op == .plus && (l.kind == .str || r.kind == .str) then .val (.str (l.str! ++ r.str!) none)
    else
      let x := l.asNum
      let y := r.asNum
      match op with
      | .plus => .val (.num (F64.add x y))
      | .minus => .val (.num (F64.sub x y))
      | .multiply => .val (.num (F64.mul x y))
      | .divide => if y.isZero then .err false "divide by zero" else .val (.num (F64.div x y))
      | _ =>
        let i := x.toGoInt
        let j := y.toGoInt
        if j == 0 then .err false "divide by zero" else .val (.num (F64.ofInt (goRem i j)))
  else
    -- Tilde, BangTilde
    let pat? : Option Bytes := match r with
      | .str s _ => some s
      | .regex s => some s
      | _ => none
    match pat? with
    | none => .err true "a regex or a string must appear on the right hand side of ~"
    | some pat =>
      match Re.compile pat with
      | .invalid => .err true "invalid regex"
      | .unmodelled => .unmodelled "regex outside the modelled subset"
      | .ok re =>
        let m := Re.isMatch re l.str!
        .val (.bool (if op == .bangTilde then !m else m))

/-- the member / index step of `evalBinaryExpr` (src/evaluator.go:569-621) on evaluated operands:
    an unset base becomes an array (numeric key) or object, then `GetMember`; a missing member
    yields a speculative null remembering parent and key, a method a bound copy -/
def memberStep (pos : Nat) (left right : CellId) : EM CellId := do
  let rv ← readCell right
  let lv ← readCell left
  if lv.kind == .unknown then
    -- nothing is set here yet: no member to find, and reading does not change the value (it
    -- becomes an array or an object only if the member is assigned to, `createSpeculative`)
    let key : Key := match rv with
      | .num x => .num x
      | _ => .str rv.str!
    newCell (.nil (some ⟨left, key⟩))
  else
  let h ← getHeap
  match getMember h lv rv with
  | .error m => throwRt pos m
  | .ok .missing =>
    let key : Key := match rv with
      | .num x => .num x
      | _ => .str rv.str!
    newCell (.nil (some ⟨left, key⟩))
  | .ok (.method f) => newCell (.native f (some left) (some ⟨left, .str rv.str!⟩))
  | .ok (.char none x) => newCell (.nil (some ⟨left, .num x⟩))
  | .ok (.char (some ch) x) => newCell (.str ch (some ⟨left, .num x⟩))
  | .ok (.cell c) =>
    match h.get c with
    | .native f _ _ => newCell (.native f (some left) (some ⟨left, .str rv.str!⟩))
    | _ => return c

/-- `e.stackTop.locals[k] = v` for every binding -/
def bindAll : List (Bytes × CellId) → EM Unit
  | [] => pure ()
  | (k, c) :: rest => do setLocal k c; bindAll rest

/-- parameters bound by position: missing → null, surplus ignored (raw copies of the argument values) -/
def bindParams : List Bytes → List Val → EM Unit
  | [], _ => pure ()
  | p :: ps, [] => do let c ← newCell (.nil none); setLocal p c; bindParams ps []
  | p :: ps, a :: as => do let c ← newCell a; setLocal p c; bindParams ps as

variable (src : Bytes) (prog : Program)

mutual

/-- `evalExpr` -/
def evalExpr : Nat → Expr → EM CellId
  | 0, _ => oof
  | n + 1, e =>
    match e with
    | .lit t =>
      match t.tag with
      | .str | .ident =>
        match evalStringLit t.text with
        | .error m => throwRt t.pos m
        | .ok s => newCell (.str s none)
      | .regex => newCell (.regex t.text)
      | .num =>
        match F64.parse t.text with
        | none => throwRt t.pos "could not parse number"
        | some x => newCell (.num x)
      | .true_ => newCell (.bool true)
      | .false_ => newCell (.bool false)
      | .null => newCell (.nil none)
      | _ => throwPanic "unhandled literal type"
    | .unary inner op isPost => evalUnary n inner op isPost
    | .binary l r op => evalBinary n l r op
    | .ident t => getIdentifier t
    | .call f args => do
      let fnCell ← evalExpr n f
      let argCells ← evalExprList n args true
      callFunction n f.token.pos fnCell argCells
    | .arr _ items => do
      let cells ← evalExprList n items true
      let a ← allocArrM cells.toArray
      newCell (.arr a)
    | .match_ t v cases => do
      let value ← evalExpr n v
      evalMatchCases n t.pos value cases
    | .obj t items => do
      let members ← evalObjItems n t.pos items []
      let o ← allocObjM members
      newCell (.obj o)

/-- `getIdentifier` -/
def getIdentifier (t : Token) : EM CellId := do
  if t.tag == .dollar then
    match (← getSt).ruleRoot with
    | some c => return c
    | none => throwRt t.pos "unknown variable $"
  else
    match (← getVariable t.text) with
    | .ok c => return c
    | .error m => throwRt t.pos m

/-- the members of an object literal, evaluated and copied in order -/
def evalObjItems : Nat → Nat → List (Bytes × Expr) → List (Bytes × CellId) → EM (List (Bytes × CellId))
  | 0, _, _, _ => oof
  | _ + 1, _, [], acc => pure acc
  | n + 1, pos, (k, e) :: rest, acc => do
    let value ← evalExpr n e
    let cell ← newCell .unknown
    match (← copyValue value cell) with
    | .error m => throwRt pos m
    | .ok c => evalObjItems n pos rest (objInsert acc k c)

/-- `evalExprList(exprs, copy)` -/
def evalExprList : Nat → List Expr → Bool → EM (List CellId)
  | 0, _, _ => oof
  | _ + 1, [], _ => pure []
  | n + 1, e :: rest, copy => do
    let v ← evalExpr n e
    let c ← (if copy then do
        let fresh ← newCell (.str [] none)
        match (← copyValue v fresh) with
        | .error m => throwRt e.token.pos m
        | .ok c => pure c
      else pure v : EM CellId)
    let cs ← evalExprList n rest copy
    return c :: cs

/-- the case loop of `ExprMatch` (src/evaluator.go:285-325) -/
def evalMatchCases : Nat → Nat → CellId → List MatchCase → EM CellId
  | 0, _, _, _ => oof
  | _ + 1, _, _, [] => newCell (.nil none)
  | n + 1, pos, value, (.mk pats body) :: rest => do
    match (← evalCaseMatch n value pats) with
    | none => evalMatchCases n pos value rest
    | some bindings =>
      let saved := (← getSt).frames
      match (← pushFrame b!"<match>") with
      | .error m => throwRt pos m
      | .ok () =>
        -- the frame is dropped however the body is left
        withFrames saved (do
          bindAll bindings
          match body with
          | .expr be => evalExpr n be
          | _ => do evalStmt n body; newCell (.nil none))

/-- `evalCaseMatch(value, exprs)`: `some bindings` when one of the alternatives matches -/
def evalCaseMatch : Nat → CellId → List Expr → EM (Option (List (Bytes × CellId)))
  | 0, _, _ => oof
  | _ + 1, _, [] => pure none
  | n + 1, value, p :: rest => do
    match p with
    | .lit _ =>
      let caseValue ← evalExpr n p
      let v ← readCell value
      let cv ← readCell caseValue
      if v.kind == .unknown then evalCaseMatch n value rest else
      match v.compare cv with
      | .error m => throwRt p.token.pos m
      | .ok c => if c == 0 then return some [] else evalCaseMatch n value rest
    | .arr _ items =>
      match (← evalArrayCaseMatch n value items) with
      | some b => return some b
      | none => evalCaseMatch n value rest
    | .ident t => return some [(t.text, value)]
    | _ => throwRt p.token.pos "not supported in match expressions"

/-- `evalArrayCaseMatch` -/
def evalArrayCaseMatch : Nat → CellId → List Expr → EM (Option (List (Bytes × CellId)))
  | 0, _, _ => oof
  | n + 1, value, items => do
    match (← readCell value) with
    | .arr a =>
      let cells := ((← getHeap).arr a).toList
      if cells.length != items.length then return none else
      matchElems n cells items []
    | _ => return none

def matchElems : Nat → List CellId → List Expr → List (Bytes × CellId) → EM (Option (List (Bytes × CellId)))
  | 0, _, _, _ => oof
  | _ + 1, [], _, acc => pure (some acc)
  | _ + 1, _ :: _, [], acc => pure (some acc)
  | n + 1, c :: cs, p :: ps, acc => do
    match (← evalCaseMatch n c [p]) with
    | none => return none
    | some nb => matchElems n cs ps (nb.foldl (fun m kv => objInsert m kv.1 kv.2) acc)

/-- `callFunction(exp, fn, args)`; `pos` = `exp.Token().Pos` -/
def callFunction : Nat → Nat → CellId → List CellId → EM CellId
  | 0, _, _, _ => oof
  | n + 1, pos, fnCell, argCells => do
    let fv ← readCell fnCell
    let h ← getHeap
    let args := argCells.map h.get
    match fv with
    | .native f binding _ =>
      let this := binding.map h.get
      match (← callNative f args this) with
      | .error m => throwRt pos m
      | .ok (some v) => newCell v
      | .ok none => newCell (.nil none)
    | .fn i =>
      match prog.functions[i]? with
      | none => throwPanic "dangling function"
      | some f =>
        let saved := (← getSt).frames
        match (← pushFrame f.ident.text) with
        | .error m => throwRt pos m
        | .ok () =>
          withFrames saved (do
            bindParams f.args args
            let rv ← catchReturn (evalStmt n f.body)
            newCell rv)
    | _ => throwRt pos "attempted to call a non-function"

/-- `evalUnaryExpr` -/
def evalUnary : Nat → Expr → Token → Bool → EM CellId
  | 0, _, _, _ => oof
  | n + 1, inner, op, isPost => do
    let val ← evalExpr n inner
    let v ← readCell val
    match op.tag with
    | .bang => newCell (.bool (!v.truthy))
    | .plus => newCell (.num v.asNum)
    | .minus => newCell (.num (F64.neg v.asNum))
    | .plusPlus | .minusMinus =>
      let x := v.asNum
      let nv := if op.tag == .plusPlus then F64.add x F64.one else F64.sub x F64.one
      let nc ← newCell (.num nv)
      let assigned ← evalAssignment op.pos val nc
      if isPost then newCell (.num x)
      else newCell (← readCell assigned)
    | _ => throwRt op.pos "unknown operator"

/-- `evalBinaryExpr` -/
def evalBinary : Nat → Expr → Expr → Token → EM CellId
  | 0, _, _, _ => oof
  | n + 1, l, r, op => do
    let left ← evalExpr n l
    match op.tag with
    | .ampAmp =>
      if (← readCell left).truthy then
        let right ← evalExpr n r
        newCell (.bool (← readCell right).truthy)
      else newCell (.bool false)
    | .pipePipe =>
      if (← readCell left).truthy then newCell (.bool true)
      else
        let right ← evalExpr n r
        newCell (.bool (← readCell right).truthy)
    | .is =>
      match r with
      | .ident t => newCell (.bool (isType (← readCell left) t))
      | _ => throwRt r.token.pos "expected a type name"
    | _ =>
      let right ← evalExpr n r
      match op.tag with
      | .lsquare | .dot => memberStep l.token.pos left right
      | .equal => evalAssignment l.token.pos left right
      | t =>
        if isCompareOp t || isArithOp t || t == .tilde || t == .bangTilde then
          match binaryOp t (← readCell left) (← readCell right) with
          | .val v => newCell v
          | .err atRight m =>
            throwRt (if atRight then r.token.pos
                     else if isCompareOp t then l.token.pos else op.pos) m
          | .unmodelled why => throwUnmodelled why
        else throwRt op.pos "unknown operator"

/-- `evalStatement` -/
def evalStmt : Nat → Stmt → EM Unit
  | 0, _ => oof
  | n + 1, st =>
    match st with
    | .block _ body => evalBlock n body
    | .print _ args => do
      let cells ← evalExprList n args false
      let s ← getSt
      if cells.isEmpty then
        match s.ruleRoot with
        | none => throwPanic "print without a rule root"
        | some c =>
          match prettyTop s.heap (s.heap.get c) with
          | none => oof
          | some r => emit (r ++ [10])
      else
        match cells.mapM (fun c => prettyTop s.heap (s.heap.get c)) with
        | none => oof
        | some parts => emit (joinSep [32] parts ++ [10])
    | .expr e => do let _ ← evalExpr n e
    | .ret none => do
      modifySt fun s => { s with returnVal := none }
      throwSig .ret
    | .ret (some e) => do
      let c ← evalExpr n e
      modifySt fun s => { s with returnVal := some c }
      throwSig .ret
    | .if_ c body els => do
      let cell ← evalExpr n c
      if (← readCell cell).truthy then evalStmt n body
      else match els with
        | some eb => evalStmt n eb
        | none => pure ()
    | .while_ c body => whileLoop n c body
    | .for_ pre c post body => do
      let _ ← evalExpr n pre
      forLoop n c post body
    | .forIn id idx iter body => do
      let loc ← (do match (← getVariable id.text) with
        | .ok c => pure c
        | .error m => throwRt id.pos m : EM CellId)
      let indexLocal ← (match idx with
        | none => pure none
        | some it => do
          match (← getVariable it.text) with
          | .ok c => pure (some c)
          | .error m => throwRt id.pos m : EM (Option CellId))
      let iterable ← evalExpr n iter
      let h ← getHeap
      match h.get iterable with
      | .arr a =>
        forInLoop n loc indexLocal body
          ((h.arr a).toList.zipIdx.map fun (c, i) => (some (Val.num (F64.ofNat i)), Sum.inl c))
      | .obj o =>
        forInLoop n loc indexLocal body
          ((sortByKey (h.obj o)).map fun (k, c) => (none, Sum.inr (Val.str k none, some c)))
      | .str s _ =>
        forInLoop n loc indexLocal body
          ((utf8Runes s).map fun (off, r) =>
            (some (Val.num (F64.ofNat off)), Sum.inr (Val.str (utf8Encode r) none, none)))
      | _ => throwRt iter.token.pos "not iterable"
    | .brk _ => throwSig .brk
    | .cont _ => throwSig .cont
    | .next _ => throwSig .next
    | .exit _ => throwSig .exit

def evalBlock : Nat → List Stmt → EM Unit
  | 0, _ => oof
  | _ + 1, [] => pure ()
  | n + 1, s :: rest => do
    evalStmt n s
    evalBlock n rest

/-- `for { cond; body }` of StatementWhile -/
def whileLoop : Nat → Expr → Stmt → EM Unit
  | 0, _, _ => oof
  | n + 1, c, body => do
    let cell ← evalExpr n c
    if (← readCell cell).truthy then
      loopIter (evalStmt n body) (whileLoop n c body)
    else pure ()

/-- `for { cond; body; post }` of StatementFor (after the pre-expression) -/
def forLoop : Nat → Expr → Expr → Stmt → EM Unit
  | 0, _, _, _ => oof
  | n + 1, c, post, body => do
    let cell ← evalExpr n c
    if (← readCell cell).truthy then
      loopIter (evalStmt n body) (do
        let _ ← evalExpr n post
        forLoop n c post body)
    else pure ()

/-- the iteration of StatementForIn over a list of items fixed at loop entry.  An item is
    (index value for arrays and strings, element): `inl c` = array element cell (raw copy of
    its value), `inr (v, c?)` = a fresh loop value, with the member cell whose value goes to
    the index variable for objects. -/
def forInLoop : Nat → CellId → Option CellId → Stmt →
    List (Option Val × (CellId ⊕ (Val × Option CellId))) → EM Unit
  | 0, _, _, _, _ => oof
  | _ + 1, _, _, _, [] => pure ()
  | n + 1, loc, indexLocal, body, (idxVal, item) :: rest => do
    match indexLocal with
    | none => pure ()
    | some ic =>
      match idxVal, item with
      | some iv, _ => writeCell ic iv
      | none, .inr (_, some mc) => writeCell ic (← readCell mc)
      | none, _ => pure ()
    match item with
    | .inl c => writeCell loc (← readCell c)
    | .inr (v, _) => writeCell loc v
    loopIter (evalStmt n body) (forInLoop n loc indexLocal body rest)

end


end Jqawk
