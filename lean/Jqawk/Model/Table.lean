/-
  The Pratt rule table (src/parser.go:24-83) as data.  This is the *expected* table the
  model parser is driven by; `Jqawk/Generated/Facts.lean` is regenerated from the Go source
  on every run and `Jqawk/Audit/FactsTie.lean` proves the two equal by `decide`.
-/
import Jqawk.Model.Lexer

namespace Jqawk

-- `Precedence` constants, same numbering as Go's iota.
namespace Prec
def none : Nat := 0
def assign : Nat := 1
def logical : Nat := 2
def comparison : Nat := 3
def addition : Nat := 4
def multiplication : Nat := 5
def postfixP : Nat := 6
def unary : Nat := 7
def call : Nat := 8
def group : Nat := 9
end Prec

inductive PrefixKind | literal | identifier | array | group | unary | regex | match_ | object
  deriving DecidableEq, Repr

inductive InfixKind | computedMember | member | call | binary | assign | postfixOp | is
  deriving DecidableEq, Repr

structure ParseRule where
  prec : Nat
  pre : Option PrefixKind
  inf : Option InfixKind
  deriving DecidableEq, Repr

abbrev RuleTable := List (Tag × ParseRule)

def expectedRuleTable : RuleTable := [
  (.str,           ⟨0, some .literal, none⟩),
  (.num,           ⟨0, some .literal, none⟩),
  (.true_,         ⟨0, some .literal, none⟩),
  (.false_,        ⟨0, some .literal, none⟩),
  (.null,          ⟨0, some .literal, none⟩),
  (.dollar,        ⟨0, some .identifier, none⟩),
  (.ident,         ⟨0, some .identifier, none⟩),
  (.lsquare,       ⟨8, some .array, some .computedMember⟩),
  (.dot,           ⟨8, none, some .member⟩),
  (.lparen,        ⟨9, some .group, some .call⟩),
  (.lessThan,      ⟨3, none, some .binary⟩),
  (.greaterThan,   ⟨3, none, some .binary⟩),
  (.equalEqual,    ⟨3, none, some .binary⟩),
  (.bangEqual,     ⟨3, none, some .binary⟩),
  (.lessEqual,     ⟨3, none, some .binary⟩),
  (.greaterEqual,  ⟨3, none, some .binary⟩),
  (.tilde,         ⟨3, none, some .binary⟩),
  (.bangTilde,     ⟨3, none, some .binary⟩),
  (.equal,         ⟨1, none, some .assign⟩),
  (.plus,          ⟨4, some .unary, some .binary⟩),
  (.minus,         ⟨4, some .unary, some .binary⟩),
  (.multiply,      ⟨5, none, some .binary⟩),
  (.divide,        ⟨5, some .regex, some .binary⟩),
  (.plusEqual,     ⟨1, none, some .assign⟩),
  (.minusEqual,    ⟨1, none, some .assign⟩),
  (.multiplyEqual, ⟨1, none, some .assign⟩),
  (.divideEqual,   ⟨1, none, some .assign⟩),
  (.ampAmp,        ⟨2, none, some .binary⟩),
  (.pipePipe,      ⟨2, none, some .binary⟩),
  (.match_,        ⟨0, some .match_, none⟩),
  (.bang,          ⟨7, some .unary, none⟩),
  (.plusPlus,      ⟨6, some .unary, some .postfixOp⟩),
  (.minusMinus,    ⟨6, some .unary, some .postfixOp⟩),
  (.lcurly,        ⟨0, some .object, none⟩),
  (.percent,       ⟨5, none, some .binary⟩),
  (.is,            ⟨3, none, some .is⟩)
]

def lookupRule (tbl : RuleTable) (t : Tag) : ParseRule :=
  match tbl.lookup t with
  | some r => r
  | none => ⟨0, none, none⟩

end Jqawk
