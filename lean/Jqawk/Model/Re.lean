/- TEMPORARY STUB — to be replaced by the RE2-subset model. -/
import Jqawk.Model.Bytes
namespace Jqawk
namespace Re
inductive Regex | stub
inductive CompileRes | ok (r : Regex) | invalid | unmodelled
def compile (_pat : Bytes) : CompileRes := .unmodelled
def isMatch (_r : Regex) (_s : Bytes) : Bool := false
end Re
end Jqawk
