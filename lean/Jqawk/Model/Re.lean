import Jqawk.Model.Bytes
/-
A model of a documented SUBSET of Go 1.23 `regexp` (RE2 syntax): `regexp.Compile(pat)` followed by
`re.MatchString(s)`, over byte lists.  Core library only.

Inside the subset the verdicts are exact (compile error / ok, match / no match); everything else is
reported as `unmodelled`.  The parser mirrors `regexp/syntax/parse.go` (flags = `syntax.Perl`):
a stack of open groups, each holding the finished alternatives and the items of the current
concatenation.  Go reports the FIRST error left to right, and so do we; the first unmodelled
construct stops the parse with `unmodelled`.

Matching is denotational: `run r S` maps a set `S` of start positions (a `List Bool` indexed by
character position, length `n+1`) to the set of positions where a match of `r` can end.  Star is a
least fixed point reached in at most `n+1` rounds, so its fuel can never run out with a wrong
answer.  No backtracking, no submatches.

Unmodelled: invalid UTF-8 in the pattern (always a compile error in Go), patterns longer than 500
characters (keeps RE2's size and nesting limits out of reach), flags `(?i)`…, named groups,
`\p \P`, POSIX `[[:x:]]`, `\x`, octal, `\Q \A \z \C`.
-/
namespace Jqawk
namespace Re

/-- Inclusive code-point ranges. -/
abbrev Ranges := List (Nat × Nat)

inductive Regex where
  | empty                                              -- matches ""
  | cls (neg : Bool) (rs : Ranges)                     -- one character (not) in `rs`
  | bol | eol                                          -- `^` `$`: begin / end of text
  | wordb (neg : Bool)                                 -- `\b` / `\B` (ASCII)
  | cat (a b : Regex)
  | alt (a b : Regex)
  | rep (a : Regex) (min : Nat) (max : Option Nat)     -- `*`=(0,∞) `+`=(1,∞) `?`=(0,1) `{n,m}`
  deriving Repr, DecidableEq, Inhabited

inductive CompileRes where
  | ok (r : Regex) | invalid | unmodelled
  deriving Repr, DecidableEq

/-! ## UTF-8 decoding, exactly `utf8.DecodeRune`: an invalid byte is U+FFFD of width 1 -/

def maxRune : Nat := 0x10FFFF
/-- Marks an invalid byte, to tell it from a genuine U+FFFD when checking the pattern. -/
def badRune : Nat := 0x110000

/-- Decode one character from `b0 :: rest`: (rune, width); an invalid byte is (`badRune`, 1). -/
def decode1 (b0 : Nat) (rest : List Nat) : Nat × Nat :=
  let err := (badRune, 1)
  let cont (b : Nat) : Bool := 0x80 ≤ b && b ≤ 0xBF
  if b0 < 0x80 then (b0, 1)
  else if 0xC2 ≤ b0 && b0 ≤ 0xDF then
    match rest with
    | b1 :: _ => if cont b1 then ((b0 - 0xC0) * 64 + (b1 - 0x80), 2) else err
    | _ => err
  else if 0xE0 ≤ b0 && b0 ≤ 0xEF then
    let lo := if b0 == 0xE0 then 0xA0 else 0x80      -- no overlong forms
    let hi := if b0 == 0xED then 0x9F else 0xBF      -- no surrogates
    match rest with
    | b1 :: b2 :: _ =>
      if lo ≤ b1 && b1 ≤ hi && cont b2 then
        ((b0 - 0xE0) * 4096 + (b1 - 0x80) * 64 + (b2 - 0x80), 3) else err
    | _ => err
  else if 0xF0 ≤ b0 && b0 ≤ 0xF4 then
    let lo := if b0 == 0xF0 then 0x90 else 0x80
    let hi := if b0 == 0xF4 then 0x8F else 0xBF      -- at most U+10FFFF
    match rest with
    | b1 :: b2 :: b3 :: _ =>
      if lo ≤ b1 && b1 ≤ hi && cont b2 && cont b3 then
        ((b0 - 0xF0) * 262144 + (b1 - 0x80) * 4096 + (b2 - 0x80) * 64 + (b3 - 0x80), 4) else err
    | _ => err
  else err

/-- `skip` = bytes still belonging to the previous character. -/
def decodeAux : Nat → List Nat → List Nat
  | _, [] => []
  | skip + 1, _ :: rest => decodeAux skip rest
  | 0, b :: rest => let (r, w) := decode1 b rest; r :: decodeAux (w - 1) rest

def decodeRaw (s : Bytes) : List Nat := decodeAux 0 (s.map (·.toNat))

/-- The characters of a byte string, as Go's matcher sees them. -/
def decode (s : Bytes) : List Nat := (decodeRaw s).map (fun r => if r == badRune then 0xFFFD else r)

/-! ## Parser -/

inductive Err | invalid | unmodelled
abbrev P := Except Err

def lit (c : Char) : Regex := .cls false [(c.toNat, c.toNat)]

/-- Complement of sorted disjoint ranges, from `lo` up. -/
def compl (lo : Nat) : Ranges → Ranges
  | [] => if lo ≤ maxRune then [(lo, maxRune)] else []
  | (a, b) :: rest => (if lo < a then [(lo, a - 1)] else []) ++ compl (b + 1) rest

/-- Perl classes: (negated, ranges).  `\s` is `[\t\n\f\r ]` (no `\v`), all ASCII only. -/
def perl : Char → Option (Bool × Ranges)
  | 'd' => some (false, [(48, 57)])
  | 'D' => some (true, [(48, 57)])
  | 'w' => some (false, [(48, 57), (65, 90), (95, 95), (97, 122)])
  | 'W' => some (true, [(48, 57), (65, 90), (95, 95), (97, 122)])
  | 's' => some (false, [(9, 10), (12, 13), (32, 32)])
  | 'S' => some (true, [(9, 10), (12, 13), (32, 32)])
  | _ => none

/-- `parseEscape` for a single-character escape; input is the text after the backslash. -/
def escChar : List Char → P (Char × List Char)
  | [] => throw .invalid                                          -- trailing backslash
  | 'a' :: t => pure ('\x07', t)
  | 'f' :: t => pure ('\x0c', t)
  | 'n' :: t => pure ('\n', t)
  | 'r' :: t => pure ('\r', t)
  | 't' :: t => pure ('\t', t)
  | 'v' :: t => pure ('\x0b', t)
  | '0' :: _ => throw .unmodelled                                 -- octal
  | 'x' :: _ => throw .unmodelled                                 -- hex
  | c :: t =>
    if '1' ≤ c && c ≤ '7' then                                    -- octal needs a second digit,
      match t with                                                -- back-references do not exist
      | d :: _ => throw (if '0' ≤ d && d ≤ '7' then .unmodelled else .invalid)
      | [] => throw .invalid
    else if c.toNat < 0x80 && !c.isAlphanum then pure (c, t)      -- any ASCII punctuation, and `\_`
    else throw .invalid

/-- A decimal integer without superfluous leading zeros (`parseInt`). -/
def parseInt (t : List Char) : Option (Nat × List Char) :=
  let ds := t.takeWhile Char.isDigit
  match ds with
  | [] => none
  | '0' :: _ :: _ => none
  | _ => some (ds.foldl (fun n d => n * 10 + (d.toNat - 48)) 0, t.drop ds.length)

/-- `{n}`, `{n,}`, `{n,m}`; input is the text after `{`.  `none`: the `{` is a literal. -/
def parseRepeat (t : List Char) : Option (Nat × Option Nat × List Char) :=
  match parseInt t with
  | none => none
  | some (mn, '}' :: r) => some (mn, some mn, r)
  | some (mn, ',' :: '}' :: r) => some (mn, none, r)
  | some (mn, ',' :: s) =>
    match parseInt s with
    | some (mx, '}' :: r) => some (mn, some mx, r)
    | _ => none
  | _ => none

/-- `repeatIsValid`: nested counted repetitions may multiply up to `n` (= 1000) copies. -/
def repeatOk : Regex → Nat → Bool
  | .rep a mn mx, n =>
    if mx == some 0 then true else
    let m := mx.getD mn
    if m > n then false else repeatOk a (if m > 0 then n / m else n)
  | .cat a b, n | .alt a b, n => repeatOk a n && repeatOk b n
  | _, _ => true

/-- The members of a bracket class up to the closing `]`. -/
def classItems : Nat → Bool → Ranges → List Char → P (Ranges × List Char)
  | 0, _, _, _ => throw .unmodelled                               -- unreachable: fuel > length
  | fuel + 1, first, acc, t =>
    -- a single character `lo` or a range `lo-hi`; `[a-]` is `a` and `-`
    let range (lo : Char) (t : List Char) : P (Ranges × List Char) :=
      match t with
      | '-' :: x :: t' =>
        if x == ']' then classItems fuel false ((lo.toNat, lo.toNat) :: acc) t
        else do
          let (hi, t'') ← if x == '\\' then escChar t' else pure (x, t')
          if hi < lo then throw .invalid                          -- invalid character class range
          classItems fuel false ((lo.toNat, hi.toNat) :: acc) t''
      | _ => classItems fuel false ((lo.toNat, lo.toNat) :: acc) t
    match t with
    | [] => throw .invalid                                        -- missing closing ]
    | ']' :: t' => if first then range ']' t' else pure (acc, t')
    | '[' :: ':' :: _ => throw .unmodelled                        -- POSIX class
    | '\\' :: c :: t' =>
      if c == 'p' || c == 'P' then throw .unmodelled else
      match perl c with
      | some (neg, rs) => classItems fuel false ((if neg then compl 0 rs else rs) ++ acc) t'
      | none => do let (lo, t'') ← escChar (c :: t'); range lo t''
    | '\\' :: [] => throw .invalid
    | c :: t' => range c t'

/-- A bracket class; input is the text after `[`.  With Go's default flags `[^a]` matches `\n`. -/
def parseClass (t : List Char) : P (Regex × List Char) := do
  let (neg, t) := match t with
    | '^' :: t' => (true, t')
    | _ => (false, t)
  let (rs, t) ← classItems (t.length + 1) true [] t
  pure (.cls neg rs, t)

/-- An open group: finished alternatives and the current concatenation, both newest first. -/
structure Frame where
  alts : List Regex
  cur : List Regex

def mkCat : List Regex → Regex
  | [] => .empty
  | [x] => x
  | x :: xs => .cat (mkCat xs) x

def closeFrame (f : Frame) : Regex := f.alts.foldl (fun acc a => .alt a acc) (mkCat f.cur)

/-- Main loop.  `stack`: enclosing groups; `f`: innermost group; `lastRep`: the previous token was a
repetition operator (`a**` is an error, `a*?` is lazy). -/
def parseLoop : Nat → List Frame → Frame → Bool → List Char → P Regex
  | 0, _, _, _, _ => throw .unmodelled                            -- unreachable: fuel > length
  | _ + 1, stack, f, _, [] =>
    if stack.isEmpty then pure (closeFrame f) else throw .invalid -- missing closing )
  | fuel + 1, stack, f, lastRep, c :: t =>
    let atom (x : Regex) (t : List Char) : P Regex :=
      parseLoop fuel stack { f with cur := x :: f.cur } false t
    let open_ (t : List Char) : P Regex := parseLoop fuel (f :: stack) ⟨[], []⟩ false t
    let repeat_ (mn : Nat) (mx : Option Nat) (t : List Char) : P Regex :=
      let t := match t with
        | '?' :: t' => t'                                         -- lazy: same set of matches
        | _ => t
      match lastRep, f.cur with
      | false, x :: xs =>
        let r := Regex.rep x mn mx
        if (mn ≥ 2 || mx.any (· ≥ 2)) && !repeatOk r 1000 then throw .invalid
        else parseLoop fuel stack { f with cur := r :: xs } true t
      | _, _ => throw .invalid            -- nested repetition / missing argument (`*a` `(*` `|*`)
    match c with
    | '(' =>
      match t with
      | '?' :: ':' :: t' => open_ t'
      | '?' :: [] => throw .invalid
      | '?' :: c :: _ =>                                          -- flags, named groups
        throw (if ['i', 'm', 's', 'U', '-', ')', 'P', '<'].contains c then .unmodelled else .invalid)
      | _ => open_ t
    | ')' =>
      match stack with
      | [] => throw .invalid                                      -- unexpected )
      | g :: stack' => parseLoop fuel stack' { g with cur := closeFrame f :: g.cur } false t
    | '|' => parseLoop fuel stack ⟨mkCat f.cur :: f.alts, []⟩ false t
    | '^' => atom .bol t
    | '$' => atom .eol t
    | '.' => atom (.cls true [(10, 10)]) t
    | '[' => do let (x, t') ← parseClass t; atom x t'
    | '*' => repeat_ 0 none t
    | '+' => repeat_ 1 none t
    | '?' => repeat_ 0 (some 1) t
    | '{' =>
      match parseRepeat t with
      | none => atom (lit '{') t                                  -- not a repetition: literal {
      | some (mn, mx, t') =>
        if mn > 1000 || mx.any (fun m => m > 1000 || m < mn) then throw .invalid
        else repeat_ mn mx t'
    | '\\' =>
      match t with
      | [] => throw .invalid                                      -- trailing backslash
      | e :: t' =>
        if ['A', 'z', 'C', 'Q', 'p', 'P'].contains e then throw .unmodelled
        else if e == 'b' then atom (.wordb false) t'
        else if e == 'B' then atom (.wordb true) t'
        else match perl e with
          | some (neg, rs) => atom (.cls neg rs) t'
          | none => do let (c, t'') ← escChar t; atom (lit c) t''
    | c => atom (lit c) t

def compile (pat : Bytes) : CompileRes :=
  let rs := decodeRaw pat
  if rs.length > 500 || rs.contains badRune then .unmodelled else
  match parseLoop (rs.length + 1) [] ⟨[], []⟩ false (rs.map Char.ofNat) with
  | .ok r => .ok r
  | .error .invalid => .invalid
  | .error .unmodelled => .unmodelled

/-! ## Matching -/

/-- A set of character positions `0..n` of the subject. -/
abbrev PosSet := List Bool

def union (a b : PosSet) : PosSet := List.zipWith (· || ·) a b
def isEmpty (a : PosSet) : Bool := !a.any id

def inRanges (c : Nat) (rs : Ranges) : Bool := rs.any (fun (lo, hi) => lo ≤ c && c ≤ hi)

def isWord (c : Nat) : Bool :=
  (48 ≤ c && c ≤ 57) || (65 ≤ c && c ≤ 90) || c == 95 || (97 ≤ c && c ≤ 122)

/-- Word-boundary flag of every position; `prev`: the character before is a word character. -/
def wordBounds (prev : Bool) : List Nat → List Bool
  | [] => [prev]
  | c :: rest => (prev != isWord c) :: wordBounds (isWord c) rest

def keepFirst : PosSet → PosSet
  | [] => []
  | b :: rest => b :: rest.map (fun _ => false)

def keepLast : PosSet → PosSet
  | [] => []
  | [b] => [b]
  | _ :: rest => false :: keepLast rest

/-- `f` applied `k` times. -/
def iter (f : PosSet → PosSet) : Nat → PosSet → PosSet
  | 0, s => s
  | k + 1, s => if isEmpty s then s else iter f k (f s)

/-- `s ∪ f s ∪ … ∪ fᵏ s`. -/
def upTo (f : PosSet → PosSet) : Nat → PosSet → PosSet
  | 0, s => s
  | k + 1, s => if isEmpty s then s else union s (upTo f k (f s))

/-- Least `t ⊇ s` closed under `f`.  Every round but the last adds a position, so
`fuel = number of positions + 1` always reaches the fixed point. -/
def closure (f : PosSet → PosSet) : Nat → PosSet → PosSet
  | 0, t => t
  | fuel + 1, t => let t' := union t (f t); if t' == t then t else closure f fuel t'

/-- End positions of matches of the regex that start at a position in the given set.
`cs`: subject characters; `wb`: word-boundary flags. -/
def run (cs : List Nat) (wb : List Bool) : Regex → PosSet → PosSet
  | .empty, s => s
  | .cls neg rs, s => false :: List.zipWith (fun b c => b && (inRanges c rs != neg)) s cs
  | .bol, s => keepFirst s
  | .eol, s => keepLast s
  | .wordb neg, s => List.zipWith (fun b w => b && (w != neg)) s wb
  | .cat a b, s => run cs wb b (run cs wb a s)
  | .alt a b, s => union (run cs wb a s) (run cs wb b s)
  | .rep a mn mx, s =>
    let s' := iter (fun t => run cs wb a t) mn s
    match mx with
    | none => closure (fun t => run cs wb a t) (s.length + 1) s'
    | some m => upTo (fun t => run cs wb a t) (m - mn) s'

/-- `regexp.MatchString`: is there a match anywhere in `s` (unanchored unless `^`/`$` are used).
`s` is arbitrary bytes; Go decodes it as UTF-8 where each invalid byte is one U+FFFD "character" of
width 1. -/
def «matches» (r : Regex) (s : Bytes) : Bool :=
  let cs := decode s
  (run cs (wordBounds false cs) r (true :: cs.map (fun _ => true))).any id

/-! ## Sanity checks (kernel reduction) -/

/-- ASCII string to bytes, for the examples below. -/
def ascii (s : List Char) : Bytes := s.map (fun c => c.toNat.toUInt8)

/-- compile + match: `none` = unmodelled, `some none` = compile error. -/
def test (pat subj : List Char) : Option (Option Bool) :=
  match compile (ascii pat) with
  | .ok r => some (some (Re.matches r (ascii subj)))
  | .invalid => some none
  | .unmodelled => none

example : compile (ascii ['a', '*']) = .ok (.rep (.cls false [(97, 97)]) 0 none) := by decide
example : test ['a', '+', 'b'] ['x', 'a', 'a', 'b'] = some (some true) := by decide
example : test ['^', 'a', '$'] ['a', 'a'] = some (some false) := by decide
example : test ['^', '*'] [] = some (some true) := by decide            -- `^*` is valid in Go
example : test ['a', '*', '*'] [] = some none := by decide
example : test ['a', '{', '2', ',', '1', '}'] [] = some none := by decide
example : test ['a', '{', ',', '2', '}'] ['a', '{', ',', '2', '}'] = some (some true) := by decide
example : test ['[', ']', 'a', ']'] [']'] = some (some true) := by decide
example : test ['(', '?', 'i', ')', 'a'] ['A'] = none := by decide
example : test ['\\', 'b', 'a'] ['b', 'a'] = some (some false) := by decide
example : Re.matches (.cls true [(10, 10)]) [0xff] = true := by decide     -- `.` eats an invalid byte
example : decode [0xe4, 0xb8, 0x96, 0xc3, 0x28] = [0x4e16, 0xFFFD, 0x28] := by decide

/-- alias without the keyword clash -/
def isMatch (r : Regex) (s : Bytes) : Bool := Re.matches r s

end Re
end Jqawk
