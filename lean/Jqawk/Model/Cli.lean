/-
  L5: the command line (cli/cli.go `Run`, minus -dbg-*, -profile, -version) over an abstract file
  system: argv, the bytes on stdin (never a terminal), the files of the working directory.
  Flag syntax is that of Go's package `flag` for the flags -f, -r, -o.
-/
import Jqawk.Model.Driver

namespace Jqawk
namespace Cli

/-- a directory entry: a file with its bytes, or a directory -/
structure Entry where
  name : Bytes
  data : Bytes
  isDir : Bool := false

structure Opts where
  progFile : Bytes := []        -- -f
  sels : List Bytes := []       -- -r, in order
  outfile : Bytes := []         -- -o

inductive FlagErr | bad | help | unmodelled
  deriving DecidableEq, Repr

/-- split `name=value` -/
def splitEq : Bytes → Bytes × Option Bytes
  | [] => ([], none)
  | c :: cs =>
    if c == 61 then ([], some cs)
    else let (n, v) := splitEq cs; (c :: n, v)

/-- `flag.Parse()`: flags up to the first non-flag argument or `--` -/
def parseFlags : Nat → List Bytes → Opts → Except FlagErr (Opts × List Bytes)
  | 0, _, _ => .error .bad
  | _ + 1, [], o => .ok (o, [])
  | fuel + 1, s :: rest, o =>
    match s with
    | 45 :: c :: more =>                       -- starts with '-' and has length ≥ 2
      let body := if c == 45 then more else c :: more
      if c == 45 && more.isEmpty then .ok (o, rest)        -- "--" ends the flags
      else
        match body with
        | [] => .error .bad
        | b0 :: _ =>
          if b0 == 45 || b0 == 61 then .error .bad else
          let (name, value?) := splitEq body
          if name == b!"f" || name == b!"r" || name == b!"o" then
            -- string-valued flags: the value is after '=' or the next argument
            let got : Option (Bytes × List Bytes) := match value? with
              | some v => some (v, rest)
              | none => match rest with
                | v :: rest' => some (v, rest')
                | [] => none
            match got with
            | none => .error .bad
            | some (v, rest') =>
              let o' := if name == b!"f" then { o with progFile := v }
                        else if name == b!"o" then { o with outfile := v }
                        else { o with sels := o.sels ++ [v] }
              parseFlags fuel rest' o'
          else if name == b!"h" || name == b!"help" then .error .help
          else if name == b!"version" || name == b!"profile" || name == b!"dbg-ast" || name == b!"dbg-lex" then
            .error .unmodelled
          else .error .bad
    | _ => .ok (o, s :: rest)                  -- first non-flag argument (also a lone "-")

/-- what the binary did -/
inductive Result
  | done (exit : Nat) (out : Bytes) (errNonEmpty : Bool) (written : Option (Bytes × Bytes))
  | unmodelled

def lookup (fs : List Entry) (name : Bytes) : Option Entry := fs.find? (·.name == name)

/-- the directory part of a path (everything before the last '/'), empty if there is none -/
def dirPart (path : Bytes) : Bytes :=
  match path.reverse.dropWhile (· != 47) with
  | [] => []
  | _ :: revDir => revDir.reverse

/-- does the directory a file would be created in exist?  (the working directory always does;
    a sub-directory exists if it is listed or some listed entry lives below it) -/
def dirExists (fs : List Entry) (dir : Bytes) : Bool :=
  dir.isEmpty || fs.any fun e => (e.name == dir && e.isDir) || Bytes.isPrefixOf (dir ++ [47]) e.name

/-- `os.Open` each path in order; the first missing one aborts -/
def openFiles (fs : List Entry) : List Bytes → Option (List InputFile)
  | [] => some []
  | p :: ps =>
    match lookup fs p with
    | none => none
    | some e =>
      match openFiles fs ps with
      | none => none
      | some rest =>
        -- a directory opens, but reading it fails: a reader that errors at once
        some ((if e.isDir then { name := p, data := [], tail := .ioerr } else { name := p, data := e.data }) :: rest)

/-- program text and input paths: `-f FILE` (all arguments are inputs) or the first argument -/
def source (fs : List Entry) (o : Opts) (args : List Bytes) : Option (Bytes × List Bytes) :=
  if !o.progFile.isEmpty then
    match lookup fs o.progFile with
    | some e => if e.isDir then none else some (e.data, args)
    | none => none
  else match args with
    | [] => some ([], [])
    | p :: files => some (p, files)

/-- the input streams: standard input when no path is given (it is never a terminal here), else
    the files in the order given; and the number of inputs `-o` looks at -/
def inputsOf (fs : List Entry) (stdin : Bytes) (paths : List Bytes) : Option (List InputFile) × Nat :=
  if paths.isEmpty then (some [{ name := b!"<stdin>", data := stdin }], 1)
  else (openFiles fs paths, paths.length)

/-- after `EvalProgram`: error → diagnostic and status 1; `-o` → serialise the last root -/
def finish (fs : List Entry) (o : Opts) (nPaths : Nat) (r : RunResult) : Result :=
  match r.outcome with
  | .unmodelled _ | .oof => .unmodelled
  | .ok =>
    if o.outfile.isEmpty then .done 0 r.out false none
    else if nPaths > 1 then .done 1 r.out true none
    else
      match r.st.bind getRootJson with
      | none => .done 1 r.out true none
      | some j =>
        if o.outfile == b!"-" then .done 0 (r.out ++ j) false none
        else
          match lookup fs o.outfile with
          | some e => if e.isDir then .done 1 r.out true none
                      else .done 0 r.out false (some (o.outfile, j))
          | none =>
            if dirExists fs (dirPart o.outfile) then .done 0 r.out false (some (o.outfile, j))
            else .done 1 r.out true none
  | _ => .done 1 r.out true none

/-- `cli.Run` -/
def run (tbl : RuleTable) (argv : List Bytes) (stdin : Bytes) (fs : List Entry) : Result :=
  match parseFlags (argv.length + 1) argv {} with
  | .error .unmodelled => .unmodelled
  | .error .help => .done 0 [] true none
  | .error .bad => .done 2 [] true none
  | .ok (o, args) =>
    match source fs o args with
    | none => .done 1 [] true none
    | some (progSrc, paths) =>
      match inputsOf fs stdin paths with
      | (none, _) => .done 1 [] true none
      | (some inputs, nPaths) => finish fs o nPaths (evalProgram tbl progSrc o.sels inputs)

end Cli
end Jqawk
