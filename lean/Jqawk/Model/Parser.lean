/-
  L2: the Pratt parser (src/parser.go), written as a program in a free monad over the two
  lexer requests, so that any two token sources that answer alike give the same parse
  (`PM.run_bisim`, Lemmas/PM.lean).
-/
import Jqawk.Model.Ast
import Jqawk.Model.Table

namespace Jqawk

/-- Parser programs.  `next` asks for `Lexer.Next()` with newline tokens already skipped
    (`Parser.advance` hides them; the flag says whether one was skipped); `regex` asks for
    `Lexer.Regex()`.  A lexer error ends the parse with that error (see `PM.run`). -/
inductive PM (α : Type) where
  | pure (a : α)
  | fail (e : SynErr)
  | oof                                   -- out of fuel (never a success, never an error)
  | next (k : Token → Bool → PM α)
  | regex (k : Token → PM α)

namespace PM
def bind {α β : Type} : PM α → (α → PM β) → PM β
  | .pure a, f => f a
  | .fail e, _ => .fail e
  | .oof, _ => .oof
  | .next k, f => .next fun t nl => (k t nl).bind f
  | .regex k, f => .regex fun t => (k t).bind f

instance : Monad PM where
  pure := .pure
  bind := PM.bind
end PM

/-- Mutable parser fields (src/parser.go:8-16) other than the lexer and the table. -/
structure PS where
  cur : Token
  prev : Token
  didEnd : Bool
  inFn : Bool
  inLoop : Bool
  deriving Repr, Inhabited, DecidableEq

abbrev P := StateT PS PM

namespace Parser

def fail {α : Type} (pos : Nat) (msg : String) : P α := fun _ => .fail ⟨pos, msg⟩
def oof {α : Type} : P α := fun _ => .oof

/-- `advance()` -/
def advance : P Unit := fun s =>
  .next fun t nl => .pure ((), { s with prev := s.cur, cur := t, didEnd := nl })

/-- `consume(tag)` -/
def consume (tag : Tag) : P Unit := do
  let s ← get
  if s.cur.tag == tag then advance else fail s.cur.pos "expected token"

/-- `consume(tags...)` -/
def consumeOf (tags : List Tag) : P Unit := do
  let s ← get
  if tags.contains s.cur.tag then advance else fail s.cur.pos "expected one of"

/-- `p.consume(tag)` with the result ignored (the parse-level error is dropped; nothing is
    consumed when the tag does not match). -/
def consumeIgnore (tag : Tag) : P Unit := do
  let s ← get
  if s.cur.tag == tag then advance else pure ()

def curTag : P Tag := do return (← get).cur.tag
def atEnd : P Bool := do return (← get).cur.tag == .eof
def setDidEnd (b : Bool) : P Unit := modify fun s => { s with didEnd := b }

/-- `atStatementEnd()`: may consume a `;`. -/
def atStatementEnd : P Bool := do
  let s ← get
  if s.didEnd then return true
  match s.cur.tag with
  | .rcurly => return true
  | .semiColon => advance; return true
  | _ => return false

def isCompound (t : Tag) : Bool :=
  t == .plusEqual || t == .minusEqual || t == .multiplyEqual || t == .divideEqual

/-- `rewriteCompundAssingment`: `a op= b` becomes `a = a op b`. -/
def rewriteCompound (left right : Expr) (op : Token) : Expr :=
  let opTag : Tag := match op.tag with
    | .plusEqual => .plus | .minusEqual => .minus | .multiplyEqual => .multiply | _ => .divide
  .binary left (.binary left right ⟨opTag, op.pos, op.text⟩) ⟨.equal, op.pos, []⟩

/-- Target validation of `assign` (and of `++`/`--`): identifiers and member/index expressions. -/
def assignable : Expr → Bool
  | .ident _ => true
  | .binary _ _ op => op.tag == .dot || op.tag == .lsquare
  | _ => false

/-- `regex`: `p.lexer.Regex()`, `p.current = &token`, then `advance()`. -/
def regexPrefix : P Expr := fun s =>
  .regex fun tok => (do advance; return Expr.lit tok : P Expr) { s with cur := tok }

variable (tbl : RuleTable)

mutual

/-- `statement()` -/
def statement : Nat → P Stmt
  | 0 => oof
  | n + 1 => do
    setDidEnd false
    let s ← get
    match s.cur.tag with
    | .print => printStatement n
    | .return_ =>
      if !s.inFn then fail s.cur.pos "can only return inside a function" else
      consume .return_
      if !(← atStatementEnd) then
        let e ← expressionWithPrec n Prec.assign
        return .ret (some e)
      else
        setDidEnd true
        return .ret none
    | .if_ =>
      consume .if_
      consume .lparen
      let c ← expressionWithPrec n Prec.assign
      consume .rparen
      let body ← statement n
      if (← curTag) == .else_ then
        consume .else_
        let els ← statement n
        return .if_ c body (some els)
      else return .if_ c body none
    | .while_ =>
      consume .while_
      consume .lparen
      let c ← expressionWithPrec n Prec.assign
      consume .rparen
      let body ← loopBody n
      return .while_ c body
    | .for_ =>
      consume .for_
      consume .lparen
      let pre ← expressionWithPrec n Prec.assign
      let t ← curTag
      match pre, (t == .in_ || t == .comma) with
      | .ident id, true =>
        let idx ← (if t == .comma then do
            consume .comma
            consume .ident
            return some (← get).prev
          else pure none : P (Option Token))
        consumeIgnore .in_
        let iter ← expressionWithPrec n Prec.assign
        consume .rparen
        let body ← loopBody n
        return .forIn id idx iter body
      | _, _ =>
        consume .semiColon
        let c ← expressionWithPrec n Prec.assign
        consume .semiColon
        let post ← expressionWithPrec n Prec.assign
        consume .rparen
        let body ← loopBody n
        return .for_ pre c post body
    | .lcurly => block n
    | .break_ =>
      if !s.inLoop then fail s.cur.pos "can only break inside a loop" else
      consume .break_
      return .brk (← get).prev
    | .continue_ =>
      if !s.inLoop then fail s.cur.pos "can only continue inside a loop" else
      consume .continue_
      return .cont (← get).prev
    | .next => consume .next; return .next (← get).prev
    | .exit => consume .exit; return .exit (← get).prev
    | _ =>
      let e ← expressionWithPrec n Prec.assign
      return .expr e

/-- the body statement of a loop, parsed with `inLoop` set and restored afterwards -/
def loopBody : Nat → P Stmt
  | 0 => oof
  | n + 1 => do
    let was := (← get).inLoop
    modify fun s => { s with inLoop := true }
    let body ← statement n
    modify fun s => { s with inLoop := was }
    return body

/-- `block()` -/
def block : Nat → P Stmt
  | 0 => oof
  | n + 1 => do
    consume .lcurly
    let start := (← get).prev
    let body ← blockLoop n []
    consume .rcurly
    setDidEnd true
    return .block start body

def blockLoop : Nat → List Stmt → P (List Stmt)
  | 0, _ => oof
  | n + 1, acc => do
    let t ← curTag
    if t == .eof || t == .rcurly then return acc.reverse else
    let st ← statement n
    if !(← atStatementEnd) then fail (← get).cur.pos "unexpected end of input" else
    blockLoop n (st :: acc)

/-- `printStatement()` -/
def printStatement : Nat → P Stmt
  | 0 => oof
  | n + 1 => do
    consume .print
    let start := (← get).prev
    let (args, ended) ← printLoop n []
    -- parser.go:417 `if p.atStatementEnd() || ended`: the call comes first and is made even when
    -- `ended` holds, so a second `;` is consumed too (`print ; ; x` parses)
    let atEnd ← atStatementEnd
    if atEnd || ended then setDidEnd true
    return .print start args

/-- the argument loop; the flag says that the loop ended because the statement ended -/
def printLoop : Nat → List Expr → P (List Expr × Bool)
  | 0, _ => oof
  | n + 1, acc => do
    if (← atStatementEnd) then return (acc.reverse, true) else
    let e ← expressionWithPrec n Prec.assign
    if (← curTag) == .comma then
      consume .comma
      printLoop n (e :: acc)
    else return ((e :: acc).reverse, false)

/-- `expressionWithPrec(prec)` -/
def expressionWithPrec : Nat → Nat → P Expr
  | 0, _ => oof
  | n + 1, prec => do
    let s ← get
    match (lookupRule tbl s.cur.tag).pre with
    | none => fail s.cur.pos "unexpected token"
    | some pk =>
      let lhs ← prefixFn n pk
      infixLoop n prec lhs

def infixLoop : Nat → Nat → Expr → P Expr
  | 0, _, _ => oof
  | n + 1, prec, lhs => do
    let s ← get
    let r := lookupRule tbl s.cur.tag
    if prec ≤ r.prec then
      match r.inf with
      | none => fail s.cur.pos "unknown operator"
      | some ik =>
        let lhs' ← infixFn n ik lhs
        infixLoop n prec lhs'
    else return lhs

def prefixFn : Nat → PrefixKind → P Expr
  | 0, _ => oof
  | n + 1, pk => do
    match pk with
    | .literal => advance; return .lit (← get).prev
    | .regex => regexPrefix
    | .identifier =>
      let s ← get
      if s.cur.tag == .dollar || s.cur.tag == .ident then
        advance; return .ident (← get).prev
      else fail s.cur.pos "expected an identifier"
    | .array =>
      consume .lsquare
      let tok := (← get).prev
      let items ← exprList n .rsquare []
      return .arr tok items
    | .object =>
      consume .lcurly
      let tok := (← get).prev
      let items ← objectLoop n []
      consume .rcurly
      return .obj tok items
    | .group =>
      consume .lparen
      let e ← expressionWithPrec n Prec.assign
      consume .rparen
      return e
    | .unary =>
      advance
      let op := (← get).prev
      let e ← expressionWithPrec n Prec.unary
      if (op.tag == .plusPlus || op.tag == .minusMinus) && !assignable e then
        fail e.token.pos "invalid increment target"      -- parser.go:743-746: position of the operand
      else return .unary e op false
    | .match_ =>
      consume .match_
      let tok := (← get).prev
      consume .lparen
      let v ← expressionWithPrec n Prec.assign
      consume .rparen
      consume .lcurly
      let cases ← matchCases n []
      consume .rcurly
      setDidEnd true
      return .match_ tok v cases

/-- `evalExprList(endToken)` of the parser -/
def exprList : Nat → Tag → List Expr → P (List Expr)
  | 0, _, _ => oof
  | n + 1, endTag, acc => do
    let t ← curTag
    if t == .eof || t == endTag then consume endTag; return acc.reverse else
    let e ← expressionWithPrec n Prec.assign
    if (← curTag) == .comma then
      consume .comma
      exprList n endTag (e :: acc)
    else
      consume endTag
      return (e :: acc).reverse

def objectLoop : Nat → List (Bytes × Expr) → P (List (Bytes × Expr))
  | 0, _ => oof
  | n + 1, acc => do
    let t ← curTag
    if t == .rcurly || t == .eof then return acc.reverse else
    consumeOf [.str, .ident]
    let key := (← get).prev.text
    consume .colon
    let v ← expressionWithPrec n Prec.assign
    if (← curTag) == .comma then consume .comma
    objectLoop n ((key, v) :: acc)

def matchCases : Nat → List MatchCase → P (List MatchCase)
  | 0, _ => oof
  | n + 1, acc => do
    let t ← curTag
    if t == .rcurly || t == .eof then return acc.reverse else
    let pats ← matchPats n []
    consume .arrow
    let body ← (if (← curTag) == .lcurly then statement n
                else do let e ← expressionWithPrec n Prec.assign; return Stmt.expr e : P Stmt)
    if (← curTag) == .comma then advance
    matchCases n (MatchCase.mk pats body :: acc)

def matchPats : Nat → List Expr → P (List Expr)
  | 0, _ => oof
  | n + 1, acc => do
    if (← atEnd) then return acc.reverse else
    let e ← expressionWithPrec n Prec.assign
    if (← curTag) != .comma then return (e :: acc).reverse else
    consume .comma
    matchPats n (e :: acc)

def infixFn : Nat → InfixKind → Expr → P Expr
  | 0, _, _ => oof
  | n + 1, ik, left => do
    match ik with
    | .computedMember =>
      let op := (← get).cur
      consume .lsquare
      let e ← expressionWithPrec n Prec.assign
      consume .rsquare
      return .binary left e op
    | .member =>
      consume .dot
      let op := (← get).prev
      consume .ident
      let id := (← get).prev
      return .binary left (.lit id) op
    | .call =>
      consume .lparen
      let args ← exprList n .rparen []
      return .call left args
    | .postfixOp =>
      -- parser.go:757-759: checked before the operator is consumed, at the operand's position
      if !assignable left then fail left.token.pos "invalid increment target" else
      advance
      let op := (← get).prev
      return .unary left op true
    | .binary =>
      advance
      let op := (← get).prev
      let e ← expressionWithPrec n ((lookupRule tbl op.tag).prec + 1)
      return .binary left e op
    | .is =>
      consume .is
      let op := (← get).prev
      consumeOf [.ident, .function, .null]
      let rhs := (← get).prev
      return .binary left (.ident rhs) op
    | .assign =>
      if !assignable left then fail left.token.pos "invalid assignment" else
      advance
      let op := (← get).prev
      let e ← expressionWithPrec n (lookupRule tbl op.tag).prec
      if isCompound op.tag then return rewriteCompound left e op
      else return .binary left e op

end

/-- `parseRule()` -/
def parseRule (n : Nat) : P Rule := do
  let t ← curTag
  let (kind, pat) ← (match t with
    | .begin_ => do consume .begin_; return (RuleKind.begin_, none)
    | .end_ => do consume .end_; return (RuleKind.end_, none)
    | .beginFile => do consume .beginFile; return (RuleKind.beginFile, none)
    | .endFile => do consume .endFile; return (RuleKind.endFile, none)
    | .lcurly => return (RuleKind.pattern, none)
    | _ => do
      let e ← expressionWithPrec tbl n Prec.assign
      return (RuleKind.pattern, some e) : P (RuleKind × Option Expr))
  if (← curTag) == .lcurly then
    let body ← block tbl n
    return ⟨kind, pat, body⟩
  else
    return ⟨kind, pat, .print Token.zero []⟩

def funcArgs : Nat → List Bytes → P (List Bytes)
  | 0, _ => oof
  | n + 1, acc => do
    let t ← curTag
    if t == .eof || t == .rparen then return acc.reverse else
    consume .ident
    let name := (← get).prev.text
    if (← curTag) == .comma then consume .comma
    funcArgs n (name :: acc)

/-- `parseFunction()` -/
def parseFunction (n : Nat) : P FuncDef := do
  let was := (← get).inFn
  modify fun s => { s with inFn := true }
  consume .function
  consume .ident
  let id := (← get).prev
  consume .lparen
  let args ← funcArgs n []
  consume .rparen
  let body ← block tbl n
  modify fun s => { s with inFn := was }
  return ⟨id, args, body⟩

def parseTop : Nat → List Rule → List FuncDef → P Program
  | 0, _, _ => oof
  | n + 1, rules, fns => do
    if (← atEnd) then return ⟨rules.reverse, fns.reverse⟩ else
    if (← curTag) == .function then
      let f ← parseFunction tbl n
      parseTop n rules (f :: fns)
    else
      let r ← parseRule tbl n
      parseTop n (r :: rules) fns

/-- `Parse()` -/
def parseProgram (n : Nat) : P Program := do
  advance
  parseTop tbl n [] []

/-- `ParseExpression()` -/
def parseExpression (n : Nat) : P Expr := do
  advance
  let e ← expressionWithPrec tbl n Prec.assign
  consume .eof
  return e

end Parser

/-! ### Running a parser program against the lexer -/

inductive ParseRes (α : Type)
  | ok (a : α)
  | syntaxErr (e : SynErr)
  | oof

/-- `Lexer.Next()` repeated while it yields newline tokens (what `Parser.advance` does). -/
def Lexer.nextNN : Nat → LexState → Bool → Except SynErr (Token × Bool × LexState)
  | 0, _, _ => .error ⟨0, "fuel"⟩
  | fuel + 1, s, nl =>
    match Lexer.next s with
    | .error e => .error e
    | .ok (t, s') => if t.tag == .newline then Lexer.nextNN fuel s' true else .ok (t, nl, s')

def PM.run {α : Type} : PM α → LexState → ParseRes α
  | .pure a, _ => .ok a
  | .fail e, _ => .syntaxErr e
  | .oof, _ => .oof
  | .next k, s =>
    match Lexer.nextNN (s.rest.length + 1) s false with
    | .error e => .syntaxErr e
    | .ok (t, nl, s') => (k t nl).run s'
  | .regex k, s =>
    match Lexer.regex s with
    | .error e => .syntaxErr e
    | .ok (t, s') => (k t).run s'

def PS.init : PS := ⟨Token.zero, Token.zero, false, false, false⟩

def parserFuel (src : Bytes) : Nat := 8 * src.length + 64

def parseProgramSrc (tbl : RuleTable) (src : Bytes) : ParseRes Program :=
  match ((Parser.parseProgram tbl (parserFuel src)) PS.init).run (LexState.init src) with
  | .ok (p, _) => .ok p
  | .syntaxErr e => .syntaxErr e
  | .oof => .oof

def parseExpressionSrc (tbl : RuleTable) (src : Bytes) : ParseRes Expr :=
  match ((Parser.parseExpression tbl (parserFuel src)) PS.init).run (LexState.init src) with
  | .ok (p, _) => .ok p
  | .syntaxErr e => .syntaxErr e
  | .oof => .oof

end Jqawk
