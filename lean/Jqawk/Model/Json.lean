import Jqawk.Model.Bytes
/-
  Byte-exact model of Go 1.23 `encoding/json`:
    * one `json.NewDecoder(r).Decode(&v)` call with `var v any`  (`decodeOne`)
    * `json.MarshalIndent(v, "", "  ")`                          (`marshalIndent`)
  Core library only.  All functions are total and structurally recursive (no fuel needed):
  the decoder is a single left-to-right fold of the scanner state machine of scanner.go,
  extended with the values built so far (Go runs the scanner twice: stream.go `readValue`
  finds the extent, decode.go `valueInterface` re-scans it and builds the value).
-/
namespace Jqawk

/-- A decoded / encodable JSON tree.  Numbers keep their literal text.  After decoding, object
    members are sorted by key (bytewise), unique (last duplicate wins), strings are decoded bytes. -/
inductive JVal
  | null | bool (b : Bool) | num (lit : Bytes) | str (s : Bytes)
  | arr (items : List JVal) | obj (members : List (Bytes × JVal))
  deriving Repr, Inhabited

namespace JVal
mutual
/-- structural equality (`deriving DecidableEq` does not support this nested inductive) -/
def beq : JVal → JVal → Bool
  | .null, .null => true
  | .bool a, .bool b => a == b
  | .num a, .num b => a == b
  | .str a, .str b => a == b
  | .arr a, .arr b => beqItems a b
  | .obj a, .obj b => beqMembers a b
  | _, _ => false
def beqItems : List JVal → List JVal → Bool
  | [], [] => true
  | x :: xs, y :: ys => beq x y && beqItems xs ys
  | _, _ => false
def beqMembers : List (Bytes × JVal) → List (Bytes × JVal) → Bool
  | [], [] => true
  | (k, x) :: xs, (l, y) :: ys => k == l && beq x y && beqMembers xs ys
  | _, _ => false
end
instance : BEq JVal := ⟨beq⟩
end JVal

namespace Json

/-! ## Helpers shared by decoder and encoder -/

/-- scanner.go `isSpace` -/
def isSpace (c : UInt8) : Bool := c == 0x20 || c == 0x09 || c == 0x0D || c == 0x0A

def isDigit (c : UInt8) : Bool := 0x30 ≤ c && c ≤ 0x39

/-- `strings.Compare` on byte strings (Go sorts map keys with it; also our map-key order) -/
def cmpBytes : Bytes → Bytes → Ordering
  | [], [] => .eq
  | [], _ :: _ => .lt
  | _ :: _, [] => .gt
  | a :: as, b :: bs => if a < b then .lt else if b < a then .gt else cmpBytes as bs

/-- Go `m[k] = v` on a map represented as a key-sorted, duplicate-free association list -/
def insertMember {α : Type} (k : Bytes) (v : α) : List (Bytes × α) → List (Bytes × α)
  | [] => [(k, v)]
  | (k', v') :: ms =>
    match cmpBytes k k' with
    | .lt => (k, v) :: (k', v') :: ms
    | .eq => (k, v) :: ms
    | .gt => (k', v') :: insertMember k v ms

/-- `utf8.DecodeRune (c :: rest)`: the width 1..4 of the well-formed encoding starting with `c`,
    or 0 when Go returns `(RuneError, 1)` (table `first` / `acceptRanges` of unicode/utf8). -/
def utf8Width (c : UInt8) (rest : Bytes) : Nat :=
  let cont (x : UInt8) : Bool := 0x80 ≤ x && x ≤ 0xBF
  if c < 0x80 then 1
  else if c < 0xC2 then 0
  else if c < 0xE0 then
    match rest with
    | c1 :: _ => if cont c1 then 2 else 0
    | _ => 0
  else if c < 0xF0 then
    match rest with
    | c1 :: c2 :: _ =>
      let lo : UInt8 := if c == 0xE0 then 0xA0 else 0x80
      let hi : UInt8 := if c == 0xED then 0x9F else 0xBF
      if lo ≤ c1 && c1 ≤ hi && cont c2 then 3 else 0
    | _ => 0
  else if c < 0xF5 then
    match rest with
    | c1 :: c2 :: c3 :: _ =>
      let lo : UInt8 := if c == 0xF0 then 0x90 else 0x80
      let hi : UInt8 := if c == 0xF4 then 0x8F else 0xBF
      if lo ≤ c1 && c1 ≤ hi && cont c2 && cont c3 then 4 else 0
    | _ => 0
  else 0

/-- Driver for the two string loops (`unquoteBytes`, `appendString`).  `f c rest` describes one loop
    iteration at a position holding `c` followed by `rest`: the output bytes (reversed) and how many
    FURTHER input bytes the iteration consumes; those are skipped.  Output accumulates reversed. -/
def transduce (f : UInt8 → Bytes → Bytes × Nat) : Nat → Bytes → Bytes → Bytes
  | _, [], acc => acc
  | skip + 1, _ :: rest, acc => transduce f skip rest acc
  | 0, c :: rest, acc => let r := f c rest; transduce f r.2 rest (r.1 ++ acc)

/-- U+FFFD in UTF-8, reversed -/
def fffdRev : Bytes := [0xBD, 0xBF, 0xEF]

/-! ## Decoding strings: decode.go `unquoteBytes` -/

/-- `utf8.EncodeRune` for a non-surrogate rune `r ≤ 0x10FFFF`, pushed (reversed) onto `acc` -/
def pushRune (r : Nat) (acc : Bytes) : Bytes :=
  let b (n : Nat) : UInt8 := n.toUInt8
  if r < 0x80 then b r :: acc
  else if r < 0x800 then b (0x80 + r % 64) :: b (0xC0 + r / 64) :: acc
  else if r < 0x10000 then b (0x80 + r % 64) :: b (0x80 + r / 64 % 64) :: b (0xE0 + r / 4096) :: acc
  else b (0x80 + r % 64) :: b (0x80 + r / 64 % 64) :: b (0x80 + r / 4096 % 64) :: b (0xF0 + r / 262144) :: acc

def hexVal (c : UInt8) : Option Nat :=
  if isDigit c then some (c.toNat - 0x30)
  else if 0x61 ≤ c && c ≤ 0x66 then some (c.toNat - 0x57)
  else if 0x41 ≤ c && c ≤ 0x46 then some (c.toNat - 0x37)
  else none

/-- decode.go `getu4`: the code unit of a leading `\uXXXX`, `none` for Go's -1 -/
def getu4 : Bytes → Option Nat
  | 0x5C :: 0x75 :: a :: b :: c :: d :: _ =>
    match hexVal a, hexVal b, hexVal c, hexVal d with
    | some a, some b, some c, some d => some (((a * 16 + b) * 16 + c) * 16 + d)
    | _, _, _, _ => none
  | _ => none

/-- One iteration of the slow loop of `unquoteBytes` (the fast path gives the same result).
    The `!ok` returns of Go are unreachable on scanner-validated literals; here they yield no output. -/
def unquoteAt (c : UInt8) (rest : Bytes) : Bytes × Nat :=
  if c == 0x5C then                                           -- backslash
    match rest with
    | [] => ([], 0)
    | e :: _ =>
      if e == 0x75 then                                       -- \uXXXX
        match getu4 (c :: rest) with
        | none => ([], 0)
        | some rr =>
          if 0xD800 ≤ rr && rr < 0xE000 then                  -- utf16.IsSurrogate
            match getu4 (rest.drop 5) with                    -- utf16.DecodeRune rr rr1
            | some rr1 =>
              if rr < 0xDC00 && 0xDC00 ≤ rr1 && rr1 < 0xE000
              then (pushRune (0x10000 + (rr - 0xD800) * 1024 + (rr1 - 0xDC00)) [], 11)
              else (fffdRev, 5)
            | none => (fffdRev, 5)
          else (pushRune rr [], 5)
      else
        let d : UInt8 := if e == 0x62 then 0x08 else if e == 0x66 then 0x0C else if e == 0x6E then 0x0A
                         else if e == 0x72 then 0x0D else if e == 0x74 then 0x09 else e   -- " \ / stay
        ([d], 1)
  else if c < 0x80 then ([c], 0)
  else match utf8Width c rest with                            -- "coerce to well-formed UTF-8"
    | 0 => (fffdRev, 0)
    | w + 1 => ((c :: rest.take w).reverse, w)

/-- decode.go `unquote` applied to the bytes between the quotes of a validated string literal -/
def unquote (raw : Bytes) : Bytes := (transduce unquoteAt 0 raw []).reverse

/-! ## The scanner (scanner.go) extended with value construction (decode.go `*Interface`) -/

/-- Go `s.step`.  `endTop v` is `stateEndValue` with an empty parse stack (a complete top-level
    scalar `v`, waiting for the delayed `scanEnd`); `lit rest v` covers stateT…stateNul: the bytes
    `rest` of true/false/null are still expected; `inStringEscU n`: `n` more hex digits follow this one. -/
inductive Step
  | beginValue | beginValueOrEmpty | beginStringOrEmpty | beginString | endValue
  | endTop (v : JVal)
  | inString | inStringEsc | inStringEscU (n : Nat)
  | neg | s0 | s1 | dot | dot0 | e | eSign | e0
  | lit (rest : Bytes) (v : JVal)

/-- An entry of Go's `parseState` stack plus the values collected so far.
    `arr acc` = parseArrayValue (`acc` reversed); `obj ms key isValue` = parseObjectKey (`isValue = false`,
    `key` = the key once read) / parseObjectValue (`isValue = true`); `ms` is the Go map built so far. -/
inductive Frame
  | arr (acc : List JVal)
  | obj (ms : List (Bytes × JVal)) (key : Bytes) (isValue : Bool)

/-- scanner state; `lit` = raw bytes of the literal in progress (reversed), `bad` = some number literal
    was out of float64 range (`decodeState.savedError`: reported only after the whole value was read). -/
structure St where
  step : Step
  stack : List Frame
  depth : Nat          -- = stack.length
  lit : Bytes
  bad : Bool

/-- result of one `s.step(s, c)` as seen by `readValue` -/
inductive Out
  | cont (s : St)                                  -- opcode < scanEnd (and not a closing top-level bracket)
  | done (v : JVal) (bad : Bool) (consumed : Bool) -- top-level value complete; `consumed = false`: scanEnd,
                                                   -- the value ended BEFORE this byte; `true`: it is the closing bracket
  | err                                            -- scanError

def maxNestingDepth : Nat := 10000

/-- `scanner.reset` -/
def St.init : St := { step := .beginValue, stack := [], depth := 0, lit := [], bad := false }

/-- A value is complete (Go: `s.step = stateEndValue`): store it where `valueInterface`'s caller puts it. -/
def deliver (s : St) (v : JVal) : St :=
  match s.stack with
  | [] => { s with step := .endTop v }
  | .arr acc :: fs => { s with step := .endValue, stack := .arr (v :: acc) :: fs }
  | .obj ms _ false :: fs =>
    { s with step := .endValue, stack := .obj ms (match v with | .str k => k | _ => []) false :: fs }
  | .obj ms k true :: fs => { s with step := .endValue, stack := .obj (insertMember k v ms) [] true :: fs }

/-- `pushParseState`: fails when the new depth exceeds `maxNestingDepth` -/
def push (s : St) (f : Frame) (next : Step) : Out :=
  if s.depth + 1 ≤ maxNestingDepth
  then .cont { s with step := next, stack := f :: s.stack, depth := s.depth + 1 }
  else .err

/-- `popParseState` after a closing bracket; `fs` = the remaining stack, `v` = the finished composite.
    With `fs = []` readValue "invents a space" and stops right after the bracket. -/
def pop (s : St) (fs : List Frame) (v : JVal) : Out :=
  match fs with
  | [] => .done v s.bad true
  | _ => .cont (deliver { s with stack := fs, depth := s.depth - 1 } v)

/-- `stateEndValue` with a non-empty parse stack -/
def endValue (s : St) (c : UInt8) : Out :=
  if isSpace c then .cont { s with step := .endValue }
  else match s.stack with
    | [] => .err                                              -- not reachable (see `afterValue`)
    | .obj ms k false :: fs =>
      if c == 0x3A then .cont { s with step := .beginValue, stack := .obj ms k true :: fs } else .err
    | .obj ms _ true :: fs =>
      if c == 0x2C then .cont { s with step := .beginString, stack := .obj ms [] false :: fs }
      else if c == 0x7D then pop s fs (.obj ms) else .err
    | .arr acc :: fs =>
      if c == 0x2C then .cont { s with step := .beginValue }
      else if c == 0x5D then pop s fs (.arr acc.reverse) else .err

/-- `stateEndValue` in general: with an empty stack it is `stateEndTop`, which answers scanEnd to ANY byte. -/
def afterValue (s : St) (c : UInt8) : Out :=
  match s.step with
  | .endTop v => .done v s.bad false
  | _ => endValue s c

/-- a number literal ends before `c` (the `return stateEndValue(s, c)` of state0/stateDot0/stateE0);
    `convertNumber` (strconv.ParseFloat range error) is recorded in `bad`. -/
def endNumber (numOk : Bytes → Bool) (s : St) (c : UInt8) : Out :=
  let lit := s.lit.reverse
  afterValue (deliver { s with lit := [], bad := s.bad || !numOk lit } (.num lit)) c

/-- `stateBeginValue` -/
def beginValue (s : St) (c : UInt8) : Out :=
  if isSpace c then .cont s
  else if c == 0x7B then push s (.obj [] [] false) .beginStringOrEmpty                  -- {
  else if c == 0x5B then push s (.arr []) .beginValueOrEmpty                            -- [
  else if c == 0x22 then .cont { s with step := .inString, lit := [] }                  -- "
  else if c == 0x2D then .cont { s with step := .neg, lit := [c] }                      -- -
  else if c == 0x30 then .cont { s with step := .s0, lit := [c] }                       -- 0
  else if c == 0x74 then .cont { s with step := .lit [0x72, 0x75, 0x65] (.bool true) }          -- t rue
  else if c == 0x66 then .cont { s with step := .lit [0x61, 0x6C, 0x73, 0x65] (.bool false) }   -- f alse
  else if c == 0x6E then .cont { s with step := .lit [0x75, 0x6C, 0x6C] .null }                 -- n ull
  else if isDigit c then .cont { s with step := .s1, lit := [c] }                       -- 1..9
  else .err

/-- `stateBeginString` -/
def beginString (s : St) (c : UInt8) : Out :=
  if isSpace c then .cont s
  else if c == 0x22 then .cont { s with step := .inString, lit := [] }
  else .err

/-- continue a literal with byte `c` in state `next` -/
def more (s : St) (c : UInt8) (next : Step) : Out := .cont { s with step := next, lit := c :: s.lit }

/-- `state0` (also the tail of `state1`) -/
def state0 (numOk : Bytes → Bool) (s : St) (c : UInt8) : Out :=
  if c == 0x2E then more s c .dot
  else if c == 0x65 || c == 0x45 then more s c .e
  else endNumber numOk s c

/-- `stateESign` -/
def stateESign (s : St) (c : UInt8) : Out := if isDigit c then more s c .e0 else .err

/-- `s.step(s, c)`: dispatch on the current step function -/
def step (numOk : Bytes → Bool) (s : St) (c : UInt8) : Out :=
  match s.step with
  | .beginValue => beginValue s c
  | .beginValueOrEmpty =>
    if isSpace c then .cont s else if c == 0x5D then endValue s c else beginValue s c
  | .beginStringOrEmpty =>
    if isSpace c then .cont s
    else if c == 0x7D then
      match s.stack with                                      -- parseState[n-1] = parseObjectValue
      | .obj ms k _ :: fs => endValue { s with stack := .obj ms k true :: fs } c
      | _ => .err
    else beginString s c
  | .beginString => beginString s c
  | .endValue => endValue s c
  | .endTop v => .done v s.bad false
  | .inString =>
    if c == 0x22 then .cont (deliver { s with lit := [] } (.str (unquote s.lit.reverse)))
    else if c == 0x5C then more s c .inStringEsc
    else if c < 0x20 then .err
    else more s c .inString
  | .inStringEsc =>
    if c == 0x62 || c == 0x66 || c == 0x6E || c == 0x72 || c == 0x74 || c == 0x5C || c == 0x2F || c == 0x22
    then more s c .inString
    else if c == 0x75 then more s c (.inStringEscU 3)
    else .err
  | .inStringEscU n =>
    if (hexVal c).isSome then more s c (match n with | 0 => .inString | k + 1 => .inStringEscU k) else .err
  | .neg => if c == 0x30 then more s c .s0 else if isDigit c then more s c .s1 else .err
  | .s1 => if isDigit c then more s c .s1 else state0 numOk s c
  | .s0 => state0 numOk s c
  | .dot => if isDigit c then more s c .dot0 else .err
  | .dot0 =>
    if isDigit c then more s c .dot0
    else if c == 0x65 || c == 0x45 then more s c .e
    else endNumber numOk s c
  | .e => if c == 0x2B || c == 0x2D then more s c .eSign else stateESign s c
  | .eSign => stateESign s c
  | .e0 => if isDigit c then more s c .e0 else endNumber numOk s c
  | .lit rest v =>
    match rest with
    | [] => .err
    | [x] => if c == x then .cont (deliver s v) else .err
    | x :: xs => if c == x then .cont { s with step := .lit xs v } else .err

/-! ## stream.go `Decode` / `readValue` -/

inductive Tail
  | more    -- the reader may still deliver bytes
  | eof     -- clean end of stream
  | ioerr   -- the reader returned a non-EOF error after these bytes

inductive DecodeRes
  | value (v : JVal) (rest : Bytes)
  | eof
  | error
  | needMore
  deriving Inhabited

/-- The loop of `readValue` over the buffered bytes, then the handling of the reader's answer.
    Precondition (see `decodeOne`): the input contains a non-space byte. -/
def run (numOk : Bytes → Bool) : St → Bytes → Tail → DecodeRes
  | s, c :: cs, t =>
    match step numOk s c with
    | .cont s' => run numOk s' cs t
    | .done v bad consumed => if bad then .error else .value v (if consumed then cs else c :: cs)
    | .err => .error
  | _, [], .more => .needMore
  | _, [], .ioerr => .error                                   -- the read error wins
  | s, [], .eof =>
    match step numOk s 0x20 with                              -- `dec.scan.step(&dec.scan, ' ') == scanEnd`
    | .done v false _ => .value v []
    | _ => .error                                             -- io.ErrUnexpectedEOF / UnmarshalTypeError

/-- One `Decode(&v)` on a fresh scanner state. -/
def decodeOne (numOk : Bytes → Bool) (input : Bytes) (tail : Tail) : DecodeRes :=
  match input.dropWhile isSpace, tail with                    -- stateBeginValue skips leading space
  | [], .more => .needMore
  | [], .eof => .eof                                          -- `!nonSpace(dec.buf)`: io.EOF
  | [], .ioerr => .error
  | inp, t => run numOk St.init inp t

/-! ## encode.go / indent.go: `MarshalIndent(v, "", "  ")` -/

/-- `hex[n]` for n < 16 -/
def hexDigit (n : UInt8) : UInt8 := if n < 10 then 0x30 + n else 0x57 + n

/-- One iteration of the loop of `appendString` with escapeHTML = true (tables.go `htmlSafeSet`). -/
def quoteAt (c : UInt8) (rest : Bytes) : Bytes × Nat :=
  if c < 0x80 then
    if c == 0x22 || c == 0x5C then ([c, 0x5C], 0)
    else if c == 0x08 then ([0x62, 0x5C], 0)                  -- \b
    else if c == 0x0C then ([0x66, 0x5C], 0)                  -- \f
    else if c == 0x0A then ([0x6E, 0x5C], 0)                  -- \n
    else if c == 0x0D then ([0x72, 0x5C], 0)                  -- \r
    else if c == 0x09 then ([0x74, 0x5C], 0)                  -- \t
    else if c < 0x20 || c == 0x3C || c == 0x3E || c == 0x26   -- control, < > &  →  \u00XX
    then ([hexDigit (c &&& 0xF), hexDigit (c >>> 4), 0x30, 0x30, 0x75, 0x5C], 0)
    else ([c], 0)
  else match utf8Width c rest with
    | 0 => ([0x64, 0x66, 0x66, 0x66, 0x75, 0x5C], 0)          -- the six characters \ufffd
    | w + 1 =>
      match c, rest with
      | 0xE2, 0x80 :: 0xA8 :: _ => ([0x38, 0x32, 0x30, 0x32, 0x75, 0x5C], 2)   -- U+2028 -> \u2028
      | 0xE2, 0x80 :: 0xA9 :: _ => ([0x39, 0x32, 0x30, 0x32, 0x75, 0x5C], 2)   -- U+2029 -> \u2029
      | _, _ => ((c :: rest.take w).reverse, w)

/-- `appendString`, output reversed onto `acc` -/
def encString (s : Bytes) (acc : Bytes) : Bytes := 0x22 :: transduce quoteAt 0 s (0x22 :: acc)

/-- indent.go `appendNewline` (prefix "", indent two spaces), reversed onto `acc` -/
def newline : Nat → Bytes → Bytes
  | 0, acc => 0x0A :: acc
  | d + 1, acc => 0x20 :: 0x20 :: newline d acc

/-- members of an object already rendered and sorted: `"key": value` lines separated by commas -/
def joinMembers (d : Nat) : List (Bytes × Bytes) → Bool → Bytes → Bytes
  | [], _, acc => acc
  | (k, v) :: ms, first, acc =>
    joinMembers d ms false (v ++ 0x20 :: 0x3A :: encString k (newline d (if first then acc else 0x2C :: acc)))

mutual
/-- the encoders of encode.go followed by `appendIndent`; `d` = current depth, output reversed onto `acc` -/
def encVal (d : Nat) : JVal → Bytes → Bytes
  | .null, acc => 0x6C :: 0x6C :: 0x75 :: 0x6E :: acc
  | .bool true, acc => 0x65 :: 0x75 :: 0x72 :: 0x74 :: acc
  | .bool false, acc => 0x65 :: 0x73 :: 0x6C :: 0x61 :: 0x66 :: acc
  | .num lit, acc => lit.reverse ++ acc
  | .str s, acc => encString s acc
  | .arr [], acc => 0x5D :: 0x5B :: acc
  | .arr (x :: xs), acc => 0x5D :: newline d (encItems (d + 1) (x :: xs) true (0x5B :: acc))
  | .obj ms, acc =>
    match encMembers (d + 1) ms [] with                       -- mapEncoder: sort by key
    | [] => 0x7D :: 0x7B :: acc
    | ms' => 0x7D :: newline d (joinMembers (d + 1) ms' true (0x7B :: acc))
def encItems (d : Nat) : List JVal → Bool → Bytes → Bytes
  | [], _, acc => acc
  | x :: xs, first, acc => encItems d xs false (encVal d x (newline d (if first then acc else 0x2C :: acc)))
/-- render every member value at depth `d` (reversed) and insert it into the key-sorted result -/
def encMembers (d : Nat) : List (Bytes × JVal) → List (Bytes × Bytes) → List (Bytes × Bytes)
  | [], sorted => sorted
  | (k, v) :: ms, sorted => encMembers d ms (insertMember k (encVal d v []) sorted)
end

/-- `json.MarshalIndent(v, "", "  ")`; numbers: literal text verbatim (Go: `json.Number`) -/
def marshalIndent (v : JVal) : Bytes := (encVal 0 v []).reverse

mutual
/-- how many brackets are open around the innermost value (an empty container counts): the highest
    value `pushParseState` reaches when the scanner runs over the compact text of `v` -/
def nesting : JVal → Nat
  | .arr xs => nestingItems xs + 1
  | .obj ms => nestingMembers ms + 1
  | _ => 0
def nestingItems : List JVal → Nat
  | [] => 0
  | x :: xs => max (nesting x) (nestingItems xs)
def nestingMembers : List (Bytes × JVal) → Nat
  | [] => 0
  | (_, v) :: ms => max (nesting v) (nestingMembers ms)
end

/-- `json.MarshalIndent` fails where `json.Marshal` does not: its indent pass (indent.go
    `appendIndent`) runs the decoder's scanner over the compact text, and `pushParseState` answers
    "exceeded max depth" at the first bracket opened inside `maxNestingDepth` open ones. -/
def tooDeep (v : JVal) : Bool := maxNestingDepth < nesting v

/-! ## Kernel-checked sanity examples -/

instance : BEq DecodeRes where
  beq
    | .value v r, .value w q => v == w && r == q
    | .eof, .eof => true
    | .error, .error => true
    | .needMore, .needMore => true
    | _, _ => false

private def ok (_ : Bytes) : Bool := true
/-- ASCII string to bytes (`String.toUTF8` does not reduce under `decide`) -/
private def b (s : String) : Bytes := s.toList.map (fun c => c.toNat.toUInt8)

example : (decodeOne ok (b "[1, {\"a\": null}] x") .more
            == .value (.arr [.num (b "1"), .obj [(b "a", .null)]]) (b " x")) = true := by decide
example : (decodeOne ok (b " truefalse") .eof == .value (.bool true) (b "false")) = true := by decide
example : (decodeOne ok (b "12") .more == .needMore) = true := by decide
example : (decodeOne ok (b "12") .eof == .value (.num (b "12")) []) = true := by decide
example : (decodeOne ok (b "12") .ioerr == .error) = true := by decide
example : (decodeOne ok (b " \n") .eof == .eof) = true := by decide
example : (decodeOne ok (b "[1,]") .more == .error) = true := by decide
example : (decodeOne (fun _ => false) (b "{\"a\":1,\"a\":\"x\"}") .eof == .error) = true := by decide
example : (decodeOne ok (b "{\"b\":1,\"a\":2,\"b\":\"\\ud83d\\ude00\\ud800\"}") .eof   -- U+1F600, lone surrogate
            == .value (.obj [(b "a", .num (b "2")), (b "b", .str [0xF0, 0x9F, 0x98, 0x80, 0xEF, 0xBF, 0xBD])]) []) = true := by
  decide +kernel   -- plain `decide` (elaborator whnf, no sharing) is too slow on this longer input
example : marshalIndent (.obj [(b "b", .arr [.num (b "1"), .arr [], .obj []]), (b "a", .str [0x3C, 0xFF, 0x0A])])
            = b "{\n  \"a\": \"\\u003c\\ufffd\\n\",\n  \"b\": [\n    1,\n    [],\n    {}\n  ]\n}" := by decide

end Json
end Jqawk
