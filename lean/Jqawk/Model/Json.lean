/- TEMPORARY STUB — to be replaced by the port of encoding/json. -/
import Jqawk.Model.Bytes
namespace Jqawk
inductive JVal
  | null | bool (b : Bool) | num (lit : Bytes) | str (s : Bytes)
  | arr (items : List JVal) | obj (members : List (Bytes × JVal))
  deriving Inhabited
namespace Json
inductive Tail | more | eof | ioerr
inductive DecodeRes
  | value (v : JVal) (rest : Bytes) | eof | error | needMore
def decodeOne (_numOk : Bytes → Bool) (input : Bytes) (_tail : Tail) : DecodeRes :=
  match input with | [] => .eof | _ => .error
def marshalIndent (_v : JVal) : Bytes := []
end Json
end Jqawk
