/-
  L4 (part 1): evaluator state, outcomes and the evaluation monad (src/evaluator.go:13-167).
-/
import Jqawk.Model.Value
import Jqawk.Model.Ast

namespace Jqawk

structure Frame where
  name : Bytes
  locals : List (Bytes × CellId)
  deriving Repr, Inhabited

structure St where
  heap : Heap
  frames : List Frame          -- innermost first; the last one is `<root>`
  out : List Bytes             -- output chunks, newest first
  root : Option CellId
  ruleRoot : Option CellId
  returnVal : Option CellId
  faults : Nat                 -- ghost: number of runtime errors raised so far
  faultOut : Nat := 0          -- ghost: number of output chunks when the last runtime error was raised
  maxDepth : Nat := 0          -- ghost: the largest number of frames ever open at once
  deriving Inhabited

/-- the output written so far -/
def St.output (s : St) : Bytes := s.out.reverse.flatten

/-- sentinel control-flow errors (src/evaluator.go:36-42) -/
inductive Sig | cont | brk | ret | next | exit
  deriving DecidableEq, Repr

inductive Err
  | runtime (pos : Nat) (msg : String)   -- RuntimeError (position = token offset)
  | sig (s : Sig)                        -- errContinue … errExit
  | panic (msg : String)                 -- a Go panic (explicit `panic(` or nil dereference)
  | unmodelled (why : String)            -- the model declines (regex outside the subset, …)
  deriving DecidableEq, Repr

inductive Res (α : Type)
  | ok (a : α) (s : St)
  | err (e : Err) (s : St)
  | oof                                  -- out of fuel: neither success nor error

def EM (α : Type) := St → Res α

namespace EM
@[always_inline, inline] def pure {α : Type} (a : α) : EM α := fun s => .ok a s
@[always_inline, inline] def bind {α β : Type} (m : EM α) (f : α → EM β) : EM β := fun s =>
  match m s with
  | .ok a s' => f a s'
  | .err e s' => .err e s'
  | .oof => .oof
@[always_inline] instance : Monad EM where
  pure := EM.pure
  bind := EM.bind
end EM

def oof {α : Type} : EM α := fun _ => .oof
def getSt : EM St := fun s => .ok s s
def setSt (s : St) : EM Unit := fun _ => .ok () s
def modifySt (f : St → St) : EM Unit := fun s => .ok () (f s)
def throwSig {α : Type} (g : Sig) : EM α := fun s => .err (.sig g) s
def throwPanic {α : Type} (msg : String) : EM α := fun s => .err (.panic msg) s
def throwUnmodelled {α : Type} (why : String) : EM α := fun s => .err (.unmodelled why) s

/-- `e.error(token, msg)`: create a runtime error; the ghost counter records the creation. -/
def throwRt {α : Type} (pos : Nat) (msg : String) : EM α := fun s =>
  .err (.runtime pos msg) { s with faults := s.faults + 1, faultOut := s.out.length }

/-- lift a plain Go `error` into a runtime error at `pos` -/
def liftExcept {α : Type} (pos : Nat) : Except String α → EM α
  | .ok a => pure a
  | .error m => throwRt pos m

/-- `NewCell(v)` -/
def newCell (v : Val) : EM CellId := fun s =>
  let (c, h) := s.heap.alloc v
  .ok c { s with heap := h }

def readCell (c : CellId) : EM Val := fun s => .ok (s.heap.get c) s
def writeCell (c : CellId) (v : Val) : EM Unit := fun s => .ok () { s with heap := s.heap.set c v }
def getHeap : EM Heap := fun s => .ok s.heap s
def setHeap (h : Heap) : EM Unit := fun s => .ok () { s with heap := h }

/-- a new array object holding the given cells (state-level, so that the heap stays uniquely
    referenced and is updated in place) -/
def allocArrM (items : Array CellId) : EM ArrId := fun s =>
  let (a, h) := s.heap.allocArr items
  .ok a { s with heap := h }

def allocObjM (m : List (Bytes × CellId)) : EM ObjId := fun s =>
  let (o, h) := s.heap.allocObj m
  .ok o { s with heap := h }

/-- `e.print(str)` / `fmt.Fprint(e.stdout, …)` -/
def emit (b : Bytes) : EM Unit := fun s => .ok () { s with out := b :: s.out }

def callDepthLimit : Nat := 4096

/-- `pushFrame(name)`: the new frame's depth is the current number of frames -/
def pushFrame (name : Bytes) : EM (Except String Unit) := fun s =>
  if s.frames.length > callDepthLimit then .ok (.error "call depth limit exceeded") s
  else .ok (.ok ()) { s with frames := ⟨name, []⟩ :: s.frames,
                             maxDepth := max s.maxDepth (s.frames.length + 1) }

/-- restore the frame stack saved before a `pushFrame` (every exit path of a call or match) -/
def restoreFrames (fr : List Frame) : EM Unit := fun s => .ok () { s with frames := fr }

/-- `defer func() { e.stackTop = saved }()` around `m`: whatever way `m` ends, the frame stack
    is the saved one afterwards -/
def withFrames {α : Type} (saved : List Frame) (m : EM α) : EM α := fun s =>
  match m s with
  | .ok a s' => .ok a { s' with frames := saved }
  | .err e s' => .err e { s' with frames := saved }
  | .oof => .oof

/-- one loop iteration: run `body`; `break` ends the loop normally, `continue` and normal
    completion go on with `k`, everything else propagates
    (`if err == errBreak { break } else if err != nil && err != errContinue { return err }`) -/
def loopIter (body : EM Unit) (k : EM Unit) : EM Unit := fun s =>
  match body s with
  | .ok () s' => k s'
  | .err (.sig .brk) s' => .ok () s'
  | .err (.sig .cont) s' => k s'
  | .err e s' => .err e s'
  | .oof => .oof

/-- a function body: `errReturn` yields the value of the return slot, normal completion null -/
def catchReturn (body : EM Unit) : EM Val := fun s =>
  match body s with
  | .ok () s' => .ok (.nil none) s'
  | .err (.sig .ret) s' =>
    .ok (match s'.returnVal with
         | some c => s'.heap.get c
         | none => .nil none) s'
  | .err e s' => .err e s'
  | .oof => .oof

/-- run `m`; the given signal ends it normally with `dflt` (how `evalRules` consumes `next`) -/
def catchSig {α : Type} (g : Sig) (dflt : α) (m : EM α) : EM α := fun s =>
  match m s with
  | .ok a s' => .ok a s'
  | .err (.sig g') s' => if g' = g then .ok dflt s' else .err (.sig g') s'
  | .err e s' => .err e s'
  | .oof => .oof

def lookupFrames : List Frame → Bytes → Option CellId
  | [], _ => none
  | f :: fs, name =>
    match objLookup f.locals name with
    | some c => some c
    | none => lookupFrames fs name

/-- `e.stackTop.locals[name] = cell` -/
def setLocal (name : Bytes) (c : CellId) : EM Unit := fun s =>
  match s.frames with
  | [] => .err (.panic "no frame") s
  | f :: fs => .ok () { s with frames := { f with locals := objInsert f.locals name c } :: fs }

def setLastFrame : List Frame → Bytes → CellId → List Frame
  | [], _, _ => []
  | [f], name, c => [{ f with locals := objInsert f.locals name c }]
  | f :: fs, name, c => f :: setLastFrame fs name c

/-- `setGlobal(name, cell)`: store in the root frame -/
def setGlobal (name : Bytes) (c : CellId) : EM Unit := fun s =>
  .ok () { s with frames := setLastFrame s.frames name c }

/-- `getVariable(name)`: dynamic lookup through all frames; unknown names are created in the
    innermost frame, except `$`-names. -/
def getVariable (name : Bytes) : EM (Except String CellId) := do
  let s ← getSt
  match lookupFrames s.frames name with
  | some c => return .ok c
  | none =>
    if name.head? == some 36 then return .error "unknown variable"
    else
      let c ← newCell .unknown
      setLocal name c
      return .ok c

end Jqawk
