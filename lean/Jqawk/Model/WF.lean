/-
  Syntactic well-formedness of ASTs: the node-shape facts that the parser establishes and the
  evaluator relies on (src/parser.go: `assign`, `unary`, `postfixOp`, `member`, `is`, `literal`,
  `regex`, `rewriteCompundAssingment`; src/eval.go: the literal switch and the assignment-target
  switch).  `Expr.nodeOK` is the check on one node, `wfB` says that every node of a tree passes it,
  `subs` lists the expression nodes of a tree.
-/
import Jqawk.Model.Parser

namespace Jqawk

/-- the token tags a literal node can carry (`ExprLiteral`: Str Ident Regex Num True False Null) -/
def litTag : Tag → Bool
  | .str | .ident | .regex | .num | .true_ | .false_ | .null => true
  | _ => false

def Expr.isIdent : Expr → Bool
  | .ident _ => true
  | _ => false

/-- a literal node carrying an identifier token (the right-hand side of `.`) -/
def Expr.isIdentLit : Expr → Bool
  | .lit t => t.tag == .ident
  | _ => false

/-- the shape check on a single node:
    * a literal carries a literal token;
    * the operand of `++`/`--` (prefix or postfix) is assignable;
    * the left side of `=` is assignable; no compound-assignment operator is left in the tree
      (they are rewritten to `=`); `is` has a type name on the right, `.` a field name. -/
def Expr.nodeOK : Expr → Bool
  | .lit t => litTag t.tag
  | .unary e op _ => !(op.tag == .plusPlus || op.tag == .minusMinus) || Parser.assignable e
  | .binary l r op =>
    (op.tag != .equal || Parser.assignable l) && !Parser.isCompound op.tag &&
      (op.tag != .is || r.isIdent) && (op.tag != .dot || r.isIdentLit)
  | _ => true

mutual
def Expr.wfB : Expr → Bool
  | .lit t => (Expr.lit t).nodeOK
  | .ident _ => true
  | .arr _ items => wfEs items
  | .obj _ items => wfKVs items
  | .unary e op p => (Expr.unary e op p).nodeOK && e.wfB
  | .binary l r op => (Expr.binary l r op).nodeOK && l.wfB && r.wfB
  | .call f args => f.wfB && wfEs args
  | .match_ _ v cases => v.wfB && wfCases cases
def wfEs : List Expr → Bool
  | [] => true
  | e :: es => e.wfB && wfEs es
def wfKVs : List (Bytes × Expr) → Bool
  | [] => true
  | (_, e) :: es => e.wfB && wfKVs es
def wfCases : List MatchCase → Bool
  | [] => true
  | (.mk pats body) :: cs => wfEs pats && body.wfB && wfCases cs
def Stmt.wfB : Stmt → Bool
  | .block _ body => wfSs body
  | .print _ args => wfEs args
  | .expr e => e.wfB
  | .ret none => true
  | .ret (some e) => e.wfB
  | .brk _ => true
  | .cont _ => true
  | .next _ => true
  | .exit _ => true
  | .if_ c b none => c.wfB && b.wfB
  | .if_ c b (some e) => c.wfB && b.wfB && e.wfB
  | .while_ c b => c.wfB && b.wfB
  | .for_ pre c post b => pre.wfB && c.wfB && post.wfB && b.wfB
  | .forIn _ _ iter b => iter.wfB && b.wfB
def wfSs : List Stmt → Bool
  | [] => true
  | s :: ss => s.wfB && wfSs ss
end

def Rule.wfB (r : Rule) : Bool :=
  r.body.wfB && (match r.pattern with | none => true | some e => e.wfB)

def Program.wfB (p : Program) : Bool :=
  p.rules.all Rule.wfB && p.functions.all (fun f => f.body.wfB)

/-! ### all expression nodes of a tree -/

mutual
def Expr.subs : Expr → List Expr
  | .lit t => [.lit t]
  | .ident t => [.ident t]
  | .arr t items => .arr t items :: subsEs items
  | .obj t items => .obj t items :: subsKVs items
  | .unary e op p => .unary e op p :: e.subs
  | .binary l r op => .binary l r op :: (l.subs ++ r.subs)
  | .call f args => .call f args :: (f.subs ++ subsEs args)
  | .match_ t v cases => .match_ t v cases :: (v.subs ++ subsCases cases)
def subsEs : List Expr → List Expr
  | [] => []
  | e :: es => e.subs ++ subsEs es
def subsKVs : List (Bytes × Expr) → List Expr
  | [] => []
  | (_, e) :: es => e.subs ++ subsKVs es
def subsCases : List MatchCase → List Expr
  | [] => []
  | (.mk pats body) :: cs => subsEs pats ++ body.subs ++ subsCases cs
def Stmt.subs : Stmt → List Expr
  | .block _ body => subsSs body
  | .print _ args => subsEs args
  | .expr e => e.subs
  | .ret none => []
  | .ret (some e) => e.subs
  | .brk _ => []
  | .cont _ => []
  | .next _ => []
  | .exit _ => []
  | .if_ c b none => c.subs ++ b.subs
  | .if_ c b (some e) => c.subs ++ b.subs ++ e.subs
  | .while_ c b => c.subs ++ b.subs
  | .for_ pre c post b => pre.subs ++ c.subs ++ post.subs ++ b.subs
  | .forIn _ _ iter b => iter.subs ++ b.subs
def subsSs : List Stmt → List Expr
  | [] => []
  | s :: ss => s.subs ++ subsSs ss
end

def Rule.subs (r : Rule) : List Expr :=
  r.body.subs ++ (match r.pattern with | none => [] | some e => e.subs)

/-- every expression node occurring anywhere in the program (rule patterns, rule bodies,
    function bodies, at any depth) -/
def Program.subExprs (p : Program) : List Expr :=
  p.rules.flatMap Rule.subs ++ p.functions.flatMap (fun f => f.body.subs)

end Jqawk
