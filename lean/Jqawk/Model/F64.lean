/- TEMPORARY STUB (Lean Float based) — to be replaced by the exact Nat/Int implementation. -/
import Jqawk.Model.Bytes

namespace Jqawk

structure F64 where
  bits : UInt64
  deriving DecidableEq, Repr, Inhabited

namespace F64
def ofBits (b : UInt64) : F64 := ⟨b⟩
def toF (x : F64) : Float := Float.ofBits x.bits
def ofF (f : Float) : F64 := ⟨f.toBits⟩
def isNaN (x : F64) : Bool := x.toF.isNaN
def isInf (x : F64) : Bool := x.toF.isInf
def isZero (x : F64) : Bool := x.toF == 0.0
def signBit (x : F64) : Bool := (x.bits >>> 63) != 0
def nan : F64 := ⟨0x7FF8000000000001⟩
def zero : F64 := ⟨0⟩
def one : F64 := ofF 1.0
def neg (x : F64) : F64 := ⟨x.bits ^^^ 0x8000000000000000⟩
def add (x y : F64) : F64 := ofF (x.toF + y.toF)
def sub (x y : F64) : F64 := ofF (x.toF - y.toF)
def mul (x y : F64) : F64 := ofF (x.toF * y.toF)
def div (x y : F64) : F64 := ofF (x.toF / y.toF)
def lt (x y : F64) : Bool := x.toF < y.toF
def le (x y : F64) : Bool := x.toF ≤ y.toF
def eq (x y : F64) : Bool := x.toF == y.toF
def ofInt (n : Int) : F64 := ofF (Float.ofInt n)
def ofNat (n : Nat) : F64 := ofF (Float.ofNat n)
def toGoInt (x : F64) : Int :=
  let f := x.toF
  if f.isNaN || f.isInf || f ≥ 9223372036854775808.0 || f < -9223372036854775808.0 then -9223372036854775808
  else f.toInt64.toInt
def floor (x : F64) : F64 := ofF x.toF.floor
def ceil (x : F64) : F64 := ofF x.toF.ceil
def round (x : F64) : F64 := ofF x.toF.round
def format (x : F64) : Bytes :=
  -- stub: integers only
  let f := x.toF
  if f == f.floor && f.abs < 1e15 then
    let n := f.toInt64.toInt
    (if n < 0 then [45] else []) ++ natToBytes n.natAbs
  else (toString f).toUTF8.toList
inductive ParseRes | ok (x : F64) | range | syntax
def parseFull (s : Bytes) : ParseRes :=
  -- stub: digits(.digits)?
  let rec go : Bytes → Nat → Option Nat
    | [], acc => some acc
    | c :: cs, acc => if isDigitB c then go cs (acc * 10 + (c.toNat - 48)) else none
  match s with
  | [] => .syntax
  | _ =>
    let (neg, s) := match s with | 45 :: r => (true, r) | _ => (false, s)
    let ip := s.takeWhile isDigitB
    let rest := s.drop ip.length
    match rest with
    | [] => match go ip 0 with
      | some n => if ip.isEmpty then .syntax else .ok (let v := ofNat n; if neg then v.neg else v)
      | none => .syntax
    | 46 :: fs =>
      match go ip 0, go fs 0 with
      | some a, some b =>
        let v := ofF (Float.ofNat a + Float.ofNat b / Float.ofNat (10 ^ fs.length))
        .ok (if neg then v.neg else v)
      | _, _ => .syntax
    | _ => .syntax
def parse (s : Bytes) : Option F64 := match parseFull s with | .ok x => some x | _ => none
def jsonFormat (x : F64) : Option Bytes := if x.isNaN || x.isInf then none else some (format x)
end F64
end Jqawk
