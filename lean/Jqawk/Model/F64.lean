import Jqawk.Model.Bytes
/-
  IEEE-754 binary64 arithmetic and Go's strconv float formatting / parsing, defined with exact
  Nat/Int arithmetic on the bit pattern only (no `Float`), so every definition reduces in the kernel.
  Differentially tested against go1.23 (see Main.lean, gen/main.go, run_tests.sh).
  The only known difference from Go is documented at `goParseExact` (a Go bug for > 800-digit integers).
-/

namespace Jqawk

structure F64 where
  bits : UInt64
  deriving DecidableEq, Repr, Inhabited

namespace F64

def ofBits (b : UInt64) : F64 := ⟨b⟩

/-! ## Bit-level view: sign (1) | biased exponent (11) | fraction (52) -/

def raw (x : F64) : Nat := x.bits.toNat
/-- the bit pattern without the sign bit; it orders non-NaN magnitudes -/
def mag (x : F64) : Nat := x.raw % 2^63
def expBits (x : F64) : Nat := x.mag / 2^52
def fracBits (x : F64) : Nat := x.raw % 2^52
def signBit (x : F64) : Bool := decide (x.raw ≥ 2^63)
/-- magnitude bits of +Inf -/
def infMag : Nat := 0x7FF0000000000000
def isNaN (x : F64) : Bool := decide (x.mag > infMag)
def isInf (x : F64) : Bool := x.mag == infMag
def isZero (x : F64) : Bool := x.mag == 0
def ofMag (neg : Bool) (m : Nat) : F64 := ⟨UInt64.ofNat (if neg then 2^63 + m else m)⟩
def nan : F64 := ⟨0x7FF8000000000001⟩
def zero : F64 := ⟨0⟩
def one : F64 := ⟨0x3FF0000000000000⟩
def inf (neg : Bool) : F64 := ofMag neg infMag
def neg (x : F64) : F64 := ofMag (!x.signBit) x.mag
/-- for finite `x`: |x| = mant · 2^exp -/
def mant (x : F64) : Nat := if x.expBits == 0 then x.fracBits else x.fracBits + 2^52
def exp (x : F64) : Int := if x.expBits == 0 then -1074 else (x.expBits : Int) - 1075

/-! ## Correct rounding of an exact rational to binary64 -/

/-- the fraction num/den · 2^k -/
def scale2 (num den : Nat) (k : Int) : Nat × Nat :=
  if k ≥ 0 then (num * 2^k.toNat, den) else (num, den * 2^(-k).toNat)

/-- n/d rounded to the nearest integer, ties to even -/
def rne (n d : Nat) : Nat :=
  let q := n / d
  let r := n % d
  if 2 * r > d || (2 * r == d && q % 2 == 1) then q + 1 else q

/-- Magnitude bits of the double nearest (ties to even) to num/den · 2^exp2 (den > 0).
    Handles subnormals; overflow gives `infMag`. -/
def roundMag (num den : Nat) (exp2 : Int) : Nat :=
  if num == 0 then 0 else
  let e0 : Int := (num.log2 : Int) - den.log2 + exp2        -- 2^(e0-1) < value < 2^(e0+1)
  if e0 > 1025 then infMag else if e0 < -1077 then 0 else
  let (n, d) := scale2 num den (exp2 - e0)
  let e := if n ≥ d then e0 else e0 - 1                       -- 2^e ≤ value < 2^(e+1)
  let q := max (e - 52) (-1074)                               -- exponent of the unit in the last place
  let (n, d) := scale2 num den (exp2 - q)
  -- m = rne n d ≤ 2^53; a carry into bit 52/53 moves into the exponent field by itself
  min infMag ((q + 1074).toNat * 2^52 + rne n d)

def ofRat (neg : Bool) (num den : Nat) (exp2 : Int) : F64 := ofMag neg (roundMag num den exp2)

/-! ## Arithmetic (round to nearest even), comparisons, conversions -/

def add (x y : F64) : F64 :=
  if x.isNaN || y.isNaN then nan
  else if x.isInf then (if y.isInf && x.signBit != y.signBit then nan else x)
  else if y.isInf then y
  else
    let e := min x.exp y.exp
    let signed (z : F64) : Int :=
      let m : Int := (z.mant * 2^(z.exp - e).toNat : Nat)
      if z.signBit then -m else m
    let s := signed x + signed y
    if s == 0 then ofMag (x.signBit && y.signBit) 0             -- exact zero sum is +0 unless (-0)+(-0)
    else ofRat (decide (s < 0)) s.natAbs 1 e

def sub (x y : F64) : F64 := add x (neg y)

def mul (x y : F64) : F64 :=
  let s := x.signBit != y.signBit
  if x.isNaN || y.isNaN then nan
  else if x.isInf || y.isInf then (if x.isZero || y.isZero then nan else inf s)
  else ofRat s (x.mant * y.mant) 1 (x.exp + y.exp)

def div (x y : F64) : F64 :=
  let s := x.signBit != y.signBit
  if x.isNaN || y.isNaN then nan
  else if x.isInf then (if y.isInf then nan else inf s)
  else if y.isInf then ofMag s 0
  else if y.isZero then (if x.isZero then nan else inf s)
  else ofRat s x.mant y.mant (x.exp - y.exp)

/-- order-preserving integer key of a non-NaN value (both zeros map to 0) -/
def key (x : F64) : Int := if x.signBit then -(x.mag : Int) else x.mag
def lt (x y : F64) : Bool := !(x.isNaN || y.isNaN) && decide (x.key < y.key)
def le (x y : F64) : Bool := !(x.isNaN || y.isNaN) && decide (x.key ≤ y.key)
def eq (x y : F64) : Bool := !(x.isNaN || y.isNaN) && x.key == y.key

def ofNat (n : Nat) : F64 := ofRat false n 1 0
def ofInt (n : Int) : F64 := ofRat (decide (n < 0)) n.natAbs 1 0

/-- Go `int(x)` on amd64 (CVTTSD2SQ): truncate; NaN, ±Inf and out-of-range give -2^63 -/
def toGoInt (x : F64) : Int :=
  let lim : Int := (2^63 : Nat)
  if x.isNaN || x.isInf then -lim else
  let (n, d) := scale2 x.mant 1 x.exp
  let t : Int := if x.signBit then -((n / d : Nat) : Int) else (n / d : Nat)
  if -lim ≤ t && t < lim then t else -lim

/-- rounds |x| = i + r/d (0 ≤ r < d) to the integer chosen by `pick`, keeping the sign bit -/
def roundWith (pick : (i r d : Nat) → Nat) (x : F64) : F64 :=
  if x.isNaN || x.isInf || x.exp ≥ 0 then x else
  let d := 2^(-x.exp).toNat
  ofRat x.signBit (pick (x.mant / d) (x.mant % d) d) 1 0

/-- math.Floor / math.Ceil / math.Round (half away from zero); ±0, ±Inf, NaN unchanged -/
def floor (x : F64) : F64 := roundWith (fun i r _ => if x.signBit && r != 0 then i + 1 else i) x
def ceil (x : F64) : F64 := roundWith (fun i r _ => if !x.signBit && r != 0 then i + 1 else i) x
def round (x : F64) : F64 := roundWith (fun i r d => if 2 * r ≥ d then i + 1 else i) x

/-! ## Shortest decimal digits: strconv/decimal.go and `roundShortest` of strconv/ftoa.go -/

/-- decimal digits of n, most significant first (`[0]` for 0) -/
def digits (n : Nat) : List Nat :=
  let rec go : Nat → Nat → List Nat → List Nat
    | 0, _, acc => acc
    | f+1, n, acc => if n < 10 then n :: acc else go f (n / 10) (n % 10 :: acc)
  go (n.log2 + 1) n []

/-- strconv `decimal`: value = 0.d₀d₁d₂… × 10^dp -/
structure Dec where
  d  : Array Nat
  dp : Int

/-- exact decimal expansion of mant · 2^exp (`decimal.Assign` + `Shift`) -/
def decOf (mant : Nat) (exp : Int) : Dec :=
  if exp ≥ 0 then
    let ds := digits (mant * 2 ^ exp.toNat)
    { d := ds.toArray, dp := ds.length }
  else
    let k := (-exp).toNat
    let ds := digits (mant * 5 ^ k)                      -- mant / 2^k = mant · 5^k / 10^k
    { d := ds.toArray, dp := (ds.length : Int) - k }

/-- strconv `trim`: drop trailing zeros -/
def Dec.trim (a : Dec) : Dec :=
  let rec go (d : Array Nat) : Nat → Array Nat
    | 0 => d
    | f+1 => if d.size > 0 && d.back! == 0 then go d.pop f else d
  let d := go a.d a.d.size
  if d.size == 0 then { d := d, dp := 0 } else { d := d, dp := a.dp }

/-- strconv `shouldRoundUp` (the decimals here are never truncated) -/
def shouldRoundUp (a : Dec) (nd : Nat) : Bool :=
  if nd ≥ a.d.size then false
  else if a.d[nd]! == 5 && nd + 1 == a.d.size then nd > 0 && a.d[nd-1]! % 2 != 0   -- halfway: to even
  else a.d[nd]! ≥ 5

/-- strconv `decimal.RoundDown` -/
def roundDown (a : Dec) (nd : Nat) : Dec :=
  if nd ≥ a.d.size then a else Dec.trim { a with d := a.d.extract 0 nd }

/-- strconv `decimal.RoundUp` -/
def roundUp (a : Dec) (nd : Nat) : Dec :=
  if nd ≥ a.d.size then a else
  let rec go (d : Array Nat) : Nat → Option (Array Nat)
    | 0 => none
    | j+1 => if d[j]! < 9 then some ((d.extract 0 (j+1)).set! j (d[j]! + 1)) else go d j
  match go a.d nd with
  | some d => { d := d, dp := a.dp }
  | none => { d := #[1], dp := a.dp + 1 }                -- 99…9 rounds up to 1 × 10^(dp+1)

/-- strconv `decimal.Round` -/
def roundDec (a : Dec) (nd : Nat) : Dec :=
  if nd ≥ a.d.size then a else if shouldRoundUp a nd then roundUp a nd else roundDown a nd

/-- strconv `roundShortest`: `d` is the exact decimal of mant · 2^exp; shorten it to the fewest
    digits that still lie strictly (or inclusively, for even mant) between the neighbours' midpoints -/
def roundShortest (d : Dec) (mant : Nat) (exp : Int) : Dec :=
  if mant == 0 then { d := #[], dp := 0 } else
  let upper := Dec.trim (decOf (mant * 2 + 1) (exp - 1))
  let (mantlo, explo) :=
    if mant > 2^52 || exp == -1074 then (mant - 1, exp) else (mant * 2 - 1, exp - 1)
  let lower := Dec.trim (decOf (mantlo * 2 + 1) (explo - 1))
  let inclusive := mant % 2 == 0
  let rec loop (ui : Nat) (upperdelta : Nat) : Nat → Dec
    | 0 => d
    | fuel+1 =>
      let mi : Int := (ui : Int) - upper.dp + d.dp
      if mi ≥ (d.d.size : Int) then d else
      let li : Int := (ui : Int) - upper.dp + lower.dp
      let l := if li ≥ 0 && li < lower.d.size then lower.d[li.toNat]! else 0
      let m := if mi ≥ 0 then d.d[mi.toNat]! else 0
      let u := if ui < upper.d.size then upper.d[ui]! else 0
      let upperdelta :=
        if upperdelta == 0 && m + 1 < u then 2
        else if upperdelta == 0 && m != u then 1
        else if upperdelta == 1 && (m != 9 || u != 0) then 2
        else upperdelta
      let okdown := l != m || (inclusive && li + 1 == (lower.d.size : Int))
      let okup := upperdelta > 0 && (inclusive || upperdelta > 1 || ui + 1 < upper.d.size)
      if okdown && okup then roundDec d (mi + 1).toNat
      else if okdown then roundDown d (mi + 1).toNat
      else if okup then roundUp d (mi + 1).toNat
      else loop (ui + 1) upperdelta fuel
  loop 0 0 800

/-- shortest round-tripping digits of a finite x (sign ignored) -/
def shortest (x : F64) : Dec := roundShortest (Dec.trim (decOf x.mant x.exp)) x.mant x.exp

/-! ## strconv.FormatFloat -/

def ascii (s : List Char) : Bytes := s.map (fun c => c.toNat.toUInt8)
def digitBytes (ds : List Nat) : Bytes := ds.map (fun n => (n + 48).toUInt8)

/-- strconv `fmtF` (%f) with shortest precision: ddd.ddd -/
def fmtF (a : Dec) : Bytes :=
  let ds := digitBytes a.d.toList
  if a.dp > 0 then
    let ip := a.dp.toNat
    ds.take ip ++ List.replicate (ip - ds.length) 48 ++ (if ds.length > ip then 46 :: ds.drop ip else [])
  else if ds.isEmpty then [48]
  else [48, 46] ++ List.replicate (-a.dp).toNat 48 ++ ds

/-- strconv `fmtE` (%e) with shortest precision: d.ddde±dd -/
def fmtE (a : Dec) : Bytes :=
  let e : Int := if a.d.size == 0 then 0 else a.dp - 1
  let n := e.natAbs
  let expDigits := if n < 10 then [0, n] else if n < 100 then [n / 10, n % 10] else [n / 100, n / 10 % 10, n % 10]
  (match digitBytes a.d.toList with
   | [] => [48]
   | [d] => [d]
   | d :: rest => d :: 46 :: rest)
  ++ [101, if e < 0 then 45 else 43] ++ digitBytes expDigits

def signPrefix (x : F64) : Bytes := if x.signBit then [45] else []

/-- strconv.FormatFloat(x, 'f', -1, 64) -/
def format (x : F64) : Bytes :=
  if x.isNaN then ascii ['N', 'a', 'N']
  else if x.isInf then ascii [if x.signBit then '-' else '+', 'I', 'n', 'f']
  else signPrefix x ++ fmtF (shortest x)

/-- encoding/json `floatEncoder.encode` for float64 -/
def jsonFormat (x : F64) : Option Bytes :=
  if x.isNaN || x.isInf then none else
  let abs := ofMag false x.mag
  -- abs != 0 && (abs < 1e-6 || abs >= 1e21)
  if !x.isZero && (lt abs ⟨0x3EB0C6F7A0B5ED8D⟩ || le ⟨0x444B1AE4D6E2EF50⟩ abs) then
    let b := signPrefix x ++ fmtE (shortest x)
    match b.reverse with                                    -- clean up e-09 to e-9
    | l :: 48 :: 45 :: 101 :: rest => some (l :: 45 :: 101 :: rest).reverse
    | _ => some b
  else some (format x)

/-! ## strconv.ParseFloat (strconv/atof.go), on character codes -/

inductive ParseRes
  | ok (x : F64)
  | range
  | syntax
  deriving DecidableEq, Repr

/-- character code -/
abbrev ch (c : Char) : Nat := c.toNat
/-- strconv `lower`: ASCII lower-casing by setting bit 5 -/
def lower (c : Nat) : Nat := c ||| 32
def isDigit (c : Nat) : Bool := ch '0' ≤ c && c ≤ ch '9'
def isHexLetter (c : Nat) : Bool := ch 'a' ≤ lower c && lower c ≤ ch 'f'

/-- strconv `commonPrefixLenIgnoreCase` -/
def commonPrefixLenIgnoreCase : List Nat → List Char → Nat
  | c :: cs, p :: ps =>
    let c := if ch 'A' ≤ c && c ≤ ch 'Z' then c + 32 else c
    if c == ch p then commonPrefixLenIgnoreCase cs ps + 1 else 0
  | _, _ => 0

/-- strconv `special`: (value, length of the matched prefix) for inf / infinity / nan -/
def special (s : List Nat) : Option (F64 × Nat) :=
  let infinity (t : List Nat) (neg : Bool) (nsign : Nat) : Option (F64 × Nat) :=
    let n := commonPrefixLenIgnoreCase t ['i', 'n', 'f', 'i', 'n', 'i', 't', 'y']
    let n := if 3 < n && n < 8 then 3 else n
    if n == 3 || n == 8 then some (inf neg, nsign + n) else none
  match s with
  | [] => none
  | c :: cs =>
    if c == ch '+' || c == ch '-' then infinity cs (c == ch '-') 1   -- a sign is never followed by nan
    else if c == ch 'i' || c == ch 'I' then infinity s false 0
    else if (c == ch 'n' || c == ch 'N') && commonPrefixLenIgnoreCase s ['n', 'a', 'n'] == 3 then some (nan, 3)
    else none

/-- strconv `underscoreOK`: underscores only between digits or after the base prefix -/
def underscoreOK (s : List Nat) : Bool :=
  let s := match s with
    | c :: cs => if c == ch '-' || c == ch '+' then cs else s
    | [] => s
  let rec go (hex : Bool) : List Nat → Nat → Bool       -- second argument: class of the last char seen
    | [], saw => saw != ch '_'
    | c :: cs, saw =>
      if isDigit c || (hex && isHexLetter c) then go hex cs (ch '0')
      else if c == ch '_' then (if saw != ch '0' then false else go hex cs (ch '_'))
      else if saw == ch '_' then false
      else go hex cs (ch '!')
  match s with
  | 48 :: c :: cs =>
    if lower c == ch 'b' || lower c == ch 'o' || lower c == ch 'x' then go (lower c == ch 'x') cs (ch '0')
    else go false s (ch '^')
  | _ => go false s (ch '^')

/-- state of the mantissa loop of strconv `readFloat` (all digits are kept: no truncation) -/
structure Mant where
  mant : Nat := 0            -- the digits after the leading zeros, as an integer
  nd : Nat := 0              -- how many of them
  dp : Int := 0              -- position of the point relative to the first of them
  sawdot : Bool := false
  sawdigits : Bool := false
  underscores : Bool := false

def digitVal (base c : Nat) : Option Nat :=
  if isDigit c then some (c - 48)
  else if base == 16 && isHexLetter c then some (lower c - 87)
  else none

/-- mantissa loop of `readFloat`; returns the unread rest -/
def readDigits (base : Nat) : List Nat → Mant → Mant × List Nat
  | [], m => (m, [])
  | c :: cs, m =>
    if c == ch '_' then readDigits base cs { m with underscores := true }
    else if c == ch '.' then
      if m.sawdot then (m, c :: cs) else readDigits base cs { m with sawdot := true, dp := m.nd }
    else match digitVal base c with
      | none => (m, c :: cs)
      | some v =>
        if v == 0 && m.nd == 0 then                           -- ignore leading zeros
          readDigits base cs { m with sawdigits := true, dp := m.dp - 1 }
        else readDigits base cs { m with sawdigits := true, nd := m.nd + 1, mant := m.mant * base + v }

/-- exponent digit loop of `readFloat`; like Go it stops accumulating once e ≥ 10000 -/
def readExpDigits : List Nat → Nat → Bool → Nat × Bool × List Nat
  | [], e, us => (e, us, [])
  | c :: cs, e, us =>
    if c == ch '_' then readExpDigits cs e true
    else if isDigit c then readExpDigits cs (if e < 10000 then e * 10 + (c - 48) else e) us
    else (e, us, c :: cs)

/-- after 'e' / 'p': optional sign and at least one digit; gives (exponent, saw '_', rest) -/
def readExp (s : List Nat) : Option (Int × Bool × List Nat) :=
  let (neg, s) := match s with
    | c :: cs => if c == ch '+' then (false, cs) else if c == ch '-' then (true, cs) else (false, s)
    | [] => (false, s)
  match s with
  | c :: _ =>
    if isDigit c then
      let (e, us, rest) := readExpDigits s 0 false
      some (if neg then -(e : Int) else e, us, rest)
    else none
  | [] => none

/-- what strconv `readFloat` extracts from a well-formed number: ±0.d₀d₁… × base^dp × (2 or 10)^e -/
structure Scan where
  neg : Bool
  hex : Bool
  mant : Nat                 -- all nd significant digits as an integer
  nd : Nat
  dp : Int
  e : Int

/-- strconv `readFloat` applied to the whole string; `none` = syntax error -/
def readFloat (s : List Nat) : Option Scan :=
  let (neg, t) := match s with
    | c :: cs => if c == ch '+' then (false, cs) else if c == ch '-' then (true, cs) else (false, s)
    | [] => (false, s)
  let (hex, t) := match t with
    | 48 :: x :: c :: cs => if lower x == ch 'x' then (true, c :: cs) else (false, t)
    | _ => (false, t)
  let (m, t) := readDigits (if hex then 16 else 10) t {}
  if !m.sawdigits then none else
  let exponent : Option (Int × Bool × List Nat) :=
    match t with
    | c :: cs =>
      if lower c == (if hex then ch 'p' else ch 'e') then readExp cs
      else if hex then none else some (0, false, t)          -- a hex float must have an exponent
    | [] => if hex then none else some (0, false, [])
  match exponent with
  | none => none
  | some (e, us, rest) =>
    -- ParseFloat: anything left unread is a syntax error
    if !rest.isEmpty || ((m.underscores || us) && !underscoreOK s) then none
    else some { neg, hex, mant := m.mant, nd := m.nd, dp := if m.sawdot then m.dp else m.nd, e }

/-- magnitude bits of the correctly rounded value: what `atofHex` / `decimal.floatBits` and Go's
    fast paths (`atof64exact`, Eisel-Lemire) compute, done here with exact arithmetic -/
def Scan.mag (sc : Scan) : Nat :=
  if sc.hex then roundMag sc.mant 1 (4 * (sc.dp - sc.nd) + sc.e)   -- mant · 16^(dp-nd) · 2^e
  else
    let dp := sc.dp + sc.e
    if sc.mant == 0 then 0
    else if dp > 310 then infMag                               -- `floatBits`: obvious overflow
    else if dp < -330 then 0                                   -- obvious underflow
    else
      let p := dp - sc.nd                                      -- value = mant · 10^p = mant · 5^p · 2^p
      if p ≥ 0 then roundMag (sc.mant * 5^p.toNat) 1 p else roundMag sc.mant (5^(-p).toNat) p

/-- strconv.ParseFloat(s, 64) -/
def parseFull (s : Bytes) : ParseRes :=
  let s := s.map UInt8.toNat
  match special s with
  | some (v, n) => if n == s.length then .ok v else .syntax
  | none =>
    match readFloat s with
    | none => .syntax
    | some sc => if sc.mag ≥ infMag then .range else .ok (ofMag sc.neg sc.mag)

/-- KNOWN DEVIATION FROM GO.  `parseFull` is correctly rounded for every input.  Go is not when a decimal
    has more than 800 significant digits before the point (or no point): if its fast paths fail,
    `decimal.set` caps the digit count *and with it the point position* at 800, so the result is off
    by a power of ten.  `parseFull s` equals strconv.ParseFloat whenever `goParseExact s` holds. -/
def goParseExact (s : Bytes) : Bool :=
  match readFloat (s.map UInt8.toNat) with
  | some sc => sc.hex || sc.dp ≤ 800
  | none => true

def parse (s : Bytes) : Option F64 :=
  match parseFull s with
  | .ok x => some x
  | _ => none

end F64

/-! ## Kernel-checked sanity examples (every definition above reduces by `decide`) -/
section Examples
open F64

example : add one one = ofNat 2 := by decide
example : div one (ofNat 3) = ⟨0x3FD5555555555555⟩ := by decide +kernel
example : add ⟨0x3FB999999999999A⟩ ⟨0x3FC999999999999A⟩ = ⟨0x3FD3333333333334⟩ := by decide +kernel      -- 0.1 + 0.2
example : sub one one = zero ∧ add (neg zero) (neg zero) = neg zero ∧ add (neg zero) zero = zero := by decide +kernel
example : (mul (inf false) zero).isNaN ∧ div one zero = inf false ∧ div (neg one) zero = inf true
    ∧ (div zero zero).isNaN ∧ (sub (inf true) (inf true)).isNaN := by decide +kernel
example : lt (neg zero) zero = false ∧ eq (neg zero) zero ∧ eq nan nan = false ∧ le one (ofNat 2) := by decide +kernel
example : ofInt (2^53 + 1) = ofInt (2^53) ∧ ofInt (-(2^53 + 3)) = ofInt (-(2^53 + 4)) := by decide +kernel
example : toGoInt (ofInt (-7)) = -7 ∧ toGoInt nan = -2^63 ∧ toGoInt (ofNat (2^63)) = -2^63
    ∧ toGoInt ⟨0xC00C000000000000⟩ = -3 := by decide +kernel                                               -- int(-3.5)
example : floor ⟨0xBFE0000000000000⟩ = neg one ∧ ceil ⟨0xBFE0000000000000⟩ = neg zero
    ∧ round ⟨0xBFE0000000000000⟩ = neg one := by decide +kernel                                            -- -0.5
example : format (ofNat 2) = ascii ['2'] ∧ format (neg zero) = ascii ['-', '0']
    ∧ format nan = ascii ['N', 'a', 'N'] := by decide +kernel
example : format ⟨0x3FB999999999999A⟩ = ascii ['0', '.', '1'] := by decide
example : format ⟨0x3FD3333333333334⟩ = ascii "0.30000000000000004".toList := by decide +kernel
example : format (ofNat (2^53 + 2)) = ascii "9007199254740994".toList := by decide +kernel
example : parse (ascii ['0', '.', '1']) = some ⟨0x3FB999999999999A⟩ := by decide +kernel
example : parseFull (ascii "1.7976931348623157e308".toList) = .ok ⟨0x7FEFFFFFFFFFFFFF⟩
    ∧ parseFull (ascii "1e309".toList) = .range ∧ parseFull (ascii "2.4703282292062327e-324".toList) = .ok zero
    ∧ parseFull (ascii "0x1p-2".toList) = .ok ⟨0x3FD0000000000000⟩ := by decide +kernel
example : parseFull (ascii "1_0".toList) = .ok (ofNat 10) ∧ parseFull (ascii "+nan".toList) = .syntax
    ∧ parseFull (ascii "-INF".toList) = .ok (inf true) ∧ parseFull (ascii "0x1".toList) = .syntax
    ∧ parseFull (ascii " 1".toList) = .syntax := by decide +kernel
example : jsonFormat ⟨0x444B1AE4D6E2EF50⟩ = some (ascii "1e+21".toList)
    ∧ jsonFormat ⟨0x3E7AD7F29ABCAF48⟩ = some (ascii "1e-7".toList)
    ∧ jsonFormat ⟨0x3EB0C6F7A0B5ED8D⟩ = some (ascii "0.000001".toList) ∧ jsonFormat nan = none := by decide +kernel

end Examples

end Jqawk
