/-
  L3: native functions — builtins printf/json/num (src/runtime.go) and the prototype methods
  (src/prototypes.go).  `this` is the *current* value of the cell the method was looked up on.
-/
import Jqawk.Model.State
import Jqawk.Model.Render

namespace Jqawk

/-! ### string helpers (Go's `strings` package) -/

/-- `strings.Split(s, sep)` for non-empty `sep`: leftmost non-overlapping occurrences -/
def splitOnAux (sep : Bytes) : Nat → Bytes → Bytes → List Bytes
  | 0, _, cur => [cur.reverse]
  | _, [], cur => [cur.reverse]
  | fuel + 1, c :: cs, cur =>
    if Bytes.isPrefixOf sep (c :: cs) then
      cur.reverse :: splitOnAux sep fuel ((c :: cs).drop sep.length) []
    else splitOnAux sep fuel cs (c :: cur)

def splitOn (s sep : Bytes) : List Bytes := splitOnAux sep (s.length + 1) s []

/-- `strings.Split(s, "")`: the UTF-8 sequences of `s`, invalid bytes one by one (raw) -/
def explodeAux : Nat → Bytes → List Bytes
  | 0, _ => []
  | _, [] => []
  | fuel + 1, s@(_ :: _) =>
    let w := (utf8DecodeHead s).2
    s.take w :: explodeAux fuel (s.drop w)

def explode (s : Bytes) : List Bytes := explodeAux s.length s

def goSplit (s sep : Bytes) : List Bytes :=
  if sep.isEmpty then explode s else splitOn s sep

def isAsciiBytes (s : Bytes) : Bool := s.all (· < 0x80)
def upperAscii (s : Bytes) : Bytes := s.map fun c => if 97 ≤ c && c ≤ 122 then c - 32 else c
def lowerAscii (s : Bytes) : Bytes := s.map fun c => if 65 ≤ c && c ≤ 90 then c + 32 else c

/-! ### printf -/

def repeatByte (c : UInt8) (n : Nat) : Bytes := List.replicate n c

/-- pad a rendering to `width` (left for positive, right for negative), never truncating -/
def padTo (width : Int) (padChar : UInt8) (s : Bytes) : Bytes :=
  if width > 0 && (s.length : Int) < width then repeatByte padChar (width.toNat - s.length) ++ s
  else if width < 0 && (s.length : Int) < -width then s ++ repeatByte padChar ((-width).toNat - s.length)
  else s

def digitsToNat (ds : Bytes) : Nat := ds.foldl (fun acc c => acc * 10 + (c.toNat - 48)) 0

/-- `strconv.ParseInt(numStr, 10, 64)` on `-?[0-9]*` -/
def parseWidth (numStr : Bytes) : Option Int :=
  let (neg, ds) := match numStr with | 45 :: r => (true, r) | _ => (false, numStr)
  if ds.isEmpty then none else
  let n := digitsToNat ds
  if neg then (if n > 9223372036854775808 then none else some (-(n : Int)))
  else (if n > 9223372036854775807 then none else some (n : Int))

def widthLimit : Int := 65536

/-- `checkArg(args, index, tag)` by kind -/
def checkArg (args : List Val) (index : Nat) (k : Kind) : Except String Val :=
  match args[index]? with
  | none => .error "missing argument"
  | some v => if v.kind == k then .ok v else .error "wrong argument type"

/-- the directive loop of `nativePrintf`; `render` is `PrettyString(false)` (`none` = out of fuel) -/
def printfLoop (render : Val → Option Bytes) (args : List Val) :
    Nat → Bytes → Nat → Bytes → Option (Except String Bytes)
  | 0, _, _, _ => none
  | _, [], _, acc => some (.ok acc)
  | fuel + 1, b :: rest, argIndex, acc =>
    if b != 37 then printfLoop render args fuel rest argIndex (acc ++ [b]) else
    match rest with
    | [] => some (.error "expected something after %")
    | c :: _ =>
      -- optional width
      let (widthRes, padChar, rest') : Except String Int × UInt8 × Bytes :=
        if isDigitB c || c == 45 then
          let numStr := c :: (rest.drop 1).takeWhile isDigitB
          let after := rest.drop numStr.length
          match parseWidth numStr with
          | none => (.error "invalid width specifier", 32, after)
          | some w =>
            if w > widthLimit || w < -widthLimit then (.error "width specifier too large", 32, after)
            else (.ok w, (if c == 48 then 48 else 32), after)
        else (.ok 0, 32, rest)
      match widthRes with
      | .error m => some (.error m)
      | .ok width =>
        match rest' with
        | [] => some (.error "expected something after width specifier")
        | code :: rest'' =>
          if code == 37 then printfLoop render args fuel rest'' argIndex (acc ++ [37])
          else if code == 115 then
            match checkArg args argIndex .str with
            | .error m => some (.error m)
            | .ok v => printfLoop render args fuel rest'' (argIndex + 1) (acc ++ padTo width padChar v.str!)
          else if code == 102 then
            match checkArg args argIndex .num with
            | .error m => some (.error m)
            | .ok v => printfLoop render args fuel rest'' (argIndex + 1) (acc ++ padTo width padChar v.str!)
          else if code == 118 then
            match args[argIndex]? with
            | none => some (.error "missing argument")
            | some v =>
              match render v with
              | none => none
              | some r => printfLoop render args fuel rest'' (argIndex + 1) (acc ++ padTo width padChar r)
          else some (.error "unknown format code")

/-- what `printf(args…)` writes, or its error -/
def printfFormat (render : Val → Option Bytes) (args : List Val) : Option (Except String Bytes) :=
  match args with
  | [] => some (.error "printf requires at least one argument")
  | fmtVal :: _ =>
    match fmtVal with
    | .str fmt _ => printfLoop render args (fmt.length + 1) fmt 1 []
    | _ => some (.error "wrong argument type")

/-! ### sorting (`slices.SortStableFunc` with `cmp.Compare`) -/

/-- `cmp.Compare(x, y) ≤ 0` on floats: NaN sorts before everything, -0 = +0 -/
def f64Le (x y : F64) : Bool := x.isNaN || (!y.isNaN && F64.le x y)

/-! ### the natives -/

/-- result of a native: a Go `(*Value, error)`; `none` value = nil result (becomes null) -/
abbrev NativeRes := Except String (Option Val)

def checkArgCount (args : List Val) (n : Nat) : Except String Unit :=
  if args.length == n then .ok () else .error "expected n argument(s)"

/-- the scan of `contains`: agrees with `==` element by element (an unset value equals nothing) -/
def containsLoop (h : Heap) (v : Val) : List CellId → NativeRes
  | [] => .ok (some (.bool false))
  | c :: cs =>
    let item := h.get c
    if v.kind == .unknown || item.kind == .unknown then containsLoop h v cs else
    match v.compare item with
    | .error m => .error m
    | .ok r => if r == 0 then .ok (some (.bool true)) else containsLoop h v cs

/-- the key/value pairs `pluck` selects: own members only, null for absent keys -/
def pluckCollect (h : Heap) (members : List (Bytes × CellId)) :
    List Val → List (Bytes × Val) → Except String (List (Bytes × Val))
  | [], acc => .ok acc.reverse
  | k :: ks, acc =>
    match k with
    | .num _ | .str .. =>
      let key := k.str!
      match objLookup members key with
      | some c => pluckCollect h members ks ((key, h.get c) :: acc)
      | none => pluckCollect h members ks ((key, .nil none) :: acc)
    | _ => .error "objects can only be indexed with numbers or strings"

/-- `NewCell` for each value, in order -/
def allocCells : List Val → EM (List CellId)
  | [] => pure []
  | v :: vs => do
    let c ← newCell v
    let cs ← allocCells vs
    return c :: cs

/-- a new array value holding fresh cells with the given values -/
def newArrayOf (vs : List Val) : EM Val := do
  let cells ← allocCells vs
  let h ← getHeap
  let (na, h') := h.allocArr cells.toArray
  setHeap h'
  return .arr na

/-- `NativeFn(e, args, this)` -/
def callNative (f : Native) (args : List Val) (this : Option Val) : EM NativeRes := do
  let h ← getHeap
  match f with
  | .printf =>
    match printfFormat (prettyTop h) args with
    | none => oof
    | some (.error m) => return .error m
    | some (.ok out) => emit out; return .ok none
  | .json =>
    match checkArgCount args 1 with
    | .error m => return .error m
    | .ok () =>
      match toJValTop h (args.getD 0 .unknown) with
      | .oof => oof
      | .error m => return .error ("error creating JSON: " ++ m)
      | .ok j =>                      -- runtime.go:152-155: `json.MarshalIndent`'s own error, returned as it is
        return (if Json.tooDeep j then .error "exceeded max depth"
                else .ok (some (.str (Json.marshalIndent j) none)))
  | .num =>
    match checkArgCount args 1 with
    | .error m => return .error m
    | .ok () =>
      match args.getD 0 .unknown with
      | .num x => return .ok (some (.num (F64.ofInt x.toGoInt)))
      | .str s _ =>
        match F64.parse s with
        | some x => return .ok (some (.num x))
        | none => return .ok (some (.nil none))
      | _ => return .ok (some (.nil none))
  | .arrLength =>
    match this with
    | some (.arr a) => return .ok (some (.num (F64.ofNat (h.arr a).size)))
    | _ => return .ok (some (.num F64.zero))
  | .arrPush =>
    match this with
    | some (.arr a) =>
      match checkArgCount args 1 with
      | .error m => return .error m
      | .ok () =>
        let c ← newCell (args.getD 0 .unknown)
        let h ← getHeap
        setHeap (h.setArr a ((h.arr a).push c))
        return .ok (some (.arr a))
    | _ => return .ok none
  | .arrPop =>
    match this with
    | some (.arr a) =>
      match checkArgCount args 0 with
      | .error m => return .error m
      | .ok () =>
        let items := h.arr a
        if items.size == 0 then return .ok (some (.nil none)) else
        let v := h.get (items.getD (items.size - 1) 0)
        setHeap (h.setArr a items.pop)
        return .ok (some v)
    | _ => return .ok none
  | .arrPopfirst =>
    match this with
    | some (.arr a) =>
      match checkArgCount args 0 with
      | .error m => return .error m
      | .ok () =>
        let items := h.arr a
        if items.size == 0 then return .ok (some (.nil none)) else
        let v := h.get (items.getD 0 0)
        setHeap (h.setArr a (items.extract 1 items.size))
        return .ok (some v)
    | _ => return .ok none
  | .arrContains =>
    match this with
    | some (.arr a) =>
      match checkArgCount args 1 with
      | .error m => return .error m
      | .ok () =>
        let v := args.getD 0 .unknown
        return containsLoop h v (h.arr a).toList
    | _ => return .ok none
  | .arrSort =>
    match this with
    | some (.arr a) =>
      let items := (h.arr a).toList.map h.get
      let onlyNumbers := items.all fun v => v.kind == .num
      let copies := items.map fun v => match copyVal v with | .ok w => w | .error _ => Val.str [] none
      let sorted :=
        if onlyNumbers then copies.mergeSort (fun x y => f64Le x.asNum y.asNum)
        else copies.mergeSort (fun x y => Bytes.le x.str! y.str!)
      let r ← newArrayOf sorted
      return .ok (some r)
    | _ => return .ok none
  | .objLength =>
    match this with
    | some (.obj o) => return .ok (some (.num (F64.ofNat (h.obj o).length)))
    | _ => return .ok (some (.num F64.zero))
  | .objPluck =>
    match this with
    | some (.obj o) =>
      let members := h.obj o
      match pluckCollect h members args [] with
      | .error m => return .error m
      | .ok kvs =>
        let cells ← allocCells (kvs.map (·.2))
        let m := (kvs.map (·.1)).zip cells |>.foldl (fun m kc => objInsert m kc.1 kc.2) []
        let h ← getHeap
        let (no, h') := h.allocObj m
        setHeap h'
        return .ok (some (.obj no))
    | _ => return .ok none
  | .strLength =>
    match this with
    | some (.str s _) => return .ok (some (.num (F64.ofNat s.length)))
    | _ => return .ok (some (.num F64.zero))
  | .strSplit =>
    match this with
    | some (.str s _) =>
      match checkArg args 0 .str with
      | .error m => return .error m
      | .ok sep =>
        let r ← newArrayOf ((goSplit s sep.str!).map (Val.str · none))
        return .ok (some r)
    | _ =>
      let r ← newArrayOf []
      return .ok (some r)
  | .strLower =>
    match this with
    | some (.str s _) =>
      if isAsciiBytes s then return .ok (some (.str (lowerAscii s) none))
      else throwUnmodelled "lower() on non-ASCII text"
    | _ => return .ok (some (.num F64.zero))
  | .strUpper =>
    match this with
    | some (.str s _) =>
      if isAsciiBytes s then return .ok (some (.str (upperAscii s) none))
      else throwUnmodelled "upper() on non-ASCII text"
    | _ => return .ok (some (.num F64.zero))
  | .numFloor =>
    match this with
    | some (.num x) => return .ok (some (.num x.floor))
    | _ => return .ok (some (.nil none))
  | .numCeil =>
    match this with
    | some (.num x) => return .ok (some (.num x.ceil))
    | _ => return .ok (some (.nil none))
  | .numRound =>
    match this with
    | some (.num x) => return .ok (some (.num x.round))
    | _ => return .ok (some (.nil none))

end Jqawk
