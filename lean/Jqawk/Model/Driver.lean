/-
  L5: the rule driver (src/evaluator.go:47-96, 1040-1228): NewEvaluator, evalRules,
  evalPatternRules, EvalExpression, EvalProgram, GetRootJson.
-/
import Jqawk.Model.Eval
import Jqawk.Model.Parser

namespace Jqawk

mutual
/-- `NewValue(interface{})` for a decoded JSON value: allocate the cells of the tree -/
def newValueJson : JVal → EM Val
  | .null => pure (.nil none)
  | .bool b => pure (.bool b)
  | .num lit => pure (.num ((F64.parse lit).getD F64.zero))
  | .str s => pure (.str s none)
  | .arr items => do
    let cells ← newValueItems items
    let a ← allocArrM cells.toArray
    return .arr a
  | .obj members => do
    let cells ← newValueMembers members
    let o ← allocObjM (cells.foldl (fun m kc => objInsert m kc.1 kc.2) [])
    return .obj o
def newValueItems : List JVal → EM (List CellId)
  | [] => pure []
  | j :: js => do
    let v ← newValueJson j
    let c ← newCell v
    let cs ← newValueItems js
    return c :: cs
def newValueMembers : List (Bytes × JVal) → EM (List (Bytes × CellId))
  | [] => pure []
  | (k, j) :: ms => do
    let v ← newValueJson j
    let c ← newCell v
    let cs ← newValueMembers ms
    return (k, c) :: cs
end

/-- evaluation fuel: a bound on the recursion depth of one run, not on the claims -/
def evalFuel : Nat := 1000000

/-- the root frame of `NewEvaluator`: builtins, then the program's functions (later wins) -/
def initFrames (prog : Program) (h : Heap) : List Frame × Heap :=
  let add (st : List (Bytes × CellId) × Heap) (name : Bytes) (v : Val) :=
    let (c, h') := st.2.alloc v
    (objInsert st.1 name c, h')
  let s0 : List (Bytes × CellId) × Heap := ([], h)
  let s1 := add s0 b!"printf" (.native .printf none none)
  let s2 := add s1 b!"json" (.native .json none none)
  let s3 := add s2 b!"num" (.native .num none none)
  let s4 := prog.functions.zipIdx.foldl (fun st (f, i) => add st f.ident.text (.fn i)) s3
  ([⟨b!"<root>", s4.1⟩], s4.2)

/-- `NewEvaluator(prog, lexer, stdout)` on a given heap and output -/
def newEvaluator (prog : Program) (h : Heap) (out : List Bytes) (faults : Nat) : St :=
  let (frames, h') := initFrames prog h
  { heap := h', frames := frames, out := out, root := none, ruleRoot := none,
    returnVal := none, faults := faults }

def rulesOf (prog : Program) (k : RuleKind) : List Rule := prog.rules.filter (·.kind == k)

variable (prog : Program)

/-- `evalRules(rules)`: patterns, bodies, `next` ends the list for this element -/
def evalRules : List Rule → EM Unit
  | [] => pure ()
  | rule :: rest => do
    -- `some b` = truth value of the pattern; `none` = `next` was executed while evaluating it
    let isMatch? ← (match rule.pattern with
      | none => pure (some true)
      | some p => catchSig .next none (do
        let c ← evalExpr prog evalFuel p
        return some (← readCell c).truthy) : EM (Option Bool))
    match isMatch? with
    | none => pure ()
    | some isMatch =>
      if !isMatch then evalRules rest else
      -- `next` abandons the remaining rules for this element
      let more ← catchSig .next false (do evalStmt prog evalFuel rule.body; pure true)
      if more then evalRules rest else pure ()

/-- the per-element loop of `evalPatternRules` over the cells captured at entry -/
def evalElems (rules : List Rule) : List CellId → Nat → EM Unit
  | [], _ => pure ()
  | item :: rest, i => do
    modifySt fun s => { s with ruleRoot := some item }
    let ic ← newCell (.num (F64.ofNat i))
    setLocal b!"$index" ic
    evalRules prog rules
    evalElems rules rest (i + 1)

/-- `evalPatternRules(patternRules)` -/
def evalPatternRules (rules : List Rule) : EM Unit := do
  let s ← getSt
  match s.root with
  | none => pure ()
  | some root =>
    match s.heap.get root with
    | .arr a => evalElems prog rules (s.heap.arr a).toList 0
    | _ =>
      modifySt fun s => { s with ruleRoot := some root }
      evalRules prog rules

/-- outcome of running a list of BEGIN/END/BEGINFILE/ENDFILE rules -/
inductive Flow | continue_ | exit
  deriving DecidableEq

/-- how a BEGIN/END/BEGINFILE/ENDFILE rule body ends: `next` just finishes the rule
    (`evalSpecialRule`), `exit` ends the run, everything else propagates -/
def ruleFlow (m : EM Unit) : EM Flow := fun s =>
  match m s with
  | .ok () s' => .ok .continue_ s'
  | .err (.sig .next) s' => .ok .continue_ s'
  | .err (.sig .exit) s' => .ok .exit s'
  | .err e s' => .err e s'
  | .oof => .oof

/-- `exit` raised by the pattern rules ends the run successfully -/
def catchExit (m : EM Unit) : EM Flow := fun s =>
  match m s with
  | .ok () s' => .ok .continue_ s'
  | .err (.sig .exit) s' => .ok .exit s'
  | .err e s' => .err e s'
  | .oof => .oof

/-- the BEGIN / END / BEGINFILE / ENDFILE rule loops of `EvalProgram` -/
def evalSpecialRules (mkRoot : EM CellId) : List Rule → EM Flow
  | [] => pure .continue_
  | rule :: rest => do
    let c ← mkRoot
    modifySt fun s => { s with ruleRoot := some c }
    match (← ruleFlow (evalStmt prog evalFuel rule.body)) with
    | .exit => return .exit
    | .continue_ => evalSpecialRules mkRoot rest

/-! ### the whole run -/

/-- what a run reports (the three error kinds of the API, or the things that must never occur) -/
inductive Outcome
  | ok
  | syntaxErr (src : Bytes) (e : SynErr)     -- SyntaxError; `src` = the text it refers to
  | runtimeErr (src : Bytes) (pos : Nat) (msg : String)
  | jsonErr (file : Bytes)
  | sentinel (s : Sig)                        -- an internal signal surfaced (must not happen)
  | panic (msg : String)                      -- a Go panic (must not happen)
  | unmodelled (why : String)
  | oof

/-- how an input stream ends -/
structure InputFile where
  name : Bytes
  data : Bytes
  tail : Json.Tail := .eof      -- `.eof` or `.ioerr` (reader fails after `data`)

structure RunResult where
  outcome : Outcome
  out : Bytes
  st : Option St                -- final evaluator state when there is one (for `-o`)

/-- what the nested evaluator of a selector does: convert the decoded value, bind it to `$`,
    evaluate the expression, and hand out a cell of its own holding the selected value -/
def selectorRun (rootValue : JVal) (expr : Expr) : EM CellId := do
  let v ← newValueJson rootValue
  let rootCell ← newCell v
  modifySt fun st => { st with root := some rootCell, ruleRoot := some rootCell }
  let cell ← evalExpr Program.empty evalFuel expr
  -- a cell of its own holding the selected value, as `$ = expr` would store it
  let root ← newCell .unknown
  match (← copyValue cell root) with
  | .error m => throwRt expr.token.pos m
  | .ok c => pure c

/-- `EvalExpression(exprSrc, rootValue, stdout)`: a nested evaluator without the program's
    functions, on its own conversion of the decoded value, sharing heap and output. -/
def evalSelector (tbl : RuleTable) (sel : Bytes) (rootValue : JVal) (s : St) :
    (Outcome × St) ⊕ (Except Sig CellId × St) :=
  match parseExpressionSrc tbl sel with
  | .syntaxErr e => .inl (.syntaxErr sel e, s)
  | .oof => .inl (.oof, s)
  | .ok expr =>
    let s0 := newEvaluator Program.empty s.heap s.out s.faults
    let back (s1 : St) : St :=
      { s with heap := s1.heap, out := s1.out, faults := s1.faults, faultOut := s1.faultOut,
               maxDepth := max s.maxDepth s1.maxDepth }
    match selectorRun rootValue expr s0 with
    | .ok c s1 => .inr (.ok c, back s1)
    | .err (.sig .exit) s1 => .inr (.error .exit, back s1)
    | .err (.sig .next) s1 => .inr (.error .next, back s1)
    | .err (.sig g) s1 => .inl (.sentinel g, back s1)
    | .err (.runtime pos msg) s1 => .inl (.runtimeErr sel pos msg, back s1)
    | .err (.panic m) s1 => .inl (.panic m, back s1)
    | .err (.unmodelled w) s1 => .inl (.unmodelled w, back s1)
    | .oof => .inl (.oof, s)

/-- the result of evaluating all selectors of one value -/
inductive Roots
  | cells (cs : List CellId) (s : St)
  | exit (s : St)
  | stop (o : Outcome) (s : St)

def evalSelectors (tbl : RuleTable) (rootValue : JVal) : List Bytes → List CellId → St → Roots
  | [], acc, s => .cells acc.reverse s
  | sel :: rest, acc, s =>
    match evalSelector tbl sel rootValue s with
    | .inl (o, s') => .stop o s'
    | .inr (.ok c, s') => evalSelectors tbl rootValue rest (c :: acc) s'
    | .inr (.error .exit, s') => .exit s'
    | .inr (.error _, s') => evalSelectors tbl rootValue rest acc s'

/-- BEGINFILE rules, pattern rules, ENDFILE rules for one root cell -/
def processRoot (rootCell : CellId) : EM Flow := do
  let rootVal ← readCell rootCell
  match (← evalSpecialRules prog (pure rootCell) (rulesOf prog .beginFile)) with
  | .exit => return .exit
  | .continue_ =>
    modifySt fun s => { s with root := some rootCell }
    match (← catchExit (evalPatternRules prog (rulesOf prog .pattern))) with
    | .exit => return .exit
    | .continue_ => evalSpecialRules prog (newCell rootVal) (rulesOf prog .endFile)

def processRoots : List CellId → EM Flow
  | [] => pure .continue_
  | c :: rest => do
    match (← processRoot prog c) with
    | .exit => return .exit
    | .continue_ => processRoots rest

/-- is the number literal inside float64 range (`strconv.ParseFloat` without ErrRange)? -/
def numOk (lit : Bytes) : Bool :=
  match F64.parseFull lit with
  | .range => false
  | _ => true

inductive StepRes
  | done (s : St)                     -- run continues after this file
  | finished (o : Outcome) (s : St)   -- run over (exit, or an error)

def errOutcome (src : Bytes) : Err → Outcome
  | .runtime pos msg => .runtimeErr src pos msg
  | .sig g => .sentinel g
  | .panic m => .panic m
  | .unmodelled w => .unmodelled w

/-- the decode loop over one file (src/evaluator.go:1191-1264); fuel = bytes + 1 -/
def processFile (src : Bytes) (tbl : RuleTable) (sels : List Bytes) (file : InputFile) :
    Nat → Bytes → St → StepRes
  | 0, _, s => .finished .oof s
  | fuel + 1, data, s =>
    match Json.decodeOne numOk data file.tail with
    | .eof => .done s
    | .error | .needMore => .finished (.jsonErr file.name) s
    | .value v rest =>
      let setFile : EM Unit := do
        let c ← newCell (.str file.name none)
        setGlobal b!"$file" c
      match setFile s with
      | .err e s' => .finished (errOutcome src e) s'
      | .oof => .finished .oof s
      | .ok () s1 =>
        let roots : Roots :=
          if sels.isEmpty then
            match (do let val ← newValueJson v; newCell val : EM CellId) s1 with
            | .ok c s2 => .cells [c] s2
            | .err e s2 => .stop (errOutcome src e) s2
            | .oof => .stop .oof s1
          else evalSelectors tbl v sels [] s1
        match roots with
        | .stop o s2 => .finished o s2
        | .exit s2 => .finished .ok s2
        | .cells cs s2 =>
          match processRoots prog cs s2 with
          | .ok .exit s3 => .finished .ok s3
          | .ok .continue_ s3 => processFile src tbl sels file fuel rest s3
          | .err e s3 => .finished (errOutcome src e) s3
          | .oof => .finished .oof s2

def processFiles (src : Bytes) (tbl : RuleTable) (sels : List Bytes) : List InputFile → St → StepRes
  | [], s => .done s
  | f :: rest, s =>
    match processFile prog src tbl sels f (f.data.length + 2) f.data s with
    | .done s' => processFiles src tbl sels rest s'
    | .finished o s' => .finished o s'

/-- a run that ended with outcome `o` in state `s` -/
def finishRun (o : Outcome) (s : St) : RunResult := ⟨o, s.output, some s⟩

/-- the END rules, after all input -/
def runEnd (src : Bytes) (s2 : St) : RunResult :=
  match evalSpecialRules prog (newCell (.nil none)) (rulesOf prog .end_) s2 with
  | .err e s => finishRun (errOutcome src e) s
  | .oof => ⟨.oof, [], none⟩
  | .ok _ s => finishRun .ok s

/-- the input files, then the END rules unless the run is over -/
def runFiles (src : Bytes) (tbl : RuleTable) (sels : List Bytes) (files : List InputFile) (s1 : St) :
    RunResult :=
  match processFiles prog src tbl sels files s1 with
  | .finished o s => finishRun o s
  | .done s2 => runEnd prog src s2

/-- `EvalProgram(progSrc, files, rootSelectors, stdout, false)` after parsing: BEGIN rules, the
    input, END rules -/
def runProgram (src : Bytes) (tbl : RuleTable) (sels : List Bytes) (files : List InputFile) : RunResult :=
  match evalSpecialRules prog (newCell (.nil none)) (rulesOf prog .begin_)
      (newEvaluator prog Heap.empty [] 0) with
  | .err e s => finishRun (errOutcome src e) s
  | .oof => ⟨.oof, [], none⟩
  | .ok .exit s => finishRun .ok s
  | .ok .continue_ s1 => runFiles prog src tbl sels files s1

/-- `EvalProgram` -/
def evalProgram (tbl : RuleTable) (src : Bytes) (sels : List Bytes) (files : List InputFile) : RunResult :=
  match parseProgramSrc tbl src with
  | .syntaxErr e => ⟨.syntaxErr src e, [], none⟩
  | .oof => ⟨.oof, [], none⟩
  | .ok prog => runProgram prog src tbl sels files

/-- `GetRootJson()`: `none` = error ("no value to write", circular reference, nested deeper than
    `json.MarshalIndent` accepts, …) -/
def getRootJson (s : St) : Option Bytes :=
  match s.root with
  | none => none
  | some c =>
    match toJValTop s.heap (s.heap.get c) with
    | .ok j => if Json.tooDeep j then none else some (Json.marshalIndent j)   -- evaluator.go:1172-1175
    | _ => none

end Jqawk
