/-
  Syntactic scoping of the internal signals: may `break` / `continue` / `return` escape from a
  construct?  (What the parser's `inLoop` / `inFunction` flags enforce; used by C01/C07 and
  evaluated on every parsed program by the model driver, field `ws`.)
-/
import Jqawk.Model.State

namespace Jqawk

/-- signals other than next/exit: the ones the parser confines statically -/
def Sig.confined : Sig → Bool
  | .brk | .cont | .ret => true
  | _ => false

def Sig.loopSig : Sig → Bool
  | .brk | .cont => true
  | _ => false

mutual
/-- may signal `g` escape from evaluating this expression? (syntactic over-approximation) -/
def canE (g : Sig) : Expr → Bool
  | .lit _ => false
  | .ident _ => false
  | .arr _ items => canEs g items
  | .obj _ items => canKVs g items
  | .unary e _ _ => canE g e
  | .binary l r _ => canE g l || canE g r
  | .call f args => canE g f || canEs g args
  | .match_ _ v cases => canE g v || canCases g cases
def canEs (g : Sig) : List Expr → Bool
  | [] => false
  | e :: es => canE g e || canEs g es
def canKVs (g : Sig) : List (Bytes × Expr) → Bool
  | [] => false
  | (_, e) :: es => canE g e || canKVs g es
def canCases (g : Sig) : List MatchCase → Bool
  | [] => false
  | (.mk pats body) :: cs => canEs g pats || canS g body || canCases g cs
def canS (g : Sig) : Stmt → Bool
  | .block _ body => canSs g body
  | .print _ args => canEs g args
  | .expr e => canE g e
  | .ret none => g == .ret
  | .ret (some e) => g == .ret || canE g e
  | .brk _ => g == .brk
  | .cont _ => g == .cont
  | .next _ => g == .next
  | .exit _ => g == .exit
  | .if_ c b none => canE g c || canS g b
  | .if_ c b (some e) => canE g c || canS g b || canS g e
  | .while_ c b => canE g c || (!g.loopSig && canS g b)
  | .for_ pre c post b => canE g pre || canE g c || canE g post || (!g.loopSig && canS g b)
  | .forIn _ _ iter b => canE g iter || (!g.loopSig && canS g b)
def canSs (g : Sig) : List Stmt → Bool
  | [] => false
  | s :: ss => canS g s || canSs g ss
end

def confinedSigs : List Sig := [.brk, .cont, .ret]

/-- decidable form of `Program.WellScoped` (Lemmas/DriverSignals.lean) -/
def Program.wellScopedB (p : Program) : Bool :=
  p.functions.all (fun f => !canS .brk f.body && !canS .cont f.body) &&
  p.rules.all (fun r => confinedSigs.all (fun g =>
    !canS g r.body && (match r.pattern with | none => true | some e => !canE g e)))

/-- a selector expression confines break / continue / return -/
def Expr.scopedB (e : Expr) : Bool := confinedSigs.all (fun g => !canE g e)

end Jqawk
