/-
  L0: byte strings.  Go strings are byte sequences, so the model never uses Lean `String`
  for program text, JSON text or jqawk strings.
-/
namespace Jqawk

abbrev Bytes := List UInt8

open Lean in
/-- `b!"text"`: the UTF-8 bytes of a string literal, expanded at elaboration time to a plain
    list literal (so that it reduces in the kernel). -/
macro:max "b!" s:str : term => do
  let bytes := s.getString.toUTF8.toList
  let elems : Array (TSyntax `term) ← bytes.toArray.mapM fun b => `(($(quote b.toNat) : UInt8))
  `(([$elems,*] : List UInt8))

namespace Bytes

/-- The UTF-8 bytes of a Lean string (I/O shell only; constants use `b!"…"`). -/
def ofString (s : String) : Bytes := s.toUTF8.toList

/-- Lossy, for debugging output only. -/
def toStringLossy (b : Bytes) : String :=
  String.ofList (b.map fun c => Char.ofNat c.toNat)

def hexDigit (n : Nat) : UInt8 :=
  if n < 10 then (48 + n).toUInt8 else (87 + n).toUInt8

def toHex (b : Bytes) : Bytes :=
  b.flatMap fun c => [hexDigit (c.toNat / 16), hexDigit (c.toNat % 16)]

def hexVal (c : UInt8) : Option Nat :=
  if 48 ≤ c && c ≤ 57 then some (c.toNat - 48)
  else if 97 ≤ c && c ≤ 102 then some (c.toNat - 87)
  else if 65 ≤ c && c ≤ 70 then some (c.toNat - 55)
  else none

def ofHex : Bytes → Option Bytes
  | [] => some []
  | [_] => none
  | a :: b :: rest =>
    match hexVal a, hexVal b, ofHex rest with
    | some x, some y, some r => some ((x * 16 + y).toUInt8 :: r)
    | _, _, _ => none

/-- `strings.Compare` / Go's `<` on strings: bytewise lexicographic. -/
def cmp : Bytes → Bytes → Ordering
  | [], [] => .eq
  | [], _ :: _ => .lt
  | _ :: _, [] => .gt
  | a :: as, b :: bs => if a < b then .lt else if a > b then .gt else cmp as bs

def lt (a b : Bytes) : Bool := cmp a b == .lt
def le (a b : Bytes) : Bool := cmp a b != .gt

def isPrefixOf : Bytes → Bytes → Bool
  | [], _ => true
  | _ :: _, [] => false
  | a :: as, b :: bs => a == b && isPrefixOf as bs

end Bytes

/-- ASCII digit, as `unicode.IsDigit(rune(b))` for a byte (no other Latin-1 code point is Nd). -/
def isDigitB (c : UInt8) : Bool := 48 ≤ c && c ≤ 57

/-- `unicode.IsLetter(rune(b))` for a byte, i.e. for the Latin-1 code point with that number. -/
def isLetterB (c : UInt8) : Bool :=
  (65 ≤ c && c ≤ 90) || (97 ≤ c && c ≤ 122) ||
  c == 0xAA || c == 0xB5 || c == 0xBA ||
  (0xC0 ≤ c && c ≤ 0xD6) || (0xD8 ≤ c && c ≤ 0xF6) || (0xF8 ≤ c)

def isIdentB (c : UInt8) : Bool := c == 95 || isLetterB c || isDigitB c

/-- Decimal rendering of a natural number as bytes. -/
def natToBytes (n : Nat) : Bytes := (Nat.toDigits 10 n).map fun c => c.toNat.toUInt8

/-! ### UTF-8 as Go's `for range` over a string decodes it -/

/-- Encode a code point as UTF-8 (`string(rune)`); surrogates and out-of-range → U+FFFD. -/
def utf8Encode (r : Nat) : Bytes :=
  let r := if r > 0x10FFFF || (0xD800 ≤ r && r ≤ 0xDFFF) then 0xFFFD else r
  if r < 0x80 then [r.toUInt8]
  else if r < 0x800 then [(0xC0 + r / 64).toUInt8, (0x80 + r % 64).toUInt8]
  else if r < 0x10000 then
    [(0xE0 + r / 4096).toUInt8, (0x80 + (r / 64) % 64).toUInt8, (0x80 + r % 64).toUInt8]
  else
    [(0xF0 + r / 262144).toUInt8, (0x80 + (r / 4096) % 64).toUInt8,
     (0x80 + (r / 64) % 64).toUInt8, (0x80 + r % 64).toUInt8]

def isCont (c : UInt8) : Bool := 0x80 ≤ c && c ≤ 0xBF

/-- `utf8.DecodeRuneInString`: the code point at the head and its width in bytes; an invalid
    sequence yields (U+FFFD, 1).  The input must be non-empty for a meaningful result. -/
def utf8DecodeHead : Bytes → Nat × Nat
  | [] => (0xFFFD, 0)
  | b0 :: rest =>
    if b0 < 0x80 then (b0.toNat, 1)
    else if 0xC2 ≤ b0 && b0 ≤ 0xDF then
      match rest with
      | b1 :: _ => if isCont b1 then ((b0.toNat - 0xC0) * 64 + (b1.toNat - 0x80), 2) else (0xFFFD, 1)
      | _ => (0xFFFD, 1)
    else if 0xE0 ≤ b0 && b0 ≤ 0xEF then
      match rest with
      | b1 :: b2 :: _ =>
        let lo : UInt8 := if b0 == 0xE0 then 0xA0 else 0x80
        let hi : UInt8 := if b0 == 0xED then 0x9F else 0xBF
        if lo ≤ b1 && b1 ≤ hi && isCont b2 then
          ((b0.toNat - 0xE0) * 4096 + (b1.toNat - 0x80) * 64 + (b2.toNat - 0x80), 3)
        else (0xFFFD, 1)
      | _ => (0xFFFD, 1)
    else if 0xF0 ≤ b0 && b0 ≤ 0xF4 then
      match rest with
      | b1 :: b2 :: b3 :: _ =>
        let lo : UInt8 := if b0 == 0xF0 then 0x90 else 0x80
        let hi : UInt8 := if b0 == 0xF4 then 0x8F else 0xBF
        if lo ≤ b1 && b1 ≤ hi && isCont b2 && isCont b3 then
          ((b0.toNat - 0xF0) * 262144 + (b1.toNat - 0x80) * 4096 + (b2.toNat - 0x80) * 64
            + (b3.toNat - 0x80), 4)
        else (0xFFFD, 1)
      | _ => (0xFFFD, 1)
    else (0xFFFD, 1)

/-- The (byte offset, code point) pairs Go's `for i, c := range s` yields. -/
def utf8Runes (s : Bytes) : List (Nat × Nat) :=
  go s.length s 0
where
  go : Nat → Bytes → Nat → List (Nat × Nat)
  | 0, _, _ => []
  | _, [], _ => []
  | fuel + 1, s@(_ :: _), off =>
    let (r, w) := utf8DecodeHead s
    (off, r) :: go fuel (s.drop w) (off + w)

end Jqawk
