/-
  L2: the AST (src/ast.go).  Nodes carry the tokens Go keeps (position + text).
-/
import Jqawk.Model.Lexer

namespace Jqawk

mutual
inductive Expr
  | lit (t : Token)                                   -- ExprLiteral (Str Ident Regex Num True False Null)
  | ident (t : Token)                                 -- ExprIdentifier (Ident / Dollar; also the rhs of `is`)
  | arr (t : Token) (items : List Expr)               -- ExprArray
  | obj (t : Token) (items : List (Bytes × Expr))     -- ExprObject (keys are raw token text)
  | unary (e : Expr) (op : Token) (isPostfix : Bool)    -- ExprUnary
  | binary (l r : Expr) (op : Token)                  -- ExprBinary (also member `.`, index `[`, `=`, `is`)
  | call (f : Expr) (args : List Expr)                -- ExprCall
  | match_ (t : Token) (v : Expr) (cases : List MatchCase)  -- ExprMatch
inductive MatchCase
  | mk (pats : List Expr) (body : Stmt)
inductive Stmt
  | block (t : Token) (body : List Stmt)
  | print (t : Token) (args : List Expr)
  | expr (e : Expr)
  | ret (e : Option Expr)
  | brk (t : Token)
  | cont (t : Token)
  | next (t : Token)
  | exit (t : Token)
  | if_ (c : Expr) (body : Stmt) (els : Option Stmt)
  | while_ (c : Expr) (body : Stmt)
  | for_ (pre c post : Expr) (body : Stmt)
  | forIn (id : Token) (idx : Option Token) (iter : Expr) (body : Stmt)
end

instance : Inhabited Expr := ⟨.lit Token.zero⟩
instance : Inhabited Stmt := ⟨.expr default⟩
instance : Inhabited MatchCase := ⟨.mk [] default⟩

/-- `Node.Token()` for expressions. -/
def Expr.token : Expr → Token
  | .lit t => t
  | .ident t => t
  | .arr t _ => t
  | .obj t _ => t
  | .unary _ op _ => op
  | .binary l _ _ => l.token
  | .call f _ => f.token
  | .match_ t _ _ => t

inductive RuleKind | begin_ | end_ | beginFile | endFile | pattern
  deriving DecidableEq, Repr, Inhabited

structure Rule where
  kind : RuleKind
  pattern : Option Expr
  body : Stmt
  deriving Inhabited

structure FuncDef where
  ident : Token
  args : List Bytes
  body : Stmt
  deriving Inhabited

structure Program where
  rules : List Rule
  functions : List FuncDef
  deriving Inhabited

def Program.empty : Program := ⟨[], []⟩

end Jqawk
