#!/usr/bin/env python3
"""Evaluate seeded breaking changes (/verif/seeded/<id>/) against the checks.

For each seeded change: apply patch.diff to /repo (git apply), confirm that it compiles, that the
repository's own test suite still passes and that demo.sh reports the violation, run the check
of the property it breaks (quick tier; optionally more properties), and undo the patch
(git checkout -- .) straight afterwards.  Results go to /verif/seeded/RESULTS.json.

usage: seeded_eval.py [--only <id-substring>] [--tier quick|thorough] [--also C01,C11]
"""
import json, os, subprocess, sys, time

ROOT = os.path.dirname(os.path.dirname(os.path.abspath(__file__)))
REPO = os.environ.get("VERIF_REPO", "/repo")
ENV = dict(os.environ, GOFLAGS="-mod=mod", GOPROXY="off", GOSUMDB="off", GOTOOLCHAIN="local")


def sh(cmd, cwd=None, timeout=1800):
    p = subprocess.run(cmd, cwd=cwd, shell=isinstance(cmd, str), stdout=subprocess.PIPE, stderr=subprocess.STDOUT,
                       text=True, errors="replace", env=ENV, timeout=timeout)
    return p.returncode, p.stdout


def clean_repo():
    sh("git checkout -- . && git clean -fdq && rm -f jqawk", cwd=REPO)
    rc, out = sh("git status --short", cwd=REPO)
    return out.strip() == ""


def main():
    # checks run on a mutated tree must not leave their evidence behind: evidence/ is saved
    # here and put back at the end (evidence that is committed comes from the unchanged tree)
    import shutil, atexit
    ev, bak = os.path.join(ROOT, "evidence"), os.path.join(ROOT, ".build", "evidence_backup_%d" % os.getpid())
    shutil.copytree(ev, bak)
    def _restore():
        shutil.rmtree(ev, ignore_errors=True)
        shutil.copytree(bak, ev)
        shutil.rmtree(bak, ignore_errors=True)
    atexit.register(_restore)
    args = sys.argv[1:]
    only = args[args.index("--only") + 1] if "--only" in args else ""
    tier = args[args.index("--tier") + 1] if "--tier" in args else "quick"
    also = args[args.index("--also") + 1].split(",") if "--also" in args else []
    seeded = os.path.join(ROOT, "seeded")
    results_path = os.path.join(seeded, "RESULTS.json")
    results = json.load(open(results_path)) if os.path.exists(results_path) else {}
    assert clean_repo(), "/repo has uncommitted changes"
    for sid in sorted(os.listdir(seeded)):
        d = os.path.join(seeded, sid)
        if not os.path.isdir(d) or (only and only not in sid):
            continue
        meta = json.load(open(os.path.join(d, "meta.json")))
        prop = meta["property"]
        r = {"property": prop, "when": time.strftime("%Y-%m-%d %H:%M")}
        prev = results.get(sid)
        if prev:
            r["history"] = list(prev.get("history", []))
            if "detected" in prev and not prev["detected"]:
                note = "missed by the %s quick check on %s" % (prop, prev.get("when", "2026-09-26 (round 1)"))
                if not any(h.startswith("missed by") for h in r["history"]):
                    r["history"].append(note)
        t0 = time.time()
        try:
            rc, out = sh(["git", "apply", os.path.join(d, "patch.diff")], cwd=REPO)
            r["applies"] = rc == 0
            if rc != 0:
                r["error"] = out[-400:]
                continue
            rc, out = sh("go build ./... && go build -tags verif ./...", cwd=REPO)
            r["compiles"] = rc == 0
            rc, out = sh("go test -vet=off -count=1 ./... 2>&1 | tail -3", cwd=REPO, timeout=1500)
            r["suite_passes"] = "FAIL" not in out and "ok " in out
            sh("rm -f jqawk", cwd=REPO)
            demo = os.path.join(d, "demo.sh")
            if os.path.exists(demo):
                rc, out = sh(["bash", demo], cwd=REPO, timeout=600)
                r["demo_fails_with_change"] = rc != 0
            checks = {}
            for p in [prop] + [a for a in also if a != prop]:
                rc, out = sh([os.path.join(ROOT, "check"), p, "--tier", tier], cwd=ROOT, timeout=3600)
                viol = [l for l in out.split("\n") if l.startswith("VIOLATION")]
                checks[p] = {"exit": rc, "violations": len(viol), "first": viol[0] if viol else "",
                             "no_failing_input": any("no-failing-input-found" in v for v in viol)}
            r["checks"] = checks
            r["detected"] = checks[prop]["exit"] == 1 and checks[prop]["violations"] > 0
        finally:
            clean_repo()
            r["wall_s"] = round(time.time() - t0, 1)
            results[sid] = r
            json.dump(results, open(results_path, "w"), indent=1)
            print(sid, json.dumps(r)[:300], flush=True)
    # demos must pass on the clean tree
    for sid in sorted(os.listdir(seeded)):
        d = os.path.join(seeded, sid)
        demo = os.path.join(d, "demo.sh")
        if os.path.isdir(d) and os.path.exists(demo) and (not only or only in sid) and sid in results:
            rc, out = sh(["bash", demo], cwd=REPO, timeout=600)
            results[sid]["demo_passes_on_clean_tree"] = rc == 0
            sh("rm -f jqawk", cwd=REPO)
    json.dump(results, open(results_path, "w"), indent=1)
    det = sum(1 for r in results.values() if r.get("detected"))
    print("detected %d of %d" % (det, len(results)))


if __name__ == "__main__":
    main()
