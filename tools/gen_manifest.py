#!/usr/bin/env python3
"""Regenerate /verif/MANIFEST.json from the table below.

A property is claimed only when both halves exist: theorems (lean/Jqawk/Props/Cxx.lean) and at
least one correspondence family registered in the harness.  Everything else is listed under
not_applicable with the reason (work not finished — never "technique does not apply").
"""
import json, os, subprocess, sys

ROOT = os.path.dirname(os.path.dirname(os.path.abspath(__file__)))

TEXT = {
 "C01": ("Theorems: signal discipline of the whole evaluator (break/continue/return never leave a construct that syntactically confines them) and of the rule driver (next/exit consumed in every rule kind, in patterns, functions and selectors), hence `run_never_sentinel`; the master invariant keeps the root frame. Absence of Go panics is NOT a theorem: it is covered by the correspondence run (grammar-directed programs with control statements in every context, token mutations, arbitrary bytes, selectors, malformed input; any panic/untyped error/timeout is a violation by itself) and by the regenerated list of explicit panic sites.",
         "Lean kernel; model validated by the correspondence run, not proved; well-scopedness of parsed programs is a theorem about the model parser (or, where not yet proved, re-checked on every parsed program of the run: field ws)."),
 "C02": ("Theorems: the rule schedule as equations on the model driver (partition by kind in source order, pattern test, next abandons the remaining rules of the element only, exit ends the run without END, per-element iteration with $ and $index, BEGINFILE / pattern rules / ENDFILE order and their $ bindings, files in order). Correspondence: tagged-trace programs over all mixes of rule kinds, 0-3 files x 0-3 values x 0-2 selectors x all root shapes, plus an independent Go reading of the schedule as oracle.",
         "Lean kernel; model validated against the real driver by the correspondence run."),
 "C03": ("Theorems: the decoder model (byte-exact port of encoding/json Decoder.Decode) is prefix-stable (a value determined by the bytes read so far is not changed by later bytes or any chunking), the driver ends a file normally only on a clean end of stream (`never_silent`), reports a fault with the file name without running any rule on the partial value. Correspondence: every chunking of short streams exhaustively, random chunkings, every truncation point and single-byte corruption, reader failures at every offset, incrementality marks; oracle: Go's own decoder on the same bytes.",
         "Lean kernel; the decoder port is differentially tested against encoding/json (3.7M cases, stdlib/json) and against the real runs; blocking reads through a real pipe are not exhibited (runtime behaviour)."),
 "C04": ("Theorems: conversion to JSON terminates on every heap (cyclic or not), empties are preserved at any depth, a cyclic value / function / regex / non-finite number is rejected, conversion succeeds exactly for acyclic JSON-expressible values, and document -> value -> JSON is the identity up to key order and number formatting (`newValue_roundtrip`). Correspondence: documents with empties, escapes, non-ASCII, numeric extremes through -o and json(), program-built values incl. cycles; oracle: Go's decoder re-parses the output to the input tree.",
         "Lean kernel; MarshalIndent/Decoder ports differentially tested against encoding/json; number formatting via the exact F64 port (tested against strconv)."),
 "C05": ("Theorems: the code-shaped operator evaluation equals the kind-indexed tables of DESIGN.md section 3 for every operator and all operand values; divide/modulo error iff the (truncated) divisor is zero; + concatenates iff an operand is a string; unset/null/container comparison rules; short-circuit: the right operand of && || is not evaluated when not needed, `is` never evaluates its right side. Correspondence: every binary operator x every ordered pair from a 39-value pool covering all nine kinds (exhaustive), operands as literals, variables and document fields, unary/++/--/is.",
         "Lean kernel; IEEE arithmetic, ParseFloat/FormatFloat and the RE2 subset are exact Lean re-implementations differentially tested against Go (stdlib/)."),
 "C06": ("Theorems: the generated Pratt table equals the documented levels; every ordered pair and triple of binary operators parses to the documented grouping (finite, by kernel evaluation of the model parser); minimal parenthesisation parses to the same tree as full parenthesisation for the covered grammar at any depth. Correspondence: random expression trees rendered minimally / fully / redundantly, AST dumps compared with the real parser, values compared.",
         "Lean kernel; regenerated facts tie the table and the operand precedences of binary/assign/unary to src/parser.go."),
 "C07": ("Theorems: unfolding laws of if / block / while / for / for-in (post-expression after completed and continued iterations, items visited once in order), loops absorb break/continue, calls absorb return, next/exit propagate. Correspondence: nested structured programs with a print trace after every statement and every jump statement at random positions, iteration over arrays, objects, strings.",
         "Lean kernel; structural mutation of an array during its own iteration is deliberately unmodelled."),
 "C08": ("Theorems (master invariant, for every outcome of every evaluator function): the frame stack has the same depth afterwards, deeper frames untouched, a user-function call restores it exactly, locals vanish, $ and root untouched; binding by position. Correspondence: functions of arity 0-4 with 0-6 arguments in every position, recursion, long histories (10k-200k elements) with depth read back through the hook.",
         "Lean kernel; model validated by the correspondence run."),
 "C09": ("Theorems: copy-versus-share per kind, copyValue writes exactly the target cell, the member step on a non-unset base changes no existing cell/array/object (reads never change the input; reading past the end does not pad), SetMember frame rules for objects and in-range array elements, negative indices, refusals, compound assignment desugaring. Correspondence: statement sequences with aliasing, whole-state dump after every statement, -o compared; read-only oracle: output document equals input document.",
         "Lean kernel; the frame rule for the full assignment statement (speculative parents) is covered by correspondence only."),
 "C10": ("Theorems: rendering, JSON conversion, for-in and member lookup are independent of the order in which an object's members were inserted (Go map order) — sortByKey canonical for distinct keys; the run is a function of program, selectors and input. Regenerated facts: every range over a Go map, every package-level variable and the import list of the interpreter. Correspondence: repeated runs, fresh-process versus long-lived-process runs after poisoning histories.",
         "Lean kernel; absence of hidden state in Go is argued from the regenerated facts, not proved."),
 "C11": ("Theorems: a syntax error pre-empts all output; ghost fault counter: an evaluation that completes normally raised no fault, one that fails raised exactly one and printed nothing after it (every syntactic position, by the master invariant); output only appended. Correspondence: syntax errors spliced at every token boundary, each runtime fault kind injected at each evaluated position.",
         "Lean kernel; model validated by the correspondence run."),
 "C12": ("Theorems: GetLineAndCol equals the split-at-newline specification for every offset (line = 1 + newlines before, column = distance to line start, text = that line), quoted line is line N of the program, lexer errors point into the text and, for an illegal character, exactly at it. Correspondence: every byte offset of generated multi-line texts, error positions of lexical/syntactic/runtime faults on multi-line programs.",
         "Lean kernel; which token an error is attached to is validated by correspondence (line/col/src compared), not proved."),
 "C13": ("Theorems: horizontal trivia and comments are invisible to the lexer (same token, same successor state), number/keyword/string token shapes, evaluation-time escapes, the parser is parametric in token positions (any two sources producing the same tokens up to positions give the same AST up to positions, any fuel). Correspondence: 8+ layouts of each token sequence, all bytes in every lexer position class, adjacent-token combinations.",
         "Lean kernel; newline-insertion and `;`-for-newline clauses are covered by correspondence (metamorphic layouts) only."),
 "C14": ("Correspondence of the real binary with the library and the model: -f = inline, stdin = file, -o FILE = -o -, argv order, -r E = BEGINFILE { $ = E }, exit status and stderr; theorems about a small model of the command line.",
         "Lean kernel for the wrapper model; flag parsing by package flag and the OS are trusted."),
 "C15": ("Theorems: push/pop/popfirst/length refine the ideal list for any operation sequence, contains agrees with == element by element, sort returns a stably sorted permutation and leaves the receiver untouched. Correspondence: random operation sequences on aliased arrays with nested method calls, ideal-list oracle.",
         "Lean kernel; model validated by the correspondence run."),
 "C16": ("Theorems: split/join laws, pluck selects own members only, ASCII case mapping, num(), totality of every native on every receiver kind. Correspondence: pools of receivers and arguments; oracles: join equals the string, Go math.Floor/Ceil/Round on the same double.",
         "Lean kernel; Unicode case mapping outside ASCII is unmodelled (skipped and counted)."),
 "C17": ("Theorems: rendering terminates on every heap, the cycle marker appears exactly at a container that is its own ancestor, shared containers are printed in full, print emits one chunk `args joined by a space + newline`. Correspondence: values of all nestings, shared and cyclic structures, numeric extremes; oracles: re-parse with Go's decoder, numbers read back bit-identically.",
         "Lean kernel; FormatFloat is an exact port tested against strconv."),
 "C18": ("Theorems: padding law (length = max(|w|, n), never truncates, side and pad byte), printf is atomic (nothing written on any error), a format without % is written unchanged, width limit. Correspondence: format grammar x argument lists; oracle: a reference formatter written from the property text.",
         "Lean kernel; model validated by the correspondence run."),
 "C19": ("Theorems: cases are tried in source order, the first matching case is the only one whose body runs (later cases do not occur in the result equation), literal patterns agree with ==, identifier/array pattern rules, bindings visible in the body and gone afterwards. Correspondence: subjects of every kind x case lists with alternatives, nested array patterns, catch-alls; reference matcher oracle.",
         "Lean kernel; model validated by the correspondence run."),
 "C20": ("Theorems: a frame push beyond the limit is refused; no evaluation of any shape ever has more than callDepthLimit+1 frames open (ghost maxDepth, master invariant); array fill refused above 2^20 and exact at or below it; regenerated facts pin the three constants. Correspondence: boundary programs at limit-1/limit/limit+1 for recursion shapes, fill indices, printf widths, JSON nesting.",
         "Lean kernel; that 4096 jqawk frames fit in Go's stack is runtime evidence (the boundary programs run without crashing), not proof."),
}


def families():
    out = subprocess.run([os.path.join(ROOT, ".build", "bin", "harness"), "families"], stdout=subprocess.PIPE, text=True).stdout
    fam = {}
    for line in out.split("\n"):
        p = line.split()
        if len(p) == 2:
            fam.setdefault(p[0], []).append(p[1])
    return fam


def main():
    props = [json.loads(l) for l in open(os.path.join(ROOT, "properties.jsonl"))]
    old = json.load(open(os.path.join(ROOT, "MANIFEST.json")))
    fam = families()
    checks, na = [], []
    for p in props:
        pid = p["id"]
        has_thm = os.path.exists(os.path.join(ROOT, "lean", "Jqawk", "Props", pid + ".lean"))
        has_fam = pid in fam
        if has_thm and has_fam:
            text, note = TEXT[pid]
            checks.append({
                "property_id": pid, "quick_cmd": "./check %s --tier quick" % pid,
                "thorough_cmd": "./check %s --tier thorough" % pid,
                "evidence_file": "evidence/%s.json" % pid, "replay_cmd_template": "./check replay {path}",
                "engine": "lean-model",
                "level_claimed": {"category": "proof", "text": text, "design_ref": "DESIGN.md section 6 (%s)" % pid},
                "level_note": note,
                "technique": "Lean 4 theorems over an executable model + differential correspondence with the real code + regenerated facts",
            })
        else:
            missing = []
            if not has_thm:
                missing.append("theorems")
            if not has_fam:
                missing.append("correspondence families")
            na.append({"property_id": pid, "reason": "not claimed yet: %s not finished (proof in Lean 4 applies; see DESIGN.md section 6)" % " and ".join(missing)})
    old["checks"] = checks
    old["not_applicable"] = na
    json.dump(old, open(os.path.join(ROOT, "MANIFEST.json"), "w"), indent=1)
    print("claimed:", [c["property_id"] for c in checks])
    print("not yet:", [n["property_id"] for n in na])


if __name__ == "__main__":
    main()
