#!/usr/bin/env python3
"""Regenerate /verif/MANIFEST.json from the table below.

A property is claimed only when both halves exist: theorems (lean/Jqawk/Props/Cxx.lean) and at
least one correspondence family registered in the harness.  Everything else is listed under
not_applicable with the reason (work not finished — never "technique does not apply").
"""
import json, os, subprocess, sys

ROOT = os.path.dirname(os.path.dirname(os.path.abspath(__file__)))

TEXT = {
 "C01": ("Theorems (`run_outcome_classified`): for every program text, selector list and input the model's run ends in success, a syntax error, a runtime error or a JSON error — never an internal signal (signal discipline of all 15 evaluator functions and of the driver + the parser's well-scopedness theorem) and never a panic (a third whole-evaluator induction with a region-indexed heap invariant makes the five places where the model marks a Go panic unreachable, selectors' nested evaluator included). Correspondence: grammar-directed programs with control statements in every context, token mutations, arbitrary bytes, selectors, malformed input, panic-prone operations on edge operands, runaway recursion; any panic / untyped error / crash / timeout of the real code is a violation by itself. Known finding K1 (Go stack overflow before the call-depth limit) is reported as KNOWN-FINDING.",
         "Lean kernel; the theorem is about the model: Go-level memory safety where the model is total (index arithmetic, nil maps) is covered by the correspondence run and the regenerated list of explicit panic sites, not proved."),
 "C02": ("Theorems: the whole driver equals an executable schedule specification (`runProgram_eq_spec`: BEGIN once, files/values/selector roots in order, BEGINFILE / per-element pattern rules / ENDFILE, END once; one loop combinator, one handler for `next`, nothing handles `exit`), with exact layer lemmas and clause corollaries (rules in source order, pattern test, next affects one element, exit runs nothing more, $ / $index / $file bindings, body-less rule prints $). Correspondence: tagged-trace programs over all mixes of rule kinds, selectors, files, JSONL, programs assigning $file/$index/$, programs with up to 60 rules, long schedules; an independent Go reading of the schedule predicts class and output.",
         "Lean kernel; model validated against the real driver by the correspondence run."),
 "C03": ("Theorems: the decoder model (byte-exact port of encoding/json Decoder.Decode) is prefix-stable and needs exactly a value's own bytes (arrays, objects) or one byte more (numbers, strings, literals) (`available_exactly_when`); the first k values are processed to the same state from any file that starts with their bytes plus one byte (`k_values_and_one_byte_suffice`, `run_passes_through`); the driver processes `pre ++ more` by first doing exactly what it does on `pre` and then only appending output (`prefix_processed_first`, any program/selectors/split/stream end); a file ends normally only on a clean end of stream, a fault is reported with the file name without running a rule on the partial value. Correspondence: every chunking of short streams, data delivered with the terminal error, empty reads, values above 64 KiB, truncation/corruption/reader failure at every offset, $file assigned before a fault, FIFOs and open pipes through the real binary (output visible before the rest of the stream is sent).",
         "Lean kernel; the decoder port is differentially tested against encoding/json (3.7M cases) and against the real runs; blocking reads are runtime behaviour exhibited only by the binary-level family."),
 "C04": ("Theorems: conversion to JSON terminates on every heap (cyclic or not), succeeds exactly for acyclic JSON-expressible values, preserves empties at any depth, and document -> value -> JSON tree is the identity up to key order and number formatting (`newValue_roundtrip`; tree level: the written bytes are compared with Go's decoder by the correspondence run). Correspondence: documents with empties, escapes, `%`, non-ASCII, nesting up to the decoder's 10 000 levels, shared and cyclic program-built values, through json(), -o in-process and -o FILE / -o - of the real binary (also onto existing files); Go re-parse oracle.",
         "Lean kernel; MarshalIndent/Decoder ports differentially tested against encoding/json; number formatting via the exact F64 port (tested against strconv)."),
 "C05": ("Theorems: the code-shaped evaluation of every BINARY operator equals the kind-indexed tables of DESIGN.md section 3 for all operand values; the evaluator applies that table to the values of its operand cells, left operand first (`evalBinary_applies_binaryOp`); unary tables and `evalUnary_applies_unaryOp`; parsed programs contain only operator nodes the evaluator knows; divide/modulo error iff the (truncated) divisor is zero; + concatenates iff an operand is a string; unset/null/container comparison rules; short-circuit; `is` never evaluates its right side. Correspondence: all 15 operators x 39^2 operand pairs, operands from variables/fields/expression results, literal spellings, numerals at the double range limits, the same operator node evaluated repeatedly with changing operands, non-UTF-8 patterns (Go regexp as oracle).",
         "Lean kernel; IEEE arithmetic, ParseFloat/FormatFloat and the RE2 subset are exact Lean re-implementations differentially tested against Go."),
 "C06": ("Theorems: `table_ok` (the regenerated Pratt table has the documented levels); all pairs (225) and triples (3375) of binary operators, assignment pairs and parenthesised pairs by complete kernel enumeration; `parse_render` / `parse_render_full` / `parse_render_redundant`: for expressions of ANY depth over the whole expression grammar except regex literals and match, parser ∘ printer = id for minimal, full and arbitrarily redundant parenthesisation; left/right associativity corollaries. Correspondence: random expression trees in five renderings incl. tight (no blanks), prefix/suffix chains on every atom kind, regex literals as operands everywhere; same AST and same value.",
         "Lean kernel; regenerated facts tie the table (parse functions identified by role) and the operand precedences to src/parser.go."),
 "C07": ("Theorems: whole-loop characterisations for the real evaluator at any fuel: `while_unrolled`, `for_k_iterations` (post after completed and continued iterations, not after break), `forIn_eq_fold` with every item visited once in order (sorted keys for objects, byte offsets for strings), innermost-loop discipline through any nesting (`abnormal_end_propagates`, `loop_statements_confine`), `dangling_else_any` (parser), `return_from_any_nesting`, `fuel_irrelevant`, `for_break_at` / `for_propagates_at` (a for statement ending in iteration k+1 ends in the state raised, post not run again), `nested_loop_round`; plus one-step unfolding laws and kernel-checked `Rounds 3` instances. Correspondence: nested structured programs with a print trace after every statement and jumps at random positions (reference interpreter in Go), next/exit from patterns and special rules over several roots, loops of up to 10^6 iterations, write-ahead into iterated containers.",
         "Lean kernel; one corner of Go's slice semantics (for-in over an array that the body pops and then pushes) is deliberately unmodelled (DESIGN section 2) and excluded from the generators."),
 "C08": ("Theorems (master invariant, for every outcome of every evaluator function): the frame stack is restored exactly, deeper frames untouched, locals vanish, $ and root untouched, parameters bound by position to fresh cells holding copies (C09 `params_bound_fresh`, `call_args_are_copies`), the return slot, depth counts nesting only. Correspondence: functions of arity 0-4 with 0-6 arguments in 27 positions, argument lists with side effects on earlier arguments, names clashing with builtins/globals/parameters, missing members as arguments, match bodies left by every exit path, recursion, histories of 10k-200k records with the frame depth read back (hook).",
         "Lean kernel; model validated by the correspondence run."),
 "C09": ("Theorems: `readonly_expr` / `readonly_stmt` / `readonly_methods`: evaluating any expression or statement without assignment, ++/--, for-in and mutating calls leaves every existing cell, array and object unchanged (whole-evaluator induction; false before defect D48 was repaired), `readonly_document_unchanged`; exact effect + frame rule of whole assignments incl. creation of any number of missing levels, padding, unset bases (`assign_chain_frame`, `assign_unset_base_*`), `read_after_write`; copy on assignment / argument passing / literals / push and sharing of containers; negative indices, refusals, compound desugaring. Correspondence: statement sequences with aliases against an ideal interpreter written from the property text, overlapping -r roots, updates through loop variables and method results, read-only programs with -o equal to the input.",
         "Lean kernel; read-after-write for computed and negative indices is covered by correspondence only."),
 "C10": ("Theorems: rendering, JSON conversion, for-in and member lookup are independent of the order in which an object's members were inserted (sortByKey canonical); the model's run is a function of program, selectors and input. Regenerated facts: every range over a Go map, every package-level variable that is written, the import list. Correspondence: repeated runs in one process and in fresh processes (~1500), object keys incl. invalid UTF-8, shared argument slices between runs, -o file histories through the binary, read boundaries, error-choice under map order.",
         "Lean kernel; absence of hidden state in Go is argued from the regenerated facts and the repetition families, not proved."),
 "C11": ("Theorems: a syntax error pre-empts all output; `run_fault_discipline`: for every program, selectors and input, a run that ends successfully (or with a JSON error) raised no runtime fault anywhere, one that ends in a runtime error raised exactly one and printed nothing after it (ghost fault counter through evaluator and driver); output only appended; static rejections. Correspondence: illegal bytes / control bytes / unterminated literals spliced at every token boundary, 140 fault kinds x 141 evaluated positions, failing stores, unknown $-names, invalid regexes of every kind, output before a fault through the real binary.",
         "Lean kernel; model validated by the correspondence run."),
 "C12": ("Theorems: GetLineAndCol equals the split-at-newline specification for every offset; provenance: every position any run can report — syntax, lexical, runtime, program or -r selector — is the offset of a token of the text it is reported with (or of the offending byte of a lexical error), by inductions over the 14 parser and 15 evaluator functions (`reported_position_in_text`, `runtime_error_pos_is_token`); illegal characters exactly on the byte; WHICH token each of the 23 runtime-fault sites blames (`blame_*`, one per site, compared with the token src/evaluator.go passes; `blamed_token_in_node`; `blame_table`). Correspondence: every byte offset of multi-line texts with hostile prefixes (multi-line literals, CRLF, multi-byte), error positions of every fault kind incl. the depth limit through every frame parity, selector faults, and the binary's three diagnostic lines parsed back (several files, -f, leading blank lines).",
         "Lean kernel; the theorems say the reported offset is the offset of SOME token of the text; WHICH token a given fault blames (the column falls inside the offending construct) is validated by correspondence (line/col/src computed from the generated text), not proved."),
 "C13": ("Theorems: blanks and comments are invisible to the lexer; number / keyword / string token shapes; escapes; the parser is parametric in token positions; `parse_never_oof`: the parser's fuel always suffices (every text parses or is a syntax error), so token-equivalent texts parse alike (`layout_invariant_parses`); `newline_insertion_bytes`: in ANY program text a newline (or blanks/comment + newline) may be inserted at any token boundary as the parser lexed it, except after print/return, after a print-level comma and before `;`, without changing the AST (each exclusion shown necessary); `semicolon_for_newline_bytes`. Correspondence: 8+ layouts of each token sequence incl. CR/LF/tabs/comments, forbidden gaps, all 256 bytes in 19 lexer contexts, words/numbers adjacency, string literals.",
         "Lean kernel; the byte-level theorems hold for rule tables satisfying a decidable condition that the real table meets (checked by decide)."),
 "C14": ("Theorems about a model of the command line (exit status, -o FILE = -o -, -f = inline, stdin = file, missing file, order of files and selectors, `-o` with several inputs is an error after the program's complete output for every argv order) and `r_behaves_as_beginfile_rule(_builtins)(_cli)`: for selectors built from $, literals, member/index chains, array/object literals, every method call, operators and match expressions (and the builtins when the program never rebinds them), and programs whose ENDFILE rules do not read $, the whole run with -r E and the run with the extra rule BEGINFILE { $ = E } have the same outcome, output, JSON and exit status — a relational induction over the evaluator up to renaming of cell ids. Correspondence: the real binary against library and model (hostile arguments, existing -o targets, stdin as pipe/file/socket/closed, FIFOs).",
         "Lean kernel for the wrapper model; flag parsing by package flag and the OS are trusted; several -r flags are covered by correspondence (their order is a C02 theorem)."),
 "C15": ("Theorems: push/pop/popfirst/length refine the ideal list for any sequence of these operations; index writes refine the ideal `setIdx` for every index class (inside, at/past the end with null padding, beyond the fill limit, negative from the end, before the start) at primitive and evaluator level and inside operation sequences (`index_assign_refines`, `ops_refine_lists_w`; start state unshared; methods nested in arguments: correspondence), contains agrees with == element by element, sort returns a stably sorted permutation and leaves the receiver untouched. Correspondence: random operation sequences on aliased arrays with nested method calls, the same call site active twice, histories of up to 5000 elements across capacity thresholds; ideal-list oracle.",
         "Lean kernel; model validated by the correspondence run."),
 "C16": ("Theorems: split/join laws, pluck selects own members only, ASCII case mapping, num() = nearest double / null, floor/ceil/round specification, totality of every native on every receiver kind. Correspondence: pools of receivers and arguments, digit strings of every length around int32/int53/int64/uint64 boundaries; oracles: join equals the string, Go math.* and strconv.ParseFloat on the same input.",
         "Lean kernel; Unicode case mapping outside ASCII is unmodelled (skipped and counted)."),
 "C17": ("Theorems: rendering terminates on every heap, the cycle marker appears exactly at a container that is its own ancestor, shared containers are printed in full, print emits one chunk `args joined by a space + newline`. Correspondence: values of all nestings, shared and cyclic structures, numeric extremes, bare print after in-place updates, values carrying internal bookkeeping (missing elements, characters, method values); oracles: Go re-parse, numbers read back bit-identically.",
         "Lean kernel; FormatFloat is an exact port tested against strconv."),
 "C18": ("Theorems: padding law (length = max(|w|, n), never truncates, side and pad byte), printf refines a two-phase reference formatter, is atomic (nothing written on any error), a format without % is written unchanged, width limit. Correspondence: format grammar x argument lists, faults after up to 1 MB of rendered output, 20-digit widths; reference formatter written from the property text.",
         "Lean kernel; model validated by the correspondence run."),
 "C19": ("Theorems: `evalMatch_iff_spec`: the evaluator's match equals a reference matcher (`patMatches` by structural recursion, `firstMatch`), fuel-free; corollaries: subject evaluated once, first alternative / first case wins, literal pattern = ==, array patterns element-wise on equal length, failed alternatives' bindings invisible, block body and no match yield null, bad patterns are errors only when reached, bindings dropped afterwards. Correspondence: 41 subjects x literal case lists, structured patterns with perturbed alternatives and hostile identifier names, subjects with side effects, recursive re-entry; reference matcher in Go.",
         "Lean kernel; model validated by the correspondence run."),
 "C20": ("Theorems (see REVIEW.md for what each statement does and does not say): a frame push beyond the limit is refused; no evaluation of any shape ever has more than callDepthLimit+1 frames open (ghost maxDepth, master invariant); array fill refused above 2^20 and exact at or below it; printf width limit; regenerated facts pin the constants. Correspondence: boundary programs at limit-1/limit/limit+1 for 8 recursion shapes and 5 contexts, also after histories of up to 200 000 records, fill indices incl. not-yet-arrays and huge values, 25-digit widths, JSON nesting at 10 000. Known finding K1 (the frame limit does not bound the Go stack) is reported as KNOWN-FINDING.",
         "Lean kernel; that 4096 jqawk frames fit in Go's stack is runtime evidence, and K1 shows it fails for deeply nested bodies."),
}


def families():
    out = subprocess.run([os.path.join(ROOT, ".build", "bin", "harness"), "families"], stdout=subprocess.PIPE, text=True).stdout
    fam = {}
    for line in out.split("\n"):
        p = line.split()
        if len(p) == 2:
            fam.setdefault(p[0], []).append(p[1])
    return fam


def main():
    props = [json.loads(l) for l in open(os.path.join(ROOT, "properties.jsonl"))]
    old = json.load(open(os.path.join(ROOT, "MANIFEST.json")))
    fam = families()
    checks, na = [], []
    for p in props:
        pid = p["id"]
        has_thm = os.path.exists(os.path.join(ROOT, "lean", "Jqawk", "Props", pid + ".lean"))
        has_fam = pid in fam
        if has_thm and has_fam:
            text, note = TEXT[pid]
            checks.append({
                "property_id": pid, "quick_cmd": "./check %s --tier quick" % pid,
                "thorough_cmd": "./check %s --tier thorough" % pid,
                "evidence_file": "evidence/%s.json" % pid, "replay_cmd_template": "./check replay {path}",
                "engine": "lean-model",
                "level_claimed": {"category": "proof", "text": text, "design_ref": "DESIGN.md section 6 (%s)" % pid},
                "level_note": note,
                "technique": "Lean 4 theorems over an executable model + differential correspondence with the real code + regenerated facts",
            })
        else:
            missing = []
            if not has_thm:
                missing.append("theorems")
            if not has_fam:
                missing.append("correspondence families")
            na.append({"property_id": pid, "reason": "not claimed yet: %s not finished (proof in Lean 4 applies; see DESIGN.md section 6)" % " and ".join(missing)})
    old["checks"] = checks
    old["not_applicable"] = na
    json.dump(old, open(os.path.join(ROOT, "MANIFEST.json"), "w"), indent=1)
    print("claimed:", [c["property_id"] for c in checks])
    print("not yet:", [n["property_id"] for n in na])


if __name__ == "__main__":
    main()
