#!/usr/bin/env python3
"""False-alarm test: apply each harmless refactoring in /verif/benign/<id>/patch.diff to /repo,
run the quick check of every property, undo.  Results: /verif/benign/RESULTS.json.
usage: benign_eval.py [--only <substring>] [--props C01,C02]"""
import json, os, subprocess, sys, time

ROOT = os.path.dirname(os.path.dirname(os.path.abspath(__file__)))
REPO = "/repo"
ENV = dict(os.environ, GOFLAGS="-mod=mod", GOPROXY="off", GOSUMDB="off", GOTOOLCHAIN="local")


def sh(cmd, cwd=None, timeout=3600):
    p = subprocess.run(cmd, cwd=cwd, shell=isinstance(cmd, str), stdout=subprocess.PIPE, stderr=subprocess.STDOUT,
                       text=True, errors="replace", env=ENV, timeout=timeout)
    return p.returncode, p.stdout


def clean():
    sh("git checkout -- . && git clean -fdq && rm -f jqawk", cwd=REPO)
    return sh("git status --short", cwd=REPO)[1].strip() == ""


def main():
    # checks run on a mutated tree must not leave their evidence behind: evidence/ is saved
    # here and put back at the end (evidence that is committed comes from the unchanged tree)
    import shutil, atexit
    ev, bak = os.path.join(ROOT, "evidence"), os.path.join(ROOT, ".build", "evidence_backup_%d" % os.getpid())
    shutil.copytree(ev, bak)
    def _restore():
        shutil.rmtree(ev, ignore_errors=True)
        shutil.copytree(bak, ev)
        shutil.rmtree(bak, ignore_errors=True)
    atexit.register(_restore)
    a = sys.argv[1:]
    only = a[a.index("--only") + 1] if "--only" in a else ""
    props = a[a.index("--props") + 1].split(",") if "--props" in a else ["C%02d" % i for i in range(1, 21)]
    bdir = os.path.join(ROOT, "benign")
    rp = os.path.join(bdir, "RESULTS.json")
    results = json.load(open(rp)) if os.path.exists(rp) else {}
    assert clean()
    for bid in sorted(os.listdir(bdir)):
        d = os.path.join(bdir, bid)
        if not os.path.isdir(d) or (only and only not in bid):
            continue
        r = results.get(bid, {}) if "--props" in a else {}
        r["when"] = time.strftime("%Y-%m-%d %H:%M")
        t0 = time.time()
        try:
            rc, out = sh(["git", "apply", os.path.join(d, "patch.diff")], cwd=REPO)
            r["applies"] = rc == 0
            if rc != 0:
                r["error"] = out[-300:]
                continue
            rc, out = sh("go build ./... && go build -tags verif ./...", cwd=REPO)
            r["compiles"] = rc == 0
            rc, out = sh("go test -vet=off -count=1 ./... 2>&1 | tail -3", cwd=REPO, timeout=1500)
            r["suite_passes"] = "FAIL" not in out and "ok " in out
            sh("rm -f jqawk", cwd=REPO)
            checks = r.get("checks", {})
            for p in props:
                rc, out = sh([os.path.join(ROOT, "check"), p, "--tier", "quick"], cwd=ROOT)
                viol = [l for l in out.split("\n") if l.startswith("VIOLATION")]
                checks[p] = {"exit": rc, "violations": len(viol), "first": viol[0] if viol else ""}
                if rc == 2:
                    checks[p]["tail"] = out[-300:]
            r["checks"] = checks
            r["alarms"] = sorted(p for p, c in checks.items() if c["exit"] != 0)
        finally:
            clean()
            r["wall_s"] = round(time.time() - t0, 1)
            results[bid] = r
            json.dump(results, open(rp, "w"), indent=1)
            print(bid, "alarms:", r.get("alarms"), r["wall_s"], flush=True)


if __name__ == "__main__":
    main()
