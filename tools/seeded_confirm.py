#!/usr/bin/env python3
"""Confirm seeded changes in a scratch git worktree of /repo (never in /repo itself).

For every /verif/seeded/<id>/: the patch applies to /repo's HEAD, the tree compiles (with and
without the verif tag), the repository's own test suite passes unedited, demo.sh fails with the
change and passes without it.  The outcome is written into meta.json under "confirmed".
The worktree (under /tmp) is removed afterwards.

usage: seeded_confirm.py [--only <id-substring>] [--force]
"""
import json, os, subprocess, sys, time

ROOT = os.path.dirname(os.path.dirname(os.path.abspath(__file__)))
ENV = dict(os.environ, GOFLAGS="-mod=mod", GOPROXY="off", GOSUMDB="off", GOTOOLCHAIN="local")
WT = "/tmp/seeded_confirm_wt"


def sh(cmd, cwd=None, timeout=1800, env=None):
    try:
        p = subprocess.run(cmd, cwd=cwd, shell=isinstance(cmd, str), stdout=subprocess.PIPE,
                           stderr=subprocess.STDOUT, text=True, errors="replace", env=env or ENV, timeout=timeout)
        return p.returncode, p.stdout
    except subprocess.TimeoutExpired:
        return 124, "timeout"


def main():
    args = sys.argv[1:]
    only = args[args.index("--only") + 1] if "--only" in args else ""
    force = "--force" in args
    sh(["git", "-C", "/repo", "worktree", "remove", "--force", WT])
    rc, out = sh(["git", "-C", "/repo", "worktree", "add", "--detach", WT, "HEAD"])
    assert rc == 0, out
    head = sh(["git", "-C", "/repo", "rev-parse", "--short", "HEAD"])[1].strip()
    env = dict(ENV, JQAWK_SRC=WT)
    try:
        seeded = os.path.join(ROOT, "seeded")
        for sid in sorted(os.listdir(seeded)):
            d = os.path.join(seeded, sid)
            if not os.path.isdir(d) or (only and only not in sid):
                continue
            mp = os.path.join(d, "meta.json")
            meta = json.load(open(mp))
            if meta.get("confirmed", {}).get("repo_head") == head and not force:
                continue
            c = {"repo_head": head, "when": time.strftime("%Y-%m-%d %H:%M")}
            demo = os.path.join(d, "demo.sh")
            rc, out = sh(["bash", demo], cwd=WT, env=env, timeout=900)
            c["demo_passes_without_change"] = rc == 0
            rc, out = sh(["git", "apply", os.path.join(d, "patch.diff")], cwd=WT)
            c["applies"] = rc == 0
            if rc == 0:
                rc, out = sh("go build ./... && go build -tags verif ./... && go vet ./src/ >/dev/null 2>&1; go build ./...", cwd=WT)
                c["compiles"] = rc == 0
                rc, out = sh("go test -vet=off -count=1 -timeout 25m ./... 2>&1 | tail -5", cwd=WT, timeout=1700)
                c["suite_passes"] = "FAIL" not in out and "ok " in out and "panic" not in out
                rc, out = sh(["bash", demo], cwd=WT, env=env, timeout=900)
                c["demo_fails_with_change"] = rc not in (0, 2, 99, 124)
                c["demo_tail"] = out.strip().split("\n")[-3:]
            sh("git checkout -- . && git clean -fdq", cwd=WT)
            meta["confirmed"] = c
            json.dump(meta, open(mp, "w"), indent=1)
            ok = all(c.get(k) for k in ("applies", "compiles", "suite_passes", "demo_fails_with_change",
                                         "demo_passes_without_change"))
            print(sid, "CONFIRMED" if ok else "NOT-CONFIRMED", json.dumps(c)[:260], flush=True)
    finally:
        sh(["git", "-C", "/repo", "worktree", "remove", "--force", WT])
        sh(["rm", "-rf", WT])


if __name__ == "__main__":
    main()
