#!/bin/bash
cd /tmp/famB
./mutate.sh C02 M1-endfile-before-pattern-rules '
s=open("/tmp/famB/mut/repo/src/evaluator.go").read()
a=s.index("				// run the rules\n")
b=s.index("				// run the end file rules\n")
c=s.index("			}\n		}\n	}\n\n	// end rules")
s=s[:a]+s[b:c]+s[a:b]+s[c:]
open("/tmp/famB/mut/repo/src/evaluator.go","w").write(s)
'
./mutate.sh C02 M2-rules-in-reverse '
sub("src/evaluator.go","""func (e *Evaluator) evalRules(rules []*Rule) error {
	for _, rule := range rules {""","""func (e *Evaluator) evalRules(rules []*Rule) error {
	for ri := len(rules) - 1; ri >= 0; ri-- {
		rule := rules[ri]""")
'
./mutate.sh C02 M3-index-not-set '
sub("src/evaluator.go","""			e.stackTop.locals["$index"] = NewCell(NewValue(i))
""","""			if i == 0 {
				e.stackTop.locals["$index"] = NewCell(NewValue(i))
			}
""")
'
./mutate.sh C02 M4-next-abandons-whole-array '
sub("src/evaluator.go","""		err := e.evalStatement(rule.Body)
		if err == errNext {
			return nil
		}
		if err != nil {
			return err
		}
	}
	return nil
}""","""		err := e.evalStatement(rule.Body)
		if err != nil {
			return err
		}
	}
	return nil
}""")
sub("src/evaluator.go","""			if err := e.evalRules(patternRules); err != nil {
				return err
			}
		}
	case ValueObj:""","""			if err := e.evalRules(patternRules); err != nil {
				if err == errNext {
					return nil
				}
				return err
			}
		}
	case ValueObj:""")
sub("src/evaluator.go","""	if err := e.evalRules(patternRules); err != nil {
			return err
		}
	default:
		e.ruleRoot = e.root
		if err := e.evalRules(patternRules); err != nil {
			return err
		}""","""	if err := e.evalRules(patternRules); err != nil && err != errNext {
			return err
		}
	default:
		e.ruleRoot = e.root
		if err := e.evalRules(patternRules); err != nil && err != errNext {
			return err
		}""")
'
./mutate.sh C02 M5-exit-in-pattern-rule-still-runs-END '
sub("src/evaluator.go","""				if err := ev.evalPatternRules(ev.patternRules); err != nil {
					if err == errExit {
						return &ev, nil
					}""","""				if err := ev.evalPatternRules(ev.patternRules); err != nil {
					if err == errExit {
						for _, rule := range ev.endRules {
							ev.ruleRoot = NewCell(NewValue(nil))
							ev.evalSpecialRule(rule)
						}
						return &ev, nil
					}""")
'
./mutate.sh C02 M6-file-published-after-the-rules '
sub("src/evaluator.go","""			ev.setGlobal("$file", NewCell(NewValue(file.Name)))

""","")
sub("src/evaluator.go","""				// run the end file rules
""","""				ev.setGlobal("$file", NewCell(NewValue(file.Name)))
				// run the end file rules
""")
'
./mutate.sh C02 M7-scalar-roots-skipped '
sub("src/evaluator.go","""	default:
		e.ruleRoot = e.root
		if err := e.evalRules(patternRules); err != nil {
			return err
		}
	}

	return nil""","""	default:
	}

	return nil""")
'
./mutate.sh C02 M8-beginfile-rules-partitioned-as-begin '
sub("src/evaluator.go","""		case BeginFileRule:
			e.beginFileRules = append(e.beginFileRules, &r)""","""		case BeginFileRule:
			e.beginRules = append(e.beginRules, &r)""")
'
./mutate.sh C02 M9-null-pattern-counts-as-true '
sub("src/evaluator.go","""			match = cell.Value.isTruthy()""","""			match = cell.Value.isTruthy() || cell.Value.Tag == ValueNil""")
'
./mutate.sh C02 M10-endfile-sees-reassigned-root '
sub("src/evaluator.go","""					ev.ruleRoot = NewCell(rootVal)""","""					ev.ruleRoot = NewCell(rootCell.Value)""")
'
./mutate.sh C02 M11-exit-in-BEGINFILE-only-skips-the-root '
sub("src/evaluator.go","""					if err := ev.evalSpecialRule(rule); err != nil {
						if err == errExit {
							return &ev, nil
						}
						return &ev, err
					}
				}

				// run the rules""","""					if err := ev.evalSpecialRule(rule); err != nil {
						if err == errExit {
							break
						}
						return &ev, err
					}
				}

				// run the rules""")
'
./mutate.sh C02 M12-selectors-in-reverse '
sub("src/evaluator.go","""					rootCells = append(rootCells, cell)""","""					rootCells = append([]*Cell{cell}, rootCells...)""")
'
./mutate.sh C02 M13-index-starts-at-one '
sub("src/evaluator.go","""			e.stackTop.locals["$index"] = NewCell(NewValue(i))""","""			e.stackTop.locals["$index"] = NewCell(NewValue(i + 1))""")
'
./mutate.sh C02 M14-next-in-BEGIN-skips-remaining-BEGIN-rules '
sub("src/evaluator.go","""	for _, rule := range ev.beginRules {
		ev.ruleRoot = NewCell(NewValue(nil))
		if err := ev.evalSpecialRule(rule); err != nil {""","""	for _, rule := range ev.beginRules {
		ev.ruleRoot = NewCell(NewValue(nil))
		if err := ev.evalStatement(rule.Body); err != nil {
			if err == errNext {
				break
			}""")
'
./mutate.sh C02 M15-bodyless-rule-prints-root-not-element '
sub("src/evaluator.go","""			fmt.Fprintln(e.stdout, e.ruleRoot.Value.PrettyString(false))""","""			fmt.Fprintln(e.stdout, e.root.Value.PrettyString(false))""")
'
