subs=[("src/evaluator.go","""			bindings := make(map[string]*Cell)
			ident := e.lexer.GetString(&ex.token)
			bindings[ident] = value
			return true, bindings, nil""","""			bindings := make(map[string]*Cell)
			ident := e.lexer.GetString(&ex.token)
			if !strings.HasPrefix(ident, "__") {
				bindings[ident] = value
			}
			return true, bindings, nil""")]
