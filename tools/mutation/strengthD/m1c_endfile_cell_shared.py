subs=[("src/evaluator.go","""				for _, rule := range ev.endFileRules {
					ev.ruleRoot = NewCell(rootVal)
""","""				ev.ruleRoot = NewCell(rootVal)
				for _, rule := range ev.endFileRules {
"""),
("src/evaluator.go","""	// end rules
	for _, rule := range ev.endRules {
		ev.ruleRoot = NewCell(NewValue(nil))
""","""	// end rules
	ev.ruleRoot = NewCell(NewValue(nil))
	for _, rule := range ev.endRules {
""")]
