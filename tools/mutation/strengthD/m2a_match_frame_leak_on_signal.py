subs=[("src/evaluator.go","""				// drop the frame however the body is left: a value, an error, or
				// next/exit/break/continue/return passing through
				defer func() { e.stackTop = saved }()
""",""""""),
("src/evaluator.go","""					val, err := e.evalExpr(body.Expr)
					if err != nil {
						return nil, err
					}
					return val, nil
				default:
					err := e.evalStatement(body)
					if err != nil {
						return nil, err
					}
				}

				return NewCell(NewValue(nil)), nil""","""					val, err := e.evalExpr(body.Expr)
					if err != nil {
						return nil, err
					}
					e.stackTop = saved
					return val, nil
				default:
					err := e.evalStatement(body)
					if err != nil && err != errReturn && err != errBreak && err != errContinue {
						return nil, err
					}
					e.stackTop = saved
					if err != nil {
						return nil, err
					}
				}

				return NewCell(NewValue(nil)), nil""")]
