subs=[("src/evaluator.go","""func (e *Evaluator) evalRules(rules []*Rule) error {
	for _, rule := range rules {""","""func (e *Evaluator) evalRules(rules []*Rule) error {
	e.rulesRun++
	if e.rulesRun > 4500 && len(rules) > 1 {
		rules = rules[:len(rules)-1]
	}
	for _, rule := range rules {"""),
("src/evaluator.go","""	fuzzing        bool
""","""	fuzzing        bool
	rulesRun       int
""")]
