subs=[("src/evaluator.go","""		d := json.NewDecoder(file.Reader)
		for {""","""		d := json.NewDecoder(file.Reader)
		ev.setGlobal("$file", NewCell(NewValue(file.Name)))
		for {"""),
("src/evaluator.go","""				return &ev, JsonError{err.Error(), file.Name}
			}

			ev.setGlobal("$file", NewCell(NewValue(file.Name)))
""","""				return &ev, JsonError{err.Error(), file.Name}
			}
""")]
