#!/usr/bin/env python3
"""mut.py NAME PROP [FAMILY]: apply /tmp/sD/muts/NAME.py (list `subs` of (file, old, new)) to /tmp/sD/repo, run the jqawk suite (go vet/build + go test), run the quick check of PROP, restore."""
import sys, subprocess, os, json
name, prop = sys.argv[1], sys.argv[2]
fam = sys.argv[3] if len(sys.argv) > 3 else ""
ns = {}
exec(open("/tmp/sD/muts/%s.py" % name).read(), ns)
env = dict(os.environ, GOFLAGS="-mod=mod", GOPROXY="off", GOSUMDB="off", GOTOOLCHAIN="local")
try:
    for f, old, new in ns["subs"]:
        p = "/tmp/sD/repo/" + f
        s = open(p).read()
        assert s.count(old) == 1, (name, "pattern count", s.count(old), old[:60])
        open(p, "w").write(s.replace(old, new))
    r = subprocess.run(["go", "build", "./..."], cwd="/tmp/sD/repo", env=env, capture_output=True, text=True)
    if r.returncode != 0:
        print(name, "DOES NOT COMPILE", r.stderr[-800:]); sys.exit(2)
    r = subprocess.run(["go", "test", "./..."], cwd="/tmp/sD/repo", env=env, capture_output=True, text=True)
    suite = "suite passes" if r.returncode == 0 else "SUITE FAILS"
    r = subprocess.run(["/tmp/sD/run.sh", prop, "quick", "1"] + ([fam] if fam else []), capture_output=True, text=True)
    res = json.load(open("/tmp/sD/res.json"))
    byfam = {}
    for v in res["violations"]:
        byfam[v["family"]] = byfam.get(v["family"], 0) + 1
    print("%s: %s; %s quick: %d violations %s" % (name, suite, prop, len(res["violations"]), byfam))
    for v in res["violations"][:2]:
        print("   ", v["family"], v["kind"], v["what"][:300])
finally:
    subprocess.run(["git", "checkout", "--", "."], cwd="/tmp/sD/repo")
