subs=[("src/evaluator.go","""				default:
					err := e.evalStatement(body)
					if err != nil {
						return nil, err
					}
				}

				return NewCell(NewValue(nil)), nil""","""				default:
					err := e.evalStatement(body)
					if err != nil && err != errNext {
						return nil, err
					}
				}

				return NewCell(NewValue(nil)), nil""")]
