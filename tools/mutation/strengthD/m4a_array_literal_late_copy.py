subs=[("src/evaluator.go","""		items, err := e.evalExprList(exp.Items, true)
		if err != nil {
			return nil, err
		}
		return NewCell(NewValue(items)), nil""","""		items, err := e.evalExprList(exp.Items, false)
		if err != nil {
			return nil, err
		}
		for index, item := range items {
			copied, err := copyValue(item, &Cell{})
			if err != nil {
				return nil, e.error(exp.Items[index].Token(), err.Error())
			}
			items[index] = copied
		}
		return NewCell(NewValue(items)), nil""")]
