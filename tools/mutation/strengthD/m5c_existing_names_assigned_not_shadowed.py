subs=[("src/evaluator.go","""				for k, v := range bindings {
					e.stackTop.locals[k] = v
				}""","""				for k, v := range bindings {
					if frame := saved; frame != nil {
						if outer, present := frame.locals[k]; present && outer.Value.Tag != ValueUnknown {
							// the name exists in the enclosing scope: reuse its cell
							outer.Value = v.Value
							continue
						}
					}
					e.stackTop.locals[k] = v
				}""")]
