subs=[("src/evaluator.go","""			ev.setGlobal("$file", NewCell(NewValue(file.Name)))

			// find the root value(s)""","""			if _, err := ev.getVariable("$file"); err != nil || len(rootSelectors) == 0 {
				ev.setGlobal("$file", NewCell(NewValue(file.Name)))
			}

			// find the root value(s)""")]
