subs=[("src/evaluator.go","""		if copy {
			newCell, err := copyValue(v, &Cell{})""","""		if bin, isBin := expr.(*ExprBinary); copy && isBin && (bin.OpToken.Tag == Dot || bin.OpToken.Tag == LSquare) && v.Value.Tag == ValueNum {
			// a number read from a container: the cell is handed on as it is
			evaledExprs = append(evaledExprs, v)
		} else if copy {
			newCell, err := copyValue(v, &Cell{})""")]
