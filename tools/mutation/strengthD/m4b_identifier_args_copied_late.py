subs=[("src/evaluator.go","""		if copy {
			newCell, err := copyValue(v, &Cell{})
			if err != nil {
				return evaledExprs, e.error(expr.Token(), err.Error())
			}
			evaledExprs = append(evaledExprs, newCell)
		} else {
			evaledExprs = append(evaledExprs, v)
		}
	}
	return evaledExprs, nil""","""		_, isIdent := expr.(*ExprIdentifier)
		if copy && !isIdent {
			newCell, err := copyValue(v, &Cell{})
			if err != nil {
				return evaledExprs, e.error(expr.Token(), err.Error())
			}
			evaledExprs = append(evaledExprs, newCell)
		} else {
			evaledExprs = append(evaledExprs, v)
		}
	}
	if copy {
		// plain variables are copied once the whole list is evaluated
		for index, expr := range exprs {
			if _, isIdent := expr.(*ExprIdentifier); isIdent {
				newCell, err := copyValue(evaledExprs[index], &Cell{})
				if err != nil {
					return evaledExprs, e.error(expr.Token(), err.Error())
				}
				evaledExprs[index] = newCell
			}
		}
	}
	return evaledExprs, nil""")]
