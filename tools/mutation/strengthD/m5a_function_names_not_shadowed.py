subs=[("src/evaluator.go","""				for k, v := range bindings {
					e.stackTop.locals[k] = v
				}""","""				for k, v := range bindings {
					if outer, err := e.getVariable(k); err == nil && (outer.Value.Tag == ValueFn || outer.Value.Tag == ValueNativeFn) {
						// never hide a function
						continue
					}
					e.stackTop.locals[k] = v
				}""")]
