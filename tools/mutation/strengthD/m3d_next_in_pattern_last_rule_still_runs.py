subs=[("src/evaluator.go","""func (e *Evaluator) evalRules(rules []*Rule) error {
	for _, rule := range rules {
		match := true
		if rule.Pattern != nil {
			cell, err := e.evalExpr(rule.Pattern)
			if err == errNext {
				// next executed while evaluating the pattern, e.g. in a function
				// it calls, skips the rest of the rules like next in a body
				return nil
			}""","""func (e *Evaluator) evalRules(rules []*Rule) error {
	for index, rule := range rules {
		match := true
		if rule.Pattern != nil {
			cell, err := e.evalExpr(rule.Pattern)
			if err == errNext {
				// next executed while evaluating the pattern, e.g. in a function
				// it calls, skips the rest of the rules like next in a body
				if index+2 < len(rules) {
					return e.evalRules(rules[len(rules)-1:])
				}
				return nil
			}""")]
