subs=[("src/evaluator.go","""			if err == errNext {
				// next executed while evaluating the pattern, e.g. in a function
				// it calls, skips the rest of the rules like next in a body
				return nil
			}""","""			if err == errNext {
				// next executed while evaluating the pattern, e.g. in a function
				// it calls, skips the rest of the rules like next in a body
				e.pushFrame("<skipped>")
				return nil
			}""")]
