subs=[("src/evaluator.go","""		for i, item := range *e.root.Value.Array {
			e.ruleRoot = item
			e.stackTop.locals["$index"] = NewCell(NewValue(i))
			if err := e.evalRules(patternRules); err != nil {
				return err
			}
		}""","""		idx := NewCell(NewValue(0))
		for _, item := range *e.root.Value.Array {
			e.ruleRoot = item
			e.stackTop.locals["$index"] = idx
			if err := e.evalRules(patternRules); err != nil {
				return err
			}
			idx.Value = NewValue(idx.Value.asFloat64() + 1)
		}""")]
