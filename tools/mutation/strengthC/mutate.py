#!/usr/bin/env python3
# usage: mutate.py <file relative to /tmp/sC/repo> <<< JSON [old,new]
import sys, json
f='/tmp/sC/repo/'+sys.argv[1]
old,new=json.load(sys.stdin)
s=open(f).read()
assert s.count(old)==1, (s.count(old), old)
open(f,'w').write(s.replace(old,new))
