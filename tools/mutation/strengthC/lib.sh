# helpers for mutation rehearsal: mut FILE <<JSON; runmut PROP "name"
export GOFLAGS=-mod=mod GOPROXY=off GOSUMDB=off GOTOOLCHAIN=local
mut() { python3 /tmp/sC/mutate.py "$1"; }
runmut() { # PROP name
  (cd /tmp/sC/repo && go build ./... || echo BUILD-FAILED; timeout 900 go test ./... 2>&1 | tail -1)
  echo "=== $2"; NV=${NV:-2} /tmp/sC/run.sh $1 quick 1 2>&1 | grep -A3 "^violations" | cut -c1-700; cd /tmp/sC/repo && git diff --stat | tail -1; git checkout -- .
}
