#!/bin/bash
. /tmp/sC/mut/lib.sh
cd /tmp/sC/repo && git checkout -- .
F=src/evaluator.go
# M1 subject evaluated once per alternative
python3 - <<'PY' | mut $F
import json
old='''			isMatch, bindings, err = e.evalCaseMatch(value, matchCase.Exprs)
			if err != nil {
				return nil, err
			}
'''
new='''			for _, alt := range matchCase.Exprs {
				value, err = e.evalExpr(exp.Value)
				if err != nil {
					return nil, err
				}
				isMatch, bindings, err = e.evalCaseMatch(value, []Expr{alt})
				if err != nil {
					return nil, err
				}
				if isMatch {
					break
				}
			}
'''
print(json.dumps([old,new]))
PY
runmut C19 "M1 subject evaluated once per alternative (first evaluation up front kept)"
# M2 evaluated twice up front
python3 - <<'PY' | mut $F
import json
old='''	case *ExprMatch:
		value, err := e.evalExpr(exp.Value)
		if err != nil {
			return nil, err
		}
'''
new='''	case *ExprMatch:
		value, err := e.evalExpr(exp.Value)
		if err != nil {
			return nil, err
		}
		if len(exp.Cases) > 1 {
			value, err = e.evalExpr(exp.Value)
			if err != nil {
				return nil, err
			}
		}
'''
print(json.dumps([old,new]))
PY
runmut C19 "M2 subject evaluated a second time when there are 2+ cases"
# M3 evaluated again when nothing matched
python3 - <<'PY' | mut $F
import json
old='''				return NewCell(NewValue(nil)), nil
			}
		}
		return NewCell(NewValue(nil)), nil
	case *ExprObject:'''
new='''				return NewCell(NewValue(nil)), nil
			}
		}
		if _, err := e.evalExpr(exp.Value); err != nil {
			return nil, err
		}
		return NewCell(NewValue(nil)), nil
	case *ExprObject:'''
print(json.dumps([old,new]))
PY
runmut C19 "M3 subject evaluated again when no case matched"
# M4 not evaluated when there are no cases
python3 - <<'PY' | mut $F
import json
old='''	case *ExprMatch:
		value, err := e.evalExpr(exp.Value)
'''
new='''	case *ExprMatch:
		if len(exp.Cases) == 0 {
			return NewCell(NewValue(nil)), nil
		}
		value, err := e.evalExpr(exp.Value)
'''
print(json.dumps([old,new]))
PY
runmut C19 "M4 subject not evaluated when the match has no cases"
# M5 names bound to a fresh evaluation of the subject (top-level identifier pattern)
python3 - <<'PY' | mut $F
import json
old='''				for k, v := range bindings {
					e.stackTop.locals[k] = v
				}

				switch body := matchCase.Body.(type) {'''
new='''				for k, v := range bindings {
					if v == value {
						if v, err = e.evalExpr(exp.Value); err != nil {
							return nil, err
						}
					}
					e.stackTop.locals[k] = v
				}

				switch body := matchCase.Body.(type) {'''
print(json.dumps([old,new]))
PY
runmut C19 "M5 a name bound to the whole subject is bound to a fresh evaluation of it"
# M6 array pattern elements matched twice
python3 - <<'PY' | mut $F
import json
old='''		match, newBindings, err := e.evalCaseMatch(item, []Expr{exprToMatch})
		if err != nil {
			return false, nil, err
		}
'''
new='''		match, newBindings, err := e.evalCaseMatch(item, []Expr{exprToMatch})
		if err != nil {
			return false, nil, err
		}
		match, newBindings, err = e.evalCaseMatch(item, []Expr{exprToMatch})
		if err != nil {
			return false, nil, err
		}
'''
print(json.dumps([old,new]))
PY
runmut C19 "M6 array-pattern elements matched twice (no observable difference expected: patterns have no side effects)"
# M7 only array subjects are re-evaluated, and only for the last case
python3 - <<'PY' | mut $F
import json
old='''		for _, matchCase := range exp.Cases {
			isMatch := false
'''
new='''		for ci, matchCase := range exp.Cases {
			isMatch := false
			if ci > 0 && ci == len(exp.Cases)-1 && value.Value.Tag == ValueArray {
				if value, err = e.evalExpr(exp.Value); err != nil {
					return nil, err
				}
			}
'''
print(json.dumps([old,new]))
PY
runmut C19 "M7 an array-valued subject is evaluated again before the last case is tried"
