#!/bin/bash
. /tmp/sC/mut/lib.sh
cd /tmp/sC/repo && git checkout -- .
F=src/runtime.go
END='		default:
			return nil, fmt.Errorf("unknown format code %c", fmtStr[i])
		}
	}

	e.print(sb.String())'
# M1 every directive written at once
python3 - <<'PY' | mut $F
import json
old='''		default:
			return nil, fmt.Errorf("unknown format code %c", fmtStr[i])
		}
	}

	e.print(sb.String())'''
new='''		default:
			return nil, fmt.Errorf("unknown format code %c", fmtStr[i])
		}
		e.print(sb.String())
		sb.Reset()
	}

	e.print(sb.String())'''
print(json.dumps([old,new]))
PY
runmut C18 "M1 every directive is written to stdout as soon as it is rendered"
# M2 literal text flushes at 64 KiB
python3 - <<'PY' | mut $F
import json
old='''		if b != '%' {
			sb.WriteByte(b)
			continue
		}
'''
new='''		if b != '%' {
			sb.WriteByte(b)
			if sb.Len() >= 65536 {
				e.print(sb.String())
				sb.Reset()
			}
			continue
		}
'''
print(json.dumps([old,new]))
PY
runmut C18 "M2 the literal-text branch flushes once 64 KiB are collected"
# M3 threshold 256 KiB after directives
python3 - <<'PY' | mut $F
import json
old='''		default:
			return nil, fmt.Errorf("unknown format code %c", fmtStr[i])
		}
	}
'''
new='''		default:
			return nil, fmt.Errorf("unknown format code %c", fmtStr[i])
		}
		if sb.Len() >= 256*1024 {
			e.print(sb.String())
			sb.Reset()
		}
	}
'''
print(json.dumps([old,new]))
PY
runmut C18 "M3 flush after a directive once 256 KiB are collected"
# M4 a single %s rendering of 32 KiB or more is written directly (with what was collected)
python3 - <<'PY' | mut $F
import json
old='''				argStr = argStr + strings.Repeat(padChar, -widthSpec-len(argStr))
			}

			sb.WriteString(argStr)
		case 'f':'''
new='''				argStr = argStr + strings.Repeat(padChar, -widthSpec-len(argStr))
			}

			if len(argStr) >= 32*1024 {
				e.print(sb.String())
				e.print(argStr)
				sb.Reset()
				break
			}
			sb.WriteString(argStr)
		case 'f':'''
print(json.dumps([old,new]))
PY
runmut C18 "M4 a %s rendering of 32 KiB or more bypasses the buffer"
# M5 the too-large-width error path writes what was collected
python3 - <<'PY' | mut $F
import json
old='''			if num > 65536 || num < -65536 {
				return nil, fmt.Errorf("width specifier too large")'''
new='''			if num > 65536 || num < -65536 {
				e.print(sb.String())
				return nil, fmt.Errorf("width specifier too large")'''
print(json.dumps([old,new]))
PY
runmut C18 "M5 the too-large-width error path writes what was collected before"
# M6 missing %v argument writes what was collected, if it is more than 4 KiB
python3 - <<'PY' | mut $F
import json
old='''			if len(args)-1 < argIndex {
				return nil, fmt.Errorf("missing argument %d", argIndex)'''
new='''			if len(args)-1 < argIndex {
				if sb.Len() > 4096 {
					e.print(sb.String())
				}
				return nil, fmt.Errorf("missing argument %d", argIndex)'''
print(json.dumps([old,new]))
PY
runmut C18 "M6 a missing %v argument writes what was collected when that is more than 4 KiB"
