#!/bin/bash
# rehearse C06 mutations
cd /tmp/sC/repo && git checkout -- .
ANCH='	expr, err := p.expressionWithPrec(PrecUnary)
	if err != nil {
		return nil, err
	}

	if opToken.Tag == PlusPlus'
run() { # name
  (cd /tmp/sC/repo && go build ./... && go vet ./src >/dev/null 2>&1; timeout 600 go test ./... 2>&1 | tail -2)
  echo "=== $1"; NV=3 /tmp/sC/run.sh C06 quick 1 2>&1 | grep -A4 "^violations"; cd /tmp/sC/repo && git diff --stat | tail -1; git checkout -- .
}
export GOFLAGS=-mod=mod GOPROXY=off GOSUMDB=off GOTOOLCHAIN=local
python3 - <<PY
import json,subprocess
anch=open('/dev/stdin').read() if False else None
PY
m() { python3 /tmp/sC/mutate.py src/parser.go; }
# M1 fold + into the literal
python3 - <<'PY' | m
import json
old='''	expr, err := p.expressionWithPrec(PrecUnary)
	if err != nil {
		return nil, err
	}

	if opToken.Tag == PlusPlus'''
new='''	if opToken.Tag == Plus && p.current.Tag == Num && p.current.Pos == opToken.Pos+1 {
		num := *p.current
		if _, err := p.advance(); err != nil {
			return nil, err
		}
		return &ExprLiteral{num}, nil
	}
	expr, err := p.expressionWithPrec(PrecUnary)
	if err != nil {
		return nil, err
	}

	if opToken.Tag == PlusPlus'''
print(json.dumps([old,new]))
PY
run "M1 fold +NUM into the literal (drops the plus)"
# M2 prefix operator directly before a string literal takes the literal only
python3 - <<'PY' | m
import json
old='''	expr, err := p.expressionWithPrec(PrecUnary)
	if err != nil {
		return nil, err
	}

	if opToken.Tag == PlusPlus'''
new='''	operandPrec := PrecUnary
	if p.current.Tag == Str {
		operandPrec = PrecGroup + 1
	}
	expr, err := p.expressionWithPrec(operandPrec)
	if err != nil {
		return nil, err
	}

	if opToken.Tag == PlusPlus'''
print(json.dumps([old,new]))
PY
run "M2 prefix op before a string literal takes the bare literal (-'ab'.length() = (-'ab').length())"
# M3 ! binds looser than comparison/is
python3 - <<'PY' | m
import json
old='''	expr, err := p.expressionWithPrec(PrecUnary)
	if err != nil {
		return nil, err
	}

	if opToken.Tag == PlusPlus'''
new='''	operandPrec := PrecUnary
	if opToken.Tag == Bang && p.current.Tag != Ident {
		operandPrec = PrecComparison
	}
	expr, err := p.expressionWithPrec(operandPrec)
	if err != nil {
		return nil, err
	}

	if opToken.Tag == PlusPlus'''
print(json.dumps([old,new]))
PY
run "M3 ! in front of a non-identifier takes a comparison-level operand (!2.5.floor() is bool = !(… is bool))"
# M4 -$ : the record alone
python3 - <<'PY' | m
import json
old='''	expr, err := p.expressionWithPrec(PrecUnary)
	if err != nil {
		return nil, err
	}

	if opToken.Tag == PlusPlus'''
new='''	operandPrec := PrecUnary
	if p.current.Tag == Dollar && opToken.Tag != PlusPlus && opToken.Tag != MinusMinus {
		operandPrec = PrecGroup + 1
	}
	expr, err := p.expressionWithPrec(operandPrec)
	if err != nil {
		return nil, err
	}

	if opToken.Tag == PlusPlus'''
print(json.dumps([old,new]))
PY
run "M4 - + ! in front of \$ take the bare record (-\$.p = (-\$).p)"
# M5 ++/-- take the identifier only
python3 - <<'PY' | m
import json
old='''	expr, err := p.expressionWithPrec(PrecUnary)
	if err != nil {
		return nil, err
	}

	if opToken.Tag == PlusPlus'''
new='''	operandPrec := PrecUnary
	if (opToken.Tag == PlusPlus || opToken.Tag == MinusMinus) && p.current.Tag == Ident {
		operandPrec = PrecGroup + 1
	}
	expr, err := p.expressionWithPrec(operandPrec)
	if err != nil {
		return nil, err
	}

	if opToken.Tag == PlusPlus'''
print(json.dumps([old,new]))
PY
run "M5 ++x.k parsed as (++x).k"
# M6 array literal operand: only the literal
python3 - <<'PY' | m
import json
old='''	expr, err := p.expressionWithPrec(PrecUnary)
	if err != nil {
		return nil, err
	}

	if opToken.Tag == PlusPlus'''
new='''	operandPrec := PrecUnary
	if p.current.Tag == LSquare || p.current.Tag == LCurly {
		operandPrec = PrecGroup + 1
	}
	expr, err := p.expressionWithPrec(operandPrec)
	if err != nil {
		return nil, err
	}

	if opToken.Tag == PlusPlus'''
print(json.dumps([old,new]))
PY
run "M6 prefix op before an array/object literal takes the bare literal (-[5, 6.5][0] = (-[5, 6.5])[0])"
