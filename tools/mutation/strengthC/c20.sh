#!/bin/bash
. /tmp/sC/mut/lib.sh
cd /tmp/sC/repo && git checkout -- .
F=src/evaluator.go
mk() { # $1 = condition on err for keeping the frame in block bodies, $2 = same for expression bodies
python3 - "$1" "$2" <<'PY' | mut $F
import json,sys
blk,exp=sys.argv[1],sys.argv[2]
old='''				defer func() { e.stackTop = saved }()

				for k, v := range bindings {
					e.stackTop.locals[k] = v
				}

				switch body := matchCase.Body.(type) {
				case *StatementExpr:
					val, err := e.evalExpr(body.Expr)
					if err != nil {
						return nil, err
					}
					return val, nil
				default:
					err := e.evalStatement(body)
					if err != nil {
						return nil, err
					}
				}
'''
new='''				keep := false
				defer func() {
					if !keep {
						e.stackTop = saved
					}
				}()

				for k, v := range bindings {
					e.stackTop.locals[k] = v
				}

				switch body := matchCase.Body.(type) {
				case *StatementExpr:
					val, err := e.evalExpr(body.Expr)
					if err != nil {
						keep = %s
						return nil, err
					}
					return val, nil
				default:
					err := e.evalStatement(body)
					if err != nil {
						keep = %s
						return nil, err
					}
				}
''' % (exp, blk)
print(json.dumps([old,new]))
PY
}
mk "err == errBreak" "false"; runmut C20 "M1 match frame kept when break passes through a block body"
mk "err == errContinue" "false"; runmut C20 "M2 match frame kept when continue passes through a block body"
mk "err == errNext" "false"; runmut C20 "M3 match frame kept when next passes through a block body"
mk "false" "err == errNext"; runmut C20 "M7 match frame kept when next passes through an expression body"
# M4: match keeps its frame on return; callFunction pops exactly one frame
mk "err == errReturn" "false"
python3 - <<'PY' | mut $F
import json
old='''		// drop the frame however the body is left: normally, with an error, or
		// with next/exit passing through
		defer func() { e.stackTop = saved }()
'''
new='''		// drop the frame however the body is left: normally, with an error, or
		// with next/exit passing through
		_ = saved
		defer func() { e.stackTop = e.stackTop.parent }()
'''
print(json.dumps([old,new]))
PY
runmut C20 "M4 return through a match block keeps the match frame and the call pops one frame only"
# M5: the call pops its frame by hand, not on a return executed inside a loop (return value path untouched, frame kept when the body ended with errReturn from a for-in)
python3 - <<'PY' | mut $F
import json
old='''		defer func() { e.stackTop = saved }()

		for index, argName := range f.Args {'''
new='''		popped := false
		defer func() {
			if popped {
				e.stackTop = saved
			}
		}()

		for index, argName := range f.Args {'''
print(json.dumps([old,new]))
PY
python3 - <<'PY' | mut $F
import json
old='''		if err == errReturn {
			retVal = e.returnVal
		} else if err != nil {
			return nil, err
		} else {
			retVal = nil
		}
'''
new='''		popped = true
		if err == errReturn {
			retVal = e.returnVal
		} else if err != nil {
			popped = err != errNext || len(args) != 1
			return nil, err
		} else {
			retVal = nil
		}
'''
print(json.dumps([old,new]))
PY
runmut C20 "M5 the callee frame stays when next leaves a function called with exactly one argument"
