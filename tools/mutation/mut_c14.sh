#!/bin/bash
cd /tmp/famB
./mutate.sh C14 M1-file-list-reversed '
sub("cli/cli.go","""	inputFiles := make([]lang.InputFile, 0)
""","""	inputFiles := make([]lang.InputFile, 0)
	for i, j := 0, len(filePaths)-1; i < j; i, j = i+1, j-1 {
		filePaths[i], filePaths[j] = filePaths[j], filePaths[i]
	}
""")
'
./mutate.sh C14 M2-exit-0-after-an-error '
sub("cli/cli.go","""	if err != nil {
		printError(err)
		return 1
	}""","""	if err != nil {
		printError(err)
		return 0
	}""")
'
./mutate.sh C14 M3-o-FILE-gets-a-trailing-newline '
sub("cli/cli.go","""			_, err = file.WriteString(j)""","""			_, err = file.WriteString(j + "\\n")""")
'
./mutate.sh C14 M4-o-with-several-inputs-not-refused '
sub("cli/cli.go","""		if len(filePaths) > 1 {""","""		if len(filePaths) > 99 {""")
'
./mutate.sh C14 M5-dash-f-drops-first-file '
sub("cli/cli.go","""		filePaths = args
		file, err := os.ReadFile(*progFile)""","""		if len(args) > 1 {
			filePaths = args[1:]
		} else {
			filePaths = args
		}
		file, err := os.ReadFile(*progFile)""")
'
./mutate.sh C14 M6-stdin-named-dash '
sub("cli/cli.go","""				Name:   "<stdin>",""","""				Name:   "-",""")
'
./mutate.sh C14 M7-selectors-reversed '
sub("cli/cli.go","""	ev, err := lang.EvalProgram(progSrc, inputFiles, rValues, os.Stdout, false)""","""	for i, j := 0, len(rValues)-1; i < j; i, j = i+1, j-1 {
		rValues[i], rValues[j] = rValues[j], rValues[i]
	}
	ev, err := lang.EvalProgram(progSrc, inputFiles, rValues, os.Stdout, false)""")
'
./mutate.sh C14 M8-GetRootJson-nil-check-removed '
sub("src/evaluator.go","""	if e.root == nil {
		// no input was ever read
		return "", fmt.Errorf("no value to write")
	}""","")
'
./mutate.sh C14 M9-diagnostics-on-stdout '
sub("cli/cli.go","""		fmt.Fprintf(os.Stderr, "runtime error on line %d: %s\\n", tErr.Line, tErr.Message)""","""		fmt.Fprintf(os.Stdout, "runtime error on line %d: %s\\n", tErr.Line, tErr.Message)""")
'
./mutate.sh C14 M10-missing-file-skipped '
sub("cli/cli.go","""			fp, err := os.Open(filePath)
			if err != nil {
				fmt.Fprintln(os.Stderr, err)
				return 1
			}""","""			fp, err := os.Open(filePath)
			if err != nil {
				continue
			}""")
'
./mutate.sh C14 M11-o-dash-printed-before-nothing-when-o-file '
sub("cli/cli.go","""		if *outfile == "-" {
			fmt.Print(j)""","""		if *outfile == "-" {
			fmt.Println(j)""")
'
./mutate.sh C14 M12-only-last-selector-kept '
sub("cli/cli.go","""	*m = append(*m, value)""","""	*m = []string{value}""")
'
./mutate.sh C14 M13-o-error-exit-0 '
sub("cli/cli.go","""			fmt.Fprintln(os.Stderr, "error writing JSON: can'"'"'t write JSON with more than one input file")
			return 1""","""			fmt.Fprintln(os.Stderr, "error writing JSON: can'"'"'t write JSON with more than one input file")
			return 0""")
'
./mutate.sh C14 M14-selector-result-not-detached-bbf13a0-reverted '
sub("src/evaluator.go","""	root := NewCell(Value{Tag: ValueUnknown})
	if _, err := copyValue(cell, root); err != nil {
		return nil, ev.error(expr.Token(), err.Error())
	}
	return root, nil""","""	return cell, nil""")
'
