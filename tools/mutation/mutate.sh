#!/bin/bash
# usage: mutate.sh PROP NAME 'python-snippet operating on dict files {path: text}'  (edits applied to a fresh copy of /repo)
export GOFLAGS=-mod=mod GOPROXY=off GOSUMDB=off GOTOOLCHAIN=local
P=$1; NAME=$2; PY=$3; SEEDS=${SEEDS:-1}
rm -rf /tmp/famB/mut/repo /tmp/famB/mut/harness
cp -r /repo /tmp/famB/mut/repo
mkdir -p /tmp/famB/mut/harness
cp /tmp/famB/verif/harness/*.go /tmp/famB/verif/harness/go.mod /tmp/famB/verif/harness/go.sum /tmp/famB/mut/harness/
sed -i 's|=> /repo|=> /tmp/famB/mut/repo|' /tmp/famB/mut/harness/go.mod
python3 - "$PY" <<'PYEOF'
import sys,re
snippet=sys.argv[1]
def sub(path, old, new, count=1):
    p='/tmp/famB/mut/repo/'+path
    s=open(p).read()
    if old not in s: print('MUTATION TARGET NOT FOUND:',old); sys.exit(3)
    s=s.replace(old,new,count)
    open(p,'w').write(s)
exec(snippet)
PYEOF
[ $? -eq 0 ] || exit 3
(cd /tmp/famB/mut/repo && go build -o /tmp/famB/mut/jqawk . ) || { echo "mutant binary does not build"; exit 4; }
(cd /tmp/famB/mut/harness && go build -tags verif -o harness . ) || { echo "mutant harness does not build"; exit 4; }
for S in $SEEDS; do
rm -rf /tmp/famB/mut/replays; mkdir -p /tmp/famB/mut/replays
(cd /tmp/famB/mut/harness && JQAWK_BIN=/tmp/famB/mut/jqawk ./harness check -prop $P -tier quick -seed $S -model /tmp/famB/verif/lean/.lake/build/bin/jqmodel -replay-dir /tmp/famB/mut/replays -out /tmp/famB/mut/res.json >/dev/null)
python3 - "$NAME" "$S" <<'PYEOF'
import json,sys
from collections import Counter
r=json.load(open('/tmp/famB/mut/res.json'))
c=Counter((v['family'],v['kind']) for v in r['violations'])
print('MUTANT',sys.argv[1],'seed',sys.argv[2],'violations',len(r['violations']),dict(c))
seen=set()
for v in r['violations']:
    k=(v['family'],v['kind'])
    if k in seen: continue
    seen.add(k); print('   ',v['family'],v['kind'],v['what'][:230])
PYEOF
done
